(** C04 -- session state machine: fid binding, open state and mode checks.
    Statements only; proofs in Server/SpecProofs.v (the specification), Server/Ledger.v (the
    reference ledger), Server/Refine.v and Server/FaultProofs.v (model against specification),
    Server/TableFrame.v, Server/SummaryProofs.v (the source).

    The specification [spec_step] (Server/SessionSpec.v) shares its refusal table ([guards_of],
    [names_of], [fid1_of], [fid2_of] in Server/Msg.v) with the model, which interprets the same
    table in [guarded] (Server/Handlers.v); the table is compared with the Go source on every run.

    PROVED, all states / requests / tapes, and lifted to every history from NewServer:
      - the invariant [Ledger]: refs r >= #fid-table entries of r + #live fidRefs whose parent or
        xattrOf is r; hence a bound fid's fidRef holds a reference ([C04_bound_fid_holds_reference]);
      - every refusal of the specification -- unsafe name, unbound first or second fid, EVERY guard
        (on bound fids), Tauth, auth-fid attach, unhandled type -- is an exact no-op of the model with
        that errno: same state, no backend call, tape untouched ([C04_refines_refusals]);
      - the fid table changes only at the fids the request names ([C04_other_fids_untouched]).
      - the whole-request refinement [C04_refines] for EVERY request kind, state, tape (errors, EOF,
        panics at any call index): for some backend outcome and fence, the reply class, the binding of
        every fid of every connection and the negotiated sizes after [step] are those of [spec_step]
        (Twalk / Twalkgetattr / Tattach / Txattrwalk / Tlcreate bind a fidRef allocated by the request
        whose view is the prescribed one; Tclunk / Tremove unbind -- also when refused by a guard or
        when the backend fails; every other fid's view changes only by fencing), under the invariant
        [Inv2] = ledger + injective fid table + structural invariant of the path tree, which holds
        after every history ([C04_refines_every_history]).  Proofs: Server/ViewFrame.v (view frame),
        Server/RefineBind.v (binders / unbinders), Server/RefineAll.v (assembly). *)
From Coq Require Import NArith ZArith List String Bool.
From P9V Require Import Base.Str gen.ConstGen gen.HandlerGen Server.State Server.Msg Server.SessionSpec Server.Handlers
  Server.Summaries Server.NameProofs Server.SummaryProofs Server.SpecProofs Server.FaultProofs Server.Ledger Server.Refine Server.TableFrame Server.RefineOk Server.TableInj Server.ViewFrame Server.RefineBind Server.RefineAll Server.OpenPar.
Import ListNotations.
Open Scope N_scope.

(** ---- the specification, read off ---- *)
Theorem C04_ebadf_unbound : forall a c m k o fence,
  kind_of m = Some k -> forallb safe_nameb (names_of m) = true -> a_fids a c (fid1_of m) = None ->
  (forall f, m <> Tremove f) ->
  spec_step a c m o fence = (a, Some linux_EBADF).
Proof. intros. apply spec_reject_no_change; auto. eapply spec_unbound; eauto. Qed.
Print Assumptions C04_ebadf_unbound.
Theorem C04_ebadf_unbound_second : forall a c m k p f2,
  kind_of m = Some k -> forallb safe_nameb (names_of m) = true -> a_fids a c (fid1_of m) = Some p ->
  fid2_of m = Some f2 -> a_fids a c f2 = None -> spec_reject a c m = Some linux_EBADF.
Proof. exact spec_unbound_second. Qed.
Theorem C04_refused_changes_nothing : forall a c m e o fence,
  spec_reject a c m = Some e -> (forall f, m <> Tremove f) -> spec_step a c m o fence = (a, Some e).
Proof. exact spec_reject_no_change. Qed.

Theorem C04_clunk_always_unbinds : forall a c f p o fence,
  a_fids a c f = Some p -> o <> BPanicEarly -> a_fids (fst (spec_step a c (Tclunk f) o fence)) c f = None.
Proof. exact spec_clunk_unbinds. Qed.
Theorem C04_remove_always_unbinds : forall a c f p o fence,
  a_fids a c f = Some p -> o <> BPanicEarly -> a_fids (fst (spec_step a c (Tremove f) o fence)) c f = None.
Proof. exact spec_remove_unbinds. Qed.
Print Assumptions C04_remove_always_unbinds.

Theorem C04_bind_only_on_success : forall a c m o fence e,
  binds m = true -> (forall k fz n, o <> BPanicLate k fz n) -> snd (spec_step a c m o fence) = Some e ->
  fst (spec_step a c m o fence) = a \/ fst (spec_step a c m o fence) = apply_fence fence a.
Proof. exact spec_bind_only_on_success. Qed.
Theorem C04_walk_binds_newfid : forall a c f nf n names p k fz sz fence,
  spec_reject a c (Twalk f nf (n :: names)) = None -> a_fids a c f = Some p ->
  a_fids (fst (spec_step a c (Twalk f nf (n :: names)) (BOk k fz sz) fence)) c nf =
    Some (let v := fresh_view k fz false in if fence c nf then fence_view v else v).
Proof. exact spec_walk_binds. Qed.
Theorem C04_lcreate_rebinds_open : forall a c u f name flags perm gid k fz sz fence,
  spec_reject a c (Tlcreate u f name flags perm gid) = None ->
  exists v, a_fids (fst (spec_step a c (Tlcreate u f name flags perm gid) (BOk k fz sz) fence)) c f = Some v
            /\ v_opened v = true /\ v_flags v = flags /\ v_mode v = p9_ModeRegular.
Proof. exact spec_lcreate_rebinds_open. Qed.

(** reads, writes, readdir, fsync: EINVAL unopened, EPERM wrong mode *)
Theorem C04_io_needs_open : forall a c f p ms,
  a_fids a c f = Some p -> a_neg a c = Some ms -> v_xop p = p9_xattrNone ->
  (forall off count, (p9_maximumLength <? count) = false -> v_opened p = false -> spec_reject a c (Tread f off count) = Some linux_EINVAL) /\
  (forall off count, (p9_maximumLength <? count) = false -> v_opened p = true -> open_mode (v_flags p) = p9_WriteOnly ->
                     spec_reject a c (Tread f off count) = Some linux_EPERM) /\
  (forall off len, v_opened p = false -> spec_reject a c (Twrite f off len) = Some linux_EINVAL) /\
  (forall off len, v_opened p = true -> open_mode (v_flags p) = p9_ReadOnly -> spec_reject a c (Twrite f off len) = Some linux_EPERM) /\
  (forall off count, v_deleted p = false -> is_dir (v_mode p) = true -> v_opened p = false ->
                     spec_reject a c (Treaddir f off count) = Some linux_EINVAL) /\
  (v_opened p = false -> spec_reject a c (Tfsync f) = Some linux_EINVAL).
Proof.
  intros a c f p ms Hb Hn Hx. repeat split; intros.
  - eapply spec_read_unopened; eauto.
  - eapply spec_read_writeonly; eauto.
  - eapply spec_write_unopened; eauto.
  - eapply spec_write_readonly; eauto.
  - eapply spec_readdir_unopened; eauto.
  - eapply spec_fsync_unopened; eauto.
Qed.
Print Assumptions C04_io_needs_open.

Theorem C04_xattr_subprotocol : forall a c f p,
  a_fids a c f = Some p ->
  (forall off len, v_xop p = p9_xattrWalk -> spec_reject a c (Twrite f off len) = Some linux_EINVAL) /\
  (forall ms off count, a_neg a c = Some ms -> (p9_maximumLength <? count) = false -> v_xop p = p9_xattrCreate ->
                        spec_reject a c (Tread f off count) = Some linux_EINVAL) /\
  (forall off len, v_xop p = p9_xattrCreate -> (v_xlen p =? off) = false -> spec_reject a c (Twrite f off len) = Some linux_EINVAL).
Proof.
  intros a c f p Hb. repeat split; intros.
  - eapply spec_xattr_walk_write; eauto.
  - eapply spec_xattr_create_read; eauto.
  - eapply spec_xattr_create_offset; eauto.
Qed.

Theorem C04_open_once : forall a c f p flags,
  a_fids a c f = Some p -> v_deleted p = false -> v_opened p = true -> spec_reject a c (Tlopen f flags) = Some linux_EINVAL.
Proof. intros; eapply spec_open_once; eauto. Qed.
Theorem C04_open_type : forall a c f p flags,
  a_fids a c f = Some p -> v_deleted p = false -> can_open (v_mode p) = false -> spec_reject a c (Tlopen f flags) = Some linux_EINVAL.
Proof. intros; eapply spec_open_type; eauto. Qed.
Theorem C04_dir_readonly : forall a c f p flags,
  a_fids a c f = Some p -> v_deleted p = false -> v_opened p = false -> is_dir (v_mode p) = true ->
  (open_mode flags =? p9_ReadOnly) = false -> spec_reject a c (Tlopen f flags) = Some linux_EISDIR.
Proof. intros; eapply spec_dir_readonly; eauto. Qed.

Theorem C04_opened_dir_refused : forall a c f p,
  a_fids a c f = Some p -> v_deleted p = false -> is_dir (v_mode p) = true -> v_opened p = true ->
  (forall names, spec_reject a c (Twalk f f names) = Some linux_EBUSY) /\
  (forall names, spec_reject a c (Twalkgetattr f f names) = Some linux_EBUSY) /\
  (forall m, in_dir_op m = true -> fid1_of m = f -> forallb safe_nameb (names_of m) = true -> spec_reject a c m = Some linux_EINVAL) /\
  (forall t pt name, a_fids a c t = Some pt -> safe_nameb name = true -> spec_reject a c (Tlink f t name) = Some linux_EINVAL) /\
  (forall nd pt o n, a_fids a c nd = Some pt -> safe_nameb o = true -> safe_nameb n = true ->
                     v_deleted pt = false -> is_dir (v_mode pt) = true -> spec_reject a c (Trenameat f o nd n) = Some linux_EINVAL).
Proof.
  intros a c f p Hb Hd Hdir Ho. repeat split; intros.
  - eapply spec_walk_in_place; eauto.
  - eapply spec_walkgetattr_in_place; eauto.
  - eapply spec_opened_dir_refused; eauto.
  - eapply spec_opened_dir_link; eauto.
  - eapply spec_opened_dir_renameat; eauto.
Qed.
Print Assumptions C04_opened_dir_refused.

Theorem C04_no_auth : forall a c,
  (forall afid un an uid, spec_reject a c (Tauth afid un an uid) = Some linux_ENOSYS) /\
  (forall f afid un an uid, afid <> p9_noFID -> spec_reject a c (Tattach f afid un an uid) = Some linux_EINVAL).
Proof. intros; split; intros; [apply spec_no_auth|apply spec_attach_authfid; auto]. Qed.

(** ---- the model against the specification: all states, all tapes ---- *)

(** the model's refusals that need no reference counting are exactly the specification's: same
    state (not just same abstraction), no backend call, tape untouched *)
Theorem C04_model_ebadf_unbound : forall s c m k tape,
  kind_of m = Some k -> forallb safe_nameb (names_of m) = true ->
  tlookup (c, fid1_of m) (st_fids s) = None ->
  step s c m tape = (s, RErr linux_EBADF, [], tape).
Proof. exact unbound_ebadf. Qed.
Print Assumptions C04_model_ebadf_unbound.
Theorem C04_model_clunk_unbound : forall s c f tape,
  tlookup (c, f) (st_fids s) = None -> step s c (Tclunk f) tape = (s, RErr linux_EBADF, [], tape).
Proof. exact clunk_unbound. Qed.
Theorem C04_model_unsafe_name : forall s c m k tape,
  kind_of m = Some k -> forallb safe_nameb (names_of m) = false -> step s c m tape = (s, RErr linux_EINVAL, [], tape).
Proof. exact unsafe_rejected. Qed.
Theorem C04_model_no_auth : forall s c tape,
  (forall afid un an uid, step s c (Tauth afid un an uid) tape = (s, RErr linux_ENOSYS, [], tape)) /\
  (forall f afid un an uid, afid <> p9_noFID -> step s c (Tattach f afid un an uid) tape = (s, RErr linux_EINVAL, [], tape)).
Proof. intros; split; intros; [apply auth_enosys|apply attach_authfid; auto]. Qed.

(** ---- the invariant ---- *)
Theorem C04_inv_init : Ledger init_state.
Proof. exact ledger_init. Qed.
Theorem C04_inv_step : forall s c m tape, Ledger s -> Ledger (fst (fst (fst (step s c m tape)))).
Proof. exact ledger_step. Qed.
Print Assumptions C04_inv_step.
Theorem C04_inv_every_history : forall h, Ledger (Refine.run init_state h).
Proof. exact ledger_every_history. Qed.
Theorem C04_bound_fid_holds_reference : forall s k r,
  Ledger s -> tlookup k (st_fids s) = Some r -> Z.le 1 (refsZ s r).
Proof. exact ledger_bound_pos. Qed.

(** ---- refinement: every refusal, on unbound AND bound fids, every guard ---- *)
Theorem C04_refines_refusals : forall s c m tape e,
  Ledger s -> spec_reject (abs_state s) c m = Some e ->
  (forall f, m = Tremove f -> tlookup (c, f) (st_fids s) = None) ->
  step s c m tape = (s, RErr e, [], tape).
Proof. exact refines_refusals. Qed.
Print Assumptions C04_refines_refusals.

(** in the words of the specification: reply class and bindings are [spec_step]'s, whatever the
    backend outcome and fence handed to it *)
Theorem C04_refines_refusals_spec : forall s c m tape e o fence,
  Ledger s -> spec_reject (abs_state s) c m = Some e ->
  (forall f, m = Tremove f -> tlookup (c, f) (st_fids s) = None) ->
  let r := step s c m tape in
  rclass (snd (fst (fst r))) = snd (spec_step (abs_state s) c m o fence) /\
  (forall c' f', a_fids (abs_state (fst (fst (fst r)))) c' f' = a_fids (fst (spec_step (abs_state s) c m o fence)) c' f').
Proof. exact refines_refusals_spec. Qed.

(** for every history (induction over the request list, all tapes) *)
Theorem C04_refusals_every_history : forall h c m tape e,
  let s := Refine.run init_state h in
  spec_reject (abs_state s) c m = Some e ->
  (forall f, m = Tremove f -> tlookup (c, f) (st_fids s) = None) ->
  step s c m tape = (s, RErr e, [], tape).
Proof. exact refusals_every_history. Qed.
Print Assumptions C04_refusals_every_history.

(** the fid table changes only at the fids the request may bind or unbind, whatever the backend does *)
Theorem C04_other_fids_untouched : forall s c m tape c' f',
  touches c m (c', f') = false ->
  tlookup (c', f') (st_fids (fst (fst (fst (step s c m tape))))) = tlookup (c', f') (st_fids s).
Proof. exact other_fids_untouched. Qed.
Print Assumptions C04_other_fids_untouched.

(** ---- refinement of whole requests: [refines_at s c m tape] says that for some backend outcome [o]
    and fence the reply class, the bindings of every fid of every connection and the negotiated sizes
    after [step] are those of [spec_step (abs_state s) c m o fence] ---- *)
Theorem C04_refines_covered : forall s c m tape,
  Ledger s -> tinj s -> covered m = true -> refines_at s c m tape.
Proof. exact refines_covered. Qed.
Print Assumptions C04_refines_covered.

(** the invariant of the refinement ([Inv] = [Ledger] and an injective fid table: a request only ever binds
    fidRefs it allocated itself) holds after every history, hence so does the refinement *)
Theorem C04_Inv_every_history : forall h, Inv (Refine.run init_state h).
Proof. exact inv_every_history. Qed.
Theorem C04_refines_covered_every_history : forall h c m tape,
  covered m = true -> refines_at (Refine.run init_state h) c m tape.
Proof. exact refines_covered_every_history. Qed.
Print Assumptions C04_refines_covered_every_history.

(** [covered] (first rounds): Tversion, Tflush, Tauth, unhandled types, Tgetattr, Tsetattr, Tlopen, Tread,
    Twrite, Treaddir, Tfsync, Tstatfs, Tlock, Treadlink, Tmkdir, Tmknod, Tsymlink, Tlink, Txattrcreate.
    The remaining ten (Tclunk, Tremove, Twalk, Twalkgetattr, Tattach, Tlcreate/Tucreate, Txattrwalk,
    Tunlinkat, Trename, Trenameat) need the structural invariant [sinv] of the path tree:
    unallocated path nodes are not deleted, child nodes are allocated, registered fidRefs are allocated
    and have a parent. *)
Theorem C04_Inv2_init : Inv2 init_state.
Proof. exact inv2_init. Qed.
Theorem C04_Inv2_step : forall s c m tape, Inv2 s -> Inv2 (fst (fst (fst (step s c m tape)))).
Proof. exact inv2_step. Qed.
Theorem C04_Inv2_every_history : forall h, Inv2 (Refine.run init_state h).
Proof. exact inv2_every_history. Qed.
Print Assumptions C04_Inv2_every_history.

(** the full refinement: every request, refused or not, every tape *)
Theorem C04_refines : forall s c m tape,
  Inv2 s ->
  exists o fence,
    rclass (snd (fst (fst (step s c m tape)))) = snd (spec_step (abs_state s) c m o fence) /\
    (forall c' f', a_fids (abs_state (fst (fst (fst (step s c m tape))))) c' f' = a_fids (fst (spec_step (abs_state s) c m o fence)) c' f') /\
    (forall c', a_neg (abs_state (fst (fst (fst (step s c m tape))))) c' = a_neg (fst (spec_step (abs_state s) c m o fence)) c').
Proof. exact refines_all. Qed.
Print Assumptions C04_refines.

Theorem C04_refines_every_history : forall h c m tape, refines_at (Refine.run init_state h) c m tape.
Proof. exact refines_every_history. Qed.
Print Assumptions C04_refines_every_history.

(** the exact no-op half and the table frame, kept as separate statements *)
Theorem C04_refusals_and_frame : forall s c m tape,
  Ledger s ->
  (forall e, spec_reject (abs_state s) c m = Some e ->
             (forall f, m = Tremove f -> tlookup (c, f) (st_fids s) = None) ->
             step s c m tape = (s, RErr e, [], tape)) /\
  (forall c' f', touches c m (c', f') = false ->
                 tlookup (c', f') (st_fids (fst (fst (fst (step s c m tape))))) = tlookup (c', f') (st_fids s)).
Proof.
  intros s c m tape HL. split.
  - intros e Hr Hrm. apply refines_refusals; assumption.
  - intros c' f' HT. apply other_fids_untouched; assumption.
Qed.
Print Assumptions C04_refusals_and_frame.

(** ---- "a fid opens at most once" for requests IN FLIGHT TOGETHER (Server/OpenPar.v) ----
    Any number of Tlopen requests on one fid ([reqs] = their flags), interleaved in any way, with any
    File.Open answers [tape], from a fid that is opened or not ([opened0]) and of a type that can be
    opened or not ([co]): in every reachable state at most one request has been answered Rlopen (none
    when the fid was opened before), at most one thread is inside File.Open, and no File.Open call was
    ever started on an opened fid.  The thread program is tlopen.handle's: openMu taken first. *)
Theorem C04_open_once_interleaved : forall co opened0 flags0 tape reqs s,
  reach true co (start opened0 flags0 tape reqs) s ->
  (cnt succeeded (p_thr s) <= 1)%nat /\
  (opened0 = true -> cnt succeeded (p_thr s) = 0%nat) /\
  (cnt in_open (p_thr s) <= 1)%nat /\
  p_bad s = 0%nat.
Proof. exact open_once_interleaved. Qed.
Print Assumptions C04_open_once_interleaved.
(** the position of the lock is what the theorem rests on: with openMu taken AFTER the test of ref.opened
    two requests are both answered Rlopen and File.Open is started on an opened fid (a reachable state) *)
Theorem C04_open_once_needs_lock_before_check_refuted :
  exists s, reach false true (start false 0 [] [0; 2]) s /\ cnt succeeded (p_thr s) = 2%nat /\ p_bad s = 1%nat.
Proof. exact open_once_check_first_refuted. Qed.
(** ... and that position is read from the source on every run: in tlopen.handle the Lock of openMu and its
    deferred Unlock precede the first test of [opened], which precedes the File.Open call *)
Theorem C04_source_tlopen_lock_first : tlopen_lock_first_in handler_traces_alpha = true.
Proof. exact tlopen_locks_before_guards. Qed.
(** what the harness compares an observed overlap with ([par_agrees]: some schedule of this model) satisfies
    the property the harness evaluates on the observation ([par_ok]: at most one Rlopen) *)
Theorem C04_overlap_model_ok : forall fa fb tape sch l,
  final_replies (exec true true (start false 0 tape [fa; fb]) sch) = Some l ->
  (List.length (filter is_ok l) <= 1)%nat.
Proof. exact model_outcome_ok. Qed.

(** ---- the source ---- *)
Theorem C04_source_matches_model : handler_traces_alpha = model_traces.
Proof. exact HandlerGen_matches_model. Qed.
Print Assumptions C04_source_matches_model.

(** a 9-request history reaching every abstract fid state (unbound, directory, file, opened,
    created-open, xattr walk, xattr create, fenced, clunked) *)
Example C04_example :
  let dir := mkV [1] true p9_ModeDirectory 0 [] in
  let reg := mkV [2] true p9_ModeRegular 0 [] in
  let ok := AVal v0 [] in
  let h := [ (0, Tattach 0 p9_noFID "u" "" 0, [ok; AVal dir []]);
             (0, Twalk 0 1 ["d1"]%string, [AVal dir []]);
             (0, Twalk 1 2 ["f1"]%string, [AVal reg []]);
             (0, Tlopen 2 0, [AVal (mkV [2] false 0 4096 []) []]);
             (0, Txattrwalk 2 3 "user.a", [AVal (mkV [] false 0 5 []) []]);
             (0, Txattrcreate 2 "user.b" 4 0, []);
             (0, Tlcreate None 1 "f2" 2 420 0, [AVal (mkV [7] false 0 0 []) []]);
             (0, Tunlinkat 0 "d1" 0, [ok]);
             (0, Tclunk 3, []) ] in
  let s := NameProofs.run init_state h in
  map (fun f => match tlookup (0, f) (st_fids s) with
                | Some r => let v := view_of s r in Some (v_opened v, v_deleted v, v_root v, v_xop v)
                | None => None end) [0; 1; 2; 3; 4]
  = [Some (false, false, true, 0); Some (true, true, false, 0); Some (true, true, false, 1); None; None].
Proof. vm_compute. reflexivity. Qed.
