(** C04 -- session state machine: fid binding, open state and mode checks.
    Statements only; proofs in Server/SpecProofs.v (the specification), Server/FaultProofs.v and
    Server/NameProofs.v (the model), Server/SummaryProofs.v (the source).

    The specification [spec_step] (Server/SessionSpec.v) shares its refusal table ([guards_of],
    [names_of], [fid1_of], [fid2_of] in Server/Msg.v) with the model, which interprets the same
    table in [guarded] (Server/Handlers.v); the table is compared with the Go source on every run
    ([C04_source_matches_model]).  What is proved of model-vs-specification: the refusal classes
    that need no reference-count reasoning (below, [C04_model_*]).  NOT proved here and therefore
    named _partial: the full refinement [abs (step s) = spec_step (abs s)] for guard refusals of
    bound fids and for the success branches -- it needs C05's reference ledger (a bound fid holds a
    reference, so the deferred DecRef after a refusal cannot reach Close); those branches are
    covered by the differential (Server/Cases.v [c04_step]) on every run. *)
From Coq Require Import NArith List String Bool.
From P9V Require Import Base.Str gen.ConstGen gen.HandlerGen Server.State Server.Msg Server.SessionSpec Server.Handlers
  Server.Summaries Server.NameProofs Server.SummaryProofs Server.SpecProofs Server.FaultProofs.
Import ListNotations.
Open Scope N_scope.

(** ---- the specification, read off ---- *)
Theorem C04_ebadf_unbound : forall a c m k o fence,
  kind_of m = Some k -> forallb safe_nameb (names_of m) = true -> a_fids a c (fid1_of m) = None ->
  (forall f, m <> Tremove f) ->
  spec_step a c m o fence = (a, Some linux_EBADF).
Proof. intros. apply spec_reject_no_change; auto. eapply spec_unbound; eauto. Qed.
Print Assumptions C04_ebadf_unbound.
Theorem C04_ebadf_unbound_second : forall a c m k p f2,
  kind_of m = Some k -> forallb safe_nameb (names_of m) = true -> a_fids a c (fid1_of m) = Some p ->
  fid2_of m = Some f2 -> a_fids a c f2 = None -> spec_reject a c m = Some linux_EBADF.
Proof. exact spec_unbound_second. Qed.
Theorem C04_refused_changes_nothing : forall a c m e o fence,
  spec_reject a c m = Some e -> (forall f, m <> Tremove f) -> spec_step a c m o fence = (a, Some e).
Proof. exact spec_reject_no_change. Qed.

Theorem C04_clunk_always_unbinds : forall a c f p o fence,
  a_fids a c f = Some p -> a_fids (fst (spec_step a c (Tclunk f) o fence)) c f = None.
Proof. exact spec_clunk_unbinds. Qed.
Theorem C04_remove_always_unbinds : forall a c f p o fence,
  a_fids a c f = Some p -> a_fids (fst (spec_step a c (Tremove f) o fence)) c f = None.
Proof. exact spec_remove_unbinds. Qed.
Print Assumptions C04_remove_always_unbinds.

Theorem C04_bind_only_on_success : forall a c m o fence e,
  binds m = true -> snd (spec_step a c m o fence) = Some e ->
  fst (spec_step a c m o fence) = a \/ fst (spec_step a c m o fence) = apply_fence fence a.
Proof. exact spec_bind_only_on_success. Qed.
Theorem C04_walk_binds_newfid : forall a c f nf n names p k fz sz fence,
  spec_reject a c (Twalk f nf (n :: names)) = None -> a_fids a c f = Some p ->
  a_fids (fst (spec_step a c (Twalk f nf (n :: names)) (BOk k fz sz) fence)) c nf =
    Some (let v := fresh_view k fz false in if fence c nf then fence_view v else v).
Proof. exact spec_walk_binds. Qed.
Theorem C04_lcreate_rebinds_open : forall a c u f name flags perm gid k fz sz fence,
  spec_reject a c (Tlcreate u f name flags perm gid) = None ->
  exists v, a_fids (fst (spec_step a c (Tlcreate u f name flags perm gid) (BOk k fz sz) fence)) c f = Some v
            /\ v_opened v = true /\ v_flags v = flags /\ v_mode v = p9_ModeRegular.
Proof. exact spec_lcreate_rebinds_open. Qed.

(** reads, writes, readdir, fsync: EINVAL unopened, EPERM wrong mode *)
Theorem C04_io_needs_open : forall a c f p ms,
  a_fids a c f = Some p -> a_neg a c = Some ms -> v_xop p = p9_xattrNone ->
  (forall off count, (p9_maximumLength <? count) = false -> v_opened p = false -> spec_reject a c (Tread f off count) = Some linux_EINVAL) /\
  (forall off count, (p9_maximumLength <? count) = false -> v_opened p = true -> open_mode (v_flags p) = p9_WriteOnly ->
                     spec_reject a c (Tread f off count) = Some linux_EPERM) /\
  (forall off len, v_opened p = false -> spec_reject a c (Twrite f off len) = Some linux_EINVAL) /\
  (forall off len, v_opened p = true -> open_mode (v_flags p) = p9_ReadOnly -> spec_reject a c (Twrite f off len) = Some linux_EPERM) /\
  (forall off count, v_deleted p = false -> is_dir (v_mode p) = true -> v_opened p = false ->
                     spec_reject a c (Treaddir f off count) = Some linux_EINVAL) /\
  (v_opened p = false -> spec_reject a c (Tfsync f) = Some linux_EINVAL).
Proof.
  intros a c f p ms Hb Hn Hx. repeat split; intros.
  - eapply spec_read_unopened; eauto.
  - eapply spec_read_writeonly; eauto.
  - eapply spec_write_unopened; eauto.
  - eapply spec_write_readonly; eauto.
  - eapply spec_readdir_unopened; eauto.
  - eapply spec_fsync_unopened; eauto.
Qed.
Print Assumptions C04_io_needs_open.

Theorem C04_xattr_subprotocol : forall a c f p,
  a_fids a c f = Some p ->
  (forall off len, v_xop p = p9_xattrWalk -> spec_reject a c (Twrite f off len) = Some linux_EINVAL) /\
  (forall ms off count, a_neg a c = Some ms -> (p9_maximumLength <? count) = false -> v_xop p = p9_xattrCreate ->
                        spec_reject a c (Tread f off count) = Some linux_EINVAL) /\
  (forall off len, v_xop p = p9_xattrCreate -> (v_xlen p =? off) = false -> spec_reject a c (Twrite f off len) = Some linux_EINVAL).
Proof.
  intros a c f p Hb. repeat split; intros.
  - eapply spec_xattr_walk_write; eauto.
  - eapply spec_xattr_create_read; eauto.
  - eapply spec_xattr_create_offset; eauto.
Qed.

Theorem C04_open_once : forall a c f p flags,
  a_fids a c f = Some p -> v_deleted p = false -> v_opened p = true -> spec_reject a c (Tlopen f flags) = Some linux_EINVAL.
Proof. intros; eapply spec_open_once; eauto. Qed.
Theorem C04_open_type : forall a c f p flags,
  a_fids a c f = Some p -> v_deleted p = false -> can_open (v_mode p) = false -> spec_reject a c (Tlopen f flags) = Some linux_EINVAL.
Proof. intros; eapply spec_open_type; eauto. Qed.
Theorem C04_dir_readonly : forall a c f p flags,
  a_fids a c f = Some p -> v_deleted p = false -> v_opened p = false -> is_dir (v_mode p) = true ->
  (open_mode flags =? p9_ReadOnly) = false -> spec_reject a c (Tlopen f flags) = Some linux_EISDIR.
Proof. intros; eapply spec_dir_readonly; eauto. Qed.

Theorem C04_opened_dir_refused : forall a c f p,
  a_fids a c f = Some p -> v_deleted p = false -> is_dir (v_mode p) = true -> v_opened p = true ->
  (forall names, spec_reject a c (Twalk f f names) = Some linux_EBUSY) /\
  (forall names, spec_reject a c (Twalkgetattr f f names) = Some linux_EBUSY) /\
  (forall m, in_dir_op m = true -> fid1_of m = f -> forallb safe_nameb (names_of m) = true -> spec_reject a c m = Some linux_EINVAL) /\
  (forall t pt name, a_fids a c t = Some pt -> safe_nameb name = true -> spec_reject a c (Tlink f t name) = Some linux_EINVAL) /\
  (forall nd pt o n, a_fids a c nd = Some pt -> safe_nameb o = true -> safe_nameb n = true ->
                     v_deleted pt = false -> is_dir (v_mode pt) = true -> spec_reject a c (Trenameat f o nd n) = Some linux_EINVAL).
Proof.
  intros a c f p Hb Hd Hdir Ho. repeat split; intros.
  - eapply spec_walk_in_place; eauto.
  - eapply spec_walkgetattr_in_place; eauto.
  - eapply spec_opened_dir_refused; eauto.
  - eapply spec_opened_dir_link; eauto.
  - eapply spec_opened_dir_renameat; eauto.
Qed.
Print Assumptions C04_opened_dir_refused.

Theorem C04_no_auth : forall a c,
  (forall afid un an uid, spec_reject a c (Tauth afid un an uid) = Some linux_ENOSYS) /\
  (forall f afid un an uid, afid <> p9_noFID -> spec_reject a c (Tattach f afid un an uid) = Some linux_EINVAL).
Proof. intros; split; intros; [apply spec_no_auth|apply spec_attach_authfid; auto]. Qed.

(** ---- the model against the specification: all states, all tapes ---- *)

(** the model's refusals that need no reference counting are exactly the specification's: same
    state (not just same abstraction), no backend call, tape untouched *)
Theorem C04_model_ebadf_unbound : forall s c m k tape,
  kind_of m = Some k -> forallb safe_nameb (names_of m) = true ->
  tlookup (c, fid1_of m) (st_fids s) = None ->
  step s c m tape = (s, RErr linux_EBADF, [], tape).
Proof. exact unbound_ebadf. Qed.
Print Assumptions C04_model_ebadf_unbound.
Theorem C04_model_clunk_unbound : forall s c f tape,
  tlookup (c, f) (st_fids s) = None -> step s c (Tclunk f) tape = (s, RErr linux_EBADF, [], tape).
Proof. exact clunk_unbound. Qed.
Theorem C04_model_unsafe_name : forall s c m k tape,
  kind_of m = Some k -> forallb safe_nameb (names_of m) = false -> step s c m tape = (s, RErr linux_EINVAL, [], tape).
Proof. exact unsafe_rejected. Qed.
Theorem C04_model_no_auth : forall s c tape,
  (forall afid un an uid, step s c (Tauth afid un an uid) tape = (s, RErr linux_ENOSYS, [], tape)) /\
  (forall f afid un an uid, afid <> p9_noFID -> step s c (Tattach f afid un an uid) tape = (s, RErr linux_EINVAL, [], tape)).
Proof. intros; split; intros; [apply auth_enosys|apply attach_authfid; auto]. Qed.

(** refinement, the part proved: whenever the specification refuses for an unsafe name, an unbound
    first fid, Tauth or an auth-fid attach, the model gives that reply class and keeps its state *)
Theorem C04_refines_partial : forall s c m tape e,
  spec_reject (abs_state s) c m = Some e ->
  (match m with Tauth _ _ _ _ | Tother _ => True | Tattach _ afid _ _ _ => afid <> p9_noFID
              | Tclunk f => True
              | _ => exists k, kind_of m = Some k /\
                               (forallb safe_nameb (names_of m) = false \/ tlookup (c, fid1_of m) (st_fids s) = None)
   end) ->
  step s c m tape = (s, RErr e, [], tape).
Proof. exact refines_rejections. Qed.
Print Assumptions C04_refines_partial.

(** ---- the source ---- *)
Theorem C04_source_matches_model : handler_traces = model_traces.
Proof. exact HandlerGen_matches_model. Qed.
Print Assumptions C04_source_matches_model.

(** a 9-request history reaching every abstract fid state (unbound, directory, file, opened,
    created-open, xattr walk, xattr create, fenced, clunked) *)
Example C04_example :
  let dir := mkV [1] true p9_ModeDirectory 0 [] in
  let reg := mkV [2] true p9_ModeRegular 0 [] in
  let ok := AVal v0 [] in
  let h := [ (0, Tattach 0 p9_noFID "u" "" 0, [ok; AVal dir []]);
             (0, Twalk 0 1 ["d1"]%string, [AVal dir []]);
             (0, Twalk 1 2 ["f1"]%string, [AVal reg []]);
             (0, Tlopen 2 0, [AVal (mkV [2] false 0 4096 []) []]);
             (0, Txattrwalk 2 3 "user.a", [AVal (mkV [] false 0 5 []) []]);
             (0, Txattrcreate 2 "user.b" 4 0, []);
             (0, Tlcreate None 1 "f2" 2 420 0, [AVal (mkV [7] false 0 0 []) []]);
             (0, Tunlinkat 0 "d1" 0, [ok]);
             (0, Tclunk 3, []) ] in
  let s := run init_state h in
  map (fun f => match tlookup (0, f) (st_fids s) with
                | Some r => let v := view_of s r in Some (v_opened v, v_deleted v, v_root v, v_xop v)
                | None => None end) [0; 1; 2; 3; 4]
  = [Some (false, false, true, 0); Some (true, true, false, 0); Some (true, true, false, 1); None; None].
Proof. vm_compute. reflexivity. Qed.
