(** C16 — global progress (no deadlock), guarded shared state, isolation across sessions. *)
From Coq Require Import String List Bool Arith.
From P9V Require Import Locks.Sym Locks.Locks Locks.LockProofs Locks.Order gen.LockGen Locks.Tables Locks.TableProofs Locks.Runs Locks.Iso.
Import ListNotations.

(** Generic: any number of threads, every interleaving.  If every request a thread makes while
    holding locks satisfies discipline D (not held already; rank increasing, or made under the gate
    held for writing and then for a childMu only; a childMu is held across a request only by gate
    holders) then no reachable state has every unfinished thread blocked — "blocked" with Go's
    writer preference (a pending writer blocks new readers). *)
Theorem C16_order_no_deadlock : forall (lock : Type) (lock_eqb : lock -> lock -> bool),
  (forall a b, lock_eqb a b = true <-> a = b) ->
  forall (call : Type) (call_eqb : call -> call -> bool) (rank : lock -> nat * nat) (gate : lock) (childish : lock -> bool)
    (plans : list (list (act lock call))),
  (forall p, In p plans -> oplan lock lock_eqb call rank gate childish [] p) ->
  forall s, reachable lock lock_eqb call call_eqb plans s ->
  (exists i t, nth_error s i = Some t /\ rest t <> []) ->
  ~ (forall i t, nth_error s i = Some t -> rest t <> [] -> blocked lock call s i).
Proof. exact no_deadlock. Qed.
Print Assumptions C16_order_no_deadlock.

(** a thread that is not blocked can move, and every step consumes an action: every run is finite
    and ends with every plan finished, i.e. every request is answered *)
Theorem C16_enabled : forall (lock : Type) lock_eqb (call : Type) call_eqb (s : state lock call) i t,
  nth_error s i = Some t -> rest t <> [] -> ~ blocked lock call s i -> exists s', step lock lock_eqb call call_eqb s s'.
Proof. exact not_blocked_enabled. Qed.
Theorem C16_finite : forall (lock : Type) lock_eqb (call : Type) call_eqb s s',
  step lock lock_eqb call call_eqb s s' -> remaining lock call s' < remaining lock call s.
Proof. exact step_decreases. Qed.
Print Assumptions C16_finite.

(** Table obligations over the generated lock graph (every acquisition site with the locks
    syntactically held there, transitively through calls and closures): *)
Theorem C16_edges_ok : forall st, In st sites -> acq_site_ok st = true.
Proof. exact edges_ok. Qed.
Print Assumptions C16_edges_ok.

(** the plan of every site (ordered Lock/Unlock steps emitted by the generator; held sets recomputed in
    Coq and equal to the emitted ones) gives, for every valuation of the symbolic names that respects the
    tree relations they express, a thread fragment that obeys discipline D at every acquisition *)
Theorem C16_plans_match : forall st, In st sites -> paths_match st = true.
Proof. exact plans_match. Qed.
Theorem C16_edges_sound : forall st, In st sites -> carries st = true ->
  forall rho, respects rho (full_path st) ->
  oplan clock clock_eqb ccall crank RenameMu cchildish [] (site_thread rho st).
Proof. exact site_thread_oplan. Qed.
Print Assumptions C16_edges_sound.

(** FRAGMENT theorem: any number of threads, each running the fragment of ONE site of the table (plan from the
    start of its handler to the site, then releasing what is held) under its own valuation.  That a whole
    handler execution is a succession of such fragments is not proved here; loops are followed twice,
    branches merge to one representative continuation (every site of every branch is a fragment of its own). *)
Theorem C16_no_deadlock_sites : forall (ths : list (site * (snode -> node))),
  (forall st rho, In (st, rho) ths -> In st sites /\ carries st = true /\ respects rho (full_path st)) ->
  forall s, reachable clock clock_eqb ccall ccall_eqb (map (fun x => site_thread (snd x) (fst x)) ths) s ->
  (exists i t, nth_error s i = Some t /\ rest t <> []) ->
  ~ (forall i t, nth_error s i = Some t -> rest t <> [] -> blocked clock ccall s i).
Proof. exact sites_no_deadlock. Qed.
Print Assumptions C16_no_deadlock_sites.

(** RUNS (Locks/Runs.v): any number of goroutines, each running any finite SUCCESSION of site fragments, every
    fragment under its own valuation (successive lock episodes of a request, then the next request the
    connection serves, ...).  Discipline D is closed under concatenation of plans that end with nothing held,
    so the fragment theorem lifts to runs of unbounded length.  Still by inspection of the generator: that a
    Go handler's execution is such a succession of the table's fragments. *)
Theorem C16_no_deadlock_runs : forall (ths : list (list (site * (snode -> node)))),
  (forall run st rho, In run ths -> In (st, rho) run -> In st sites /\ carries st = true /\ respects rho (full_path st)) ->
  forall s, reachable clock clock_eqb ccall ccall_eqb (map run_thread ths) s ->
  (exists i t, nth_error s i = Some t /\ rest t <> []) ->
  ~ (forall i t, nth_error s i = Some t -> rest t <> [] -> blocked clock ccall s i).
Proof. exact runs_no_deadlock. Qed.
Print Assumptions C16_no_deadlock_runs.
(** NO LOCK OUTLIVES ITS RUN: in every reachable state, a goroutine that has finished its run of fragments holds
    nothing -- so (with C16_no_deadlock_runs and C16_finite) every execution ends with every request answered and
    every lock free *)
Theorem C16_runs_release_everything : forall (ths : list (list (site * (snode -> node)))),
  (forall run st rho, In run ths -> In (st, rho) run -> In st sites /\ carries st = true /\ respects rho (full_path st)) ->
  forall s, reachable clock clock_eqb ccall ccall_eqb (map run_thread ths) s ->
  forall i t, nth_error s i = Some t -> rest t = [] -> held t = [].
Proof. exact runs_finished_hold_nothing. Qed.
Print Assumptions C16_runs_release_everything.
(** every fragment ends with nothing held and no backend call in progress (what makes the succession meaningful) *)
Theorem C16_fragment_closed : forall st, In st sites -> carries st = true ->
  forall rho, respects rho (full_path st) -> closed clock clock_eqb ccall ccall_eqb (site_thread rho st).
Proof. exact site_thread_closed. Qed.

(** no backend call (which may block as long as the backend likes) is made while holding a
    connection-wide or leaf mutex; waits for other goroutines happen with nothing held *)
Theorem C16_calls_not_under_leaf : forall st, In st sites -> call_leaf_ok st = true.
Proof. exact calls_not_under_leaf. Qed.
Theorem C16_waits_ok : forall st, In st sites -> wait_ok st = true.
Proof. exact waits_ok. Qed.

(** every lock held around a backend call is released by a deferred Unlock: a backend panic
    (recovered in connState.handle) leaves nothing locked (also the lock clause of C15) *)
Theorem C16_calls_panic_safe : forall st, In st sites -> panic_safe st = true.
Proof. exact calls_panic_safe. Qed.

(** C16_guarded: every access to cs.fids, cs.tags, childNodes/childRefs/childRefNames, pool.cache,
    Client.pending and Mapper.paths holds its designated mutex (for writing when it writes).
    The one exception is listed in Tables.access_exception: stop() ranges over cs.fids after
    pendingWg.Wait(), when no request goroutine of the connection is left.  With C07_writer_alone
    no two accesses to one map are simultaneous unless both only read under a read lock. *)
Theorem C16_guarded : forall st, In st sites -> access_ok st = true.
Proof. exact guarded_ok. Qed.
Print Assumptions C16_guarded.

(** C16_isolation_partial: two clients whose operations stay inside their own regions of the state
    (own fids, own subtree): for EVERY interleaving, each client's replies equal its replies when
    run alone.  Generic frame theorem ... *)
Theorem C16_isolation_frame : forall (key val reply op : Type) (run : op -> (key -> val) -> (key -> val) * reply)
    (foot : op -> key -> bool) (region : bool -> key -> Prop),
  (forall k, region true k -> region false k -> False) ->
  forall c h s, (forall d o, In (d, o) h -> wf key val reply op run foot region d o) ->
  only c (run_all key val reply op run s h) = run_all key val reply op run s (only c h).
Proof. exact isolation. Qed.
Print Assumptions C16_isolation_frame.

(** ... and its instance for a path-addressed store: create/mkdir/write/read/unlink, renames of files
    between any two directories and renames of whole directories (with everything below) inside the
    client's own subtree.  "Disjoint" means: every path an operation names (both ends of a rename,
    everything below a renamed directory) lies under the client's own top-level directory.  A rename
    with one end in the other client's subtree is NOT disjoint work in the sense of the property
    text ("disjoint fids and disjoint subtrees"), and [cross_rename_observed] proves the conclusion
    fails for it — no contradiction with the property, the side condition is necessary.
    PARTIAL in this sense: the instance is a store model, not the server model (fids, walks, QIDs, the
    path tree and its locks are not in it); the real server is tied by the concurrent-vs-alone
    differential of the harness (with renames between the client's own directories). *)
Theorem C16_isolation_partial : forall c h s, (forall d o, In (d, o) h -> under d o) ->
  only c (run_all _ _ _ _ frun s h) = run_all _ _ _ _ frun s (only c h).
Proof. exact fs_isolation. Qed.
Print Assumptions C16_isolation_partial.

(** Lifecycle of fidRefs reached through the path tree (the "TryIncRef during rename callbacks" mechanism): a fidRef
    found by ranging over a path node's childRefs may be dying (count 0, Close running, not yet unregistered), so
    every acquisition of such a reference is a TryIncRef; unconditional IncRef is used only by reference holders.
    The table shows both notification paths (removeWithName, notifyNameChange) and the ordinary IncRefs. *)
Theorem C16_weak_refs_ok : forall st, In st sites -> ref_ok st = true.
Proof. exact refs_ok. Qed.
Print Assumptions C16_weak_refs_ok.
Example C16_weak_refs_nonvacuous : weak_refs_seen = true.
Proof. exact weak_refs_nonvacuous. Qed.

Example C16_table_nonvacuous :
  existsb (fun st => match s_kind st with KAcq (SChild _) _ => hasW (s_held st) SRename | _ => false end) sites = true.
Proof. vm_compute. reflexivity. Qed.
(** discipline D is satisfiable by a nested plan: renameMu.R, then the node's opMu for writing *)
Example C16_oplan_example :
  oplan clock clock_eqb ccall crank RenameMu cchildish []
    [Acq RenameMu false; Acq (OpMu ["d"%string]) true; Rel (OpMu ["d"%string]); Rel RenameMu].
Proof.
  cbn. repeat split; auto. all: try (intros; contradiction).
  - vm_compute. intros l' w' [].
  - intros [H|[]]. discriminate.
  - vm_compute. intros l' w' [H|[]]. inversion H; subst. left. auto.
  - intros l' w' _ _. exists false. left. reflexivity.
Qed.

(** the valuation hypothesis [respects] is satisfiable for every site of the table *)
Theorem C16_valuations_exist : forall st, In st sites -> respects rho_ex (full_path st).
Proof. exact canonical_respects. Qed.

Example C16_cross_directory_rename_allowed :
  under true (ORename ["a"; "x"; "f"] ["a"; "y"; "g"])%string /\ under false (ORenameDir ["b"; "d"] ["b"; "e"; "d2"])%string.
Proof. exact cross_directory_rename_allowed. Qed.

(** completeness of the generated table (shared with C07): expected handler->backend calls, expected access
    sites of every guarded map (fids, tags, childNodes, childRefs, childRefNames, pool.cache, Client.pending,
    Mapper.paths), fidRef constructions.  Aliases of a guarded map (m := cs.fids; m[k]) are tracked by the
    generator and their uses are access sites like any other. *)
Theorem C16_tables_complete : calls_complete && access_complete && new_complete = true.
Proof. exact tables_complete. Qed.
Print Assumptions C16_tables_complete.
