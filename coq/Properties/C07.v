(** C07 — backend concurrency contract of the File interface (path-tree locking).
    Only statements, each closed by [exact] of a lemma of coq/Locks, with Print Assumptions. *)
From Coq Require Import String List Bool.
From P9V Require Import Locks.Sym Locks.Locks Locks.LockProofs gen.LockGen Locks.Tables Locks.TableProofs Locks.Runs Locks.OpenOnce Locks.NodeId.
Import ListNotations.

(** Generic mutual exclusion: any number of threads, every interleaving, any plans that keep
    each backend call (Enter .. Exit) inside the locks of its guard: two calls whose guards share
    a lock, one of them for writing, are never in progress together. *)
Theorem C07_mutex : forall (lock : Type) (lock_eqb : lock -> lock -> bool) (call : Type) (call_eqb : call -> call -> bool)
    (guard : call -> list (lock * bool)) (plans : list (list (act lock call))),
  (forall p, In p plans -> gplan lock lock_eqb call call_eqb guard [] [] p) ->
  forall s, reachable lock lock_eqb call call_eqb plans s ->
  forall i j ti tj c1 c2 l w1 w2, i <> j -> nth_error s i = Some ti -> nth_error s j = Some tj ->
    In c1 (inside ti) -> In c2 (inside tj) -> In (l, w1) (guard c1) -> In (l, w2) (guard c2) ->
    w1 || w2 = true -> False.
Proof. exact mutex. Qed.
Print Assumptions C07_mutex.

(** reader/writer consistency: a lock held for writing has no other holder *)
Theorem C07_writer_alone : forall (lock : Type) lock_eqb (call : Type) call_eqb plans s,
  reachable lock lock_eqb call call_eqb plans s ->
  forall i j l w, i <> j -> holds lock call s i l true -> holds lock call s j l w -> False.
Proof. exact writer_alone. Qed.
Print Assumptions C07_writer_alone.

(** Table obligation: for every handler and every backend call it makes (generated from
    handlers.go/server.go/path_tree.go), the locks held provide at least the class documented in
    file.go, on the path node of the receiver File; UnlinkAt also holds the entry's node. *)
Theorem C07_classes_ok : forall st, In st sites -> call_ok st = true.
Proof. exact classes_ok. Qed.
Print Assumptions C07_classes_ok.

(** ... hence, whatever concrete nodes the symbolic names stand for, the call satisfies the documented demand *)
Theorem C07_sites_provide : forall st, In st sites -> forall rho c, site_call rho st = Some c -> cprovides c.
Proof. exact site_calls_provide. Qed.
Print Assumptions C07_sites_provide.

(** The plans: for each site the generator emits the ordered Lock/Unlock steps from the start of the
    handler; Coq recomputes the held set from the plan (Sym.pheld) — every check above is evaluated on
    the recomputed set — and it coincides with the set the generator's own bookkeeping emitted. *)
Theorem C07_plans_match : forall st, In st sites -> paths_match st = true.
Proof. exact plans_match. Qed.
Print Assumptions C07_plans_match.

(** The thread fragment of a call site (its plan, the call, then releasing what is held) keeps the call
    inside its guard, and that guard is exactly what the plan holds there: from the plan alone, for every
    valuation of the symbolic node names that respects the tree relations they express. *)
Theorem C07_site_thread_guarded : forall st, In st sites -> forall rho c, site_call rho st = Some c ->
  respects rho (full_path st) -> gplan clock clock_eqb ccall ccall_eqb c_guard [] [] (site_thread rho st).
Proof. exact site_thread_gplan. Qed.
Print Assumptions C07_site_thread_guarded.

(** C07_contract: in every interleaving of any number of request threads on any number of
    connections: write-class calls on a directory / SetAttr on a node never overlap each other or
    a read-class call on the same path node; UnlinkAt also excludes calls on the entry's node;
    RenameAt/Renamed exclude every read-, write- or global-class call server-wide
    ([conflicts] spells this out from the documented classes). *)
Theorem C07_contract : forall plans, (forall p, In p plans -> gplan clock clock_eqb ccall ccall_eqb c_guard [] [] p) ->
  forall s, reachable clock clock_eqb ccall ccall_eqb plans s ->
  forall i j ti tj c1 c2, i <> j -> nth_error s i = Some ti -> nth_error s j = Some tj ->
    In c1 (inside ti) -> In c2 (inside tj) -> cprovides c1 -> cprovides c2 -> conflicts c1 c2 -> False.
Proof. exact contract. Qed.
Print Assumptions C07_contract.

(** FRAGMENT theorem: any number of threads, each running the fragment of ONE call site of the table (the
    plan from the start of its handler to that site, the call, then releasing what is held) under its own
    valuation: documented-exclusive calls never overlap.  That a whole handler execution is a succession of
    such fragments (one per site reached, along the path the generator followed) is not proved here. *)
Theorem C07_contract_sites : forall (ths : list (site * (snode -> node))),
  (forall st rho, In (st, rho) ths -> In st sites /\ respects rho (full_path st) /\ exists c, site_call rho st = Some c) ->
  forall s, reachable clock clock_eqb ccall ccall_eqb (map (fun x => site_thread (snd x) (fst x)) ths) s ->
  forall i j ti tj c1 c2, i <> j -> nth_error s i = Some ti -> nth_error s j = Some tj ->
    In c1 (inside ti) -> In c2 (inside tj) -> cprovides c1 -> cprovides c2 -> conflicts c1 c2 -> False.
Proof. exact sites_contract. Qed.
Print Assumptions C07_contract_sites.
(** ... and for RUNS: every goroutine runs any finite succession of call-site fragments, each under its own
    valuation (a connection serving request after request); the guard discipline is closed under
    concatenation of plans that end with nothing held and no call in progress (Locks/Runs.v) *)
Theorem C07_contract_runs : forall (ths : list (list (site * (snode -> node)))),
  (forall run st rho, In run ths -> In (st, rho) run ->
     In st sites /\ respects rho (full_path st) /\ exists c, site_call rho st = Some c) ->
  forall s, reachable clock clock_eqb ccall ccall_eqb (map run_thread ths) s ->
  forall i j ti tj c1 c2, i <> j -> nth_error s i = Some ti -> nth_error s j = Some tj ->
    In c1 (inside ti) -> In c2 (inside tj) -> cprovides c1 -> cprovides c2 -> conflicts c1 c2 -> False.
Proof. exact runs_contract. Qed.
Print Assumptions C07_contract_runs.

(** NAME RESOLUTION IS STABLE: every access to a path node's [childNodes] map (the name -> node binding: where
    pathNodeFor finds the node a handler will lock for a child), whichever function makes it, and every site
    inside pathNode.nameFor (the name a handler hands to the backend) is reached with renameMu held (a rename
    re-binds names to nodes under renameMu.W alone); so the node locked is the node the name denotes when the
    backend call runs.  Such sites exist in the table. *)
Theorem C07_resolution_under_rename_lock : (forall st, In st sites -> resolve_ok st = true) /\ Nat.leb 1 resolve_sites = true.
Proof. split; [exact resolves_ok|exact resolves_present]. Qed.
Print Assumptions C07_resolution_under_rename_lock.

(** Open: every File.Open site holds the fidRef's openMu, and [opened] is written under openMu and the node lock *)
Theorem C07_open_sites_ok : forall st, In st sites -> open_ok st = true.
Proof. exact open_sites_ok. Qed.
Print Assumptions C07_open_sites_ok.

(** C07_open_once: any number of Tlopen in flight on one fidRef, all interleavings: Open calls
    never overlap, at most one succeeds, none starts after one succeeded.  (An Open that FAILED
    leaves the fid unopened; a later Tlopen may call Open again — the code's behaviour, stated.) *)
Theorem C07_open_once : forall s, oreach s ->
  (forall i j, pcs s i = InOpen -> pcs s j = InOpen -> i = j) /\ succeeded s <= 1 /\ late s = 0.
Proof. exact open_once. Qed.
Print Assumptions C07_open_once.

(** ... and one File is openable through one fidRef only: the fidRef that borrows another's File (Txattrwalk)
    is never given a mode, an opened flag or open flags, so Tlopen on it is refused before File.Open; all other
    fidRef literals get a File just obtained from the backend; the only later writes of mode / opened /
    openFlags / file are the attach root's mode and Tlopen's own (generated tables, re-checked on every run) *)
Theorem C07_open_one_owner : open_owner_ok = true.
Proof. exact open_owner. Qed.
Print Assumptions C07_open_one_owner.

(** the table is not vacuous and the hypotheses are satisfiable *)
Example C07_table_nonvacuous : existsb (fun st => match s_kind st with KCall "UnlinkAt" _ (Some _) => true | _ => false end) sites = true.
Proof. vm_compute. reflexivity. Qed.
Example C07_open_once_run : exists s, oreach s /\ succeeded s = 1 /\ pcs s 0 = Done /\ pcs s 1 = After false.
Proof. exact open_once_run. Qed.
Example C07_conflict_example :
  conflicts (mkCall "SetAttr" ["d"] None [(RenameMu, false); (OpMu ["d"], true)])
            (mkCall "GetAttr" ["d"] None [(RenameMu, false); (OpMu ["d"], false)]).
Proof. vm_compute. auto. Qed.

(** the valuation hypothesis [respects] is satisfiable for every site of the table *)
Theorem C07_valuations_exist : forall st, In st sites -> respects rho_ex (full_path st).
Proof. exact canonical_respects. Qed.

(** "Same path => same path node": every fidRef the server builds (attach root, walk step, clone, create,
    xattr walk) is given the path node its File lives on, and the parent fidRef of that node's parent —
    read off the [fidRef{file:, pathNode:, parent:}] literals by the generator.  With pathNodeFor returning
    one node per (directory node, name) this is what makes two fids on one path share their locks. *)
Theorem C07_new_refs_ok : forall st, In st sites -> new_ref_ok st = true.
Proof. exact new_refs_ok. Qed.
Print Assumptions C07_new_refs_ok.

(** ... and the sources of path nodes, read from the struct declarations and from every place a pathNode is
    constructed: one tree root per Server (not per connection), fidRef.pathNode, pathNode.childNodes; nodes are made
    only by NewServer and by pathNodeFor, whose lookup-or-make is one childMu write section (re-check + store). *)
Theorem C07_node_sources : node_identity_ok = true.
Proof. exact node_identity. Qed.
Print Assumptions C07_node_sources.

(** With those sources (model Locks/NodeId.v: one tree, pathNodeFor = lookup-or-make): two walks of one path from
    one node — by any two requests on any connections, with any other walks before, between and after — end on
    the SAME path node, as long as no entry is removed in between (unlink/rename, which hold the parent's opMu.W /
    renameMu.W); and different (directory, name) pairs get different nodes. *)
Theorem C07_same_path_same_node : forall t n names ws,
  let '(t1, c) := walk t n names in walk (walks t1 ws) n names = (walks t1 ws, c).
Proof. exact same_path_same_node. Qed.
Print Assumptions C07_same_path_same_node.
Theorem C07_distinct_names_distinct_nodes : forall t p x q y, wf t -> (p, x) <> (q, y) ->
  let '(t1, c) := node_for t p x in snd (node_for t1 q y) <> c.
Proof. exact distinct_names_distinct_nodes. Qed.
Print Assumptions C07_distinct_names_distinct_nodes.

(** The documented classes are pinned: the table read from the doc comments of file.go equals the
    hand-written one (editing or deleting a "concurrency guarantee" sentence re-opens this obligation). *)
Theorem C07_contract_pinned : contract_eqb LockGen.contract expected_contract = true.
Proof. exact contract_pinned. Qed.
Print Assumptions C07_contract_pinned.

(** Completeness of the generated table against a hand-written inventory (Tables.expected_calls /
    expected_access): every handler reaches the backend methods the protocol makes it reach and no others,
    every File method the server may call is called somewhere, every guarded map shows its known access
    sites, every kind of fidRef construction is present.  A call that drops out of the table (moved where
    the generator does not follow, hidden behind a method value — both are refused anyway) breaks this. *)
Theorem C07_tables_complete : calls_complete && access_complete && new_complete = true.
Proof. exact tables_complete. Qed.
Print Assumptions C07_tables_complete.
