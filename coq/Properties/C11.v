(** C11 — chunked I/O: ReadAt/WriteAt of any size equal one remote operation.
    Statements only; proofs are in Client/ChunkProofs.v.  Model: Client/Chunk.v
    (chunk / readAt / writeAt of p9/client_file.go; the remote file is a size and
    a byte function, one Twrite/Tread is answered from a tape by a count — short
    counts allowed — or an error).  All theorems hold for every buffer, every
    chunk size >= 1, every offset with 0 <= off and off + len p < 2^63, every
    file and every tape of backend answers.  Not covered (outside the property):
    a server that reports more bytes than it was asked for. *)
From Coq Require Import ZArith NArith List Bool Lia.
From P9V Require Import Client.Chunk Client.ChunkProofs.
From P9V Require Import Base.GoArith gen.ArithGen Client.ChunkTie.
Import ListNotations.

(** chunk over ANY per-chunk function that never reports more than it was given:
    it returns (never panics, never runs out of the fuel len p + 1), the requests
    have the shape [chunks_ok] and every invariant of fn is kept. *)
Theorem C11_chunk_generic :
  forall (S : Type) (fn : S -> nat -> nat -> Z -> (nat * option cerr) * S) (I : nat -> S -> Prop)
         (cs lenp : nat) (off0 : Z),
    1 <= cs -> (-9223372036854775808 <= off0)%Z -> (off0 + Z.of_nat lenp < 9223372036854775808)%Z ->
    (forall total st len n e st', I total st -> total < lenp -> len = Nat.min cs (lenp - total) ->
        fn st total len (off0 + Z.of_nat total)%Z = ((n, e), st') -> n <= len /\ I (total + n) st') ->
    forall st, 0 < lenp -> I 0 st ->
    exists t e calls st',
      chunk fn cs st lenp off0 = ((CRet t e, calls), st') /\
      chunks_ok cs lenp off0 0 calls t e /\ I t st' /\ Forall (call_of_fn S fn I) calls.
Proof. exact chunk_spec. Qed.
Print Assumptions C11_chunk_generic.

(** C11_chunks: what [chunks_ok] says about the requests — each is non-empty, at most chunkSize
    long, inside p, at offset off0 + its position; they are contiguous and in increasing order;
    every request followed by another one was served in full without error (none after a short or
    failed one); the count returned is the sum of the counts and the error is the last request's. *)
Theorem C11_chunks : forall cs lenp off0 calls t e,
  1 <= cs -> chunks_ok cs lenp off0 0 calls t e ->
  Forall (fun c => 0 < c_len c <= cs /\ c_pos c + c_len c <= lenp /\ c_off c = (off0 + Z.of_nat (c_pos c))%Z) calls /\
  contiguous 0 calls /\
  t <= lenp /\ t = fold_right (fun c a => c_n c + a) 0 calls /\
  match calls with
  | [] => t = lenp /\ e = None
  | _ => e = c_err (last calls (mkcall 0 0 0 0 None)) /\
         (e = None -> t = lenp \/ c_n (last calls (mkcall 0 0 0 0 None)) < cs)
  end.
Proof.
  intros cs lenp off0 calls t e Hcs Hok. split; [|split; [|split; [|split]]].
  - eapply Forall_impl; [|exact (chunks_ok_each _ _ _ _ _ _ _ Hok)]. cbn. intros c Hc. specialize (Hc Hcs). tauto.
  - exact (chunks_ok_contiguous _ _ _ _ _ _ _ Hok).
  - destruct (chunks_ok_total _ _ _ _ _ _ _ Hok (Nat.le_0_l _)) as [? ?]. lia.
  - destruct (chunks_ok_total _ _ _ _ _ _ _ Hok (Nat.le_0_l _)) as [? ?]. lia.
  - exact (chunks_ok_last _ _ _ _ _ _ _ Hok).
Qed.
Print Assumptions C11_chunks.

(** an empty buffer: exactly one (empty) request, whose answer is returned *)
Theorem C11_empty : forall (S : Type) (fn : S -> nat -> nat -> Z -> (nat * option cerr) * S) cs st off,
  chunk fn cs st 0 off =
  let '((n, e), st') := fn st 0 0 off in ((CRet n e, [mkcall 0 0 off n e]), st').
Proof. intros. unfold chunk. cbn. destruct (fn st 0 0 off) as [[n e] st']. reflexivity. Qed.

(** What is assumed of the backend (stated as hypotheses / tape shapes, never as axioms): one Twrite answers a
    count k <= len(chunk) and has stored exactly the first k bytes of the chunk at the chunk's offset, or answers an
    error; [stores_nothing_on_error]: a Twrite that answers an error has stored nothing.  One Tread answers at most
    the bytes asked for, taken from the file at the offset, or an error.  A reply reporting MORE than was asked
    is outside the property (the generic theorem keeps Go's panic for it). *)

(** WriteAt when no failing Twrite stores anything: the file holds exactly p[:n] at off (and is otherwise
    unchanged), n <= len p, the requests have the shape above. *)
Theorem C11_write : forall p cs off0 f0 tape,
  1 <= cs -> (0 <= off0)%Z -> (off0 + Z.of_nat (length p) < 9223372036854775808)%Z -> 0 < length p ->
  stores_nothing_on_error tape ->
  exists n e calls st',
    write_at cs p off0 f0 tape = ((CRet n e, calls), st') /\
    chunks_ok cs (length p) off0 0 calls n e /\
    n <= length p /\
    rf_eq (ws_file st') (rf_store f0 off0 (firstn n p)).
Proof. intros p cs off0 f0 tape Hcs Hlo Hhi. exact (write_at_clean p cs off0 f0 Hcs Hlo Hhi tape). Qed.
Print Assumptions C11_write.

(** WriteAt, ANY backend answers, including a Twrite that stores k bytes of its chunk and then fails (the client
    sees only the error: Rlerror carries no count): the file holds exactly p[:x] at off with n <= x <= len p, and
    x = n unless that happened; an error is that of the last request, for which the caller is told count 0. *)
Theorem C11_write_general : forall p cs off0 f0 tape,
  1 <= cs -> (0 <= off0)%Z -> (off0 + Z.of_nat (length p) < 9223372036854775808)%Z -> 0 < length p ->
  exists n e calls st',
    write_at cs p off0 f0 tape = ((CRet n e, calls), st') /\
    chunks_ok cs (length p) off0 0 calls n e /\
    (exists x, n <= x <= length p /\ rf_eq (ws_file st') (rf_store f0 off0 (firstn x p)) /\
               (ws_failed st' = false -> x = n)) /\
    (forall err, e = Some err -> c_n (last calls (mkcall 0 0 0 0 None)) = 0).
Proof. intros p cs off0 f0 tape Hcs Hlo Hhi. exact (write_at_spec p cs off0 f0 Hcs Hlo Hhi tape). Qed.
Print Assumptions C11_write_general.

(** WriteAt when the backend accepts everything: (len p, nil) and file = splice file off p *)
Theorem C11_write_all : forall p cs off0 f0 tape,
  1 <= cs -> (0 <= off0)%Z -> (off0 + Z.of_nat (length p) < 9223372036854775808)%Z -> 0 < length p ->
  accepts_all cs tape ->
  exists calls st',
    write_at cs p off0 f0 tape = ((CRet (length p) None, calls), st') /\
    rf_eq (ws_file st') (rf_store f0 off0 p).
Proof. exact write_at_all. Qed.
Print Assumptions C11_write_all.

(** what "file = splice" means pointwise *)
Theorem C11_store_meaning : forall f off d i, (0 <= off)%Z ->
  rf_get (rf_store f off d) i =
  if (off <=? i)%Z && (i <? off + Z.of_nat (length d))%Z then nth (Z.to_nat (i - off)) d 0%N else rf_get f i.
Proof. exact rf_get_store. Qed.

(** ReadAt, any backend answers: p[:n] = file[off : off+n] (all n bytes inside the file), the rest
    of p untouched; an error (io.EOF included) only with n < len p; n = 0 for a non-empty p always
    comes with an error, which is io.EOF unless the backend itself failed. *)
Theorem C11_read : forall p cs off0 f tape,
  1 <= cs -> (0 <= off0)%Z -> (off0 + Z.of_nat (length p) < 9223372036854775808)%Z -> 0 < length p ->
  exists n e calls st',
    read_at cs p off0 f tape = ((CRet n e, calls), st') /\
    chunks_ok cs (length p) off0 0 calls n e /\
    n <= length p /\
    rs_buf st' = rf_read f off0 n ++ skipn n p /\
    length (rf_read f off0 n) = n /\
    (e <> None -> n < length p) /\
    (n = 0 -> e = Some CEOF \/ exists err, e = Some err /\ In (RErr err) tape).
Proof. intros p cs off0 f tape Hcs Hlo Hhi. exact (read_at_spec p cs off0 f tape Hcs Hlo Hhi). Qed.
Print Assumptions C11_read.

(** ReadAt against a backend that returns all the file has: n = min (len p) (size - off), p is
    filled with the file's bytes from off up to end of file, and the only possible error is io.EOF. *)
Theorem C11_read_full : forall p cs off0 f,
  1 <= cs -> (0 <= off0)%Z -> (off0 + Z.of_nat (length p) < 9223372036854775808)%Z -> 0 < length p ->
  exists e calls st',
    read_at cs p off0 f [] = ((CRet (rf_avail f off0 (length p)) e, calls), st') /\
    rs_buf st' = rf_read f off0 (length p) ++ skipn (rf_avail f off0 (length p)) p /\
    (e = None \/ e = Some CEOF).
Proof. intros p cs off0 f Hcs Hlo Hhi. exact (read_at_full p cs off0 f Hcs Hlo Hhi). Qed.
Print Assumptions C11_read_full.

(** the hypotheses are satisfiable and the model computes: 5 bytes in chunks of 2 at offset 2^33 *)
Example C11_ex_write :
  let '((out, calls), st) := write_at 2 [1;2;3;4;5]%N 8589934592 (rf_of_list [9;9]%N) [WCount 2; WCount 1] in
  out = CRet 3 None /\ map c_len calls = [2; 2] /\ rf_size (ws_file st) = 8589934595%Z /\
  rf_get (ws_file st) 8589934594 = 3%N /\ rf_get (ws_file st) 1 = 9%N /\ rf_get (ws_file st) 5 = 0%N.
Proof. vm_compute. repeat split. Qed.

(** a Twrite that stores one byte of its chunk and fails: the caller is told 2, the file holds 3 bytes *)
Example C11_ex_write_stored :
  let '((out, calls), st) := write_at 2 [1;2;3;4;5]%N 0 (rf_of_list []) [WCount 2; WErrStored 1 (CErrno 28)] in
  out = CRet 2 (Some (CErrno 28)) /\ rf_size (ws_file st) = 3%Z /\ rf_get (ws_file st) 2 = 3%N /\ ws_failed st = true.
Proof. vm_compute. repeat split. Qed.

Example C11_ex_read :
  let '((out, calls), st) := read_at 2 [0;0;0;0;0]%N 1 (rf_of_list [10;11;12;13;14]%N) [] in
  out = CRet 4 (Some CEOF) /\ rs_buf st = [11;12;13;14;0]%N /\ length calls = 3.
Proof. vm_compute. repeat split. Qed.

(** ---- the loop of the SOURCE (translated by go2coq ArithGen on every run, gen/ArithGen.v) ----
    client_file.go chunk is read piece by piece -- the empty-buffer test, the statements before the call
    of fn, the slice p[lo:hi] and the offset handed to fn, the statements after the call -- into Gallina
    functions over Z with Go's int / int64 wrap-around at every operation; the translator checks the loop
    skeleton (for { ... } around one call of fn, total starting at 0).  Run by that skeleton
    ([gen_chunk], Client/ChunkTie.v; an out-of-range slice is a panic) they compute exactly Chunk.chunk,
    for every chunk size a uint32 can hold except 0 (C13_source_client_payload_fits: the client's is
    positive), every buffer length below 2^62, every offset, every per-chunk function reporting less than
    2^62 bytes and every state.  So every theorem of this file is a theorem about the loop in the source. *)
Theorem C11_source_loop_is_model :
  forall (S : Type) (fn : S -> nat -> nat -> Z -> (nat * option cerr) * S),
  (forall st pos len off, (Z.of_nat (fst (fst (fn st pos len off))) < 2 ^ 62)%Z) ->
  forall (cs : nat) (st : S) (lenp : nat) (off : Z),
  0 < cs -> (Z.of_nat cs < 2 ^ 32)%Z -> (Z.of_nat lenp < 2 ^ 62)%Z ->
  gen_chunk S fn (Z.of_nat cs) st (Z.of_nat lenp) off = chunk fn cs st lenp off.
Proof. exact gen_chunk_is_model. Qed.
Print Assumptions C11_source_loop_is_model.

(** the translated loop computes: 5 bytes in chunks of 2, the second Twrite short *)
Example C11_ex_source_loop :
  fst (gen_chunk _ tape_fn 2 [(2, None); (1, None)] 5 7) = (CRet 3 None, [mkcall 0 2 7 2 None; mkcall 2 2 9 1 None]).
Proof. vm_compute. reflexivity. Qed.
