(** C01 — wire format: 9P2000.L layout conformance and lossless round trip.
    Only statements, each closed by [exact] of a lemma proved under Codec/, followed by
    Print Assumptions.

    Reading guide.  [Spec9P.spec] is the hand-written 9P2000.L table (field names and kinds
    per type number).  [send]/[recv] (Codec/Frame.v) interpret ANY table: size[4] type[1]
    tag[2], little-endian integers, len[2]-prefixed strings, count[2] lists, trailing
    payload.  [gen_msgs] (gen/CodecGen.v) is what go2coq reads off the Go encode/decode
    bodies on every run.  C01 = (1) the codec universe round-trips for all layouts and all
    well-formed values; (2) the Go methods implement exactly the table's layouts
    (C01_layout_is_spec: generated program = table, for all 256 type bytes); (3) the only
    value changes are the documented ones. The differential cases (Codec/CodecCases.v) tie
    (2) to the running code: real bytes = the table's encoder output. *)
From Coq Require Import NArith String List Bool.
From P9V Require Loop.Tie.
From P9V Require Import Codec.Layout Codec.LayoutProofs Codec.Frame Codec.FrameProofs
  Codec.Spec9P Codec.SpecProofs Codec.Reuse Codec.GenCheck gen.CodecGen.
Import ListNotations.
Open Scope N_scope.
Open Scope list_scope.

(** Round trip of every kind of the universe: unbounded in every length and value.
    [ok_k]: mask bit positions distinct and within the width (static); [wf]: integers fit
    their width, strings and lists shorter than 2^16 (the property's own quantifier). *)
Theorem C01_roundtrip : forall k v rest, ok_k k = true -> wf k v = true ->
  dec k (enc k v ++ rest) = Some (norm k v, rest).
Proof. exact dec_enc. Qed.
Print Assumptions C01_roundtrip.

Theorem C01_roundtrip_fields : forall l vs rest, ok_fields l = true -> wf_fields l vs = true ->
  dec_fields l (enc_fields l vs ++ rest) = Some (norm_fields l vs, rest).
Proof. exact dec_enc_fields. Qed.
Print Assumptions C01_roundtrip_fields.

(** Frame level, any registry: what recv makes of the bytes send wrote — header, fixed part,
    payload (Rread/Twrite count check, Rreaddir whole-entry packing) — with any bytes after
    the frame left unread. *)
Theorem C01_frame_generic : forall msize tbl tag typ ml mv rest,
  lookup typ tbl = Some ml -> ml_ok ml = true -> mwf ml mv = true -> tag < 65536 ->
  frame_size ml mv <= msize -> frame_size ml mv <= maximum_length ->
  recv msize tbl (send tag typ ml mv ++ rest) = ROk tag typ (mnorm ml mv) rest.
Proof. exact recv_send. Qed.
Print Assumptions C01_frame_generic.

(** ... and for every message of the 9P2000.L table *)
Theorem C01_frame : forall t s tag mv msize rest,
  spec_find t spec = Some s -> mwf (sm_layout s) mv = true -> tag < 65536 ->
  frame_size (sm_layout s) mv <= msize -> frame_size (sm_layout s) mv <= maximum_length ->
  recv msize spec_registry (send tag t (sm_layout s) mv ++ rest) = ROk tag t (mnorm (sm_layout s) mv) rest.
Proof. exact spec_frame. Qed.
Print Assumptions C01_frame.

(** The generated-table obligation: for every type byte, Go registers a message iff the
    protocol table defines it, and then the encode program, the decode program (both with the
    Go field paths renamed by the binding table) ARE the protocol layout; FixedSize() is the
    size of the fixed part + count[4].  Re-checked whenever a method body changes. *)
Theorem C01_layout_is_spec : forall t, t < 256 ->
  match gen_find t gen_msgs with
  | None => spec_find t spec = None
  | Some g =>
      exists s b dl,
        spec_find t spec = Some s /\ bind_find t binding = Some b /\ gm_go g = b_go b /\
        rename_ml (to_spec (b_map b)) (gm_enc g) = sm_layout s /\
        layout_of (gm_dec g) = Some dl /\ rename_ml (to_spec (b_map b)) dl = sm_layout s /\
        ml_ok (sm_layout s) = true /\
        gm_fixed_size g = option_map N.of_nat (fixed_size (gm_enc g))
  end.
Proof. exact layout_is_spec. Qed.
Print Assumptions C01_layout_is_spec.

(** hence the bytes produced by the encode program are those the table prescribes *)
Theorem C01_generated_bytes_are_spec_bytes : forall t g s, t < 256 ->
  gen_find t gen_msgs = Some g -> spec_find t spec = Some s ->
  forall tag mv, send tag t (gm_enc g) mv = send tag t (sm_layout s) mv.
Proof. exact gen_send_is_spec_send. Qed.
Print Assumptions C01_generated_bytes_are_spec_bytes.

Theorem C01_constants :
  gen_perm_mask = perm_mask /\ gen.ConstGen.p9_permissionsMask = perm_mask /\
  gen.ConstGen.p9_headerLength = header_length /\ gen.ConstGen.p9_maximumLength = maximum_length.
Proof. exact constants_agree. Qed.

(** transport.go's framing as READ by go2coq (roles, not spellings): header writers/readers in order with their
    widths (4, 1, 2 bytes), vector order header-data-payload, summands of the total length, the two size checks
    before lookup, the FixedSize split.  Compared with a hand-written table of what Codec/Frame.v send/recv stand
    for; an edit of send or recv re-opens this obligation (the semantic tie of Frame.v stays the differential). *)
Theorem C01_frame_shape :
  gen_send_header = spec_send_header /\ gen_send_vectors = spec_send_vectors /\ gen_send_total = spec_send_total /\
  gen_recv_header = spec_recv_header /\ gen_recv_checks = spec_recv_checks /\ gen_recv_split = spec_recv_split /\
  map (fun p => assoc_kind (snd p) gen_writers) gen_send_header = [Some (KInt 4); Some (KInt 1); Some (KInt 2)] /\
  map (fun p => assoc_kind (snd p) gen_readers) gen_recv_header = [Some (KInt 4); Some (KInt 1); Some (KInt 2)].
Proof. exact frame_shape_agrees. Qed.

(** The only value changes.  (a) A scalar changes only if it is a permission field with bits
    above 0o7777, and then to its low 12 bits. *)
Theorem C01_norm_only_perm : forall k v, norm_s k v <> v ->
  exists n, k = KPerm /\ v = VInt n /\ norm_s k v = VInt (N.land n perm_mask) /\ perm_mask < n.
Proof. exact norm_s_changes. Qed.
Print Assumptions C01_norm_only_perm.

(** (b) With no such permission value, a message is delivered unchanged, except that a
    directory reply keeps exactly the longest prefix of whole entries whose encoding fits
    Count (the first dropped entry would exceed it) and Count becomes the size of that prefix. *)
Theorem C01_norm_only_documented : forall ml mv,
  low_perm_fields (ml_fixed ml) (mv_fixed mv) = true ->
  match ml_pay ml, mv_pay mv with
  | PDirents _ _ entry, PVDirents count rows =>
      exists keep drop sz,
        rows = keep ++ drop /\ sz = len (enc_rows entry keep) /\ sz <= count /\
        match drop with [] => True | d :: _ => count < sz + len (enc_row entry d) end /\
        mnorm ml mv = {| mv_fixed := mv_fixed mv; mv_pay := PVDirents sz (map (norm_row entry) keep) |}
  | _, _ => mnorm ml mv = mv
  end.
Proof. exact mnorm_extent. Qed.
Print Assumptions C01_norm_only_documented.

(** Masks: for any table of distinct bit positions, decode (encode bools) = bools — all
    2^14 / 2^9 combinations at once; the header-file values are single bits. *)
Theorem C01_mask_bits : forall bits bs,
  nodup_N (map fst bits) = true -> List.length bs = List.length bits ->
  mask_dec bits (mask_enc bits bs) = bs.
Proof. exact mask_dec_enc. Qed.
Theorem C01_mask_values :
  forallb (fun vn => 2 ^ N.log2 (fst vn) =? fst vn) (getattr_values ++ setattr_values) = true.
Proof. exact spec_bits_are_powers_of_two. Qed.
Print Assumptions C01_mask_bits.

(** what send writes are bytes *)
Theorem C01_send_emits_bytes : forall tag typ ml mv, mwf ml mv = true -> typ < 256 ->
  Forall (fun b => b < 256) (send tag typ ml mv).
Proof. exact send_bytes. Qed.

(** fields narrower on the wire than in memory are fids only (uint64 in Go, fid[4] on the wire) *)
Theorem C01_narrowed_are_fids : forallb narrowed_ok gen_narrowed = true.
Proof. exact narrowed_are_fids. Qed.

(** Stream facts (also what C02's resynchronisation rests on).  Whenever recv reports anything but
    a connection error it has consumed exactly the bytes its size field announces, and size is
    within [7, min(msize, 4 MiB)]: the next frame starts right after, also after a rejected or
    unknown message. *)
Theorem C01_recv_consumes_size : forall msize tbl s,
  match recv msize tbl s with
  | RConnErr => True
  | RUnknown _ rest | RInvalid rest | ROk _ _ _ rest =>
      exists size r, le_dec 4 s = Some (size, r) /\ header_length <= size /\ size <= msize /\ size <= maximum_length /\
                     rest = skipn (N.to_nat size) s
  end.
Proof. exact recv_consumes_size. Qed.
Print Assumptions C01_recv_consumes_size.

(** A frame is judged on its own bytes: what follows it in the stream only becomes the unread rest. *)
Theorem C01_recv_ignores_following : forall msize tbl s e,
  match recv msize tbl s with
  | RConnErr => True
  | RUnknown tag rest => exists rest', recv msize tbl (s ++ e) = RUnknown tag rest'
  | RInvalid rest => exists rest', recv msize tbl (s ++ e) = RInvalid rest'
  | ROk tag typ mv rest => recv msize tbl (s ++ e) = ROk tag typ mv (rest ++ e)
  end.
Proof. exact recv_ignores_following. Qed.
Print Assumptions C01_recv_ignores_following.

(** decoders only move forward: the unread rest is a suffix of the input *)
Theorem C01_decode_reads_forward : forall l bs vs r, dec_fields l bs = Some (vs, r) -> exists used, bs = used ++ r.
Proof. exact dec_fields_suffix. Qed.

(** outside the quantifier, for the record: a 65536-byte string is written with length 0 *)
Theorem C01_long_string_wraps_recorded :
  exists bs, len bs = 65536 /\
    match dec_s KStr (enc_s KStr (VStr bs)) with
    | Some (VStr s, r) => (len s =? 0) && Dump.bytes_eqb r bs
    | _ => false
    end = true.
Proof. exact long_string_wraps. Qed.

(** hypotheses are satisfiable: a Twalk with a 40,000-byte name and NOFID; Tsetattr with all
    mask bits and a mode carrying file-type bits; a truncated Rreaddir; NOTAG/NOFID Tclunk *)
Example C01_ex_twalk : mwf (layout_of_typ 110) ex_twalk = true /\ frame_size (layout_of_typ 110) ex_twalk = 40026.
Proof. exact ex_twalk_wf. Qed.
Example C01_ex_tsetattr :
  mwf (layout_of_typ 26) ex_tsetattr = true /\
  nth 2 (mv_fixed (mnorm (layout_of_typ 26) ex_tsetattr)) (VS (VInt 0)) = VS (VInt 493).
Proof. exact ex_tsetattr_wf_and_norm. Qed.
Example C01_ex_rreaddir :
  mwf (layout_of_typ 41) ex_rreaddir = true /\
  match mv_pay (mnorm (layout_of_typ 41) ex_rreaddir) with PVDirents c rows => c = 51 /\ List.length rows = 2%nat | _ => False end.
Proof. exact ex_rreaddir_truncated. Qed.

(** "every reply the server can produce is laid out on the wire as size[4] type[1] tag[2] ..." presupposes that
    the server's byte stream IS a sequence of frames: send writes a frame as several vectors (header, fixed
    part, payload), so two replies written at once would interleave.  Read from p9/server.go on every run
    (gen/LoopGen.v, Loop/Tie.v; the interleaving theorem itself is C06_contiguous): every send of a reply --
    the Rlerror of the receive path included -- happens inside connState.sendMu, and nothing outside
    handleRequest sends. *)
Theorem C01_replies_are_whole_frames :
  P9V.Loop.Tie.send_under_sendMu = true /\ P9V.Loop.Tie.sends_only_in_handleRequest = true.
Proof. exact (conj P9V.Loop.Tie.tie_send_under_sendMu P9V.Loop.Tie.tie_sends_only_in_handleRequest). Qed.
Print Assumptions C01_replies_are_whole_frames.
