(** C03 — client/server transparency for every File operation at every version.
    Statements only; proofs in Client/ClientProofs.v and Client/Errs.v.

    [backend_calls v op env]: the backend calls caused by the messages that
    clientFile.op puts on the wire at negotiated version v (table read from the
    source by go2coq, equal to the reviewed table: C03_table), after the codec's
    rewriting, as performed by the handlers.  [expected v op env]: the same
    operation with the same arguments on the File the handle denotes, with the
    documented rewriting only.  Arguments are arbitrary (the environment is
    universally quantified).
    The composed methods (GetXattr/ListXattrs = xattrwalk + chunked read + clunk,
    WalkGetAttr below version 2 = Walk + GetAttr, ReadAt/WriteAt = C11's chunk)
    are modelled as functions in Client/Composed.v (theorems C03_xattr_..., C03_walkgetattr_fallback);
    their tie to the source is the statement text in the reviewed table.
    The server half (ClientModel.handler_calls) is proved equal to the interpretation of the
    backend-call events go2coq's HandlerGen extracts from p9/handlers.go (C03_handler_table).
    _partial: for Twalk/Twalkgetattr/Txattrwalk/Tattach (loops and branches) the backend calls and
    delegations the source contains are tied (C03_walk_handlers_events); which of them run, in what
    order and how often is modelled by hand and tied by the differential only; the result mapping is proved for the client half
    (C03_returns) and for errors (C03_errno_...). *)
From Coq Require Import ZArith NArith String List Bool.
From P9V Require Import gen.ConstGen gen.ClientGen Client.Chunk Client.ClientModel Client.ClientProofs Client.ChunkProofs Client.Errs Client.Composed Client.HandlerTie gen.ResultGen Client.Results Client.PathSeq Client.PathSeqTie Client.PathSeqTieProofs gen.ErrnoGen Client.ErrnoTie.
Import ListNotations.
Open Scope string_scope.

(** the table extracted from p9/client_file.go is the reviewed one: a forgotten [fid:] field, two
    swapped arguments or a changed version test make this obligation fail *)
Theorem C03_table : ClientGen.methods = spec_methods.
Proof. exact gen_is_spec. Qed.

(** transparency for the methods that perform one exchange: the backend sees exactly the expected call —
    Perm masked to 0o7777, uid/gid replaced by NoUID/NoGID below version 3, Rename/Remove arriving as
    RenameAt/UnlinkAt on the parent under the entry's current name — at every version 0..7, for all arguments *)
Theorem C03_transparent_partial : forall v name e,
  (v <= 7)%N -> In name direct_methods -> name <> "Readdir" -> name <> "Walk" ->
  backend_calls v name e = expected v name e.
Proof. intros v name e Hv. apply transparent_direct. now apply versions_all. Qed.
Print Assumptions C03_transparent_partial.

(** Readdir: the count is cut to what one reply of the negotiated msize can hold *)
Theorem C03_transparent_readdir : forall v e,
  (v <= 7)%N -> (11 <= e_msize e)%N -> backend_calls v "Readdir" e = expected v "Readdir" e.
Proof. intros v e Hv. apply transparent_readdir. now apply versions_all. Qed.

(** Walk: performed one component at a time on the server; an empty walk is one Walk(nil).  NOTE: [expected "Walk"]
    and the twalk entry of [handler_calls] are the same hand-written shape (one WalkGetAttr per component, each on
    "the file reached so far", written as the receiver): this theorem only says that the CLIENT hands the names over
    unchanged in one Twalk; that the server walks component by component on the right files is tied by
    C03_walk_handlers_events (vocabulary) and the differential (order, targets of the first component, results). *)
Theorem C03_transparent_walk : forall v e,
  (v <= 7)%N -> backend_calls v "Walk" e = expected v "Walk" e.
Proof. intros v e Hv. apply transparent_walk. now apply versions_all. Qed.
Print Assumptions C03_transparent_walk.

(** types used at version v are defined at v (Tu* only from 3, Twalkgetattr only from 2), and the
    switch happens exactly there *)
Theorem C03_version_types : forall v, (v <= 7)%N ->
  forallb (defined_in v) (types_at v) = true /\
  existsb (String.eqb "tucreate") (types_at v) = (3 <=? v)%N /\
  existsb (String.eqb "tlcreate") (types_at v) = negb (3 <=? v)%N /\
  existsb (String.eqb "twalkgetattr") (types_at v) = (2 <=? v)%N.
Proof.
  intros v Hv. split; [apply version_types|apply version_types_exact]; now apply versions_all.
Qed.
Print Assumptions C03_version_types.

(** errors: ExtractErrno finds the errno through any depth of wrapping ... *)
Theorem C03_errno_wrapped : forall k e, extract (wrapn k e) = extract e.
Proof. exact extract_wrapn. Qed.
Print Assumptions C03_errno_wrapped.

(** chains whose first syscall.Errno is NON-ZERO (errno 0 is not an error value; the code lets a zero
    syscall.Errno fall through to the os.Err* sentinels, and the model does the same): without a linux.Errno
    in the chain the first syscall.Errno found is the answer *)
Theorem C03_errno_first_sys : forall e n, find is_linux e = None -> find is_sys e = Some n -> n <> 0%N -> extract e = n.
Proof. intros e n Hl Hs Hn. unfold extract. rewrite Hl, Hs. destruct n; congruence. Qed.

Theorem C03_errno_first_linux : forall e n, find is_linux e = Some n -> extract e = n.
Proof. intros e n Hl. unfold extract. now rewrite Hl. Qed.

(** ... a linux.Errno or a non-zero syscall.Errno is itself, the os.Err* sentinels map to their errno, anything else is EIO;
    an errno anywhere in the chain wins over a sentinel (commit f2c8a14) *)
Theorem C03_errno_cases : forall n p,
  extract (LinuxErrno n) = n /\ extract (SysErrno (Npos p)) = Npos p /\
  extract OsNotExist = linux_ENOENT /\ extract OsExist = linux_EEXIST /\
  extract OsPermission = linux_EACCES /\ extract OsInvalid = linux_EINVAL /\
  extract Opaque = linux_EIO /\ extract EEOF = linux_EIO /\
  extract (Join [OsPermission; Wrap (SysErrno (Npos p))]) = Npos p /\
  extract (Wrap (Join [Opaque; OsExist; LinuxErrno n])) = n.
Proof. intros n p. repeat split. Qed.

(** ... and through any TREE of wrapped errors (errors.Join, fmt.Errorf with several %w, nested to any depth):
    ExtractErrno is a function of the depth-first sequence of leaves, so no way of wrapping or joining hides an errno;
    the first linux.Errno leaf is the answer *)
Theorem C03_errno_trees : forall e, extract e = extract_leaves (leaves e).
Proof. exact extract_by_leaves. Qed.
Print Assumptions C03_errno_trees.

Theorem C03_errno_first_linux_leaf : forall e n, first_some is_linux (leaves e) = Some n -> extract e = n.
Proof. exact extract_first_linux_leaf. Qed.

(** TIE BY TRANSLATION: gen/ErrnoGen.v holds linux.ExtractErrno and (the linux build's) sysErrno as go2coq
    TRANSLATED them from linux/errors.go and linux/errors_linux.go on this run -- the order of the tests, the
    value each returns, the os.Err* table with its errnos, the EIO default; it IS [extract], for every error
    tree, so the C03_errno_* theorems are theorems about what the source says (errors.As / errors.Is are the
    tree walks [find] / [has] of Client/Errs.v: hand models of the standard library, trusted). *)
Theorem C03_source_errno_is_model : forall e, gen_ExtractErrno e = extract e.
Proof. exact gen_ExtractErrno_is_model. Qed.
Print Assumptions C03_source_errno_is_model.
Theorem C03_source_errno_wrapped : forall k e, gen_ExtractErrno (wrapn k e) = gen_ExtractErrno e.
Proof. exact source_errno_through_wraps. Qed.
Theorem C03_source_errno_first_linux_leaf : forall e n, first_some is_linux (leaves e) = Some n -> gen_ExtractErrno e = n.
Proof. exact source_errno_first_linux_leaf. Qed.

(** a failing backend Close reaches newErr as errors.Join(fmt.Errorf("file: %w", err)) (fidRef.DecRef): same errno;
    a walker following only Unwrap() error (errors.Unwrap) loses it — the witness of seeded change C03-m4 *)
Theorem C03_errno_close : forall e, extract (server_close_error e) = extract e.
Proof. exact extract_close_error. Qed.

Theorem C03_errno_single_chain_refuted :
  find_single is_linux (server_close_error (LinuxErrno 122)) = None /\ extract (server_close_error (LinuxErrno 122)) = 122%N /\
  find_single is_linux (Wrap (Join [Opaque; LinuxErrno 30])) = None /\ extract (Wrap (Join [Opaque; LinuxErrno 30])) = 30%N.
Proof. exact single_chain_walker_refuted. Qed.

(** BY DEFINITION of the model ([client_error n := LinuxErrno n] restates sendRecv's `linux.Errno(rlerr.Error)`; newErr,
    the Rlerror codec and sendRecv are not derived from the source): errno in, same errno out.  Tested, not tied:
    every failing case of the differential checks the errno the caller gets against [extract] of the backend's error. *)
Theorem C03_errno_roundtrip_by_definition : forall n, extract (client_error n) = n.
Proof. reflexivity. Qed.

(** SetXattr and RemoveXattr fail locally with ENOSYS; no message *)
Theorem C03_enosys_local : forall name v e, name = "SetXattr" \/ name = "RemoveXattr" ->
  client_msgs v name e = [] /\
  exists m, find_method name = Some m /\ gm_local m = "ENOSYS" /\ gm_sends m = [] /\ gm_text m = [].
Proof. exact enosys_local. Qed.
Print Assumptions C03_enosys_local.

(** all 26 File methods are in the table; every message carries the receiver's fid; the values
    returned are the reply's fields in the order of the File method's results *)
Theorem C03_methods_present :
  forallb (fun n => match find_method n with Some _ => true | None => false end) file_methods = true /\
  length file_methods = 26%nat.
Proof. split; [exact file_methods_present|reflexivity]. Qed.

Theorem C03_receiver_fid :
  forallb (fun m => forallb (fun s => existsb (fun f => match snd f with GRecvFid => true | _ => false end) (gs_fields s)
                                     || String.eqb (gs_t s) "tattach")
                            (gm_sends m)) spec_methods = true.
Proof. exact every_send_has_receiver_fid. Qed.

Theorem C03_returns : forallb (fun x => rets_ok (fst x) (snd x)) ret_spec = true.
Proof. exact returns_ok. Qed.

(** satisfiable / the model computes: Mkdir at versions 2 and 3 *)
Example C03_ex_mkdir :
  let e := mkenv (fun k => if k =? "name" then VS "d" else if k =? "permissions" then VN 8191 else if k =? "uid" then VN 1000 else VN 2000)
                 5 0 (fun _ => 0%N) 8192 in
  backend_calls 2 "Mkdir" e = [mkbc "Mkdir" (OnFid 5) [VS "d"; VN 4095; VN p9_NoUID; VN p9_NoGID]] /\
  backend_calls 3 "Mkdir" e = [mkbc "Mkdir" (OnFid 5) [VS "d"; VN 4095; VN 1000; VN 2000]].
Proof. vm_compute. split; reflexivity. Qed.

(** ---- composed methods ---- *)

(** GetXattr/ListXattrs against a server that serves the attribute's bytes: the whole value, for every payload size *)
Theorem C03_xattr_full : forall cs (v : list N), (1 <= cs)%nat -> (0 < List.length v)%nat ->
  (Z.of_nat (List.length v) < 9223372036854775808)%Z ->
  fst (xattr_read true cs (XWalkOk (List.length v)) (rf_of_list v) []) = XOk v.
Proof. exact xattr_full. Qed.
Print Assumptions C03_xattr_full.

(** whatever the replies: a value is returned only when the chunked read ended without error or with the io.EOF
    readAt makes of an empty reply; any other error — a broken connection included — is returned instead (d1c9538) *)
Theorem C03_xattr_no_truncation : forall cs size value tape v,
  fst (xattr_read true cs (XWalkOk size) value tape) = XOk v ->
  size = 0%nat \/
  exists n e calls st, read_at cs (repeat 0%N size) 0 value tape = ((CRet n e, calls), st) /\
                       (e = None \/ e = Some CEOF) /\ v = firstn n (rs_buf st).
Proof. exact xattr_no_truncation_on_error. Qed.
Print Assumptions C03_xattr_no_truncation.

Theorem C03_xattr_truncation_refuted :
  fst (xattr_read false 2 (XWalkOk 5) (rf_of_list [1;2;3;4;5]%N) [RCount 2; RErr CConn]) = XOk [1;2]%N /\
  fst (xattr_read true 2 (XWalkOk 5) (rf_of_list [1;2;3;4;5]%N) [RCount 2; RErr CConn]) = XErr CConn.
Proof. exact xattr_truncation_refuted. Qed.

(** WalkGetAttr below version 2 is Walk followed by GetAttr(all attributes) on the walked file *)
Theorem C03_walkgetattr_fallback : forall v e, (v < 2)%N -> e_param e "components" = VL [] ->
  walkgetattr_calls v e false =
  [mkbc "Walk" (OnFid (e_fid e)) [VL []]; mkbc "GetAttr" (OnFid (e_newfid e)) [VR (repeat 1%N 14)]].
Proof. exact walkgetattr_fallback. Qed.
Print Assumptions C03_walkgetattr_fallback.

(** ---- the server half comes from handlers.go ---- *)

(** for the 22 T-messages whose handler makes one backend call: the call of the model is the call of the
    handler's trace in gen/HandlerGen.v — receiver (the fid's File, or its parent's), method, argument
    expressions (t.<Field>, the uid handed down by the Tu* wrapper or NoUID, the second fid's File, int(t.PID),
    the entry's name read under the rename lock); read from the alpha-renamed traces, so that renaming a local
    in handlers.go does not matter *)
Theorem C03_handler_table : forall t fs, In t simple_handlers ->
  handler_calls (t, fs) = gen_handler_calls t fs.
Proof. exact handler_table_generated. Qed.
Print Assumptions C03_handler_table.

Theorem C03_handler_table_remove : forall fs,
  handler_calls ("tremove", fs) = (gen_handler_calls "tremove" fs ++ [mkbc "Close" (OnFid (fidof (fld "fid" fs))) []])%list /\
  In "call:f.file.Close()" (raw_events "fidRef.DecRef").
Proof. exact handler_table_remove. Qed.

(** ReadAt/WriteAt: I/O split to fit msize.  For any run of C11's chunk (its requests satisfy [chunks_ok]:
    C11_write_general / C11_read), the backend sees one WriteAt per request; their data put end to end is the
    part of p that was offered, each is at the offset where the previous one ended, none exceeds the payload *)
Theorem C03_io_split : forall cs (p : list N) off0 fid calls n e,
  (1 <= cs)%nat -> ChunkProofs.chunks_ok cs (List.length p) off0 0 calls n e -> (0 <= off0)%Z ->
  let bc := writeat_calls fid p calls in
  concat (map data_of bc) = firstn (fold_right (fun c a => (c_len c + a)%nat) 0%nat calls) p /\
  Forall (fun b => (List.length (data_of b) <= cs)%nat) bc /\
  Forall2 (fun b c => off_of b = Z.to_N (off0 + Z.of_nat (c_pos c))) bc calls.
Proof. exact writeat_split. Qed.
Print Assumptions C03_io_split.

(** the handlers with loops and branches: the backend calls / delegations / fid lookups in handlers.go are these *)
Theorem C03_walk_handlers_events :
  calls_and_delegations "twalk.handle" = ["delegate:doWalk(_v1, _v2, _v0.Names, false)"] /\
  calls_and_delegations "twalkgetattr.handle" = ["delegate:doWalk(_v1, _v2, _v0.Names, true)"] /\
  calls_and_delegations "doWalk" =
    ["delegate:walkOne(nil, _v1.file, _v1.pathNode, nil, _v3)";
     "delegate:walkOne(_v4, _v11.file, _v11.pathNode, _v2[_v12 : _v12+1], true)"] /\
  calls_and_delegations "walkOne" =
    ["call:<_v1>.WalkGetAttr(_v3)"; "call:<_v1>.Walk(_v3)"; "call:<_v7>.GetAttr(AttrMaskAll)"; "call:<_v7>.GetAttr(AttrMaskAll)";
     "call:<_v7>.Close()"; "call:<_v7>.Close()"] /\
  calls_and_delegations "txattrwalk.handle" = ["call:_v2.file.GetXattr(_v0.Name)"; "call:_v2.file.ListXattrs()"] /\
  calls_and_delegations "tattach.handle" =
    ["call:attacher.Attach()"; "call:<_v2>.GetAttr(AttrMaskAll)"; "delegate:doWalk(_v1, _v4, _v8, false)"] /\
  with_prefix "lookup:" (events "twalk.handle") = ["_v0.fid=>_v2"] /\
  with_prefix "lookup:" (events "twalkgetattr.handle") = ["_v0.fid=>_v2"] /\
  with_prefix "lookup:" (events "txattrwalk.handle") = ["_v0.fid=>_v2"].
Proof. exact walk_handlers_events. Qed.

(** ---- the result half: values unchanged ---- *)

(** the table of reply-field sources extracted from handlers.go is the reviewed one (a reply built from anything
    but the backend's results, e.g. Valid: AttrMaskAll in Rwalkgetattr, makes this obligation fail) *)
Theorem C03_reply_sources : ResultGen.reply_sources = reply_sources_spec.
Proof. exact reply_sources_generated. Qed.

(** at every version, for every method with result values: the i-th value the client method returns is the reply
    field the handler filled with the i-th result of the corresponding backend method (for Create the results after
    the File; for Walk/WalkGetAttr the QIDs, mask and attributes doWalk assembled) — composition = identity *)
Theorem C03_results_identity : forall v, (v <= 7)%N -> forallb (results_identity_at v) backend_results = true.
Proof. intros v Hv. apply results_identity. now apply versions_all. Qed.
Print Assumptions C03_results_identity.

Theorem C03_no_value_replies :
  forallb (fun t => match reply_entry t with [("type", _)] => true | _ => false end)
          ["tfsync"; "tlink"; "trename"; "trenameat"; "tsetattr"; "tunlinkat"; "tremove"; "tclunk"] = true.
Proof. exact no_value_replies. Qed.

(** ---- sequences through several handles: the operation still reaches the File after renames ---- *)

(** the same-entry short-circuit of Trenameat / Trename compares PATH NODES (and names), as read from handlers.go:
    operands are the path nodes of the two looked-up directory references (Trename: of the entry's parent), the
    names are the message's two names (Trename: the entry's current name read under the rename lock) *)
Theorem C03_rename_guard_by_node :
  rename_guard "trenameat.handle" "_v3" "_v5" = Some true /\ rename_guard "trename.handle" "_v3.parent" "_v5" = Some true /\
  bynode_of_source = true.
Proof. destruct rename_guard_generated as (_ & A & _ & B & _). repeat split; auto. Qed.

(** in every state of the path-tree model, for ANY two handles d, d' of one directory (same path node): renaming an
    entry onto its own name is a no-op — no backend call, state unchanged, success — and an operation through a
    handle f of any live entry then reaches f's File with its arguments *)
Theorem C03_rename_same_entry : forall st d d' rd rt name f rf m args,
  nth_error (ps_refs st) d = Some rd -> nth_error (ps_refs st) d' = Some rt ->
  pr_node rd = pr_node rt -> node_deleted st (pr_node rd) = false ->
  nth_error (ps_refs st) f = Some rf -> node_deleted st (pr_node rf) = false ->
  pstep true st (SRenameAt d name d' name) = (st, [], None) /\
  prun true st [SRenameAt d name d' name; SProbe f m args] = [([], None); ([mkbc m (OnFid (pr_fid rf)) args], None)].
Proof.
  intros. split; [eapply renameat_same_entry_noop; eauto|eapply probe_after_same_entry_rename; eauto].
Qed.
Print Assumptions C03_rename_same_entry.

Theorem C03_rename_same_entry_via_file : forall st f d' rf rt pi rp,
  nth_error (ps_refs st) f = Some rf -> nth_error (ps_refs st) d' = Some rt ->
  pr_parent rf = Some pi -> nth_error (ps_refs st) pi = Some rp ->
  pr_node rp = pr_node rt -> node_deleted st (pr_node rf) = false -> node_deleted st (pr_node rt) = false ->
  pstep true st (SRename f d' (node_name st (pr_node rf))) = (st, [], None).
Proof. exact rename_same_entry_noop. Qed.

(** a Trenameat, carried out or not, never deletes the entry it names (so handles of it keep reaching their File),
    unless the origin directory lies inside the entry being replaced.  _partial: stated for Trenameat; the same for
    Trename and the re-registration of the moved references under the new parent are covered by the differential
    (CSeq cases) only *)
Theorem C03_rename_keeps_entry_partial : forall st d old d' new rd rt c x st' calls err,
  nth_error (ps_refs st) d = Some rd -> nth_error (ps_refs st) d' = Some rt ->
  child (ps_nodes st) (pr_node rd) old = Some c -> nth_error (ps_nodes st) c = Some x -> pn_del x = false ->
  (forall v k, child (ps_nodes st) (pr_node rt) new = Some v -> under k (ps_nodes st) (pr_node rd) v = false) ->
  pstep true st (SRenameAt d old d' new) = (st', calls, err) -> node_deleted st' c = false.
Proof. exact renameat_keeps_entry. Qed.
Print Assumptions C03_rename_keeps_entry_partial.

(** with the directories compared by HANDLE the rename onto the own name through a second handle deletes the entry:
    the next operation through its handle is refused with EINVAL and never reaches the File (seeded change C03-m3) *)
Theorem C03_rename_handle_identity_refuted :
  prun false ex_state [SRenameAt 1 "a" 2 "a"; SProbe 3 "SetAttr" []] =
    [([mkbc "RenameAt" (OnFid 2) [VS "a"; VFile 3; VS "a"]], None); ([], Some linux_EINVAL)] /\
  prun true ex_state [SRenameAt 1 "a" 2 "a"; SProbe 3 "SetAttr" []] =
    [([], None); ([mkbc "SetAttr" (OnFid 4) []], None)].
Proof. destruct handle_identity_refuted as (A & B & _). split; assumption. Qed.
