(** C02 — decoder safety, bounded buffering, frame resynchronisation.
    Statements only; proofs in Frame/FrameProofs.v.  Every theorem holds for every
    byte stream [s : list N], every msize, every [lookup] (what lookup(tag,type)
    answers) and every body decoder verdict [dec]. *)
From Coq Require Import NArith List Bool.
From P9V Require Import gen.ConstGen Frame.Model Frame.ListN Frame.FrameProofs Frame.Instantiate Frame.DecodeProg Frame.DecodeTie Frame.RecvLL Frame.Reader Frame.Imp gen.VecGen Frame.VecTie.
Require P9V.Codec.GenCheck P9V.gen.CodecGen P9V.Codec.Spec9P P9V.Codec.Reuse.
Import ListNotations.
Open Scope N_scope.

Section C02.
  Variable lookup : N -> N -> lookup_result.
  Variable dec : N -> list N -> list N -> bool.

  (** recv answers on every stream (it is a total function); on a closed stream it never
      waits, and it never consumes more than is there *)
  Theorem C02_total : forall closed msize s,
    exists o bufs, recv lookup dec closed msize s = (o, bufs) /\
                   (closed = true -> o <> NeedMore) /\ consumed o <= len s.
  Proof. exact (recv_total lookup dec). Qed.

  (** 7 <= size <= min msize 4MiB and the stream holds the frame: delivered or rejected,
      having consumed exactly the declared size *)
  Theorem C02_consumed : forall closed msize s,
    hdr_check msize (le32 s) = true -> le32 s <= len s ->
    (exists t ty b p, fst (recv lookup dec closed msize s) = Deliver t ty b p (le32 s)) \/
    (exists t, fst (recv lookup dec closed msize s) = Reject t (le32 s)).
  Proof. exact (recv_consumed lookup dec). Qed.

  Theorem C02_hdr_check : forall msize size,
    hdr_check msize size = true <-> 7 <= size /\ size <= 4194304 /\ size <= msize.
  Proof. exact (hdr_check_spec lookup dec). Qed.

  (** size < 7, > msize or > 4 MiB: connection error having read the 7 header bytes only;
      the only buffer is the header array *)
  Theorem C02_bad_size : forall closed msize s,
    7 <= len s -> hdr_check msize (le32 s) = false ->
    recv lookup dec closed msize s = (ConnErr 7, [7]).
  Proof. exact (recv_bad_size lookup dec). Qed.

  (** never waits for more input once the frame is complete (or refused) *)
  Theorem C02_no_wait : forall closed msize s,
    closed = true \/ (7 <= len s /\ (hdr_check msize (le32 s) = false \/ le32 s <= len s)) ->
    fst (recv lookup dec closed msize s) <> NeedMore.
  Proof. exact (recv_no_wait lookup dec). Qed.

  (** the buffers read into for one frame total at most max 7 (min msize 4MiB) *)
  Theorem C02_buffer_bound : forall closed msize s,
    sumN (snd (recv lookup dec closed msize s)) <= N.max 7 (N.min msize 4194304).
  Proof. exact (recv_buffer_bound lookup dec). Qed.

  (** a delivered message is made of exactly the frame's own bytes: tag and type from its
      header, fixed part ++ payload = the size-7 bytes after the header, accepted by the decoder.
      (That the decoded fields are the encoded values is C01's round trip.) *)
  Theorem C02_deliver_exact : forall closed msize s t ty b p c,
    fst (recv lookup dec closed msize s) = Deliver t ty b p c ->
    hdr_check msize (le32 s) = true /\ c = le32 s /\ c <= len s /\ t = hdr_tag s /\ ty = hdr_typ s /\
    b ++ p = takeN (c - 7) (dropN 7 s) /\ dec ty b p = true /\
    (exists fixed, plan_of lookup t ty (c - 7) = PBody fixed /\ b = takeN fixed (dropN 7 s)).
  Proof. exact (recv_deliver_exact lookup dec). Qed.

  (** resynchronisation: any sequence of well-delimited frames -- delivered or rejected, in any
      mix -- followed by anything: one event per frame, in order, then the events of the rest *)
  Theorem C02_resync : forall closed msize fs rest,
    Forall (well_delimited msize) fs ->
    serve lookup dec closed msize (concat fs ++ rest) =
      map (frame_event lookup dec msize) fs ++ serve lookup dec closed msize rest.
  Proof. exact (serve_frames lookup dec). Qed.

  (** ... where the event of a frame is a delivery of its body or exactly one Rlerror *)
  Theorem C02_frame_event : forall msize f,
    well_delimited msize f ->
    (exists t ty b p, frame_event lookup dec msize f = EvDeliver t ty b p /\ b ++ p = dropN 7 f /\ dec ty b p = true) \/
    (exists t, frame_event lookup dec msize f = EvRlerror t).
  Proof. exact (frame_event_kind lookup dec). Qed.

  (** server level: one reply per frame, in order of the frames, and the frames after a rejected one
      are still served.  [frame_reply f] = (tag, must be Rlerror): an unknown type is answered
      Rlerror under the frame's own tag, a body-level rejection (fixed part does not fit, decoder
      overruns) Rlerror under NOTAG, a decodable request is handled and answered under its tag *)
  Theorem C02_server_replies : forall closed msize fs rest,
    Forall (well_delimited msize) fs ->
    replies (serve lookup dec closed msize (concat fs ++ rest)) =
      map (frame_reply lookup dec) fs ++ replies (serve lookup dec closed msize rest).
  Proof. exact (serve_replies lookup dec). Qed.

  (** a refused size field ends the session: nothing after it is served *)
  Theorem C02_shutdown : forall closed msize s,
    7 <= len s -> hdr_check msize (le32 s) = false -> serve lookup dec closed msize s = [EvShutdown].
  Proof. exact (serve_bad_size lookup dec). Qed.

  (** truncation at every offset: a strict prefix of a frame is never delivered; an open stream
      waits, a closed one gives a connection error (or the rejection of a frame being discarded) *)
  Theorem C02_truncated : forall closed msize f k,
    well_delimited msize f -> k < len f ->
    match fst (recv lookup dec closed msize (takeN k f)) with
    | Deliver _ _ _ _ _ => False
    | NeedMore => closed = false
    | ConnErr c => closed = true /\ c = k
    | Reject _ c => closed = true /\ c = k
    end.
  Proof. exact (recv_truncated lookup dec). Qed.
End C02.

Print Assumptions C02_total.
Print Assumptions C02_consumed.
Print Assumptions C02_bad_size.
Print Assumptions C02_no_wait.
Print Assumptions C02_buffer_bound.
Print Assumptions C02_deliver_exact.
Print Assumptions C02_resync.
Print Assumptions C02_frame_event.
Print Assumptions C02_server_replies.
Print Assumptions C02_shutdown.
Print Assumptions C02_truncated.

(** ** with the real message layouts (Codec/, C01's development): lookup and the decoder's verdict
    computed from a layout registry [tbl] instead of being parameters *)

(** the two independently written models of transport.go recv (Codec/Frame.v and Frame/Model.v)
    agree on every byte stream and msize: same classification, same tag, same leftover bytes, and
    the message Codec decodes is the decoding of exactly the delivered fixed part ++ payload *)
Theorem C02_models_agree : forall tbl msize s,
  match CF.recv msize tbl s with
  | CF.RConnErr => exists c, fst (recv (lookup_codec tbl) (decode_codec tbl) true msize s) = ConnErr c
  | CF.RUnknown t rest =>
      CF.lookup (hdr_typ s) tbl = None /\
      exists c, fst (recv (lookup_codec tbl) (decode_codec tbl) true msize s) = Reject t c /\ rest = dropN c s
  | CF.RInvalid rest =>
      exists c, fst (recv (lookup_codec tbl) (decode_codec tbl) true msize s) = Reject noTag c /\ rest = dropN c s
  | CF.ROk t ty mv rest =>
      exists b p c ml, fst (recv (lookup_codec tbl) (decode_codec tbl) true msize s) = Deliver t ty b p c /\
                       rest = dropN c s /\ CF.lookup ty tbl = Some ml /\ CF.recv_body ml (b ++ p) = Some mv
  end.
Proof. exact recv_agrees. Qed.
Print Assumptions C02_models_agree.

(** a delivered message is the decoding, by its type's layout, of exactly the size-7 bytes after
    the frame's header: its field values are the ones encoded in the frame ... *)
Theorem C02_deliver_values : forall tbl closed msize s t ty b p c,
  fst (recv (lookup_codec tbl) (decode_codec tbl) closed msize s) = Deliver t ty b p c ->
  exists ml mv, CF.lookup ty tbl = Some ml /\ b ++ p = takeN (c - 7) (dropN 7 s) /\
                CF.recv_body ml (takeN (c - 7) (dropN 7 s)) = Some mv.
Proof. exact deliver_values. Qed.
Print Assumptions C02_deliver_values.

(** ... and for every frame [send] writes (any registered layout, any well-formed value, any
    bytes following it) recv delivers it, consuming exactly its size, with exactly the field values
    that were encoded (up to mnorm: permission bits masked, Rreaddir cut to whole entries) *)
Theorem C02_deliver_sent : forall tbl closed msize tag typ ml mv rest,
  CF.lookup typ tbl = Some ml -> CF.ml_ok ml = true -> CF.mwf ml mv = true -> tag < 65536 ->
  CF.frame_size ml mv <= msize -> CF.frame_size ml mv <= 4194304 ->
  exists b p, fst (recv (lookup_codec tbl) (decode_codec tbl) closed msize (CF.send tag typ ml mv ++ rest))
                = Deliver tag typ b p (CF.frame_size ml mv) /\
              CF.recv_body ml (b ++ p) = Some (CF.mnorm ml mv) /\
              dropN (CF.frame_size ml mv) (CF.send tag typ ml mv ++ rest) = rest.
Proof. exact deliver_sent. Qed.
Print Assumptions C02_deliver_sent.

(** the protocol table (65 layouts, Codec/Spec9P.v, proved equal to what go2coq reads from
    messages.go in Codec/GenCheck.v) and the registry FrameGen reads from init()/FixedSize()
    give the same lookup for all 256 type numbers *)
Theorem C02_registry : forall tag typ, typ < 256 -> spec_lookup tag typ = framegen_lookup tag typ.
Proof. exact registries_agree. Qed.
Print Assumptions C02_registry.

(** ... and that protocol table IS what go2coq reads from messages.go (CodecGen: the encode/decode
    programs of all registered types), for every type number; this puts the link from the decoder used
    above and in the differential's property predicate to the source into C02's own cone *)
Section SpecIsSource.
  Import P9V.Codec.Layout P9V.Codec.Frame P9V.Codec.Reuse P9V.Codec.Spec9P P9V.gen.CodecGen P9V.Codec.GenCheck.
  Theorem C02_spec_is_source : forall t, t < 256 ->
    match gen_find t gen_msgs with
    | None => spec_find t spec = None
    | Some g =>
        exists s b dl,
          spec_find t spec = Some s /\ bind_find t binding = Some b /\ gm_go g = b_go b /\
          rename_ml (to_spec (b_map b)) (gm_enc g) = sm_layout s /\
          layout_of (gm_dec g) = Some dl /\ rename_ml (to_spec (b_map b)) dl = sm_layout s /\
          ml_ok (sm_layout s) = true /\
          gm_fixed_size g = option_map N.of_nat (fixed_size (gm_enc g))
    end.
  Proof. exact layout_is_spec. Qed.
End SpecIsSource.
Print Assumptions C02_spec_is_source.

(** ** inside the decoders: the decode PROGRAMS go2coq reads off the Go decode methods (gen/CodecGen.v gm_dec),
    run the way recv runs them (Codec/Reuse.v recv_into: into a recycled object [old], through a pooled scratch
    buffer with arbitrary previous content [dirty], cut to the body) *)
Section Programs.
  Import P9V.Codec.Layout P9V.Codec.Frame P9V.Codec.Reuse P9V.gen.CodecGen P9V.Codec.GenCheck.

  (** for every registered type the program accepts a body iff the layout decoder accepts exactly those bytes:
      a body too short for the fields of its type, a count that disagrees with the payload length, a string or
      list running past the end are REJECTED for every object state and every pool content -- a frame is never
      completed from bytes outside it.  (all 65 programs: table obligation DecodeTie.all_good) *)
  Theorem C02_program_verdict : forall g ml old dirty body,
    In g gen_msgs -> layout_of (gm_dec g) = Some ml ->
    is_some (recv_into g old dirty body) = is_some (recv_body ml body).
  Proof.
    intros g ml old dirty body Hin Hl. apply recv_into_is_recv_body.
    pose proof all_good as G. rewrite forallb_forall in G. specialize (G g Hin). unfold good_gen in G.
    now rewrite Hl in G.
  Qed.

  (** hence recv and the receive loop with the programs as decode step are recv / the loop with the layout decoder
      of Frame/Instantiate.v, on every stream: C02_deliver_values, C02_deliver_sent, C02_models_agree (stated for
      any table) hold of the generated programs with tbl := gen_dec_registry *)
  Theorem C02_recv_with_programs : forall old dirty closed msize s,
    Model.recv (lookup_codec gen_dec_registry) (decode_prog old dirty) closed msize s =
    Model.recv (lookup_codec gen_dec_registry) (decode_codec gen_dec_registry) closed msize s.
  Proof. exact recv_with_programs. Qed.

  Theorem C02_serve_with_programs : forall old dirty closed msize s,
    Model.serve (lookup_codec gen_dec_registry) (decode_prog old dirty) closed msize s =
    Model.serve (lookup_codec gen_dec_registry) (decode_codec gen_dec_registry) closed msize s.
  Proof. exact serve_with_programs. Qed.

  (** the buffer handed to decode is the pooled slice limited to the body; handing over the whole pooled slice
      (seeded change C02-m3) is expressible in the model and refuted: a 4-byte Tversion body is rejected for every
      pool, but completed from a stale version string by the unsliced variant *)
  Theorem C02_unsliced_buffer_refuted :
    In gen_msg_msgTversion gen_msgs /\
    (forall old dirty, recv_into gen_msg_msgTversion old dirty [0; 32; 0; 0] = None) /\
    is_some (recv_into_unsliced gen_msg_msgTversion [] stale_pool [0; 32; 0; 0]) = true.
  Proof. exact unsliced_buffer_refuted. Qed.
End Programs.
Print Assumptions C02_program_verdict.
Print Assumptions C02_recv_with_programs.
Print Assumptions C02_serve_with_programs.
Print Assumptions C02_unsliced_buffer_refuted.

(** the recvmsg path below recv (C02-m4 lives there): the iovec-advance statements of readFromBuffersLinux as
    go2coq VecGen reads them, run against the model's consume_iov -- bounded exhaustive, see C17_vec_advance_agrees_bounded *)
Theorem C02_vec_advance_agrees_bounded : forall views cur,
  In views universe -> cur <= sumN views ->
  match run_advance vec_advance vec_cur_name cur views, consume_iov cur views with
  | Some a, Some b => a = b
  | None, None => True
  | _, _ => False
  end.
Proof. exact vec_advance_agrees. Qed.
Print Assumptions C02_vec_advance_agrees_bounded.

(** "never panics".  recv written with Go's PARTIAL operations (Frame/RecvLL.v: uint32 subtractions that wrap,
    data[:size] on a pooled slice of any length -- a run-time panic when out of range --, make sized by a
    difference) and an explicit panic outcome: on every stream, msize, lookup, decoder and pool it returns [LVal] of the
    total model -- the panic outcome is unreachable and no difference wraps (the size tests come first) *)
Theorem C02_recv_no_panic : forall lookup dec closed msize pool s,
  recv_ll lookup dec closed msize pool s = LVal (recv lookup dec closed msize s).
Proof. exact recv_ll_total. Qed.
Print Assumptions C02_recv_no_panic.

Theorem C02_recv_never_panics : forall lookup dec closed msize pool s,
  recv_ll lookup dec closed msize pool s <> LPanic.
Proof. exact recv_never_panics. Qed.
Print Assumptions C02_recv_never_panics.

(** What remains BY CONSTRUCTION (not a theorem about the Go code): inside the decoders a failed bounds check is the
    [None] of the option monad (Codec/Layout.v; buffer.go's consume/has/ReadString are matched exactly by go2coq
    CodecGen and refused otherwise), the decode programs have no statement that can index (C02_program_verdict: they
    are the canonical programs of their layouts), and the scheduler/runtime is outside the model.  The observed half
    is the harness: every recv call runs under recover, the fuzz-style loop feeds random and mutated streams to the
    real recv and to a live Server.Handle; a Go panic or hang is a violation with the stream as replay. *)

(** the hypotheses are satisfiable: an 11-byte frame of type 120 (Tclunk) with tag 5 *)
Example C02_wd_example : well_delimited 8192 [11; 0; 0; 0; 120; 5; 0; 1; 0; 0; 0].
Proof. split; reflexivity. Qed.

(** a rejected frame (unknown type 3) between two good ones, then a size field of 3 *)
Example C02_resync_example :
  serve (fun _ ty => if ty =? 120 then LkPlain else LkUnknown) (fun _ b _ => len b =? 4) true 8192
        ([11; 0; 0; 0; 120; 5; 0; 1; 0; 0; 0] ++ [9; 0; 0; 0; 3; 6; 0; 9; 9] ++ [11; 0; 0; 0; 120; 7; 0; 2; 0; 0; 0] ++
         [3; 0; 0; 0; 120; 8; 0; 1; 1; 1; 1])
  = [EvDeliver 5 120 [1; 0; 0; 0] []; EvRlerror 6; EvDeliver 7 120 [2; 0; 0; 0] []; EvShutdown].
Proof. vm_compute. reflexivity. Qed.
