(** C17 — stream segmentation independence on both receive paths.
    Statements only; proofs in Frame/ReaderProofs.v.  A reader is a stream plus a
    script: entry (k, e) = the next Read / recvmsg hands over at most k bytes (e: with
    io.EOF attached if they are the last bytes); after the script everything asked
    for is handed over.  [script_ok PGeneric sc] = every k > 0; [script_ok PVec sc] = True. *)
From Coq Require Import NArith List Bool String.
From P9V Require Import gen.ConstGen Frame.Model Frame.ListN Frame.FrameProofs Frame.Reader Frame.ReaderProofs Frame.Imp gen.VecGen Frame.VecTie.
Import ListNotations.
Open Scope N_scope.

(** both paths fill the buffers with the first sum|bufs| bytes of the stream, leave the rest,
    or -- when the stream is too short -- report EOF (closed) / block (open); whatever the script *)
Theorem C17_fill : forall p closed sc bufs s,
  script_ok p sc ->
  exists sc', suffix_of sc' sc /\
    read_bufs p closed sc bufs s =
      if sumN bufs <=? len s then FDone (takeN (sumN bufs) s) (dropN (sumN bufs) s) sc'
      else if closed then FEof (len s) [] sc' else FBlock.
Proof. exact read_bufs_spec. Qed.
Print Assumptions C17_fill.

(** the header read (io.ReadAtLeast) tolerates even Reads that hand over nothing *)
Theorem C17_header : forall closed sc want s,
  exists sc', suffix_of sc' sc /\
    fill false closed sc want s =
      if want <=? len s then FDone (takeN want s) (dropN want s) sc'
      else if closed then FEof (len s) [] sc' else FBlock.
Proof. intros. apply fill_spec. discriminate. Qed.
Print Assumptions C17_header.

(** recv over any segmentation, on either path = recv on the flat stream; what is left in the
    reader is exactly the stream after the bytes consumed *)
Theorem C17_recv_indep : forall lookup dec p closed msize sc s,
  script_ok p sc ->
  exists sc', suffix_of sc' sc /\
    recv_rd lookup dec p closed msize sc s =
      RR (fst (recv lookup dec closed msize s)) (dropN (consumed (fst (recv lookup dec closed msize s))) s) sc'.
Proof. exact recv_rd_spec. Qed.
Print Assumptions C17_recv_indep.

(** the sequence of messages (and Rlerrors, and the shutdown) depends on the bytes only *)
Theorem C17_serve_indep : forall lookup dec p closed msize sc s,
  script_ok p sc ->
  serve_rd lookup dec p closed msize sc s = Some (serve lookup dec closed msize s).
Proof. exact serve_rd_indep. Qed.
Print Assumptions C17_serve_indep.

(** in particular the two paths agree with each other under any two scripts *)
Corollary C17_paths_agree : forall lookup dec closed msize sc sc' s,
  script_ok PGeneric sc ->
  serve_rd lookup dec PGeneric closed msize sc s = serve_rd lookup dec PVec closed msize sc' s.
Proof. intros. rewrite !serve_rd_indep; [reflexivity|exact I|assumption]. Qed.
Print Assumptions C17_paths_agree.

(** a stream that ends inside a frame: connection error (or the rejection of a frame that was
    being thrown away), having consumed what there was; never a message *)
Theorem C17_midframe : forall lookup dec p msize sc f k,
  script_ok p sc -> well_delimited msize f -> k < len f ->
  exists o r sc', recv_rd lookup dec p true msize sc (takeN k f) = RR o r sc' /\
    match o with ConnErr c | Reject _ c => c = k | _ => False end.
Proof. exact recv_rd_midframe. Qed.
Print Assumptions C17_midframe.

(** generic path under ANY reader behaviour, Reads that hand over (0, nil) included: recv answers
    as on the flat stream or gives the connection up -- never another message, never a truncated one *)
Theorem C17_generic_safe : forall lookup dec closed msize sc s,
  (exists r sc', recv_rd lookup dec PGeneric closed msize sc s = RR (fst (recv lookup dec closed msize s)) r sc') \/
  (exists c r sc', recv_rd lookup dec PGeneric closed msize sc s = RR (ConnErr c) r sc').
Proof. exact recv_rd_generic_safe. Qed.
Print Assumptions C17_generic_safe.

(** the iovec-advance step of the recvmsg path as the SOURCE has it: the statements go2coq VecGen reads off
    vecnet_linux.go readFromBuffersLinux (gen/VecGen.v), run by the interpreter of Frame/Imp.v (Go index / slice
    panics included), leave the buffers [consume_iov] -- the function the theorems above are about -- leaves.
    BOUNDED: exhaustive over every list of <= 3 buffers of lengths 0..4 and every cur <= their sum; a semantic
    comparison (locals may be renamed, the loop rewritten equivalently), not a theorem for all buffer lists. *)
Theorem C17_vec_advance_agrees_bounded : forall views cur,
  In views universe -> cur <= sumN views ->
  match run_advance vec_advance vec_cur_name cur views, consume_iov cur views with
  | Some a, Some b => a = b
  | None, None => True
  | _, _ => False
  end.
Proof. exact vec_advance_agrees. Qed.
Print Assumptions C17_vec_advance_agrees_bounded.

(** the comparison is not vacuous: the two seeded rewrites of that loop (C17-m3: buffer compared with the recvmsg
    total; C02-m4: partly filled buffer advanced by the total) fail it, an equivalent countdown rewrite passes *)
Theorem C17_vec_advance_rewrites :
  advance_tie m3_advance "cur"%string = false /\ advance_tie m4_advance "cur"%string = false /\
  advance_tie countdown_advance "cur"%string = true.
Proof. exact (conj (proj1 seeded_rewrites_refuted) (conj (proj1 (proj2 seeded_rewrites_refuted)) equivalent_rewrite_passes)). Qed.
Print Assumptions C17_vec_advance_rewrites.

(** hypotheses are satisfiable; and a concrete run: header cut 3+4, then single bytes *)
Example C17_script_example : script_ok PGeneric [(3, false); (4, false); (1, true); (1, true); (1, false); (1, true)].
Proof. repeat constructor. Qed.
Example C17_run_example :
  serve_rd (fun _ ty => if ty =? 120 then LkPlain else LkUnknown) (fun _ b _ => len b =? 4) PGeneric true 8192
           [(3, false); (4, false); (1, true); (1, true); (1, false); (1, true)]
           [11; 0; 0; 0; 120; 5; 0; 1; 0; 0; 0]
  = Some [EvDeliver 5 120 [1; 0; 0; 0] []; EvShutdown].
Proof. vm_compute. reflexivity. Qed.
