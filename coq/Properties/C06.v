(** C06 — exactly one tagged reply per request, written as one contiguous frame; no
    unsolicited reply; requests served concurrently.  Statements only; the proofs are in
    Loop/Proofs.v (inductive invariant [Inv] over the step relation [exec] of
    Loop/Model.v).  Every theorem quantifies over ALL frame lists [inp] (tags chosen by
    the peer, re-used at will), ALL reachable states = all interleavings of any number
    of goroutines, all backend behaviours (when calls return, what they return).

    Send errors are part of the model (LBreak / LSendFail: the peer stops reading, every
    later Write fails, the server logs and carries on).  Assumed (see props/C06.py): sequentially
    consistent sync.Mutex / channels; the Go scheduler eventually runs an enabled
    goroutine (liveness is stated as "some step of the server is enabled"). *)
From Coq Require Import NArith List Bool Arith Relations String.
From P9V Require Import Loop.Model Loop.Proofs Loop.Multi Loop.Tie Loop.FidMu Loop.Variants gen.LoopGen.
Import ListNotations.
Open Scope list_scope.

(** Safety half of "exactly one reply": request i has a completed reply r exactly when its
    goroutine finished the send; at most one such entry exists; it carries the tag recv
    returned for frame i (the reply IS entry i: its header is written with that tag) and
    its type is Rlerror for a rejected frame, Rflush for a Tflush, the matching R-type or
    Rlerror otherwise. *)
Theorem C06_exactly_one_safety : forall inp s, reachable inp s ->
  NoDup (map fst (replies s)) /\
  forall i r, In (i, r) (replies s) <->  pc s i = RDone r.
Proof. intros inp s R. pose proof (reachable_Inv inp s R) as I. split; [apply I|apply I]. Qed.
Print Assumptions C06_exactly_one_safety.

(* NOTE (true by construction, not proved): in the model a reply IS its request (entry i of the reply log; the frame
   header is written from the local that recv bound - tie_calls: recv binds (v0 = tag, v1 = message, ...), StartTag,
   ClearTag and both sends get v0, handle gets v1, the second send gets handle's result).  So "same tag" is carried by
   that tie and by the harness, which checks on the OBSERVED frames that every reply's tag is that of an outstanding
   request of that connection and its type the matching R-type or Rlerror, exactly once (Loop/Cases.v [solicited]).  For
   an ordinary request [reply_ok] allows both reply kinds, so the theorem below has content only for rejected frames
   (always Rlerror) and flushes (always Rflush). *)
Theorem C06_reply_type : forall inp s i r, reachable inp s -> In (i, r) (replies s) ->
  exists f, nth_error inp i = Some f /\ reply_ok f r.
Proof.
  intros inp s i r R H. pose proof (reachable_Inv inp s R) as I.
  apply (done_reply_ok inp s i r I). now apply (I_rep inp s I).
Qed.
Print Assumptions C06_reply_type.

(** Liveness half: as long as some received request is neither answered nor dropped and is
    not waiting for the backend (directly, or as a flush waiting for a request that is),
    a step of the server code is enabled — in every reachable state.  So a request whose
    backend work has been released is answered unless the scheduler starves it; the only
    thing that can hold a reply back is a backend call that has not returned. *)
Theorem C06_progress : forall inp s i, reachable inp s ->
  final (pc s i) = false -> ~ waits_back s i ->
  exists l s', progress_label l = true /\ exec inp l s = Some s'.
Proof. intros inp s i R. apply progress_at. now apply reachable_Inv. Qed.
Print Assumptions C06_progress.

(** ... and once answered / dropped, a request stays so (no second reply later). *)
Theorem C06_final_stable : forall inp s s' i, reachable inp s -> steps inp s s' ->
  final (pc s i) = true -> pc s i <> RNone -> pc s' i = pc s i.
Proof. intros inp s s' i R. apply stable_pc_steps. now apply reachable_Inv. Qed.
Print Assumptions C06_final_stable.

(** No unsolicited reply: the number of replies written equals the number of requests whose
    goroutine completed a send; in a quiescent state (nothing in progress) it is exactly
    #received - #dropped - #connection-errors = #accepted + #rejected frames as long as no send
    failed, and in general #received - #(dropped | connection error | send failed). *)
Theorem C06_no_unsolicited : forall inp s, reachable inp s ->
  List.length (replies s) = count_pc is_done s /\
  ((forall i, final (pc s i) = true) ->
   List.length (replies s) + count_pc is_unanswered s = nrecv s /\
   (wbroken s = false -> List.length (replies s) + count_pc is_dropped s + count_pc is_conn s = nrecv s)).
Proof.
  intros inp s R. pose proof (reachable_Inv inp s R) as I. split.
  - now apply (replies_count inp).
  - intros Hq. split; [now apply (quiescent_count inp)|]. intros Hb. now apply (quiescent_count_unbroken inp).
Qed.
Print Assumptions C06_no_unsolicited.

(** The precondition "tag not already in flight", explicitly: a decodable request is dropped
    without any reply ONLY IF an earlier accepted request carrying the same tag had not yet
    passed ClearTag when this one was received ... *)
Theorem C06_dropped_only_if_tag_active : forall inp s i, reachable inp s -> pc s i = RDropped ->
  (forall r, ~ In (i, r) (replies s)) /\
  exists j t k k', j < i /\ nth_error inp i = Some (FReq t k) /\ nth_error inp j = Some (FReq t k') /\ accepted (pc s j) = true.
Proof.
  intros inp s i R H. pose proof (reachable_Inv inp s R) as I. split.
  - intros r Hin. apply (I_rep inp s I) in Hin. congruence.
  - apply (I_drop inp s I). right. right. exact H.
Qed.
Print Assumptions C06_dropped_only_if_tag_active.

(** ... and a tag is accepted again as soon as no earlier request with that tag is still
    before its ClearTag — in particular immediately after its reply (ClearTag precedes send). *)
Theorem C06_tag_reuse_accepted : forall inp s i t k, reachable inp s ->
  pc s i = RGot -> nth_error inp i = Some (FReq t k) ->
  (forall j k', j < i -> nth_error inp j = Some (FReq t k') -> active (pc s j) = false) ->
  exists s', exec inp (LStart i) s = Some s' /\ pc s' i = RStarted true.
Proof. intros inp s i t k R. apply reuse_accepted. now apply reachable_Inv. Qed.
Print Assumptions C06_tag_reuse_accepted.

Theorem C06_sent_reply_means_tag_free : forall inp s i r t k, reachable inp s ->
  In (i, r) (replies s) -> nth_error inp i = Some (FReq t k) -> tags s t <> Some i.
Proof.
  intros inp s i r t k R Hin Hf Ht. pose proof (reachable_Inv inp s R) as I.
  apply (I_rep inp s I) in Hin. destruct (I_tags1 inp s I _ _ Ht) as [Ha _]. rewrite Hin in Ha. discriminate.
Qed.

(** Contiguity: the byte stream is a concatenation of whole frames, followed by a proper
    prefix of ONE frame: that of the current holder of sendMu, or - after the peer stopped
    reading - of the send that failed half way (nothing is written after it), for all
    interleavings.  (Generated fact used: every send( is inside sendMu - tie_send_under_sendMu.) *)
Theorem C06_contiguous : forall inp s, reachable inp s ->
  exists pre, wire s = flat_map chunks (replies s) ++ pre /\
    (pre = [] \/ exists h r k, ((sendmu s = Some h /\ pc s h = RSend r k) \/ pc s h = RDoneF r) /\
                               k <= S (r_extra r) /\ pre = firstn k (chunks (h, r))).
Proof. intros inp s R. apply (wire_frames inp). now apply reachable_Inv. Qed.
Print Assumptions C06_contiguous.

(** The receiver: while the connection is not shut down some goroutine is at or before
    recvMu.Lock, or the holder of recvMu is still before its spawn-and-unlock ... *)
Theorem C06_receiver_always : forall inp s, reachable inp s -> shut s = false ->
  0 < nnew s + nidle s \/ recvmu s = true.
Proof. intros inp s R. apply (I_recvr inp). now apply reachable_Inv. Qed.
Print Assumptions C06_receiver_always.

(** ... hence a blocked handler never stops intake: from every reachable state that is not
    shut down, the next frame is received by a sequence of receive-path steps only (no
    handler, backend or send step is needed, whatever those goroutines are blocked on). *)
Theorem C06_intake_never_blocked : forall inp s, reachable inp s -> shut s = false -> nrecv s < List.length inp ->
  exists ls s', forallb intake_label ls = true /\ run inp ls s = Some s' /\ nrecv s' = S (nrecv s).
Proof. intros inp s R. apply intake. now apply reachable_Inv. Qed.
Print Assumptions C06_intake_never_blocked.

(** Requests are served concurrently: a request inside handle that is not (or no longer) in a
    backend call is answered by steps of the server code alone - its own and those of the current
    holder of sendMu finishing its frame - no matter how many other requests of the connection
    are blocked inside the backend, and no backend call has to return for it. *)
Theorem C06_nonblocking : forall inp s i w t r, reachable inp s ->
  pc s i = RRun w -> nth_error inp i = Some (FReq t KOp) ->
  exists ls s', forallb progress_label ls = true /\ run inp ls s = Some s' /\ send_over s' i r /\
                (wbroken s = false -> In (i, r) (replies s')).
Proof.
  intros inp s i w t r R Hp Hf. pose proof (reachable_Inv inp s R) as I.
  destruct (op_completes inp s i w t r I Hp Hf) as (ls & s' & H1 & H2 & H3 & H4).
  exists ls, s'. repeat split; auto. intros Hb.
  apply (send_over_unbroken inp s' i r (run_Inv inp ls s s' I H2)); [congruence|exact H3].
Qed.
Print Assumptions C06_nonblocking.

(** ... on its own or on any other connection: the system of all connections is the product of
    the per-connection loops (Loop/Multi.v; tie_loop_state: the loop touches only its own cs).  A step
    of connection c is enabled, and has the same effect on c, whatever the state of the other
    connections; it leaves them untouched; so every theorem of this file holds of each connection
    of every reachable product state, and the completing run above exists in the product with
    no other connection moving. *)
Theorem C06_cross_connection_independent : forall inp c l ms1 ms2, ms1 c = ms2 c ->
  match mexec inp c l ms1, mexec inp c l ms2 with
  | Some a, Some b => a c = b c
  | None, None => True
  | _, _ => False
  end.
Proof. exact mexec_local. Qed.
Theorem C06_cross_connection_untouched : forall inp c l ms ms' d, mexec inp c l ms = Some ms' -> d <> c -> ms' d = ms d.
Proof. exact mexec_other. Qed.
Theorem C06_cross_connection_each : forall inp ms, mreachable inp ms -> forall c, reachable (inp c) (ms c).
Proof. exact mreachable_each. Qed.
Theorem C06_cross_connection_nonblocking : forall inp ms c i w t r, mreachable inp ms ->
  pc (ms c) i = RRun w -> nth_error (inp c) i = Some (FReq t KOp) ->
  exists ls ms', forallb progress_label ls = true /\ mrun inp c ls ms = Some ms' /\ send_over (ms' c) i r /\
                 (forall d, d <> c -> ms' d = ms d).
Proof.
  intros inp ms c i w t r R Hp Hf. pose proof (reachable_Inv _ _ (mreachable_each inp ms R c)) as I.
  destruct (op_completes (inp c) (ms c) i w t r I Hp Hf) as (ls & s' & H1 & H2 & H3 & _).
  destruct (mrun_lift inp c ls ms s' H2) as (ms' & M1 & M2 & M3).
  exists ls, ms'. rewrite M2. auto.
Qed.
Print Assumptions C06_cross_connection_nonblocking.

(** Send errors.  A send fails only after the peer stopped reading; from then on nothing more
    reaches the wire; the loop neither panics nor hangs (C06_progress and C06_cleartag_never_panics
    hold of the model WITH failing sends: a failed send is a step, the goroutine loops as usual);
    and after the connection error (EOF) every idle goroutine leaves: once the requests in progress
    are over, pendingWg drains and Handle returns. *)
Theorem C06_send_fails_only_if_peer_stopped : forall inp s i r, reachable inp s -> pc s i = RDoneF r -> wbroken s = true.
Proof. intros inp s i r R. apply (I_fail inp). now apply reachable_Inv. Qed.
Theorem C06_nothing_written_after_break : forall inp s s', steps inp s s' -> wbroken s = true -> wire s' = wire s /\ wbroken s' = true.
Proof. exact broken_frozen_steps. Qed.
Theorem C06_shutdown_drains : forall inp s, reachable inp s -> shut s = true -> recvmu s = false ->
  exists ls s', forallb intake_label ls = true /\ run inp ls s = Some s' /\ nnew s' = 0 /\ nidle s' = 0 /\
    pc s' = pc s /\ replies s' = replies s /\ wire s' = wire s.
Proof. intros inp s R Hs Hm. apply (shutdown_drains inp (nnew s + nidle s)); auto. now apply reachable_Inv. Qed.
Print Assumptions C06_shutdown_drains.

(** ... and from the moment its handler has returned (backend work over), by its own steps and the sendMu holder's. *)
Theorem C06_completes_once_handled : forall inp s i r, reachable inp s -> pc s i = RRet r ->
  exists ls s', forallb progress_label ls = true /\ run inp ls s = Some s' /\ send_over s' i r /\
                (wbroken s = false -> In (i, r) (replies s')).
Proof.
  intros inp s i r R Hp. pose proof (reachable_Inv inp s R) as I.
  destruct (ret_completes inp s i r I Hp) as (ls & s' & H1 & H2 & H3 & H4).
  exists ls, s'. repeat split; auto. intros Hb.
  apply (send_over_unbroken inp s' i r (run_Inv inp ls s s' I H2)); [congruence|exact H3].
Qed.
Print Assumptions C06_completes_once_handled.

(** ClearTag's panic("unused tag cleared") is unreachable. *)
Theorem C06_cleartag_never_panics : forall inp s i r, reachable inp s -> pc s i = RRet r ->
  exists s', exec inp (LClear i) s = Some s'.
Proof. intros inp s i r R. apply ClearTag_never_panics. now apply reachable_Inv. Qed.

(** Mutual exclusion facts behind the above. *)
Theorem C06_one_sender : forall inp s i j r k r' k', reachable inp s ->
  pc s i = RSend r k -> pc s j = RSend r' k' -> i = j.
Proof.
  intros inp s i j r k r' k' R Hi Hj. pose proof (reachable_Inv inp s R) as I.
  destruct (I_send1 inp s I _ _ _ Hi). destruct (I_send1 inp s I _ _ _ Hj). congruence.
Qed.

(** Ties to the source (gen/LoopGen.v, regenerated from p9/server.go on every run). *)
Theorem C06_tie_send_under_sendMu : send_under_sendMu = true /\ sends_only_in_handleRequest = true.
Proof. split; [exact tie_send_under_sendMu|exact tie_sends_only_in_handleRequest]. Qed.
Theorem C06_tie_cleartag_before_send : cleartag_after_handle = true /\ cleartag_before_send = true.
Proof. split; [exact tie_cleartag_after_handle|exact tie_cleartag_before_send]. Qed.
Theorem C06_tie_starttag_and_spawn_under_recvMu :
  starttag_under_recvMu = true /\ spawn_before_unlock = true /\ recv_under_recvMu = true /\ handle_after_unlock = true /\ idle_counted = true.
Proof. exact (conj tie_starttag_under_recvMu (conj tie_spawn_before_unlock (conj tie_recv_under_recvMu (conj tie_handle_after_unlock tie_idle_counted)))). Qed.
Theorem C06_tie_shared_nothing : loop_state = ["cs.ClearTag"; "cs.StartTag"; "cs.TagDone"; "cs.frameLimit"; "cs.handle"; "cs.handleRequest"; "cs.handleRequests"; "cs.pendingWg"; "cs.r"; "cs.recvIdle"; "cs.recvMu"; "cs.recvShutdown"; "cs.sendMu"; "cs.server.log"; "cs.t"; "cs.tagMu"; "cs.tags"; "var dataPool"; "var msgDotLRegistry"]%string.
Proof. exact tie_loop_state. Qed.
Theorem C06_tie_events : handleRequest_events = expected_events.
Proof. exact tie_events. Qed.
Theorem C06_tie_bodies :
  body_connState_StartTag = ["cs.tagMu.Lock()"; "defer cs.tagMu.Unlock()"; "v0, v1 := cs.tags[v2]"; "if v1 { return false }"; "cs.tags[v2] = make(chan struct{})"; "return true"]%string /\
  send_writes = ["v0.WriteTo(v1)"]%string /\
  handleRequest_calls = expected_calls.
Proof. exact (conj tie_StartTag (conj tie_send_writes tie_calls)). Qed.

(** The fid table's mutex (Loop/FidMu.v: a component model of its own, NOT composed with the request loop above; any number
    of goroutines, any programs of table operations and backend calls, all interleavings).  Every fid-carrying request takes
    fidMu, so "a request blocked inside the backend delays only requests that the File contract orders after it" needs that
    no backend call runs under it.  With critical sections free of blocking operations (the generated obligation
    C06_tie_short_sections below) a request that wants the table gets it, and finishes its table operation, by at most
    three server steps - one of another goroutine - and NO backend return, however many calls are blocked ... *)
Theorem C06_fidmu_mutex : forall p s t u, freachable p s -> in_cs (ph s t) = true -> in_cs (ph s u) = true -> t = u.
Proof. exact fidmu_mutex. Qed.
Theorem C06_fidmu_nonblocking : forall p s t r, (forall u, clean (p u) = true) -> freachable p s ->
  ph s t = PReady -> prog s t = OCS :: r ->
  exists ls s', forallb server_label ls = true /\ List.length ls <= 3 /\ frun ls s = Some s' /\
                ph s' t = PReady /\ prog s' t = r /\ mu s' = None.
Proof. exact fidmu_section_completes. Qed.
Print Assumptions C06_fidmu_nonblocking.
(** ... and the obligation is necessary: with the backend's Close inside DeleteFID's critical section (the code before
    fix 9140d2e; seeded C06-m4, C06-revert-fidmu-across-close) a goroutine that only wants to look a fid up cannot move,
    nor can any other, until the backend returns. *)
Theorem C06_fidmu_blocked_if_backend_call_inside :
  freachable bad_prog bad_state /\ ph bad_state 1 = PReady /\ prog bad_state 1 = [OCS] /\
  (forall l, server_label l = true -> fexec l bad_state = None) /\
  (forall ls s', forallb server_label ls = true -> frun ls bad_state = Some s' -> s' = bad_state).
Proof. exact fidmu_blocked_if_backend_call_inside. Qed.
Print Assumptions C06_fidmu_blocked_if_backend_call_inside.
Theorem C06_tie_short_sections : short_sections_nonblocking = true /\ short_sections_present = true /\
  body_fidRef_IncRef = ["atomic.AddInt64(&t.refs, 1)"]%string.
Proof. exact (conj tie_short_sections_nonblocking (conj tie_short_sections_present tie_IncRef)). Qed.

(** The own-tag guard of the capture (tie_capture_guarded) is needed for "a Tflush naming its own tag gets exactly one
    reply": in the variant of the model whose capture is NOT guarded (Loop/Variants.v; seeded C06-m3,
    C06-revert-flush-own-tag), for EVERY tag t the Tflush(tag t, oldtag t) is never answered in any continuation, and its
    tag stays active for ever.  (In the model itself it is answered at once: C14_at_once_answered.) *)
Theorem C06_capture_guard_needed : forall t, exists vs0,
  vreachable v_unguarded (inp_own t) vs0 /\
  forall vs, vsteps v_unguarded (inp_own t) vs0 vs ->
    pc (base vs) 0 = RRun (Some 0) /\ final (pc (base vs) 0) = false /\
    (forall r, ~ In (0, r) (replies (base vs))) /\
    tags (base vs) t = Some 0 /\
    (forall l vs', vexec v_unguarded (inp_own t) l vs = Some vs' -> pc (base vs') 0 = RRun (Some 0)).
Proof. exact unguarded_own_flush_never_answered. Qed.
Print Assumptions C06_capture_guard_needed.
(** the widened model with all flags as in the code IS the model of this file *)
Theorem C06_variant_faithful : forall inp,
  (forall vs, vreachable faithful inp vs -> reachable inp (base vs) /\ det vs = [] /\ skipped vs = []) /\
  (forall s, reachable inp s -> exists vs, vreachable faithful inp vs /\ base vs = s).
Proof. exact faithful_is_model. Qed.
Print Assumptions C06_variant_faithful.

(** Non-vacuity: a run with an immediate tag re-use, a duplicate tag and a rejected frame. *)
Definition ex_inp : list frame := [FReq 1 KOp; FReq 1 KOp; FReject 7; FConn].
Definition ex_run : list label :=
  [LInc; LRecv; LStart 0; LCapture 0; LSpawn 0 rflush_reply; LEnter 0;
   LInc; LRecv; LStart 1; LCapture 1; LSpawn 1 rflush_reply;             (* tag 1 still active: dropped *)
   LInc; LRecv; LSpawn 2 (mkReply RErr 1); LLock 2; LChunk 2;            (* reject: Rlerror, first chunk *)
   LExit 0; LReturn 0 (mkReply RMatch 2); LClear 0;
   LChunk 2; LUnlock 2; LLock 0; LChunk 0; LChunk 0; LChunk 0; LUnlock 0;
   LInc; LRecv].
Example C06_ex : exists s, run ex_inp ex_run init = Some s /\
  replies s = [(2, mkReply RErr 1); (0, mkReply RMatch 2)] /\ pc s 1 = RDropped /\ shut s = true /\
  wire s = [(2,0); (2,1); (0,0); (0,1); (0,2)].
Proof. eexists. vm_compute. repeat split. Qed.

(** ... and one where the peer stops reading while a reply is half written. *)
Example C06_ex_broken : exists s,
  run [FReq 1 KOp; FReq 2 KOp; FConn]
      [LInc; LRecv; LStart 0; LCapture 0; LSpawn 0 rflush_reply; LReturn 0 (mkReply RMatch 2); LClear 0; LLock 0; LChunk 0;
       LBreak; LSendFail 0;
       LInc; LRecv; LStart 1; LCapture 1; LSpawn 1 rflush_reply; LReturn 1 (mkReply RMatch 0); LClear 1; LLock 1; LSendFail 1;
       LInc; LRecv; LInc; LRecv; LInc; LRecv] init = Some s /\
  replies s = [] /\ wire s = [(0, 0)] /\ torn s = [(0, 0)] /\ pc s 0 = RDoneF (mkReply RMatch 2) /\ pc s 1 = RDoneF (mkReply RMatch 0) /\
  shut s = true /\ nnew s = 0 /\ nidle s = 0.
Proof. eexists. vm_compute. repeat split. Qed.
