(** C19 — directory listing: every entry exactly once, QIDs agree with
    Walk/GetAttr.  Only statements; proofs in Fsx/ReaddirProofs.v,
    Fsx/QidMapProofs.v, Fsx/QidConc.v. *)
From Coq Require Import NArith String List.
From P9V Require Import Base.Str gen.ConstGen gen.FsGen19 Fsx.Readdir Fsx.LocalDir Fsx.Paging Fsx.ReaddirProofs
     Fsx.QidMap Fsx.QidMapProofs Fsx.MountedListing Fsx.Qid Fsx.Mode Fsx.LocalQidStable Fsx.LocalInfo Fsx.FsGenSpec19.
Import ListNotations.
Open Scope list_scope.
Open Scope N_scope.

(** The paged listing: ask for the page after offset 0, then after the Offset of
    the last entry received, until a page is empty; fuel [len + 1] calls.
    [number_from q 0 names] is the list of all entries in directory order,
    entry i carrying Offset i+1, QID [q name] and that QID's type. *)

(** staticfs / composefs, File.Readdir called directly ([count] = number of
    entries the File may return): any count >= 1. *)
Theorem C19_complete_static_direct : forall q names count, 1 <= count ->
  listing (S (length names)) (fun off => static_readdir q names off count) = Some (number_from q 0 names).
Proof. exact static_direct_complete. Qed.
Print Assumptions C19_complete_static_direct.

(** through the server: the File sees the requested count, the reply is cut to
    whole entries within min(count, msize - 11); complete if every entry
    (24 + |name| bytes) fits that budget. *)
Theorem C19_complete_static_server : forall q names msize count,
  (forall n, In n names -> 24 + N.of_nat (String.length n) <= N.min count (max_reply_payload msize)) ->
  listing (S (length names)) (fun off => server_readdir msize (static_readdir q names) off count)
  = Some (number_from q 0 names).
Proof. exact static_server_complete. Qed.
Print Assumptions C19_complete_static_server.

(** through client (count lowered to msize - 11) and server *)
Theorem C19_complete_static_remote : forall q names msize count,
  (forall n, In n names -> 24 + N.of_nat (String.length n) <= N.min (client_clamp msize count) (max_reply_payload msize)) ->
  listing (S (length names)) (fun off => remote_readdir msize (static_readdir q names) off count)
  = Some (number_from q 0 names).
Proof. exact static_remote_complete. Qed.
Print Assumptions C19_complete_static_remote.

(** localfs: one call returns, from whatever position the previous call left the
    directory stream at, exactly what the static Readdir returns for the host's order *)
Theorem C19_local_call : forall q s off count,
  option_map fst (local_readdir q s off count) = Some (static_readdir q (s_names s) off count).
Proof. exact local_static_agree. Qed.
Print Assumptions C19_local_call.

Theorem C19_complete_local_direct : forall q s count, 1 <= count ->
  option_map (@concat dirent)
    (page_loop_st (S (length (s_names s))) (fun st off => local_readdir q st off count) s 0)
  = Some (number_from q 0 (s_names s)).
Proof. exact local_direct_complete. Qed.
Print Assumptions C19_complete_local_direct.

Theorem C19_complete_local_server : forall q s msize count,
  (forall n, In n (s_names s) -> 24 + N.of_nat (String.length n) <= N.min count (max_reply_payload msize)) ->
  option_map (@concat dirent)
    (page_loop_st (S (length (s_names s)))
       (fun st off => match local_readdir q st off count with
                      | Some (es, st') => Some (wire_trunc 0 (N.min count (max_reply_payload msize)) es, st')
                      | None => None end) s 0)
  = Some (number_from q 0 (s_names s)).
Proof. exact local_server_complete. Qed.
Print Assumptions C19_complete_local_server.

(** a staticfs / composefs directory reached through any number of mounts ([d_wrap]: qidTransformFile wrappers, whose
    Mapper tables change from call to call and are threaded through the loop), File.Readdir called directly: one call
    returns name for name and Offset for Offset what readdir.Readdir returns, and the paged listing has every name once,
    in order, at Offsets 1..n — from any Mapper state.  (The QIDs of the entries: C19_qids.) *)
Theorem C19_mounted_call : forall s d off cnt es s',
  dir_readdir s d off cnt = (es, s') ->
  map name_off es = map name_off (static_readdir (fun _ => zero_qid) (map fst (d_ents d)) off cnt).
Proof. exact dir_readdir_name_off. Qed.
Print Assumptions C19_mounted_call.
Theorem C19_complete_mounted_direct : forall s d cnt, 1 <= cnt ->
  option_map (fun pages => map name_off (concat pages))
    (page_loop_st (S (length (d_ents d))) (mounted_reader d cnt) s 0)
  = Some (map name_off (number_from (fun _ => zero_qid) 0 (map fst (d_ents d)))).
Proof. exact mounted_listing_complete. Qed.
Print Assumptions C19_complete_mounted_direct.

(** "every entry exactly once": the listed names are the directory's names in
    order; with distinct names each occurs at exactly one position *)
Theorem C19_exactly_once : forall q names l, l = number_from q 0 names -> NoDup names ->
  map d_name l = names /\ NoDup (map d_name l) /\
  (forall n, In n names -> exists! i, exists d, nth_error l i = Some d /\ d_name d = n).
Proof. exact listing_names_once. Qed.
Print Assumptions C19_exactly_once.

(** termination: for any reader that returns a non-empty prefix of what follows
    the offset (all of the above do), every page is non-empty and its last Offset
    is beyond the offset asked for *)
Theorem C19_progress : forall q names rd,
  (forall off, is_page q names off (rd off)) ->
  exists pages, page_loop (S (length names)) rd 0 = Some pages /\ Forall (fun p => p <> []) pages /\
    forall off es, rd off = es -> es <> [] -> off < last_off es off.
Proof. exact listing_progress. Qed.
Print Assumptions C19_progress.

(** QIDs, staticfs / composefs with any nesting of mounts ([d_wrap], [f_chain]
    arbitrary): an entry listed by Readdir has the QID that a later Walk to its
    name returns and that a still later GetAttr on the walked File returns,
    whatever other lookups happen in between ([extends]); its Type is that
    QID's type. *)
Theorem C19_qids : forall s0 d off cnt es s1 s2 e qw fw s3 s4 qg s5,
  NoDup (map fst (d_ents d)) -> stored_ok s0 d ->
  dir_readdir s0 d off cnt = (es, s1) -> In e es ->
  extends s1 s2 -> dir_walk s2 d (d_name e) = Some (qw, fw, s3) ->
  extends s3 s4 -> getattr s4 fw = (qg, s5) ->
  qw = d_qid e /\ qg = d_qid e /\ d_type e = q_type (d_qid e) /\ s5 = s4.
Proof. exact readdir_walk_getattr_agree. Qed.
Print Assumptions C19_qids.

(** the hypotheses of C19_qids hold of every staticfs as staticfs.New/WithFile builds it (a.qids[name] is the
    file's own wrapper's answer at construction), with any wrappers [w] around the directory; for a composefs root
    [stored_ok] is [True] by definition *)
Theorem C19_static_new_ok : forall s g names fs qs s' w,
  static_new s g 0 names = (fs, qs, s') -> NoDup names ->
  stored_ok s' (mkDir fs (Some (stored_of qs)) w) /\ NoDup (map fst (d_ents (mkDir fs (Some (stored_of qs)) w))).
Proof. exact static_new_stored_ok. Qed.
Print Assumptions C19_static_new_ok.

(** a mount whose own identity changes after the composefs was built (host directory replaced, file version moved on):
    the composefs root keeps no table, so the listing made after the change agrees with Walk and GetAttr made after it
    (the clause holds for the directory AS IT IS NOW, [dir_set_base n q' d]) ... *)
Theorem C19_qids_mount_changed : forall s0 d n q' off cnt es s1 s2 e qw fw s3 s4 qg s5,
  NoDup (map fst (d_ents d)) -> d_stored d = None ->
  dir_readdir s0 (dir_set_base n q' d) off cnt = (es, s1) -> In e es ->
  extends s1 s2 -> dir_walk s2 (dir_set_base n q' d) (d_name e) = Some (qw, fw, s3) ->
  extends s3 s4 -> getattr s4 fw = (qg, s5) ->
  qw = d_qid e /\ qg = d_qid e /\ d_type e = q_type (d_qid e) /\ s5 = s4.
Proof. exact compose_live_after_change. Qed.
Print Assumptions C19_qids_mount_changed.

(** ... whereas a root answering Readdir from QIDs remembered at mount time would not (witness: one version bump) *)
Theorem C19_mount_cache_refuted :
  let d := mkDir [("log"%string, mkFile (mkQid 0 0 0) [(0, 0)%nat]); ("other"%string, mkFile (mkQid 0 0 0) [(0, 1)%nat])] None [] in
  let '(dc, s0) := dir_cache_at_mount m_init d in
  let q' := mkQid 0 1 0 in
  let '(es, s1) := dir_readdir s0 (dir_set_base "log" q' dc) 0 10 in
  match dir_walk s1 (dir_set_base "log" q' d) "log" with
  | Some (qw, _, _) => map d_qid (filter (fun e => String.eqb (d_name e) "log") es) = [qw]
  | None => False
  end -> False.
Proof. exact mount_cache_refuted. Qed.
Print Assumptions C19_mount_cache_refuted.

(** every history of QIDFor calls, of any length, only extends the tables (so it may stand between the calls above) *)
Theorem C19_histories_extend : forall h s, extends s (run_history s h).
Proof. exact run_history_extends. Qed.
Print Assumptions C19_histories_extend.

(** QIDs, localfs.  Readdir's entry, Walk([name]) and GetAttr on the walked File
    each return, unchanged, Local.info() of the (l)stat of the same path
    (LocalInfo.v; FsGen19 checks that nothing alters the QID between info() and
    its use at the three sites):  Type = ModeFromOS(fi.Mode()).QIDType(),
    Path = localToQid(dev, ino).  While the file's stat result stays the same,
    the three QIDs are equal — type and path — whatever other files are looked
    up in between and from any table state (no counter bound needed), and the
    Dirent's Type is that QID's type. *)
Theorem C19_qids_local : forall t0 n0 s qe t1 n1 h1 t2 n2 qw t3 n3 h2 t4 n4 qg t5 n5,
  local_entry_qid t0 n0 s = (qe, t1, n1) -> info_run t1 n1 h1 = (t2, n2) ->
  local_walk_qid t2 n2 s = (qw, t3, n3) -> info_run t3 n3 h2 = (t4, n4) ->
  local_getattr_qid t4 n4 s = (qg, t5, n5) ->
  qw = qe /\ qg = qe /\ q_type qe = info_type (st_mode s).
Proof. exact local_readdir_walk_getattr_agree. Qed.
Print Assumptions C19_qids_local.

(** that [info_type] is the QID type of the file's kind, for all 7 kinds x 4096 permission words, is C20_info_type *)

(** what the fix 1247c49 repaired (model of the earlier loop: no rewind, [<]) *)
Theorem C19_local_old_refuted :
  let q := fun _ : string => mkQid 0 0 0 in
  let s0 := mkStream ["a"; "b"; "c"; "d"; "e"]%string 0 in
  option_map (fun pages => map d_name (concat pages))
    (page_loop_st 6 (fun st off => local_readdir_old q st off 2) s0 0%N)
  = Some ["a"; "b"; "c"; "d"; "e"]%string -> False.
Proof. exact local_old_refuted. Qed.
Print Assumptions C19_local_old_refuted.

(** the source expressions the models transcribe are the ones in the tree (FsGen) *)
Theorem C19_source_shape : fs_readdir_shape_ok = true.
Proof. exact readdir_shape_ok. Qed.
Print Assumptions C19_source_shape.

(** non-vacuity *)
Open Scope string_scope.
Example C19_ex_static :
  listing 4 (fun off => remote_readdir 300 (static_readdir (fun _ => mkQid 0 0 7) ["a"; "bb"; "ccc"]) off 60)
  = Some (number_from (fun _ => mkQid 0 0 7) 0 ["a"; "bb"; "ccc"])
  /\ page_loop 4 (fun off => remote_readdir 300 (static_readdir (fun _ => mkQid 0 0 7) ["a"; "bb"; "ccc"]) off 60) 0%N
     = Some [ [mkDirent (mkQid 0 0 7) 1 0 "a"; mkDirent (mkQid 0 0 7) 2 0 "bb"]; [mkDirent (mkQid 0 0 7) 3 0 "ccc"] ].
Proof. vm_compute. split; reflexivity. Qed.
Example C19_ex_local :
  option_map fst (local_readdir (fun _ => mkQid 0 0 0) (mkStream ["x"; "y"; "z"] 2) 1 1)
  = Some [mkDirent (mkQid 0 0 0) 2 0 "y"].
Proof. vm_compute. reflexivity. Qed.
(** nested mounts: a staticfs with files "x","y" (generator 2) mounted as mount 0 of an inner
    composefs (generator 1) that is mount 0 of the outer composefs (generator 0) *)
Example C19_ex_nested :
  let '(fs, qs, s0) := static_new m_init 2 0 ["x"; "y"] in
  let d := mkDir fs (Some (stored_of qs)) [(1, 0); (0, 0)]%nat in
  let '(es, s1) := dir_readdir s0 d 0 10 in
  map (fun e => (d_name e, q_path (d_qid e))) es = [("x", 1%N); ("y", 2%N)]
  /\ match dir_walk s1 d "y" with
     | Some (qw, fw, s2) => q_path qw = 2%N /\ q_path (fst (getattr s2 fw)) = 2%N /\ f_chain fw = [(2, 1); (1, 0); (0, 0)]%nat
     | None => False
     end.
Proof. vm_compute. repeat split. Qed.
