(** Comparison of observations of the real code (written by the harness into
    cases/C12_*.v) with the model of Fs/Version.v, evaluated by vm_compute. *)
From P9V Require Import Base.Str gen.ConstGen Fs.Version Fs.VersionText.
Open Scope string_scope.
Open Scope N_scope.

Inductive c12case :=
| CConsts (largest maxlen highest default : N)
| CParse (s : string) (ok : bool) (base : string) (ver : N)
| CVstr (n : N) (s : string)
| CHandle (msize : N) (s : string) (is_rversion : bool) (rmsize : N) (rver : string) (cs_msize cs_version : N)
| CWire (msize : N) (s : string) (rtype : N) (rmsize : N) (rver : string)
| CClient (req : N) (script : list vreply) (result : nc_result) (sent : list (N * string)) (later : list (N * N * N))
(* several Tversion on ONE connState: requests, replies, (messageSize, version) after each *)
| CSession (reqs : list (N * string)) (replies : list (N * string)) (states : list (N * N))
(* several Tversion frames on ONE connection through Server.Handle: requests, replies received before the connection ended *)
| CWireSession (reqs : list (N * string)) (replies : list (N * string)).

Definition result_eqb (a b : nc_result) : bool :=
  match a, b with
  | NCExhausted, NCExhausted | NCConn, NCConn | NCBadVersion, NCBadVersion | NCTooSmall, NCTooSmall => true
  | NCErrno x, NCErrno y => x =? y
  | NCOk a1 a2 a3, NCOk b1 b2 b3 => (a1 =? b1) && (a2 =? b2) && (a3 =? b3)
  | _, _ => false
  end.

Fixpoint sent_eqb (a b : list (N * string)) : bool :=
  match a, b with
  | [], [] => true
  | (m, s) :: a', (m', s') :: b' => (m =? m') && String.eqb s s' && sent_eqb a' b'
  | _, _ => false
  end.

Fixpoint session_states (st : cstate) (reqs : list (N * string)) : list (N * N) :=
  match reqs with
  | [] => []
  | q :: rest => let st1 := fst (session_step st q) in (cs_msize st1, cs_version st1) :: session_states st1 rest
  end.

Fixpoint pairs_eqb (a b : list (N * N)) : bool :=
  match a, b with
  | [], [] => true
  | (x, y) :: a', (x', y') :: b' => (x =? x') && (y =? y') && pairs_eqb a' b'
  | _, _ => false
  end.

(** does the model agree with what the implementation did? *)
Definition agrees (c : c12case) : bool :=
  match c with
  | CConsts l mx h d =>
      (l =? largestFixedSize) && (mx =? p9_maximumLength) && (h =? p9_highestSupportedVersion) && (d =? p9_DefaultMessageSize)
  | CParse s ok base ver =>
      match parse_version s with
      | Some (b, v) => ok && String.eqb base (base_string b) && (ver =? v)
      | None => negb ok && String.eqb base "" && (ver =? 0)
      end
  | CVstr n s => String.eqb (version_string V9P2000L n) s
  | CHandle msize s isr rm rv csm csv =>
      let '((m, v), st) := tversion_handle msize s in
      isr && (rm =? m) && String.eqb rv v &&
      match st with Some (a, b) => (csm =? a) && (csv =? b) | None => (csm =? 0) && (csv =? 0) end
  | CWire msize s rt rm rv =>
      let '((m, v), _) := tversion_handle msize s in
      (rt =? p9_msgRversion) && (rm =? m) && String.eqb rv v
  | CClient req script result sent _ =>
      let eff := if req =? 0 then p9_DefaultMessageSize else req in
      let '(s, r) := new_client_top eff script in
      result_eqb r result && sent_eqb s sent
  | CSession reqs replies states =>
      sent_eqb (snd (session_run cstate0 reqs)) replies && pairs_eqb (session_states cstate0 reqs) states
  | CWireSession reqs replies => sent_eqb (wire_session cstate0 reqs) replies
  end.

Fixpoint last_rversion (script : list vreply) : option N :=
  match script with
  | [] => None
  | VRversion m _ :: _ => Some m
  | _ :: r => last_rversion r
  end.

(** the reply that ended NewClient's loop: the first one that is not Rlerror(EAGAIN) *)
Fixpoint terminal (script : list vreply) : option vreply :=
  match script with
  | [] => None
  | VErr e :: r => if e =? linux_EAGAIN then terminal r else Some (VErr e)
  | x :: _ => Some x
  end.

(** C12's client clauses read directly on what NewClient did: a client exists only after an
    Rversion spelling a 9P2000.L version, it uses that version and no more than the announced
    msize, and everything it sent afterwards fits *)
Definition client_clause (eff : N) (script : list vreply) (result : nc_result) (later : list (N * N * N)) : bool :=
  match result with
  | NCOk v m _ =>
      match terminal script with
      | Some (VRversion announced rv) =>
          match parse_version rv with
          | Some (V9P2000L, v') =>
              (v =? v') && (m <=? announced) && (m <=? eff) &&
              forallb (fun '(ty, size, cnt) =>
                         if ty =? p9_msgTwrite then size <=? announced
                         else (size <=? announced) && (11 + cnt <=? announced)) later
          | _ => false                     (* proceeded although the reply is not a .L version *)
          end
      | _ => false                         (* proceeded without an Rversion *)
      end
  | _ => true
  end.

(** the property itself, evaluated on the observed behaviour only *)
Definition property_holds (c : c12case) : bool :=
  match c with
  (* the server clause as read off the text (Fs/VersionText.v: prefix test + elementary digit fold for the request,
     "canonical" as a predicate on the reply string) — independent of the model's parser/printer; the model is
     proved to satisfy it for every request (C12_reply_is_clause) *)
  | CHandle msize s isr rm rv csm csv =>
      isr && handle_clause msize s rm rv (if csm =? 0 then None else Some (csm, csv))
  | CWire msize s rt rm rv => (rt =? p9_msgRversion) && reply_clause msize s rm rv
  (* function-level ties (not clauses of the property): the real parseVersion / versionString against the model *)
  | CParse _ _ _ _ | CVstr _ _ => agrees c
  | CClient req script result _ later =>
      client_clause (if req =? 0 then p9_DefaultMessageSize else req) script result later
  (* every Tversion of a session gets its Rversion, each reply satisfies the clause, and the state after each request
     is what an accepted reply announced / unchanged after a refused one *)
  | CSession reqs replies states =>
      Nat.eqb (List.length replies) (List.length reqs) && session_clause (0, 0) reqs replies states
  (* over the wire a Tversion frame longer than the negotiated msize ends the connection (C02): the replies that did
     arrive satisfy the clause; how many arrive is the model's [wire_session] *)
  | CWireSession reqs replies => replies_clause reqs replies && agrees c
  | _ => true
  end.

Fixpoint failing (f : c12case -> bool) (i : nat) (l : list c12case) : list nat :=
  match l with
  | [] => []
  | c :: r => if f c then failing f (S i) r else i :: failing f (S i) r
  end.

Definition mismatches (l : list c12case) : list nat := failing agrees 0 l.
Definition property_failures (l : list c12case) : list nat := failing property_holds 0 l.
