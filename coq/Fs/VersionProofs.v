(** Proofs about Fs/Version.v (C12). *)
From Coq Require Import DecimalString DecimalN DecimalPos Decimal DecimalFacts ZArith Lia ZifyN ZifyBool.
From P9V Require Import Base.Str gen.ConstGen Fs.Version.
Open Scope N_scope.
Ltac Zify.zify_post_hook ::= Z.div_mod_to_equations.

(** ** decimal printing and ParseUint *)

Lemma to_uint_nonnil n : N.to_uint n <> Nil.
Proof. destruct n as [|p]; cbn; [discriminate|]. apply Unsigned.to_uint_nonnil. Qed.

Lemma string_of_uint_nonempty d : d <> Nil -> NilEmpty.string_of_uint d <> EmptyString.
Proof. destruct d; cbn; congruence. Qed.

Lemma decimal_nonempty n : decimal n <> EmptyString.
Proof. apply string_of_uint_nonempty, to_uint_nonnil. Qed.

Lemma string_of_uint_no_dot d : contains_char dot (NilEmpty.string_of_uint d) = false.
Proof. induction d; cbn; auto. Qed.

Lemma decimal_no_dot n : contains_char dot (decimal n) = false.
Proof. apply string_of_uint_no_dot. Qed.

Lemma parse_uint32_decimal n : n < 4294967296 -> parse_uint32 (decimal n) = Some n.
Proof.
  intros Hn. unfold parse_uint32.
  destruct (decimal n) eqn:E; [exfalso; eapply decimal_nonempty; eauto|].
  rewrite <- E. unfold decimal. rewrite NilEmpty.usu.
  rewrite DecimalN.Unsigned.of_to.
  destruct (N.ltb_spec n 4294967296); [reflexivity|lia].
Qed.

(** a sign, a space, a letter or any other non-digit makes the number invalid *)
Lemma parse_uint32_non_digit a s :
  (forall d, uint_of_char a (Some d) = None) -> parse_uint32 (String a s) = None.
Proof.
  intros H. unfold parse_uint32. cbn [NilEmpty.uint_of_string].
  destruct (NilEmpty.uint_of_string s) as [d|]; [now rewrite H|].
  now destruct a as [[] [] [] [] [] [] [] []].
Qed.

Lemma parse_uint32_plus s : parse_uint32 (String "+" s) = None.
Proof. apply parse_uint32_non_digit. reflexivity. Qed.
Lemma parse_uint32_minus s : parse_uint32 (String "-" s) = None.
Proof. apply parse_uint32_non_digit. reflexivity. Qed.
Lemma parse_uint32_underscore s : parse_uint32 (String "_" s) = None.
Proof. apply parse_uint32_non_digit. reflexivity. Qed.
Lemma parse_uint32_space s : parse_uint32 (String " " s) = None.
Proof. apply parse_uint32_non_digit. reflexivity. Qed.

(** leading zeros do not change the value *)
Lemma parse_uint32_leading_zero s n :
  parse_uint32 s = Some n -> parse_uint32 (String "0" s) = Some n.
Proof.
  unfold parse_uint32. destruct s as [|a s]; [discriminate|].
  set (t := String a s). cbn [NilEmpty.uint_of_string].
  destruct (NilEmpty.uint_of_string t) as [d|]; [|discriminate].
  cbn. auto.
Qed.

Lemma parse_uint32_range s n : parse_uint32 s = Some n -> n < 4294967296.
Proof.
  unfold parse_uint32. destruct s; [discriminate|].
  destruct (NilEmpty.uint_of_string _); [|discriminate].
  destruct (N.ltb_spec (N.of_uint u) 4294967296); [|discriminate].
  intros [= <-]. assumption.
Qed.

(** ** parseVersion *)

Lemma google_prefix_ne d :
  String.eqb ("9P2000.L.Google." ++ d) "9P2000.L" = false /\
  String.eqb ("9P2000.L.Google." ++ d) "9P2000.u" = false /\
  String.eqb ("9P2000.L.Google." ++ d) "9P2000" = false.
Proof. repeat split; reflexivity. Qed.

Lemma split_google d :
  contains_char dot d = false ->
  split_on dot ("9P2000.L.Google." ++ d) = ["9P2000"; "L"; "Google"; d].
Proof.
  intros H.
  change ("9P2000.L.Google." ++ d)%string with ("9P2000" ++ String dot ("L" ++ String dot ("Google" ++ String dot d)))%string.
  rewrite split_on_app_sep by reflexivity.
  rewrite split_on_app_sep by reflexivity.
  rewrite split_on_app_sep by reflexivity.
  now rewrite split_on_single.
Qed.

Lemma parse_version_google d n :
  contains_char dot d = false -> parse_uint32 d = Some n ->
  parse_version ("9P2000.L.Google." ++ d) = Some (V9P2000L, n).
Proof.
  intros Hd Hp. unfold parse_version.
  destruct (google_prefix_ne d) as (-> & -> & ->).
  rewrite split_google by assumption.
  assert (String.eqb d "" = false) as ->.
  { destruct d; [discriminate|reflexivity]. }
  cbn. now rewrite Hp.
Qed.

(** canonical spelling parses back to the same number, for every 32-bit N *)
Theorem canon_roundtrip n :
  n < 4294967296 -> parse_version (version_string V9P2000L n) = Some (V9P2000L, n).
Proof.
  intros Hn. unfold version_string.
  destruct (N.eqb_spec n 0) as [->|Hne]; [reflexivity|].
  apply parse_version_google; [apply decimal_no_dot|now apply parse_uint32_decimal].
Qed.

Theorem canon_zero : version_string V9P2000L 0 = "9P2000.L".
Proof. reflexivity. Qed.

(** every string accepted as a .L version is "9P2000.L" or "9P2000.L.Google." followed by a valid 32-bit decimal *)
Theorem parse_version_dotL_shape s n :
  parse_version s = Some (V9P2000L, n) ->
  (s = "9P2000.L" /\ n = 0) \/
  (exists d, s = ("9P2000.L.Google." ++ d)%string /\ parse_uint32 d = Some n).
Proof.
  unfold parse_version.
  destruct (String.eqb_spec s "9P2000.L") as [->|_]; [intros [= <-]; now left|].
  destruct (String.eqb_spec s "9P2000.u") as [->|_]; [discriminate|].
  destruct (String.eqb_spec s "9P2000") as [->|_]; [discriminate|].
  pose proof (join_split dot s) as J.
  destruct (split_on dot s) as [|a [|b [|c [|d [|? ?]]]]]; try discriminate.
  destruct (String.eqb_spec a "9P2000") as [->|_]; [|discriminate].
  destruct (String.eqb_spec b "L") as [->|_]; [|discriminate].
  destruct (String.eqb_spec c "Google") as [->|_]; [|discriminate].
  destruct (String.eqb d ""); [discriminate|]. cbn [negb andb].
  destruct (parse_uint32 d) as [v|] eqn:E; [|discriminate].
  intros [= <-]. right. exists d. split; [|assumption].
  rewrite <- J. reflexivity.
Qed.

Theorem parse_version_bases s b n :
  parse_version s = Some (b, n) -> b <> V9P2000L -> n = 0 /\ s = base_string b.
Proof.
  unfold parse_version.
  destruct (String.eqb_spec s "9P2000.L") as [->|_]; [intros [= <- <-]; congruence|].
  destruct (String.eqb_spec s "9P2000.u") as [->|_]; [intros [= <- <-]; auto|].
  destruct (String.eqb_spec s "9P2000") as [->|_]; [intros [= <- <-]; auto|].
  destruct (split_on dot s) as [|a [|b' [|c [|d [|? ?]]]]]; try discriminate.
  destruct (_ && _ && _ && _); [|discriminate].
  destruct (parse_uint32 d); [|discriminate]. intros [= <- <-]. congruence.
Qed.

(** ** tversion.handle *)

Definition min_msize (msize : N) := N.min msize p9_maximumLength.
Definition min_version (v : N) := N.min v p9_highestSupportedVersion.

Lemma min_msize_eq msize : (if p9_maximumLength <? msize then p9_maximumLength else msize) = min_msize msize.
Proof. unfold min_msize. destruct (N.ltb_spec p9_maximumLength msize); lia. Qed.
Lemma min_version_eq v : (if p9_highestSupportedVersion <? v then p9_highestSupportedVersion else v) = min_version v.
Proof. unfold min_version. destruct (N.ltb_spec p9_highestSupportedVersion v); lia. Qed.

Theorem tversion_unknown msize s :
  msize = 0 \/ (forall n, parse_version s <> Some (V9P2000L, n)) ->
  tversion_handle msize s = ((0, "unknown"), None).
Proof.
  unfold tversion_handle, unknown_reply. intros [->|H]; [reflexivity|].
  destruct (msize =? 0); [reflexivity|].
  destruct (parse_version s) as [[[] v]|] eqn:E; try reflexivity.
  exfalso. now apply (H v).
Qed.

Theorem tversion_ok msize s n :
  msize <> 0 -> parse_version s = Some (V9P2000L, n) ->
  tversion_handle msize s =
    ((min_msize msize, version_string V9P2000L (min_version n)),
     Some (min_msize msize, min_version n)).
Proof.
  intros Hm Hp. unfold tversion_handle.
  destruct (N.eqb_spec msize 0); [contradiction|].
  rewrite Hp, min_msize_eq, min_version_eq. reflexivity.
Qed.

(** The reply is always an Rversion whose version string is "unknown" (msize 0)
    or parses back to the number stored for the connection. *)
Theorem tversion_reply_parses msize s m v st :
  tversion_handle msize s = ((m, v), st) ->
  (v = "unknown" /\ m = 0 /\ st = None) \/
  (exists n, st = Some (m, n) /\ parse_version v = Some (V9P2000L, n) /\
             n <= p9_highestSupportedVersion /\ m = min_msize msize /\ m <> 0).
Proof.
  unfold tversion_handle, unknown_reply.
  destruct (N.eqb_spec msize 0) as [->|Hm]; [intros [= <- <- <-]; auto|].
  destruct (parse_version s) as [[[] n]|] eqn:E; try (intros [= <- <- <-]; now left).
  rewrite min_msize_eq, min_version_eq. intros [= <- <- <-]. right.
  exists (min_version n). repeat split.
  - apply canon_roundtrip. unfold min_version, p9_highestSupportedVersion. lia.
  - unfold min_version. lia.
  - unfold min_msize, p9_maximumLength. lia.
Qed.

(** ** NewClient *)

Lemma round_down_le p a : round_down p a <= p.
Proof. unfold round_down. destruct (_ && _); lia. Qed.

Theorem payload_fits m :
  largestFixedSize < m ->
  23 + payload_of m <= m /\ 11 + payload_of m <= m.
Proof.
  intros H. unfold payload_of. pose proof (round_down_le (m - largestFixedSize) 512).
  unfold largestFixedSize in *. lia.
Qed.

Definition adopted (msize rm : N) : N := if rm <? msize then rm else msize.

Lemma new_client_sent_cons fuel req msize replies s r :
  new_client (S fuel) req msize replies = (s, r) -> exists x s', s = x :: s'.
Proof.
  cbn. destruct replies as [|[e| |rm rv] rest].
  - intros [= <- <-]; eauto.
  - destruct (e =? linux_EAGAIN); [|intros [= <- <-]; eauto].
    destruct (req =? p9_lowestSupportedVersion); [intros [= <- <-]; eauto|].
    destruct (new_client fuel (req - 1) msize rest). intros [= <- <-]; eauto.
  - intros [= <- <-]; eauto.
  - destruct (parse_version rv) as [[[] n]|]; try (intros [= <- <-]; eauto).
    destruct (rm <? msize); [destruct (rm <=? largestFixedSize)|]; intros [= <- <-]; eauto.
Qed.

Lemma new_client_ok fuel req msize replies sent v m p :
  new_client fuel req msize replies = (sent, NCOk v m p) ->
  exists rm rv,
    nth_error replies (List.length sent - 1) = Some (VRversion rm rv) /\
    parse_version rv = Some (V9P2000L, v) /\
    m = adopted msize rm /\ p = payload_of m /\
    (rm < msize -> largestFixedSize < rm).
Proof.
  revert req replies sent. induction fuel as [|fuel IH]; intros req replies sent.
  - cbn. discriminate.
  - cbn [new_client]. destruct replies as [|[e| |rm rv] rest].
    + discriminate.
    + destruct (e =? linux_EAGAIN); [|discriminate].
      destruct (req =? p9_lowestSupportedVersion); [discriminate|].
      destruct (new_client fuel (req - 1) msize rest) as [s r] eqn:E.
      intros [= <- ->].
      destruct (IH _ _ _ E) as (rm & rv & Hn & Hp & Hm & Hpl & Hl).
      exists rm, rv. repeat split; auto.
      destruct fuel as [|fuel']; [cbn in E; discriminate|].
      destruct (new_client_sent_cons _ _ _ _ _ _ E) as (x & s' & ->).
      cbn [List.length] in *.
      replace (S (S (List.length s')) - 1)%nat with (S (List.length s')) by lia.
      replace (S (List.length s') - 1)%nat with (List.length s') in Hn by lia.
      exact Hn.
    + discriminate.
    + destruct (parse_version rv) as [[[] n]|] eqn:E; try discriminate.
      destruct (N.ltb_spec rm msize) as [Hlt|Hge].
      * destruct (N.leb_spec rm largestFixedSize); [discriminate|].
        intros [= <- <- <- <-]. exists rm, rv. cbn. unfold adopted.
        destruct (N.ltb_spec rm msize); [|lia]. repeat split; auto.
      * intros [= <- <- <- <-]. exists rm, rv. cbn. unfold adopted.
        destruct (N.ltb_spec rm msize); [lia|]. repeat split; auto. lia.
Qed.

(** a reply that is not a 9P2000.L(.Google.N) version never yields a client *)
Lemma new_client_rejects fuel req msize replies sent rm rv :
  nth_error replies (List.length (fst (new_client fuel req msize replies)) - 1) = Some (VRversion rm rv) ->
  (forall n, parse_version rv <> Some (V9P2000L, n)) ->
  new_client fuel req msize replies = (sent, snd (new_client fuel req msize replies)) ->
  forall v m p, snd (new_client fuel req msize replies) <> NCOk v m p.
Proof.
  intros Hn Hbad _ v m p Hok.
  destruct (new_client fuel req msize replies) as [s r] eqn:E. cbn in *. subst r.
  destruct (new_client_ok _ _ _ _ _ _ _ _ E) as (rm' & rv' & Hn' & Hp' & _).
  rewrite Hn in Hn'. injection Hn' as <- <-. now apply (Hbad v).
Qed.

(** requests carry the canonical spelling of a supported version, descending *)
Lemma new_client_requests fuel req msize replies :
  Forall (fun '(m, s) => m = msize /\ exists k, k <= req /\ s = version_string V9P2000L k)
         (fst (new_client fuel req msize replies)).
Proof.
  revert req replies. induction fuel as [|fuel IH]; intros req replies; cbn; [constructor|].
  assert (Hs : msize = msize /\ exists k, k <= req /\ version_string V9P2000L req = version_string V9P2000L k)
    by (split; [reflexivity|exists req; split; [lia|reflexivity]]).
  assert (H1 : forall r, Forall (fun '(m, s) => m = msize /\ exists k, k <= req /\ s = version_string V9P2000L k)
                          (fst ([(msize, version_string V9P2000L req)], r : nc_result)))
    by (intros r; cbn; constructor; [exact Hs|constructor]).
  destruct replies as [|[e| |rm rv] rest].
  - apply H1.
  - destruct (e =? linux_EAGAIN); [|apply H1].
    destruct (req =? p9_lowestSupportedVersion); [apply H1|].
    specialize (IH (req - 1) rest).
    destruct (new_client fuel (req - 1) msize rest) as [s r]. cbn in *.
    constructor; [exact Hs|].
    eapply Forall_impl; [|exact IH]. intros [m s0] (Hm & k & Hk & Hs0). split; auto. exists k. split; [lia|auto].
  - apply H1.
  - destruct (parse_version rv) as [[[] n]|]; try apply H1.
    destruct (rm <? msize); [destruct (rm <=? largestFixedSize)|]; apply H1.
Qed.

(** ** sessions: the state after any history is that of the last accepted Tversion *)

Fixpoint last_accepted (st : cstate) (reqs : list (N * string)) : cstate :=
  match reqs with
  | [] => st
  | q :: rest =>
      match snd (tversion_handle (fst q) (snd q)) with
      | Some (m, v) => last_accepted {| cs_msize := m; cs_version := v |} rest
      | None => last_accepted st rest
      end
  end.

Lemma session_run_spec st reqs :
  session_run st reqs = (last_accepted st reqs, map (fun q => fst (tversion_handle (fst q) (snd q))) reqs).
Proof.
  revert st. induction reqs as [|q rest IH]; intros st; cbn [session_run last_accepted map]; [reflexivity|].
  unfold session_step. destruct (tversion_handle (fst q) (snd q)) as [r [[m v]|]]; cbn [fst snd]; now rewrite IH.
Qed.

(** after any session the stored msize is 0 (nothing accepted yet) or what the LAST accepted
    Rversion announced, and the stored version is the one that reply spells *)
Lemma session_state_announced st reqs :
  let '(st', replies) := session_run st reqs in
  st' = st \/
  exists m v, In (m, v) replies /\ cs_msize st' = m /\ m <> 0 /\
              parse_version v = Some (V9P2000L, cs_version st') /\ cs_version st' <= p9_highestSupportedVersion.
Proof.
  revert st. induction reqs as [|q rest IH]; intros st; cbn [session_run]; [now left|].
  unfold session_step. destruct (tversion_handle (fst q) (snd q)) as [[m v] stt] eqn:E.
  destruct stt as [[m' v']|].
  - specialize (IH {| cs_msize := m'; cs_version := v' |}).
    destruct (session_run _ rest) as [st2 rs]. destruct IH as [->|(m2 & v2 & Hin & ? & ? & ? & ?)].
    + right. destruct (tversion_reply_parses _ _ _ _ _ E) as [(? & ? & Habs)|(n & Hs & Hp & Hn & Hm & Hm0)]; [discriminate|].
      injection Hs as -> ->. exists m, v. cbn. repeat split; auto.
    + right. exists m2, v2. cbn. repeat split; auto.
  - specialize (IH st). destruct (session_run st rest) as [st2 rs]. destruct IH as [->|(m2 & v2 & Hin & ? & ? & ? & ?)]; [now left|].
    right. exists m2, v2. cbn. repeat split; auto.
Qed.

Lemma session_reply_count st reqs : List.length (snd (session_run st reqs)) = List.length reqs.
Proof. rewrite session_run_spec. cbn. now rewrite map_length. Qed.

(** with_message_size: the only sizes a client can start from exceed every fixed part *)
Lemma with_message_size_large m m' : with_message_size m = Some m' -> largestFixedSize < m'.
Proof.
  unfold with_message_size. destruct (N.eqb_spec m 0); [intros [= <-]; reflexivity|].
  destruct (N.leb_spec m largestFixedSize); [discriminate|]. now intros [= <-].
Qed.
