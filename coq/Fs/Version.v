(** Model of p9/version.go (parseVersion, versionString), of tversion.handle in
    p9/handlers.go and of the negotiation loop of NewClient in p9/client.go.
    Executable definitions only; proofs are in VersionProofs.v. *)
From Coq Require Import DecimalString DecimalN Decimal.
From P9V Require Export Base.Str.
From P9V Require Import gen.ConstGen.
Open Scope N_scope.

Inductive basev := V9P2000 | V9P2000U | V9P2000L.

Definition base_string (b : basev) : string :=
  match b with V9P2000 => "9P2000" | V9P2000U => "9P2000.u" | V9P2000L => "9P2000.L" end.

(** strconv.ParseUint(s, 10, 32): non-empty, decimal digits only (no sign, no
    underscore, any number of leading zeros), value below 2^32. *)
Definition parse_uint32 (s : string) : option N :=
  match s with
  | EmptyString => None
  | _ => match NilEmpty.uint_of_string s with
         | Some d => let v := N.of_uint d in if v <? 4294967296 then Some v else None
         | None => None
         end
  end.

Definition dot : ascii := "."%char.

Definition parse_version (s : string) : option (basev * N) :=
  if String.eqb s "9P2000.L" then Some (V9P2000L, 0)
  else if String.eqb s "9P2000.u" then Some (V9P2000U, 0)
  else if String.eqb s "9P2000" then Some (V9P2000, 0)
  else match split_on dot s with
       | [a; b; c; d] =>
           if String.eqb a "9P2000" && String.eqb b "L" && String.eqb c "Google" && negb (String.eqb d "")
           then match parse_uint32 d with
                | Some v => Some (V9P2000L, v)
                | None => None
                end
           else None
       | _ => None
       end.

Definition decimal (n : N) : string := NilEmpty.string_of_uint (N.to_uint n).

(** fmt.Sprintf("9P2000.L.Google.%d", version) for a non-zero version. *)
Definition version_string (b : basev) (v : N) : string :=
  if v =? 0 then base_string b else "9P2000.L.Google." ++ decimal v.

(** tversion.handle: reply (msize, version string) and, when the version is
    accepted, the (messageSize, version) stored in the connection state. *)
Definition unknown_reply : (N * string) * option (N * N) := ((0, "unknown"), None).

Definition tversion_handle (msize : N) (s : string) : (N * string) * option (N * N) :=
  if msize =? 0 then unknown_reply
  else
    let m := if p9_maximumLength <? msize then p9_maximumLength else msize in
    match parse_version s with
    | None => unknown_reply
    | Some (V9P2000L, v) =>
        let v' := if p9_highestSupportedVersion <? v then p9_highestSupportedVersion else v in
        ((m, version_string V9P2000L v'), Some (m, v'))
    | Some (_, _) => unknown_reply
    end.

(** ---- NewClient ---- *)

(** largest fixed (non-payload) part of any registered message: Rgetattr.  The
    harness reads msgDotLRegistry.largestFixedSize and the cases file compares. *)
Definition largestFixedSize : N := 153.

Definition round_down (p align : N) : N :=
  if (align <? p) && negb (p mod align =? 0) then p - p mod align else p.

Definition payload_of (msize : N) : N := round_down (msize - largestFixedSize) 512.

Inductive vreply :=
| VErr (errno : N)            (* Rlerror *)
| VConnErr                    (* transport failure / bad frame *)
| VRversion (msize : N) (ver : string).

Inductive nc_result :=
| NCExhausted                 (* ErrVersionsExhausted *)
| NCErrno (e : N)
| NCConn
| NCBadVersion                (* ErrBadVersionString *)
| NCTooSmall                  (* announced msize cannot hold any message *)
| NCNoReply                   (* script of replies exhausted (model only) *)
| NCOk (version msize payload : N).

(** [new_client fuel req msize replies] returns the Tversion requests sent
    (msize, version string) and the outcome. fuel = number of versions + 1. *)
Fixpoint new_client (fuel : nat) (req msize : N) (replies : list vreply)
  : list (N * string) * nc_result :=
  match fuel with
  | O => ([], NCExhausted)
  | S fuel' =>
      let sent := (msize, version_string V9P2000L req) in
      match replies with
      | [] => ([sent], NCNoReply)
      | VErr e :: rest =>
          if e =? linux_EAGAIN then
            if req =? p9_lowestSupportedVersion then ([sent], NCExhausted)
            else let '(s, r) := new_client fuel' (req - 1) msize rest in (sent :: s, r)
          else ([sent], NCErrno e)
      | VConnErr :: _ => ([sent], NCConn)
      | VRversion rm rv :: _ =>
          match parse_version rv with
          | Some (V9P2000L, v) =>
              if rm <? msize then
                if rm <=? largestFixedSize then ([sent], NCTooSmall)
                else ([sent], NCOk v rm (payload_of rm))
              else ([sent], NCOk v msize (payload_of msize))
          | _ => ([sent], NCBadVersion)
          end
      end
  end.

Definition new_client_top (msize : N) (replies : list vreply) :=
  new_client (N.to_nat p9_highestSupportedVersion + 2) p9_highestSupportedVersion msize replies.

(** ---- a connection's negotiation state over a whole session ----
    Every Tversion on a connection (first or later, any tag) runs the same handler on the same
    connState: an accepted request overwrites (messageSize, version); a refused one leaves them. *)
Record cstate := { cs_msize : N; cs_version : N }.
Definition cstate0 : cstate := {| cs_msize := 0; cs_version := 0 |}.

Definition session_step (st : cstate) (req : N * string) : cstate * (N * string) :=
  match tversion_handle (fst req) (snd req) with
  | (r, Some (m, v)) => ({| cs_msize := m; cs_version := v |}, r)
  | (r, None) => (st, r)
  end.

Fixpoint session_run (st : cstate) (reqs : list (N * string)) : cstate * list (N * string) :=
  match reqs with
  | [] => (st, [])
  | q :: rest => let '(st1, r) := session_step st q in
                 let '(st2, rs) := session_run st1 rest in (st2, r :: rs)
  end.

(** the same over the wire: a frame longer than the current limit (4 MiB before the first
    accepted Tversion) ends the connection without a reply; frame = 7 + 4 + 2 + |version| *)
Definition frame_limit (st : cstate) : N := if cs_msize st =? 0 then p9_maximumLength else cs_msize st.
Definition tversion_frame_size (s : string) : N := 13 + N.of_nat (String.length s).

Fixpoint wire_session (st : cstate) (reqs : list (N * string)) : list (N * string) :=
  match reqs with
  | [] => []
  | q :: rest =>
      if frame_limit st <? tversion_frame_size (snd q) then []          (* ConnError: Handle returns *)
      else let '(st1, r) := session_step st q in r :: wire_session st1 rest
  end.

(** WithMessageSize(m) is refused unless m > largestFixedSize; 0 stands for "option not given" *)
Definition with_message_size (m : N) : option N :=
  if m =? 0 then Some p9_DefaultMessageSize
  else if m <=? largestFixedSize then None else Some m.
