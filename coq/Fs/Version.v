(** Model of p9/version.go (parseVersion, versionString), of tversion.handle in
    p9/handlers.go and of the negotiation loop of NewClient in p9/client.go.
    Executable definitions only; proofs are in VersionProofs.v. *)
From Coq Require Import DecimalString DecimalN Decimal.
From P9V Require Export Base.Str.
From P9V Require Import gen.ConstGen.
Open Scope N_scope.

Inductive basev := V9P2000 | V9P2000U | V9P2000L.

Definition base_string (b : basev) : string :=
  match b with V9P2000 => "9P2000" | V9P2000U => "9P2000.u" | V9P2000L => "9P2000.L" end.

(** strconv.ParseUint(s, 10, 32): non-empty, decimal digits only (no sign, no
    underscore, any number of leading zeros), value below 2^32. *)
Definition parse_uint32 (s : string) : option N :=
  match s with
  | EmptyString => None
  | _ => match NilEmpty.uint_of_string s with
         | Some d => let v := N.of_uint d in if v <? 4294967296 then Some v else None
         | None => None
         end
  end.

Definition dot : ascii := "."%char.

Definition parse_version (s : string) : option (basev * N) :=
  if String.eqb s "9P2000.L" then Some (V9P2000L, 0)
  else if String.eqb s "9P2000.u" then Some (V9P2000U, 0)
  else if String.eqb s "9P2000" then Some (V9P2000, 0)
  else match split_on dot s with
       | [a; b; c; d] =>
           if String.eqb a "9P2000" && String.eqb b "L" && String.eqb c "Google" && negb (String.eqb d "")
           then match parse_uint32 d with
                | Some v => Some (V9P2000L, v)
                | None => None
                end
           else None
       | _ => None
       end.

Definition decimal (n : N) : string := NilEmpty.string_of_uint (N.to_uint n).

(** fmt.Sprintf("9P2000.L.Google.%d", version) for a non-zero version. *)
Definition version_string (b : basev) (v : N) : string :=
  if v =? 0 then base_string b else "9P2000.L.Google." ++ decimal v.

(** tversion.handle: reply (msize, version string) and, when the version is
    accepted, the (messageSize, version) stored in the connection state. *)
Definition unknown_reply : (N * string) * option (N * N) := ((0, "unknown"), None).

Definition tversion_handle (msize : N) (s : string) : (N * string) * option (N * N) :=
  if msize =? 0 then unknown_reply
  else
    let m := if p9_maximumLength <? msize then p9_maximumLength else msize in
    match parse_version s with
    | None => unknown_reply
    | Some (V9P2000L, v) =>
        let v' := if p9_highestSupportedVersion <? v then p9_highestSupportedVersion else v in
        ((m, version_string V9P2000L v'), Some (m, v'))
    | Some (_, _) => unknown_reply
    end.

(** ---- NewClient ---- *)

(** largest fixed (non-payload) part of any registered message: Rgetattr.  The
    harness reads msgDotLRegistry.largestFixedSize and the cases file compares. *)
Definition largestFixedSize : N := 153.

Definition round_down (p align : N) : N :=
  if (align <? p) && negb (p mod align =? 0) then p - p mod align else p.

Definition payload_of (msize : N) : N := round_down (msize - largestFixedSize) 512.

Inductive vreply :=
| VErr (errno : N)            (* Rlerror *)
| VConnErr                    (* transport failure / bad frame *)
| VRversion (msize : N) (ver : string).

Inductive nc_result :=
| NCExhausted                 (* ErrVersionsExhausted *)
| NCErrno (e : N)
| NCConn
| NCBadVersion                (* ErrBadVersionString *)
| NCTooSmall                  (* announced msize cannot hold any message *)
| NCNoReply                   (* script of replies exhausted (model only) *)
| NCOk (version msize payload : N).

(** [new_client fuel req msize replies] returns the Tversion requests sent
    (msize, version string) and the outcome. fuel = number of versions + 1. *)
Fixpoint new_client (fuel : nat) (req msize : N) (replies : list vreply)
  : list (N * string) * nc_result :=
  match fuel with
  | O => ([], NCExhausted)
  | S fuel' =>
      let sent := (msize, version_string V9P2000L req) in
      match replies with
      | [] => ([sent], NCNoReply)
      | VErr e :: rest =>
          if e =? linux_EAGAIN then
            if req =? p9_lowestSupportedVersion then ([sent], NCExhausted)
            else let '(s, r) := new_client fuel' (req - 1) msize rest in (sent :: s, r)
          else ([sent], NCErrno e)
      | VConnErr :: _ => ([sent], NCConn)
      | VRversion rm rv :: _ =>
          match parse_version rv with
          | Some (V9P2000L, v) =>
              if rm <? msize then
                if rm <=? largestFixedSize then ([sent], NCTooSmall)
                else ([sent], NCOk v rm (payload_of rm))
              else ([sent], NCOk v msize (payload_of msize))
          | _ => ([sent], NCBadVersion)
          end
      end
  end.

Definition new_client_top (msize : N) (replies : list vreply) :=
  new_client (N.to_nat p9_highestSupportedVersion + 2) p9_highestSupportedVersion msize replies.
