(** C12, the server clause read off the property text, independently of the
    model's parser and printer: which requests name a 9P2000.L version (prefix
    test + the elementary digit fold of VersionDigits.v: no Split, no ParseUint,
    no Decimal), what "canonical spelling" means as a predicate on the REPLY
    string (plain "9P2000.L", or the Google prefix followed by digits that do not
    start with '0'), and the clause itself as a boolean on an observed
    request/reply/state.  Proved: the two readings of the grammar coincide for
    every string, and the model's reply satisfies the clause for every request. *)
From Coq Require Import NArith String List Bool Lia ZifyN ZifyBool ZifyNat.
From P9V Require Import Base.Str gen.ConstGen Fs.Version Fs.VersionDigits Fs.VersionProofs.
Import ListNotations.
Open Scope string_scope.
Open Scope N_scope.

Fixpoint strip_prefix (p s : string) : option string :=
  match p, s with
  | EmptyString, _ => Some s
  | String a p', String b s' => if Ascii.eqb a b then strip_prefix p' s' else None
  | _, _ => None
  end.

Notation google_prefix := ("9P2000.L.Google."%string) (only parsing).

(** the number a request names, if it names a 9P2000.L version at all *)
Definition dotL_number (s : string) : option N :=
  if String.eqb s "9P2000.L" then Some 0
  else match strip_prefix google_prefix s with
       | Some d => parse_uint32_spec d
       | None => None
       end.

Definition all_digits (s : string) : bool :=
  match digits_fold s 0 with Some _ => true | None => false end.

(** canonical spelling: 0 is plain "9P2000.L"; otherwise the prefix and a decimal without leading zero *)
Definition canonical (s : string) : bool :=
  String.eqb s "9P2000.L" ||
  match strip_prefix google_prefix s with
  | Some (String a r) => negb (Ascii.eqb a "0") && all_digits (String a r)
  | _ => false
  end.

Definition opt_state_eqb (a b : option (N * N)) : bool :=
  match a, b with
  | None, None => true
  | Some (x, y), Some (x', y') => (x =? x') && (y =? y')
  | _, _ => false
  end.

(** the clause: msize 0 or not a .L version => ("unknown", 0), nothing recorded; otherwise msize = min(requested, maximum),
    the version is spelled canonically and names min(N, highest), and exactly that is recorded for the connection *)
Definition handle_clause (msize : N) (s : string) (rm : N) (rv : string) (st : option (N * N)) : bool :=
  match (if msize =? 0 then None else dotL_number s) with
  | None => (rm =? 0) && String.eqb rv "unknown" && opt_state_eqb st None
  | Some n =>
      let v := N.min n p9_highestSupportedVersion in
      (rm =? N.min msize p9_maximumLength) && canonical rv &&
      match dotL_number rv with Some v' => v' =? v | None => false end &&
      opt_state_eqb st (Some (rm, v))
  end.

(** * the two readings of the grammar coincide *)
Lemma strip_prefix_app p : forall s d, strip_prefix p s = Some d -> s = (p ++ d)%string.
Proof.
  induction p as [|a p IH]; intros s d; cbn.
  - now intros [= ->].
  - destruct s as [|b s]; [discriminate|]. destruct (Ascii.eqb_spec a b) as [->|]; [|discriminate].
    intros H. now rewrite (IH _ _ H).
Qed.
Lemma strip_prefix_self p d : strip_prefix p (p ++ d) = Some d.
Proof. induction p as [|a p IH]; cbn; [reflexivity|]. now rewrite Ascii.eqb_refl. Qed.

Lemma digit_not_dot a k : digit_of a = Some k -> Ascii.eqb a dot = false.
Proof. destruct a as [[] [] [] [] [] [] [] []]; cbn; congruence. Qed.

Lemma digits_no_dot s : forall acc v, digits_fold s acc = Some v -> contains_char dot s = false.
Proof.
  induction s as [|a s IH]; intros acc v; cbn [digits_fold contains_char]; [reflexivity|].
  destruct (digit_of a) as [k|] eqn:E; [|discriminate]. intros H.
  rewrite (digit_not_dot _ _ E). cbn. eapply IH; eauto.
Qed.

Lemma spec_no_dot d n : parse_uint32_spec d = Some n -> contains_char dot d = false.
Proof.
  unfold parse_uint32_spec. destruct d as [|a d]; [discriminate|].
  destruct (digits_fold (String a d) 0) as [v|] eqn:E; [|discriminate]. intros _. eapply digits_no_dot; eauto.
Qed.

Theorem dotL_number_is_parse s :
  dotL_number s = match parse_version s with Some (V9P2000L, n) => Some n | _ => None end.
Proof.
  unfold dotL_number.
  destruct (String.eqb_spec s "9P2000.L") as [->|Hne]; [reflexivity|].
  destruct (strip_prefix google_prefix s) as [d|] eqn:Es.
  - apply strip_prefix_app in Es. subst s.
    destruct (parse_uint32_spec d) as [n|] eqn:Ep.
    + rewrite (parse_version_google d n); [reflexivity|eapply spec_no_dot; eauto|now rewrite parse_uint32_is_spec].
    + destruct (parse_version (google_prefix ++ d)) as [[[] n]|] eqn:Ev; try reflexivity.
      apply parse_version_dotL_shape in Ev as [[H _]|(d' & H & Hp)]; [contradiction|].
      apply (f_equal (strip_prefix google_prefix)) in H.
      rewrite !strip_prefix_self in H. injection H as <-. rewrite parse_uint32_is_spec in Hp. congruence.
  - destruct (parse_version s) as [[[] n]|] eqn:Ev; try reflexivity.
    apply parse_version_dotL_shape in Ev as [[H _]|(d' & H & Hp)]; [contradiction|].
    subst s.
    rewrite strip_prefix_self in Es. discriminate.
Qed.

(** * the model's reply satisfies the clause, for every request *)
Definition versions_upto_highest : list N := map N.of_nat (seq 0 (S (N.to_nat p9_highestSupportedVersion))).

Lemma canonical_supported_computed :
  forallb (fun v => canonical (version_string V9P2000L v)) versions_upto_highest = true.
Proof. vm_compute. reflexivity. Qed.

Lemma canonical_supported v : v <= p9_highestSupportedVersion -> canonical (version_string V9P2000L v) = true.
Proof.
  intros H. pose proof canonical_supported_computed as C. rewrite forallb_forall in C. apply C.
  unfold versions_upto_highest. apply in_map_iff. exists (N.to_nat v). split; [lia|]. apply in_seq. lia.
Qed.

Lemma highest_is_32bit : p9_highestSupportedVersion < 4294967296.
Proof. vm_compute. reflexivity. Qed.

Theorem handle_clause_model msize s :
  let '((m, v), st) := tversion_handle msize s in handle_clause msize s m v st = true.
Proof.
  unfold handle_clause. rewrite dotL_number_is_parse.
  destruct (N.eqb_spec msize 0) as [->|Hm]; [reflexivity|].
  destruct (parse_version s) as [[[] n]|] eqn:Ep.
  - rewrite tversion_unknown; [reflexivity|right; intros k; congruence].
  - rewrite tversion_unknown; [reflexivity|right; intros k; congruence].
  - rewrite (tversion_ok msize s n Hm Ep). unfold min_msize, min_version.
    rewrite N.eqb_refl, canonical_supported by lia.
    rewrite dotL_number_is_parse, canon_roundtrip by (pose proof highest_is_32bit; lia).
    cbn [andb opt_state_eqb]. now rewrite !N.eqb_refl.
  - rewrite tversion_unknown; [reflexivity|right; intros k; congruence].
Qed.

(** conversely the clause determines the reply: whatever satisfies it IS the model's reply.  Needs: a canonical
    string naming v is [version_string v] — stated for the supported range by computation over the finitely many
    canonical spellings is not possible (strings are unbounded), so only the msize / state / "unknown" parts are
    shown here; the version part is [handle_clause_names]: the reply names exactly min(N, highest). *)
Theorem handle_clause_names msize s rm rv st :
  handle_clause msize s rm rv st = true ->
  (rm = 0 /\ rv = "unknown" /\ st = None /\ (msize = 0 \/ forall n, parse_version s <> Some (V9P2000L, n))) \/
  (exists n, msize <> 0 /\ parse_version s = Some (V9P2000L, n) /\ rm = N.min msize p9_maximumLength /\
             canonical rv = true /\ parse_version rv = Some (V9P2000L, N.min n p9_highestSupportedVersion) /\
             st = Some (rm, N.min n p9_highestSupportedVersion)).
Proof.
  unfold handle_clause. rewrite !dotL_number_is_parse.
  destruct (N.eqb_spec msize 0) as [->|Hm].
  - intros H. apply andb_prop in H as [H H3]. apply andb_prop in H as [H1 H2].
    apply N.eqb_eq in H1. apply String.eqb_eq in H2. destruct st as [[? ?]|]; [discriminate|]. left. auto.
  - destruct (parse_version s) as [[[] n]|] eqn:Ep;
      try (intros H; apply andb_prop in H as [H H3]; apply andb_prop in H as [H1 H2];
           apply N.eqb_eq in H1; apply String.eqb_eq in H2; destruct st as [[? ?]|]; [discriminate|];
           left; repeat split; auto; right; intros k; congruence).
    intros H. apply andb_prop in H as [H H4]. apply andb_prop in H as [H H3]. apply andb_prop in H as [H1 H2].
    apply N.eqb_eq in H1. right. exists n. repeat split; auto.
    + destruct (parse_version rv) as [[[] v']|]; try discriminate. apply N.eqb_eq in H3. now subst.
    + destruct st as [[a b]|]; [|discriminate]. cbn in H4. apply andb_prop in H4 as [Ha Hb].
      apply N.eqb_eq in Ha, Hb. now subst.
Qed.

(** the reply half alone (for observations that do not show the connection state), and whole sessions: every
    Tversion gets a reply satisfying the clause, an accepted one replaces the recorded (msize, version), a refused
    one leaves it *)
Definition expected_state (msize : N) (s : string) (rm : N) : option (N * N) :=
  match (if msize =? 0 then None else dotL_number s) with
  | None => None
  | Some n => Some (rm, N.min n p9_highestSupportedVersion)
  end.
Definition reply_clause (msize : N) (s : string) (rm : N) (rv : string) : bool :=
  handle_clause msize s rm rv (expected_state msize s rm).

Fixpoint session_clause (prev : N * N) (reqs replies : list (N * string)) (states : list (N * N)) : bool :=
  match reqs, replies, states with
  | [], [], [] => true
  | (ms, s) :: rq, (rm, rv) :: rp, st :: sts =>
      reply_clause ms s rm rv &&
      opt_state_eqb (Some st) (match expected_state ms s rm with Some x => Some x | None => Some prev end) &&
      session_clause st rq rp sts
  | _, _, _ => false
  end.

Fixpoint replies_clause (reqs replies : list (N * string)) : bool :=
  match reqs, replies with
  | (ms, s) :: rq, (rm, rv) :: rp => reply_clause ms s rm rv && replies_clause rq rp
  | _, [] => true
  | [], _ :: _ => false
  end.

Lemma reply_clause_model msize s : reply_clause msize s (fst (fst (tversion_handle msize s))) (snd (fst (tversion_handle msize s))) = true.
Proof.
  pose proof (handle_clause_model msize s) as H. destruct (tversion_handle msize s) as [[m v] st] eqn:E. cbn [fst snd].
  unfold reply_clause, expected_state. unfold handle_clause in *.
  destruct (if msize =? 0 then None else dotL_number s) as [n|].
  - apply andb_prop in H as [H _]. rewrite H. cbn. now rewrite !N.eqb_refl.
  - apply andb_prop in H as [H _]. rewrite H. reflexivity.
Qed.
