(** Library functions that p9/version.go calls, as named Gallina primitives for the TRANSLATED code
    (gen/VersionGen.v).  Hand models of Go's standard library (trusted, listed in C12's trusted base):
    strings.Split with a one-byte separator, indexing of a []string (the translator checks that every
    index is covered by a preceding length test, so the default is never observed), strconv.ParseUint
    in base 10 (non-empty, digits only, value below 2^bits), fmt.Sprintf("<prefix>%d", n). *)
From Coq Require Import NArith List String Ascii DecimalString DecimalN Decimal.
From P9V Require Export Base.Str.
Import ListNotations.
Open Scope N_scope.

Definition go_split (s sep : string) : list string :=
  match sep with
  | String c EmptyString => split_on c s
  | _ => []                      (* separators of other lengths are not modelled: no field, every length test fails *)
  end.

Definition go_idx (l : list string) (i : nat) : string := nth i l EmptyString.

Definition go_parse_uint (s : string) (base bits : N) : option N :=
  if base =? 10 then
    match s with
    | EmptyString => None
    | _ => match NilEmpty.uint_of_string s with
           | Some d => let v := N.of_uint d in if v <? 2 ^ bits then Some v else None
           | None => None
           end
    end
  else None.

Definition go_sprintf_d (prefix : string) (n : N) : string := (prefix ++ NilEmpty.string_of_uint (N.to_uint n))%string.
