(** C12: the functions go2coq TRANSLATED from p9/version.go (gen/VersionGen.v, regenerated on every run) are
    the hand model Fs/Version.v, for every string and every number.  An edit of parseVersion / versionString
    therefore re-opens a proof over all inputs (or is refused by the translator), not only a differential. *)
From Coq Require Import NArith List String Ascii Bool Lia DecimalString DecimalN Decimal.
From P9V Require Import Base.Str gen.ConstGen Fs.VersionPrims gen.VersionGen Fs.Version Fs.VersionProofs.
Import ListNotations.
Open Scope string_scope.
Open Scope N_scope.

Definition enc_parse (r : option (basev * N)) : string * N * bool :=
  match r with Some (b, v) => (base_string b, v, true) | None => ("", 0, false) end.

Lemma length_zero_eqb : forall d : string, Nat.eqb (String.length d) 0 = String.eqb d "".
Proof. destruct d; reflexivity. Qed.

Lemma parse_uint_is : forall d, go_parse_uint d 10 32 = parse_uint32 d.
Proof. intros d. unfold go_parse_uint, parse_uint32. cbn [N.eqb Pos.eqb]. destruct d; reflexivity. Qed.

Lemma parse_uint32_small : forall d v, parse_uint32 d = Some v -> v mod 4294967296 = v.
Proof.
  intros d v. unfold parse_uint32. destruct d; [discriminate|].
  destruct (NilEmpty.uint_of_string _); [|discriminate].
  destruct (N.ltb_spec (N.of_uint u) 4294967296); [|discriminate].
  intros Hv; inversion Hv; subst. apply N.mod_small; assumption.
Qed.

Theorem gen_parseVersion_is_model : forall s, gen_parseVersion s = enc_parse (parse_version s).
Proof.
  intros s. unfold gen_parseVersion, parse_version.
  destruct (String.eqb s "9P2000.L"); [reflexivity|].
  destruct (String.eqb s "9P2000.u"); [reflexivity|].
  destruct (String.eqb s "9P2000"); [reflexivity|].
  change (go_split s ".") with (split_on dot s).
  destruct (split_on dot s) as [|a [|b [|c [|d [|e r]]]]]; try reflexivity.
  cbn [List.length Nat.eqb negb go_idx nth].
  rewrite length_zero_eqb, parse_uint_is.
  destruct (String.eqb a "9P2000"); cbn [negb orb andb]; [|reflexivity].
  destruct (String.eqb b "L"); cbn [negb orb andb]; [|reflexivity].
  destruct (String.eqb c "Google"); cbn [negb orb andb]; [|reflexivity].
  destruct (String.eqb d ""); cbn [negb]; [reflexivity|].
  destruct (parse_uint32 d) as [v|] eqn:E; [|reflexivity].
  cbn [enc_parse base_string]. rewrite (parse_uint32_small d v E). reflexivity.
Qed.

Theorem gen_versionString_is_model : forall b v, gen_versionString (base_string b) v = version_string b v.
Proof. intros b v. unfold gen_versionString, version_string, go_sprintf_d, decimal. destruct (v =? 0); reflexivity. Qed.

(** the canonical-spelling clause restated over the TRANSLATED functions: what version.go's versionString
    writes for any 32-bit number, version.go's parseVersion reads back as that number *)
Corollary source_canon_roundtrip : forall n, n < 4294967296 ->
  gen_parseVersion (gen_versionString "9P2000.L" n) = ("9P2000.L", n, true).
Proof.
  intros n Hn. change "9P2000.L" with (base_string V9P2000L) at 1.
  rewrite gen_versionString_is_model, gen_parseVersion_is_model, (canon_roundtrip n Hn). reflexivity.
Qed.
