(** An elementary reading of the decimal part of a version string, independent of
    the standard library's Decimal machinery: non-empty, every character in
    '0'..'9', value = left-to-right fold, below 2^32.  [parse_uint32] (the model
    of strconv.ParseUint(s, 10, 32) used by Fs/Version.v) is proved equal to it
    for every string. *)
From Coq Require Import DecimalString DecimalN DecimalPos Decimal ZArith Lia ZifyN ZifyBool.
From P9V Require Import Base.Str Fs.Version.
Open Scope N_scope.

Definition digit_of (a : ascii) : option N :=
  let n := N_of_ascii a in
  if (48 <=? n) && (n <=? 57) then Some (n - 48) else None.

Fixpoint digits_fold (s : string) (acc : N) : option N :=
  match s with
  | EmptyString => Some acc
  | String a r => match digit_of a with
                  | Some d => digits_fold r (acc * 10 + d)
                  | None => None
                  end
  end.

Definition parse_uint32_spec (s : string) : option N :=
  match s with
  | EmptyString => None
  | _ => match digits_fold s 0 with
         | Some v => if v <? 4294967296 then Some v else None
         | None => None
         end
  end.

(** value of a Decimal.uint read most-significant digit first, with accumulator *)
Fixpoint uint_fold (d : uint) (acc : N) : N :=
  match d with
  | Nil => acc
  | D0 l => uint_fold l (acc * 10 + 0)
  | D1 l => uint_fold l (acc * 10 + 1)
  | D2 l => uint_fold l (acc * 10 + 2)
  | D3 l => uint_fold l (acc * 10 + 3)
  | D4 l => uint_fold l (acc * 10 + 4)
  | D5 l => uint_fold l (acc * 10 + 5)
  | D6 l => uint_fold l (acc * 10 + 6)
  | D7 l => uint_fold l (acc * 10 + 7)
  | D8 l => uint_fold l (acc * 10 + 8)
  | D9 l => uint_fold l (acc * 10 + 9)
  end.

Lemma of_uint_acc_fold d p : Npos (Pos.of_uint_acc d p) = uint_fold d (Npos p).
Proof.
  revert p. induction d; intros p; cbn [Pos.of_uint_acc uint_fold]; try reflexivity;
    rewrite IHd; f_equal; lia.
Qed.

Lemma of_uint_fold d : N.of_uint d = uint_fold d 0.
Proof.
  unfold N.of_uint. induction d; cbn [Pos.of_uint uint_fold]; try reflexivity;
    try (rewrite of_uint_acc_fold; reflexivity).
  exact IHd.
Qed.

Lemma uint_of_char_digit a d d' :
  uint_of_char a (Some d) = Some d' ->
  exists k, digit_of a = Some k /\ forall acc, uint_fold d' acc = uint_fold d (acc * 10 + k).
Proof.
  destruct a as [[] [] [] [] [] [] [] []]; cbn; try discriminate; intros [= <-];
    eexists; (split; [reflexivity|intros acc; reflexivity]).
Qed.

Lemma uint_of_char_nondigit a d :
  uint_of_char a (Some d) = None -> digit_of a = None.
Proof. destruct a as [[] [] [] [] [] [] [] []]; cbn; congruence. Qed.

Lemma uint_of_string_fold s :
  match NilEmpty.uint_of_string s with
  | Some d => forall acc, digits_fold s acc = Some (uint_fold d acc)
  | None => forall acc, digits_fold s acc = None
  end.
Proof.
  induction s as [|a s IH]; cbn [NilEmpty.uint_of_string digits_fold].
  - intros acc. reflexivity.
  - destruct (NilEmpty.uint_of_string s) as [d|].
    + destruct (uint_of_char a (Some d)) as [d'|] eqn:E.
      * destruct (uint_of_char_digit _ _ _ E) as (k & -> & Hk). intros acc. now rewrite IH, Hk.
      * intros acc. now rewrite (uint_of_char_nondigit _ _ E).
    + assert (uint_of_char a None = None) as -> by (destruct a as [[] [] [] [] [] [] [] []]; reflexivity).
      intros acc. destruct (digit_of a); [apply IH|reflexivity].
Qed.

Theorem parse_uint32_is_spec s : parse_uint32 s = parse_uint32_spec s.
Proof.
  unfold parse_uint32, parse_uint32_spec. destruct s as [|a s]; [reflexivity|].
  pose proof (uint_of_string_fold (String a s)) as H.
  destruct (NilEmpty.uint_of_string (String a s)) as [d|].
  - rewrite H, of_uint_fold. reflexivity.
  - now rewrite H.
Qed.
