(** Strings as Go sees them: arbitrary byte sequences.  Stdlib style (lists, lia). *)
From Coq Require Export String Ascii List NArith Bool Lia.
Export ListNotations.
Open Scope string_scope.

Definition byte_of_N (n : N) : ascii := ascii_of_N n.
Definition N_of_byte (a : ascii) : N := N_of_ascii a.

Fixpoint bytes_to_string (l : list N) : string :=
  match l with
  | [] => EmptyString
  | b :: r => String (byte_of_N b) (bytes_to_string r)
  end.

Fixpoint string_to_bytes (s : string) : list N :=
  match s with
  | EmptyString => []
  | String a r => N_of_byte a :: string_to_bytes r
  end.

Lemma bytes_string_bytes s : bytes_to_string (string_to_bytes s) = s.
Proof.
  induction s as [|a s IH]; cbn; [reflexivity|].
  unfold byte_of_N, N_of_byte. now rewrite ascii_N_embedding, IH.
Qed.

Lemma string_to_bytes_lt s : Forall (fun b => (b < 256)%N) (string_to_bytes s).
Proof.
  induction s as [|a s IH]; cbn; constructor; auto.
  unfold N_of_byte. apply N_ascii_bounded.
Qed.

Lemma length_string_to_bytes s : List.length (string_to_bytes s) = String.length s.
Proof. induction s; cbn; auto. Qed.

(** [split_on c s] is Go's [strings.Split(s, string(c))]: always at least one field. *)
Fixpoint split_on (c : ascii) (s : string) : list string :=
  match s with
  | EmptyString => [EmptyString]
  | String a r =>
      if Ascii.eqb a c then EmptyString :: split_on c r
      else match split_on c r with
           | [] => [String a EmptyString]      (* unreachable: split_on is never empty *)
           | f :: fs => String a f :: fs
           end
  end.

Lemma split_on_nonempty c s : split_on c s <> [].
Proof.
  induction s as [|a s IH]; cbn; [discriminate|].
  destruct (Ascii.eqb a c); [discriminate|].
  destruct (split_on c s); discriminate.
Qed.

Fixpoint contains_char (c : ascii) (s : string) : bool :=
  match s with
  | EmptyString => false
  | String a r => Ascii.eqb a c || contains_char c r
  end.

Fixpoint join_with (c : ascii) (l : list string) : string :=
  match l with
  | [] => EmptyString
  | [x] => x
  | x :: r => x ++ String c (join_with c r)
  end.

Lemma join_split c s : join_with c (split_on c s) = s.
Proof.
  induction s as [|a s IH]; cbn; [reflexivity|].
  destruct (Ascii.eqb_spec a c) as [->|Hne].
  - pose proof (split_on_nonempty c s) as Hn.
    destruct (split_on c s) as [|f fs] eqn:E; [congruence|].
    cbn. now rewrite <- IH.
  - pose proof (split_on_nonempty c s) as Hn.
    destruct (split_on c s) as [|f fs] eqn:E; [congruence|].
    rewrite <- IH. destruct fs; cbn; reflexivity.
Qed.

(** No field of a split contains the separator. *)
Lemma split_on_no_sep c s : Forall (fun f => contains_char c f = false) (split_on c s).
Proof.
  induction s as [|a s IH]; cbn; [repeat constructor|].
  destruct (Ascii.eqb a c) eqn:E.
  - constructor; auto.
  - pose proof (split_on_nonempty c s) as Hn.
    destruct (split_on c s) as [|f fs]; [congruence|].
    inversion IH; subst. constructor; auto. cbn. now rewrite E.
Qed.

Lemma split_on_single c s : contains_char c s = false -> split_on c s = [s].
Proof.
  induction s as [|a s IH]; cbn; [reflexivity|].
  destruct (Ascii.eqb a c); cbn; [discriminate|].
  intros H. now rewrite IH.
Qed.

Lemma split_on_app_sep c s t :
  contains_char c s = false -> split_on c (s ++ String c t) = s :: split_on c t.
Proof.
  induction s as [|a s IH]; cbn.
  - now rewrite Ascii.eqb_refl.
  - destruct (Ascii.eqb a c); cbn; [discriminate|].
    intros H. now rewrite IH.
Qed.

Definition string_eqb := String.eqb.
