(** Go's fixed-width integer arithmetic as used by the definitions go2coq ArithGen emits
    (coq/gen/ArithGen.v): every + - * of a uint32 / uint64 / int / int64 expression is wrapped.
    Definitions only. *)
From Coq Require Import ZArith Bool.
Local Open Scope Z_scope.

Definition w32 (z : Z) : Z := z mod 4294967296.
Definition w64 (z : Z) : Z := z mod 18446744073709551616.
(** int and int64 (64-bit platforms): two's complement *)
Definition wi64 (z : Z) : Z := (z + 9223372036854775808) mod 18446744073709551616 - 9223372036854775808.
(** x % y on unsigned operands; Go panics for y = 0: the users state y > 0 *)
Definition gomod (x y : Z) : Z := x mod y.

(** results of the pieces of client_file.go chunk *)
Inductive gerr := ENil | EFn.                 (* nil / the error fn returned *)
Definition err_eqb (a b : gerr) : bool := match a, b with ENil, ENil | EFn, EFn => true | _, _ => false end.
Definition err_neqb (a b : gerr) : bool := negb (err_eqb a b).
Inductive gpre := GReturn (total : Z) (e : gerr) | GCall.
Inductive gpost := GRet (total : Z) (e : gerr) | GPanic | GNext (total offset : Z).
