(** Small-step interleaving model of the request loop of p9/server.go
    (handleRequests / handleRequest / handle / StartTag / ClearTag / TagDone),
    tflush.handle (p9/handlers.go) and send (p9/transport.go), as the code is NOW
    (tags are activated, and a Tflush captures the channel it waits for, while
    recvMu is still held).  Definitions only; proofs are in Loop/Proofs.v.

    The input is the ordered list [inp] of frames the peer sends.  Request [i] is
    the i-th frame; it is also the identity of the goroutine serving it and of the
    channel StartTag makes for it.  Goroutines that are not serving a request are
    interchangeable and only counted ([nnew]: entered handleRequest, before the
    atomic increment of recvIdle; [nidle]: counted in recvIdle, waiting for
    recvMu).  Steps merged into one atomic step, and why that loses nothing:
    - recvMu.Lock + AddInt32(recvIdle,-1) + recvShutdown test + recv: recvIdle is
      read only by the holder of recvMu, recvShutdown and the reader [t] are
      touched only under recvMu; a recv blocked on a silent peer is "LRecv not
      enabled" (idle goroutines are interchangeable);
    - the recvIdle test + go + recvMu.Unlock: nothing another goroutine does in
      between depends on them (they can only increment recvIdle);
    - the last Write of a reply and sendMu.Unlock are separate steps; one Write
      call of net.Buffers.WriteTo is one chunk on the wire.
    Send errors: the environment may close the peer's read side at any time
    ([LBreak]); from then on every Write fails ([LSendFail]: WriteTo stops at the
    first error, send returns ConnError, handleRequest unlocks sendMu and only logs
    it - one step, nothing observable lies in between), nothing more reaches the
    wire, and the goroutine carries on exactly as after a good send.
    StartTag, TagDone (capture), ClearTag are separate steps (each is one tagMu
    critical section), so a ClearTag of another goroutine may fall between the
    StartTag and the capture of a flush.  The backend is any number of calls per
    request: [LEnter] starts one, it returns only at [LExit] (the environment
    releases the gate); [LReturn] picks any reply (matching R or Rlerror - errors
    and recovered panics) and any number of payload chunks. *)
From Coq Require Import NArith List Bool Arith.
Import ListNotations.

Inductive kind := KFlush (old : N) | KOp.
Inductive frame :=
| FConn                      (* recv returns a ConnError: EOF, short/oversized header, read error *)
| FReject (t : N)            (* recv returns another error with tag t: Rlerror is sent with that tag, no tag started *)
| FReq (t : N) (k : kind).   (* a decodable message with tag t *)

Inductive rkind := RMatch | RErr.
Record reply := mkReply { r_kind : rkind; r_extra : nat }.   (* written with 1 + r_extra Write calls *)
Definition rflush_reply := mkReply RMatch 0.                 (* Rflush has no body: header only *)

Inductive rpc :=
| RNone                                   (* not received yet *)
| RConn                                   (* this frame was the connection error *)
| RGot                                    (* recv returned; recvMu held *)
| RStarted (b : bool)                     (* started := StartTag(tag) = b; recvMu held *)
| RCaptured (b : bool) (w : option nat)   (* f.wait captured (None for a non-flush); recvMu held *)
| RDropped                                (* !started: no reply, goroutine loops *)
| RRun (w : option nat)                   (* inside handle, not in a backend call *)
| RBack                                   (* inside a backend call *)
| RRet (r : reply)                        (* handle returned r *)
| RClr (r : reply)                        (* ClearTag done (or reject path), before sendMu.Lock *)
| RSend (r : reply) (k : nat)             (* sendMu locked by this goroutine, k chunks written *)
| RDone (r : reply)                       (* sendMu unlocked, goroutine loops *)
| RDoneF (r : reply).                     (* a Write failed: send returned ConnError (only logged), sendMu unlocked, goroutine loops *)

Record state := mkState {
  nrecv : nat;                 (* frames consumed *)
  shut : bool;                 (* recvShutdown *)
  recvmu : bool;               (* recvMu locked *)
  nnew : nat;
  nidle : nat;                 (* = recvIdle *)
  pc : nat -> rpc;
  tags : N -> option nat;      (* cs.tags: tag -> channel (= request that made it) *)
  closed : nat -> bool;        (* closed channels *)
  sendmu : option nat;         (* sendMu holder *)
  wire : list (nat * nat);     (* chunks written to r: (request, chunk index) *)
  replies : list (nat * reply); (* ghost: completed sends in order *)
  wbroken : bool;              (* the peer closed its read side: every later Write fails *)
  torn : list (nat * nat)      (* ghost: chunks of sends that failed half way *)
}.

Definition init : state :=
  mkState 0 false false 1 0 (fun _ => RNone) (fun _ => None) (fun _ => false) None [] [] false [].

Definition upd {A} (f : nat -> A) (i : nat) (x : A) : nat -> A :=
  fun j => if Nat.eqb j i then x else f j.
Definition updN {A} (f : N -> A) (t : N) (x : A) : N -> A :=
  fun u => if N.eqb u t then x else f u.

Definition set_pc (s : state) (i : nat) (p : rpc) : state :=
  mkState (nrecv s) (shut s) (recvmu s) (nnew s) (nidle s) (upd (pc s) i p) (tags s) (closed s) (sendmu s) (wire s) (replies s) (wbroken s) (torn s).

Inductive label :=
| LInc                       (* atomic.AddInt32(&recvIdle, 1) *)
| LRecv                      (* recvMu.Lock; recvIdle--; shutdown test; recv *)
| LStart (i : nat)           (* started = StartTag(tag) *)
| LCapture (i : nat)         (* f.wait = TagDone(OldTag) iff flush && started && OldTag != tag *)
| LSpawn (i : nat) (r : reply) (* recvIdle == 0 => go handleRequests; recvMu.Unlock *)
| LEnter (i : nat)           (* handler calls the backend *)
| LExit (i : nat)            (* the backend call returns (gate released) *)
| LReturn (i : nat) (r : reply) (* handle returns (non-flush) *)
| LPass (i : nat)            (* tflush.handle: wait == nil or <-wait succeeded; returns rflush *)
| LClear (i : nat)           (* ClearTag(tag) *)
| LLock (i : nat)            (* sendMu.Lock *)
| LChunk (i : nat)           (* one Write of the vectored send *)
| LUnlock (i : nat)          (* sendMu.Unlock; registry put; loop *)
| LBreak                     (* environment: the peer closes its read side *)
| LSendFail (i : nat).       (* the next Write fails: WriteTo returns the error, send returns ConnError; sendMu.Unlock; log; loop *)

Definition is_none {A} (o : option A) : bool := match o with None => true | Some _ => false end.

Definition exec (inp : list frame) (l : label) (s : state) : option state :=
  match l with
  | LInc =>
      match nnew s with
      | 0 => None
      | S n => Some (mkState (nrecv s) (shut s) (recvmu s) n (S (nidle s)) (pc s) (tags s) (closed s) (sendmu s) (wire s) (replies s) (wbroken s) (torn s))
      end
  | LRecv =>
      match nidle s with
      | 0 => None
      | S n =>
          if recvmu s then None
          else if shut s then
            Some (mkState (nrecv s) true false (nnew s) n (pc s) (tags s) (closed s) (sendmu s) (wire s) (replies s) (wbroken s) (torn s))
          else match nth_error inp (nrecv s) with
               | None => None
               | Some FConn =>
                   Some (mkState (S (nrecv s)) true false (nnew s) n (upd (pc s) (nrecv s) RConn) (tags s) (closed s) (sendmu s) (wire s) (replies s) (wbroken s) (torn s))
               | Some _ =>
                   Some (mkState (S (nrecv s)) false true (nnew s) n (upd (pc s) (nrecv s) RGot) (tags s) (closed s) (sendmu s) (wire s) (replies s) (wbroken s) (torn s))
               end
      end
  | LStart i =>
      match pc s i, nth_error inp i with
      | RGot, Some (FReq t _) =>
          let b := is_none (tags s t) in
          Some (mkState (nrecv s) (shut s) (recvmu s) (nnew s) (nidle s) (upd (pc s) i (RStarted b))
                        (if b then updN (tags s) t (Some i) else tags s) (closed s) (sendmu s) (wire s) (replies s) (wbroken s) (torn s))
      | _, _ => None
      end
  | LCapture i =>
      match pc s i, nth_error inp i with
      | RStarted b, Some (FReq t k) =>
          let w := match k with
                   | KFlush old => if b && negb (N.eqb old t) then tags s old else None
                   | KOp => None
                   end in
          Some (set_pc s i (RCaptured b w))
      | _, _ => None
      end
  | LSpawn i r =>
      let sp := if Nat.eqb (nidle s) 0 then 1 else 0 in
      match pc s i, nth_error inp i with
      | RGot, Some (FReject _) =>
          match r_kind r with
          | RErr => Some (mkState (nrecv s) (shut s) false (sp + nnew s) (nidle s) (upd (pc s) i (RClr r)) (tags s) (closed s) (sendmu s) (wire s) (replies s) (wbroken s) (torn s))
          | RMatch => None
          end
      | RCaptured true w, Some (FReq _ _) =>
          Some (mkState (nrecv s) (shut s) false (sp + nnew s) (nidle s) (upd (pc s) i (RRun w)) (tags s) (closed s) (sendmu s) (wire s) (replies s) (wbroken s) (torn s))
      | RCaptured false _, Some (FReq _ _) =>
          Some (mkState (nrecv s) (shut s) false (S (sp + nnew s)) (nidle s) (upd (pc s) i RDropped) (tags s) (closed s) (sendmu s) (wire s) (replies s) (wbroken s) (torn s))
      | _, _ => None
      end
  | LEnter i =>
      match pc s i, nth_error inp i with
      | RRun _, Some (FReq _ KOp) => Some (set_pc s i RBack)
      | _, _ => None
      end
  | LExit i =>
      match pc s i with
      | RBack => Some (set_pc s i (RRun None))
      | _ => None
      end
  | LReturn i r =>
      match pc s i, nth_error inp i with
      | RRun _, Some (FReq _ KOp) => Some (set_pc s i (RRet r))
      | _, _ => None
      end
  | LPass i =>
      match pc s i, nth_error inp i with
      | RRun w, Some (FReq _ (KFlush _)) =>
          if match w with None => true | Some c => closed s c end
          then Some (set_pc s i (RRet rflush_reply)) else None
      | _, _ => None
      end
  | LClear i =>
      match pc s i, nth_error inp i with
      | RRet r, Some (FReq t _) =>
          match tags s t with
          | Some c =>
              Some (mkState (nrecv s) (shut s) (recvmu s) (nnew s) (nidle s) (upd (pc s) i (RClr r))
                            (updN (tags s) t None) (upd (closed s) c true) (sendmu s) (wire s) (replies s) (wbroken s) (torn s))
          | None => None      (* panic("unused tag cleared"): shown unreachable (ClearTag_never_panics) *)
          end
      | _, _ => None
      end
  | LLock i =>
      match pc s i, sendmu s with
      | RClr r, None =>
          Some (mkState (nrecv s) (shut s) (recvmu s) (nnew s) (nidle s) (upd (pc s) i (RSend r 0))
                        (tags s) (closed s) (Some i) (wire s) (replies s) (wbroken s) (torn s))
      | _, _ => None
      end
  | LChunk i =>
      match pc s i with
      | RSend r k =>
          if Nat.leb k (r_extra r) && negb (wbroken s)
          then Some (mkState (nrecv s) (shut s) (recvmu s) (nnew s) (nidle s) (upd (pc s) i (RSend r (S k)))
                             (tags s) (closed s) (sendmu s) (wire s ++ [(i, k)]) (replies s) (wbroken s) (torn s))
          else None
      | _ => None
      end
  | LUnlock i =>
      match pc s i with
      | RSend r k =>
          if Nat.eqb k (S (r_extra r))
          then Some (mkState (nrecv s) (shut s) (recvmu s) (S (nnew s)) (nidle s) (upd (pc s) i (RDone r))
                             (tags s) (closed s) None (wire s) (replies s ++ [(i, r)]) (wbroken s) (torn s))
          else None
      | _ => None
      end
  | LBreak =>
      if wbroken s then None
      else Some (mkState (nrecv s) (shut s) (recvmu s) (nnew s) (nidle s) (pc s) (tags s) (closed s) (sendmu s) (wire s) (replies s) true (torn s))
  | LSendFail i =>
      match pc s i with
      | RSend r k =>
          if Nat.leb k (r_extra r) && wbroken s
          then Some (mkState (nrecv s) (shut s) (recvmu s) (S (nnew s)) (nidle s) (upd (pc s) i (RDoneF r))
                             (tags s) (closed s) None (wire s) (replies s) (wbroken s) (torn s ++ map (pair i) (seq 0 k)))
          else None
      | _ => None
      end
  end.

Definition step (inp : list frame) (s s' : state) : Prop := exists l, exec inp l s = Some s'.

Inductive reachable (inp : list frame) : state -> Prop :=
| reach_init : reachable inp init
| reach_step s l s' : reachable inp s -> exec inp l s = Some s' -> reachable inp s'.

Inductive steps (inp : list frame) : state -> state -> Prop :=
| steps_refl s : steps inp s s
| steps_step s l s' s'' : steps inp s s' -> exec inp l s' = Some s'' -> steps inp s s''.

Fixpoint run (inp : list frame) (ls : list label) (s : state) : option state :=
  match ls with
  | [] => Some s
  | l :: r => match exec inp l s with Some s' => run inp r s' | None => None end
  end.

(** classification of program counters *)
Definition holding (p : rpc) : bool :=
  match p with RGot | RStarted _ | RCaptured _ _ => true | _ => false end.
Definition active (p : rpc) : bool :=          (* tag in cs.tags *)
  match p with RStarted true | RCaptured true _ | RRun _ | RBack | RRet _ => true | _ => false end.
Definition running (p : rpc) : bool :=         (* inside handle or between its return and ClearTag *)
  match p with RRun _ | RBack | RRet _ => true | _ => false end.
Definition cleared (p : rpc) : bool :=         (* past ClearTag / past the reject decision *)
  match p with RClr _ | RSend _ _ | RDone _ | RDoneF _ => true | _ => false end.
Definition returned (p : rpc) : bool :=        (* handle has returned *)
  match p with RRet _ | RClr _ | RSend _ _ | RDone _ | RDoneF _ => true | _ => false end.
Definition final (p : rpc) : bool :=
  match p with RNone | RConn | RDropped | RDone _ | RDoneF _ => true | _ => false end.
Definition accepted (p : rpc) : bool := running p || cleared p.

Definition tag_of (f : frame) : option N :=
  match f with FConn => None | FReject t => Some t | FReq t _ => Some t end.

(** which program counters a frame can be at *)
Definition wf_pc (f : frame) (p : rpc) : Prop :=
  match f, p with
  | FConn, RConn => True
  | FReject _, RGot => True
  | FReject _, (RClr r | RSend r _ | RDone r | RDoneF r) => r_kind r = RErr
  | FReq _ KOp, (RGot | RStarted _ | RDropped | RBack | RRet _ | RClr _ | RSend _ _ | RDone _ | RDoneF _) => True
  | FReq _ KOp, (RCaptured _ None | RRun None) => True
  | FReq _ (KFlush _), (RGot | RStarted _ | RCaptured _ _ | RDropped | RRun _) => True
  | FReq _ (KFlush _), (RRet r | RClr r | RSend r _ | RDone r | RDoneF r) => r = rflush_reply
  | _, _ => False
  end.

Definition chunks (ir : nat * reply) : list (nat * nat) :=
  map (pair (fst ir)) (seq 0 (S (r_extra (snd ir)))).

Definition partial (s : state) : list (nat * nat) :=
  match sendmu s with
  | Some h => match pc s h with RSend _ k => map (pair h) (seq 0 k) | _ => [] end
  | None => []
  end.

(** a flush i waits for c *)
Definition waits_for (s : state) (i c : nat) : Prop :=
  pc s i = RRun (Some c) /\ closed s c = false.

(** request i cannot move without a backend gate being released *)
Inductive waits_back (s : state) : nat -> Prop :=
| WB_back i : pc s i = RBack -> waits_back s i
| WB_flush i c : waits_for s i c -> waits_back s c -> waits_back s i.

(** labels that are moves of the server code itself (not the peer, not the backend
    starting or finishing a call, not the idle counter) *)
Definition progress_label (l : label) : bool :=
  match l with
  | LStart _ | LCapture _ | LSpawn _ _ | LReturn _ _ | LPass _ | LClear _ | LLock _ | LChunk _ | LUnlock _
  | LSendFail _ => true
  | LInc | LRecv | LEnter _ | LExit _ | LBreak => false
  end.

(** labels of the intake path *)
Definition intake_label (l : label) : bool :=
  match l with LInc | LRecv | LStart _ | LCapture _ | LSpawn _ _ => true | _ => false end.

