(** Tie between the request-loop model (Loop/Model.v) and the Go source: the table
    go2coq extracts from p9/server.go, p9/handlers.go, p9/transport.go (gen/LoopGen.v,
    regenerated on every run) must satisfy the ordering/locking facts the model is
    built on, and must equal the table the model was written against.  go2coq prints
    local identifiers (parameters, :=, var) as v0, v1, ... in order of appearance and
    the receiver as cs / t, so renaming a local leaves the table unchanged; a
    reordering or restructuring of handleRequest re-opens exactly these obligations. *)
From Coq Require Import String List Bool Arith.
From P9V Require Import gen.LoopGen.
Import ListNotations.
Open Scope string_scope.

Definition ev_name (e : string * list string * list string) : string := fst (fst e).
Definition ev_conds (e : string * list string * list string) : list string := snd (fst e).
Definition ev_held (e : string * list string * list string) : list string := snd e.
Definition smem (x : string) (l : list string) : bool := existsb (String.eqb x) l.

(** every event called [name] happens with [mu] held *)
Definition all_under (name mu : string) (evs : list (string * list string * list string)) : bool :=
  existsb (fun e => String.eqb (ev_name e) name) evs &&
  forallb (fun e => if String.eqb (ev_name e) name then smem mu (ev_held e) else true) evs.

Fixpoint first_index (p : string * list string * list string -> bool) (evs : list (string * list string * list string)) (i : nat) : option nat :=
  match evs with
  | [] => None
  | e :: r => if p e then Some i else first_index p r (S i)
  end.
Fixpoint last_index (p : string * list string * list string -> bool) (evs : list (string * list string * list string)) (i : nat) : option nat :=
  match evs with
  | [] => None
  | e :: r => match last_index p r (S i) with Some j => Some j | None => if p e then Some i else None end
  end.
Definition is_ev (name : string) e := String.eqb (ev_name e) name.
Definition is_main (name : string) e := String.eqb (ev_name e) name && match ev_conds e with [] => true | _ => false end.

(** every occurrence of [a] precedes every occurrence of [b] (both occur) *)
Definition before (pa pb : string * list string * list string -> bool) evs : bool :=
  match last_index pa evs 0, first_index pb evs 0 with
  | Some i, Some j => Nat.ltb i j
  | _, _ => false
  end.

Definition starttag_under_recvMu := all_under "StartTag" "recvMu" handleRequest_events.
Definition capture_under_recvMu := all_under "TagDone" "recvMu" handleRequest_events.
Definition capture_guarded :=
  forallb (fun e => if is_ev "TagDone" e then smem "v5 && v7.OldTag != v0" (ev_conds e) && smem "v7, v6 := v1.(*tflush); v6" (ev_conds e) else true) handleRequest_events.
Definition starttag_before_capture := before (is_ev "StartTag") (is_ev "TagDone") handleRequest_events.
Definition capture_before_spawn := before (is_ev "TagDone") (is_ev "spawn") handleRequest_events.
Definition spawn_before_unlock := before (is_ev "spawn") (is_main "recvMu.Unlock") handleRequest_events
                                  && all_under "spawn" "recvMu" handleRequest_events.
(** recvIdle counts exactly the goroutines waiting for recvMu: +1 before recvMu.Lock, -1 right after it (under recvMu,
    before recv); the spawn test reads it under recvMu (the condition of the spawn event) *)
Definition idle_counted :=
  before (is_ev "atomic.AddInt32(&cs.recvIdle, 1)") (is_ev "recvMu.Lock") handleRequest_events
  && before (is_ev "recvMu.Lock") (is_ev "atomic.AddInt32(&cs.recvIdle, -1)") handleRequest_events
  && before (is_ev "atomic.AddInt32(&cs.recvIdle, -1)") (is_ev "recv") handleRequest_events
  && all_under "atomic.AddInt32(&cs.recvIdle, -1)" "recvMu" handleRequest_events
  && forallb (fun e => if is_ev "spawn" e then smem "atomic.LoadInt32(&cs.recvIdle) == 0" (ev_conds e) else true) handleRequest_events.
Definition recv_under_recvMu := all_under "recv" "recvMu" handleRequest_events && all_under "set-shutdown:true" "recvMu" handleRequest_events.
Definition handle_after_unlock := before (is_main "recvMu.Unlock") (is_ev "handle") handleRequest_events.
Definition cleartag_after_handle := before (is_ev "handle") (is_ev "ClearTag") handleRequest_events.
Definition cleartag_before_send := before (is_ev "ClearTag") (is_main "send") handleRequest_events.
Definition send_under_sendMu := all_under "send" "sendMu" handleRequest_events.
Definition sends_only_in_handleRequest :=
  forallb (String.eqb "connState.handleRequest") send_sites &&
  Nat.eqb (List.length send_sites) (List.length (filter (is_ev "send") handleRequest_events)).
Definition wait_set_only_in_handleRequest :=
  forallb (String.eqb "connState.handleRequest") wait_sites &&
  Nat.eqb (List.length wait_sites) (List.length (filter (fun e => String.prefix "set-wait:" (ev_name e)) handleRequest_events)).

Lemma tie_starttag_under_recvMu : starttag_under_recvMu = true. Proof. vm_compute. reflexivity. Qed.
Lemma tie_capture_under_recvMu : capture_under_recvMu = true. Proof. vm_compute. reflexivity. Qed.
Lemma tie_capture_guarded : capture_guarded = true. Proof. vm_compute. reflexivity. Qed.
Lemma tie_starttag_before_capture : starttag_before_capture = true. Proof. vm_compute. reflexivity. Qed.
Lemma tie_capture_before_spawn : capture_before_spawn = true. Proof. vm_compute. reflexivity. Qed.
Lemma tie_spawn_before_unlock : spawn_before_unlock = true. Proof. vm_compute. reflexivity. Qed.
Lemma tie_idle_counted : idle_counted = true. Proof. vm_compute. reflexivity. Qed.
Lemma tie_recv_under_recvMu : recv_under_recvMu = true. Proof. vm_compute. reflexivity. Qed.
Lemma tie_handle_after_unlock : handle_after_unlock = true. Proof. vm_compute. reflexivity. Qed.
Lemma tie_cleartag_after_handle : cleartag_after_handle = true. Proof. vm_compute. reflexivity. Qed.
Lemma tie_cleartag_before_send : cleartag_before_send = true. Proof. vm_compute. reflexivity. Qed.
Lemma tie_send_under_sendMu : send_under_sendMu = true. Proof. vm_compute. reflexivity. Qed.
Lemma tie_sends_only_in_handleRequest : sends_only_in_handleRequest = true. Proof. vm_compute. reflexivity. Qed.
Lemma tie_wait_set_only_in_handleRequest : wait_set_only_in_handleRequest = true. Proof. vm_compute. reflexivity. Qed.

(** tflush.handle waits only on the captured channel; the tag table operations are what the model's
    LStart / LCapture / LClear steps say; send writes the frame with one vectored write *)
Lemma tie_tflush_handle : body_tflush_handle = ["if t.wait != nil { <-t.wait }"; "return &rflush{}"]. Proof. reflexivity. Qed.
Lemma tie_StartTag : body_connState_StartTag = ["cs.tagMu.Lock()"; "defer cs.tagMu.Unlock()"; "v0, v1 := cs.tags[v2]"; "if v1 { return false }"; "cs.tags[v2] = make(chan struct{})"; "return true"]. Proof. reflexivity. Qed.
Lemma tie_ClearTag : body_connState_ClearTag = ["cs.tagMu.Lock()"; "defer cs.tagMu.Unlock()"; "v0, v1 := cs.tags[v2]"; "if !v1 { panic(""unused tag cleared"") }"; "delete(cs.tags, v2)"; "close(v0)"]. Proof. reflexivity. Qed.
Lemma tie_TagDone : body_connState_TagDone = ["cs.tagMu.Lock()"; "defer cs.tagMu.Unlock()"; "v0, v1 := cs.tags[v2]"; "if !v1 { return nil }"; "return v0"]. Proof. reflexivity. Qed.
Lemma tie_handleRequests : body_connState_handleRequests = ["for { if !cs.handleRequest() { return } }"]. Proof. reflexivity. Qed.
Lemma tie_send_writes : send_writes = ["v0.WriteTo(v1)"]. Proof. reflexivity. Qed.

(** the handlers start no goroutine of their own: every backend call made on behalf of a request
    happens inside its handle (what C14's "stopped executing" rests on); the only go statements
    are the receiver hand-off and the accept loop *)
Lemma tie_go_sites : go_sites = ["server.go:connState.handleRequest"; "server.go:Server.ServeContext"; "server.go:Server.ServeContext"]. Proof. reflexivity. Qed.
(** ... no timers, and the only channel sends are the client's completion signals and the message pool *)
Lemma tie_timer_sites : timer_sites = []. Proof. reflexivity. Qed.
Lemma tie_chan_send_sites : chan_send_sites = ["client.go:Client.handleOne"; "client.go:Client.handleOne"; "client.go:Client.waitAndRecv"; "messages.go:registry.put"]. Proof. reflexivity. Qed.

(** the request loop touches only its own connection's state (plus the logger, the message
    registry and the buffer pool): connections share nothing here (Loop/Multi.v) *)
Lemma tie_loop_state : loop_state = ["cs.ClearTag"; "cs.StartTag"; "cs.TagDone"; "cs.frameLimit"; "cs.handle"; "cs.handleRequest"; "cs.handleRequests"; "cs.pendingWg"; "cs.r"; "cs.recvIdle"; "cs.recvMu"; "cs.recvShutdown"; "cs.sendMu"; "cs.server.log"; "cs.t"; "cs.tagMu"; "cs.tags"; "var dataPool"; "var msgDotLRegistry"]. Proof. reflexivity. Qed.

(** which tag / message / reply each call gets: recv binds (tag, message, error); StartTag, ClearTag and both
    sends use that tag; handle gets that message; the second send gets handle's result.  Locals are numbered
    in order of appearance, so this is insensitive to their names. *)
Definition expected_calls : list string := ["v0, v1, v2 := recvFrame(cs.server.log, cs.t, cs.frameLimit, msgDotLRegistry.get)"; "v5 = cs.StartTag(v0)"; "v7.wait = cs.TagDone(v7.OldTag)"; "v8 := send(cs.server.log, cs.r, v0, newErr(v2))"; "v9 := cs.handle(v1)"; "cs.ClearTag(v0)"; "v2 = send(cs.server.log, cs.r, v0, v9)"; "msgDotLRegistry.put(v1)"].
Lemma tie_calls : handleRequest_calls = expected_calls. Proof. reflexivity. Qed.

(** the whole table, as the model was written against it *)
Definition expected_events : list (string * list string * list string) := [
  ("atomic.AddInt32(&cs.recvIdle, 1)", [], []);
  ("recvMu.Lock", [], []);
  ("atomic.AddInt32(&cs.recvIdle, -1)", [], ["recvMu"]);
  ("recvMu.Unlock", ["cs.recvShutdown"], ["recvMu"]);
  ("return", ["cs.recvShutdown"], []);
  ("recv", [], ["recvMu"]);
  ("set-shutdown:true", ["v4, v3 := v2.(ConnError); v3"], ["recvMu"]);
  ("recvMu.Unlock", ["v4, v3 := v2.(ConnError); v3"], ["recvMu"]);
  ("return", ["v4, v3 := v2.(ConnError); v3"], []);
  ("StartTag", ["v2 == nil || v2 == io.EOF"], ["recvMu"]);
  ("set-wait:nil", ["v2 == nil || v2 == io.EOF"; "v7, v6 := v1.(*tflush); v6"], ["recvMu"]);
  ("TagDone", ["v2 == nil || v2 == io.EOF"; "v7, v6 := v1.(*tflush); v6"; "v5 && v7.OldTag != v0"], ["recvMu"]);
  ("set-wait:cs.TagDone(v7.OldTag)", ["v2 == nil || v2 == io.EOF"; "v7, v6 := v1.(*tflush); v6"; "v5 && v7.OldTag != v0"], ["recvMu"]);
  ("spawn", ["atomic.LoadInt32(&cs.recvIdle) == 0"], ["recvMu"]);
  ("recvMu.Unlock", [], ["recvMu"]);
  ("sendMu.Lock", ["v2 != nil && v2 != io.EOF"], []);
  ("send", ["v2 != nil && v2 != io.EOF"], ["sendMu"]);
  ("sendMu.Unlock", ["v2 != nil && v2 != io.EOF"], ["sendMu"]);
  ("return", ["v2 != nil && v2 != io.EOF"], []);
  ("return", ["!v5"], []);
  ("handle", [], []);
  ("ClearTag", [], []);
  ("sendMu.Lock", [], []);
  ("send", [], ["sendMu"]);
  ("sendMu.Unlock", [], ["sendMu"]);
  ("put", [], []);
  ("return", [], [])
].
Lemma tie_events : handleRequest_events = expected_events. Proof. reflexivity. Qed.

(** ---- the short mutexes (fidMu: fid table, tagMu: tag table) ----
    Every request takes them, so nothing that can block may run while one is held (Loop/FidMu.v: with such
    critical sections a request gets the table after at most one step of another goroutine, whatever is blocked
    in the backend; with a backend call inside one - DecRef -> File.Close - every other request of the connection
    waits for the backend).  Semantic comparison: for EVERY function of package p9 that locks fidMu or tagMu, every
    call made while it is held is one of the non-blocking ones below, and no channel operation / select / go
    happens there.  IncRef is one atomic add.  Insensitive to local names, to the order of the functions and to
    new critical sections that keep the rule. *)
Definition nonblocking_call (c : string) : bool := smem c ["_.IncRef"; "make"; "delete"; "close"; "panic"; "len"].
Definition sec_mu (x : string * string * list string) : string := fst (fst x).
Definition sec_fn (x : string * string * list string) : string := snd (fst x).
Definition sec_calls (x : string * string * list string) : list string := snd x.
Definition short_sections_nonblocking : bool := forallb (fun x => forallb nonblocking_call (sec_calls x)) short_sections.
(** the table is not vacuous: the three fid-table operations and the three tag-table operations are in it *)
Definition has_section (mu fn : string) : bool := existsb (fun x => String.eqb (sec_mu x) mu && String.eqb (sec_fn x) fn) short_sections.
Definition short_sections_present : bool :=
  has_section "fidMu" "connState.LookupFID" && has_section "fidMu" "connState.InsertFID" && has_section "fidMu" "connState.DeleteFID" &&
  has_section "tagMu" "connState.StartTag" && has_section "tagMu" "connState.ClearTag" && has_section "tagMu" "connState.TagDone".
Lemma tie_short_sections_nonblocking : short_sections_nonblocking = true. Proof. vm_compute. reflexivity. Qed.
Lemma tie_short_sections_present : short_sections_present = true. Proof. vm_compute. reflexivity. Qed.
Lemma tie_IncRef : body_fidRef_IncRef = ["atomic.AddInt64(&t.refs, 1)"]. Proof. reflexivity. Qed.

(** ---- the reply path ----
    After handle returns, handleRequest does ClearTag, sendMu.Lock, send, sendMu.Unlock, put, return - each exactly
    once and under NO condition: nothing (in particular no flush state) decides whether the reply is sent
    (Loop/Variants.v: v_suppress = false; with a condition there the flushed request's reply can be lost). *)
Fixpoint events_after (p : string * list string * list string -> bool) (evs : list (string * list string * list string)) :=
  match evs with
  | [] => []
  | e :: r => if p e then r else events_after p r
  end.
Definition no_conds (e : string * list string * list string) : bool := match ev_conds e with [] => true | _ => false end.
Definition list_eqb (a b : list string) : bool :=
  Nat.eqb (List.length a) (List.length b) && forallb (fun p => String.eqb (fst p) (snd p)) (combine a b).
Definition reply_path_unconditional : bool :=
  let tl := events_after (is_ev "handle") handleRequest_events in
  list_eqb (map ev_name tl) ["ClearTag"; "sendMu.Lock"; "send"; "sendMu.Unlock"; "put"; "return"] && forallb no_conds tl &&
  forallb (fun e => if is_ev "handle" e then no_conds e else true) handleRequest_events.
Lemma tie_reply_path_unconditional : reply_path_unconditional = true. Proof. vm_compute. reflexivity. Qed.
