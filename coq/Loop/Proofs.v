(** Invariants of the request-loop model (Loop/Model.v) over ALL interleavings:
    every lemma is by induction over [reachable] / case analysis of [exec]. *)
From Coq Require Import NArith List Bool Arith Lia Relations.
From P9V Require Import Loop.Model.
Import ListNotations.

Lemma upd_same {A} (f : nat -> A) i x : upd f i x i = x.
Proof. unfold upd. now rewrite Nat.eqb_refl. Qed.
Lemma upd_other {A} (f : nat -> A) i j x : j <> i -> upd f i x j = f j.
Proof. unfold upd. intros H. destruct (Nat.eqb_spec j i); congruence. Qed.
Lemma updN_same {A} (f : N -> A) t x : updN f t x t = x.
Proof. unfold updN. now rewrite N.eqb_refl. Qed.
Lemma updN_other {A} (f : N -> A) t u x : u <> t -> updN f t x u = f u.
Proof. unfold updN. intros H. destruct (N.eqb_spec u t); congruence. Qed.

Lemma active_not_holding_running p : active p = true -> holding p = false -> running p = true.
Proof. destruct p as [| | |[]|[]| | | | | | | |]; simpl; congruence. Qed.
Lemma running_active p : running p = true -> active p = true.
Proof. destruct p as [| | |[]|[]| | | | | | | |]; simpl; congruence. Qed.
Lemma running_accepted p : running p = true -> accepted p = true.
Proof. unfold accepted. intros ->. reflexivity. Qed.
Lemma cleared_accepted p : cleared p = true -> accepted p = true.
Proof. unfold accepted. intros ->. apply orb_true_r. Qed.

Lemma NoDup_snoc {A} (l : list A) x : NoDup l -> ~ In x l -> NoDup (l ++ [x]).
Proof.
  induction 1 as [|y l Hy Hl IH]; simpl; intros Hx.
  - constructor; [tauto|constructor].
  - constructor.
    + rewrite in_app_iff. simpl. intros [?|[?|[]]]; [tauto|subst; tauto].
    + apply IH. tauto.
Qed.

Section WithInput.
Variable inp : list frame.

Record Inv (s : state) : Prop := {
  I_dom_hi : forall i, nrecv s <= i -> pc s i = RNone;
  I_dom_lo : forall i, i < nrecv s -> exists f, nth_error inp i = Some f /\ wf_pc f (pc s i);
  I_hold : forall i, holding (pc s i) = true -> S i = nrecv s /\ recvmu s = true;
  I_recvmu : recvmu s = true -> exists i, S i = nrecv s /\ holding (pc s i) = true;
  I_tags1 : forall t c, tags s t = Some c -> active (pc s c) = true /\ exists k, nth_error inp c = Some (FReq t k);
  I_tags2 : forall c t k, nth_error inp c = Some (FReq t k) -> active (pc s c) = true -> tags s t = Some c;
  I_closed : forall c, closed s c = true <-> (cleared (pc s c) = true /\ exists t k, nth_error inp c = Some (FReq t k));
  I_cap : forall i b w c, (pc s i = RCaptured b w \/ pc s i = RRun w) -> w = Some c ->
           c < i /\ accepted (pc s c) = true /\
           exists t old k, nth_error inp i = Some (FReq t (KFlush old)) /\ old <> t /\ nth_error inp c = Some (FReq old k);
  I_flush : forall i j t old k, nth_error inp i = Some (FReq t (KFlush old)) -> j < i ->
            nth_error inp j = Some (FReq old k) -> running (pc s j) = true ->
            match pc s i with
            | RCaptured true w | RRun w => old <> t -> w = Some j
            | RRet _ | RClr _ | RSend _ _ | RDone _ | RDoneF _ => False
            | _ => True
            end;
  I_send1 : forall i r k, pc s i = RSend r k -> sendmu s = Some i /\ k <= S (r_extra r);
  I_send2 : forall h, sendmu s = Some h -> exists r k, pc s h = RSend r k;
  I_wire : wire s = flat_map chunks (replies s) ++ torn s ++ partial s;
  I_fail : forall i r, pc s i = RDoneF r -> wbroken s = true;
  I_torn1 : wbroken s = false -> torn s = [];
  I_torn2 : torn s <> [] -> forall i r k, pc s i = RSend r k -> k = 0;
  I_torn3 : torn s = [] \/ exists h r k, pc s h = RDoneF r /\ k <= r_extra r /\ torn s = map (pair h) (seq 0 k);
  I_rep : forall i r, In (i, r) (replies s) <-> pc s i = RDone r;
  I_nodup : NoDup (map fst (replies s));
  I_recvr : shut s = false -> 0 < nnew s + nidle s \/ recvmu s = true;
  I_drop : forall i, (pc s i = RStarted false \/ (exists w, pc s i = RCaptured false w) \/ pc s i = RDropped) ->
           exists j t k k', j < i /\ nth_error inp i = Some (FReq t k) /\ nth_error inp j = Some (FReq t k') /\ accepted (pc s j) = true
}.

Lemma Inv_init : Inv init.
Proof.
  constructor; simpl; intros; try discriminate; try (now auto); try lia.
  - destruct H; discriminate.
  - constructor.
  - destruct H as [H|[[w H]|H]]; discriminate.
Qed.

(** inversion of one [exec] step *)
Ltac inv_exec H :=
  repeat match type of H with
         | match ?x with _ => _ end = Some _ => let E := fresh "E" in destruct x eqn:E; try discriminate H
         | Some _ = Some _ => injection H as H; subst
         end.

Ltac step_cases l H := destruct l; cbn [exec] in H; inv_exec H; cbn [set_pc nrecv shut recvmu nnew nidle pc tags closed sendmu wire replies wbroken torn].

Ltac upd_cases :=
  repeat match goal with
         | |- context [upd _ ?i _ ?j] => destruct (Nat.eq_dec j i); [subst; rewrite !upd_same|rewrite !upd_other by assumption]
         | H : context [upd _ ?i _ ?j] |- _ => destruct (Nat.eq_dec j i); [subst; rewrite !upd_same in H|rewrite !upd_other in H by assumption]
         end.

Lemma lt_recv s i : Inv s -> pc s i <> RNone -> i < nrecv s.
Proof. intros I H. destruct (Nat.lt_ge_cases i (nrecv s)); auto. exfalso. apply H. now apply I. Qed.

Lemma pres_dom_hi s l s' : Inv s -> exec inp l s = Some s' -> forall i, nrecv s' <= i -> pc s' i = RNone.
Proof.
  intros I H. step_cases l H; intros j Hj; upd_cases; try (apply I; lia); try lia;
    exfalso; match goal with Hp : pc s ?x = _, Hl : nrecv s <= ?x |- _ =>
      assert (x < nrecv s) by (apply lt_recv; [assumption|congruence]); lia end.
Qed.

Ltac have_lt x :=
  match goal with
  | _ : x < nrecv _ |- _ => idtac
  | I : Inv ?s, Hp : pc ?s x = _ |- _ => assert (x < nrecv s) by (apply lt_recv; [assumption|congruence])
  end.

Ltac wf_finish :=
  simpl in *;
  repeat match goal with
         | w : option nat |- _ => destruct w
         | b : bool |- _ => destruct b
         | k : kind |- _ => destruct k
         end; simpl in *; try contradiction; try tauto; try congruence.

Lemma pres_dom_lo s l s' : Inv s -> exec inp l s = Some s' ->
  forall i, i < nrecv s' -> exists f, nth_error inp i = Some f /\ wf_pc f (pc s' i).
Proof.
  intros I H. step_cases l H; intros j Hj; upd_cases; try (apply I; assumption || lia);
  try (match goal with
       | Hp : pc s ?x = _ |- exists f, nth_error inp ?x = Some f /\ _ =>
         let f := fresh "f" in let Hf := fresh "Hf" in let Hw := fresh "Hw" in
         have_lt x; destruct (I_dom_lo _ I x) as (f & Hf & Hw); [assumption|];
         rewrite Hp in Hw; exists f; split; [assumption|];
         try (match goal with He : nth_error inp x = Some _ |- _ => rewrite He in Hf; injection Hf as <- end);
         try (destruct f as [|?|? [?|]]); wf_finish
       end);
  eexists; (split; [eassumption|]); wf_finish.
Qed.

Lemma holding_upd_not (f : nat -> rpc) i p j : holding p = false -> holding (upd f i p j) = true -> j <> i /\ holding (f j) = true.
Proof. intros Hp H. unfold upd in H. destruct (Nat.eqb_spec j i); [congruence|auto]. Qed.

Lemma pres_hold s l s' : Inv s -> exec inp l s = Some s' ->
  forall i, holding (pc s' i) = true -> S i = nrecv s' /\ recvmu s' = true.
Proof.
  intros I H. step_cases l H; intros j Hj; upd_cases; simpl in Hj; try discriminate; try (now apply I);
    try (match goal with Hp : pc s ?x = _ |- _ => apply (I_hold _ I x); rewrite Hp; reflexivity end).
  all: try (split; reflexivity).
  all: destruct (I_hold _ I _ Hj) as [Hn Hm]; try congruence.
  all: match goal with Hp : pc ?s0 ?x = _ |- _ =>
         let Hh := fresh in assert (Hh : holding (pc s0 x) = true) by (rewrite Hp; reflexivity);
         destruct (I_hold _ I x Hh); exfalso; lia end.
Qed.

Lemma pres_recvmu s l s' : Inv s -> exec inp l s = Some s' ->
  recvmu s' = true -> exists i, S i = nrecv s' /\ holding (pc s' i) = true.
Proof.
  intros I H. step_cases l H; intros Hm; try discriminate; try (now apply I);
    try (eexists; split; [reflexivity|rewrite upd_same; reflexivity]).
  all: destruct (I_recvmu _ I Hm) as (x & Hx & Hh); exists x; split; [assumption|]; upd_cases; try reflexivity; try assumption.
  all: exfalso; match goal with Hp : pc ?s0 ?x = _, Hh : holding (pc ?s0 ?x) = true |- _ => rewrite Hp in Hh; discriminate end.
Qed.

(** a step never changes whether another request is active; the stepping
    request changes it only in LStart (true) and LClear *)
Ltac old_tags1 I Hc :=
  let Ha := fresh "Ha" in let k := fresh "k" in let Hk := fresh "Hk" in
  destruct (I_tags1 _ I _ _ Hc) as (Ha & k & Hk); split; [|eauto]; upd_cases; try assumption;
  try (match goal with Hp : pc ?s0 ?x = _, Ha : active (pc ?s0 ?x) = true |- _ => rewrite Hp in Ha end);
  simpl in *; try discriminate; try reflexivity.

Lemma pres_tags1 s l s' : Inv s -> exec inp l s = Some s' ->
  forall t c, tags s' t = Some c -> active (pc s' c) = true /\ exists k, nth_error inp c = Some (FReq t k).
Proof.
  intros I H. step_cases l H; intros u c Hc; try (now apply I).
  1-3: old_tags1 I Hc; rewrite (I_dom_hi _ I (nrecv s)) in Ha by lia; discriminate.
  - destruct (tags s t) eqn:Et; simpl in Hc.
    + old_tags1 I Hc.
    + unfold updN in Hc. destruct (N.eqb_spec u t).
      * injection Hc as <-. subst. rewrite upd_same. simpl. eauto.
      * old_tags1 I Hc.
  - old_tags1 I Hc. destruct b; simpl in *; congruence.
  - old_tags1 I Hc.
  - old_tags1 I Hc.
  - old_tags1 I Hc.
  - old_tags1 I Hc.
  - old_tags1 I Hc.
  - old_tags1 I Hc.
  - old_tags1 I Hc.
  - unfold updN in Hc. destruct (N.eqb_spec u t); [discriminate|]. old_tags1 I Hc.
    exfalso. rewrite E0 in Hk. injection Hk as -> _. congruence.
  - old_tags1 I Hc.
  - old_tags1 I Hc.
  - old_tags1 I Hc.
  - old_tags1 I Hc.
Qed.

Ltac old_tags2 I Hf Ha :=
  apply (I_tags2 _ I _ _ _ Hf); upd_cases; try assumption;
  try (match goal with Hp : pc ?s0 ?x = _ |- active (pc ?s0 ?x) = true => rewrite Hp end);
  simpl in *; try discriminate; try reflexivity.

Lemma pres_tags2 s l s' : Inv s -> exec inp l s = Some s' ->
  forall c t k, nth_error inp c = Some (FReq t k) -> active (pc s' c) = true -> tags s' t = Some c.
Proof.
  intros I H. step_cases l H; intros c u ku Hf Ha; try (now apply (I_tags2 _ I _ _ _ Hf)).
  1-3: old_tags2 I Hf Ha.
  - destruct (tags s t) eqn:Et; simpl in *.
    + old_tags2 I Hf Ha.
    + upd_cases.
      * rewrite E0 in Hf. injection Hf as <- <-. now rewrite updN_same.
      * assert (Hu := I_tags2 _ I _ _ _ Hf Ha). rewrite updN_other; [assumption|congruence].
  - old_tags2 I Hf Ha. destruct b; simpl in *; congruence.
  - old_tags2 I Hf Ha.
  - old_tags2 I Hf Ha.
  - old_tags2 I Hf Ha.
  - old_tags2 I Hf Ha.
  - old_tags2 I Hf Ha.
  - old_tags2 I Hf Ha.
  - old_tags2 I Hf Ha.
  - upd_cases; [discriminate|].
    assert (Hu := I_tags2 _ I _ _ _ Hf Ha).
    assert (Hi : tags s t = Some i) by (apply (I_tags2 _ I _ _ _ E0); rewrite E; reflexivity).
    rewrite updN_other; [assumption|]. intros ->. congruence.
  - old_tags2 I Hf Ha.
  - old_tags2 I Hf Ha.
  - old_tags2 I Hf Ha.
  - old_tags2 I Hf Ha.
Qed.

Lemma pres_closed s l s' : Inv s -> exec inp l s = Some s' ->
  forall c, closed s' c = true <-> (cleared (pc s' c) = true /\ exists t k, nth_error inp c = Some (FReq t k)).
Proof.
  intros I H. step_cases l H; intros c; try (now apply I).
  all: try (rewrite (I_closed _ I c); upd_cases; try tauto;
            try (match goal with Hp : pc ?s0 ?x = _ |- context [pc ?s0 ?x] => rewrite Hp end);
            simpl; try tauto).
  1-3: rewrite (I_dom_hi _ I (nrecv s)) by lia; simpl; tauto.
  - split; [intros [? _]; discriminate|]. intros [_ (t0 & k & Hf)]. congruence.
  - assert (Hi : tags s t = Some i) by (apply (I_tags2 _ I _ _ _ E0); rewrite E; reflexivity).
    assert (n = i) by congruence. subst n.
    upd_cases.
    + simpl. split; [eauto|reflexivity].
    + apply I.
Qed.

Ltac mono_tac I H l :=
  step_cases l H; intros c Hc; upd_cases; try assumption;
  try (match goal with Hp : pc ?s0 ?x = _, Hc : _ (pc ?s0 ?x) = true |- _ => rewrite Hp in Hc end);
  simpl in *; try discriminate; try reflexivity;
  try (rewrite (I_dom_hi _ I) in Hc by lia; discriminate).

Lemma mono_accepted s l s' : Inv s -> exec inp l s = Some s' -> forall c, accepted (pc s c) = true -> accepted (pc s' c) = true.
Proof. intros I H. mono_tac I H l. Qed.
Lemma mono_cleared s l s' : Inv s -> exec inp l s = Some s' -> forall c, cleared (pc s c) = true -> cleared (pc s' c) = true.
Proof. intros I H. mono_tac I H l. Qed.
Lemma mono_returned s l s' : Inv s -> exec inp l s = Some s' -> forall c, returned (pc s c) = true -> returned (pc s' c) = true.
Proof. intros I H. mono_tac I H l. Qed.

Ltac upd_in H :=
  repeat match type of H with
         | context [upd _ ?i _ ?j] => destruct (Nat.eq_dec j i); [subst; rewrite !upd_same in H|rewrite !upd_other in H by assumption]
         end.

Lemma pres_cap s l s' : Inv s -> exec inp l s = Some s' ->
  forall i b w c, (pc s' i = RCaptured b w \/ pc s' i = RRun w) -> w = Some c ->
    c < i /\ accepted (pc s' c) = true /\
    exists t old k, nth_error inp i = Some (FReq t (KFlush old)) /\ old <> t /\ nth_error inp c = Some (FReq old k).
Proof.
  intros I H. assert (Hm := mono_accepted _ _ _ I H).
  step_cases l H; intros j b0 w0 c Hp Hw; cbn [pc set_pc] in Hm; upd_in Hp;
  try (destruct (I_cap _ I _ _ _ _ Hp Hw) as (H1 & H2 & H3); (split; [exact H1|split; [apply Hm; exact H2|exact H3]]); fail);
  try (destruct Hp; discriminate).
  - destruct Hp as [Hp|Hp]; [|discriminate]. injection Hp as <- Hp.
    destruct k as [old|]; [|discriminate].
    destruct b; simpl in Hp; [|discriminate].
    destruct (N.eqb_spec old t) as [|Hne]; simpl in Hp; [discriminate|].
    destruct (I_tags1 _ I _ _ Hp) as (Ha & k' & Hk').
    assert (Hh : holding (pc s i) = true) by (rewrite E; reflexivity).
    destruct (I_hold _ I _ Hh) as [Hn _].
    assert (Hci : c <> i) by (intros ->; congruence).
    assert (Hc : c < nrecv s) by (apply lt_recv; [assumption|]; intros Hx; rewrite Hx in Ha; discriminate).
    assert (Hnh : holding (pc s c) = false).
    { destruct (holding (pc s c)) eqn:Hx; [|reflexivity]. destruct (I_hold _ I _ Hx). exfalso. lia. }
    split; [lia|]. split.
    + apply Hm. apply running_accepted. now apply active_not_holding_running.
    + exists t, old, k'. auto.
  - assert (w = Some c) by (destruct Hp as [Hp|Hp]; [discriminate|now injection Hp]). subst w.
    destruct (I_cap _ I i true (Some c) c (or_introl E) eq_refl) as (H1 & H2 & H3).
    split; [exact H1|split; [apply Hm; exact H2|exact H3]].
Qed.

Lemma running_not_cleared p : running p = true -> cleared p = true -> False.
Proof. destruct p; simpl; congruence. Qed.

Definition flush_ok (s : state) (i j : nat) (t old : N) : Prop :=
  match pc s i with
  | RCaptured true w | RRun w => old <> t -> w = Some j
  | RRet _ | RClr _ | RSend _ _ | RDone _ | RDoneF _ => False
  | _ => True
  end.

Lemma pres_flush s l s' : Inv s -> exec inp l s = Some s' ->
  forall i j t old k, nth_error inp i = Some (FReq t (KFlush old)) -> j < i ->
    nth_error inp j = Some (FReq old k) -> running (pc s' j) = true -> flush_ok s' i j t old.
Proof.
  intros I H.
  assert (Hold : forall i j t old k, nth_error inp i = Some (FReq t (KFlush old)) -> j < i ->
    nth_error inp j = Some (FReq old k) -> running (pc s j) = true -> flush_ok s i j t old) by (apply I).
  unfold flush_ok in *.
  step_cases l H; intros i0 j u old0 ko Hfi Hlt Hfj Hr; try (now apply (Hold _ _ _ _ _ Hfi Hlt Hfj Hr)); upd_in Hr;
  try discriminate.
  all: try (match goal with Hp : pc ?s0 ?x = _ , Hl : ?x < ?y |- context [upd _ ?x _ ?y] =>
              rewrite upd_other by lia;
              try (apply (Hold _ _ _ _ _ Hfi Hlt Hfj); rewrite Hp; reflexivity) end).
  all: try (assert (Ho := Hold _ _ _ _ _ Hfi Hlt Hfj Hr); upd_cases; try exact Ho;
            try (match goal with Hp : pc ?s0 ?x = _ , Ho : context [pc ?s0 ?x] |- _ => rewrite Hp in Ho end);
            simpl in *; try exact Ho; try contradiction; try exact Logic.I; try congruence).
  - rewrite E0 in Hfi. injection Hfi as -> ->. destruct b; [|exact Logic.I]. intros Hne. simpl.
    destruct (N.eqb_spec old0 u); [contradiction|]. simpl.
    apply (I_tags2 _ I _ _ _ Hfj). now apply running_active.
  - assert (Hh : holding (pc s i) = true) by (rewrite E; reflexivity). destruct (I_hold _ I _ Hh) as [Hn _].
    rewrite (I_dom_hi _ I i0) by lia. exact Logic.I.
  - exfalso. have_lt i. destruct (I_dom_lo _ I i) as (f & Hf & Hw); [assumption|].
    rewrite Hfi in Hf. injection Hf as <-. rewrite E in Hw. exact Hw.
  - rewrite E0 in Hfi. injection Hfi as -> ->.
    destruct (N.eq_dec old0 u) as [->|Hne].
    + assert (tags s u = Some i) by (apply (I_tags2 _ I _ _ _ E0); rewrite E; reflexivity).
      assert (tags s u = Some j) by (apply (I_tags2 _ I _ _ _ Hfj); now apply running_active).
      assert (i = j) by congruence. lia.
    + rewrite (Ho Hne) in E3. apply (running_not_cleared _ Hr). now apply (I_closed _ I j).
Qed.

Lemma pres_send1 s l s' : Inv s -> exec inp l s = Some s' ->
  forall i r k, pc s' i = RSend r k -> sendmu s' = Some i /\ k <= S (r_extra r).
Proof.
  intros I H. step_cases l H; intros j r0 k0 Hp; upd_in Hp; try discriminate; try (now apply (I_send1 _ I _ _ _ Hp)).
  - injection Hp as <- <-. split; [reflexivity|lia].
  - destruct (I_send1 _ I _ _ _ Hp). congruence.
  - injection Hp as <- <-. destruct (I_send1 _ I _ _ _ E). apply andb_prop in E0. destruct E0 as [E0 _]. apply Nat.leb_le in E0. split; [assumption|lia].
  - destruct (I_send1 _ I _ _ _ Hp). destruct (I_send1 _ I _ _ _ E). congruence.
  - destruct (I_send1 _ I _ _ _ Hp). destruct (I_send1 _ I _ _ _ E). congruence.
Qed.

Lemma pres_send2 s l s' : Inv s -> exec inp l s = Some s' ->
  forall h, sendmu s' = Some h -> exists r k, pc s' h = RSend r k.
Proof.
  intros I H. step_cases l H; intros h Hh; try discriminate; try (now apply (I_send2 _ I _ Hh)).
  all: try (injection Hh as <-; rewrite upd_same; eauto; fail).
  all: destruct (I_send2 _ I _ Hh) as (r0 & k0 & Hp); upd_cases; eauto; try congruence.
  all: rewrite (I_dom_hi _ I (nrecv s)) in Hp by lia; discriminate.
Qed.

Lemma partial_same s s' :
  sendmu s' = sendmu s -> (forall h, sendmu s = Some h -> pc s' h = pc s h) -> partial s' = partial s.
Proof.
  intros Hm Hp. unfold partial. rewrite Hm. destruct (sendmu s) as [h|]; [|reflexivity]. now rewrite Hp.
Qed.

Lemma pres_wire s l s' : Inv s -> exec inp l s = Some s' -> wire s' = flat_map chunks (replies s') ++ torn s' ++ partial s'.
Proof.
  intros I H. assert (Hw := I_wire _ I).
  step_cases l H; try exact Hw;
  try (match goal with |- wire s = flat_map chunks (replies s) ++ torn s ++ partial ?s1 =>
         replace (partial s1) with (partial s); [exact Hw|symmetry; apply partial_same; [reflexivity|];
         cbn [set_pc pc sendmu]; intros h Hh; destruct (I_send2 _ I _ Hh) as (r0 & k0 & Hp); upd_cases; try reflexivity; try congruence;
         rewrite (I_dom_hi _ I (nrecv s)) in Hp by lia; discriminate] end).
  - unfold partial. cbn [sendmu pc]. rewrite upd_same. simpl. rewrite Hw. unfold partial. now rewrite E0.
  - destruct (I_send1 _ I _ _ _ E) as [Hs _]. unfold partial. cbn [sendmu pc]. rewrite Hs, upd_same.
    rewrite Hw. unfold partial. rewrite Hs, E. rewrite seq_S, map_app, !app_assoc. reflexivity.
  - destruct (I_send1 _ I _ _ _ E) as [Hs _]. apply Nat.eqb_eq in E0. subst k.
    unfold partial at 1. cbn [sendmu]. rewrite flat_map_app, app_nil_r. cbn [flat_map]. rewrite app_nil_r.
    assert (Ht : torn s = []).
    { destruct (torn s) as [|x t] eqn:Et; [reflexivity|]. exfalso.
      assert (Hne : torn s <> []) by (rewrite Et; discriminate).
      specialize (I_torn2 _ I Hne _ _ _ E). discriminate. }
    rewrite Hw. unfold partial. rewrite Hs, E, Ht. cbn [app]. now rewrite app_nil_r.
  - destruct (I_send1 _ I _ _ _ E) as [Hs _].
    unfold partial at 1. cbn [sendmu]. rewrite app_nil_r. rewrite Hw. unfold partial. rewrite Hs, E. reflexivity.
Qed.

Lemma pres_fail s l s' : Inv s -> exec inp l s = Some s' -> forall i r, pc s' i = RDoneF r -> wbroken s' = true.
Proof.
  intros I H. assert (Hw := I_fail _ I).
  step_cases l H; intros j r0 Hp; upd_in Hp; try discriminate; try (now apply (Hw _ _ Hp)); try reflexivity.
  apply andb_prop in E0. now destruct E0.
Qed.

Lemma pres_torn1 s l s' : Inv s -> exec inp l s = Some s' -> wbroken s' = false -> torn s' = [].
Proof.
  intros I H. assert (Hw := I_torn1 _ I). step_cases l H; try exact Hw; try discriminate.
  apply andb_prop in E0. destruct E0 as [_ E0]. intros Hb. congruence.
Qed.

Lemma pres_torn2 s l s' : Inv s -> exec inp l s = Some s' -> torn s' <> [] -> forall i r k, pc s' i = RSend r k -> k = 0.
Proof.
  intros I H. assert (Hw := I_torn2 _ I).
  step_cases l H; intros Ht j r0 k0 Hp; upd_in Hp; try discriminate; try (now apply (Hw Ht _ _ _ Hp)).
  - now injection Hp as _ <-.
  - exfalso. apply andb_prop in E0. destruct E0 as [_ E0]. apply Ht. apply (I_torn1 _ I).
    destruct (wbroken s); [discriminate|reflexivity].
  - exfalso. destruct (I_send1 _ I _ _ _ Hp). destruct (I_send1 _ I _ _ _ E). congruence.
Qed.

Lemma pres_torn3 s l s' : Inv s -> exec inp l s = Some s' ->
  torn s' = [] \/ exists h r k, pc s' h = RDoneF r /\ k <= r_extra r /\ torn s' = map (pair h) (seq 0 k).
Proof.
  intros I H. assert (Hw := I_torn3 _ I).
  step_cases l H; try exact Hw;
  try (destruct Hw as [Hw|(h & r0 & k0 & Hh & Hk & Ht)]; [now left|right; exists h, r0, k0; split; [|split; assumption]];
       upd_cases; try assumption; try congruence; rewrite (I_dom_hi _ I (nrecv s)) in Hh by lia; discriminate).
  apply andb_prop in E0. destruct E0 as [E0 _]. apply Nat.leb_le in E0.
  destruct (torn s) as [|x t] eqn:Et.
  - right. exists i, r, k. rewrite upd_same. auto.
  - assert (Hne : torn s <> []) by (rewrite Et; discriminate).
    assert (k = 0) by exact (I_torn2 _ I Hne _ _ _ E). subst k. cbn [seq map]. rewrite app_nil_r.
    destruct Hw as [Hw|(h & r0 & k0 & Hh & Hk & Ht)]; [discriminate|].
    right. exists h, r0, k0. split; [|auto]. rewrite upd_other; [assumption|]. intros ->. congruence.
Qed.


Lemma pres_rep s l s' : Inv s -> exec inp l s = Some s' -> forall i r, In (i, r) (replies s') <-> pc s' i = RDone r.
Proof.
  intros I H. step_cases l H; intros j r0; try (now apply I).
  all: try (rewrite (I_rep _ I); upd_cases; try tauto;
            try (match goal with Hp : pc ?s0 ?x = _ |- context [pc ?s0 ?x] => rewrite Hp end);
            try (rewrite (I_dom_hi _ I (nrecv s)) by lia);
            (split; intros; discriminate)).
  rewrite in_app_iff, (I_rep _ I). simpl. upd_cases.
  - rewrite E. split.
    + intros [Hx|[Hx|[]]]; [discriminate|]. now injection Hx as <-.
    + intros Hx. injection Hx as <-. auto.
  - split; [intros [Hx|[Hx|[]]]; [assumption|]|auto]. injection Hx as -> _. congruence.
Qed.

Lemma pres_nodup s l s' : Inv s -> exec inp l s = Some s' -> NoDup (map fst (replies s')).
Proof.
  intros I H. assert (Hn := I_nodup _ I). step_cases l H; try exact Hn.
  rewrite map_app. simpl. apply NoDup_snoc; [exact Hn|].
  rewrite in_map_iff. intros ([j r0] & Hj & Hin). simpl in Hj. subst j.
  apply (I_rep _ I) in Hin. congruence.
Qed.

Lemma pres_recvr s l s' : Inv s -> exec inp l s = Some s' -> shut s' = false -> 0 < nnew s' + nidle s' \/ recvmu s' = true.
Proof.
  intros I H. assert (Hr := I_recvr _ I). step_cases l H; intros Hs; try (now apply Hr); try discriminate; try (now right).
  all: try (destruct (Hr Hs) as [?|?]; [left; lia|now right]).
  all: try (left; destruct (nidle s); simpl; lia).
Qed.

Definition dropping (p : rpc) : Prop := p = RStarted false \/ (exists w, p = RCaptured false w) \/ p = RDropped.

Lemma pres_drop s l s' : Inv s -> exec inp l s = Some s' ->
  forall i, dropping (pc s' i) ->
    exists j t k k', j < i /\ nth_error inp i = Some (FReq t k) /\ nth_error inp j = Some (FReq t k') /\ accepted (pc s' j) = true.
Proof.
  intros I H. assert (Hm := mono_accepted _ _ _ I H).
  assert (Hold : forall i, dropping (pc s i) -> exists j t k k', j < i /\ nth_error inp i = Some (FReq t k) /\ nth_error inp j = Some (FReq t k') /\ accepted (pc s' j) = true).
  { intros i Hd. destruct (I_drop _ I i Hd) as (j & t & k & k' & H1 & H2 & H3 & H4). exists j, t, k, k'. auto. }
  clear Hm. unfold dropping in *.
  step_cases l H; intros j Hd; try (now apply Hold); upd_in Hd; try (now apply Hold);
    try (exfalso; destruct Hd as [Hd|[[w' Hd]|Hd]]; discriminate).
  - destruct (tags s t) as [c|] eqn:Et; simpl in Hd; [|exfalso; destruct Hd as [Hd|[[w' Hd]|Hd]]; discriminate].
    destruct (I_tags1 _ I _ _ Et) as (Ha & k' & Hk').
    assert (Hh : holding (pc s i) = true) by (rewrite E; reflexivity).
    destruct (I_hold _ I _ Hh) as [Hn _].
    assert (Hci : c <> i) by (intros ->; rewrite E in Ha; discriminate).
    assert (Hc : c < nrecv s) by (apply lt_recv; [assumption|]; intros Hx; rewrite Hx in Ha; discriminate).
    assert (Hnh : holding (pc s c) = false).
    { destruct (holding (pc s c)) eqn:Hx; [|reflexivity]. destruct (I_hold _ I _ Hx). exfalso. lia. }
    exists c, t, k, k'. repeat split; auto; [lia|]. rewrite upd_other by assumption.
    apply running_accepted. now apply active_not_holding_running.
  - apply Hold. left. destruct Hd as [Hd|[[w' Hd]|Hd]]; try discriminate. injection Hd as -> _. exact E.
  - apply Hold. right. left. eauto.
Qed.

Lemma Inv_step s l s' : Inv s -> exec inp l s = Some s' -> Inv s'.
Proof.
  intros I H. constructor.
  - eapply pres_dom_hi; eauto.
  - eapply pres_dom_lo; eauto.
  - eapply pres_hold; eauto.
  - eapply pres_recvmu; eauto.
  - eapply pres_tags1; eauto.
  - eapply pres_tags2; eauto.
  - eapply pres_closed; eauto.
  - eapply pres_cap; eauto.
  - intros. eapply pres_flush; eauto.
  - eapply pres_send1; eauto.
  - eapply pres_send2; eauto.
  - eapply pres_wire; eauto.
  - eapply pres_fail; eauto.
  - eapply pres_torn1; eauto.
  - eapply pres_torn2; eauto.
  - eapply pres_torn3; eauto.
  - eapply pres_rep; eauto.
  - eapply pres_nodup; eauto.
  - eapply pres_recvr; eauto.
  - eapply pres_drop; eauto.
Qed.

Lemma reachable_Inv s : reachable inp s -> Inv s.
Proof. induction 1; [apply Inv_init|eapply Inv_step; eauto]. Qed.

Lemma steps_Inv s s' : Inv s -> steps inp s s' -> Inv s'.
Proof.
  intros I Hs. induction Hs as [|s l s' s'' Hs IH He]; [assumption|].
  eapply Inv_step; [apply IH; assumption|exact He].
Qed.

Lemma reachable_steps s s' : reachable inp s -> steps inp s s' -> reachable inp s'.
Proof.
  intros R Hs. induction Hs as [|s l s' s'' Hs IH He]; [assumption|].
  eapply reach_step; [apply IH; assumption|exact He].
Qed.


(** * Consequences *)

Lemma not_holding_before s i j : Inv s -> j < i -> i < nrecv s -> holding (pc s j) = false.
Proof.
  intros I Hj Hi. destruct (holding (pc s j)) eqn:Hh; [|reflexivity].
  destruct (I_hold _ I _ Hh). exfalso. lia.
Qed.

Definition reply_ok (f : frame) (r : reply) : Prop :=
  match f with
  | FConn => False
  | FReject _ => r_kind r = RErr
  | FReq _ (KFlush _) => r = rflush_reply
  | FReq _ KOp => r_kind r = RMatch \/ r_kind r = RErr
  end.

Lemma done_reply_ok s i r : Inv s -> pc s i = RDone r -> exists f, nth_error inp i = Some f /\ reply_ok f r.
Proof.
  intros I H. have_lt i. destruct (I_dom_lo _ I i) as (f & Hf & Hw); [assumption|].
  exists f. split; [assumption|]. rewrite H in Hw. destruct f as [|t|t [old|]]; simpl in *; auto.
  destruct (r_kind r); auto.
Qed.

Lemma stable_pc s l s' i :
  Inv s -> exec inp l s = Some s' -> final (pc s i) = true -> pc s i <> RNone -> pc s' i = pc s i.
Proof.
  intros I H Hf Hn. step_cases l H; upd_cases; try reflexivity;
    try (exfalso; match goal with Hp : pc ?s0 ?x = _ |- _ => rewrite Hp in Hf; simpl in Hf; congruence end).
  all: exfalso; apply Hn; apply I; lia.
Qed.

Lemma stable_pc_steps s s' i :
  Inv s -> steps inp s s' -> final (pc s i) = true -> pc s i <> RNone -> pc s' i = pc s i.
Proof.
  intros I Hs Hf Hn. induction Hs as [|s l s' s'' Hs IH He]; [reflexivity|].
  rewrite <- IH by assumption. eapply stable_pc; [eapply steps_Inv; eauto|exact He| |]; rewrite IH; assumption.
Qed.

Lemma mono_steps (P : rpc -> bool) :
  (forall s l s', Inv s -> exec inp l s = Some s' -> forall c, P (pc s c) = true -> P (pc s' c) = true) ->
  forall s s', Inv s -> steps inp s s' -> forall c, P (pc s c) = true -> P (pc s' c) = true.
Proof.
  intros HP s s' I Hs c Hc. induction Hs as [|s l s' s'' Hs IH He]; [assumption|].
  eapply HP; [eapply steps_Inv; eauto|exact He|]. apply IH; assumption.
Qed.

(** contiguity *)
Lemma firstn_chunks h r k : k <= S (r_extra r) -> firstn k (chunks (h, r)) = map (pair h) (seq 0 k).
Proof.
  intros Hk. unfold chunks. simpl fst. simpl snd. rewrite firstn_map. f_equal.
  generalize 0. revert Hk. generalize (S (r_extra r)). intros n. revert k.
  induction n; intros k Hk a.
  - now replace k with 0 by lia.
  - destruct k; [reflexivity|]. simpl. f_equal. apply IHn. lia.
Qed.

Lemma wire_frames s : Inv s ->
  exists pre, wire s = flat_map chunks (replies s) ++ pre /\
    (pre = [] \/ exists h r k, ((sendmu s = Some h /\ pc s h = RSend r k) \/ pc s h = RDoneF r) /\
                               k <= S (r_extra r) /\ pre = firstn k (chunks (h, r))).
Proof.
  intros I. exists (torn s ++ partial s). split; [apply I|].
  destruct (torn s) as [|x t] eqn:Et.
  - cbn [app]. unfold partial. destruct (sendmu s) as [h|] eqn:Hs; [|now left].
    destruct (I_send2 _ I _ Hs) as (r & k & Hp). rewrite Hp. right. exists h, r, k.
    destruct (I_send1 _ I _ _ _ Hp) as [_ Hk]. split; [left; auto|]. split; [assumption|]. now rewrite firstn_chunks.
  - assert (Hne : torn s <> []) by (rewrite Et; discriminate).
    assert (Hp0 : partial s = []).
    { unfold partial. destruct (sendmu s) as [h|] eqn:Hs; [|reflexivity].
      destruct (I_send2 _ I _ Hs) as (r & k & Hp). rewrite Hp. now rewrite (I_torn2 _ I Hne _ _ _ Hp). }
    rewrite Hp0, app_nil_r. destruct (I_torn3 _ I) as [Ht|(h & r & k & Hh & Hk & Ht)]; [congruence|].
    right. exists h, r, k. split; [now right|]. split; [lia|]. rewrite <- Et, Ht. rewrite firstn_chunks by lia. reflexivity.
Qed.

(** counting *)
Definition count_pc (P : rpc -> bool) (s : state) : nat :=
  length (filter (fun i => P (pc s i)) (seq 0 (nrecv s))).
Definition is_done (p : rpc) : bool := match p with RDone _ => true | _ => false end.
Definition is_dropped (p : rpc) : bool := match p with RDropped => true | _ => false end.
Definition is_conn (p : rpc) : bool := match p with RConn => true | _ => false end.

Lemma replies_count s : Inv s -> length (replies s) = count_pc is_done s.
Proof.
  intros I. unfold count_pc. rewrite <- (map_length fst).
  apply Nat.le_antisymm; apply NoDup_incl_length.
  - apply I.
  - intros i Hi. apply in_map_iff in Hi. destruct Hi as ([j r] & <- & Hin). simpl.
    apply (I_rep _ I) in Hin. apply filter_In. split.
    + apply in_seq. assert (j < nrecv s) by (apply lt_recv; [assumption|congruence]). lia.
    + now rewrite Hin.
  - apply NoDup_filter, seq_NoDup.
  - intros i Hi. apply filter_In in Hi. destruct Hi as [_ Hd].
    destruct (pc s i) as [| | | | | | | | | | |r|] eqn:Hp; try discriminate.
    apply in_map_iff. exists (i, r). split; [reflexivity|]. now apply (I_rep _ I).
Qed.

Definition is_failed (p : rpc) : bool := match p with RDoneF _ => true | _ => false end.
(** received frames that get no reply frame: dropped (tag in flight), the connection error itself, send failed *)
Definition is_unanswered (p : rpc) : bool := is_dropped p || is_conn p || is_failed p.

Lemma filter2_length {A} (p q : A -> bool) l :
  (forall x, In x l -> p x = negb (q x)) -> length (filter p l) + length (filter q l) = length l.
Proof.
  induction l as [|x l IH]; simpl; intros H; [reflexivity|].
  assert (IH' := IH (fun y Hy => H y (or_intror Hy))).
  rewrite (H x (or_introl eq_refl)). destruct (q x); simpl; lia.
Qed.

Lemma quiescent_count s : Inv s -> (forall i, final (pc s i) = true) ->
  length (replies s) + count_pc is_unanswered s = nrecv s.
Proof.
  intros I Hq. rewrite replies_count by assumption. unfold count_pc.
  rewrite filter2_length; [apply seq_length|].
  intros i Hi. apply in_seq in Hi. assert (Hf := Hq i).
  destruct (pc s i) eqn:Hp; simpl in *; try discriminate; auto.
  exfalso. destruct (I_dom_lo _ I i) as (f & _ & Hw); [lia|]. rewrite Hp in Hw. destruct f as [|?|? []]; exact Hw.
Qed.

(** with a writer that never failed nothing is in RDoneF *)
Lemma no_failed_unbroken s : Inv s -> wbroken s = false -> forall i r, pc s i <> RDoneF r.
Proof. intros I Hb i r Hp. rewrite (I_fail _ I _ _ Hp) in Hb. discriminate. Qed.

Lemma filter3_length {A} (p q r : A -> bool) l :
  (forall x, In x l -> (p x = true /\ q x = false /\ r x = false) \/ (p x = false /\ q x = true /\ r x = false) \/ (p x = false /\ q x = false /\ r x = true)) ->
  length (filter p l) + length (filter q l) + length (filter r l) = length l.
Proof.
  induction l as [|x l IH]; simpl; intros H; [reflexivity|].
  assert (IH' := IH (fun y Hy => H y (or_intror Hy))).
  destruct (H x (or_introl eq_refl)) as [(->&->&->)|[(->&->&->)|(->&->&->)]]; simpl; lia.
Qed.

Lemma quiescent_count_unbroken s : Inv s -> wbroken s = false -> (forall i, final (pc s i) = true) ->
  length (replies s) + count_pc is_dropped s + count_pc is_conn s = nrecv s.
Proof.
  intros I Hb Hq. rewrite replies_count by assumption. unfold count_pc.
  rewrite filter3_length; [apply seq_length|].
  intros i Hi. apply in_seq in Hi. assert (Hf := Hq i).
  destruct (pc s i) eqn:Hp; simpl in *; try discriminate; auto.
  - exfalso. destruct (I_dom_lo _ I i) as (f & _ & Hw); [lia|]. rewrite Hp in Hw. destruct f as [|?|? []]; exact Hw.
  - exfalso. eapply no_failed_unbroken; eauto.
Qed.

(** * Flush ordering *)

Lemma flush_after_done s i j t old k :
  Inv s -> nth_error inp i = Some (FReq t (KFlush old)) -> j < i -> nth_error inp j = Some (FReq old k) ->
  returned (pc s i) = true -> running (pc s j) = false.
Proof.
  intros I Hfi Hlt Hfj Hr. destruct (running (pc s j)) eqn:Hj; [|reflexivity].
  assert (Hx := I_flush _ I _ _ _ _ _ Hfi Hlt Hfj Hj).
  destruct (pc s i); simpl in Hr; try discriminate; contradiction.
Qed.

Lemma accepted_split p : accepted p = true -> running p = false -> cleared p = true.
Proof. unfold accepted. intros H Hr. rewrite Hr in H. exact H. Qed.

Lemma flush_after_done_steps s1 s2 i j t old k :
  Inv s1 -> steps inp s1 s2 ->
  nth_error inp i = Some (FReq t (KFlush old)) -> j < i -> nth_error inp j = Some (FReq old k) ->
  accepted (pc s1 j) = true -> returned (pc s2 i) = true ->
  cleared (pc s2 j) = true /\ forall s3, steps inp s2 s3 -> cleared (pc s3 j) = true /\ pc s3 j <> RBack /\ (forall w, pc s3 j <> RRun w).
Proof.
  intros I1 Hs Hfi Hlt Hfj Ha Hr.
  assert (I2 : Inv s2) by (eapply steps_Inv; eauto).
  assert (Hc : cleared (pc s2 j) = true).
  { apply accepted_split.
    - exact (mono_steps accepted mono_accepted s1 s2 I1 Hs j Ha).
    - eapply flush_after_done; eauto. }
  split; [assumption|]. intros s3 H3.
  assert (Hc3 : cleared (pc s3 j) = true) by exact (mono_steps cleared mono_cleared s2 s3 I2 H3 j Hc).
  split; [assumption|]. split; [|intros w]; intros Hx; rewrite Hx in Hc3; discriminate.
Qed.

Lemma flush_at_once s i w t old :
  Inv s -> pc s i = RRun w -> nth_error inp i = Some (FReq t (KFlush old)) ->
  (old = t \/ forall j k, j < i -> nth_error inp j = Some (FReq old k) -> running (pc s j) = false) ->
  exists s', exec inp (LPass i) s = Some s'.
Proof.
  intros I Hp Hf Hc. cbn [exec]. rewrite Hp, Hf. destruct w as [c|]; [|eauto].
  destruct (I_cap _ I i true (Some c) c (or_intror Hp) eq_refl) as (Hlt & Ha & t' & old' & k' & Hf' & Hne & Hfc).
  rewrite Hf in Hf'. injection Hf' as <- <-.
  destruct Hc as [->|Hc]; [congruence|].
  assert (Hcl : closed s c = true).
  { apply (I_closed _ I). split; [|eauto]. apply accepted_split; [assumption|]. eapply Hc; eauto. }
  rewrite Hcl. eauto.
Qed.

Lemma waits_for_lt s i c : Inv s -> waits_for s i c -> c < i.
Proof. intros I [Hp _]. now destruct (I_cap _ I i true (Some c) c (or_intror Hp) eq_refl). Qed.

Lemma waits_acyclic s i : Inv s -> ~ clos_trans nat (waits_for s) i i.
Proof.
  intros I H. assert (Hlt : forall a b, clos_trans nat (waits_for s) a b -> b < a).
  { induction 1 as [a b Hw|a b c _ IH1 _ IH2]; [eapply waits_for_lt; eauto|lia]. }
  specialize (Hlt _ _ H). lia.
Qed.

(** * Progress *)

Lemma send_holder_moves s h r k : Inv s -> pc s h = RSend r k ->
  exists l s', progress_label l = true /\ exec inp l s = Some s'.
Proof.
  intros I Hp. destruct (I_send1 _ I _ _ _ Hp) as [_ Hk].
  destruct (Nat.eqb k (S (r_extra r))) eqn:He.
  - exists (LUnlock h). eexists. split; [reflexivity|]. cbn [exec]. rewrite Hp, He. reflexivity.
  - apply Nat.eqb_neq in He. assert (Hl : Nat.leb k (r_extra r) = true) by (apply Nat.leb_le; lia).
    destruct (wbroken s) eqn:Hb.
    + exists (LSendFail h). eexists. split; [reflexivity|]. cbn [exec]. rewrite Hp, Hl, Hb. reflexivity.
    + exists (LChunk h). eexists. split; [reflexivity|]. cbn [exec]. rewrite Hp, Hl, Hb. reflexivity.
Qed.

Lemma progress_at s : Inv s -> forall i, final (pc s i) = false -> ~ waits_back s i ->
  exists l s', progress_label l = true /\ exec inp l s = Some s'.
Proof.
  intros I i. induction i as [i IH] using lt_wf_ind. intros Hnf Hnw.
  assert (Hlt : i < nrecv s) by (apply lt_recv; [assumption|]; intros Hx; rewrite Hx in Hnf; discriminate).
  destruct (I_dom_lo _ I i Hlt) as (f & Hf & Hw).
  destruct (pc s i) as [| | |b|b w| |w| |r|r|r k|r|r] eqn:Hp; simpl in Hnf; try discriminate.
  - (* RGot *) destruct f as [|t|t k]; simpl in Hw; try contradiction.
    + exists (LSpawn i (mkReply RErr 0)). eexists. split; [reflexivity|]. cbn [exec]. rewrite Hp, Hf. simpl. reflexivity.
    + exists (LStart i). eexists. split; [reflexivity|]. cbn [exec]. rewrite Hp, Hf. reflexivity.
  - (* RStarted *) destruct f as [|t|t k]; simpl in Hw; try contradiction.
    exists (LCapture i). eexists. split; [reflexivity|]. cbn [exec]. rewrite Hp, Hf. reflexivity.
  - (* RCaptured *) destruct f as [|t|t k]; simpl in Hw; try contradiction.
    exists (LSpawn i rflush_reply). cbn [exec]. rewrite Hp, Hf. destruct b; eexists; (split; [reflexivity|reflexivity]).
  - (* RRun *) destruct f as [|t|t [old|]]; simpl in Hw; try contradiction.
    + destruct w as [c|].
      * destruct (closed s c) eqn:Hc.
        -- exists (LPass i). eexists. split; [reflexivity|]. cbn [exec]. rewrite Hp, Hf, Hc. reflexivity.
        -- destruct (I_cap _ I i true (Some c) c (or_intror Hp) eq_refl) as (Hci & Ha & _).
           apply (IH c Hci).
           ++ assert (Hncl : cleared (pc s c) = false).
              { destruct (cleared (pc s c)) eqn:Hx; [|reflexivity].
                destruct (I_cap _ I i true (Some c) c (or_intror Hp) eq_refl) as (_ & _ & t' & old' & k' & _ & _ & Hfc).
                assert (closed s c = true) by (apply (I_closed _ I); eauto). congruence. }
              unfold accepted in Ha. rewrite Hncl, orb_false_r in Ha.
              destruct (pc s c); simpl in *; congruence.
           ++ intros Hwb. apply Hnw. eapply WB_flush; [split; eassumption|exact Hwb].
      * exists (LPass i). eexists. split; [reflexivity|]. cbn [exec]. rewrite Hp, Hf. reflexivity.
    + exists (LReturn i rflush_reply). eexists. split; [reflexivity|]. cbn [exec]. rewrite Hp, Hf. reflexivity.
  - (* RBack *) exfalso. apply Hnw. now apply WB_back.
  - (* RRet *) destruct f as [|t|t k]; simpl in Hw; try contradiction.
    assert (Ht : tags s t = Some i) by (apply (I_tags2 _ I _ _ _ Hf); rewrite Hp; reflexivity).
    exists (LClear i). eexists. split; [reflexivity|]. cbn [exec]. rewrite Hp, Hf, Ht. reflexivity.
  - (* RClr *) destruct (sendmu s) as [h|] eqn:Hs.
    + destruct (I_send2 _ I _ Hs) as (r' & k' & Hh). eapply send_holder_moves; eauto.
    + exists (LLock i). eexists. split; [reflexivity|]. cbn [exec]. rewrite Hp, Hs. reflexivity.
  - (* RSend *) eapply send_holder_moves; eauto.
Qed.

Lemma ClearTag_never_panics s i r : Inv s -> pc s i = RRet r -> exists s', exec inp (LClear i) s = Some s'.
Proof.
  intros I Hp. have_lt i. destruct (I_dom_lo _ I i) as (f & Hf & Hw); [assumption|]. rewrite Hp in Hw.
  destruct f as [|t|t k]; simpl in Hw; try contradiction.
  assert (Ht : tags s t = Some i) by (apply (I_tags2 _ I _ _ _ Hf); rewrite Hp; reflexivity).
  cbn [exec]. rewrite Hp, Hf, Ht. eauto.
Qed.

(** * Tag re-use: a tag is accepted again as soon as its previous user passed ClearTag
      (which precedes the send: in particular once its reply is on the wire) *)
Lemma reuse_accepted s i t k :
  Inv s -> pc s i = RGot -> nth_error inp i = Some (FReq t k) ->
  (forall j k', j < i -> nth_error inp j = Some (FReq t k') -> active (pc s j) = false) ->
  exists s', exec inp (LStart i) s = Some s' /\ pc s' i = RStarted true.
Proof.
  intros I Hp Hf Hfree. cbn [exec]. rewrite Hp, Hf.
  destruct (tags s t) as [c|] eqn:Et.
  - exfalso. destruct (I_tags1 _ I _ _ Et) as (Ha & k' & Hk').
    assert (Hh : holding (pc s i) = true) by (rewrite Hp; reflexivity).
    destruct (I_hold _ I _ Hh) as [Hn _].
    assert (Hci : c <> i) by (intros ->; rewrite Hp in Ha; discriminate).
    assert (Hc : c < nrecv s) by (apply lt_recv; [assumption|]; intros Hx; rewrite Hx in Ha; discriminate).
    rewrite (Hfree c k') in Ha; [discriminate|lia|assumption].
  - eexists. split; [reflexivity|]. cbn [pc]. now rewrite upd_same.
Qed.

(** * Intake: while not shut down the next frame can always be received using
      only steps of the receive path - whatever the handlers are blocked on *)
Lemma intake_free s : Inv s -> recvmu s = false -> shut s = false -> nrecv s < length inp ->
  exists ls s', forallb intake_label ls = true /\ run inp ls s = Some s' /\ nrecv s' = S (nrecv s).
Proof.
  intros I Hm Hs Hl.
  destruct (nth_error inp (nrecv s)) as [f|] eqn:Hf; [|apply nth_error_None in Hf; lia].
  destruct (nidle s) as [|n] eqn:Hi.
  - destruct (I_recvr _ I Hs) as [Hp|Hp]; [|congruence].
    destruct (nnew s) as [|m] eqn:Hn; [lia|].
    exists [LInc; LRecv]. cbn [run exec]. rewrite Hn. cbn [nidle recvmu shut nrecv]. rewrite Hm, Hs, Hf.
    destruct f; eexists; (split; [reflexivity|split; reflexivity]).
  - exists [LRecv]. cbn [run exec]. rewrite Hi, Hm, Hs, Hf.
    destruct f; eexists; (split; [reflexivity|split; reflexivity]).
Qed.

Lemma run_app ls1 ls2 s s1 : run inp ls1 s = Some s1 -> run inp (ls1 ++ ls2) s = run inp ls2 s1.
Proof.
  revert s. induction ls1 as [|l ls IH]; simpl; intros s H; [now injection H as ->|].
  destruct (exec inp l s); [now apply IH|discriminate].
Qed.

Lemma intake_via s l s1 : Inv s -> intake_label l = true -> exec inp l s = Some s1 ->
  (exists ls s', forallb intake_label ls = true /\ run inp ls s1 = Some s' /\ nrecv s' = S (nrecv s)) ->
  exists ls s', forallb intake_label ls = true /\ run inp ls s = Some s' /\ nrecv s' = S (nrecv s).
Proof.
  intros I Hl He (ls & s' & H1 & H2 & H3). exists (l :: ls), s'. split; [simpl; now rewrite Hl, H1|].
  split; [simpl; now rewrite He|assumption].
Qed.

Lemma intake s : Inv s -> shut s = false -> nrecv s < length inp ->
  exists ls s', forallb intake_label ls = true /\ run inp ls s = Some s' /\ nrecv s' = S (nrecv s).
Proof.
  intros I Hs Hl. destruct (recvmu s) eqn:Hm; [|now apply intake_free].
  destruct (I_recvmu _ I Hm) as (i & Hi & Hh).
  assert (Hlt : i < nrecv s) by lia.
  destruct (I_dom_lo _ I i Hlt) as (f & Hf & Hw).
  (* from RCaptured *)
  assert (Hcap : forall s1 b w, Inv s1 -> shut s1 = false -> nrecv s1 = nrecv s -> pc s1 i = RCaptured b w ->
            exists ls s', forallb intake_label ls = true /\ run inp ls s1 = Some s' /\ nrecv s' = S (nrecv s)).
  { intros s1 b w I1 Hs1 Hn1 Hp1.
    assert (Hlt1 : i < nrecv s1) by lia.
    destruct (I_dom_lo _ I1 i Hlt1) as (f1 & Hf1 & Hw1). rewrite Hp1 in Hw1.
    destruct f1 as [|t|t k]; simpl in Hw1; try contradiction.
    destruct (exec inp (LSpawn i rflush_reply) s1) as [s2|] eqn:He.
    2:{ exfalso. cbn [exec] in He. rewrite Hp1, Hf1 in He. destruct b; discriminate. }
    assert (I2 := Inv_step _ _ _ I1 He).
    assert (Hx : recvmu s2 = false /\ shut s2 = shut s1 /\ nrecv s2 = nrecv s1).
    { cbn [exec] in He. rewrite Hp1, Hf1 in He. destruct b; injection He as <-; auto. }
    destruct Hx as (Hm2 & Hs2 & Hn2).
    destruct (intake_free s2 I2 Hm2) as (ls & s' & H1 & H2 & H3); [congruence|lia|].
    exists (LSpawn i rflush_reply :: ls), s'. split; [simpl; exact H1|]. split; [cbn [run]; now rewrite He|lia]. }
  assert (Hsta : forall s1 b, Inv s1 -> shut s1 = false -> nrecv s1 = nrecv s -> pc s1 i = RStarted b ->
            exists ls s', forallb intake_label ls = true /\ run inp ls s1 = Some s' /\ nrecv s' = S (nrecv s)).
  { intros s1 b I1 Hs1 Hn1 Hp1.
    assert (Hlt1 : i < nrecv s1) by lia.
    destruct (I_dom_lo _ I1 i Hlt1) as (f1 & Hf1 & Hw1). rewrite Hp1 in Hw1.
    destruct f1 as [|t|t k]; simpl in Hw1; try contradiction.
    destruct (exec inp (LCapture i) s1) as [s2|] eqn:He.
    2:{ exfalso. cbn [exec] in He. rewrite Hp1, Hf1 in He. discriminate. }
    assert (I2 := Inv_step _ _ _ I1 He).
    cbn [exec] in He. rewrite Hp1, Hf1 in He. injection He as He.
    destruct (Hcap s2 b (match k with KFlush old => if b && negb (N.eqb old t) then tags s1 old else None | KOp => None end) I2) as (ls & s' & H1 & H2 & H3);
      try (subst s2; cbn [set_pc shut nrecv pc]; try rewrite upd_same; auto; fail).
    exists (LCapture i :: ls), s'. split; [simpl; exact H1|]. split; [|exact H3].
    cbn [run exec]. rewrite Hp1, Hf1. subst s2. exact H2. }
  destruct (pc s i) as [| | |b|b w| |w| |r|r|r k|r|r] eqn:Hp; simpl in Hh; try discriminate.
  - destruct f as [|t|t k]; simpl in Hw; try contradiction.
    + destruct (exec inp (LSpawn i (mkReply RErr 0)) s) as [s2|] eqn:He.
      2:{ exfalso. cbn [exec] in He. rewrite Hp, Hf in He. discriminate. }
      assert (I2 := Inv_step _ _ _ I He).
      assert (Hx : recvmu s2 = false /\ shut s2 = shut s /\ nrecv s2 = nrecv s).
      { cbn [exec] in He. rewrite Hp, Hf in He. simpl in He. injection He as <-; auto. }
      destruct Hx as (Hm2 & Hs2 & Hn2).
      destruct (intake_free s2 I2 Hm2) as (ls & s' & H1 & H2 & H3); [congruence|lia|].
      exists (LSpawn i (mkReply RErr 0) :: ls), s'. split; [simpl; exact H1|]. split; [cbn [run]; now rewrite He|lia].
    + destruct (exec inp (LStart i) s) as [s2|] eqn:He.
      2:{ exfalso. cbn [exec] in He. rewrite Hp, Hf in He. discriminate. }
      assert (I2 := Inv_step _ _ _ I He).
      cbn [exec] in He. rewrite Hp, Hf in He. injection He as He.
      destruct (Hsta s2 (is_none (tags s t)) I2) as (ls & s' & H1 & H2 & H3);
        try (subst s2; cbn [shut nrecv pc]; try rewrite upd_same; auto; fail).
      exists (LStart i :: ls), s'. split; [simpl; exact H1|]. split; [|exact H3].
      cbn [run exec]. rewrite Hp, Hf. subst s2. exact H2.
  - eapply Hsta; eauto.
  - eapply Hcap; eauto.
Qed.


(** * Concurrency: a request that is not waiting for the backend completes by steps of the
      server alone (its own and those of the current holder of sendMu), whatever the other
      requests are blocked on *)
Lemma run_snoc ls l s s1 s2 : run inp ls s = Some s1 -> exec inp l s1 = Some s2 -> run inp (ls ++ [l]) s = Some s2.
Proof. intros H1 H2. rewrite (run_app _ _ _ _ H1). cbn [run]. now rewrite H2. Qed.

Lemma run_Inv ls s s' : Inv s -> run inp ls s = Some s' -> Inv s'.
Proof.
  revert s. induction ls as [|l ls IH]; simpl; intros s I H; [now injection H as <-|].
  destruct (exec inp l s) as [s1|] eqn:He; [|discriminate]. eapply IH; [eapply Inv_step; eauto|exact H].
Qed.

(** the send of request i is over: its frame is on the wire, or - only if the peer stopped reading - it failed *)
Definition send_over (s : state) (i : nat) (r : reply) : Prop :=
  pc s i = RDone r \/ (wbroken s = true /\ pc s i = RDoneF r).

Lemma finish_send n : forall s h r k, Inv s -> pc s h = RSend r k -> S (r_extra r) - k = n ->
  exists ls s', forallb progress_label ls = true /\ run inp ls s = Some s' /\
    send_over s' h r /\ wbroken s' = wbroken s /\ sendmu s' = None /\ (forall j, j <> h -> pc s' j = pc s j).
Proof.
  induction n as [|n IH]; intros s h r k I Hp Hn; destruct (I_send1 _ I _ _ _ Hp) as [_ Hk].
  - assert (He : Nat.eqb k (S (r_extra r)) = true) by (apply Nat.eqb_eq; lia).
    exists [LUnlock h]. eexists. split; [reflexivity|]. split; [cbn [run exec]; rewrite Hp, He; reflexivity|].
    unfold send_over. cbn [pc sendmu wbroken]. rewrite upd_same.
    split; [left; reflexivity|]. split; [reflexivity|]. split; [reflexivity|]. intros j Hj. now rewrite upd_other.
  - assert (Hl : Nat.leb k (r_extra r) = true) by (apply Nat.leb_le; lia).
    destruct (wbroken s) eqn:Hb.
    + exists [LSendFail h]. eexists. split; [reflexivity|]. split; [cbn [run exec]; rewrite Hp, Hl, Hb; reflexivity|].
      unfold send_over. cbn [pc sendmu wbroken]. rewrite upd_same.
      split; [right; auto|]. split; [auto|]. split; [reflexivity|]. intros j Hj. now rewrite upd_other.
    + destruct (exec inp (LChunk h) s) as [s1|] eqn:He; [|cbn [exec] in He; rewrite Hp, Hl, Hb in He; discriminate].
      assert (I1 := Inv_step _ _ _ I He).
      cbn [exec] in He. rewrite Hp, Hl, Hb in He. injection He as He.
      assert (Hp1 : pc s1 h = RSend r (S k)) by (subst s1; cbn [pc]; now rewrite upd_same).
      destruct (IH s1 h r (S k) I1 Hp1) as (ls & s' & H1 & H2 & H3 & H4 & H5 & H6); [lia|].
      exists (LChunk h :: ls), s'. split; [exact H1|]. split.
      * cbn [run exec]. rewrite Hp, Hl, Hb. subst s1. exact H2.
      * split; [exact H3|]. split; [rewrite H4; subst s1; cbn [wbroken]; congruence|]. split; [exact H5|].
        intros j Hj. rewrite (H6 j Hj). subst s1. cbn [pc]. now rewrite upd_other.
Qed.

Lemma ret_completes s i r : Inv s -> pc s i = RRet r ->
  exists ls s', forallb progress_label ls = true /\ run inp ls s = Some s' /\ send_over s' i r /\ wbroken s' = wbroken s.
Proof.
  intros I Hp.
  destruct (ClearTag_never_panics s i r I Hp) as (s1 & He1).
  assert (I1 := Inv_step _ _ _ I He1).
  assert (Hp1 : pc s1 i = RClr r /\ sendmu s1 = sendmu s /\ wbroken s1 = wbroken s).
  { cbn [exec] in He1. rewrite Hp in He1. destruct (nth_error inp i) as [[|?|t k]|]; try discriminate.
    destruct (tags s t); [|discriminate]. injection He1 as <-. cbn [pc sendmu wbroken]. now rewrite upd_same. }
  destruct Hp1 as (Hp1 & Hs1 & Hb1).
  assert (Hfree : exists ls2 s2, forallb progress_label ls2 = true /\ run inp ls2 s1 = Some s2 /\ pc s2 i = RClr r /\ sendmu s2 = None /\ wbroken s2 = wbroken s1).
  { destruct (sendmu s1) as [h|] eqn:Hm.
    - destruct (I_send2 _ I1 _ Hm) as (r' & k' & Hh).
      assert (Hhi : i <> h) by (intros ->; congruence).
      destruct (finish_send _ s1 h r' k' I1 Hh eq_refl) as (ls & s2 & H1 & H2 & _ & H4 & H5 & H6).
      exists ls, s2. split; [exact H1|]. split; [exact H2|]. split; [now rewrite (H6 i Hhi)|auto].
    - exists [], s1. repeat split; auto. }
  destruct Hfree as (ls2 & s2 & Hl2 & Hr2 & Hp2 & Hm2 & Hb2).
  assert (I2 := run_Inv _ _ _ I1 Hr2).
  destruct (exec inp (LLock i) s2) as [s3|] eqn:He3; [|cbn [exec] in He3; rewrite Hp2, Hm2 in He3; discriminate].
  assert (I3 := Inv_step _ _ _ I2 He3).
  assert (Hp3 : pc s3 i = RSend r 0 /\ wbroken s3 = wbroken s2).
  { cbn [exec] in He3. rewrite Hp2, Hm2 in He3. injection He3 as <-. cbn [pc wbroken]. now rewrite upd_same. }
  destruct Hp3 as [Hp3 Hb3].
  destruct (finish_send _ s3 i r 0 I3 Hp3 eq_refl) as (ls4 & s4 & Hl4 & Hr4 & Hp4 & Hb4 & _ & _).
  exists (LClear i :: ls2 ++ LLock i :: ls4), s4. split.
  - cbn [forallb progress_label]. rewrite forallb_app. cbn [forallb progress_label]. now rewrite Hl2, Hl4.
  - split; [|split; [exact Hp4|congruence]]. cbn [run]. rewrite He1. rewrite (run_app _ (LLock i :: ls4) _ _ Hr2). cbn [run]. now rewrite He3.
Qed.

Lemma op_completes s i w t r : Inv s -> pc s i = RRun w -> nth_error inp i = Some (FReq t KOp) ->
  exists ls s', forallb progress_label ls = true /\ run inp ls s = Some s' /\ send_over s' i r /\ wbroken s' = wbroken s.
Proof.
  intros I Hp Hf.
  destruct (exec inp (LReturn i r) s) as [s1|] eqn:He; [|cbn [exec] in He; rewrite Hp, Hf in He; discriminate].
  assert (I1 := Inv_step _ _ _ I He).
  assert (Hp1 : pc s1 i = RRet r /\ wbroken s1 = wbroken s).
  { cbn [exec] in He. rewrite Hp, Hf in He. injection He as <-. cbn [set_pc pc wbroken]. now rewrite upd_same. }
  destruct Hp1 as [Hp1 Hb1].
  destruct (ret_completes s1 i r I1 Hp1) as (ls & s' & H1 & H2 & H3 & H4).
  exists (LReturn i r :: ls), s'. split; [exact H1|]. split; [cbn [run]; now rewrite He|]. split; [exact H3|congruence].
Qed.

Lemma flush_completes s i w t old : Inv s -> pc s i = RRun w -> nth_error inp i = Some (FReq t (KFlush old)) ->
  (old = t \/ forall j k, j < i -> nth_error inp j = Some (FReq old k) -> running (pc s j) = false) ->
  exists ls s', forallb progress_label ls = true /\ run inp ls s = Some s' /\ send_over s' i rflush_reply /\ wbroken s' = wbroken s.
Proof.
  intros I Hp Hf Hc.
  destruct (flush_at_once s i w t old I Hp Hf Hc) as (s1 & He).
  assert (I1 := Inv_step _ _ _ I He).
  assert (Hp1 : pc s1 i = RRet rflush_reply /\ wbroken s1 = wbroken s).
  { cbn [exec] in He. rewrite Hp, Hf in He.
    destruct (match w with Some c => closed s c | None => true end); [|discriminate].
    injection He as <-. cbn [set_pc pc wbroken]. now rewrite upd_same. }
  destruct Hp1 as [Hp1 Hb1].
  destruct (ret_completes s1 i _ I1 Hp1) as (ls & s' & H1 & H2 & H3 & H4).
  exists (LPass i :: ls), s'. split; [exact H1|]. split; [cbn [run]; now rewrite He|]. split; [exact H3|congruence].
Qed.

Lemma send_over_unbroken s i r : Inv s -> wbroken s = false -> send_over s i r -> In (i, r) (replies s).
Proof. intros I Hb [H|[H _]]; [now apply (I_rep _ I)|congruence]. Qed.

(** * Shutdown: after the connection error (EOF) every idle goroutine leaves; when no request
      is in progress any more, nothing is left that Handle (pendingWg.Wait) waits for *)
Lemma shutdown_drains n : forall s, Inv s -> shut s = true -> recvmu s = false -> nnew s + nidle s = n ->
  exists ls s', forallb intake_label ls = true /\ run inp ls s = Some s' /\ nnew s' = 0 /\ nidle s' = 0 /\
    pc s' = pc s /\ replies s' = replies s /\ wire s' = wire s.
Proof.
  induction n as [n IH] using lt_wf_ind. intros s I Hs Hm Hn.
  destruct (nidle s) as [|m] eqn:Hi.
  - destruct (nnew s) as [|k] eqn:Hk.
    + exists [], s. repeat split; auto.
    + destruct (exec inp LInc s) as [s1|] eqn:He; [|cbn [exec] in He; rewrite Hk in He; discriminate].
      assert (I1 := Inv_step _ _ _ I He). cbn [exec] in He. rewrite Hk in He. injection He as He.
      destruct (exec inp LRecv s1) as [s2|] eqn:He2; [|subst s1; cbn [exec nidle recvmu shut] in He2; rewrite Hm, Hs in He2; discriminate].
      assert (I2 := Inv_step _ _ _ I1 He2).
      subst s1. cbn [exec nidle recvmu shut] in He2. rewrite Hm, Hs in He2. injection He2 as He2.
      destruct (IH (nnew s2 + nidle s2)) with (s := s2) as (ls & s' & H1 & H2 & H3 & H4 & H5 & H6 & H7);
        try (subst s2; cbn [nnew nidle shut recvmu]; auto; lia).
      exists (LInc :: LRecv :: ls), s'. split; [exact H1|]. split.
      * cbn [run exec]. rewrite Hk. cbn [nidle recvmu shut]. rewrite Hm, Hs. subst s2. exact H2.
      * subst s2. cbn [pc replies wire] in *. auto.
  - destruct (exec inp LRecv s) as [s2|] eqn:He2; [|cbn [exec] in He2; rewrite Hi, Hm, Hs in He2; discriminate].
    assert (I2 := Inv_step _ _ _ I He2).
    cbn [exec] in He2. rewrite Hi, Hm, Hs in He2. injection He2 as He2.
    destruct (IH (nnew s2 + nidle s2)) with (s := s2) as (ls & s' & H1 & H2 & H3 & H4 & H5 & H6 & H7);
      try (subst s2; cbn [nnew nidle shut recvmu]; auto; lia).
    exists (LRecv :: ls), s'. split; [exact H1|]. split.
    + cbn [run exec]. rewrite Hi, Hm, Hs. subst s2. exact H2.
    + subst s2. cbn [pc replies wire] in *. auto.
Qed.

(** once the peer has stopped reading nothing more reaches the wire *)
Lemma broken_frozen s l s' : exec inp l s = Some s' -> wbroken s = true -> wire s' = wire s /\ wbroken s' = true.
Proof.
  intros H Hb. destruct l; cbn [exec] in H;
  repeat match type of H with
         | match ?x with _ => _ end = Some _ => destruct x eqn:?; try discriminate H
         | Some _ = Some _ => injection H as H; subst
         end; cbn [set_pc wire wbroken]; auto.
  rewrite Hb in *. rewrite andb_false_r in *. discriminate.
Qed.

Lemma broken_frozen_steps s s' : steps inp s s' -> wbroken s = true -> wire s' = wire s /\ wbroken s' = true.
Proof.
  intros Hs Hb. induction Hs as [|s l s' s'' Hs IH He]; [auto|].
  destruct (IH Hb) as [Hw Hb']. destruct (broken_frozen _ _ _ He Hb') as [Hw2 Hb2]. split; [congruence|assumption].
Qed.

End WithInput.
