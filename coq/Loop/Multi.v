(** Several connections served by one Server: each connection has its own connState
    (tag table, recvMu, sendMu, recvIdle, reader, writer, goroutines) and the request
    loop shares nothing between connections (tie: Loop/Tie.v [tie_loop_state] - the
    loop functions touch only fields of their own [cs], the logger and the message
    registry/buffer pools).  The system is the product of the per-connection models:
    a step is a step of one connection.  What connections DO share - the backend and
    the path-node locks taken inside handlers - is the environment of this model (a
    backend call returns when released) and the subject of C07/C16. *)
From Coq Require Import NArith List Bool Arith.
From P9V Require Import Loop.Model Loop.Proofs.
Import ListNotations.

Definition mstate := nat -> state.                 (* connection id -> loop state *)
Definition minput := nat -> list frame.

Definition minit : mstate := fun _ => init.

Definition mexec (inp : minput) (c : nat) (l : label) (ms : mstate) : option mstate :=
  match exec (inp c) l (ms c) with
  | Some s' => Some (upd ms c s')
  | None => None
  end.

Inductive mreachable (inp : minput) : mstate -> Prop :=
| mreach_init : mreachable inp minit
| mreach_step ms c l ms' : mreachable inp ms -> mexec inp c l ms = Some ms' -> mreachable inp ms'.

Lemma mexec_other inp c l ms ms' d : mexec inp c l ms = Some ms' -> d <> c -> ms' d = ms d.
Proof.
  unfold mexec. destruct (exec (inp c) l (ms c)); [|discriminate]. intros H Hd. injection H as <-. now apply upd_other.
Qed.

Lemma mexec_own inp c l ms ms' : mexec inp c l ms = Some ms' -> exec (inp c) l (ms c) = Some (ms' c).
Proof.
  unfold mexec. destruct (exec (inp c) l (ms c)); [|discriminate]. intros H. injection H as <-. now rewrite upd_same.
Qed.

(** whether and how a step of connection c happens depends on c's own state only *)
Lemma mexec_local inp c l ms1 ms2 : ms1 c = ms2 c ->
  match mexec inp c l ms1, mexec inp c l ms2 with
  | Some a, Some b => a c = b c
  | None, None => True
  | _, _ => False
  end.
Proof.
  intros H. unfold mexec. rewrite H. destruct (exec (inp c) l (ms2 c)); cbn; [|exact Logic.I]. now rewrite !upd_same.
Qed.

Lemma mreachable_each inp ms : mreachable inp ms -> forall c, reachable (inp c) (ms c).
Proof.
  induction 1 as [|ms c l ms' _ IH He]; intros d; [apply reach_init|].
  destruct (Nat.eq_dec d c) as [->|Hd].
  - eapply reach_step; [apply IH|]. apply mexec_own. exact He.
  - rewrite (mexec_other _ _ _ _ _ _ He Hd). apply IH.
Qed.

(** a run of connection c alone, lifted to the product: the other connections do not move *)
Fixpoint mrun (inp : minput) (c : nat) (ls : list label) (ms : mstate) : option mstate :=
  match ls with
  | [] => Some ms
  | l :: r => match mexec inp c l ms with Some ms' => mrun inp c r ms' | None => None end
  end.

Lemma mrun_lift inp c ls : forall ms s', run (inp c) ls (ms c) = Some s' ->
  exists ms', mrun inp c ls ms = Some ms' /\ ms' c = s' /\ forall d, d <> c -> ms' d = ms d.
Proof.
  induction ls as [|l ls IH]; intros ms s' H; cbn [run mrun] in *.
  - injection H as <-. exists ms. auto.
  - unfold mexec. destruct (exec (inp c) l (ms c)) as [s1|] eqn:He; [|discriminate].
    destruct (IH (upd ms c s1) s') as (ms' & H1 & H2 & H3); [now rewrite upd_same|].
    exists ms'. split; [exact H1|]. split; [exact H2|]. intros d Hd. rewrite (H3 d Hd). now apply upd_other.
Qed.
