(** Comparison of observed runs of the real Server.Handle (harness/p9/c06_loop_test.go,
    c14_flush_test.go, vhloop_*_test.go) with the model of Loop/Model.v, and the
    properties C06 / C14 evaluated on the OBSERVED behaviour.  Evaluated by vm_compute.

    A scenario is a script of phases: "send these frames back to back" or "release
    backend gate g"; after each phase the harness waits for quiescence and records
    the reply frames (tag, type) that arrived.  The scripts are race free (a tag is
    re-used only when its previous user is surely finished or surely still in
    flight), so the multiset of replies per phase does not depend on the schedule;
    [predict] runs the model under one canonical schedule built only from [exec]. *)
From Coq Require Import NArith List Bool Arith.
From P9V Require Import gen.ConstGen Loop.Model.
Import ListNotations.
Open Scope N_scope.

Inductive sframe :=
| SOp (tag rtyp : N) (gate : option N) (mode : N)  (* a request served by one backend call; not gated: returns at once, mode 0 = ok *)
| SFlush (tag old : N)
| SReject (tag : N)                                 (* recv fails with this tag: Rlerror, no tag started *)
| SEof.                                             (* the peer closed: recv returns a connection error *)

Inductive sstep :=
| SSend (c : nat) (fs : list sframe)   (* on connection c *)
| SRelease (g mode : N)                (* the backend is shared by the connections *)
| SBreak (c : nat)                     (* the peer of connection c stops reading replies: writes fail from now on *)
| SHangup (c : nat).                   (* the peer of connection c closes its sending side: EOF *)

Inductive lcase :=
| CScn (script : list sstep) (obs : list (list (N * N)))
       (setup hung returned clean valid early : bool).

Definition to_frame (f : sframe) : frame :=
  match f with
  | SOp t _ _ _ => FReq t KOp
  | SFlush t o => FReq t (KFlush o)
  | SReject t => FReject t
  | SEof => FConn
  end.

Fixpoint all_frames (c : nat) (sc : list sstep) : list sframe :=
  match sc with
  | [] => []
  | SSend c' fs :: r => if Nat.eqb c c' then fs ++ all_frames c r else all_frames c r
  | SHangup c' :: r => if Nat.eqb c c' then SEof :: all_frames c r else all_frames c r
  | _ :: r => all_frames c r
  end.

(** ---- the canonical schedule ---- *)
Record sim := mkSim { st : state; avail : nat; rel : list (N * N); entered : list nat }.

Fixpoint assoc (g : N) (l : list (N * N)) : option N :=
  match l with [] => None | (a, b) :: r => if a =? g then Some b else assoc g r end.
Definition memn (i : nat) (l : list nat) : bool := existsb (Nat.eqb i) l.

Definition op_reply (mode : N) : reply := if mode =? 0 then mkReply RMatch 2 else mkReply RErr 1.

Definition cand (all : list sframe) (m : sim) (i : nat) : option label :=
  let s := st m in
  match pc s i, nth_error all i with
  | RGot, Some (SReject _) => Some (LSpawn i (mkReply RErr 1))
  | RGot, Some _ => Some (LStart i)
  | RStarted _, _ => Some (LCapture i)
  | RCaptured _ _, _ => Some (LSpawn i rflush_reply)
  | RRun _, Some (SFlush _ _) => Some (LPass i)
  | RRun _, Some (SOp _ _ g mode) =>
      if memn i (entered m) then
        Some (LReturn i (op_reply match g with Some g => match assoc g (rel m) with Some md => md | None => 0 end | None => mode end))
      else Some (LEnter i)
  | RBack, Some (SOp _ _ g _) =>
      match g with
      | None => Some (LExit i)
      | Some g => match assoc g (rel m) with Some _ => Some (LExit i) | None => None end
      end
  | RRet _, _ => Some (LClear i)
  | RClr _, _ => Some (LLock i)
  | RSend r k, _ => if Nat.eqb k (S (r_extra r)) then Some (LUnlock i)
                    else if wbroken s then Some (LSendFail i) else Some (LChunk i)
  | _, _ => None
  end.

Definition apply_label (inp : list frame) (m : sim) (l : label) : option sim :=
  match exec inp l (st m) with
  | Some s' => Some (mkSim s' (avail m) (rel m)
                           (match l with LEnter i => i :: entered m | _ => entered m end))
  | None => None
  end.

(** drive request i as far as it goes *)
Fixpoint drive (fuel : nat) (inp : list frame) (all : list sframe) (m : sim) (i : nat) : sim * bool :=
  match fuel with
  | O => (m, false)
  | S f =>
      match cand all m i with
      | Some l => match apply_label inp m l with
                  | Some m' => let '(m'', _) := drive f inp all m' i in (m'', true)
                  | None => (m, false)
                  end
      | None => (m, false)
      end
  end.

Fixpoint pass (inp : list frame) (all : list sframe) (m : sim) (is : list nat) : sim * bool :=
  match is with
  | [] => (m, false)
  | i :: r =>
      if final (pc (st m) i) then pass inp all m r
      else let '(m1, b1) := drive 40 inp all m i in
           let '(m2, b2) := pass inp all m1 r in (m2, b1 || b2)
  end.

(** receive everything that has been sent *)
Fixpoint intake_all (fuel : nat) (inp : list frame) (m : sim) : sim :=
  match fuel with
  | O => m
  | S f =>
      match apply_label inp m LRecv with
      | Some m' => intake_all f inp m'
      | None => match apply_label inp m LInc with
                | Some m' => match apply_label inp m' LRecv with
                             | Some m'' => intake_all f inp m''
                             | None => m
                             end
                | None => m
                end
      end
  end.

(** [normalize] replaces the function-valued fields (chains of updates) by look-ups in
    snapshot lists: extensionally the same state (pc beyond nrecv is RNone, closed
    beyond nrecv is false, tags are only ever set for tags of received frames); it
    only keeps evaluation cheap. *)
Definition sframe_tag (f : sframe) : N :=
  match f with SOp t _ _ _ => t | SFlush t _ => t | SReject t => t | SEof => 0 end.
Definition normalize (all : list sframe) (s : state) : state :=
  let n := nrecv s in
  let snap := map (pc s) (seq 0 n) in
  let cl := map (closed s) (seq 0 n) in
  let tg := map (fun f => let t := sframe_tag f in (t, tags s t)) (firstn n all) in
  mkState n (shut s) (recvmu s) (nnew s) (nidle s)
          (fun i => nth i snap RNone)
          (fun t => match find (fun p => fst p =? t) tg with Some (_, v) => v | None => None end)
          (fun c => nth c cl false) (sendmu s) (wire s) (replies s) (wbroken s) (torn s).

Fixpoint quiesce (fuel : nat) (inp : list frame) (all : list sframe) (m : sim) : sim :=
  match fuel with
  | O => m
  | S f =>
      (* the holder of recvMu must get through before the next frame can be received *)
      let m := mkSim (normalize all (st m)) (avail m) (rel m) (entered m) in
      let m0 := intake_all 2 inp m in
      let '(m1, b) := pass inp all m0 (seq 0 (nrecv (st m0))) in
      if b || negb (Nat.eqb (nrecv (st m1)) (nrecv (st m))) then quiesce f inp all m1 else m1
  end.

Definition conn_key (c : nat) (t : N) : N := t + 65536 * N.of_nat c.

Definition reply_code (c : nat) (all : list sframe) (ir : nat * reply) : N * N :=
  let '(i, r) := ir in
  match nth_error all i with
  | Some (SOp t rt _ _) => (conn_key c t, match r_kind r with RErr => p9_msgRlerror | RMatch => rt end)
  | Some (SFlush t _) => (conn_key c t, match r_kind r with RErr => p9_msgRlerror | RMatch => p9_msgRflush end)
  | Some (SReject t) => (conn_key c t, p9_msgRlerror)
  | _ => (0, 0)
  end.

(** one phase of connection c: returns the new sim and the replies written in the phase *)
Definition phase_conn (c : nat) (all : list sframe) (m : sim) (stp : sstep) : sim * list (N * N) :=
  let m1 := match stp with
            | SSend c' fs => if Nat.eqb c c' then mkSim (st m) (avail m + List.length fs) (rel m) (entered m) else m
            | SHangup c' => if Nat.eqb c c' then mkSim (st m) (avail m + 1) (rel m) (entered m) else m
            | SRelease g md => mkSim (st m) (avail m) ((g, md) :: rel m) (entered m)
            | SBreak c' => if Nat.eqb c c' then
                             match exec [] LBreak (st m) with
                             | Some s' => mkSim s' (avail m) (rel m) (entered m)
                             | None => m
                             end
                           else m
            end in
  let inp := map to_frame (firstn (avail m1) all) in
  let m2 := quiesce (4 * List.length all + 8) inp all m1 in
  (m2, map (reply_code c all) (skipn (List.length (replies (st m))) (replies (st m2)))).

(** two connections (0 and 1) on one server: the loops share nothing, the gates are common *)
Fixpoint predict_steps (a0 a1 : list sframe) (m0 m1 : sim) (sc : list sstep) : list (list (N * N)) :=
  match sc with
  | [] => []
  | stp :: r =>
      let '(m0', r0) := phase_conn 0 a0 m0 stp in
      let '(m1', r1) := phase_conn 1 a1 m1 stp in
      (r0 ++ r1) :: predict_steps a0 a1 m0' m1' r
  end.

Definition predict (sc : list sstep) : list (list (N * N)) :=
  predict_steps (all_frames 0 sc) (all_frames 1 sc) (mkSim init 0 [] []) (mkSim init 0 [] []) sc.

(** ---- sorting and comparison ---- *)
Definition pair_leb (a b : N * N) : bool :=
  (fst a <? fst b) || ((fst a =? fst b) && (snd a <=? snd b)).
Fixpoint insert (x : N * N) (l : list (N * N)) : list (N * N) :=
  match l with [] => [x] | y :: r => if pair_leb x y then x :: l else y :: insert x r end.
Definition sort (l : list (N * N)) : list (N * N) := fold_right insert [] l.
Fixpoint pairs_eqb (a b : list (N * N)) : bool :=
  match a, b with
  | [], [] => true
  | (x1, y1) :: a', (x2, y2) :: b' => (x1 =? x2) && (y1 =? y2) && pairs_eqb a' b'
  | _, _ => false
  end.
Fixpoint phases_eqb (a b : list (list (N * N))) : bool :=
  match a, b with
  | [], [] => true
  | x :: a', y :: b' => pairs_eqb (sort x) (sort y) && phases_eqb a' b'
  | _, _ => false
  end.

(** does the model agree with what the implementation did? *)
Definition agrees (c : lcase) : bool :=
  match c with
  | CScn sc obs setup _ _ _ _ _ => setup && phases_eqb (predict sc) obs
  end.

(** ---- the property on the observation ---- *)
(* outstanding: (tag, matching R-type, is a request occupying its tag) *)
Definition out_t := (N * N * bool)%type.

Fixpoint tag_in_flight (t : N) (o : list out_t) : bool :=
  match o with [] => false | (t', _, isreq) :: r => (isreq && (t' =? t)) || tag_in_flight t r end.

Definition add_frame (c : nat) (o : list out_t) (f : sframe) : list out_t :=
  match f with
  | SReject t => o ++ [(conn_key c t, p9_msgRlerror, false)]
  | SOp t rt _ _ => if tag_in_flight (conn_key c t) o then o else o ++ [(conn_key c t, rt, true)]     (* tag in flight: the peer is bogus, no reply due *)
  | SFlush t _ => if tag_in_flight (conn_key c t) o then o else o ++ [(conn_key c t, p9_msgRflush, true)]
  | SEof => o
  end.

Definition of_conn (c : nat) (e : out_t) : bool :=
  let '(k, _, _) := e in (65536 * N.of_nat c <=? k) && (k <? 65536 * N.of_nat (S c)).

(* remove one outstanding entry this reply answers (an entry whose own type it has, else - for an
   Rlerror - any entry with that tag); None = nobody asked for it *)
Fixpoint consume_if (p : out_t -> bool) (o : list out_t) : option (list out_t) :=
  match o with
  | [] => None
  | e :: rest =>
      if p e then Some rest
      else match consume_if p rest with Some rest' => Some (e :: rest') | None => None end
  end.
Definition consume (o : list out_t) (r : N * N) : option (list out_t) :=
  match consume_if (fun '(t, rt, _) => (t =? fst r) && (snd r =? rt)) o with
  | Some o' => Some o'
  | None => if snd r =? p9_msgRlerror then consume_if (fun '(t, _, _) => t =? fst r) o else None
  end.

Fixpoint consume_all (o : list out_t) (rs : list (N * N)) : option (list out_t) :=
  match rs with
  | [] => Some o
  | r :: rest => match consume o r with Some o' => consume_all o' rest | None => None end
  end.

(* [dead]: connections whose peer no longer reads: nothing is due to them, nothing can arrive *)
Fixpoint solicited (dead : list nat) (o : list out_t) (sc : list sstep) (obs : list (list (N * N))) : bool :=
  match sc, obs with
  | [], [] => match o with [] => true | _ => false end        (* every accepted request was answered *)
  | stp :: sc', ph :: obs' =>
      let dead' := match stp with SBreak c => c :: dead | _ => dead end in
      let o1 := match stp with
                | SSend c fs => if memn c dead then o else fold_left (add_frame c) fs o
                | SBreak c => filter (fun e => negb (of_conn c e)) o
                | _ => o
                end in
      match consume_all o1 ph with
      | Some o2 => solicited dead' o2 sc' obs'
      | None => false                                          (* unsolicited / duplicate / wrong tag or type *)
      end
  | _, _ => false
  end.

Definition property_holds (c : lcase) : bool :=
  match c with
  | CScn sc obs setup hung returned clean valid early =>
      setup && negb hung            (* every request answered within the watchdog, intake never stalled *)
      && returned                   (* Handle returns after the peer closes *)
      && clean && valid             (* the byte stream is a sequence of whole, well-formed reply frames *)
      && negb early                 (* no Rflush while the flushed request was inside the backend *)
      && solicited [] [] sc obs        (* one reply per accepted request, tag/type match, nothing unsolicited *)
  end.

Fixpoint failing (f : lcase -> bool) (i : nat) (l : list lcase) : list nat :=
  match l with
  | [] => []
  | c :: r => if f c then failing f (S i) r else i :: failing f (S i) r
  end.
Definition mismatches (l : list lcase) : list nat := failing agrees 0 l.
Definition property_failures (l : list lcase) : list nat := failing property_holds 0 l.
