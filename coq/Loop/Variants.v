(** Why the facts tied to the source are NEEDED, and real statements for the clauses that are true of
    Loop/Model.v only because the model has no step that could break them (audit C06 MEDIUM 2/3, C14 MEDIUM 7).

    The model is widened so that the bad behaviours are expressible: a [variant] says
      v_guard     the capture of a Tflush is guarded by OldTag != tag      (code: yes - Tie.capture_guarded)
      v_detach    a handler may return while a backend call it started is still running - a goroutine, a timer or a
                  worker hand-off anywhere below it                          (code: no - Tie.tie_go_sites, tie_timer_sites,
                                                                              tie_chan_send_sites)
      v_suppress  after ClearTag the reply of a request that some Tflush captured may be skipped
                                                                             (code: no - the reply path after handle is
                                                                              unconditional: Tie.reply_path_unconditional)
    and a variant state carries, next to the state of Loop/Model.v, the ghost lists [det] (requests with a backend
    call running outside their handler), [flushed] (requests some flush has captured) and [skipped].

    Proved:  the [faithful] variant has exactly the behaviours of Loop/Model.v ([faithful_sound], [faithful_complete]);
    in it no backend call ever runs outside its request's handler, no reply is ever skipped, and every request that a
    flush captured is answered exactly once when its goroutine is through ([faithful_flushed_answered]) - for all
    inputs and interleavings.  Flipping any ONE flag refutes the property:
      [unguarded_own_flush_never_answered]  (seeded C06-m3 / C06-revert-flush-own-tag): for every tag t, a Tflush naming
          its own tag is never answered, its tag stays active for ever (every later request with that tag is dropped);
      [detached_call_outlives_rflush]       (seeded C14-m4, audit C14 HIGH 1): an Rflush is written while a backend call
          made on behalf of the flushed request is still running;
      [suppressed_reply_never_sent]         (seeded C14-m3): a flushed request ends without any reply although the peer
          is still reading. *)
From Coq Require Import NArith List Bool Arith Lia.
From P9V Require Import Loop.Model Loop.Proofs.
Import ListNotations.

Record variant := mkV { v_guard : bool; v_detach : bool; v_suppress : bool }.
Definition faithful : variant := mkV true false false.

Record vstate := mkVS { base : state; det : list nat; flushed : list nat; skipped : list nat }.
Definition vinit : vstate := mkVS init [] [] [].

Inductive vlabel :=
| VBase (l : label)
| VDetach (i : nat) (r : reply)   (* handle returns r while the backend call it is in keeps running *)
| VDetEnd (i : nat)               (* that call returns *)
| VSkip (i : nat).                (* the reply of a flushed request is not sent: buffers recycled, goroutine loops *)

Definition memb (i : nat) (l : list nat) : bool := existsb (Nat.eqb i) l.
Fixpoint remove1 (i : nat) (l : list nat) : list nat :=
  match l with [] => [] | x :: r => if Nat.eqb i x then r else x :: remove1 i r end.

(* what LCapture i stores in f.wait *)
Definition capture_of (v : variant) (inp : list frame) (s : state) (i : nat) : option (bool * option nat) :=
  match pc s i, nth_error inp i with
  | RStarted b, Some (FReq t k) =>
      Some (b, match k with
               | KFlush old => if b && (negb (v_guard v) || negb (N.eqb old t)) then tags s old else None
               | KOp => None
               end)
  | _, _ => None
  end.

Definition vexec (v : variant) (inp : list frame) (l : vlabel) (vs : vstate) : option vstate :=
  let s := base vs in
  match l with
  | VBase (LCapture i) =>
      match capture_of v inp s i with
      | Some (b, w) =>
          Some (mkVS (set_pc s i (RCaptured b w)) (det vs)
                     (match w with Some c => c :: flushed vs | None => flushed vs end) (skipped vs))
      | None => None
      end
  | VBase l0 =>
      match exec inp l0 s with
      | Some s' => Some (mkVS s' (det vs) (flushed vs) (skipped vs))
      | None => None
      end
  | VDetach i r =>
      if v_detach v then
        match pc s i with
        | RBack => Some (mkVS (set_pc s i (RRet r)) (i :: det vs) (flushed vs) (skipped vs))
        | _ => None
        end
      else None
  | VDetEnd i =>
      if memb i (det vs) then Some (mkVS s (remove1 i (det vs)) (flushed vs) (skipped vs)) else None
  | VSkip i =>
      if v_suppress v && memb i (flushed vs) then
        match pc s i with
        | RClr r =>
            Some (mkVS (mkState (nrecv s) (shut s) (recvmu s) (S (nnew s)) (nidle s) (upd (pc s) i (RDoneF r))
                                (tags s) (closed s) (sendmu s) (wire s) (replies s) (wbroken s) (torn s))
                       (det vs) (flushed vs) (i :: skipped vs))
        | _ => None
        end
      else None
  end.

Inductive vreachable (v : variant) (inp : list frame) : vstate -> Prop :=
| vr_init : vreachable v inp vinit
| vr_step vs l vs' : vreachable v inp vs -> vexec v inp l vs = Some vs' -> vreachable v inp vs'.

Inductive vsteps (v : variant) (inp : list frame) : vstate -> vstate -> Prop :=
| vs_refl vs : vsteps v inp vs vs
| vs_step vs l vs' vs'' : vsteps v inp vs vs' -> vexec v inp l vs' = Some vs'' -> vsteps v inp vs vs''.

Fixpoint vrun (v : variant) (inp : list frame) (ls : list vlabel) (vs : vstate) : option vstate :=
  match ls with
  | [] => Some vs
  | l :: r => match vexec v inp l vs with Some vs' => vrun v inp r vs' | None => None end
  end.

Lemma vrun_reachable v inp ls : forall vs vs', vreachable v inp vs -> vrun v inp ls vs = Some vs' -> vreachable v inp vs'.
Proof.
  induction ls as [|l ls IH]; intros vs vs' R E; cbn in E.
  - now injection E as <-.
  - destruct (vexec v inp l vs) as [vs1|] eqn:E1; [|discriminate]. eapply IH; [|exact E]. eapply vr_step; eauto.
Qed.

Lemma vrun_steps v inp ls : forall vs vs', vrun v inp ls vs = Some vs' -> vsteps v inp vs vs'.
Proof.
  assert (Htrans : forall a b l c, vsteps v inp b c -> vexec v inp l a = Some b -> vsteps v inp a c).
  { intros a b l c H. induction H as [b|b b' l' b'' H IH E']; intros E.
    - eapply vs_step; [apply vs_refl|exact E].
    - eapply vs_step; [apply IH; exact E|exact E']. }
  induction ls as [|l ls IH]; intros vs vs' E; cbn in E.
  - injection E as <-. apply vs_refl.
  - destruct (vexec v inp l vs) as [vs1|] eqn:E1; [|discriminate]. eapply Htrans; [apply IH; exact E|exact E1].
Qed.

(** ---- the faithful variant is Loop/Model.v ---- *)
Lemma faithful_capture inp s i b w : capture_of faithful inp s i = Some (b, w) ->
  exec inp (LCapture i) s = Some (set_pc s i (RCaptured b w)).
Proof.
  unfold capture_of. cbn [exec]. destruct (pc s i); try discriminate. destruct (nth_error inp i) as [[|t|t k]|]; try discriminate.
  cbn. intros [= <- <-]. reflexivity.
Qed.

Lemma faithful_capture_rev inp s i s' : exec inp (LCapture i) s = Some s' ->
  exists b w, capture_of faithful inp s i = Some (b, w) /\ s' = set_pc s i (RCaptured b w).
Proof.
  unfold capture_of. cbn [exec]. destruct (pc s i); try discriminate. destruct (nth_error inp i) as [[|t|t k]|]; try discriminate.
  cbn. intros [= <-]. eauto.
Qed.

(** local facts about one faithful step; VDetEnd is dead because det stays empty *)
Lemma faithful_step inp l vs vs' : det vs = [] -> vexec faithful inp l vs = Some vs' ->
  exists l0, exec inp l0 (base vs) = Some (base vs') /\ det vs' = [] /\ skipped vs' = skipped vs /\
             (flushed vs' = flushed vs \/
              exists i b c, l0 = LCapture i /\ pc (base vs') i = RCaptured b (Some c) /\ flushed vs' = c :: flushed vs).
Proof.
  intros Hd. destruct l as [l0|i r|i|i]; cbn [vexec faithful v_detach v_suppress andb]; try discriminate.
  - intros E. exists l0.
    destruct l0; try (destruct (exec inp _ (base vs)) as [s'|] eqn:E0; [|discriminate]; injection E as <-; cbn; auto).
    destruct (capture_of faithful inp (base vs) i) as [[b w]|] eqn:Ec; [|discriminate]. injection E as <-. cbn.
    split; [now apply faithful_capture|]. split; [assumption|]. split; [reflexivity|].
    destruct w as [c|]; [|auto]. right. exists i, b, c. split; [reflexivity|]. split; [|reflexivity].
    unfold upd. now rewrite Nat.eqb_refl.
  - rewrite Hd. cbn. discriminate.
Qed.

Theorem faithful_sound inp vs : vreachable faithful inp vs ->
  reachable inp (base vs) /\ det vs = [] /\ skipped vs = [] /\
  (forall c, In c (flushed vs) -> accepted (pc (base vs) c) = true).
Proof.
  induction 1 as [|vs l vs' R IH E].
  - cbn. split; [constructor|]. split; [reflexivity|]. split; [reflexivity|]. intros c [].
  - destruct IH as (Rb & Hd & Hs & Hf). destruct (faithful_step inp l vs vs' Hd E) as (l0 & E0 & Hd' & Hs' & Hfl).
    assert (Rb' : reachable inp (base vs')) by (eapply reach_step; eauto).
    pose proof (reachable_Inv inp _ Rb) as I. pose proof (reachable_Inv inp _ Rb') as I'.
    split; [exact Rb'|]. split; [exact Hd'|]. split; [congruence|].
    intros c Hc. destruct Hfl as [Hfl|(i & b & c0 & -> & Hpc & Hfl)]; rewrite Hfl in Hc.
    + apply (mono_accepted inp _ _ _ I E0 c). now apply Hf.
    + destruct Hc as [<-|Hc]; [|apply (mono_accepted inp _ _ _ I E0 c); now apply Hf].
      destruct (I_cap inp _ I' i b (Some c0) c0 (or_introl Hpc) eq_refl) as (_ & Ha & _). exact Ha.
Qed.

Theorem faithful_complete inp s : reachable inp s -> exists vs, vreachable faithful inp vs /\ base vs = s.
Proof.
  induction 1 as [|s l s' R (vs & Rv & <-) E].
  - exists vinit. split; [constructor|reflexivity].
  - assert (exists vs', vexec faithful inp (VBase l) vs = Some vs' /\ base vs' = s') as (vs' & E' & Hb).
    { destruct l; try (eexists; cbn [vexec]; rewrite E; split; reflexivity).
      destruct (faithful_capture_rev inp _ _ _ E) as (b & w & Ec & ->).
      eexists. cbn [vexec]. rewrite Ec. split; reflexivity. }
    exists vs'. split; [eapply vr_step; eauto|exact Hb].
Qed.

Lemma faithful_is_model inp :
  (forall vs, vreachable faithful inp vs -> reachable inp (base vs) /\ det vs = [] /\ skipped vs = []) /\
  (forall s, reachable inp s -> exists vs, vreachable faithful inp vs /\ base vs = s).
Proof.
  split.
  - intros vs R. destruct (faithful_sound inp vs R) as (A & B & C & _). auto.
  - apply faithful_complete.
Qed.

(** "A flush never cancels, duplicates or suppresses the flushed request's own reply", as a statement with content:
    whenever a request c that some Tflush captured (was waiting for) has left its goroutine's loop body while the
    peer is still reading, its reply is in the reply log - exactly one entry, of its own kind. *)
Theorem faithful_flushed_answered inp vs c : vreachable faithful inp vs -> In c (flushed vs) ->
  final (pc (base vs) c) = true -> wbroken (base vs) = false ->
  exists r, In (c, r) (replies (base vs)) /\ NoDup (map fst (replies (base vs))) /\
            exists f, nth_error inp c = Some f /\ reply_ok f r.
Proof.
  intros R Hc Hf Hb. destruct (faithful_sound inp vs R) as (Rb & _ & _ & Hacc).
  pose proof (reachable_Inv inp _ Rb) as I. specialize (Hacc c Hc).
  destruct (pc (base vs) c) eqn:Hp; try discriminate.
  - exists r. split; [now apply (I_rep inp _ I)|]. split; [apply (I_nodup inp _ I)|]. now apply (done_reply_ok inp _ c r I).
  - rewrite (I_fail inp _ I c r Hp) in Hb. discriminate.
Qed.

(** ... and it gets there by server steps alone once its handler has returned (Proofs.ret_completes holds of every
    request, captured by a flush or not); while it is still executing the flush only waits (C14_after_done). *)

(** ---- refutation 1: capture without the own-tag guard ---- *)
Definition v_unguarded : variant := mkV false false false.
Definition inp_own (t : N) : list frame := [FReq t (KFlush t)].

Record Stuck (t : N) (vs : vstate) : Prop := {
  S_nrecv : nrecv (base vs) = 1;
  S_pc0 : pc (base vs) 0 = RRun (Some 0);
  S_pcn : forall i, i <> 0 -> pc (base vs) i = RNone;
  S_closed : closed (base vs) 0 = false;
  S_tags : tags (base vs) t = Some 0;
  S_replies : replies (base vs) = [];
  S_det : det vs = []
}.

Ltac inv_match H :=
  repeat match type of H with
         | match ?x with _ => _ end = Some _ => let E := fresh "E" in destruct x eqn:E; try discriminate H
         | (if ?x then _ else _) = Some _ => let E := fresh "E" in destruct x eqn:E; try discriminate H
         | Some _ = Some _ => injection H as H; subst
         | None = Some _ => discriminate H
         end.

Lemma Stuck_step t l vs vs' : Stuck t vs -> vexec v_unguarded (inp_own t) l vs = Some vs' -> Stuck t vs'.
Proof.
  intros [Hn H0 Hi Hc Ht Hr Hd] E.
  assert (Hpc : forall i, pc (base vs) i = RRun (Some 0) \/ pc (base vs) i = RNone).
  { intros i. destruct (Nat.eq_dec i 0) as [->|Hne]; auto. }
  assert (Hbase : forall l0 s', exec (inp_own t) l0 (base vs) = Some s' ->
            nrecv s' = 1 /\ pc s' 0 = RRun (Some 0) /\ (forall i, i <> 0 -> pc s' i = RNone) /\ closed s' 0 = false /\
            tags s' t = Some 0 /\ replies s' = []).
  { intros l0 s' E0. destruct l0; cbn [exec] in E0;
      try (destruct (Hpc i) as [Hp|Hp]; rewrite Hp in E0; try discriminate E0).
    - (* LInc *) inv_match E0. cbn. repeat split; assumption.
    - (* LRecv *) rewrite Hn in E0. cbn in E0. inv_match E0; cbn; repeat split; assumption.
    - (* LEnter *) destruct (Nat.eq_dec i 0) as [->|Hne]; [cbn in E0; discriminate|rewrite (Hi i Hne) in Hp; discriminate].
    - (* LReturn *) destruct (Nat.eq_dec i 0) as [->|Hne]; [cbn in E0; discriminate|rewrite (Hi i Hne) in Hp; discriminate].
    - (* LPass *) destruct (Nat.eq_dec i 0) as [->|Hne]; [cbn in E0; rewrite Hc in E0; discriminate|rewrite (Hi i Hne) in Hp; discriminate].
    - (* LBreak *) inv_match E0. cbn. repeat split; assumption. }
  destruct l as [l|i r|i|i]; cbn [vexec v_unguarded v_detach v_suppress andb] in E; try discriminate.
  - assert (Hs : exists s', exec (inp_own t) l (base vs) = Some s' /\ base vs' = s' /\ det vs' = det vs).
    { destruct l; try (destruct (exec (inp_own t) _ (base vs)) as [s'|] eqn:E0; [|discriminate]; injection E as <-; cbn; eauto).
      (* LCapture: no request is at RStarted *)
      unfold capture_of in E. destruct (Hpc i) as [Hp|Hp]; rewrite Hp in E; discriminate. }
    destruct Hs as (s' & E0 & Hb & Hd'). destruct (Hbase l s' E0) as (A1 & A2 & A3 & A4 & A5 & A6). rewrite <- Hb in *.
    constructor; auto. congruence.
  - rewrite Hd in E. cbn in E. discriminate.
Qed.

Lemma Stuck_steps t vs vs' : Stuck t vs -> vsteps v_unguarded (inp_own t) vs vs' -> Stuck t vs'.
Proof. intros S H. induction H as [vs|vs vs1 l vs2 H IH E]; [assumption|]. eapply Stuck_step; [apply IH; exact S|exact E]. Qed.

Definition own_run : list vlabel := map VBase [LInc; LRecv; LStart 0; LCapture 0; LSpawn 0 rflush_reply].

Lemma own_run_stuck t : exists vs0, vrun v_unguarded (inp_own t) own_run vinit = Some vs0 /\ Stuck t vs0.
Proof.
  eexists. split.
  - cbn. unfold updN. rewrite N.eqb_refl. cbn. reflexivity.
  - constructor; cbn; auto.
    + intros i Hne. unfold upd. destruct (Nat.eqb_spec i 0); [contradiction|reflexivity].
    + unfold updN. now rewrite N.eqb_refl.
Qed.

Theorem unguarded_own_flush_never_answered : forall t, exists vs0,
  vreachable v_unguarded (inp_own t) vs0 /\
  forall vs, vsteps v_unguarded (inp_own t) vs0 vs ->
    pc (base vs) 0 = RRun (Some 0) /\ final (pc (base vs) 0) = false /\         (* the flush sits in <-t.wait *)
    (forall r, ~ In (0, r) (replies (base vs))) /\                               (* it is never answered *)
    tags (base vs) t = Some 0 /\                                                 (* its tag stays active: re-use is dropped *)
    (forall l vs', vexec v_unguarded (inp_own t) l vs = Some vs' -> pc (base vs') 0 = RRun (Some 0)).
Proof.
  intros t. destruct (own_run_stuck t) as (vs0 & E & S). exists vs0. split.
  - eapply vrun_reachable; [constructor|exact E].
  - intros vs Hs. pose proof (Stuck_steps t vs0 vs S Hs) as S'. split; [apply S'|]. split; [now rewrite (S_pc0 t vs S')|].
    split; [intros r; rewrite (S_replies t vs S'); intros []|]. split; [apply S'|].
    intros l vs' E'. apply (S_pc0 t vs' (Stuck_step t l vs vs' S' E')).
Qed.

(** ... whereas the faithful variant answers it at once (C14_at_once_answered, own-tag case). *)

(** ---- refutation 2: a backend call detached from its handler ---- *)
Definition v_detaching : variant := mkV true true false.
Definition recv_labels (i : nat) : list vlabel := map VBase [LInc; LRecv; LStart i; LCapture i; LSpawn i rflush_reply].
Definition send_labels (i : nat) : list vlabel := map VBase [LClear i; LLock i; LChunk i; LUnlock i].

Theorem detached_call_outlives_rflush : exists vs,
  vreachable v_detaching [FReq 1 KOp; FReq 2 (KFlush 1)] vs /\
  In (1, rflush_reply) (replies (base vs)) /\       (* Rflush(old = 1) is on the wire *)
  In 0 (det vs) /\                                   (* a backend call made on behalf of request 0 (tag 1) is still running *)
  cleared (pc (base vs) 0) = true.                   (* although its handler returned and ClearTag ran (what the flush waited for) *)
Proof.
  destruct (vrun v_detaching [FReq 1 KOp; FReq 2 (KFlush 1)]
              (recv_labels 0 ++ [VBase (LEnter 0)] ++ recv_labels 1 ++ [VDetach 0 (mkReply RMatch 0); VBase (LClear 0); VBase (LPass 1)] ++ send_labels 1)
              vinit) as [vs|] eqn:E; [|vm_compute in E; discriminate].
  exists vs. split; [eapply vrun_reachable; [constructor|exact E]|].
  vm_compute in E. injection E as <-. cbn. repeat split; auto.
Qed.

(** ---- refutation 3: the reply of a flushed request is skipped ---- *)
Definition v_suppressing : variant := mkV true false true.

Theorem suppressed_reply_never_sent : exists vs,
  vreachable v_suppressing [FReq 1 KOp; FReq 2 (KFlush 1)] vs /\
  (forall i, i < 2 -> final (pc (base vs) i) = true) /\                     (* both goroutines are through *)
  replies (base vs) = [(1, rflush_reply)] /\                                  (* only the Rflush was written *)
  wbroken (base vs) = false /\                                                (* the peer is still reading *)
  In 0 (flushed vs) /\ In 0 (skipped vs).
Proof.
  destruct (vrun v_suppressing [FReq 1 KOp; FReq 2 (KFlush 1)]
              (recv_labels 0 ++ [VBase (LEnter 0)] ++ recv_labels 1 ++
               [VBase (LExit 0); VBase (LReturn 0 (mkReply RMatch 2)); VBase (LClear 0); VSkip 0; VBase (LPass 1)] ++ send_labels 1)
              vinit) as [vs|] eqn:E; [|vm_compute in E; discriminate].
  exists vs. split; [eapply vrun_reachable; [constructor|exact E]|].
  vm_compute in E. injection E as <-. cbn. split; [intros [|[|i]] Hi; [reflexivity|reflexivity|lia]|]. repeat split; auto.
Qed.
