(** The fid table's mutex (cs.fidMu, p9/server.go) as a component model of its own: every request of a
    connection begins with LookupFID and may InsertFID / DeleteFID, so whatever runs while fidMu is held delays
    EVERY other fid-carrying request of the connection.  C06's clause "a request blocked inside the backend delays
    only requests that the File concurrency contract orders after it" therefore needs: no backend call is made
    while fidMu is held (File.Close, reached through DecRef, has no place in the contract's ordering).

    A request is a program: a list of
      OCS    one critical section of fidMu without any blocking operation (map access, IncRef = one atomic add);
      OBack  one backend call made while fidMu is NOT held (it returns when the environment lets it: LRet);
      OCSB   a critical section that makes a backend call while holding fidMu - the shape DeleteFID / InsertFID
             had before fix 9140d2e (DecRef under the lock) and have again under the seeded changes C06-m4 /
             C06-revert-fidmu-across-close.
    The code has only OCS and OBack ("clean" programs): that is the generated obligation
    Loop/Tie.v [short_sections_nonblocking] (every call made under fidMu / tagMu in package p9 is IncRef, make,
    delete, close or panic; IncRef's body is one atomic add).  Any number of goroutines, any programs, all
    interleavings.  Theorems: mutual exclusion; with clean programs the holder of fidMu can always leave by a step
    of its own, so a request that wants the table gets it after at most one step of another goroutine and NO
    backend return ([fidmu_nonblocking], [fidmu_section_completes]); with one OCSB program this is false
    ([fidmu_blocked_if_backend_call_inside]: no server step at all is enabled while the backend holds the call). *)
From Coq Require Import List Bool Arith Lia.
Import ListNotations.

Inductive op := OCS | OBack | OCSB.
Inductive phase := PReady | PInCS | PInBack | PInCSBack.

Record fstate := mkF {
  mu : option nat;              (* holder of fidMu *)
  prog : nat -> list op;        (* what goroutine t still has to do *)
  ph : nat -> phase
}.

Definition fupd {A} (f : nat -> A) (i : nat) (x : A) : nat -> A := fun j => if Nat.eqb j i then x else f j.

Inductive flabel :=
| FAcq (t : nat)     (* fidMu.Lock succeeds *)
| FRel (t : nat)     (* fidMu.Unlock *)
| FCall (t : nat)    (* a backend call starts *)
| FRet (t : nat).    (* the backend call returns: the environment's move *)

Definition server_label (l : flabel) : bool := match l with FRet _ => false | _ => true end.

Definition fexec (l : flabel) (s : fstate) : option fstate :=
  match l with
  | FAcq t =>
      match mu s, ph s t, prog s t with
      | None, PReady, (OCS | OCSB) :: _ => Some (mkF (Some t) (prog s) (fupd (ph s) t PInCS))
      | _, _, _ => None
      end
  | FRel t =>
      match ph s t, prog s t with
      | PInCS, OCS :: r => Some (mkF None (fupd (prog s) t r) (fupd (ph s) t PReady))
      | _, _ => None
      end
  | FCall t =>
      match ph s t, prog s t with
      | PReady, OBack :: _ => Some (mkF (mu s) (prog s) (fupd (ph s) t PInBack))
      | PInCS, OCSB :: _ => Some (mkF (mu s) (prog s) (fupd (ph s) t PInCSBack))
      | _, _ => None
      end
  | FRet t =>
      match ph s t, prog s t with
      | PInBack, OBack :: r => Some (mkF (mu s) (fupd (prog s) t r) (fupd (ph s) t PReady))
      | PInCSBack, OCSB :: r => Some (mkF (mu s) (fupd (prog s) t (OCS :: r)) (fupd (ph s) t PInCS))
      | _, _ => None
      end
  end.

Definition finit (p : nat -> list op) : fstate := mkF None p (fun _ => PReady).

Inductive freachable (p : nat -> list op) : fstate -> Prop :=
| fr_init : freachable p (finit p)
| fr_step s l s' : freachable p s -> fexec l s = Some s' -> freachable p s'.

Fixpoint frun (ls : list flabel) (s : fstate) : option fstate :=
  match ls with
  | [] => Some s
  | l :: r => match fexec l s with Some s' => frun r s' | None => None end
  end.

Definition in_cs (x : phase) : bool := match x with PInCS | PInCSBack => true | _ => false end.
Definition clean_op (o : op) : bool := match o with OCSB => false | _ => true end.
Definition clean (p : list op) : bool := forallb clean_op p.

Record FInv (s : fstate) : Prop := {
  F_holder : forall h, mu s = Some h -> in_cs (ph s h) = true;
  F_only : forall t, in_cs (ph s t) = true -> mu s = Some t;
  F_head_cs : forall t, ph s t = PInCS -> exists o r, prog s t = o :: r /\ (o = OCS \/ o = OCSB);
  F_head_csb : forall t, ph s t = PInCSBack -> exists r, prog s t = OCSB :: r
}.

Lemma fupd_same {A} (f : nat -> A) i x : fupd f i x i = x.
Proof. unfold fupd. now rewrite Nat.eqb_refl. Qed.
Lemma fupd_other {A} (f : nat -> A) i j x : j <> i -> fupd f i x j = f j.
Proof. intros H. unfold fupd. destruct (Nat.eqb_spec j i); [contradiction|reflexivity]. Qed.

Ltac fupd_case t u :=
  destruct (Nat.eq_dec u t) as [->|?]; [rewrite ?fupd_same in *|rewrite ?fupd_other in * by assumption].

Lemma FInv_init p : FInv (finit p).
Proof. constructor; cbn; intros; try discriminate. Qed.

Lemma FInv_step s l s' : FInv s -> fexec l s = Some s' -> FInv s'.
Proof.
  intros I E. destruct l as [t|t|t|t]; cbn in E.
  - (* FAcq *)
    destruct (mu s) eqn:Hm; [discriminate|]. destruct (ph s t) eqn:Hp; try discriminate.
    destruct (prog s t) as [|o r] eqn:Hg; [discriminate|].
    assert (Ho : o = OCS \/ o = OCSB) by (destruct o; try discriminate; auto).
    assert (s' = mkF (Some t) (prog s) (fupd (ph s) t PInCS)) as -> by (destruct o; congruence).
    constructor; cbn.
    + intros h [= <-]. now rewrite fupd_same.
    + intros u Hu. fupd_case t u; [reflexivity|]. apply (F_only s I) in Hu. congruence.
    + intros u Hu. fupd_case t u; [eauto|]. now apply (F_head_cs s I).
    + intros u Hu. fupd_case t u; [discriminate|]. now apply (F_head_csb s I).
  - (* FRel *)
    destruct (ph s t) eqn:Hp; try discriminate. destruct (prog s t) as [|[| |] r] eqn:Hg; try discriminate.
    injection E as <-.
    assert (Hmu : mu s = Some t) by (apply (F_only s I); now rewrite Hp).
    constructor; cbn.
    + discriminate.
    + intros u Hu. fupd_case t u; [discriminate|]. apply (F_only s I) in Hu. congruence.
    + intros u Hu. fupd_case t u; [discriminate|]. now apply (F_head_cs s I).
    + intros u Hu. fupd_case t u; [discriminate|]. now apply (F_head_csb s I).
  - (* FCall *)
    destruct (ph s t) eqn:Hp; try discriminate.
    + destruct (prog s t) as [|[| |] r] eqn:Hg; try discriminate. injection E as <-.
      constructor; cbn.
      * intros h Hh. fupd_case t h; [|now apply (F_holder s I)].
        apply (F_holder s I) in Hh. rewrite Hp in Hh. discriminate.
      * intros u Hu. fupd_case t u; [discriminate|]. now apply (F_only s I).
      * intros u Hu. fupd_case t u; [discriminate|]. now apply (F_head_cs s I).
      * intros u Hu. fupd_case t u; [discriminate|]. now apply (F_head_csb s I).
    + destruct (prog s t) as [|[| |] r] eqn:Hg; try discriminate. injection E as <-.
      constructor; cbn.
      * intros h Hh. fupd_case t h; [reflexivity|now apply (F_holder s I)].
      * intros u Hu. fupd_case t u; [apply (F_only s I); now rewrite Hp|now apply (F_only s I)].
      * intros u Hu. fupd_case t u; [discriminate|]. now apply (F_head_cs s I).
      * intros u Hu. fupd_case t u; [eauto|]. now apply (F_head_csb s I).
  - (* FRet *)
    destruct (ph s t) eqn:Hp; try discriminate.
    + destruct (prog s t) as [|[| |] r] eqn:Hg; try discriminate. injection E as <-.
      constructor; cbn.
      * intros h Hh. fupd_case t h; [|now apply (F_holder s I)].
        apply (F_holder s I) in Hh. rewrite Hp in Hh. discriminate.
      * intros u Hu. fupd_case t u; [discriminate|]. now apply (F_only s I).
      * intros u Hu. fupd_case t u; [discriminate|]. now apply (F_head_cs s I).
      * intros u Hu. fupd_case t u; [discriminate|]. now apply (F_head_csb s I).
    + destruct (prog s t) as [|[| |] r] eqn:Hg; try discriminate. injection E as <-.
      constructor; cbn.
      * intros h Hh. fupd_case t h; [reflexivity|now apply (F_holder s I)].
      * intros u Hu. fupd_case t u; [apply (F_only s I); now rewrite Hp|now apply (F_only s I)].
      * intros u Hu. fupd_case t u; [eauto|]. now apply (F_head_cs s I).
      * intros u Hu. fupd_case t u; [discriminate|]. now apply (F_head_csb s I).
Qed.

Lemma freachable_FInv p s : freachable p s -> FInv s.
Proof. induction 1; [apply FInv_init|eapply FInv_step; eauto]. Qed.

(** programs stay clean (an OCSB never appears out of nothing) *)
Lemma clean_step s l s' : (forall t, clean (prog s t) = true) -> fexec l s = Some s' -> forall t, clean (prog s' t) = true.
Proof.
  intros C E u. destruct l as [t|t|t|t]; cbn in E.
  - destruct (mu s); [discriminate|]. destruct (ph s t); try discriminate. destruct (prog s t) as [|[| |] r]; try discriminate; injection E as <-; apply C.
  - destruct (ph s t); try discriminate. destruct (prog s t) as [|[| |] r] eqn:Hg; try discriminate. injection E as <-. cbn.
    fupd_case t u; [|apply C]. specialize (C t). rewrite Hg in C. cbn in C. exact C.
  - destruct (ph s t); try discriminate; destruct (prog s t) as [|[| |] r]; try discriminate; injection E as <-; apply C.
  - destruct (ph s t); try discriminate; destruct (prog s t) as [|[| |] r] eqn:Hg; try discriminate; injection E as <-; cbn.
    + fupd_case t u; [|apply C]. specialize (C t). rewrite Hg in C. cbn in C. exact C.
    + specialize (C t). rewrite Hg in C. cbn in C. discriminate.
Qed.

Lemma freachable_clean p s : (forall t, clean (p t) = true) -> freachable p s -> forall t, clean (prog s t) = true.
Proof. intros C R. induction R; [exact C|eapply clean_step; eauto]. Qed.

(** mutual exclusion *)
Lemma fidmu_mutex p s t u : freachable p s -> in_cs (ph s t) = true -> in_cs (ph s u) = true -> t = u.
Proof.
  intros R Ht Hu. pose proof (freachable_FInv p s R) as I.
  apply (F_only s I) in Ht. apply (F_only s I) in Hu. congruence.
Qed.

(** with clean programs no backend call is ever running under fidMu, and the holder can leave at once *)
Lemma fidmu_holder_not_in_backend p s h : (forall t, clean (p t) = true) -> freachable p s ->
  mu s = Some h -> ph s h = PInCS /\ exists r, prog s h = OCS :: r.
Proof.
  intros C R Hm. pose proof (freachable_FInv p s R) as I. pose proof (freachable_clean p s C R h) as Ch.
  pose proof (F_holder s I h Hm) as Hc. destruct (ph s h) eqn:Hp; try discriminate.
  - split; [reflexivity|]. destruct (F_head_cs s I h Hp) as (o & r & Hg & [->| ->]); [eauto|].
    rewrite Hg in Ch. discriminate.
  - destruct (F_head_csb s I h Hp) as (r & Hg). rewrite Hg in Ch. discriminate.
Qed.

Lemma fidmu_holder_releases p s h : (forall t, clean (p t) = true) -> freachable p s ->
  mu s = Some h -> exists s', fexec (FRel h) s = Some s' /\ mu s' = None.
Proof.
  intros C R Hm. destruct (fidmu_holder_not_in_backend p s h C R Hm) as (Hp & r & Hg).
  eexists. cbn. rewrite Hp, Hg. split; reflexivity.
Qed.

Lemma exec_rel s t r : ph s t = PInCS -> prog s t = OCS :: r ->
  fexec (FRel t) s = Some (mkF None (fupd (prog s) t r) (fupd (ph s) t PReady)).
Proof. intros Hp Hg. cbn. now rewrite Hp, Hg. Qed.
Lemma exec_acq s t r : mu s = None -> ph s t = PReady -> prog s t = OCS :: r ->
  fexec (FAcq t) s = Some (mkF (Some t) (prog s) (fupd (ph s) t PInCS)).
Proof. intros Hm Hp Hg. cbn. now rewrite Hm, Hp, Hg. Qed.

(** a request that wants the fid table gets it after at most ONE step of another goroutine (the holder's
    Unlock) - by server steps only: no backend call has to return, however many are blocked *)
Lemma fidmu_nonblocking p s t r : (forall u, clean (p u) = true) -> freachable p s ->
  ph s t = PReady -> prog s t = OCS :: r ->
  exists ls s', forallb server_label ls = true /\ List.length ls <= 2 /\ frun ls s = Some s' /\ ph s' t = PInCS /\ mu s' = Some t.
Proof.
  intros C R Hp Hg. destruct (mu s) as [h|] eqn:Hm.
  - destruct (fidmu_holder_not_in_backend p s h C R Hm) as (Hph & rh & Hgh).
    assert (Hne : t <> h) by (intros ->; congruence).
    pose (s1 := mkF None (fupd (prog s) h rh) (fupd (ph s) h PReady)).
    assert (E1 : fexec (FRel h) s = Some s1) by now apply exec_rel.
    assert (E2 : fexec (FAcq t) s1 = Some (mkF (Some t) (prog s1) (fupd (ph s1) t PInCS))).
    { apply (exec_acq s1 t r); cbn; [reflexivity|now rewrite fupd_other|now rewrite fupd_other]. }
    exists [FRel h; FAcq t]. eexists. split; [reflexivity|]. split; [cbn; lia|].
    cbn [frun]. rewrite E1, E2. split; [reflexivity|]. cbn. now rewrite fupd_same.
  - exists [FAcq t]. eexists. split; [reflexivity|]. split; [cbn; lia|].
    cbn [frun]. rewrite (exec_acq s t r Hm Hp Hg). split; [reflexivity|]. cbn. now rewrite fupd_same.
Qed.

(** ... and finishes its critical section: the whole table operation takes at most three server steps *)
Lemma fidmu_section_completes p s t r : (forall u, clean (p u) = true) -> freachable p s ->
  ph s t = PReady -> prog s t = OCS :: r ->
  exists ls s', forallb server_label ls = true /\ List.length ls <= 3 /\ frun ls s = Some s' /\
                ph s' t = PReady /\ prog s' t = r /\ mu s' = None.
Proof.
  assert (Hfree : forall s0, mu s0 = None -> ph s0 t = PReady -> prog s0 t = OCS :: r ->
            exists s', frun [FAcq t; FRel t] s0 = Some s' /\ ph s' t = PReady /\ prog s' t = r /\ mu s' = None).
  { intros s0 Hm Hp Hg.
    pose (s1 := mkF (Some t) (prog s0) (fupd (ph s0) t PInCS)).
    assert (E2 : fexec (FRel t) s1 = Some (mkF None (fupd (prog s1) t r) (fupd (ph s1) t PReady))).
    { apply exec_rel; cbn; [now rewrite fupd_same|exact Hg]. }
    eexists. cbn [frun]. rewrite (exec_acq s0 t r Hm Hp Hg). fold s1. rewrite E2.
    split; [reflexivity|]. cbn. now rewrite !fupd_same. }
  intros C R Hp Hg. destruct (mu s) as [h|] eqn:Hm.
  - destruct (fidmu_holder_not_in_backend p s h C R Hm) as (Hph & rh & Hgh).
    assert (Hne : t <> h) by (intros ->; congruence).
    pose (s1 := mkF None (fupd (prog s) h rh) (fupd (ph s) h PReady)).
    assert (E1 : fexec (FRel h) s = Some s1) by now apply exec_rel.
    destruct (Hfree s1) as (s' & E & H1 & H2 & H3); cbn; [reflexivity|now rewrite fupd_other|now rewrite fupd_other|].
    exists [FRel h; FAcq t; FRel t], s'. split; [reflexivity|]. split; [cbn; lia|].
    cbn [frun]. rewrite E1. cbn [frun] in E. rewrite E. auto.
  - destruct (Hfree s Hm Hp Hg) as (s' & E & H1 & H2 & H3).
    exists [FAcq t; FRel t], s'. split; [reflexivity|]. split; [cbn; lia|]. auto.
Qed.

(** The obligation is necessary: goroutine 0 runs DeleteFID with the backend's Close inside the critical section
    (OCSB), goroutine 1 only wants to look a fid up.  Once 0 is inside Close, NO server step of any goroutine is
    enabled: request 1 is delayed until the backend returns, although the contract orders nothing after a Close. *)
Definition bad_prog (t : nat) : list op := match t with 0 => [OCSB] | 1 => [OCS] | _ => [] end.
Definition bad_state : fstate := mkF (Some 0) bad_prog (fupd (fupd (fun _ => PReady) 0 PInCS) 0 PInCSBack).

Lemma bad_state_reachable : freachable bad_prog bad_state.
Proof.
  apply (fr_step bad_prog (mkF (Some 0) bad_prog (fupd (fun _ => PReady) 0 PInCS)) (FCall 0)).
  - apply (fr_step bad_prog (finit bad_prog) (FAcq 0)); [constructor|reflexivity].
  - reflexivity.
Qed.

Lemma fidmu_blocked_if_backend_call_inside :
  freachable bad_prog bad_state /\ ph bad_state 1 = PReady /\ prog bad_state 1 = [OCS] /\
  (forall l, server_label l = true -> fexec l bad_state = None) /\
  (forall ls s', forallb server_label ls = true -> frun ls bad_state = Some s' -> s' = bad_state).
Proof.
  assert (Hstuck : forall l, server_label l = true -> fexec l bad_state = None).
  { intros [t|t|t|t] Hl; try discriminate; cbn.
    - reflexivity.
    - destruct t as [|[|t]]; reflexivity.
    - destruct t as [|[|t]]; reflexivity. }
  split; [exact bad_state_reachable|]. split; [reflexivity|]. split; [reflexivity|]. split; [exact Hstuck|].
  intros [|l ls] s' Hl E; cbn in *.
  - congruence.
  - apply andb_true_iff in Hl as [Hl _]. rewrite (Hstuck l Hl) in E. discriminate.
Qed.

(** ... while the environment's step (the backend returns) frees it: the model is not simply stuck *)
Example bad_state_released : exists s', frun [FRet 0; FRel 0; FAcq 1] bad_state = Some s' /\ ph s' 1 = PInCS.
Proof. eexists. split; reflexivity. Qed.
