(** The handlers of p9/handlers.go and connState.handle (p9/server.go) as one
    function [step] on the sequential model of State.v.  Definitions only. *)
From Coq Require Import NArith ZArith List String Ascii Bool.
From P9V Require Import Base.Str gen.ConstGen Fs.Version Server.State Server.Msg.
Import ListNotations.
Open Scope N_scope.
Open Scope m_scope.

Definition hd0 (l : list N) : N := match l with [] => 0 | x :: _ => x end.
Definition attr_mask_all : N := 16383.         (* AttrMaskAll: the 14 mask bits *)

Definition view_of (s : sstate) (r : refid) : fview :=
  let fr := get_ref s r in
  mkView (fr_mode fr) (fr_opened fr) (fr_flags fr) (is_deleted s r)
         (match fr_parent fr with None => true | Some _ => false end)
         (fr_xop fr) (fr_xsize fr) (fr_xlen fr) (fr_xflags fr).

(** connState.maxReplyPayload *)
Definition max_reply_payload (ms : option N) : N :=
  let m := match ms with None => p9_maximumLength | Some 0 => p9_maximumLength | Some m => m end in
  if m <? p9_headerLength + 4 then 0 else m - (p9_headerLength + 4).

Definition res (A : Type) := (errv + A)%type.
Definition fail {A} (n : N) : M (res A) := ret (inl (eno n)).

(** walkOne *)
Definition walk_plain (ga : bool) (from : handle) (node : nodeid) (names : list string)
  : M (res (list N * handle * bval)) :=
  '(v, e) <- backend (mkCall MWalk from names None [] []) ;;
  if is_err e then ret (inl e)
  else
    h <- fresh_handle ;;
    if ga then
      match names with
      | [n] => node_for node n ;; ret tt        (* fromNode.pathNodeFor(names[0]) for the child's lock *)
      | _ => ret tt
      end ;;
      '(va, ea) <- backend (mkCall MGetAttr h [] None [attr_mask_all] []) ;;
      if is_err ea then backend (call0 MClose h) ;; ret (inl ea)
      else ret (inr (bv_qids v, h, va))
    else ret (inr (bv_qids v, h, v0)).

Definition walk_one (ga : bool) (from : handle) (node : nodeid) (names : list string)
  : M (res (list N * handle * bval)) :=
  if (1 <? List.length names)%nat then fail linux_EINVAL
  else
    r <- (if ga then
            '(v, e) <- backend (mkCall MWalkGetAttr from names None [] []) ;;
            if has_enosys e then walk_plain ga from node names
            else if is_err e then ret (inl e)
            else h <- fresh_handle ;; ret (inr (bv_qids v, h, v))
          else walk_plain ga from node names) ;;
    match r with
    | inl e => ret (inl e)
    | inr (q, h, a) =>
        if (List.length names =? 1)%nat && negb (List.length q =? 1)%nat
        then backend (call0 MClose h) ;; fail linux_EINVAL
        else ret (inr (q, h, a))
    end.

Definition plain_ref (h : handle) (mode : N) (node : nodeid) (parent : option refid) : fidref :=
  mkRef h 0 false 0 mode node parent p9_xattrNone "" 0 0 0 None.

(** doWalk, the loop over one or more names; [walk] carries the walk reference *)
Fixpoint walk_loop (names : list string) (walk : refid) (qids : list N) (last : bval)
  : M (res (list N * refid * bval)) :=
  match names with
  | [] => ret (inr (qids, walk, last))
  | n :: rest =>
      wfr <- the_ref walk ;;
      if negb (is_dir (fr_mode wfr)) then dec_ref_ walk ;; fail linux_EINVAL
      else
        del <- gets (fun s => is_deleted s walk) ;;
        if del then dec_ref_ walk ;; fail linux_ENOENT
        else
          r <- walk_one true (fr_file wfr) (fr_node wfr) [n] ;;
          match r with
          | inl e => dec_ref_ walk ;; ret (inl e)
          | inr (q, h, a) =>
              node <- node_for (fr_node wfr) n ;;
              nr <- new_ref (plain_ref h (ftype (bv_mode a)) node (Some walk)) ;;
              add_child (fr_node wfr) nr n ;;
              incref nr ;;
              walk_loop rest nr (qids ++ q)%list a
          end
  end.

Definition do_walk (ref : refid) (names : list string) (ga : bool) : M (res (list N * refid * bval)) :=
  if negb (forallb safe_nameb names) then fail linux_EINVAL
  else
    match names with
    | [] =>
        fr <- the_ref ref ;;
        match fr_xof fr with
        | Some _ => fail linux_EINVAL        (* an xattr fid is not part of the path tree: no clone *)
        | None =>
        r <- walk_one ga (fr_file fr) (fr_node fr) [] ;;
        match r with
        | inl e => ret (inl e)
        | inr (_, h, a) =>
            nr <- new_ref (plain_ref h (fr_mode fr) (fr_node fr) (fr_parent fr)) ;;
            match fr_parent fr with
            | Some p =>
                del <- gets (fun s => is_deleted s nr) ;;
                pfr <- the_ref p ;;
                (if del then ret tt
                 else nm <- name_for (fr_node pfr) ref ;; add_child (fr_node pfr) nr nm) ;;
                incref p
            | None => ret tt
            end ;;
            incref nr ;;
            ret (inr ([], nr, a))
        end
        end
    | _ => incref ref ;; walk_loop names ref [] v0
    end.

Definition ok (typ : N) (vals : list N) : reply := ROk typ vals "".

(** the bodies of the common-shape handlers, after names, lookups and guards *)
Definition body (c : connid) (m : tmsg) (r : refid) (t : refid) : M (res reply) :=
  fr <- the_ref r ;;
  tfr <- the_ref t ;;
  let file := fr_file fr in
  match m with
  | Tlopen _ flags =>
      '(v, e) <- backend (mkCall MOpen file [] None [flags] []) ;;
      if is_err e then ret (inl e)
      else modify (put_ref r (set_opened fr flags)) ;; ret (inr (ok p9_msgRlopen [hd0 (bv_qids v); bv_n v]))
  | Tlcreate u f name flags perm gid =>
      let uid := match u with Some x => x | None => p9_NoUID end in
      '(v, e) <- backend (mkCall MCreate file [name] None [flags; perm; uid; gid] []) ;;
      if is_err e then ret (inl e)
      else
        h <- fresh_handle ;;
        node <- node_for (fr_node fr) name ;;
        nr <- new_ref (mkRef h 0 true flags p9_ModeRegular node (Some r) p9_xattrNone "" 0 0 0 None) ;;
        add_child (fr_node fr) nr name ;;
        incref r ;;
        insert_fid c f nr ;;
        ret (inr (ok (match u with Some _ => p9_msgRucreate | None => p9_msgRlcreate end) [hd0 (bv_qids v); bv_n v]))
  | Tsymlink u _ name target gid =>
      let uid := match u with Some x => x | None => p9_NoUID end in
      '(v, e) <- backend (mkCall MSymlink file [name] None [uid; gid] [target]) ;;
      if is_err e then ret (inl e)
      else ret (inr (ok (match u with Some _ => p9_msgRusymlink | None => p9_msgRsymlink end) [hd0 (bv_qids v)]))
  | Tmknod u _ name mode major minor gid =>
      let uid := match u with Some x => x | None => p9_NoUID end in
      '(v, e) <- backend (mkCall MMknod file [name] None [mode; major; minor; uid; gid] []) ;;
      if is_err e then ret (inl e)
      else ret (inr (ok (match u with Some _ => p9_msgRumknod | None => p9_msgRmknod end) [hd0 (bv_qids v)]))
  | Tmkdir u _ name perm gid =>
      let uid := match u with Some x => x | None => p9_NoUID end in
      '(v, e) <- backend (mkCall MMkdir file [name] None [perm; uid; gid] []) ;;
      if is_err e then ret (inl e)
      else ret (inr (ok (match u with Some _ => p9_msgRumkdir | None => p9_msgRmkdir end) [hd0 (bv_qids v)]))
  | Tlink _ _ name =>
      '(_, e) <- backend (mkCall MLink file [name] (Some (fr_file tfr)) [] []) ;;
      if is_err e then ret (inl e) else ret (inr (ok p9_msgRlink []))
  | Trenameat _ old _ new =>
      if (fr_node fr =? fr_node tfr) && String.eqb old new then ret (inr (ok p9_msgRrenameat []))
      else
        '(_, e) <- backend (mkCall MRenameAt file [old; new] (Some (fr_file tfr)) [] []) ;;
        if is_err e then ret (inl e)
        else rename_child_to r old t new ;; ret (inr (ok p9_msgRrenameat []))
  | Tunlinkat _ name flags =>
      node_for (fr_node fr) name ;;
      '(_, e) <- backend (mkCall MUnlinkAt file [name] None [flags] []) ;;
      if is_err e then ret (inl e)
      else mark_child_deleted (fr_node fr) name ;; ret (inr (ok p9_msgRunlinkat []))
  | Trename _ _ name =>
      match fr_parent fr with
      | None => panic
      | Some p =>
          pfr <- the_ref p ;;
          pdel <- gets (fun s => is_deleted s p) ;;
          if pdel then panic
          else
            old <- name_for (fr_node pfr) r ;;
            if (fr_node pfr =? fr_node tfr) && String.eqb old name then ret (inr (ok p9_msgRrename []))
            else
              '(_, e) <- backend (mkCall MRenameAt (fr_file pfr) [old; name] (Some (fr_file tfr)) [] []) ;;
              if is_err e then ret (inl e)
              else rename_child_to p old t name ;; ret (inr (ok p9_msgRrename []))
      end
  | Tremove _ =>
      match fr_parent fr with
      | None => panic
      | Some p =>
          pfr <- the_ref p ;;
          name <- name_for (fr_node pfr) r ;;
          '(_, e) <- backend (mkCall MUnlinkAt (fr_file pfr) [name] None [0] []) ;;
          if is_err e then ret (inl e)
          else mark_child_deleted (fr_node pfr) name ;; ret (inr (ok p9_msgRremove []))
      end
  | Treadlink _ =>
      '(v, e) <- backend (call0 MReadlink file) ;;
      if is_err e then ret (inl e)
      else ret (inr (ROk p9_msgRreadlink [] (match bv_strs v with s :: _ => s | [] => "" end)))
  | Tread _ off count =>
      ms <- gets (fun s => alookup c (st_msize s)) ;;
      let cnt := N.min count (max_reply_payload ms) in
      let cap := match ms with Some x => x | None => 0 end in
      if fr_xop fr =? p9_xattrNone then
        '(v, e) <- backend (mkCall MReadAt file [] None [cnt; off] []) ;;
        if is_err e && negb (has_eof e) then ret (inl e)
        else if cap <? bv_n v then panic                      (* dataBuf[:n] out of range *)
        else ret (inr (ok p9_msgRread [bv_n v]))
      else if count =? 0 then ret (inr (ok p9_msgRread [0]))
      else ret (inr (ok p9_msgRread [N.min cnt (fr_xlen fr - off)]))
  | Twrite _ off len =>
      if fr_xop fr =? p9_xattrNone then
        '(v, e) <- backend (mkCall MWriteAt file [] None [len; off] []) ;;
        if is_err e then ret (inl e) else ret (inr (ok p9_msgRwrite [bv_n v mod two32]))
      else
        modify (put_ref r (set_xattr fr (fr_xop fr) (fr_xname fr) (fr_xsize fr) (fr_xflags fr) (fr_xlen fr + len))) ;;
        ret (inr (ok p9_msgRwrite [len mod two32]))
  | Tgetattr _ mask =>
      '(v, e) <- backend (mkCall MGetAttr file [] None [mask] []) ;;
      if is_err e then ret (inl e) else ret (inr (ok p9_msgRgetattr [hd0 (bv_qids v); bv_mode v]))
  | Tsetattr _ valid =>
      '(_, e) <- backend (mkCall MSetAttr file [] None [valid] []) ;;
      if is_err e then ret (inl e) else ret (inr (ok p9_msgRsetattr []))
  | Txattrwalk f nf name =>
      '(len, e) <- (if negb (String.eqb name "") then
                      '(v, e) <- backend (mkCall MGetXattr file [] None [] [name]) ;; ret (bv_n v, e)
                    else
                      '(v, e) <- backend (call0 MListXattrs file) ;;
                      ret (match bv_strs v with
                           | [] => 1
                           | l => fold_right (fun s acc => N.of_nat (String.length s) + 1 + acc) 0 l
                           end, e)) ;;
      if is_err e then ret (inl e)
      else if p9_maximumLength <? len mod two32 then fail linux_EINVAL
      else
        nr <- new_ref (mkRef file 0 false 0 0 (fr_node fr) None p9_xattrWalk name len 0 len (Some r)) ;;
        incref r ;;
        insert_fid c nf nr ;;
        ret (inr (ok p9_msgRxattrwalk [len]))
  | Txattrcreate _ name size flags =>
      modify (put_ref r (set_xattr fr p9_xattrCreate name size flags 0)) ;;
      ret (inr (ok p9_msgRxattrcreate []))
  | Treaddir _ off count =>
      '(_, e) <- backend (mkCall MReaddir file [] None [off; count] []) ;;
      if is_err e && negb (has_eof e) then ret (inl e) else ret (inr (ok p9_msgRreaddir []))
  | Tfsync _ =>
      '(_, e) <- backend (call0 MFSync file) ;;
      if is_err e then ret (inl e) else ret (inr (ok p9_msgRfsync []))
  | Tstatfs _ =>
      '(_, e) <- backend (call0 MStatFS file) ;;
      if is_err e then ret (inl e) else ret (inr (ok p9_msgRstatfs []))
  | Tlock _ typ flags start len pid client =>
      '(v, e) <- backend (mkCall MLock file [] None [pid; typ; flags; start; len] [client]) ;;
      if is_err e then ret (inl e) else ret (inr (ok p9_msgRlock [bv_n v]))
  | Twalk _ nf names =>
      w <- do_walk r names false ;;
      match w with
      | inl e => ret (inl e)
      | inr (q, nr, _) => with_defer (dec_ref_ nr) (insert_fid c nf nr ;; ret (inr (ok p9_msgRwalk q)))
      end
  | Twalkgetattr _ nf names =>
      w <- do_walk r names true ;;
      match w with
      | inl e => ret (inl e)
      | inr (q, nr, a) =>
          with_defer (dec_ref_ nr) (insert_fid c nf nr ;; ret (inr (ok p9_msgRwalkgetattr (q ++ [bv_mode a])%list)))
      end
  | _ => fail linux_ENOSYS
  end.

(** Tremove unbinds its fid after the guarded part, whatever that reported *)
Definition post (c : connid) (m : tmsg) (x : res reply) : M (res reply) :=
  match m with
  | Tremove f =>
      derr <- delete_fid c f ;;
      if is_err derr then ret (inl derr) else ret x
  | _ => ret x
  end.

(** checkSafeName on the name fields, LookupFID of one or two fids (with the
    deferred DecRef), the guards in order, then the body *)
Definition guarded (c : connid) (m : tmsg) (k : hkind) : M (res reply) :=
  if negb (forallb safe_nameb (names_of m)) then fail linux_EINVAL
  else
    o <- lookup_fid c (fid1_of m) ;;
    match o with
    | None => fail linux_EBADF
    | Some r =>
        with_defer (dec_ref_ r)
          (let inner (t : refid) : M (res reply) :=
             ms <- gets (fun s => alookup c (st_msize s)) ;;
             p <- gets (fun s => view_of s r) ;;
             tv <- gets (fun s => view_of s t) ;;
             x <- match first_failing (guards_of k) m ms p tv with
                  | Some (GE e) => fail e
                  | Some GP => panic
                  | None => body c m r t
                  end ;;
             post c m x in
           match fid2_of m with
           | None => inner r
           | Some f2 =>
               o2 <- lookup_fid c f2 ;;
               match o2 with
               | None => fail linux_EBADF
               | Some t => with_defer (dec_ref_ t) (inner t)
               end
           end)
    end.

Definition strip_slash (s : string) : string :=
  match s with String a r => if Ascii.eqb a slash then r else s | EmptyString => s end.

Definition h_attach (c : connid) (f afid : N) (aname : string) : M reply :=
  if negb (afid =? p9_noFID) then ret (RErr linux_EINVAL)
  else
    let name := strip_slash aname in
    '(_, e) <- backend (call0 MAttach 0) ;;
    if is_err e then ret (RErr (extract_errno e))
    else
      h <- fresh_handle ;;
      root <- new_ref (mkRef h 1 false 0 0 0 None p9_xattrNone "" 0 0 0 None) ;;
      with_defer (dec_ref_ root)
        ('(va, ea) <- backend (mkCall MGetAttr h [] None [attr_mask_all] []) ;;
         if is_err ea then ret (RErr (extract_errno ea))
         else if negb (bv_valid va) then ret (RErr linux_EINVAL)
         else
           rfr <- the_ref root ;;
           modify (put_ref root (mkRef (fr_file rfr) (fr_refs rfr) false 0 (ftype (bv_mode va)) 0 None p9_xattrNone "" 0 0 0 None)) ;;
           if String.eqb name "" then insert_fid c f root ;; ret (ok p9_msgRattach [hd0 (bv_qids va)])
           else
             w <- do_walk root (split_on slash name) false ;;
             match w with
             | inl e => ret (RErr (extract_errno e))
             | inr (_, nr, _) =>
                 with_defer (dec_ref_ nr) (insert_fid c f nr ;; ret (ok p9_msgRattach [hd0 (bv_qids va)]))
             end).

(** clunkHandleXattr: None = the nil message *)
Definition clunk_xattr (c : connid) (f : N) : M (option errv) :=
  o <- lookup_fid c f ;;
  match o with
  | None => ret (Some (eno linux_EBADF))
  | Some r =>
      with_defer (dec_ref_ r)
        (fr <- the_ref r ;;
         if fr_xop fr =? p9_xattrCreate then
           if negb (fr_xlen fr =? fr_xsize fr) then ret (Some (eno linux_EINVAL))
           else
             '(_, e) <- (if (fr_xflags fr =? p9_XattrReplace) && (fr_xsize fr =? 0)
                         then backend (mkCall MRemoveXattr (fr_file fr) [] None [] [fr_xname fr])
                         else backend (mkCall MSetXattr (fr_file fr) [] None [fr_xlen fr; fr_xflags fr] [fr_xname fr])) ;;
             ret (if is_err e then Some e else None)
         else ret None)
  end.

Definition h_clunk (c : connid) (f : N) : M reply :=
  cerr <- clunk_xattr c f ;;
  derr <- delete_fid c f ;;
  if is_err derr then ret (RErr (extract_errno derr))
  else match cerr with
       | Some e => ret (RErr (extract_errno e))
       | None => ret (ok p9_msgRclunk [])
       end.

Definition h_version (c : connid) (msize : N) (ver : string) : M reply :=
  let '((m, v), st) := tversion_handle msize ver in
  match st with
  | Some (ms, _) => modify (put_msize c ms)
  | None => ret tt
  end ;;
  ret (RVersion m v).

Definition handler (c : connid) (m : tmsg) : M reply :=
  match m with
  | Tversion msize ver => h_version c msize ver
  | Tflush _ => ret (ok p9_msgRflush [])
  | Tauth _ _ _ _ => ret (RErr linux_ENOSYS)
  | Tattach f afid _ aname _ => h_attach c f afid aname
  | Tclunk f => h_clunk c f
  | Tother _ => ret (RErr linux_ENOSYS)
  | _ =>
      match kind_of m with
      | Some k =>
          x <- guarded c m k ;;
          ret (match x with inl e => RErr (extract_errno e) | inr r => r end)
      | None => ret (RErr linux_ENOSYS)
      end
  end.

(** connState.handle: a panic in the handler becomes Rlerror EFAULT.  Result:
    new state, reply, the backend calls with their answers in call order, the
    unconsumed tape. *)
Definition step (s : sstate) (c : connid) (m : tmsg) (tape : list answer)
  : sstate * reply * list (bcall * answer) * list answer :=
  match handler c m (mkW s tape []) with
  | (Ok r, w) => (w_st w, r, rev (w_log w), w_tape w)
  | (Panic, w) => (w_st w, RErr linux_EFAULT, rev (w_log w), w_tape w)
  end.
