(** C15 / C04: exact behaviour of the model on the request classes that can be
    decided by symbolic execution for ALL states and tapes: single-call handlers
    whose call fails, requests on unbound fids, Tauth, auth-fid attach. *)
From Coq Require Import NArith ZArith List String Bool.
From P9V Require Import Base.Str gen.ConstGen gen.HandlerGen Fs.Version Server.State Server.Msg Server.Handlers.
Import ListNotations.
Open Scope N_scope.

Lemma extract_linux_first pre n post :
  first_linux pre = None -> extract_errno (pre ++ LLinux n :: post)%list = n.
Proof.
  intros H. unfold extract_errno.
  assert (E : first_linux (pre ++ LLinux n :: post)%list = Some n).
  { induction pre as [|l pre IH]; cbn; [reflexivity|]. destruct l; cbn in H; try discriminate; auto. }
  now rewrite E.
Qed.

Lemma source_recover :
  find (fun e => String.eqb (fst e) "connState.handle") handler_traces =
  Some ("connState.handle"%string,
        ["defer:func"; "if:r == nil"; "recover"; "seterr:r:EFAULT"; "endif"; "enddefer";
         "if:ok"; "delegate:handler.handle(cs)"; "else"; "seterr:r:ENOSYS"; "endif"; "return:"]%string).
Proof. vm_compute. reflexivity. Qed.

(** requests whose body is one backend call and nothing before it *)
Definition single_call (m : tmsg) : bool :=
  match m with
  | Tlopen _ _ | Tlcreate _ _ _ _ _ _ | Tsymlink _ _ _ _ _ | Tmknod _ _ _ _ _ _ _ | Tmkdir _ _ _ _ _ | Tlink _ _ _
  | Treadlink _ | Tgetattr _ _ | Tsetattr _ _ | Treaddir _ _ _ | Tfsync _ | Tstatfs _ | Tlock _ _ _ _ _ _ _ => true
  | _ => false
  end.
(** errors the handler does not treat as failures *)
Definition tolerated (m : tmsg) (e : errv) : bool := match m with Treaddir _ _ _ => has_eof e | _ => false end.

Lemma body_error c m r t w v e rest :
  single_call m = true -> w_tape w = AVal v e :: rest -> is_err e = true -> tolerated m e = false ->
  exists w', body c m r t w = (Ok (inl e), w') /\ st_fids (w_st w') = st_fids (w_st w)
             /\ w_tape w' = rest /\ List.length (w_log w') = S (List.length (w_log w)).
Proof.
  intros Hm Ht He Htol.
  destruct m; cbn in Hm; try discriminate;
    unfold body, bind, the_ref, gets, backend, call0; cbn; rewrite Ht; cbn; rewrite ?He; cbn in Htol; rewrite ?Htol; cbn;
    eexists; (split; [reflexivity|cbn; repeat split]).
Qed.

(** ---- requests the model refuses without touching anything ---- *)
Lemma unbound_ebadf s c m k tape :
  kind_of m = Some k -> forallb safe_nameb (names_of m) = true ->
  tlookup (c, fid1_of m) (st_fids s) = None ->
  step s c m tape = (s, RErr linux_EBADF, [], tape).
Proof.
  intros Hk Hn Hu. unfold step, handler.
  destruct m; cbn in Hk; try discriminate; unfold guarded; rewrite Hn; cbn [negb];
    unfold lookup_fid, bind, gets; cbn; cbn in Hu; unfold connid, fid in *; rewrite Hu; reflexivity.
Qed.

Lemma clunk_unbound s c f tape :
  tlookup (c, f) (st_fids s) = None -> step s c (Tclunk f) tape = (s, RErr linux_EBADF, [], tape).
Proof.
  intros Hu. unfold step, handler, h_clunk, clunk_xattr, delete_fid, lookup_fid.
  unfold bind, gets. cbn. unfold connid, fid in *. rewrite Hu. cbn. rewrite Hu. reflexivity.
Qed.

Lemma auth_enosys s c afid un an uid tape : step s c (Tauth afid un an uid) tape = (s, RErr linux_ENOSYS, [], tape).
Proof. reflexivity. Qed.

Lemma attach_authfid s c f afid un an uid tape :
  afid <> p9_noFID -> step s c (Tattach f afid un an uid) tape = (s, RErr linux_EINVAL, [], tape).
Proof.
  intros H. unfold step, handler, h_attach. apply N.eqb_neq in H. rewrite H. reflexivity.
Qed.

Lemma other_enosys s c typ tape : step s c (Tother typ) tape = (s, RErr linux_ENOSYS, [], tape).
Proof. reflexivity. Qed.

(** a guard that fails stops the handler before its body: the guarded part returns the guard's errno *)
Lemma guard_stops c m k r t ms p tv e :
  first_failing (guards_of k) m ms p tv = Some (GE e) ->
  (match first_failing (guards_of k) m ms p tv with
   | Some (GE e) => fail e
   | Some GP => panic
   | None => body c m r t
   end) = (@fail reply e).
Proof. intros ->. reflexivity. Qed.
