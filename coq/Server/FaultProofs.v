(** C15 / C04: exact behaviour of the model on the request classes that can be
    decided by symbolic execution for ALL states and tapes: single-call handlers
    whose call fails, requests on unbound fids, Tauth, auth-fid attach. *)
From Coq Require Import NArith ZArith List String Bool.
From P9V Require Import Base.Str gen.ConstGen gen.HandlerGen Fs.Version Server.State Server.Msg Server.Handlers.
Import ListNotations.
Open Scope N_scope.

Lemma extract_linux_first pre n post :
  first_linux pre = None -> extract_errno (pre ++ LLinux n :: post)%list = n.
Proof.
  intros H. unfold extract_errno.
  assert (E : first_linux (pre ++ LLinux n :: post)%list = Some n).
  { induction pre as [|l pre IH]; cbn; [reflexivity|]. destruct l; cbn in H; try discriminate; auto. }
  now rewrite E.
Qed.

Lemma source_recover :
  find (fun e => String.eqb (fst e) "connState.handle") handler_traces_alpha =
  Some ("connState.handle"%string,
        ["defer:func"; "if:_v2 == nil"; "recover"; "seterr:_v2:EFAULT"; "endif"; "enddefer";
         "if:_v5"; "delegate:_v4.handle(_v0)"; "else"; "seterr:_v2:ENOSYS"; "endif"; "return:"]%string).
Proof. vm_compute. reflexivity. Qed.

(** requests whose body is one backend call and nothing before it *)
Definition single_call (m : tmsg) : bool :=
  match m with
  | Tlopen _ _ | Tlcreate _ _ _ _ _ _ | Tsymlink _ _ _ _ _ | Tmknod _ _ _ _ _ _ _ | Tmkdir _ _ _ _ _ | Tlink _ _ _
  | Treadlink _ | Tgetattr _ _ | Tsetattr _ _ | Treaddir _ _ _ | Tfsync _ | Tstatfs _ | Tlock _ _ _ _ _ _ _ => true
  | _ => false
  end.
(** errors the handler does not treat as failures *)
Definition tolerated (m : tmsg) (e : errv) : bool := match m with Treaddir _ _ _ => has_eof e | _ => false end.

Lemma body_error c m r t w v e rest :
  single_call m = true -> w_tape w = AVal v e :: rest -> is_err e = true -> tolerated m e = false ->
  exists w', body c m r t w = (Ok (inl e), w') /\ st_fids (w_st w') = st_fids (w_st w)
             /\ w_tape w' = rest /\ List.length (w_log w') = S (List.length (w_log w)).
Proof.
  intros Hm Ht He Htol.
  destruct m; cbn in Hm; try discriminate;
    unfold body, bind, the_ref, gets, backend, call0; cbn; rewrite Ht; cbn; rewrite ?He; cbn in Htol; rewrite ?Htol; cbn;
    eexists; (split; [reflexivity|cbn; repeat split]).
Qed.

(** ---- requests the model refuses without touching anything ---- *)
Lemma unbound_ebadf s c m k tape :
  kind_of m = Some k -> forallb safe_nameb (names_of m) = true ->
  tlookup (c, fid1_of m) (st_fids s) = None ->
  step s c m tape = (s, RErr linux_EBADF, [], tape).
Proof.
  intros Hk Hn Hu. unfold step, handler.
  destruct m; cbn in Hk; try discriminate; unfold guarded; rewrite Hn; cbn [negb];
    unfold lookup_fid, bind, gets; cbn; cbn in Hu; unfold connid, fid in *; rewrite Hu; reflexivity.
Qed.

Lemma clunk_unbound s c f tape :
  tlookup (c, f) (st_fids s) = None -> step s c (Tclunk f) tape = (s, RErr linux_EBADF, [], tape).
Proof.
  intros Hu. unfold step, handler, h_clunk, clunk_xattr, delete_fid, lookup_fid.
  unfold bind, gets. cbn. unfold connid, fid in *. rewrite Hu. cbn. rewrite Hu. reflexivity.
Qed.

Lemma auth_enosys s c afid un an uid tape : step s c (Tauth afid un an uid) tape = (s, RErr linux_ENOSYS, [], tape).
Proof. reflexivity. Qed.

Lemma attach_authfid s c f afid un an uid tape :
  afid <> p9_noFID -> step s c (Tattach f afid un an uid) tape = (s, RErr linux_EINVAL, [], tape).
Proof.
  intros H. unfold step, handler, h_attach. apply N.eqb_neq in H. rewrite H. reflexivity.
Qed.

Lemma other_enosys s c typ tape : step s c (Tother typ) tape = (s, RErr linux_ENOSYS, [], tape).
Proof. reflexivity. Qed.

(** a guard that fails stops the handler before its body: the guarded part returns the guard's errno *)
Lemma guard_stops c m k r t ms p tv e :
  first_failing (guards_of k) m ms p tv = Some (GE e) ->
  (match first_failing (guards_of k) m ms p tv with
   | Some (GE e) => fail e
   | Some GP => panic
   | None => body c m r t
   end) = (@fail reply e).
Proof. intros ->. reflexivity. Qed.

(** the abstraction of a model state (C04) *)
From P9V Require Import Server.SessionSpec.
Definition abs_state (s : sstate) : astate :=
  mkA (fun c f => match tlookup (c, f) (st_fids s) with Some r => Some (view_of s r) | None => None end)
      (fun c => alookup c (st_msize s)).

Lemma unsafe_rejected' s c m k tape :
  kind_of m = Some k -> forallb safe_nameb (names_of m) = false -> step s c m tape = (s, RErr linux_EINVAL, [], tape).
Proof.
  intros Hk Hn. unfold step, handler.
  destruct m; cbn in Hk; try discriminate; unfold guarded; rewrite Hn; reflexivity.
Qed.

Lemma refines_rejections s c m tape e :
  spec_reject (abs_state s) c m = Some e ->
  (match m with Tauth _ _ _ _ | Tother _ => True | Tattach _ afid _ _ _ => afid <> p9_noFID
              | Tclunk f => True
              | _ => exists k, kind_of m = Some k /\
                               (forallb safe_nameb (names_of m) = false \/ tlookup (c, fid1_of m) (st_fids s) = None)
   end) ->
  step s c m tape = (s, RErr e, [], tape).
Proof.
  intros Hr Hc.
  assert (G : forall k, kind_of m = Some k ->
              (forallb safe_nameb (names_of m) = false \/ tlookup (c, fid1_of m) (st_fids s) = None) ->
              (forall f, m <> Tclunk f) -> (forall a b c0 d e0, m <> Tattach a b c0 d e0) ->
              (forall a b c0 d, m <> Tauth a b c0 d) -> (forall t, m <> Tother t) -> (forall a b, m <> Tversion a b) -> (forall a, m <> Tflush a) ->
              step s c m tape = (s, RErr e, [], tape)).
  { intros k Hk Hcase N1 N2 N3 N4 N5 N6.
    destruct (forallb safe_nameb (names_of m)) eqn:Hn.
    - destruct Hcase as [Hx|Hu]; [discriminate|].
      assert (e = linux_EBADF).
      { unfold spec_reject in Hr. destruct m; cbn in Hk; try discriminate; cbn [kind_of] in Hr; rewrite Hn in Hr; cbn [negb] in Hr;
          cbn [abs_state a_fids] in Hr; unfold connid, fid in *; cbn in Hu; cbn [fid1_of] in Hr; rewrite Hu in Hr; inversion Hr; reflexivity. }
      subst. eapply unbound_ebadf; eauto.
    - assert (e = linux_EINVAL).
      { unfold spec_reject in Hr. destruct m; cbn in Hk; try discriminate; cbn [kind_of] in Hr; rewrite Hn in Hr; inversion Hr; reflexivity. }
      subst. eapply unsafe_rejected'; eauto. }
  destruct m; try (destruct Hc as (k & Hk & Hcase); eapply G; eauto; intros; discriminate).
  - (* Tauth *) cbn in Hr. inversion Hr. reflexivity.
  - (* Tattach *) unfold spec_reject in Hr. apply N.eqb_neq in Hc. rewrite Hc in Hr. inversion Hr; subst.
    apply attach_authfid. now apply N.eqb_neq.
  - (* Tclunk *) unfold spec_reject in Hr. cbn [abs_state a_fids] in Hr.
    destruct (tlookup (c, f) (st_fids s)) eqn:E; [discriminate|]. inversion Hr; subst. now apply clunk_unbound.
  - (* Tother *) cbn in Hr. inversion Hr. reflexivity.
Qed.
