(** C04 "a fid opens at most once", for requests IN FLIGHT TOGETHER: any number of Tlopen requests on
    one fid, interleaved in any way (tlopen.handle, p9/handlers.go).  The sequential model (Handlers.v)
    handles one request at a time; this file is the small interleaving model of the part of tlopen.handle
    that touches the fidRef's open state:

        ref.openMu.Lock(); defer ref.openMu.Unlock()
        if ref.opened || !CanOpen(ref.mode) { return EINVAL }       (the other guards do not read mutable state)
        qid, ioUnit, err = ref.file.Open(flags)
        if err != nil { return err }
        ref.opened = true; ref.openFlags = flags

    A thread is a program counter; a step of the system is a step of one thread (any schedule).  The
    variant [lock_first = false] is the check-then-lock order (the `opened` test before openMu is taken):
    for it the property is REFUTED below, so the position of the lock is what the theorem rests on; the
    position is read from the source on every run ([tlopen_locks_before_guards], Summaries.v).
    Tie to the real server: harness/p9/c04_hist_test.go overlaps two Tlopen with a gated backend Open and
    [par_agrees]/[par_ok] below judge the observation. *)
From Coq Require Import NArith Arith List Bool Lia.
From P9V Require Import Base.Str gen.ConstGen Server.State Server.Msg.
Import ListNotations.
Open Scope N_scope.
Open Scope list_scope.

Inductive pc :=
| P0                      (* not started *)
| P1                      (* holds openMu, has not looked at ref.opened yet        (lock-first order) *)
| P2                      (* found the fid unopened, does not hold openMu          (check-first order) *)
| P3                      (* holds openMu, found the fid unopened: about to call File.Open *)
| P4 (a : bval * errv)    (* inside File.Open, which will return [a] *)
| P5 (r : reply)          (* result computed, openMu still held *)
| P6 (r : reply).         (* replied *)

Record pst := mkP {
  p_opened : bool;               (* ref.opened *)
  p_flags : N;                   (* ref.openFlags *)
  p_mu : bool;                   (* openMu held *)
  p_tape : list answer;          (* what File.Open will answer, in call order *)
  p_bad : nat;                   (* File.Open calls STARTED while ref.opened was already true *)
  p_thr : list (N * pc)          (* per request: its Flags and its program counter *)
}.

Definition rlopen (v : bval) : reply := ROk p9_msgRlopen [match bv_qids v with [] => 0 | x :: _ => x end; bv_n v] "".
Definition next_answer (t : list answer) : (bval * errv) * list answer :=
  match t with
  | AVal v e :: r => ((v, e), r)
  | _ :: r => ((v0, []), r)          (* panics are the sequential model's business (C15) *)
  | [] => ((v0, []), [])
  end.

(** one step of the thread with flags [f] at [p]; [canopen] = CanOpen(ref.mode), fixed for the fid *)
Definition tstep (lock_first canopen : bool) (s : pst) (f : N) (p : pc) : option (pst * pc) :=
  let set o fl mu t bad := mkP o fl mu t bad (p_thr s) in
  match p with
  | P0 =>
      if lock_first then
        if p_mu s then None else Some (set (p_opened s) (p_flags s) true (p_tape s) (p_bad s), P1)
      else
        if p_opened s || negb canopen then Some (s, P6 (RErr linux_EINVAL)) else Some (s, P2)
  | P1 => if p_opened s || negb canopen then Some (s, P5 (RErr linux_EINVAL)) else Some (s, P3)
  | P2 => if p_mu s then None else Some (set (p_opened s) (p_flags s) true (p_tape s) (p_bad s), P3)
  | P3 => let '(a, t) := next_answer (p_tape s) in
          Some (set (p_opened s) (p_flags s) (p_mu s) t (if p_opened s then S (p_bad s) else p_bad s), P4 a)
  | P4 (v, e) =>
      if is_err e then Some (s, P5 (RErr (extract_errno e)))
      else Some (set true f (p_mu s) (p_tape s) (p_bad s), P5 (rlopen v))
  | P5 r => Some (set (p_opened s) (p_flags s) false (p_tape s) (p_bad s), P6 r)
  | P6 _ => None
  end.

Definition with_thr (s : pst) (l : list (N * pc)) : pst := mkP (p_opened s) (p_flags s) (p_mu s) (p_tape s) (p_bad s) l.

Inductive sys_step (lf co : bool) : pst -> pst -> Prop :=
| SysStep s l1 f p l2 s' p' :
    p_thr s = l1 ++ (f, p) :: l2 -> tstep lf co s f p = Some (s', p') ->
    sys_step lf co s (with_thr s' (l1 ++ (f, p') :: l2)).

Inductive reach (lf co : bool) (s0 : pst) : pst -> Prop :=
| ReachO : reach lf co s0 s0
| ReachS s s' : reach lf co s0 s -> sys_step lf co s s' -> reach lf co s0 s'.

Definition start (opened : bool) (flags : N) (tape : list answer) (reqs : list N) : pst :=
  mkP opened flags false tape 0 (map (fun f => (f, P0)) reqs).

(** ---- counting ---- *)
Definition in_crit (p : pc) : bool := match p with P1 | P3 | P4 _ | P5 _ => true | _ => false end.
Definition in_open (p : pc) : bool := match p with P4 _ => true | _ => false end.
Definition pre_open (p : pc) : bool := match p with P3 | P4 _ => true | _ => false end.
Definition is_ok (r : reply) : bool := match r with ROk _ _ _ => true | _ => false end.
Definition succeeded (p : pc) : bool := match p with P5 r | P6 r => is_ok r | _ => false end.
Definition cnt (f : pc -> bool) (l : list (N * pc)) : nat := List.length (filter (fun x => f (snd x)) l).

Lemma cnt_app f l1 l2 : cnt f (l1 ++ l2) = (cnt f l1 + cnt f l2)%nat.
Proof. unfold cnt. rewrite filter_app, app_length. reflexivity. Qed.
Lemma cnt_cons f x l : cnt f (x :: l) = ((if f (snd x) then 1 else 0) + cnt f l)%nat.
Proof. unfold cnt. cbn. destruct (f (snd x)); reflexivity. Qed.
Lemma cnt_mid f l1 x l2 : cnt f (l1 ++ x :: l2) = (cnt f l1 + (if f (snd x) then 1 else 0) + cnt f l2)%nat.
Proof. rewrite cnt_app, cnt_cons. lia. Qed.

Lemma cnt_le f g l : (forall p, f p = true -> g p = true) -> (cnt f l <= cnt g l)%nat.
Proof.
  intros H. induction l as [|x r IH]; [unfold cnt; cbn; lia|]. rewrite !cnt_cons.
  destruct (f (snd x)) eqn:E; [rewrite (H _ E); lia|destruct (g (snd x)); lia].
Qed.

Definition b2n (b : bool) : nat := if b then 1%nat else 0%nat.

(** the invariant of the lock-first program *)
Definition pinv (opened0 : bool) (s : pst) : Prop :=
  cnt in_crit (p_thr s) = b2n (p_mu s) /\
  (0 < cnt pre_open (p_thr s) -> p_opened s = false)%nat /\
  p_opened s = (opened0 || Nat.ltb 0 (cnt succeeded (p_thr s)))%bool /\
  (cnt succeeded (p_thr s) + b2n opened0 <= 1)%nat /\
  cnt (fun p => match p with P2 => true | _ => false end) (p_thr s) = 0%nat /\
  p_bad s = 0%nat.

Lemma pinv_start o fl t reqs : pinv o (start o fl t reqs).
Proof.
  unfold pinv, start; cbn [p_thr p_opened p_mu p_bad].
  assert (Z : forall f, f P0 = false -> cnt f (map (fun x : N => (x, P0)) reqs) = 0%nat).
  { intros f Hf. induction reqs as [|x r IH]; [reflexivity|]. cbn [map]. rewrite cnt_cons. cbn [snd]. rewrite Hf. exact IH. }
  rewrite !Z by reflexivity. destruct o; cbn; repeat split; auto; lia.
Qed.

Lemma pinv_step co o s s' : pinv o s -> sys_step true co s s' -> pinv o s'.
Proof.
  intros (I1 & I2 & I3 & I4 & I5 & I6) Hs. destruct Hs as [s l1 f p l2 s1 p' El Et].
  rewrite El in *. rewrite !cnt_mid in *. cbn [snd] in *.
  unfold pinv, with_thr; cbn [p_thr p_opened p_mu p_bad p_flags p_tape]. rewrite !cnt_mid. cbn [snd].
  destruct p as [| | | |[v e]|r|r]; cbn in Et.
  - (* P0: lock *) destruct (p_mu s) eqn:Mu; [discriminate|]. inversion Et; subst; clear Et. cbn in *. repeat split; try lia; auto.
  - (* P1: check *)
    destruct (p_opened s || negb co) eqn:G; inversion Et; subst; clear Et; cbn in *.
    + repeat split; try lia; auto.
    + apply orb_false_iff in G. destruct G as [G _]. repeat split; try lia; auto.
  - (* P2: impossible under the invariant *) cbn in I5. lia.
  - (* P3: call *)
    destruct (next_answer (p_tape s)) as [a t] eqn:N. inversion Et; subst; clear Et. cbn in *.
    assert (Ho : p_opened s = false) by (apply I2; lia). rewrite Ho in *. repeat split; try lia; auto.
  - (* P4: return *)
    assert (Ho : p_opened s = false) by (cbn in I2; apply I2; lia).
    destruct (is_err e) eqn:E; inversion Et; subst; clear Et; cbn in *.
    + repeat split; try lia; auto.
    + rewrite Ho in I3. symmetry in I3. apply orb_false_iff in I3. destruct I3 as [Ho0 Hz]. subst o.
      assert (Hz' : (cnt succeeded l1 + 0 + cnt succeeded l2 = 0)%nat)
        by (destruct (cnt succeeded l1 + 0 + cnt succeeded l2)%nat; [reflexivity|discriminate]).
      assert (Z1 : cnt succeeded l1 = 0%nat) by lia. assert (Z2 : cnt succeeded l2 = 0%nat) by lia.
      rewrite Z1, Z2 in *. cbn. split; [lia|]. split; [|repeat split; auto; lia].
      intros Hp. exfalso.
      (* the thread that returns is the only one inside the critical section *)
      assert (C1 : (cnt pre_open l1 <= cnt in_crit l1)%nat).
      { apply cnt_le. intros []; cbn; congruence. }
      assert (C2 : (cnt pre_open l2 <= cnt in_crit l2)%nat).
      { apply cnt_le. intros []; cbn; congruence. }
      destruct (p_mu s); cbn in I1; lia.
  - (* P5: unlock *)
    inversion Et; subst; clear Et. cbn in *. destruct (p_mu s); cbn in *; [|lia]. repeat split; try lia; auto.
  - discriminate.
Qed.

Lemma pinv_reach co o fl t reqs s : reach true co (start o fl t reqs) s -> pinv o s.
Proof. induction 1 as [|s s' _ IH Hs]; [apply pinv_start|eapply pinv_step; eauto]. Qed.

(** THE THEOREM: any number of Tlopen requests on one fid, any interleaving, any File.Open answers.
    At most one of them is answered Rlopen, none if the fid was open before; at most one thread is inside
    File.Open at any time; and no File.Open call is ever started while ref.opened is true. *)
Theorem open_once_interleaved : forall co opened0 flags0 tape reqs s,
  reach true co (start opened0 flags0 tape reqs) s ->
  (cnt succeeded (p_thr s) <= 1)%nat /\
  (opened0 = true -> cnt succeeded (p_thr s) = 0%nat) /\
  (cnt in_open (p_thr s) <= 1)%nat /\
  p_bad s = 0%nat.
Proof.
  intros co o fl t reqs s Hr. destruct (pinv_reach _ _ _ _ _ _ Hr) as (I1 & I2 & I3 & I4 & I5 & I6).
  split; [lia|]. split; [intros Ho; subst o; unfold b2n in I4; lia|]. split; [|exact I6].
  assert (C : (cnt in_open (p_thr s) <= cnt in_crit (p_thr s))%nat).
  { apply cnt_le. intros []; cbn; congruence. }
  destruct (p_mu s); cbn in I1; lia.
Qed.

(** ---- executable schedules: the harness tie and the refutation of the check-first order ---- *)
Fixpoint upd {A} (i : nat) (x : A) (l : list A) : list A :=
  match l, i with
  | [], _ => []
  | _ :: r, O => x :: r
  | y :: r, S j => y :: upd j x r
  end.

(** thread [i] takes a step if it can (a blocked or finished thread: nothing happens) *)
Definition exec1 (lf co : bool) (s : pst) (i : nat) : pst :=
  match nth_error (p_thr s) i with
  | Some (f, p) => match tstep lf co s f p with
                   | Some (s', p') => with_thr s' (upd i (f, p') (p_thr s))
                   | None => s
                   end
  | None => s
  end.
Definition exec (lf co : bool) (s : pst) (sched : list nat) : pst := fold_left (exec1 lf co) sched s.

Lemma upd_split {A} i (x y : A) l : nth_error l i = Some y -> exists l1 l2, l = l1 ++ y :: l2 /\ upd i x l = l1 ++ x :: l2.
Proof.
  revert i. induction l as [|z r IH]; intros [|i] H; cbn in H; try discriminate.
  - inversion H; subst. exists [], r. split; reflexivity.
  - destruct (IH i H) as (l1 & l2 & E1 & E2). exists (z :: l1), l2. cbn. rewrite E2. split; [f_equal; exact E1|reflexivity].
Qed.

Lemma exec1_reach lf co s0 s i : reach lf co s0 s -> reach lf co s0 (exec1 lf co s i).
Proof.
  intros Hr. unfold exec1. destruct (nth_error (p_thr s) i) as [[f p]|] eqn:E; [|exact Hr].
  destruct (tstep lf co s f p) as [[s' p']|] eqn:T; [|exact Hr].
  destruct (upd_split i (f, p') (f, p) _ E) as (l1 & l2 & E1 & E2). rewrite E2.
  eapply ReachS; [exact Hr|]. econstructor; eauto.
Qed.
Lemma exec_reach lf co s0 sched : forall s, reach lf co s0 s -> reach lf co s0 (exec lf co s sched).
Proof. induction sched as [|i r IH]; intros s Hr; [exact Hr|]. cbn. apply IH. apply exec1_reach. exact Hr. Qed.

(** REFUTED for the check-first order (openMu taken after the test of ref.opened): two requests, the
    schedule "both test, then one after the other" -- both are answered Rlopen and the second File.Open
    call starts on an opened fid *)
Theorem open_once_check_first_refuted :
  exists s, reach false true (start false 0 [] [0; 2]) s /\ cnt succeeded (p_thr s) = 2%nat /\ p_bad s = 1%nat.
Proof.
  exists (exec false true (start false 0 [] [0; 2]) [0; 1; 0; 0; 0; 0; 1; 1; 1; 1]%nat).
  split; [apply exec_reach; constructor|]. vm_compute. split; reflexivity.
Qed.

(** ---- judging an observed overlap (two Tlopen in flight on one unopened fid of an openable file) ---- *)
Definition final_replies (s : pst) : option (list reply) :=
  fold_right (fun x acc => match snd x, acc with P6 r, Some l => Some (r :: l) | _, _ => None end) (Some []) (p_thr s).

(** all schedules over threads {0,1} of length n *)
Fixpoint scheds (n : nat) : list (list nat) :=
  match n with
  | O => [[]]
  | S k => flat_map (fun s => [0%nat :: s; 1%nat :: s]) (scheds k)
  end.

Definition reply_eqb' (a b : reply) : bool :=
  match a, b with
  | RErr x, RErr y => x =? y
  | ROk t v _, ROk t' v' _ => (t =? t') && (List.length v =? List.length v')%nat && forallb (fun xy => fst xy =? snd xy) (combine v v')
  | _, _ => false
  end.

(** [opens]: the answers File.Open gave, in call order; [fa fb ra rb]: flags and replies of the two requests.
    Agreement: SOME schedule of the lock-first model ends with exactly these replies, having consumed
    exactly these answers. *)
Definition par_agrees (fa fb : N) (ra rb : reply) (opens : list answer) : bool :=
  existsb (fun sch =>
    let s := exec true true (start false 0 opens [fa; fb]) sch in
    match final_replies s, p_tape s with
    | Some [x; y], [] => reply_eqb' x ra && reply_eqb' y rb
    | _, _ => false
    end) (scheds 12).

(** the property on the observation alone: at most one Rlopen; no File.Open call after one that succeeded *)
Fixpoint no_open_after_success (opens : list answer) : bool :=
  match opens with
  | [] => true
  | AVal _ [] :: r => match r with [] => true | _ => false end
  | _ :: r => no_open_after_success r
  end.
Definition par_ok (ra rb : reply) (opens : list answer) : bool :=
  negb (is_ok ra && is_ok rb) && no_open_after_success opens.

(** what the model allows satisfies the property (2 requests; by the general theorem) *)
Lemma final_replies_cnt s l : final_replies s = Some l -> List.length (filter is_ok l) = cnt succeeded (p_thr s).
Proof.
  unfold final_replies. generalize (p_thr s). intros thr. revert l.
  induction thr as [|[f p] r IH]; intros l Hf; cbn in Hf.
  - inversion Hf; subst. reflexivity.
  - destruct p; try discriminate.
    destruct (fold_right _ (Some []) r) as [l'|] eqn:E; [|discriminate]. inversion Hf; subst; clear Hf.
    rewrite cnt_cons. cbn [snd succeeded filter]. rewrite <- (IH l' eq_refl).
    destruct (is_ok r0); reflexivity.
Qed.

Lemma model_outcome_ok fa fb tape sch l :
  final_replies (exec true true (start false 0 tape [fa; fb]) sch) = Some l ->
  (List.length (filter is_ok l) <= 1)%nat.
Proof.
  intros Hf. rewrite (final_replies_cnt _ _ Hf).
  exact (proj1 (open_once_interleaved true false 0 tape [fa; fb] _ (exec_reach true true _ sch _ (ReachO _ _ _)))).
Qed.
