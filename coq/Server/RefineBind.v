(** C04, success half for the handlers that bind or unbind a fid: the shape of the fid table after
    the request (unchanged / [tset] of a fidRef allocated by the request whose view is the one the
    specification prescribes / [tdel]) together with the view frame of ViewFrame.v. *)
From Coq Require Import NArith ZArith List String Bool Lia.
From P9V Require Import Base.Str gen.ConstGen Fs.Version Server.State Server.Msg Server.SessionSpec Server.Handlers
  Server.Ledger Server.FaultProofs Server.Refine Server.TableFrame Server.RefineOk Server.TableErr Server.ViewFrame.
Import ListNotations.
Open Scope N_scope.

Section BQ.
  Variable t0 : list ((connid * fid) * refid).
  Variable K : connid * fid.
  Variable G : fidref -> Prop.
  Hypothesis HG : vresp G.

  Definition bq {A} (P : sstate -> Prop) (m : M A) (okv : A -> Prop) : Prop :=
    forall w o w', sinv (w_st w) -> P (w_st w) -> st_fids (w_st w) = t0 -> m w = (o, w') ->
      sinv (w_st w') /\ vstep true (w_st w) (w_st w') /\
      ((st_fids (w_st w') = t0 /\ forall a, o = Ok a -> ~ okv a) \/
       (exists nr, st_fids (w_st w') = tset K nr t0 /\ atref G nr (w_st w') /\ forall a, o = Ok a -> okv a)).

  Lemma bq_conseq {A} (P P' : sstate -> Prop) (m : M A) okv : bq P m okv -> (forall s, P' s -> P s) -> bq P' m okv.
  Proof. intros H HP w o w' Hi Hp Ht E. exact (H w o w' Hi (HP _ Hp) Ht E). Qed.

  Lemma bq_bind_pre {A B} P (m : M A) (f : A -> M B) Q okv :
    vf true P m Q -> kfids m -> (forall a, bq (Q a) (f a) okv) -> bq P (bind m f) okv.
  Proof.
    intros Hm Hk Hf w o w' Hi Hp Ht E. unfold bind in E. destruct (m w) as [[a|] w1] eqn:Em.
    - destruct (Hm _ _ _ Hi Hp Em) as (A1 & A2 & A3). pose proof (Hk _ _ _ Em) as Et.
      destruct (Hf a _ _ _ A1 (A3 a eq_refl) (eq_trans Et Ht) E) as (B1 & B2 & B3).
      split; [exact B1|]. split; [eapply vstep_trans; eauto|exact B3].
    - destruct (Hm _ _ _ Hi Hp Em) as (A1 & A2 & A3). pose proof (Hk _ _ _ Em) as Et. inversion E; subst.
      split; [exact A1|]. split; [exact A2|]. left. split; [congruence|discriminate].
  Qed.

  Lemma bq_ret_bad {A} (P : sstate -> Prop) (a : A) (okv : A -> Prop) : ~ okv a -> bq P (ret a) okv.
  Proof.
    intros Hb w o w' Hi Hp Ht E. inversion E; subst. split; [exact Hi|]. split; [apply vstep_refl|].
    left. split; [reflexivity|]. intros a' Ea. inversion Ea; subst. exact Hb.
  Qed.
  Lemma bq_panic {A} (P : sstate -> Prop) (okv : A -> Prop) : bq P (@panic A) okv.
  Proof.
    intros w o w' Hi Hp Ht E. inversion E; subst. split; [exact Hi|]. split; [apply vstep_refl|]. left. split; [reflexivity|discriminate].
  Qed.

  Lemma insert_fid_table c f r w o w' : insert_fid c f r w = (o, w') -> st_fids (w_st w') = tset (c, f) r (st_fids (w_st w)).
  Proof.
    unfold insert_fid, bind at 1. cbn [gets]. unfold bind at 1. rewrite incref_run. unfold bind at 1. cbn [modify w_st w_tape w_log].
    destruct (tlookup (c, f) (st_fids (w_st w))) as [orig|]; intros E.
    - apply kf_dec_ref_ in E. cbn [w_st] in E. rewrite E. reflexivity.
    - inversion E; subst. reflexivity.
  Qed.

  Lemma bq_insert {A} c f nr (x : A) (okv : A -> Prop) :
    K = (c, f) -> okv x -> bq (atref G nr) (insert_fid c f nr ;; ret x)%m okv.
  Proof.
    intros HK Hx w o w' Hi Hp Ht E. unfold bind in E. destruct (insert_fid c f nr w) as [[u|] w1] eqn:Ei; inversion E; subst; clear E.
    - destruct (vf0_insert_fid true c f nr _ _ _ Hi I Ei) as (A1 & A2 & _). split; [exact A1|]. split; [exact A2|]. right. exists nr.
      split; [apply insert_fid_table in Ei; exact Ei|]. split; [eapply stable_atref; eauto|]. intros a Ea; inversion Ea; subst; exact Hx.
    - destruct (vf0_insert_fid true c f nr _ _ _ Hi I Ei) as (A1 & A2 & _). split; [exact A1|]. split; [exact A2|]. right. exists nr.
      split; [apply insert_fid_table in Ei; exact Ei|]. split; [eapply stable_atref; eauto|]. discriminate.
  Qed.

  Lemma bq_with_defer {A} P (d : M unit) (m : M A) okv : vf0 true d -> kfids d -> bq P m okv -> bq P (with_defer d m) okv.
  Proof.
    intros Hd Hk Hm w o w' Hi Hp Ht E. unfold with_defer in E. destruct (m w) as [o1 w1] eqn:Em.
    destruct (Hm _ _ _ Hi Hp Ht Em) as (A1 & A2 & A3).
    destruct (d w1) as [[u|] w2] eqn:Ed; destruct (Hd _ _ _ A1 I Ed) as (B1 & B2 & _); pose proof (Hk _ _ _ Ed) as Et; inversion E; subst.
    - split; [exact B1|]. split; [eapply vstep_trans; eauto|]. destruct A3 as [[T1 T2]|(nr & T1 & T2 & T3)].
      + left. split; [congruence|exact T2].
      + right. exists nr. split; [congruence|]. split; [eapply stable_atref; eauto|exact T3].
    - split; [exact B1|]. split; [eapply vstep_trans; eauto|]. destruct A3 as [[T1 T2]|(nr & T1 & T2 & T3)].
      + left. split; [congruence|discriminate].
      + right. exists nr. split; [congruence|]. split; [eapply stable_atref; eauto|discriminate].
  Qed.

  Lemma bq_map {A B} P (m : M A) (g : A -> B) (okv : A -> Prop) (okv' : B -> Prop) :
    (forall a, okv' (g a) <-> okv a) -> bq P m okv -> bq P (x <- m ;; ret (g x))%m okv'.
  Proof.
    intros Hg Hm w o w' Hi Hp Ht E. unfold bind in E. destruct (m w) as [[a|] w1] eqn:Em; inversion E; subst; clear E.
    - destruct (Hm _ _ _ Hi Hp Ht Em) as (A1 & A2 & A3). split; [exact A1|]. split; [exact A2|].
      destruct A3 as [[T1 T2]|(nr & T1 & T2 & T3)].
      + left. split; [exact T1|]. intros b Eb. inversion Eb; subst. rewrite Hg. apply T2. reflexivity.
      + right. exists nr. split; [exact T1|]. split; [exact T2|]. intros b Eb. inversion Eb; subst. rewrite Hg. apply T3. reflexivity.
    - destruct (Hm _ _ _ Hi Hp Ht Em) as (A1 & A2 & A3). split; [exact A1|]. split; [exact A2|].
      destruct A3 as [[T1 T2]|(nr & T1 & T2 & T3)]; [left; split; [exact T1|discriminate]|right; exists nr; split; [exact T1|split; [exact T2|discriminate]]].
  Qed.

  (** a computation that never touches the table and never reports success *)
  Lemma bq_never {A} P (m : M A) (okv : A -> Prop) Q :
    vf true P m Q -> kfids m -> (forall a s, Q a s -> ~ okv a) -> bq P m okv.
  Proof.
    intros Hm Hk Hb w o w' Hi Hp Ht E. destruct (Hm _ _ _ Hi Hp E) as (A1 & A2 & A3). pose proof (Hk _ _ _ E) as Et.
    split; [exact A1|]. split; [exact A2|]. left. split; [congruence|]. intros a Ea. eapply Hb. apply A3. exact Ea.
  Qed.
End BQ.

Lemma bq_gets_pre t0 K G {A B} (P : sstate -> Prop) (f : sstate -> A) (g : A -> M B) okv :
  (forall a, bq t0 K G (fun s => a = f s /\ P s) (g a) okv) -> bq t0 K G P (bind (gets f) g) okv.
Proof. intros H. eapply bq_bind_pre; [apply vf_gets|apply kf_gets|exact H]. Qed.
Lemma bq_pure t0 K G {A} (phi : Prop) (P : sstate -> Prop) (m : M A) okv :
  (phi -> bq t0 K G P m okv) -> bq t0 K G (fun s => phi /\ P s) m okv.
Proof. intros H w o w' Hi [Hphi Hp] Ht E. exact (H Hphi w o w' Hi Hp Ht E). Qed.

Lemma not_goodr_inl e : ~ goodr (inl e).
Proof. intros (rep & E & _). discriminate. Qed.
Lemma goodr_ok typ vals : goodr (inr (ok typ vals)).
Proof. eexists; split; reflexivity. Qed.

(** ---- Twalk / Twalkgetattr ---- *)
Lemma bq_walk_tail t0 c nf names src ga r (mk : list N -> bval -> reply) :
  (forall q a, rclass (mk q a) = None) ->
  bq t0 (c, nf) (gwalk names src) (fun s => vsame true src (get_ref s r))
     (w <- do_walk r names ga ;;
      match w with
      | inl e => ret (inl e)
      | inr (q, nr, a) => with_defer (dec_ref_ nr) (insert_fid c nf nr ;; ret (inr (mk q a)))
      end)%m goodr.
Proof.
  intros Hmk. assert (HG : vresp (gwalk names src)) by (destruct names; [apply vresp_gclone|apply vresp_gchild]).
  eapply bq_bind_pre; [apply vf_do_walk|apply kf_do_walk|]. intros [e|[[q nr] a]].
  - apply bq_ret_bad, not_goodr_inl.
  - apply bq_with_defer; [exact HG|apply vf0_dec_ref_|apply kf_dec_ref_|].
    eapply bq_conseq; [apply bq_insert; [exact HG|reflexivity|]|intros s H; exact H]. eexists; split; [reflexivity|apply Hmk].
Qed.

Lemma bq_body_walk t0 c f nf names src r t :
  bq t0 (c, nf) (gwalk names src) (fun s => vsame true src (get_ref s r)) (body c (Twalk f nf names) r t) goodr.
Proof.
  unfold body, the_ref. apply bq_gets_pre. intros fr. apply bq_gets_pre. intros tfr.
  eapply bq_conseq; [apply (bq_walk_tail t0 c nf names src false r (fun q _ => ok p9_msgRwalk q)); reflexivity|]. intros s (_ & _ & H). exact H.
Qed.
Lemma bq_body_walkgetattr t0 c f nf names src r t :
  bq t0 (c, nf) (gwalk names src) (fun s => vsame true src (get_ref s r)) (body c (Twalkgetattr f nf names) r t) goodr.
Proof.
  unfold body, the_ref. apply bq_gets_pre. intros fr. apply bq_gets_pre. intros tfr.
  eapply bq_conseq; [apply (bq_walk_tail t0 c nf names src true r (fun q a => ok p9_msgRwalkgetattr (q ++ [bv_mode a])%list)); reflexivity|]. intros s (_ & _ & H). exact H.
Qed.

(** ---- Txattrwalk ---- *)
Definition gxw (src fr : fidref) : Prop :=
  fr_mode fr = 0 /\ fr_opened fr = false /\ fr_flags fr = 0 /\ fr_parent fr = None /\ fr_xop fr = p9_xattrWalk /\
  fr_xsize fr = fr_xlen fr /\ fr_xflags fr = 0 /\ fr_node fr = fr_node src.
Lemma vresp_gxw src : vresp (gxw src).
Proof.
  intros a a' (H1 & H2 & H3) (G1 & G2 & G3 & G4 & G5 & G6 & G7 & G8). destruct (H3 eq_refl) as (?&?&?&?&?&?&?).
  unfold gxw. repeat split; try congruence. tauto.
Qed.

Lemma bq_body_xattrwalk t0 c f nf name src r t :
  bq t0 (c, nf) (gxw src) (fun s => vsame true src (get_ref s r)) (body c (Txattrwalk f nf name) r t) goodr.
Proof.
  pose proof (vresp_gxw src) as HG.
  unfold body, the_ref. apply bq_gets_pre. intros fr. apply bq_gets_pre. intros tfr.
  eapply bq_conseq with (P := fun s => vsame true src fr /\ tt1 s); [|intros s (_ & -> & H); split; [exact H|exact I]].
  apply bq_pure. intros (S1 & _ & _).
  eapply bq_bind_pre with (Q := tt2); [apply vf0_any| |].
  { destruct (negb (String.eqb name "")); vfa. }
  { destruct (negb (String.eqb name "")); kf. }
  intros [len e]. destruct (is_err e); [apply bq_ret_bad, not_goodr_inl|].
  destruct (p9_maximumLength <? len mod two32); [apply bq_ret_bad, not_goodr_inl|].
  eapply bq_bind_pre; [eapply vf_conseq; [apply vf_new_ref|unfold tt1; auto|intros nr s H; exact H]|apply kf_new_ref|]. intros nr.
  eapply bq_conseq with (P := atref (gxw src) nr).
  2:{ intros s [Hlt Hg]. split; [exact Hlt|]. rewrite Hg. unfold gxw. cbn. repeat split; auto. }
  eapply bq_bind_pre with (Q := fun _ => atref (gxw src) nr); [|apply kf_incref|].
  - eapply vf_conseq; [eapply vf_frame; [apply (stable_atref (gxw src) nr HG)|apply vf0_incref]|unfold tt1; auto|]. intros u s [_ H]. exact H.
  - intros u. apply bq_insert; [exact HG|reflexivity|apply goodr_ok].
Qed.

(** ---- Tlcreate / Tucreate ---- *)
Definition glc (flags : N) (fr : fidref) : Prop :=
  fr_mode fr = p9_ModeRegular /\ fr_opened fr = true /\ fr_flags fr = flags /\ fr_parent fr <> None /\ fr_xop fr = p9_xattrNone /\
  fr_xsize fr = 0 /\ fr_xlen fr = 0 /\ fr_xflags fr = 0.
Lemma vresp_glc flags : vresp (glc flags).
Proof.
  intros a a' (H1 & H2 & H3) (G1 & G2 & G3 & G4 & G5 & G6 & G7 & G8). destruct (H3 eq_refl) as (?&?&?&?&?&?&?).
  unfold glc. repeat split; try congruence. tauto.
Qed.

Lemma bq_body_lcreate t0 c u f name flags perm gid r t :
  bq t0 (c, f) (glc flags) tt1 (body c (Tlcreate u f name flags perm gid) r t) goodr.
Proof.
  pose proof (vresp_glc flags) as HG.
  unfold body, the_ref. apply bq_gets_pre. intros fr. apply bq_gets_pre. intros tfr.
  eapply bq_bind_pre with (Q := tt2); [apply vf0_any, vf0_backend|apply kf_backend|]. intros [v e].
  destruct (is_err e); [apply bq_ret_bad, not_goodr_inl|].
  eapply bq_bind_pre with (Q := tt2); [apply vf0_any, vf0_fresh_handle|kf|]. intros h.
  eapply bq_bind_pre with (Q := tt2); [apply vf0_any, vf0_node_for|kf|]. intros node.
  eapply bq_bind_pre; [eapply vf_conseq; [apply vf_new_ref|unfold tt1; auto|intros nr s H; exact H]|apply kf_new_ref|]. intros nr.
  eapply bq_conseq with (P := atref (glc flags) nr).
  2:{ intros s [Hlt Hg]. split; [exact Hlt|]. rewrite Hg. unfold glc. cbn. repeat split; auto. discriminate. }
  assert (HS : stable true (atref (glc flags) nr)) by (apply stable_atref, HG).
  eapply bq_bind_pre with (Q := fun _ => atref (glc flags) nr); [|kf|].
  - eapply vf_conseq; [eapply vf_frame; [exact HS|apply vf_add_child]| |].
    + intros s Hs. split; [|exact Hs]. destruct Hs as [Hlt (_ & _ & _ & Hp & _)]. split; assumption.
    + intros a s [_ H]. exact H.
  - intros u1. eapply bq_bind_pre with (Q := fun _ => atref (glc flags) nr); [|apply kf_incref|].
    + eapply vf_conseq; [eapply vf_frame; [exact HS|apply vf0_incref]|unfold tt1; auto|]. intros a s [_ H]. exact H.
    + intros u2. apply bq_insert; [exact HG|reflexivity|]. destruct u; apply goodr_ok.
Qed.

(** ---- from the state frame to the abstract state ---- *)
Definition fence_of (s' : sstate) : N -> N -> bool :=
  fun c f => match tlookup (c, f) (st_fids s') with Some x => is_deleted s' x | None => false end.

Definition view_with (fr : fidref) (d : bool) : fview :=
  mkView (fr_mode fr) (fr_opened fr) (fr_flags fr) d (match fr_parent fr with None => true | Some _ => false end)
         (fr_xop fr) (fr_xsize fr) (fr_xlen fr) (fr_xflags fr).
Lemma view_of_with s x : view_of s x = view_with (get_ref s x) (is_deleted s x).
Proof. reflexivity. Qed.

Lemma view_frame s0 s' x : vstep true s0 s' -> x < st_next_ref s0 ->
  view_of s' x = if is_deleted s' x then fence_view (view_of s0 x) else view_of s0 x.
Proof.
  intros (_ & _ & _ & A4 & A5) Hx. destruct (A4 x Hx) as (Hn & Hp & Hf). destruct (Hf eq_refl) as (F1 & F2 & F3 & F4 & F5 & F6 & F7).
  assert (Hroot : (match fr_parent (get_ref s' x) with None => true | Some _ => false end) = (match fr_parent (get_ref s0 x) with None => true | Some _ => false end)).
  { destruct (fr_parent (get_ref s' x)) eqn:E1, (fr_parent (get_ref s0 x)) eqn:E2; auto; [destruct Hp as [_ Hp]; specialize (Hp eq_refl); discriminate|destruct Hp as [Hp _]; specialize (Hp eq_refl); discriminate]. }
  destruct (is_deleted s' x) eqn:Ed.
  - unfold view_of, fence_view. cbn. rewrite Ed, F1, F2, F3, F4, F5, F6, F7, Hroot. reflexivity.
  - assert (Ed0 : is_deleted s0 x = false).
    { destruct (is_deleted s0 x) eqn:E0; [|reflexivity]. unfold is_deleted in *. rewrite Hn in Ed. specialize (A5 _ E0). unfold ndel in A5. congruence. }
    unfold view_of. rewrite Ed, Ed0, F1, F2, F3, F4, F5, F6, F7, Hroot. reflexivity.
Qed.

Lemma bound_below s k x : Ledger s -> tlookup k (st_fids s) = Some x -> x < st_next_ref s.
Proof.
  intros HL E0. eapply (L_claimed_below d0 s); [exact HL|apply nonneg_d0|].
  pose proof (tcount_tlookup _ _ _ E0). pose proof (rcount_nonneg x (st_refs s)). lia.
Qed.

Lemma abs_old_binding s0 s' c' f' x :
  Ledger s0 -> vstep true s0 s' -> tlookup (c', f') (st_fids s0) = Some x -> tlookup (c', f') (st_fids s') = Some x ->
  a_fids (abs_state s') c' f' = a_fids (apply_fence (fence_of s') (abs_state s0)) c' f'.
Proof.
  intros HL Hv E0 E1. cbn [abs_state a_fids apply_fence]. unfold fence_of. unfold connid, fid in *. rewrite E0, E1.
  f_equal. apply view_frame; [exact Hv|]. eapply bound_below; eauto.
Qed.

Lemma abs_same_table s0 s' :
  Ledger s0 -> vstep true s0 s' -> st_fids s' = st_fids s0 ->
  forall c' f', a_fids (abs_state s') c' f' = a_fids (apply_fence (fence_of s') (abs_state s0)) c' f'.
Proof.
  intros HL Hv Et c' f'. destruct (tlookup (c', f') (st_fids s0)) as [x|] eqn:E0.
  - eapply abs_old_binding; eauto. rewrite Et. exact E0.
  - cbn [abs_state a_fids apply_fence]. unfold connid, fid in *. rewrite Et, E0. reflexivity.
Qed.

Lemma keyb_pair c f c' f' : keyb (c', f') (c, f) = (c' =? c) && (f' =? f).
Proof. reflexivity. Qed.

Lemma abs_tset_table s0 s' c f nr V :
  Ledger s0 -> vstep true s0 s' -> st_fids s' = tset (c, f) nr (st_fids s0) ->
  view_of s' nr = (if is_deleted s' nr then fence_view V else V) ->
  forall c' f', a_fids (abs_state s') c' f' = a_fids (apply_fence (fence_of s') (bind_fid (abs_state s0) c f (Some V))) c' f'.
Proof.
  intros HL Hv Et HV c' f'. destruct (keyb (c', f') (c, f)) eqn:Ek.
  - pose proof Ek as Ek'. rewrite keyb_pair in Ek'. apply keyb_eq in Ek. inversion Ek; subst c' f'.
    cbn [abs_state a_fids apply_fence bind_fid]. unfold fence_of. rewrite Ek'. unfold connid, fid in *. rewrite Et, tlookup_tset_same. f_equal. exact HV.
  - pose proof Ek as Ek'. rewrite keyb_pair in Ek'.
    assert (El : tlookup (c', f') (st_fids s') = tlookup (c', f') (st_fids s0)) by (rewrite Et; apply tlookup_tset_other; exact Ek).
    destruct (tlookup (c', f') (st_fids s0)) as [x|] eqn:E0.
    + rewrite (abs_old_binding s0 s' c' f' x HL Hv E0 El). cbn [apply_fence a_fids bind_fid abs_state]. rewrite Ek'. reflexivity.
    + cbn [abs_state a_fids apply_fence bind_fid]. rewrite Ek'. unfold connid, fid in *. rewrite El, E0. reflexivity.
Qed.

Lemma abs_tdel_table s0 s' c f :
  Ledger s0 -> vstep true s0 s' -> st_fids s' = tdel (c, f) (st_fids s0) ->
  forall c' f', a_fids (abs_state s') c' f' = a_fids (apply_fence (fence_of s') (bind_fid (abs_state s0) c f None)) c' f'.
Proof.
  intros HL Hv Et c' f'. destruct (keyb (c', f') (c, f)) eqn:Ek.
  - pose proof Ek as Ek'. rewrite keyb_pair in Ek'. apply keyb_eq in Ek. inversion Ek; subst c' f'.
    cbn [abs_state a_fids apply_fence bind_fid]. rewrite Ek'. unfold connid, fid in *. rewrite Et, tlookup_tdel_same. reflexivity.
  - pose proof Ek as Ek'. rewrite keyb_pair in Ek'.
    assert (El : tlookup (c', f') (st_fids s') = tlookup (c', f') (st_fids s0)) by (rewrite Et; apply tlookup_tdel_other; exact Ek).
    destruct (tlookup (c', f') (st_fids s0)) as [x|] eqn:E0.
    + rewrite (abs_old_binding s0 s' c' f' x HL Hv E0 El). cbn [apply_fence a_fids bind_fid abs_state]. rewrite Ek'. reflexivity.
    + cbn [abs_state a_fids apply_fence bind_fid]. rewrite Ek'. unfold connid, fid in *. rewrite El, E0. reflexivity.
Qed.

Lemma abs_neg_frame s0 s' : vstep true s0 s' -> forall c', a_neg (abs_state s') c' = a_neg (abs_state s0) c'.
Proof. intros (_ & _ & E & _) c'. cbn. now rewrite E. Qed.

(** ---- the shape of a binding request and what it implies ---- *)
Definition hshape (s0 : sstate) (K : connid * fid) (G : fidref -> Prop) (x : outcome reply * world) : Prop :=
  let (o, w') := x in
  sinv (w_st w') /\ vstep true s0 (w_st w') /\
  ((st_fids (w_st w') = st_fids s0 /\ forall a, o = Ok a -> rclass a <> None) \/
   (exists nr, st_fids (w_st w') = tset K nr (st_fids s0) /\ atref G nr (w_st w') /\ forall a, o = Ok a -> rclass a = None)).

Lemma refines_binder s0 c m tape fK G V :
  Ledger s0 -> spec_reject (abs_state s0) c m = None ->
  post_fail (abs_state s0) c m = abs_state s0 -> clunk_incomplete (abs_state s0) c m = false ->
  (forall k fz n, post_ok (abs_state s0) c m k fz n = bind_fid (abs_state s0) c fK (Some (V k fz n))) ->
  (forall s' nr, vstep true s0 s' -> atref G nr s' ->
     exists k fz n, view_of s' nr = if is_deleted s' nr then fence_view (V k fz n) else V k fz n) ->
  hshape s0 (c, fK) G (handler c m (mkW s0 tape [])) ->
  refines_at s0 c m tape.
Proof.
  intros HL Hr Hpf Hci Hpo HV Hs. unfold refines_at, step, st_of, rp_of.
  destruct (handler c m (mkW s0 tape [])) as [o w'] eqn:Eh. cbn [hshape] in Hs. destruct Hs as (Hi' & Hv & Hs).
  unfold spec_step. rewrite Hr.
  destruct Hs as [[Et Hbad]|(nr & Et & Hat & Hgood)].
  - destruct o as [rep|]; cbn [fst snd].
    + destruct (rclass rep) as [e|] eqn:Erc; [|exfalso; exact (Hbad rep eq_refl Erc)].
      exists (BFail e), (fence_of (w_st w')). cbn [fst snd]. rewrite Hpf. split; [reflexivity|]. split; [apply abs_same_table; assumption|].
      intros c'. cbn [apply_fence a_neg]. apply (abs_neg_frame s0 _ Hv).
    + exists BPanicEarly, (fence_of (w_st w')). cbn [fst snd]. split; [reflexivity|]. split; [apply abs_same_table; assumption|].
      intros c'. cbn [apply_fence a_neg]. apply (abs_neg_frame s0 _ Hv).
  - destruct (HV _ nr Hv Hat) as (k & fz & n & Hview).
    destruct o as [rep|]; cbn [fst snd].
    + exists (BOk k fz n), (fence_of (w_st w')). cbn [fst snd]. rewrite Hci, Hpo. split; [exact (Hgood rep eq_refl)|].
      split; [apply (abs_tset_table s0 (w_st w') c fK nr); assumption|]. intros c'. cbn [apply_fence a_neg bind_fid]. apply (abs_neg_frame s0 _ Hv).
    + exists (BPanicLate k fz n), (fence_of (w_st w')). cbn [fst snd]. rewrite Hpo. split; [reflexivity|].
      split; [apply (abs_tset_table s0 (w_st w') c fK nr); assumption|]. intros c'. cbn [apply_fence a_neg bind_fid]. apply (abs_neg_frame s0 _ Hv).
Qed.

Lemma sinv_s1 s r n : sinv s -> sinv (set_refs_of s r n). Proof. apply sinv_set_refs. Qed.

(** table-driven handlers with one fid: from the body to the handler *)
Lemma guarded_binder_shape s0 c m k tape r fK G :
  vresp G -> Ledger s0 -> sinv s0 -> kind_of m = Some k -> fid2_of m = None -> (forall f, m <> Tremove f) ->
  spec_reject (abs_state s0) c m = None -> tlookup (c, fid1_of m) (st_fids s0) = Some r ->
  bq (st_fids s0) (c, fK) G (fun s => vsame true (get_ref s0 r) (get_ref s r)) (body c m r r) goodr ->
  hshape s0 (c, fK) G (handler c m (mkW s0 tape [])).
Proof.
  intros HG HL Hi Hk H2 Hnr Hr Hrb Hb.
  destruct (spec_pass_inv s0 c m k Hk Hr) as (Hn & r' & Hrb' & t & Ht & Hgd). rewrite H2 in Ht. subst t.
  assert (r' = r) by (unfold connid, fid in *; congruence). subst r'.
  assert (Hh : handler c m = (x <- guarded c m k ;; ret (match x with inl e => RErr (extract_errno e) | inr r0 => r0 end))%m).
  { unfold handler. destruct m; cbn in Hk; try discriminate; inversion Hk; reflexivity. }
  assert (Hpost : forall x w0, post c m x w0 = (Ok x, w0)).
  { intros x w0. unfold post. destruct m; try reflexivity. exfalso; eapply Hnr; reflexivity. }
  set (s1 := set_refs_of s0 r (refsZ s0 r + 1)).
  assert (Hv1 : vstep true s0 s1) by apply vstep_set_refs.
  assert (Hg1 : bq (st_fids s0) (c, fK) G (fun s => vsame true (get_ref s0 r) (get_ref s r))
                  (with_defer (dec_ref_ r) (x <- body c m r r ;; post c m x)%m) goodr).
  { apply bq_with_defer; [exact HG|apply vf0_dec_ref_|apply kf_dec_ref_|].
    intros w o w' Hiw Hp Ht E. apply (Hb w o w' Hiw Hp Ht). rewrite <- E. unfold bind. destruct (body c m r r w) as [[x|] w1]; [rewrite Hpost|]; reflexivity. }
  rewrite Hh. unfold bind at 1. rewrite (guarded_pass1 s0 c m k tape r Hk Hn H2 Hrb Hgd). fold s1.
  destruct (with_defer (dec_ref_ r) (x <- body c m r r;; post c m x)%m (mkW s1 tape [])) as [o w'] eqn:Eg.
  assert (Hp1 : vsame true (get_ref s0 r) (get_ref s1 r)) by (unfold s1; rewrite get_s1; apply vsame_set_refs).
  destruct (Hg1 (mkW s1 tape []) o w' (sinv_s1 s0 r _ Hi) Hp1 eq_refl Eg) as (A1 & A2 & A3). cbn [w_st] in A2, A3.
  assert (Hv : vstep true s0 (w_st w')) by (eapply vstep_trans; eauto).
  destruct o as [x|]; cbn [hshape ret].
  - split; [exact A1|]. split; [exact Hv|]. destruct A3 as [[T1 T2]|(nr & T1 & T2 & T3)].
    + left. split; [exact T1|]. intros a Ea. inversion Ea; subst. destruct x as [e|rep]; [discriminate|].
      intros Erc. apply (T2 _ eq_refl). eexists; split; [reflexivity|exact Erc].
    + right. exists nr. split; [exact T1|]. split; [exact T2|]. intros a Ea. inversion Ea; subst.
      destruct (T3 _ eq_refl) as (rep & -> & Erc). exact Erc.
  - split; [exact A1|]. split; [exact Hv|]. destruct A3 as [[T1 T2]|(nr & T1 & T2 & T3)].
    + left. split; [exact T1|discriminate].
    + right. exists nr. split; [exact T1|]. split; [exact T2|discriminate].
Qed.

Lemma view_with_gplain fr d : gplain fr ->
  view_with fr d = fresh_view (fr_mode fr) d (match fr_parent fr with None => true | Some _ => false end).
Proof. intros (G1 & G2 & G3 & G4 & G5 & G6). unfold view_with, fresh_view. rewrite G1, G2, G3, G4, G5, G6. reflexivity. Qed.

Lemma walk_view s0 s' r names nr :
  vstep true s0 s' -> atref (gwalk names (get_ref s0 r)) nr s' ->
  let p := view_of s0 r in
  let V k fz := match names with [] => fresh_view (v_mode p) (v_deleted p) (v_root p) | _ => fresh_view k fz false end in
  exists k fz (n : N), view_of s' nr = if is_deleted s' nr then fence_view (V k fz) else V k fz.
Proof.
  intros Hv [Hlt Hg] p V. exists (fr_mode (get_ref s' nr)), (is_deleted s' nr), 0. rewrite view_of_with.
  destruct names as [|n0 rest]; cbn [gwalk] in Hg; unfold V.
  - destruct Hg as (Gp & Gm & Gn & Gr). rewrite (view_with_gplain _ _ Gp), Gm.
    assert (Hroot : (match fr_parent (get_ref s' nr) with None => true | Some _ => false end) = v_root p).
    { unfold p, view_of; cbn. destruct (fr_parent (get_ref s' nr)) eqn:E1, (fr_parent (get_ref s0 r)) eqn:E2; auto;
        [destruct Gr as [_ Gr]; specialize (Gr eq_refl); discriminate|destruct Gr as [Gr _]; specialize (Gr eq_refl); discriminate]. }
    rewrite Hroot. destruct (is_deleted s' nr) eqn:Ed; [reflexivity|].
    assert (Ed0 : v_deleted p = false).
    { unfold p, view_of; cbn. destruct (is_deleted s0 r) eqn:E0; [|reflexivity]. destruct Hv as (_ & _ & _ & _ & A5).
      unfold is_deleted in *. rewrite Gn in Ed. specialize (A5 _ E0). unfold ndel in A5. congruence. }
    rewrite Ed0. reflexivity.
  - destruct Hg as [Gp Gpar]. rewrite (view_with_gplain _ _ Gp). destruct (fr_parent (get_ref s' nr)); [|contradiction].
    destruct (is_deleted s' nr); reflexivity.
Qed.

Theorem refines_walk s c f nf names tape :
  Ledger s -> sinv s -> spec_reject (abs_state s) c (Twalk f nf names) = None -> refines_at s c (Twalk f nf names) tape.
Proof.
  intros HL Hi Hr.
  destruct (spec_pass_inv s c (Twalk f nf names) HWalk eq_refl Hr) as (_ & r & Hrb & _). cbn [fid1_of] in Hrb.
  set (p := view_of s r).
  eapply (refines_binder s c (Twalk f nf names) tape nf (gwalk names (get_ref s r))
            (fun k fz _ => match names with [] => fresh_view (v_mode p) (v_deleted p) (v_root p) | _ => fresh_view k fz false end));
    try assumption; try reflexivity.
  - intros k fz n. cbn [post_ok]. rewrite (abs_bound s c f r Hrb). fold p. destruct names; reflexivity.
  - intros s' nr Hv Hat. exact (walk_view s s' r names nr Hv Hat).
  - eapply guarded_binder_shape with (k := HWalk) (r := r); try assumption; try reflexivity; try (intros; discriminate).
    + destruct names; [apply vresp_gclone|apply vresp_gchild].
    + apply bq_body_walk.
Qed.

Theorem refines_walkgetattr s c f nf names tape :
  Ledger s -> sinv s -> spec_reject (abs_state s) c (Twalkgetattr f nf names) = None -> refines_at s c (Twalkgetattr f nf names) tape.
Proof.
  intros HL Hi Hr.
  destruct (spec_pass_inv s c (Twalkgetattr f nf names) HWalkgetattr eq_refl Hr) as (_ & r & Hrb & _). cbn [fid1_of] in Hrb.
  set (p := view_of s r).
  eapply (refines_binder s c (Twalkgetattr f nf names) tape nf (gwalk names (get_ref s r))
            (fun k fz _ => match names with [] => fresh_view (v_mode p) (v_deleted p) (v_root p) | _ => fresh_view k fz false end));
    try assumption; try reflexivity.
  - intros k fz n. cbn [post_ok]. rewrite (abs_bound s c f r Hrb). fold p. destruct names; reflexivity.
  - intros s' nr Hv Hat. exact (walk_view s s' r names nr Hv Hat).
  - eapply guarded_binder_shape with (k := HWalkgetattr) (r := r); try assumption; try reflexivity; try (intros; discriminate).
    + destruct names; [apply vresp_gclone|apply vresp_gchild].
    + apply bq_body_walkgetattr.
Qed.

Theorem refines_xattrwalk s c f nf name tape :
  Ledger s -> sinv s -> spec_reject (abs_state s) c (Txattrwalk f nf name) = None -> refines_at s c (Txattrwalk f nf name) tape.
Proof.
  intros HL Hi Hr.
  destruct (spec_pass_inv s c (Txattrwalk f nf name) HXattrwalk eq_refl Hr) as (_ & r & Hrb & _). cbn [fid1_of] in Hrb.
  set (p := view_of s r).
  eapply (refines_binder s c (Txattrwalk f nf name) tape nf (gxw (get_ref s r))
            (fun _ _ n => mkView 0 false 0 (v_deleted p) true p9_xattrWalk n n 0));
    try assumption; try reflexivity.
  - intros k fz n. cbn [post_ok]. rewrite (abs_bound s c f r Hrb). reflexivity.
  - intros s' nr Hv [Hlt (G1 & G2 & G3 & G4 & G5 & G6 & G7 & G8)]. exists 0, false, (fr_xlen (get_ref s' nr)).
    rewrite view_of_with. unfold view_with. rewrite G1, G2, G3, G4, G5, G6, G7.
    destruct (is_deleted s' nr) eqn:Ed; [reflexivity|].
    assert (Ed0 : v_deleted p = false).
    { unfold p, view_of; cbn. destruct (is_deleted s r) eqn:E0; [|reflexivity]. destruct Hv as (_ & _ & _ & _ & A5).
      unfold is_deleted in *. rewrite G8 in Ed. specialize (A5 _ E0). unfold ndel in A5. congruence. }
    rewrite Ed0. reflexivity.
  - eapply guarded_binder_shape with (k := HXattrwalk) (r := r); try assumption; try reflexivity; try (intros; discriminate).
    + apply vresp_gxw.
    + apply bq_body_xattrwalk.
Qed.

Theorem refines_lcreate s c u f name flags perm gid tape :
  Ledger s -> sinv s -> spec_reject (abs_state s) c (Tlcreate u f name flags perm gid) = None ->
  refines_at s c (Tlcreate u f name flags perm gid) tape.
Proof.
  intros HL Hi Hr.
  destruct (spec_pass_inv s c (Tlcreate u f name flags perm gid) HLcreate eq_refl Hr) as (_ & r & Hrb & _). cbn [fid1_of] in Hrb.
  eapply (refines_binder s c (Tlcreate u f name flags perm gid) tape f (glc flags)
            (fun _ fz _ => mkView p9_ModeRegular true flags fz false p9_xattrNone 0 0 0));
    try assumption; try reflexivity.
  - intros s' nr Hv [Hlt (G1 & G2 & G3 & G4 & G5 & G6 & G7 & G8)]. exists 0, (is_deleted s' nr), 0.
    rewrite view_of_with. unfold view_with. rewrite G1, G2, G3, G5, G6, G7, G8.
    destruct (fr_parent (get_ref s' nr)); [|contradiction]. destruct (is_deleted s' nr); reflexivity.
  - eapply guarded_binder_shape with (k := HLcreate) (r := r); try assumption; try reflexivity; try (intros; discriminate).
    + apply vresp_glc.
    + eapply bq_conseq; [apply bq_body_lcreate|intros; exact I].
Qed.

(** ---- the view frame of every body / handler ---- *)
Lemma bq_vf {A} K G (P : sstate -> Prop) (m : M A) okv : (forall t0, bq t0 K G P m okv) -> vf true P m tt2.
Proof.
  intros H w o w' Hi Hp E. destruct (H (st_fids (w_st w)) w o w' Hi Hp eq_refl E) as (A1 & A2 & _).
  split; [exact A1|]. split; [exact A2|]. intros; exact I.
Qed.

Definition viewchg (m : tmsg) : bool :=
  match m with Tlopen _ _ | Twrite _ _ _ | Txattrcreate _ _ _ _ => true | _ => false end.

Ltac vfx ::= first [apply vf0_dec_ref_ | apply vf0_dec_ref | apply vf0_decref | apply vf0_node_for | apply vf0_name_for
                    | apply vf0_lookup_fid | apply vf0_insert_fid | apply vf0_delete_fid
                    | apply vf0_mark_child_deleted | apply vf0_rename_child_to ].

Lemma vf0_body_true c m r t : viewchg m = false -> vf0 true (body c m r t).
Proof.
  intros Hv. destruct m; cbn in Hv; try discriminate;
    try (unfold body, the_ref, fail; vfa; fail).
  - (* Twalk *) intros w o w' Hi _ E.
    refine (bq_vf (c, nf) _ _ _ goodr (fun t0 => bq_body_walk t0 c f nf names (get_ref (w_st w) r) r t) w o w' Hi _ E). apply vsame_refl.
  - (* Twalkgetattr *) intros w o w' Hi _ E.
    refine (bq_vf (c, nf) _ _ _ goodr (fun t0 => bq_body_walkgetattr t0 c f nf names (get_ref (w_st w) r) r t) w o w' Hi _ E). apply vsame_refl.
  - (* Tlcreate *) exact (bq_vf (c, f) _ _ _ goodr (fun t0 => bq_body_lcreate t0 c u f name flags perm gid r t)).
  - (* Txattrwalk *) intros w o w' Hi _ E.
    refine (bq_vf (c, nf) _ _ _ goodr (fun t0 => bq_body_xattrwalk t0 c f nf name (get_ref (w_st w) r) r t) w o w' Hi _ E). apply vsame_refl.
Qed.

Lemma vsame_false_struct fr g : fr_node g = fr_node fr -> fr_parent g = fr_parent fr -> vsame false fr g.
Proof. intros H1 H2. split; [exact H1|]. split; [rewrite H2; tauto|discriminate]. Qed.

Lemma vf_put_own r (fr g : fidref) :
  fr_node g = fr_node fr -> fr_parent g = fr_parent fr ->
  vf false (fun s => fr = get_ref s r) (modify (put_ref r g)) tt2.
Proof.
  intros H1 H2. eapply vf_conseq; [apply vf_modify with (Q := tt1)|intros s H; exact H|unfold tt2; auto].
  intros s Hi ->. split; [apply sinv_put_ref; [exact Hi|rewrite H2; auto]|]. split; [|exact I].
  apply vstep_put_ref, vsame_false_struct; assumption.
Qed.

Lemma vf0_body_false c m r t : vf0 false (body c m r t).
Proof.
  destruct (viewchg m) eqn:Hv; [|apply vf_weaken_b, vf0_body_true, Hv].
  destruct m; cbn in Hv; try discriminate; unfold body, the_ref; apply vf_gets_bind; intros fr; apply vf_gets_bind; intros tfr.
  - (* Tlopen *)
    eapply vf_bind with (Q := fun _ s => fr = get_ref s r).
    + eapply vf_conseq; [apply (vf_same false (fun s => fr = get_ref s r)), ss_backend|intros s (_ & H & _); exact H|auto].
    + intros [v e]. destruct (is_err e); [apply vf0_any, vf0_ret|].
      eapply vf_bind; [apply vf_put_own; destruct fr; reflexivity|]. intros u. apply vf0_any, vf0_ret.
  - (* Twrite *)
    destruct (fr_xop fr =? p9_xattrNone); [apply vf0_any; vfa|].
    eapply vf_bind with (Q := tt2); [eapply vf_conseq; [apply (vf_put_own r fr); destruct fr; reflexivity|intros s (_ & H & _); exact H|auto]|].
    intros u. apply vf0_any, vf0_ret.
  - (* Txattrcreate *)
    eapply vf_bind with (Q := tt2); [eapply vf_conseq; [apply (vf_put_own r fr); destruct fr; reflexivity|intros s (_ & H & _); exact H|auto]|].
    intros u. apply vf0_any, vf0_ret.
Qed.

Lemma vf0_post b c m x : vf0 b (post c m x).
Proof. unfold post. destruct m; vfa. Qed.

Lemma vf0_guarded b c m k : (forall r t, vf0 b (body c m r t)) -> vf0 b (guarded c m k).
Proof.
  intros Hb.
  assert (Hin : forall r t, vf0 b (inner_of c m k r t)).
  { intros r t. unfold inner_of. apply vf0_bind; [apply vf0_gets|intros ms]. apply vf0_bind; [apply vf0_gets|intros p].
    apply vf0_bind; [apply vf0_gets|intros tv]. apply vf0_bind; [|intros x; apply vf0_post].
    destruct (first_failing (guards_of k) m ms p tv) as [[e|]|]; [apply vf0_ret|apply vf0_panic|apply Hb]. }
  rewrite guarded_eq. unfold fail. destruct (negb (forallb safe_nameb (names_of m))); [apply vf0_ret|].
  apply vf0_bind; [apply vf0_lookup_fid|intros [r|]]; [|apply vf0_ret].
  apply vf0_with_defer; [apply vf0_dec_ref_|]. destruct (fid2_of m) as [f2|]; [|apply Hin].
  apply vf0_bind; [apply vf0_lookup_fid|intros [t|]]; [|apply vf0_ret].
  apply vf0_with_defer; [apply vf0_dec_ref_|apply Hin].
Qed.

Definition plainh (m : tmsg) : bool :=
  match m with Tversion _ _ | Tattach _ _ _ _ _ | Tclunk _ => false | _ => true end.

Lemma vf0_handler_true c m : plainh m = true -> viewchg m = false -> vf0 true (handler c m).
Proof.
  intros Hp Hv. unfold handler. destruct m; cbn in Hp; try discriminate; cbn [kind_of]; try apply vf0_ret;
    (apply vf0_bind; [apply vf0_guarded; intros r t; apply vf0_body_true; exact Hv|intros x; apply vf0_ret]).
Qed.

Lemma abs_same_lookup s0 s' :
  Ledger s0 -> vstep true s0 s' -> (forall k, tlookup k (st_fids s') = tlookup k (st_fids s0)) ->
  forall c' f', a_fids (abs_state s') c' f' = a_fids (apply_fence (fence_of s') (abs_state s0)) c' f'.
Proof.
  intros HL Hv Et c' f'. destruct (tlookup (c', f') (st_fids s0)) as [x|] eqn:E0.
  - eapply abs_old_binding; eauto. rewrite Et. exact E0.
  - cbn [abs_state a_fids apply_fence]. unfold connid, fid in *. rewrite Et, E0. reflexivity.
Qed.

(** requests that bind nothing: Tunlinkat, Trename, Trenameat *)
Lemma refines_nobind s c m tape :
  Ledger s -> sinv s -> spec_reject (abs_state s) c m = None ->
  plainh m = true -> viewchg m = false -> (forall k, touches c m k = false) ->
  (forall k fz n, post_ok (abs_state s) c m k fz n = abs_state s) -> post_fail (abs_state s) c m = abs_state s ->
  clunk_incomplete (abs_state s) c m = false ->
  refines_at s c m tape.
Proof.
  intros HL Hi Hr Hp Hvc Ht Hpo Hpf Hci.
  assert (Hlk : forall k, tlookup k (st_fids (st_of (step s c m tape))) = tlookup k (st_fids s)).
  { intros [c' f']. apply other_fids_untouched, Ht. }
  unfold refines_at. unfold st_of, rp_of in *. unfold step in *.
  destruct (handler c m (mkW s tape [])) as [o w'] eqn:Eh.
  destruct (vf0_handler_true c m Hp Hvc (mkW s tape []) o w' Hi I Eh) as (Hi' & Hv & _). cbn [w_st] in Hv.
  assert (Hlk' : forall k, tlookup k (st_fids (w_st w')) = tlookup k (st_fids s)) by (intros k; specialize (Hlk k); destruct o; exact Hlk).
  unfold spec_step. rewrite Hr.
  destruct o as [rep|]; cbn [fst snd] in *.
  - destruct (rclass rep) as [e|] eqn:Erc.
    + exists (BFail e), (fence_of (w_st w')). cbn [fst snd]. rewrite Hpf. split; [reflexivity|]. split; [apply abs_same_lookup; assumption|].
      intros c'. cbn [apply_fence a_neg]. apply (abs_neg_frame s _ Hv).
    + exists (BOk 0 false 0), (fence_of (w_st w')). cbn [fst snd]. rewrite Hpo, Hci. split; [reflexivity|]. split; [apply abs_same_lookup; assumption|].
      intros c'. cbn [apply_fence a_neg]. apply (abs_neg_frame s _ Hv).
  - exists BPanicEarly, (fence_of (w_st w')). cbn [fst snd]. split; [reflexivity|]. split; [apply abs_same_lookup; assumption|].
    intros c'. cbn [apply_fence a_neg]. apply (abs_neg_frame s _ Hv).
Qed.

Theorem refines_unlinkat s c d name flags tape :
  Ledger s -> sinv s -> spec_reject (abs_state s) c (Tunlinkat d name flags) = None -> refines_at s c (Tunlinkat d name flags) tape.
Proof. intros. apply refines_nobind; auto; intros [c' f']; unfold touches; cbn; apply andb_false_r. Qed.
Theorem refines_rename s c f d name tape :
  Ledger s -> sinv s -> spec_reject (abs_state s) c (Trename f d name) = None -> refines_at s c (Trename f d name) tape.
Proof. intros. apply refines_nobind; auto; intros [c' f']; unfold touches; cbn; apply andb_false_r. Qed.
Theorem refines_renameat s c od oname nd nname tape :
  Ledger s -> sinv s -> spec_reject (abs_state s) c (Trenameat od oname nd nname) = None -> refines_at s c (Trenameat od oname nd nname) tape.
Proof. intros. apply refines_nobind; auto; intros [c' f']; unfold touches; cbn; apply andb_false_r. Qed.

(** ---- Tclunk / Tremove ---- *)
Lemma delete_fid_table c f w o w' r :
  tlookup (c, f) (st_fids (w_st w)) = Some r -> delete_fid c f w = (o, w') -> st_fids (w_st w') = tdel (c, f) (st_fids (w_st w)).
Proof.
  intros Hb. unfold delete_fid, bind at 1. cbn [gets]. unfold connid, fid in *. rewrite Hb. unfold bind at 1. cbn [modify]. intros E.
  apply kf_dec_ref in E. cbn [w_st] in E. rewrite E. reflexivity.
Qed.

Definition ushape (s0 : sstate) (K : connid * fid) (x : outcome reply * world) : Prop :=
  let (o, w') := x in
  sinv (w_st w') /\ vstep true s0 (w_st w') /\
  ((st_fids (w_st w') = st_fids s0 /\ o = Panic) \/ st_fids (w_st w') = tdel K (st_fids s0)).

Lemma refines_unbinder s c m f tape :
  Ledger s -> spec_reject (abs_state s) c m = None ->
  (forall k fz n, post_ok (abs_state s) c m k fz n = bind_fid (abs_state s) c f None) ->
  post_fail (abs_state s) c m = bind_fid (abs_state s) c f None ->
  ushape s (c, f) (handler c m (mkW s tape [])) ->
  (forall rep w', handler c m (mkW s tape []) = (Ok rep, w') -> rclass rep = None -> clunk_incomplete (abs_state s) c m = false) ->
  refines_at s c m tape.
Proof.
  intros HL Hr Hpo Hpf Hs Hinc. unfold refines_at, step, st_of, rp_of.
  destruct (handler c m (mkW s tape [])) as [o w'] eqn:Eh. cbn [ushape] in Hs. destruct Hs as (Hi' & Hv & Hs).
  unfold spec_step. rewrite Hr.
  destruct Hs as [[Et ->]|Et].
  - exists BPanicEarly, (fence_of (w_st w')). cbn [fst snd]. split; [reflexivity|]. split; [apply abs_same_table; assumption|].
    intros c'. cbn [apply_fence a_neg]. apply (abs_neg_frame s _ Hv).
  - destruct o as [rep|]; cbn [fst snd].
    + destruct (rclass rep) as [e|] eqn:Erc.
      * exists (BFail e), (fence_of (w_st w')). cbn [fst snd]. rewrite Hpf. split; [reflexivity|]. split; [apply abs_tdel_table; assumption|].
        intros c'. cbn [apply_fence a_neg bind_fid]. apply (abs_neg_frame s _ Hv).
      * exists (BOk 0 false 0), (fence_of (w_st w')). cbn [fst snd]. rewrite Hpo, (Hinc rep w' eq_refl Erc). split; [reflexivity|].
        split; [apply abs_tdel_table; assumption|]. intros c'. cbn [apply_fence a_neg bind_fid]. apply (abs_neg_frame s _ Hv).
    + exists (BPanicLate 0 false 0), (fence_of (w_st w')). cbn [fst snd]. rewrite Hpo. split; [reflexivity|].
      split; [apply abs_tdel_table; assumption|]. intros c'. cbn [apply_fence a_neg bind_fid]. apply (abs_neg_frame s _ Hv).
Qed.

Lemma kf_clunk_xattr c f : kfids (clunk_xattr c f).
Proof.
  unfold clunk_xattr. apply kf_bind; [apply kf_lookup_fid|intros [r|]]; [|kf].
  apply kf_with_defer; [apply kf_dec_ref_|]. kf.
Qed.
Lemma vf0_clunk_xattr c f : vf0 true (clunk_xattr c f).
Proof. unfold clunk_xattr. vfa. Qed.

Lemma clunk_xattr_incomplete s c f r tape log o1 w1 :
  Ledger s -> tlookup (c, f) (st_fids s) = Some r ->
  (fr_xop (get_ref s r) =? p9_xattrCreate) && negb (fr_xlen (get_ref s r) =? fr_xsize (get_ref s r)) = true ->
  clunk_xattr c f (mkW s tape log) = (o1, w1) -> o1 = Panic \/ o1 = Ok (Some (eno linux_EINVAL)).
Proof.
  intros HL Hb Hinc. apply andb_true_iff in Hinc. destruct Hinc as [H1 H2].
  unfold clunk_xattr, bind at 1. rewrite (lookup_run s tape log c f r Hb). unfold with_defer.
  unfold bind at 1. cbn [the_ref gets w_st]. rewrite get_s1. cbn [fr_xop fr_xlen fr_xsize set_refs]. rewrite H1, H2. cbn [negb ret].
  destruct (dec_ref_ r _) as [[u|] w2]; intros E; inversion E; auto.
Qed.

Theorem refines_clunk s c f tape :
  Ledger s -> sinv s -> spec_reject (abs_state s) c (Tclunk f) = None -> refines_at s c (Tclunk f) tape.
Proof.
  intros HL Hi Hr.
  assert (Hb : exists r, tlookup (c, f) (st_fids s) = Some r).
  { cbn in Hr. destruct (tlookup (c, f) (st_fids s)) as [r|]; [eauto|discriminate]. }
  destruct Hb as [r Hb].
  apply (refines_unbinder s c (Tclunk f) f tape HL Hr); try reflexivity.
  - change (handler c (Tclunk f)) with (h_clunk c f). unfold h_clunk, bind at 1.
    destruct (clunk_xattr c f (mkW s tape [])) as [[cerr|] w1] eqn:E1.
    + destruct (vf0_clunk_xattr c f (mkW s tape []) _ _ Hi I E1) as (A1 & A2 & _). pose proof (kf_clunk_xattr c f _ _ _ E1) as T1. cbn [w_st] in A2, T1.
      unfold bind at 1. destruct (delete_fid c f w1) as [[derr|] w2] eqn:E2.
      * destruct (vf0_delete_fid true c f _ _ _ A1 I E2) as (B1 & B2 & _).
        assert (T2 : st_fids (w_st w2) = tdel (c, f) (st_fids s)).
        { rewrite <- T1. eapply delete_fid_table; [|exact E2]. rewrite T1. exact Hb. }
        assert (Hsh : forall rep, ushape s (c, f) (Ok rep, w2)).
        { intros rep. split; [exact B1|]. split; [eapply vstep_trans; eauto|]. right. exact T2. }
        destruct (is_err derr); [apply Hsh|]. destruct cerr; apply Hsh.
      * destruct (vf0_delete_fid true c f _ _ _ A1 I E2) as (B1 & B2 & _).
        split; [exact B1|]. split; [eapply vstep_trans; eauto|]. right. rewrite <- T1. eapply delete_fid_table; [|exact E2]. rewrite T1. exact Hb.
    + destruct (vf0_clunk_xattr c f (mkW s tape []) _ _ Hi I E1) as (A1 & A2 & _). pose proof (kf_clunk_xattr c f _ _ _ E1) as T1.
      split; [exact A1|]. split; [exact A2|]. left. split; [exact T1|reflexivity].
  - intros rep w' Eh Erc. cbn [clunk_incomplete abs_state a_fids]. unfold connid, fid in *. rewrite Hb. cbn [view_of v_xop v_xlen v_xsize].
    destruct ((fr_xop (get_ref s r) =? p9_xattrCreate) && negb (fr_xlen (get_ref s r) =? fr_xsize (get_ref s r))) eqn:Einc; [|reflexivity].
    exfalso. change (handler c (Tclunk f)) with (h_clunk c f) in Eh. unfold h_clunk, bind at 1 in Eh.
    destruct (clunk_xattr c f (mkW s tape [])) as [o1 w1] eqn:E1.
    destruct (clunk_xattr_incomplete s c f r tape [] o1 w1 HL Hb Einc E1) as [->| ->]; [discriminate|].
    unfold bind at 1 in Eh. destruct (delete_fid c f w1) as [[derr|] w2]; [|discriminate].
    destruct (is_err derr); inversion Eh; subst; discriminate.
Qed.

Lemma kf_body_remove c f r t : kfids (body c (Tremove f) r t).
Proof.
  unfold body. apply kf_bind; [apply kf_gets|intros fr]. apply kf_bind; [apply kf_gets|intros tfr].
  destruct (fr_parent fr); [|kf]. apply kf_bind; [kf|intros pfr]. apply kf_bind; [kf|intros nm].
  apply kf_bind; [kf|intros [v e]]. destruct (is_err e); [kf|]. apply kf_bind; [apply kf_mark_child_deleted|intros _; kf].
Qed.

Theorem refines_remove_pass s c f tape :
  Ledger s -> sinv s -> spec_reject (abs_state s) c (Tremove f) = None -> refines_at s c (Tremove f) tape.
Proof.
  intros HL Hi Hr.
  destruct (spec_pass_inv s c (Tremove f) HRemove eq_refl Hr) as (Hn & r & Hrb & t & Ht & Hgd). cbn [fid2_of] in Ht. subst t. cbn [fid1_of] in Hrb.
  apply (refines_unbinder s c (Tremove f) f tape HL Hr); try reflexivity.
  - destruct (handler c (Tremove f) (mkW s tape [])) as [o w'] eqn:Eh.
    destruct (vf0_handler_true c (Tremove f) eq_refl eq_refl (mkW s tape []) o w' Hi I Eh) as (A1 & A2 & _). cbn [w_st] in A2.
    split; [exact A1|]. split; [exact A2|].
    change (handler c (Tremove f)) with (x <- guarded c (Tremove f) HRemove ;; ret (match x with inl e => RErr (extract_errno e) | inr r0 => r0 end))%m in Eh.
    unfold bind at 1 in Eh. rewrite (guarded_pass1 s c (Tremove f) HRemove tape r eq_refl Hn eq_refl Hrb Hgd) in Eh.
    set (s1 := set_refs_of s r (refsZ s r + 1)) in *. unfold with_defer, bind at 1 in Eh.
    destruct (body c (Tremove f) r r (mkW s1 tape [])) as [[x|] w2] eqn:Eb.
    + pose proof (kf_body_remove c f r r _ _ _ Eb) as T2. cbn [w_st] in T2. change (st_fids s1) with (st_fids s) in T2.
      cbn [post] in Eh. unfold bind at 1 in Eh.
      destruct (delete_fid c f w2) as [od w3] eqn:Ed.
      assert (T3 : st_fids (w_st w3) = tdel (c, f) (st_fids s)).
      { rewrite <- T2. eapply delete_fid_table; [|exact Ed]. rewrite T2. exact Hrb. }
      right.
      destruct od as [derr|].
      * destruct ((if is_err derr then ret (inl derr) else ret x) w3) as [o4 w4] eqn:E4.
        assert (w4 = w3) by (destruct (is_err derr); inversion E4; reflexivity). subst w4.
        destruct (dec_ref_ r w3) as [[u|] w5] eqn:E5; pose proof (kf_dec_ref_ r _ _ _ E5) as T5.
        -- destruct o4; inversion Eh; subst; congruence.
        -- inversion Eh; subst; congruence.
      * destruct (dec_ref_ r w3) as [[u|] w5] eqn:E5; pose proof (kf_dec_ref_ r _ _ _ E5) as T5; inversion Eh; subst; congruence.
    + destruct (dec_ref_ r w2) as [[u|] w5] eqn:E5; pose proof (kf_dec_ref_ r _ _ _ E5) as T5;
        pose proof (kf_body_remove c f r r _ _ _ Eb) as T2; cbn [w_st] in T2; change (st_fids s1) with (st_fids s) in T2;
        inversion Eh; subst; left; (split; [congruence|reflexivity]).
Qed.

(** ---- Tremove refused by a guard on a bound fid: unbinds, changes nothing else ---- *)
Lemma dec_ref_nocascade r w :
  refsZ (w_st w) r <> 1%Z ->
  dec_ref r w = (Ok [], mkW (set_refs_of (w_st w) r (refsZ (w_st w) r - 1)) (w_tape w) (w_log w)).
Proof.
  intros Hn. change (dec_ref r w) with (decref (ref_fuel (w_st w)) r w). unfold ref_fuel.
  cbn [decref]. unfold bind at 1. cbn [the_ref gets]. unfold bind at 1. cbn [modify].
  change (fr_refs (get_ref (w_st w) r)) with (refsZ (w_st w) r).
  destruct (refsZ (w_st w) r - 1 =? 0)%Z eqn:E; [apply Z.eqb_eq in E; lia|]. reflexivity.
Qed.

Definition ndk {A} (m : M A) : Prop := forall w o w', m w = (o, w') -> forall n, ndel (w_st w') n = ndel (w_st w) n.
Lemma ndk_bind {A B} (m : M A) (f : A -> M B) : ndk m -> (forall a, ndk (f a)) -> ndk (bind m f).
Proof.
  intros Hm Hf w o w' E n. unfold bind in E. destruct (m w) as [[a|] w1] eqn:Em.
  - rewrite (Hf a _ _ _ E n). exact (Hm _ _ _ Em n).
  - inversion E; subst. exact (Hm _ _ _ Em n).
Qed.
Lemma ndk_same {A} (m : M A) : samest m -> ndk m.
Proof. intros H w o w' E n. now rewrite (H _ _ _ E). Qed.
Lemma ndk_modify f : (forall s n, ndel (f s) n = ndel s n) -> ndk (modify f).
Proof. intros H w o w' E n. inversion E; subst; cbn. apply H. Qed.
Lemma ndk_decref fuel : forall r, ndk (decref fuel r).
Proof.
  induction fuel as [|k IH]; intros r; cbn [decref]; [apply ndk_same, ss_panic|].
  apply ndk_bind; [apply ndk_same, ss_gets|intros fr]. apply ndk_bind; [apply ndk_modify; reflexivity|intros _].
  destruct (_ =? 0)%Z; [|apply ndk_same, ss_ret].
  apply ndk_bind.
  - destruct (fr_xof fr); [apply IH|]. apply ndk_bind; [apply ndk_same, ss_backend|intros [v e]; apply ndk_same, ss_ret].
  - intros e1. apply ndk_bind; [|intros e2; apply ndk_same, ss_ret].
    destruct (fr_parent fr); [|apply ndk_same, ss_ret].
    apply ndk_bind; [apply ndk_same, ss_gets|intros pfr]. apply ndk_bind; [|intros _; apply IH].
    apply ndk_modify. intros s n. unfold ndel. destruct (N.eqb_spec n (fr_node pfr)) as [->|Hne]; [now rewrite get_node_put_same|now rewrite get_node_put_other].
Qed.
Lemma ndk_dec_ref_ r : ndk (dec_ref_ r).
Proof.
  unfold dec_ref_, dec_ref. apply ndk_bind; [|intros; apply ndk_same, ss_ret]. apply ndk_bind; [apply ndk_same, ss_gets|intros fuel; apply ndk_decref].
Qed.

Lemma view_exact s s' x :
  vstep true s s' -> (forall n, ndel s' n = ndel s n) -> x < st_next_ref s -> view_of s' x = view_of s x.
Proof.
  intros Hv Hn Hx. rewrite (view_frame s s' x Hv Hx).
  assert (Ed : is_deleted s' x = is_deleted s x).
  { destruct Hv as (_ & _ & _ & A4 & _). destruct (A4 x Hx) as (En & _). unfold is_deleted. rewrite En. apply Hn. }
  rewrite Ed. destruct (is_deleted s x) eqn:E0; [|reflexivity]. unfold view_of, fence_view; cbn. rewrite E0. reflexivity.
Qed.

Theorem refines_remove_refused s c f tape e r :
  Ledger s -> sinv s -> spec_reject (abs_state s) c (Tremove f) = Some e -> tlookup (c, f) (st_fids s) = Some r ->
  refines_at s c (Tremove f) tape.
Proof.
  intros HL Hi Hr Hrb.
  assert (Hg : first_failing (guards_of HRemove) (Tremove f) (alookup c (st_msize s)) (view_of s r) (view_of s r) = Some (GE e)).
  { unfold spec_reject in Hr. cbn [kind_of names_of forallb negb fid1_of fid2_of abs_state a_fids a_neg] in Hr.
    unfold connid, fid in *. rewrite Hrb in Hr.
    destruct (first_failing (guards_of HRemove) (Tremove f) (alookup c (st_msize s)) (view_of s r) (view_of s r)) as [[e0|]|] eqn:Eg; try discriminate.
    - inversion Hr; reflexivity.
    - exfalso. unfold first_failing, guards_of in Eg. cbn [find existsb geval fst snd] in Eg.
      destruct (v_root (view_of s r) || false); [discriminate|]. destruct (v_deleted (view_of s r) || false); discriminate. }
  pose proof (ledger_bound_pos s _ r HL Hrb) as Hrl.
  set (s1 := set_refs_of s r (refsZ s r + 1)).
  set (s1d := put_fids (tdel (c, f) (st_fids s1)) s1).
  set (s3 := set_refs_of s1d r (refsZ s1d r - 1)).
  assert (Hinner : inner_of c (Tremove f) HRemove r r (mkW s1 tape []) = (Ok (inl (eno e)), mkW s3 tape [])).
  { unfold inner_of, bind at 1, gets. cbn [w_st]. unfold bind at 1. cbn [w_st]. unfold bind at 1. cbn [w_st].
    unfold s1 at 1 2 3. rewrite !view_set_refs, !msize_set_refs, Hg. unfold bind at 1, fail, ret. cbn [post].
    unfold bind at 1, delete_fid, bind at 1. cbn [gets w_st]. change (st_fids s1) with (st_fids s). unfold connid, fid in *. rewrite Hrb.
    unfold bind at 1. cbn [modify w_st w_tape w_log]. change (put_fids (tdel (c, f) (st_fids s)) s1) with s1d.
    rewrite dec_ref_nocascade.
    - reflexivity.
    - cbn [w_st]. change (fr_refs (get_ref s1 r) <> 1%Z). unfold s1. rewrite get_s1. cbn [fr_refs set_refs]. lia. }
  assert (Hi3 : sinv s3) by (apply sinv_set_refs, sinv_put_fids, sinv_set_refs, Hi).
  assert (Hv3 : vstep true s s3).
  { eapply vstep_trans; [apply (vstep_set_refs true s r (refsZ s r + 1))|]. fold s1.
    eapply vstep_trans; [apply (vstep_eq true s1 s1d); reflexivity|apply vstep_set_refs]. }
  assert (Hn3 : forall n, ndel s3 n = ndel s n) by reflexivity.
  assert (Ht3 : st_fids s3 = tdel (c, f) (st_fids s)) by reflexivity.
  assert (Hh : handler c (Tremove f) (mkW s tape []) =
               match dec_ref_ r (mkW s3 tape []) with (Ok _, w2) => (Ok (RErr e), w2) | (Panic, w2) => (Panic, w2) end).
  { change (handler c (Tremove f)) with (x <- guarded c (Tremove f) HRemove ;; ret (match x with inl e => RErr (extract_errno e) | inr r0 => r0 end))%m.
    unfold bind at 1. rewrite guarded_eq. cbn [names_of forallb negb fid1_of fid2_of]. unfold bind at 1. rewrite (lookup_run s tape [] c f r Hrb). fold s1.
    unfold with_defer. rewrite Hinner. destruct (dec_ref_ r (mkW s3 tape [])) as [[u|] w5]; reflexivity. }
  unfold refines_at, step, st_of, rp_of. rewrite Hh.
  destruct (dec_ref_ r (mkW s3 tape [])) as [ou w5] eqn:E5.
  destruct (vf0_dec_ref_ true r (mkW s3 tape []) ou w5 Hi3 I E5) as (A1 & A2 & _). cbn [w_st] in A2.
  pose proof (ndk_dec_ref_ r _ _ _ E5) as N5. cbn [w_st] in N5. pose proof (kf_dec_ref_ r _ _ _ E5) as T5. cbn [w_st] in T5.
  assert (Hv : vstep true s (w_st w5)) by (eapply vstep_trans; eauto).
  assert (Hn : forall n, ndel (w_st w5) n = ndel s n) by (intros n; rewrite N5; apply Hn3).
  assert (Hfids : forall c' f', a_fids (abs_state (w_st w5)) c' f' = a_fids (bind_fid (abs_state s) c f None) c' f').
  { intros c' f'. cbn [abs_state a_fids bind_fid]. rewrite T5, Ht3. destruct (keyb (c', f') (c, f)) eqn:Ek.
    - pose proof Ek as Ek'. rewrite keyb_pair in Ek'. rewrite Ek'. apply keyb_eq in Ek. inversion Ek; subst. unfold connid, fid in *. now rewrite tlookup_tdel_same.
    - pose proof Ek as Ek'. rewrite keyb_pair in Ek'. rewrite Ek'. unfold connid, fid in *. rewrite (tlookup_tdel_other _ _ _ Ek).
      destruct (tlookup (c', f') (st_fids s)) as [x|] eqn:E0; [|reflexivity]. f_equal. apply view_exact; [exact Hv|exact Hn|]. eapply bound_below; eauto. }
  assert (Hsp : forall o, spec_step (abs_state s) c (Tremove f) o nofence =
                (bind_fid (abs_state s) c f None, match o with BPanicLate _ _ _ => Some linux_EFAULT | _ => Some e end)).
  { intros o. unfold spec_step. rewrite Hr. cbn [fid1_of abs_state a_fids]. unfold connid, fid in *. rewrite Hrb. reflexivity. }
  destruct ou as [u|].
  - exists BPanicEarly, nofence. rewrite Hsp. cbn [fst snd ret]. split; [reflexivity|]. split; [exact Hfids|]. intros c'. apply (abs_neg_frame s _ Hv).
  - exists (BPanicLate 0 false 0), nofence. rewrite Hsp. cbn [fst snd]. split; [reflexivity|]. split; [exact Hfids|]. intros c'. apply (abs_neg_frame s _ Hv).
Qed.

(** ---- Tattach ---- *)
Lemma bq_weakenG t0 K (G G' : fidref -> Prop) {A} P (m : M A) okv : (forall fr, G fr -> G' fr) -> bq t0 K G P m okv -> bq t0 K G' P m okv.
Proof.
  intros HG H w o w' Hi Hp Ht E. destruct (H w o w' Hi Hp Ht E) as (A1 & A2 & A3). split; [exact A1|]. split; [exact A2|].
  destruct A3 as [A3|(nr & T1 & [T2 T2'] & T3)]; [left; exact A3|right; exists nr; split; [exact T1|split; [split; [exact T2|apply HG, T2']|exact T3]]].
Qed.

Definition gatt (name : string) (fr : fidref) : Prop := gplain fr /\ (fr_parent fr = None <-> name = ""%string).
Lemma vresp_gatt name : vresp (gatt name).
Proof. intros a a' H [G1 G2]. split; [eapply vresp_gplain; eauto|]. destruct H as (_ & H & _). tauto. Qed.

Definition goodp' (r : reply) : Prop := rclass r = None.

Definition attach_tail (c : connid) (f : N) (name : string) (va : bval) (root : refid) : M reply :=
  (if String.eqb name "" then insert_fid c f root ;; ret (ok p9_msgRattach [hd0 (bv_qids va)])
   else
     w <- do_walk root (split_on slash name) false ;;
     match w with
     | inl e => ret (RErr (extract_errno e))
     | inr (_, nr, _) => with_defer (dec_ref_ nr) (insert_fid c f nr ;; ret (ok p9_msgRattach [hd0 (bv_qids va)]))
     end)%m.

Lemma bq_attach_tail t0 c f name va root src :
  fr_parent src = None -> gplain src ->
  bq t0 (c, f) (gatt name) (fun s => root < st_next_ref s /\ vsame true src (get_ref s root)) (attach_tail c f name va root) goodp'.
Proof.
  intros Hsp Hsg. pose proof (vresp_gatt name) as HG. unfold attach_tail. destruct (String.eqb name "") eqn:En.
  - apply String.eqb_eq in En. eapply bq_conseq; [apply bq_insert; [exact HG|reflexivity|reflexivity]|].
    intros s [Hlt Hv]. split; [exact Hlt|]. split; [eapply vresp_gplain; eauto|]. destruct Hv as (_ & Hv & _). tauto.
  - apply String.eqb_neq in En. pose proof (split_on_nonempty slash name) as Hne.
    eapply bq_bind_pre; [eapply vf_conseq; [apply (vf_do_walk root (split_on slash name) false src)|intros s [_ H]; exact H|intros a s H; exact H]|apply kf_do_walk|].
    intros [e|[[q nr] a]]; [apply bq_ret_bad; intros H; discriminate|].
    apply bq_with_defer; [exact HG|apply vf0_dec_ref_|apply kf_dec_ref_|].
    apply (bq_weakenG t0 (c, f) (gwalk (split_on slash name) src)).
    + intros fr Hfr. destruct (split_on slash name); [contradiction|]. destruct Hfr as [G1 G2]. split; [exact G1|]. split; [intros E; contradiction|intros E; contradiction].
    + eapply bq_conseq; [apply bq_insert; [|reflexivity|reflexivity]|intros s H; exact H].
      destruct (split_on slash name); [apply vresp_gclone|apply vresp_gchild].
Qed.

Definition attach_inner (c : connid) (f : N) (name : string) (h : handle) (root : refid) : M reply :=
  ('(va, ea) <- backend (mkCall MGetAttr h [] None [attr_mask_all] []) ;;
   if is_err ea then ret (RErr (extract_errno ea))
   else if negb (bv_valid va) then ret (RErr linux_EINVAL)
   else
     rfr <- the_ref root ;;
     modify (put_ref root (mkRef (fr_file rfr) (fr_refs rfr) false 0 (ftype (bv_mode va)) 0 None p9_xattrNone "" 0 0 0 None)) ;;
     attach_tail c f name va root)%m.

Lemma exit_shape s0 s1 K G root (o1 : outcome reply) w2 :
  sinv s1 -> vstep true s0 s1 -> st_fids s1 = st_fids s0 -> w_st w2 = s1 -> (forall a, o1 = Ok a -> rclass a <> None) ->
  hshape s0 K G (let (o, w3) := dec_ref_ root w2 in match o with Ok _ => (o1, w3) | Panic => (Panic, w3) end).
Proof.
  intros Hi Hv Ht Hw Hbad. destruct (dec_ref_ root w2) as [[u|] w3] eqn:Ed.
  - rewrite <- Hw in Hi. destruct (vf0_dec_ref_ true root _ _ _ Hi I Ed) as (A1 & A2 & _). pose proof (kf_dec_ref_ root _ _ _ Ed) as T.
    split; [exact A1|]. split; [eapply vstep_trans; [exact Hv|rewrite <- Hw; exact A2]|]. left. split; [congruence|exact Hbad].
  - rewrite <- Hw in Hi. destruct (vf0_dec_ref_ true root _ _ _ Hi I Ed) as (A1 & A2 & _). pose proof (kf_dec_ref_ root _ _ _ Ed) as T.
    split; [exact A1|]. split; [eapply vstep_trans; [exact Hv|rewrite <- Hw; exact A2]|]. left. split; [congruence|discriminate].
Qed.

Lemma attach_inner_shape s0 s1 root h c f name tapeX logX :
  sinv s1 -> vstep true s0 s1 -> st_fids s1 = st_fids s0 -> root < st_next_ref s1 -> st_next_ref s0 <= root ->
  get_ref s1 root = mkRef h 1 false 0 0 0 None p9_xattrNone "" 0 0 0 None ->
  hshape s0 (c, f) (gatt name) (with_defer (dec_ref_ root) (attach_inner c f name h root) (mkW s1 tapeX logX)).
Proof.
  intros Hi Hv Ht Hlt Hge Hg. unfold with_defer, attach_inner, bind at 1.
  destruct (backend (mkCall MGetAttr h [] None [attr_mask_all] []) (mkW s1 tapeX logX)) as [[[va ea]|] w2] eqn:Eb;
    pose proof (ss_backend _ _ _ _ Eb) as Hw2; cbn [w_st] in Hw2.
  2:{ apply (exit_shape s0 s1); auto. discriminate. }
  destruct (is_err ea). { cbn [ret]. apply (exit_shape s0 s1); auto. intros a Ea; inversion Ea; discriminate. }
  destruct (negb (bv_valid va)). { cbn [ret]. apply (exit_shape s0 s1); auto. intros a Ea; inversion Ea; discriminate. }
  unfold bind at 1. cbn [the_ref gets]. unfold bind at 1. cbn [modify]. rewrite Hw2, Hg. cbn [fr_file fr_refs].
  set (g2 := mkRef h 1 false 0 (ftype (bv_mode va)) 0 None p9_xattrNone "" 0 0 0 None).
  set (s2 := put_ref root g2 s1).
  assert (Hi2 : sinv s2) by (apply sinv_put_ref; [exact Hi|rewrite Hg; reflexivity]).
  assert (Hv2 : vstep true s0 s2).
  { destruct Hv as (V1 & V2 & V3 & V4 & V5). split; [exact V1|]. split; [exact V2|]. split; [exact V3|]. split; [|exact V5].
    intros x Hx. unfold s2. rewrite get_put_ref_other by lia. apply V4, Hx. }
  assert (Hbq := bq_with_defer (st_fids s0) (c, f) (gatt name) (vresp_gatt name) _ (dec_ref_ root) _ goodp'
                   (vf0_dec_ref_ true root) (kf_dec_ref_ root) (bq_attach_tail (st_fids s0) c f name va root g2 eq_refl ltac:(repeat split))).
  unfold with_defer in Hbq.
  specialize (Hbq (mkW s2 (w_tape w2) (w_log w2))). cbn [w_st] in Hbq.
  destruct (attach_tail c f name va root (mkW s2 (w_tape w2) (w_log w2))) as [o3 w3] eqn:E3.
  destruct (dec_ref_ root w3) as [[u|] w4] eqn:E4.
  - destruct (Hbq _ _ Hi2 (conj Hlt (eq_ind_r (fun z => vsame true g2 z) (vsame_refl true g2) (get_put_ref_same root g2 s1))) Ht eq_refl) as (A1 & A2 & A3).
    split; [exact A1|]. split; [eapply vstep_trans; eauto|]. destruct A3 as [[T1 T2]|(nr & T1 & T2 & T3)].
    + left. split; [exact T1|]. intros a Ea. apply (T2 a Ea).
    + right. exists nr. split; [exact T1|]. split; [exact T2|]. intros a Ea. apply (T3 a Ea).
  - destruct (Hbq _ _ Hi2 (conj Hlt (eq_ind_r (fun z => vsame true g2 z) (vsame_refl true g2) (get_put_ref_same root g2 s1))) Ht eq_refl) as (A1 & A2 & A3).
    split; [exact A1|]. split; [eapply vstep_trans; eauto|]. destruct A3 as [[T1 T2]|(nr & T1 & T2 & T3)].
    + left. split; [exact T1|discriminate].
    + right. exists nr. split; [exact T1|]. split; [exact T2|discriminate].
Qed.

Lemma h_attach_eq c f aname :
  h_attach c f p9_noFID aname =
  ('(_, e) <- backend (call0 MAttach 0) ;;
   if is_err e then ret (RErr (extract_errno e))
   else
     h <- fresh_handle ;;
     root <- new_ref (mkRef h 1 false 0 0 0 None p9_xattrNone "" 0 0 0 None) ;;
     with_defer (dec_ref_ root) (attach_inner c f (strip_slash aname) h root))%m.
Proof. reflexivity. Qed.

Lemma attach_shape s0 c f aname tape :
  sinv s0 -> hshape s0 (c, f) (gatt (strip_slash aname)) (h_attach c f p9_noFID aname (mkW s0 tape [])).
Proof.
  intros Hi. rewrite h_attach_eq. unfold bind at 1.
  destruct (backend (call0 MAttach 0) (mkW s0 tape [])) as [[[v e]|] w1] eqn:Eb;
    pose proof (ss_backend _ _ _ _ Eb) as Hw1; cbn [w_st] in Hw1.
  2:{ split; [rewrite Hw1; exact Hi|]. split; [rewrite Hw1; apply vstep_refl|]. left. split; [now rewrite Hw1|discriminate]. }
  destruct (is_err e).
  { cbn [ret]. split; [rewrite Hw1; exact Hi|]. split; [rewrite Hw1; apply vstep_refl|]. left. split; [now rewrite Hw1|]. intros a Ea; inversion Ea; discriminate. }
  unfold bind at 1. destruct (fresh_handle w1) as [oh w1h] eqn:Eh.
  destruct (vf0_fresh_handle true w1 oh w1h ltac:(rewrite Hw1; exact Hi) I Eh) as (B1 & B2 & _).
  pose proof (kf_keeps _ keeps_fresh_handle _ _ _ Eh) as Th. rewrite Hw1 in Th.
  assert (Eoh : exists h, oh = Ok h) by (unfold fresh_handle in Eh; inversion Eh; eauto). destruct Eoh as [h ->].
  unfold bind at 1. rewrite new_ref_run.
  set (g1 := mkRef h 1 false 0 0 0 None p9_xattrNone "" 0 0 0 None).
  destruct (vf_new_ref true g1 w1h _ _ B1 I (new_ref_run g1 w1h)) as (C1 & C2 & C3). cbn [w_st] in C1, C2.
  destruct (C3 _ eq_refl) as [C4 C5]. cbn [w_st] in C4, C5.
  apply attach_inner_shape; auto.
  - rewrite Hw1 in B2. eapply vstep_trans; eauto.
  - destruct B2 as (N1 & _). rewrite Hw1 in N1. exact N1.
Qed.

Lemma strip_slash_empty aname : strip_slash aname = ""%string <-> (String.eqb aname "" || String.eqb aname "/") = true.
Proof.
  destruct aname as [|a r]; cbn; [tauto|]. destruct (Ascii.eqb_spec a slash) as [->|Hne].
  - destruct r; cbn; [tauto|]. split; [discriminate|]. intros H. exfalso. change (Ascii.eqb slash "/"%char) with true in H. cbn in H. discriminate.
  - split; [discriminate|]. intros H. exfalso. unfold slash in Hne. destruct (Ascii.eqb_spec a "/"%char); [contradiction|]. cbn in H. discriminate.
Qed.

Theorem refines_attach s c f afid un aname uid tape :
  Ledger s -> sinv s -> spec_reject (abs_state s) c (Tattach f afid un aname uid) = None -> refines_at s c (Tattach f afid un aname uid) tape.
Proof.
  intros HL Hi Hr. assert (Ha : afid = p9_noFID).
  { cbn in Hr. destruct (N.eqb_spec afid p9_noFID); [assumption|discriminate]. }
  subst afid.
  eapply (refines_binder s c (Tattach f p9_noFID un aname uid) tape f (gatt (strip_slash aname))
            (fun k fz _ => fresh_view k fz (String.eqb aname "" || String.eqb aname "/"))); try assumption; try reflexivity.
  - intros s' nr Hv [Hlt [Gp Gr]]. exists (fr_mode (get_ref s' nr)), (is_deleted s' nr), 0.
    rewrite view_of_with, (view_with_gplain _ _ Gp).
    assert (Hroot : (match fr_parent (get_ref s' nr) with None => true | Some _ => false end) = (String.eqb aname "" || String.eqb aname "/")).
    { destruct (String.eqb aname "" || String.eqb aname "/") eqn:E.
      - apply strip_slash_empty in E. apply Gr in E. now rewrite E.
      - destruct (fr_parent (get_ref s' nr)) eqn:Ep; [reflexivity|]. destruct Gr as [Gr _]. specialize (Gr eq_refl). apply strip_slash_empty in Gr. congruence. }
    rewrite Hroot. destruct (is_deleted s' nr); reflexivity.
  - exact (attach_shape s c f aname tape Hi).
Qed.
