(** C15, multi-call requests: the reply to a request in which a backend call failed is Rlerror with
    the errno of the FIRST failing call (walk at component i, the WalkGetAttr->ENOSYS fallback, attach,
    rename, xattrwalk, lcreate, remove, clunk); Files obtained by a failing walk step are closed.

    A Hoare-style pass over the monad of State.v whose abstract state is [ffl (w_log w)] = the first
    fault of the log so far ([first_fault] of Cases.v read on the newest-first log). *)
From Coq Require Import NArith ZArith List String Ascii Bool Lia.
From P9V Require Import Base.Str gen.ConstGen Fs.Version Server.State Server.Msg Server.Handlers Server.Cases
  Server.NameProofs Server.Ledger Server.TableFrame.
Import ListNotations.
Open Scope N_scope.

(** ---- first fault of a newest-first log ---- *)
Definition ffl (l : list (bcall * answer)) : option errv := first_fault (rev l).

Lemma first_fault_app l1 l2 :
  first_fault (l1 ++ l2) = match first_fault l1 with Some e => Some e | None => first_fault l2 end.
Proof. induction l1 as [|[c a] r IH]; cbn; [reflexivity|]. destruct (is_fault c a); auto. Qed.

Lemma ffl_cons c a l : ffl ((c, a) :: l) = match ffl l with Some e => Some e | None => is_fault c a end.
Proof.
  unfold ffl. cbn [rev]. rewrite first_fault_app. destruct (first_fault (rev l)); [reflexivity|].
  cbn. destruct (is_fault c a); reflexivity.
Qed.

Definition plain (m : meth) : bool :=
  match m with MClose | MRenamed | MWalkGetAttr | MReadAt | MReaddir => false | _ => true end.
Lemma is_fault_plain c v e : plain (bc_meth c) = true -> is_err e = true -> is_fault c (AVal v e) = Some e.
Proof. intros Hp He. unfold is_fault. rewrite He. cbn [negb]. destruct (bc_meth c); try reflexivity; discriminate. Qed.
Lemma is_fault_ok c v e : is_err e = false -> is_fault c (AVal v e) = None.
Proof. intros He. unfold is_fault. rewrite He. reflexivity. Qed.

(** ---- the judgement ---- *)
Definition ff {A} (P : option errv -> Prop) (m : M A) (Q : A -> option errv -> Prop) : Prop :=
  forall w a w', m w = (Ok a, w') -> P (ffl (w_log w)) -> Q a (ffl (w_log w')).
Definition quiet {A} (m : M A) : Prop :=
  forall w a w', m w = (Ok a, w') -> ffl (w_log w') = ffl (w_log w).
Definition at_ (y0 : option errv) : option errv -> Prop := fun y => y = y0.

Lemma ff_bind {A B} P (m : M A) (f : A -> M B) Q R :
  ff P m Q -> (forall a, ff (Q a) (f a) R) -> ff P (bind m f) R.
Proof.
  intros Hm Hf w b w' E HP. unfold bind in E. destruct (m w) as [[a|] w1] eqn:Em; [|discriminate].
  eapply Hf; [exact E|]. eapply Hm; eauto.
Qed.
Lemma ff_qbind {A B} P (m : M A) (f : A -> M B) R :
  quiet m -> (forall a, ff P (f a) R) -> ff P (bind m f) R.
Proof.
  intros Hm Hf w b w' E HP. unfold bind in E. destruct (m w) as [[a|] w1] eqn:Em; [|discriminate].
  eapply Hf; [exact E|]. rewrite (Hm _ _ _ Em). exact HP.
Qed.
Lemma ff_ret {A} (P : option errv -> Prop) (a : A) (Q : A -> option errv -> Prop) :
  (forall y, P y -> Q a y) -> ff P (ret a) Q.
Proof. intros H w a' w' E HP. inversion E; subst. auto. Qed.
Lemma ff_panic {A} P Q : ff P (@panic A) Q.
Proof. intros w a w' E. discriminate. Qed.
Lemma ff_with_defer {A} P (d : M unit) (m : M A) Q : quiet d -> ff P m Q -> ff P (with_defer d m) Q.
Proof.
  intros Hd Hm w a w' E HP. unfold with_defer in E. destruct (m w) as [o1 w1] eqn:Em.
  destruct (d w1) as [[u|] w2] eqn:Ed; [|discriminate]. inversion E; subst.
  rewrite (Hd _ _ _ Ed). eapply Hm; eauto.
Qed.
Lemma ff_pre {A} (P P' : option errv -> Prop) (m : M A) Q : (forall y, P' y -> P y) -> ff P m Q -> ff P' m Q.
Proof. intros H Hm w a w' E HP. eapply Hm; eauto. Qed.
Lemma ff_quiet {A} P (m : M A) : quiet m -> ff P m (fun _ => P).
Proof. intros Hm w a w' E HP. rewrite (Hm _ _ _ E). exact HP. Qed.
Lemma ff_quiet_none {A} (m : M A) (Q : A -> option errv -> Prop) :
  quiet m -> (forall a, Q a None) -> ff (at_ None) m Q.
Proof. intros Hm HQ w a w' E HP. rewrite (Hm _ _ _ E). unfold at_ in HP. rewrite HP. apply HQ. Qed.

Lemma ff_backend c y0 :
  ff (at_ y0) (backend c)
     (fun ve y => y = match y0 with Some e => Some e | None => is_fault c (AVal (fst ve) (snd ve)) end).
Proof.
  intros w [v e] w' E HP. unfold at_ in HP. unfold backend in E.
  destruct (w_tape w) as [|a t]; [|destruct a]; inversion E; subst; cbn [w_log fst snd]; rewrite ffl_cons; reflexivity.
Qed.

(** ---- quiet computations: no backend call but Close / Renamed ---- *)
Lemma q_ret {A} (a : A) : quiet (ret a).
Proof. intros w a' w' E. inversion E; reflexivity. Qed.
Lemma q_panic {A} : quiet (@panic A).
Proof. intros w a w' E. discriminate. Qed.
Lemma q_gets {A} (f : sstate -> A) : quiet (gets f).
Proof. intros w a w' E. inversion E; reflexivity. Qed.
Lemma q_modify f : quiet (modify f).
Proof. intros w a w' E. inversion E; reflexivity. Qed.
Lemma q_fresh_handle : quiet fresh_handle.
Proof. intros w a w' E. inversion E; reflexivity. Qed.
Lemma q_new_ref fr : quiet (new_ref fr).
Proof. intros w a w' E. inversion E; reflexivity. Qed.
Lemma q_bind {A B} (m : M A) (f : A -> M B) : quiet m -> (forall a, quiet (f a)) -> quiet (bind m f).
Proof.
  intros Hm Hf w b w' E. unfold bind in E. destruct (m w) as [[a|] w1] eqn:Em; [|discriminate].
  rewrite (Hf _ _ _ _ E). exact (Hm _ _ _ Em).
Qed.
Lemma q_with_defer {A} (d : M unit) (m : M A) : quiet d -> quiet m -> quiet (with_defer d m).
Proof.
  intros Hd Hm w a w' E. unfold with_defer in E. destruct (m w) as [o1 w1] eqn:Em.
  destruct (d w1) as [[u|] w2] eqn:Ed; [|discriminate]. inversion E; subst.
  rewrite (Hd _ _ _ Ed). exact (Hm _ _ _ Em).
Qed.
Lemma q_backend c : bc_meth c = MClose \/ bc_meth c = MRenamed -> quiet (backend c).
Proof.
  intros H w [v e] w' E.
  assert (Hf : forall a, is_fault c a = None).
  { intros a. unfold is_fault. destruct a as [v1 e1|]; [|reflexivity].
    destruct (negb (is_err e1)); [reflexivity|]. destruct H as [H|H]; rewrite H; reflexivity. }
  unfold backend in E.
  destruct (w_tape w) as [|a t]; [|destruct a]; inversion E; subst; cbn [w_log]; rewrite ffl_cons, Hf;
    destruct (ffl (w_log w)); reflexivity.
Qed.

Ltac qa1 :=
  match goal with
  | |- quiet (ret _) => apply q_ret
  | |- quiet (fail _) => apply q_ret
  | |- quiet panic => apply q_panic
  | |- quiet (gets _) => apply q_gets
  | |- quiet (the_ref _) => apply q_gets
  | |- quiet (the_node _) => apply q_gets
  | |- quiet (modify _) => apply q_modify
  | |- quiet (incref _) => apply q_modify
  | |- quiet (remove_child _ _) => apply q_modify
  | |- quiet fresh_handle => apply q_fresh_handle
  | |- quiet (new_ref _) => apply q_new_ref
  | |- quiet (backend _) => apply q_backend; first [left; reflexivity|right; reflexivity]
  | |- quiet (bind _ _) => apply q_bind; [|intros ?; cbv beta iota]
  | |- quiet (with_defer _ _) => apply q_with_defer
  | |- quiet (match ?x with _ => _ end) => destruct x
  end.
Ltac qa := repeat qa1.

Lemma q_decref fuel : forall r, quiet (decref fuel r).
Proof.
  induction fuel as [|k IH]; intros r; cbn [decref]; [apply q_panic|].
  apply q_bind; [apply q_gets|intros fr]. apply q_bind; [apply q_modify|intros _].
  destruct (_ =? 0)%Z; [|apply q_ret].
  apply q_bind.
  - destruct (fr_xof fr); [apply IH|]. qa.
  - intros e1. apply q_bind; [|intros e2; apply q_ret].
    destruct (fr_parent fr); [|apply q_ret].
    apply q_bind; [apply q_gets|intros pfr]. apply q_bind; [apply q_modify|intros _; apply IH].
Qed.
Lemma q_dec_ref r : quiet (dec_ref r).
Proof. unfold dec_ref. apply q_bind; [apply q_gets|intros fuel; apply q_decref]. Qed.
Lemma q_dec_ref_ r : quiet (dec_ref_ r).
Proof. unfold dec_ref_. apply q_bind; [apply q_dec_ref|intros _; apply q_ret]. Qed.
Lemma q_lookup_fid c f : quiet (lookup_fid c f).
Proof. unfold lookup_fid. qa. Qed.
Lemma q_insert_fid c f r : quiet (insert_fid c f r).
Proof.
  unfold insert_fid. apply q_bind; [apply q_gets|intros o]. apply q_bind; [apply q_modify|intros _].
  apply q_bind; [apply q_modify|intros _]. destruct o; [apply q_dec_ref_|apply q_ret].
Qed.
Lemma q_delete_fid c f : quiet (delete_fid c f).
Proof.
  unfold delete_fid. apply q_bind; [apply q_gets|intros o]. destruct o; [|apply q_ret].
  apply q_bind; [apply q_modify|intros _; apply q_dec_ref].
Qed.
Lemma q_node_for n name : quiet (node_for n name).
Proof.
  unfold node_for. apply q_bind; [apply q_gets|intros p]. destruct (slookup name (pn_kids p)); [apply q_ret|].
  intros w a w' E. inversion E; reflexivity.
Qed.
Lemma q_add_child n r name : quiet (add_child n r name).
Proof. unfold add_child. qa. Qed.
Lemma q_name_for n r : quiet (name_for n r).
Proof. unfold name_for. qa. Qed.
Lemma q_add_path_node_for n name c : quiet (add_path_node_for n name c).
Proof. unfold add_path_node_for. qa. Qed.

Lemma q_rwn_loop {A} n (fn : option (refid -> M unit)) (k : M A) :
  (forall f r, fn = Some f -> quiet (f r)) -> quiet k -> forall rs, quiet (rwn_loop n fn rs k).
Proof.
  intros Hf Hk rs. induction rs as [|r rest IH]; cbn [rwn_loop]; [exact Hk|].
  apply q_bind; [apply q_modify|intros _]. destruct fn as [f|]; [|exact IH].
  apply q_bind; [apply q_gets|intros fr]. destruct (0 <? fr_refs fr)%Z; [|exact IH].
  apply q_bind; [apply q_modify|intros _]. apply q_with_defer; [apply q_dec_ref_|].
  apply q_bind; [apply (Hf f r eq_refl)|intros _; exact IH].
Qed.
Lemma q_remove_with_name n name fn :
  (forall f r, fn = Some f -> quiet (f r)) -> quiet (remove_with_name n name fn).
Proof.
  intros Hf. unfold remove_with_name. apply q_bind; [apply q_gets|intros p].
  apply q_rwn_loop; [exact Hf|]. qa.
Qed.
Lemma q_notify_delete fuel : forall n, quiet (notify_delete fuel n).
Proof.
  induction fuel as [|k IH]; intros n; cbn [notify_delete]; [apply q_panic|].
  apply q_bind; [apply q_gets|intros p]. apply q_bind; [apply q_modify|intros _].
  generalize (pn_kids p) as l. induction l as [|[nm c] rest IHl]; [apply q_ret|].
  apply q_bind; [apply IH|intros _; exact IHl].
Qed.
Lemma q_mark_child_deleted n name : quiet (mark_child_deleted n name).
Proof.
  unfold mark_child_deleted. apply q_bind; [apply q_remove_with_name; intros f r H; discriminate|intros o].
  destruct o; [|apply q_ret]. apply q_bind; [apply q_gets|intros fuel; apply q_notify_delete].
Qed.
Lemma q_notify_name_change {A} fuel : forall n (k : M A), quiet k -> quiet (notify_name_change fuel n k).
Proof.
  induction fuel as [|f IH]; intros n k Hk; cbn [notify_name_change]; [apply q_panic|].
  apply q_bind; [apply q_gets|intros p].
  generalize (pn_refs p) as l. induction l as [|[r nm] rest IHl].
  - generalize (pn_kids p) as kids. induction kids as [|[nm c] rest IHk]; [exact Hk|]. apply IH. exact IHk.
  - apply q_bind; [apply q_gets|intros fr]. destruct (0 <? fr_refs fr)%Z; [|exact IHl].
    apply q_bind; [apply q_modify|intros _]. apply q_with_defer; [apply q_dec_ref_|].
    destruct (fr_parent fr); [|apply q_panic].
    apply q_bind; [apply q_gets|intros pfr].
    apply q_bind; [apply q_backend; right; reflexivity|intros _; exact IHl].
Qed.
Lemma q_rename_child_to f old target new : quiet (rename_child_to f old target new).
Proof.
  unfold rename_child_to. apply q_bind; [apply q_gets|intros ffr]. apply q_bind; [apply q_gets|intros tfr].
  apply q_bind; [apply q_mark_child_deleted|intros _]. apply q_bind.
  - apply q_remove_with_name. intros g r Hg. inversion Hg; subst; clear Hg.
    apply q_bind; [apply q_gets|intros fr]. apply q_bind; [apply q_modify|intros _].
    apply q_bind; [apply q_modify|intros _]. apply q_bind; [apply q_add_child|intros _].
    apply q_bind; [apply q_backend; right; reflexivity|intros _].
    apply q_bind; [destruct (fr_parent fr); [apply q_dec_ref_|apply q_panic]|intros _; apply q_ret].
  - intros o. destruct o; [|apply q_ret]. apply q_bind; [apply q_add_path_node_for|intros _].
    apply q_bind; [apply q_gets|intros fuel]. apply q_notify_name_change. apply q_ret.
Qed.

Ltac qb1 :=
  match goal with
  | |- quiet (dec_ref_ _) => apply q_dec_ref_
  | |- quiet (dec_ref _) => apply q_dec_ref
  | |- quiet (lookup_fid _ _) => apply q_lookup_fid
  | |- quiet (insert_fid _ _ _) => apply q_insert_fid
  | |- quiet (delete_fid _ _) => apply q_delete_fid
  | |- quiet (node_for _ _) => apply q_node_for
  | |- quiet (add_child _ _ _) => apply q_add_child
  | |- quiet (name_for _ _) => apply q_name_for
  | |- quiet (mark_child_deleted _ _) => apply q_mark_child_deleted
  | |- quiet (rename_child_to _ _ _ _) => apply q_rename_child_to
  | _ => qa1
  end.
Ltac qb := repeat qb1.

(** ---- results that carry the first fault ---- *)
Definition okres {X} (r : res X) (y : option errv) : Prop :=
  match y with None => True | Some e => r = inl e end.
Definition okrep (r : reply) (y : option errv) : Prop :=
  match y with None => True | Some e => r = RErr (extract_errno e) end.
Definition ffr {X} (m : M (res X)) : Prop := ff (at_ None) m okres.

Lemma ff_ret_none {X} (a : res X) : ff (at_ None) (ret a) okres.
Proof. apply ff_ret. intros y ->. exact I. Qed.
Lemma ff_ret_err {X} e : ff (at_ (Some e)) (ret (@inl errv X e)) okres.
Proof. apply ff_ret. intros y ->. reflexivity. Qed.
Lemma ff_ret_keep {X} (x : res X) : ff (okres x) (ret x) okres.
Proof. apply ff_ret. intros y Hy. exact Hy. Qed.
Lemma ff_ret_inl {X Y} e : ff (okres (@inl errv X e)) (ret (@inl errv Y e)) okres.
Proof.
  apply ff_ret. intros y Hy. unfold okres in *. destruct y; [|exact I]. inversion Hy; reflexivity.
Qed.
Lemma ff_inr {X A} (x : X) (m : M A) Q : ff (at_ None) m Q -> ff (okres (inr x)) m Q.
Proof.
  intros H. eapply ff_pre; [|exact H]. intros y Hy. unfold okres in Hy. destruct y; [discriminate|reflexivity].
Qed.
Lemma ff_keep_inl {X} e (m : M unit) : quiet m -> ff (okres (@inl errv X e)) (bind m (fun _ => ret (@inl errv X e))) okres.
Proof. intros Hm. apply ff_qbind; [exact Hm|intros _]. apply ff_ret_keep. Qed.

Lemma ffr_call {X} c (f : bval * errv -> M (res X)) :
  plain (bc_meth c) = true ->
  (forall v e, is_err e = true -> ff (at_ (Some e)) (f (v, e)) okres) ->
  (forall v e, is_err e = false -> ff (at_ None) (f (v, e)) okres) ->
  ffr (bind (backend c) f).
Proof.
  intros Hp H1 H2. eapply ff_bind; [apply (ff_backend c None)|]. intros [v e]. cbn [fst snd].
  destruct (is_err e) eqn:He.
  - rewrite (is_fault_plain c v e Hp He). apply H1; exact He.
  - rewrite (is_fault_ok c v e He). apply H2; exact He.
Qed.

Ltac call1 :=
  apply ffr_call;
  [ reflexivity
  | let H := fresh "He" in intros ?v ?e H; cbv beta iota; rewrite ?H; try apply ff_ret_err
  | let H := fresh "He" in intros ?v ?e H; cbv beta iota; rewrite ?H ].

(** ---- walking ---- *)
Lemma ffr_walk_plain ga from node names : ffr (walk_plain ga from node names).
Proof.
  unfold walk_plain, ffr. call1.
  apply ff_qbind; [apply q_fresh_handle|intros h].
  destruct ga; [|apply ff_ret_none].
  apply ff_qbind; [destruct names as [|n [|n2 r]]; qb|intros _].
  call1.
  - apply ff_qbind; [qb|intros _]. apply ff_ret_err.
  - apply ff_ret_none.
Qed.

Lemma ffr_walk_one ga from node names : ffr (walk_one ga from node names).
Proof.
  unfold walk_one, ffr, fail. destruct (1 <? List.length names)%nat; [apply ff_ret_none|].
  eapply ff_bind with (Q := okres).
  - destruct ga; [|apply ffr_walk_plain].
    eapply ff_bind; [apply (ff_backend _ None)|]. intros [v e]. cbn [fst snd]. cbv beta iota.
    unfold is_fault. cbn [bc_meth].
    destruct (has_enosys e) eqn:Hn.
    + replace (if negb (is_err e) then None else @None errv) with (@None errv) by (destruct (negb (is_err e)); reflexivity).
      apply ffr_walk_plain.
    + destruct (is_err e) eqn:He; cbn [negb].
      * apply ff_ret_err.
      * apply ff_qbind; [qb|intros h]. apply ff_ret_none.
  - intros [e|[[q h] a]]; [apply ff_ret_keep|]. apply ff_inr.
    destruct (_ && _); [|apply ff_ret_none].
    apply ff_qbind; [qb|intros _]. apply ff_ret_none.
Qed.

Lemma ffr_walk_loop : forall names walk qids last, ffr (walk_loop names walk qids last).
Proof.
  induction names as [|n rest IH]; intros walk qids last; cbn [walk_loop]; [apply ff_ret_none|].
  unfold ffr, fail. apply ff_qbind; [qb|intros wfr].
  destruct (negb (is_dir (fr_mode wfr))).
  { apply ff_qbind; [qb|intros _]. apply ff_ret_none. }
  apply ff_qbind; [qb|intros del]. destruct del.
  { apply ff_qbind; [qb|intros _]. apply ff_ret_none. }
  eapply ff_bind; [apply ffr_walk_one|]. intros [e|[[q h] a]].
  - apply ff_keep_inl. qb.
  - apply ff_inr. apply ff_qbind; [qb|intros node]. apply ff_qbind; [qb|intros nr].
    apply ff_qbind; [qb|intros _]. apply ff_qbind; [qb|intros _]. apply IH.
Qed.

Lemma ffr_do_walk ref names ga : ffr (do_walk ref names ga).
Proof.
  unfold do_walk, ffr, fail. destruct (negb _); [apply ff_ret_none|].
  destruct names as [|n rest].
  - apply ff_qbind; [qb|intros fr]. destruct (fr_xof fr); [apply ff_ret_none|].
    eapply ff_bind; [apply ffr_walk_one|]. intros [e|[[q h] a]]; [apply ff_ret_keep|]. apply ff_inr.
    apply ff_quiet_none; [|intros; exact I]. qb.
  - apply ff_qbind; [qb|intros _]. apply ffr_walk_loop.
Qed.

(** ---- bodies ---- *)
Ltac fstep :=
  match goal with
  | |- ff (at_ None) (ret _) okres => apply ff_ret_none
  | |- ff (at_ (Some ?e)) (ret (inl ?e)) okres => apply ff_ret_err
  | |- ff _ panic _ => apply ff_panic
  | |- ff (at_ None) (bind (backend _) _) okres => call1
  | |- ff (at_ None) (bind (do_walk _ _ _) _) okres =>
      eapply ff_bind; [apply ffr_do_walk|intros [?e|[[?q ?nr] ?a]]; [apply ff_ret_keep|apply ff_inr]]
  | |- ff (at_ None) (with_defer _ _) okres => apply ff_quiet_none; [solve [qb]|intros; exact I]
  | |- ff _ (bind ?m _) _ => apply ff_qbind; [solve [qb]|intros ?]
  | |- ff (at_ None) (match ?x with _ => _ end) _ => destruct x
  end.

Lemma ffr_body c m r t : ffr (body c m r t).
Proof.
  unfold body, ffr, fail.
  apply ff_qbind; [qb|intros fr]. apply ff_qbind; [qb|intros tfr].
  destruct m; try apply ff_ret_none; repeat fstep.
  - (* Twalk *)
    eapply ff_bind; [apply ffr_do_walk|]. intros [e|[[q nr] a]]; [apply ff_ret_inl|apply ff_inr].
    apply ff_quiet_none; [qb|intros; exact I].
  - (* Twalkgetattr *)
    eapply ff_bind; [apply ffr_do_walk|]. intros [e|[[q nr] a]]; [apply ff_ret_inl|apply ff_inr].
    apply ff_quiet_none; [qb|intros; exact I].
  - (* Tread *)
    eapply ff_bind; [apply (ff_backend _ None)|]. intros [v e]. cbn [fst snd]. cbv beta iota.
    unfold is_fault. cbn [bc_meth].
    destruct (is_err e) eqn:He; cbn [negb andb].
    + destruct (has_eof e); cbn [negb]; [|apply ff_ret_err].
      destruct (_ <? _); [apply ff_panic|apply ff_ret_none].
    + destruct (_ <? _); [apply ff_panic|apply ff_ret_none].
  - (* Txattrwalk *)
    eapply ff_bind with (Q := fun x y => y = if is_err (snd x) then Some (snd x) else None).
    + destruct (negb _); (eapply ff_bind; [apply (ff_backend _ None)|]); intros [v e]; cbn [fst snd]; cbv beta iota;
        apply ff_ret; intros y ->; cbn [snd]; destruct (is_err e) eqn:He;
        first [apply is_fault_plain; [reflexivity|exact He] | apply is_fault_ok; exact He].
    + intros [len e]. cbn [snd]. cbv beta iota. destruct (is_err e); [apply ff_ret_err|]. change (fun y : option errv => y = None) with (at_ None). repeat fstep.
  - (* Treaddir *)
    eapply ff_bind; [apply (ff_backend _ None)|]. intros [v e]. cbn [fst snd]. cbv beta iota.
    unfold is_fault. cbn [bc_meth].
    destruct (is_err e) eqn:He; cbn [negb andb]; [|apply ff_ret_none].
    destruct (has_eof e); cbn [negb]; [apply ff_ret_none|apply ff_ret_err].
Qed.

(** ---- the guarded handlers ---- *)
Lemma post_ret c m x : (forall f, m <> Tremove f) -> post c m x = ret x.
Proof. intros H. unfold post. destruct m; try reflexivity. exfalso. eapply H. reflexivity. Qed.

Lemma ffr_guarded c m k : (forall f, m <> Tremove f) -> ffr (guarded c m k).
Proof.
  intros Hm. unfold guarded, ffr, fail. destruct (negb _); [apply ff_ret_none|].
  apply ff_qbind; [qb|intros o]. destruct o as [r|]; [|apply ff_ret_none].
  apply ff_with_defer; [qb|].
  assert (Hin : forall t, ff (at_ None)
    (bind (gets (fun s => alookup c (st_msize s))) (fun ms =>
     bind (gets (fun s => view_of s r)) (fun p =>
     bind (gets (fun s => view_of s t)) (fun tv =>
     bind (match first_failing (guards_of k) m ms p tv with
           | Some (GE e) => ret (inl (eno e))
           | Some GP => panic
           | None => body c m r t
           end) (fun x => post c m x))))) okres).
  { intros t. apply ff_qbind; [qb|intros ms]. apply ff_qbind; [qb|intros p]. apply ff_qbind; [qb|intros tv].
    eapply ff_bind with (Q := okres).
    - destruct (first_failing _ _ _ _ _) as [[e|]|]; [apply ff_ret_none|apply ff_panic|apply ffr_body].
    - intros x. rewrite (post_ret c m x Hm). apply ff_ret_keep. }
  destruct (fid2_of m) as [f2|]; [|apply Hin].
  apply ff_qbind; [qb|intros o2]. destruct o2 as [t|]; [|apply ff_ret_none].
  apply ff_with_defer; [qb|apply Hin].
Qed.

Lemma ff_h_attach c f afid aname : ff (at_ None) (h_attach c f afid aname) okrep.
Proof.
  unfold h_attach. destruct (negb _); [apply ff_ret; intros y ->; exact I|].
  eapply ff_bind; [apply (ff_backend _ None)|]. intros [v e]. cbn [fst snd]. cbv beta iota.
  destruct (is_err e) eqn:He.
  { rewrite is_fault_plain; [|reflexivity|exact He]. apply ff_ret. intros y ->. reflexivity. }
  rewrite is_fault_ok; [|exact He].
  apply ff_qbind; [qb|intros h]. apply ff_qbind; [qb|intros root].
  apply ff_with_defer; [qb|].
  eapply ff_bind; [apply (ff_backend _ None)|]. intros [va ea]. cbn [fst snd]. cbv beta iota.
  destruct (is_err ea) eqn:Hea.
  { rewrite is_fault_plain; [|reflexivity|exact Hea]. apply ff_ret. intros y ->. reflexivity. }
  rewrite is_fault_ok; [|exact Hea].
  destruct (negb _); [apply ff_ret; intros y ->; exact I|].
  apply ff_qbind; [qb|intros rfr]. apply ff_qbind; [qb|intros _].
  destruct (String.eqb _ _).
  - apply ff_quiet_none; [qb|intros; exact I].
  - eapply ff_bind; [apply ffr_do_walk|]. intros [e'|[[q nr] a]].
    + apply ff_ret. intros y Hy. unfold okres in Hy. unfold okrep. destruct y; [|exact I]. inversion Hy; reflexivity.
    + apply ff_inr. apply ff_quiet_none; [qb|intros; exact I].
Qed.

Definition simple_req (m : tmsg) : Prop := match m with Tclunk _ | Tremove _ => False | _ => True end.

Lemma ff_handler_simple c m : simple_req m -> ff (at_ None) (handler c m) okrep.
Proof.
  intros Hs.
  assert (Hg : forall k, (forall f, m <> Tremove f) ->
            ff (at_ None) (bind (guarded c m k) (fun x => ret (match x with inl e => RErr (extract_errno e) | inr r => r end))) okrep).
  { intros k Hm. eapply ff_bind; [apply (ffr_guarded c m k Hm)|]. intros x. apply ff_ret. intros y Hy.
    unfold okres in Hy. unfold okrep. destruct y; [|exact I]. rewrite Hy. reflexivity. }
  unfold handler.
  destruct m; try (apply ff_ret; intros y ->; exact I); try apply ff_h_attach; try (exfalso; exact Hs);
    try (cbn [kind_of]; apply Hg; intros ? ?; discriminate).
  unfold h_version. destruct (tversion_handle msize ver) as [[mm v] st].
  apply ff_quiet_none; [|intros; exact I]. apply q_bind; [|intros _; apply q_ret]. destruct st as [[ms ?]|]; qb.
Qed.

(** ---- Close errors of a newest-first log ---- *)
Definition cel (l : list (bcall * answer)) : errv := close_errors (rev l).
Definition cerr1 (ca : bcall * answer) : errv :=
  match bc_meth (fst ca), snd ca with MClose, AVal _ e => e | _, _ => [] end.
Lemma cel_cons ca l : cel (ca :: l) = (cel l ++ cerr1 ca)%list.
Proof. unfold cel, close_errors. cbn [rev]. rewrite flat_map_app. cbn. rewrite app_nil_r. reflexivity. Qed.

Definition cq {A} (m : M A) : Prop := forall w a w', m w = (Ok a, w') -> w_log w' = w_log w.
Definition cj (m : M errv) : Prop := forall w e w', m w = (Ok e, w') -> cel (w_log w') = (cel (w_log w) ++ e)%list.

Lemma cq_gets {A} (f : sstate -> A) : cq (gets f).
Proof. intros w a w' E. inversion E; reflexivity. Qed.
Lemma cq_modify f : cq (modify f).
Proof. intros w a w' E. inversion E; reflexivity. Qed.
Lemma cj_bind_cq {A} (m : M A) (f : A -> M errv) : cq m -> (forall a, cj (f a)) -> cj (bind m f).
Proof.
  intros Hm Hf w e w' E. unfold bind in E. destruct (m w) as [[a|] w1] eqn:Em; [|discriminate].
  rewrite (Hf _ _ _ _ E). rewrite (Hm _ _ _ Em). reflexivity.
Qed.
Lemma cj_ret_nil : cj (ret []).
Proof. intros w e w' E. inversion E; subst. rewrite app_nil_r. reflexivity. Qed.
Lemma cj_join (m1 m2 : M errv) : cj m1 -> cj m2 -> cj (bind m1 (fun e1 => bind m2 (fun e2 => ret (e1 ++ e2)%list))).
Proof.
  intros H1 H2 w e w' E. unfold bind in E.
  destruct (m1 w) as [[e1|] w1] eqn:E1; [|discriminate].
  destruct (m2 w1) as [[e2|] w2] eqn:E2; [|discriminate]. inversion E; subst.
  rewrite (H2 _ _ _ E2), (H1 _ _ _ E1). rewrite app_assoc. reflexivity.
Qed.
Lemma cj_close h : cj (bind (backend (call0 MClose h)) (fun x => let '(_, e) := x in ret e)).
Proof.
  intros w e w' E. unfold bind, backend in E.
  destruct (w_tape w) as [|a t]; [|destruct a]; inversion E; subst; cbn [w_log]; rewrite cel_cons; reflexivity.
Qed.
Lemma cj_decref fuel : forall r, cj (decref fuel r).
Proof.
  induction fuel as [|k IH]; intros r; cbn [decref]; [intros w e w' E; discriminate|].
  apply cj_bind_cq; [apply cq_gets|intros fr]. apply cj_bind_cq; [apply cq_modify|intros _].
  destruct (_ =? 0)%Z; [|apply cj_ret_nil].
  apply cj_join.
  - destruct (fr_xof fr); [apply IH|apply cj_close].
  - destruct (fr_parent fr); [|apply cj_ret_nil].
    apply cj_bind_cq; [apply cq_gets|intros pfr]. apply cj_bind_cq; [apply cq_modify|intros _]. apply IH.
Qed.
Lemma cj_dec_ref r : cj (dec_ref r).
Proof. unfold dec_ref. apply cj_bind_cq; [apply cq_gets|intros fuel; apply cj_decref]. Qed.
Lemma cel_dec_ref_ r w u w' : dec_ref_ r w = (Ok u, w') -> cel (w_log w') = [] -> cel (w_log w) = [].
Proof.
  unfold dec_ref_, bind. destruct (dec_ref r w) as [[e|] w1] eqn:E; [|discriminate]. intros H; inversion H; subst.
  rewrite (cj_dec_ref _ _ _ _ E). intros H0. apply app_eq_nil in H0. tauto.
Qed.

Lemma delete_fid_cases c f w derr w' : delete_fid c f w = (Ok derr, w') ->
  tlookup (c, f) (st_fids (w_st w)) = None \/ cel (w_log w') = (cel (w_log w) ++ derr)%list.
Proof.
  unfold delete_fid, bind, gets. cbn [w_st].
  destruct (tlookup (c, f) (st_fids (w_st w))) as [r|] eqn:El; intros H; [|left; reflexivity].
  cbn [modify w_st w_tape w_log] in H. right. apply cj_dec_ref in H. exact H.
Qed.

Lemma lookup_fid_some c f w o w' : lookup_fid c f w = (Ok o, w') ->
  match o with Some _ => tlookup (c, f) (st_fids (w_st w')) <> None | None => w_log w' = w_log w end.
Proof.
  intros E. pose proof (kf_lookup_fid c f _ _ _ E) as K. revert E. unfold lookup_fid, bind, gets.
  destruct (tlookup (c, f) (st_fids (w_st w))) as [r|] eqn:El; intros H.
  - cbn in H. inversion H; subst. rewrite K, El. discriminate.
  - inversion H; subst. reflexivity.
Qed.

(** ---- Tremove: DeleteFID after the guarded part ---- *)
Section Remove.
  Variables (c : connid) (f : N).
  Definition RM (m : M (res reply)) : Prop :=
    forall wa x w, m wa = (Ok x, w) -> tlookup (c, f) (st_fids (w_st wa)) <> None -> ffl (w_log wa) = None ->
      cel (w_log w) = [] -> forall e, ffl (w_log w) = Some e -> x = inl e.
  Lemma RM_gets {A} (g : sstate -> A) k : (forall a, RM (k a)) -> RM (bind (gets g) k).
  Proof. intros H wa x w E. unfold bind, gets in E. exact (H _ _ _ _ E). Qed.
  Lemma RM_defer r m : RM m -> RM (with_defer (dec_ref_ r) m).
  Proof.
    intros H wa x w E Hb H0 Hc e He. unfold with_defer in E. destruct (m wa) as [o1 w1] eqn:Em.
    destruct (dec_ref_ r w1) as [[u|] w2] eqn:Ed; [|discriminate]. inversion E; subst.
    eapply H; [exact Em|exact Hb|exact H0|eapply cel_dec_ref_; eauto|].
    rewrite <- (q_dec_ref_ r _ _ _ Ed). exact He.
  Qed.
  Lemma RM_core (B : M (res reply)) : ff (at_ None) B okres -> kfids B -> RM (bind B (fun x => post c (Tremove f) x)).
  Proof.
    intros HB HK wa x w E Hb H0 Hc e He. unfold bind at 1 in E.
    destruct (B wa) as [[x0|] wd] eqn:EB; [|discriminate].
    unfold post, bind in E. destruct (delete_fid c f wd) as [[derr|] we] eqn:ED; [|discriminate].
    assert (w = we) by (destruct (is_err derr); inversion E; reflexivity). subst we.
    pose proof (HB _ _ _ EB H0) as Hx. rewrite <- (q_delete_fid c f _ _ _ ED), He in Hx. cbn in Hx.
    destruct (delete_fid_cases _ _ _ _ _ ED) as [Hn|Hcl].
    - exfalso. apply Hb. rewrite <- (HK _ _ _ EB). exact Hn.
    - rewrite Hc in Hcl. symmetry in Hcl. apply app_eq_nil in Hcl. destruct Hcl as [_ ->].
      cbn in E. inversion E; subst; first [reflexivity|exact Hx].
  Qed.
End Remove.

Lemma kf_body_remove c f r t : kfids (body c (Tremove f) r t).
Proof.
  unfold body. apply kf_bind; [apply kf_gets|intros fr]. apply kf_bind; [apply kf_gets|intros tfr].
  destruct (fr_parent fr); [|kf]. apply kf_bind; [kf|intros pfr]. apply kf_bind; [kf|intros nm].
  apply kf_bind; [kf|intros [v e]]. destruct (is_err e); [kf|]. apply kf_bind; [apply kf_mark_child_deleted|intros _; kf].
Qed.

Lemma guarded_remove c f w0 x w e :
  guarded c (Tremove f) HRemove w0 = (Ok x, w) -> ffl (w_log w0) = None ->
  cel (w_log w) = [] -> ffl (w_log w) = Some e -> x = inl e.
Proof.
  unfold guarded. cbn [names_of forallb negb fid1_of fid2_of]. intros E H0 Hc He.
  unfold bind at 1 in E. destruct (lookup_fid c f w0) as [[o|] wa] eqn:EL; [|discriminate].
  pose proof (lookup_fid_some _ _ _ _ _ EL) as Hl. pose proof (q_lookup_fid c f _ _ _ EL) as Hq.
  destruct o as [r|].
  - rewrite <- Hq in H0.
    assert (HRM : RM c f (with_defer (dec_ref_ r)
      (bind (gets (fun s => alookup c (st_msize s))) (fun ms =>
       bind (gets (fun s => view_of s r)) (fun p =>
       bind (gets (fun s => view_of s r)) (fun tv =>
       bind (match first_failing (guards_of HRemove) (Tremove f) ms p tv with
             | Some (GE e) => fail e
             | Some GP => panic
             | None => body c (Tremove f) r r
             end) (fun x => post c (Tremove f) x))))))); [|exact (HRM _ _ _ E Hl H0 Hc e He)].
    apply RM_defer. apply RM_gets; intros ms. apply RM_gets; intros p. apply RM_gets; intros tv.
    apply RM_core.
    + destruct (first_failing _ _ _ _ _) as [[e0|]|]; [apply ff_ret_none|apply ff_panic|apply ffr_body].
    + destruct (first_failing _ _ _ _ _) as [[e0|]|]; [kf|kf|apply kf_body_remove].
  - inversion E; subst. rewrite Hq, H0 in He. discriminate.
Qed.

(** ---- Tclunk ---- *)
Lemma ff_post {A} P (m : M A) (Q Q' : A -> option errv -> Prop) :
  ff P m Q -> (forall a y, Q a y -> Q' a y) -> ff P m Q'.
Proof. intros H HQ w a w' E HP. apply HQ. eapply H; eauto. Qed.

Definition okopt (o : option errv) (y : option errv) : Prop := match y with None => True | Some e => o = Some e end.
Lemma ff_clunk_xattr c f : ff (at_ None) (clunk_xattr c f) okopt.
Proof.
  unfold clunk_xattr. apply ff_qbind; [qb|intros o]. destruct o as [r|]; [|apply ff_ret; intros y ->; exact I].
  apply ff_with_defer; [qb|]. apply ff_qbind; [qb|intros fr].
  destruct (_ =? _); [|apply ff_ret; intros y ->; exact I].
  destruct (negb _); [apply ff_ret; intros y ->; exact I|].
  eapply ff_bind with (Q := fun x y => y = if is_err (snd x) then Some (snd x) else None).
  - destruct (_ && _); (eapply ff_post; [apply (ff_backend _ None)|]); intros [v e] y ->; cbn [fst snd];
      destruct (is_err e) eqn:He;
      first [apply is_fault_plain; [reflexivity|exact He] | apply is_fault_ok; exact He].
  - intros [v e]. cbn [snd]. cbv beta iota. apply ff_ret. intros y ->. destruct (is_err e); cbn; auto.
Qed.

Lemma clunk_xattr_unbound c f w0 o w1 :
  clunk_xattr c f w0 = (Ok o, w1) -> tlookup (c, f) (st_fids (w_st w1)) = None -> w_log w1 = w_log w0.
Proof.
  intros E Hn. unfold clunk_xattr in E. unfold bind at 1 in E.
  destruct (lookup_fid c f w0) as [[o'|] wa] eqn:EL; [|discriminate].
  pose proof (lookup_fid_some _ _ _ _ _ EL) as Hl. destruct o' as [r|].
  - exfalso. apply Hl.
    match type of E with ?mm wa = _ => assert (HK : kfids mm) end.
    { apply kf_with_defer; [apply kf_dec_ref_|]. kf. }
    rewrite <- (HK _ _ _ E). exact Hn.
  - inversion E; subst. exact Hl.
Qed.

Lemma clunk_noclose c f w0 rep w e :
  h_clunk c f w0 = (Ok rep, w) -> w_log w0 = [] -> cel (w_log w) = [] -> ffl (w_log w) = Some e ->
  rep = RErr (extract_errno e).
Proof.
  intros E H0 Hc He. unfold h_clunk in E. unfold bind at 1 in E.
  destruct (clunk_xattr c f w0) as [[cerr|] w1] eqn:E1; [|discriminate].
  unfold bind at 1 in E. destruct (delete_fid c f w1) as [[derr|] w2] eqn:E2; [|discriminate].
  assert (w = w2) by (destruct (is_err derr); [|destruct cerr]; inversion E; reflexivity). subst w2.
  assert (Hf0 : ffl (w_log w0) = None) by (rewrite H0; reflexivity).
  pose proof (ff_clunk_xattr c f _ _ _ E1 Hf0) as Hx.
  pose proof (q_delete_fid _ _ _ _ _ E2) as Hq. rewrite <- Hq, He in Hx. cbn in Hx.
  destruct (delete_fid_cases _ _ _ _ _ E2) as [Hn|Hcl].
  - exfalso. rewrite Hq in He. rewrite (clunk_xattr_unbound _ _ _ _ _ E1 Hn), Hf0 in He. discriminate.
  - rewrite Hc in Hcl. symmetry in Hcl. apply app_eq_nil in Hcl. destruct Hcl as [_ Hd]. rewrite Hd, Hx in E.
    cbn in E. inversion E; reflexivity.
Qed.

(** ---- C15, reply part, every request kind ----
    Hypotheses: (1) the model handler does not itself panic (a Go panic without a panicking backend
    call: DecRef out of fuel on a cyclic parent chain = backend assumption B2, nil parent, guard GP;
    a panicking backend answer makes the outcome Panic, so (1) subsumes "no APanic in the log");
    (2) for Tclunk / Tremove no Close reported an error (DeleteFID's error takes precedence there). *)
Theorem first_fault_reply s c m tape e :
  fst (handler c m (mkW s tape [])) <> Panic ->
  match m with Tclunk _ | Tremove _ => close_errors (log_of (step s c m tape)) = [] | _ => True end ->
  first_fault (log_of (step s c m tape)) = Some e ->
  reply_of (step s c m tape) = RErr (extract_errno e).
Proof.
  unfold step, log_of, reply_of.
  destruct (handler c m (mkW s tape [])) as [[rep|] w] eqn:E; cbn [fst snd]; intros Hp Hs He;
    [|exfalso; apply Hp; reflexivity].
  change (ffl (w_log w) = Some e) in He.
  assert (Hsimple : simple_req m -> rep = RErr (extract_errno e)).
  { intros Hsm. pose proof (ff_handler_simple c m Hsm _ _ _ E eq_refl) as Hx. rewrite He in Hx. exact Hx. }
  destruct m; try (apply Hsimple; exact I).
  - (* Tclunk *) unfold handler in E. exact (clunk_noclose _ _ _ _ _ _ E eq_refl Hs He).
  - (* Tremove *) unfold handler in E. cbn [kind_of] in E. unfold bind in E.
    destruct (guarded c (Tremove f) HRemove (mkW s tape [])) as [[x|] w1] eqn:EG; [|discriminate].
    inversion E; subst. rewrite (guarded_remove _ _ _ _ _ _ EG eq_refl Hs He). reflexivity.
Qed.

(** without hypothesis (1): the only other reply is the EFAULT of a model panic *)
Corollary first_fault_reply_or_efault s c m tape e :
  match m with Tclunk _ | Tremove _ => close_errors (log_of (step s c m tape)) = [] | _ => True end ->
  first_fault (log_of (step s c m tape)) = Some e ->
  reply_of (step s c m tape) = RErr (extract_errno e) \/ reply_of (step s c m tape) = RErr linux_EFAULT.
Proof.
  intros Hs He. destruct (handler c m (mkW s tape [])) as [[rep|] w] eqn:E.
  - left. apply first_fault_reply; auto. rewrite E. discriminate.
  - right. unfold step, reply_of. rewrite E. reflexivity.
Qed.

(** ---- Files obtained by a failing request are closed: PARTIAL.
    Proved only for walk_plain (the Walk+GetAttr fallback step of walkOne): when it reports an error,
    the File it obtained (if any) has been closed.  MISSING for the whole-request statement
    [In h (created_handles log nh) -> closed_in (map fst log) h = true]: exact reference counts of the
    fidRefs created by the request (a fresh fidRef has refs 1 after its incref, [dec_ref_ walk] on the
    error path kills the chain built by walk_loop), i.e. Ledger.L_fresh_alive + decref_core lifted to the
    log; walk_one's wrong-QID-count Close, h_attach failing at GetAttr, Tlcreate/Txattrwalk. ---- *)
Lemma backend_run c w v e w' : backend c w = (Ok (v, e), w') ->
  exists t, w' = mkW (w_st w) t ((c, AVal v e) :: w_log w).
Proof.
  unfold backend. destruct (w_tape w) as [|a t]; [|destruct a]; intros E; inversion E; subst; eexists; reflexivity.
Qed.
Lemma cq_node_for n name : cq (node_for n name).
Proof.
  intros w a w' E. unfold node_for, bind, the_node, gets in E. cbv beta iota in E.
  destruct (slookup name (pn_kids (get_node (w_st w) n))); inversion E; reflexivity.
Qed.

Lemma obtained_closed_partial ga from node names w e w' :
  w_log w = [] ->
  walk_plain ga from node names w = (Ok (inl e), w') ->
  forall h, In h (created_handles (rev (w_log w')) (st_next_handle (w_st w))) ->
            closed_in (map fst (rev (w_log w'))) h = true.
Proof.
  intros H0 E. unfold walk_plain in E. unfold bind at 1 in E.
  match type of E with context [backend ?c w] => destruct (backend c w) as [[[v e1]|] w1] eqn:B1; [|discriminate] end.
  apply backend_run in B1. destruct B1 as [t1 ->]. rewrite H0 in E. cbv beta iota in E.
  destruct e1 as [|l1 e1]; cbn [is_err] in E.
  2:{ inversion E; subst. cbn. intros h []. }
  unfold bind at 1 in E. unfold fresh_handle at 1 in E. cbn [w_st w_tape w_log] in E.
  destruct ga; [|discriminate E].
  unfold bind at 1 in E.
  match type of E with context [match ?mm ?ww with _ => _ end] =>
    assert (Hcq : cq mm) by (destruct names as [|n [|n2 r]]; try (intros ? ? ? EE; inversion EE; reflexivity);
                             intros w0 a0 w0' EE; unfold bind in EE; destruct (node_for node n w0) as [[k|] wk] eqn:EN; [|discriminate];
                             inversion EE; subst; exact (cq_node_for _ _ _ _ _ EN));
    destruct (mm ww) as [[u|] w2] eqn:E2; [|discriminate]
  end.
  apply Hcq in E2. cbn [w_log] in E2.
  unfold bind at 1 in E.
  match type of E with context [backend ?c w2] => destruct (backend c w2) as [[[va ea]|] w3] eqn:B2; [|discriminate] end.
  apply backend_run in B2. destruct B2 as [t2 ->]. rewrite E2 in E. cbv beta iota in E.
  destruct (is_err ea); [|discriminate E].
  unfold bind at 1 in E.
  match type of E with context [backend ?c ?ww] => destruct (backend c ww) as [[[vc ec]|] w4] eqn:B3; [|discriminate] end.
  apply backend_run in B3. destruct B3 as [t3 ->]. inversion E; subst. cbn [w_log w_st].
  inversion E; subst. cbn [w_log w_st]. cbn. destruct e; destruct ec; cbn; intros h [<-|[]]; rewrite N.eqb_refl; reflexivity.
Qed.

Print Assumptions first_fault_reply.
Print Assumptions obtained_closed_partial.
Print Assumptions first_fault_reply_or_efault.
