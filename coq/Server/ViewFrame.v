(** C04, view frame: a request changes the protocol view ([view_of]) of the fidRefs that existed
    before it only by fencing ([deleted] is monotone); everything else a handler does to old
    fidRefs is reference counting and (un)registration in the path tree.  Hoare-style judgement
    [vf b P m Q] over the monad, carrying the structural invariant [sinv] of the path tree
    (unallocated path nodes are not deleted, child nodes are allocated, registered fidRefs are
    allocated and have a parent).  [b = true]: protocol fields kept too (everything except Tlopen,
    Twrite, Txattrcreate and the mode update of Tattach's fresh root). *)
From Coq Require Import NArith ZArith List String Bool Lia.
From P9V Require Import Base.Str gen.ConstGen Fs.Version Server.State Server.Msg Server.SessionSpec Server.Handlers
  Server.Ledger Server.FaultProofs Server.Refine Server.TableFrame Server.RefineOk.
Import ListNotations.
Open Scope N_scope.

Definition vsame (b : bool) (a a' : fidref) : Prop :=
  fr_node a' = fr_node a /\ (fr_parent a' = None <-> fr_parent a = None) /\
  (b = true -> fr_mode a' = fr_mode a /\ fr_opened a' = fr_opened a /\ fr_flags a' = fr_flags a /\
               fr_xop a' = fr_xop a /\ fr_xsize a' = fr_xsize a /\ fr_xlen a' = fr_xlen a /\ fr_xflags a' = fr_xflags a).

Definition ndel (s : sstate) (n : nodeid) : bool := pn_deleted (get_node s n).

Definition vstep (b : bool) (s s' : sstate) : Prop :=
  st_next_ref s <= st_next_ref s' /\ st_next_node s <= st_next_node s' /\ st_msize s' = st_msize s /\
  (forall x, x < st_next_ref s -> vsame b (get_ref s x) (get_ref s' x)) /\
  (forall n, ndel s n = true -> ndel s' n = true).

Definition registered (s : sstate) (n : nodeid) (r : refid) : Prop := alookup r (pn_refs (get_node s n)) <> None.

Definition sinv (s : sstate) : Prop :=
  (forall n, st_next_node s <= n -> ndel s n = false) /\
  (forall n name k, In (name, k) (pn_kids (get_node s n)) -> k < st_next_node s) /\
  (forall n r, registered s n r -> r < st_next_ref s /\ fr_parent (get_ref s r) <> None).

Lemma vsame_refl b a : vsame b a a.
Proof. repeat split; auto. Qed.
Lemma vsame_trans b a1 a2 a3 : vsame b a1 a2 -> vsame b a2 a3 -> vsame b a1 a3.
Proof.
  intros (A1 & A2 & A3) (B1 & B2 & B3). split; [congruence|]. split; [tauto|].
  intros Hb. specialize (A3 Hb). specialize (B3 Hb). repeat split; try (destruct A3 as (?&?&?&?&?&?&?), B3 as (?&?&?&?&?&?&?); congruence).
Qed.
Lemma vsame_weaken b a a' : vsame true a a' -> vsame b a a'.
Proof. intros (A1 & A2 & A3). split; [auto|]. split; [auto|]. intros _. auto. Qed.

Lemma vstep_refl b s : vstep b s s.
Proof. repeat split; try lia; auto. Qed.
Lemma vstep_trans b s1 s2 s3 : vstep b s1 s2 -> vstep b s2 s3 -> vstep b s1 s3.
Proof.
  intros (A1 & A2 & A3 & A4 & A5) (B1 & B2 & B3 & B4 & B5). split; [lia|]. split; [lia|]. split; [congruence|]. split.
  - intros x Hx. eapply vsame_trans; [apply A4; exact Hx|apply B4; lia].
  - intros n Hn. auto.
Qed.
Lemma vstep_weaken b s s' : vstep true s s' -> vstep b s s'.
Proof. intros (A1 & A2 & A3 & A4 & A5). split; [auto|]. split; [auto|]. split; [auto|]. split; [|auto]. intros x Hx. apply vsame_weaken; auto. Qed.

Definition vf {A} (b : bool) (P : sstate -> Prop) (m : M A) (Q : A -> sstate -> Prop) : Prop :=
  forall w o w', sinv (w_st w) -> P (w_st w) -> m w = (o, w') ->
    sinv (w_st w') /\ vstep b (w_st w) (w_st w') /\ (forall a, o = Ok a -> Q a (w_st w')).

Definition tt1 : sstate -> Prop := fun _ => True.
Definition tt2 {A} : A -> sstate -> Prop := fun _ _ => True.
Definition vf0 {A} (b : bool) (m : M A) : Prop := vf b tt1 m tt2.
Definition stable (b : bool) (R : sstate -> Prop) : Prop := forall s s', vstep b s s' -> R s -> R s'.

Lemma vf_conseq {A} b (P P' : sstate -> Prop) (m : M A) (Q Q' : A -> sstate -> Prop) :
  vf b P m Q -> (forall s, P' s -> P s) -> (forall a s, Q a s -> Q' a s) -> vf b P' m Q'.
Proof.
  intros H HP HQ w o w' Hi Hp E. destruct (H w o w' Hi (HP _ Hp) E) as (A1 & A2 & A3). split; [auto|split; auto].
Qed.
Lemma vf0_any {A} b P (m : M A) : vf0 b m -> vf b P m tt2.
Proof. intros H. eapply vf_conseq; [exact H| |]; unfold tt1, tt2; auto. Qed.
Lemma vf_weaken_b {A} b P (m : M A) Q : vf true P m Q -> vf b P m Q.
Proof. intros H w o w' Hi Hp E. destruct (H w o w' Hi Hp E) as (A1 & A2 & A3). split; [auto|split; auto]. apply vstep_weaken; auto. Qed.

Lemma vf_ret {A} b (a : A) (P : sstate -> Prop) : vf b P (ret a) (fun a' s => a' = a /\ P s).
Proof. intros w o w' Hi Hp E. inversion E; subst. split; [auto|split; [apply vstep_refl|]]. intros a' Ea; inversion Ea; auto. Qed.
Lemma vf_panic {A} b P (Q : A -> sstate -> Prop) : vf b P (@panic A) Q.
Proof. intros w o w' Hi Hp E. inversion E; subst. split; [auto|split; [apply vstep_refl|]]. discriminate. Qed.
Lemma vf_gets {A} b (f : sstate -> A) (P : sstate -> Prop) : vf b P (gets f) (fun a s => a = f s /\ P s).
Proof. intros w o w' Hi Hp E. inversion E; subst. split; [auto|split; [apply vstep_refl|]]. intros a' Ea; inversion Ea; subst; auto. Qed.

Lemma vf_bind {A B} b P (m : M A) (f : A -> M B) Q R :
  vf b P m Q -> (forall a, vf b (Q a) (f a) R) -> vf b P (bind m f) R.
Proof.
  intros Hm Hf w o w' Hi Hp E. unfold bind in E. destruct (m w) as [[a|] w1] eqn:Em.
  - destruct (Hm _ _ _ Hi Hp Em) as (A1 & A2 & A3). destruct (Hf a _ _ _ A1 (A3 a eq_refl) E) as (B1 & B2 & B3).
    split; [auto|split; auto]. eapply vstep_trans; eauto.
  - destruct (Hm _ _ _ Hi Hp Em) as (A1 & A2 & A3). inversion E; subst. split; [auto|split; auto]. discriminate.
Qed.

Lemma vf_frame {A} b P (m : M A) Q R :
  stable b R -> vf b P m Q -> vf b (fun s => P s /\ R s) m (fun a s => Q a s /\ R s).
Proof.
  intros HR Hm w o w' Hi [Hp Hr] E. destruct (Hm _ _ _ Hi Hp E) as (A1 & A2 & A3). split; [auto|split; auto].
  intros a Ea. split; [auto|]. eapply HR; eauto.
Qed.

(** [d] runs whatever [m] did; the postcondition must survive [d] *)
Lemma vf_with_defer {A} b P (d : M unit) (m : M A) Q :
  vf0 b d -> vf b P m Q -> (forall a, stable b (Q a)) -> vf b P (with_defer d m) Q.
Proof.
  intros Hd Hm HQ w o w' Hi Hp E. unfold with_defer in E. destruct (m w) as [o1 w1] eqn:Em.
  destruct (Hm _ _ _ Hi Hp Em) as (A1 & A2 & A3).
  destruct (d w1) as [[u|] w2] eqn:Ed; destruct (Hd _ _ _ A1 I Ed) as (B1 & B2 & _); inversion E; subst.
  - split; [auto|split]. { eapply vstep_trans; eauto. } intros a Ea. eapply HQ; eauto.
  - split; [auto|split]. { eapply vstep_trans; eauto. } discriminate.
Qed.

Lemma vf0_bind {A B} b (m : M A) (f : A -> M B) : vf0 b m -> (forall a, vf0 b (f a)) -> vf0 b (bind m f).
Proof. intros Hm Hf. eapply vf_bind; [exact Hm|]. intros a. apply Hf. Qed.
Lemma vf0_with_defer {A} b (d : M unit) (m : M A) : vf0 b d -> vf0 b m -> vf0 b (with_defer d m).
Proof. intros Hd Hm. apply vf_with_defer; auto. intros a s s' _ _. exact I. Qed.
Lemma vf0_of {A} b P (m : M A) Q : vf b P m Q -> (forall s, P s) -> vf0 b m.
Proof. intros H HP. eapply vf_conseq; [exact H| |]; unfold tt2; auto. Qed.

(** ---- state updates ---- *)
Lemma get_node_put_same n p s : get_node (put_node n p s) n = p.
Proof. unfold get_node, put_node; cbn. now rewrite alookup_aset_same. Qed.
Lemma get_node_put_other n p s n' : n' <> n -> get_node (put_node n p s) n' = get_node s n'.
Proof. intros H. unfold get_node, put_node; cbn. now rewrite alookup_aset_other. Qed.

Lemma sinv_put_ref s r g :
  sinv s -> (fr_parent g = None -> fr_parent (get_ref s r) = None) -> sinv (put_ref r g s).
Proof.
  intros (I1 & I2 & I3) Hg. split; [exact I1|]. split; [exact I2|].
  intros n x Hx. destruct (I3 n x Hx) as [A B]. split; [exact A|].
  destruct (N.eqb_spec x r) as [->|Hne]; [rewrite get_put_ref_same; intros E; apply B, Hg, E|now rewrite get_put_ref_other].
Qed.
Lemma vstep_put_ref b s r g : vsame b (get_ref s r) g -> vstep b s (put_ref r g s).
Proof.
  intros Hg. split; [cbn; lia|]. split; [cbn; lia|]. split; [reflexivity|]. split; [|auto].
  intros x _. destruct (N.eqb_spec x r) as [->|Hne]; [now rewrite get_put_ref_same|rewrite get_put_ref_other by assumption; apply vsame_refl].
Qed.
Lemma vsame_set_refs b fr n : vsame b fr (set_refs fr n).
Proof. destruct fr; repeat split; auto. Qed.

Lemma sinv_put_node s n p :
  sinv s -> pn_deleted p = ndel s n ->
  (forall name k, In (name, k) (pn_kids p) -> k < st_next_node s) ->
  (forall r, alookup r (pn_refs p) <> None -> r < st_next_ref s /\ fr_parent (get_ref s r) <> None) ->
  sinv (put_node n p s).
Proof.
  intros (I1 & I2 & I3) Hd Hk Hr. split; [|split].
  - intros n' Hn'. unfold ndel. destruct (N.eqb_spec n' n) as [->|Hne]; [rewrite get_node_put_same, Hd; apply I1, Hn'|rewrite get_node_put_other by assumption; apply I1, Hn'].
  - intros n' name k. destruct (N.eqb_spec n' n) as [->|Hne]; [rewrite get_node_put_same; apply Hk|rewrite get_node_put_other by assumption; apply I2].
  - intros n' x. unfold registered. destruct (N.eqb_spec n' n) as [->|Hne]; [rewrite get_node_put_same; apply Hr|rewrite get_node_put_other by assumption; apply I3].
Qed.
Lemma vstep_put_node b s n p : (ndel s n = true -> pn_deleted p = true) -> vstep b s (put_node n p s).
Proof.
  intros Hd. split; [cbn; lia|]. split; [cbn; lia|]. split; [reflexivity|]. split; [intros x _; apply vsame_refl|].
  intros n'. unfold ndel. destruct (N.eqb_spec n' n) as [->|Hne]; [rewrite get_node_put_same; exact Hd|now rewrite get_node_put_other].
Qed.

Lemma vf_modify b (P : sstate -> Prop) (f : sstate -> sstate) (Q : sstate -> Prop) :
  (forall s, sinv s -> P s -> sinv (f s) /\ vstep b s (f s) /\ Q (f s)) -> vf b P (modify f) (fun _ => Q).
Proof. intros H w o w' Hi Hp E. inversion E; subst; cbn. destruct (H _ Hi Hp) as (A1 & A2 & A3). split; [auto|split; auto]. Qed.

Lemma vf0_ret {A} b (a : A) : vf0 b (ret a).
Proof. eapply vf_conseq; [apply vf_ret with (P := tt1)| |]; unfold tt2; auto. Qed.
Lemma vf0_panic {A} b : vf0 b (@panic A). Proof. apply vf_panic. Qed.
Lemma vf0_gets {A} b (f : sstate -> A) : vf0 b (gets f).
Proof. eapply vf_conseq; [apply vf_gets with (P := tt1)| |]; unfold tt2; auto. Qed.
Lemma vf_same {A} b (P : sstate -> Prop) (m : M A) : samest m -> vf b P m (fun _ => P).
Proof.
  intros Hs w o w' Hi Hp E. pose proof (Hs _ _ _ E) as Es. rewrite Es. split; [auto|split; [apply vstep_refl|auto]].
Qed.

(** ---- primitives ---- *)
Lemma vf0_backend b c : vf0 b (backend c).
Proof. eapply vf0_of; [apply (vf_same b tt1), ss_backend|]; unfold tt1; auto. Qed.

Lemma sinv_eq_nodes s s' :
  st_nodes s' = st_nodes s -> st_refs s' = st_refs s -> st_next_ref s' = st_next_ref s -> st_next_node s' = st_next_node s ->
  sinv s -> sinv s'.
Proof.
  intros E1 E2 E3 E4 (I1 & I2 & I3). unfold sinv, ndel, registered, get_node, get_ref in *. rewrite E1, E2, E3, E4. auto.
Qed.
Lemma vstep_eq b s s' :
  st_nodes s' = st_nodes s -> st_refs s' = st_refs s -> st_next_ref s' = st_next_ref s -> st_next_node s' = st_next_node s ->
  st_msize s' = st_msize s -> vstep b s s'.
Proof.
  intros E1 E2 E3 E4 E5. unfold vstep, ndel, get_node, get_ref. rewrite E1, E2, E3, E4, E5.
  split; [lia|]. split; [lia|]. split; [reflexivity|]. split; [intros; apply vsame_refl|auto].
Qed.

Lemma vf0_fresh_handle b : vf0 b fresh_handle.
Proof.
  intros w o w' Hi _ E. unfold fresh_handle in E. inversion E; subst; cbn.
  split; [eapply sinv_eq_nodes; [| | | |exact Hi]; reflexivity|]. split; [apply vstep_eq; reflexivity|intros; exact I].
Qed.

Lemma sinv_set_refs s r n : sinv s -> sinv (set_refs_of s r n).
Proof. intros H. apply sinv_put_ref; auto. Qed.
Lemma vstep_set_refs b s r n : vstep b s (set_refs_of s r n).
Proof. apply vstep_put_ref, vsame_set_refs. Qed.

Lemma vf0_incref b r : vf0 b (incref r).
Proof.
  intros w o w' Hi _ E. rewrite incref_run in E. inversion E; subst; cbn.
  split; [apply sinv_set_refs, Hi|]. split; [apply vstep_set_refs|intros; exact I].
Qed.

Lemma alookup_adel_some {A} k x (l : list (N * A)) : alookup k (adel x l) <> None -> alookup k l <> None.
Proof.
  induction l as [|[k' v] l IH]; cbn; [auto|].
  destruct (N.eqb_spec x k') as [->|Hne].
  - intros H. destruct (k =? k'); [discriminate|auto].
  - cbn. destruct (k =? k'); [intros _; discriminate|auto].
Qed.
Lemma alookup_app_some {A} k (l : list (N * A)) r v : alookup k (l ++ [(r, v)])%list <> None -> alookup k l <> None \/ k = r.
Proof.
  induction l as [|[k' v'] l IH]; cbn.
  - destruct (N.eqb_spec k r); [auto|intros H; now elim H].
  - destruct (k =? k'); [intros _; left; discriminate|auto].
Qed.

Lemma vf0_remove_child b n r : vf0 b (remove_child n r).
Proof.
  apply vf0_of with (P := tt1) (Q := fun _ => tt1); [|unfold tt1; auto]. apply vf_modify. intros s Hi _.
  destruct Hi as (I1 & I2 & I3). split; [|split; [|exact I]].
  - apply sinv_put_node; [split; [exact I1|split; [exact I2|exact I3]]|reflexivity|intros name k; apply I2|].
    intros x Hx. apply (I3 n x). unfold registered. cbn in Hx. eapply alookup_adel_some; eauto.
  - apply vstep_put_node. cbn. auto.
Qed.

Ltac vfx := fail.
Ltac vfa :=
  repeat first
    [ vfx | apply vf0_ret | apply vf0_panic | apply vf0_gets | apply vf0_backend | apply vf0_fresh_handle | apply vf0_incref
    | apply vf0_remove_child
    | apply vf0_bind; [|intros ?]
    | apply vf0_with_defer
    | match goal with
      | |- vf0 _ (match ?x with _ => _ end) => destruct x
      | |- vf0 _ (let '(_, _) := ?x in _) => destruct x
      | |- vf0 _ (if ?b then _ else _) => destruct b
      | |- vf0 _ (the_ref _) => apply vf0_gets
      | |- vf0 _ (the_node _) => apply vf0_gets
      | |- vf0 _ (fail _) => apply vf0_ret
      end ].

Lemma vf_gets_bind {A B} b P (f : sstate -> A) (g : A -> M B) Q :
  (forall a, vf b (fun s => a = f s /\ P s) (g a) Q) -> vf b P (bind (gets f) g) Q.
Proof. intros H. eapply vf_bind; [apply vf_gets|exact H]. Qed.

(** DecRef: counts, Close, unregistration *)
Lemma vf0_decref b fuel : forall r, vf0 b (decref fuel r).
Proof.
  induction fuel as [|k IH]; intros r; [apply vf0_panic|]. cbn [decref]. unfold the_ref.
  apply vf_gets_bind. intros fr. eapply vf_bind.
  - apply vf_modify with (Q := tt1). intros s Hi [Hfr _]. rewrite Hfr.
    split; [apply sinv_put_ref; [exact Hi|auto]|split; [|exact I]]. apply vstep_put_ref, vsame_set_refs.
  - intros u. apply vf0_any. vfa; try apply IH.
Qed.
Lemma vf0_dec_ref b r : vf0 b (dec_ref r).
Proof. unfold dec_ref. apply vf0_bind; [apply vf0_gets|intros fuel; apply vf0_decref]. Qed.
Lemma vf0_dec_ref_ b r : vf0 b (dec_ref_ r).
Proof. unfold dec_ref_. apply vf0_bind; [apply vf0_dec_ref|intros; apply vf0_ret]. Qed.

Ltac vfx ::= first [apply vf0_dec_ref_ | apply vf0_dec_ref | apply vf0_decref].

Lemma sinv_put_fids s t : sinv s -> sinv (put_fids t s).
Proof. apply sinv_eq_nodes; reflexivity. Qed.
Lemma vf0_put_fids b f : vf0 b (modify (fun s => put_fids (f s) s)).
Proof.
  apply vf0_of with (P := tt1) (Q := fun _ => tt1); [|unfold tt1; auto]. apply vf_modify. intros s Hi _.
  split; [apply sinv_put_fids, Hi|split; [apply vstep_eq; reflexivity|exact I]].
Qed.
Lemma vf0_lookup_fid b c f : vf0 b (lookup_fid c f).
Proof. unfold lookup_fid. vfa. Qed.
Lemma vf0_insert_fid b c f r : vf0 b (insert_fid c f r).
Proof. unfold insert_fid. vfa; apply vf0_put_fids. Qed.
Lemma vf0_delete_fid b c f : vf0 b (delete_fid c f).
Proof. unfold delete_fid. vfa; apply vf0_put_fids. Qed.

(** allocation *)
Lemma vf_new_ref b fr : vf b tt1 (new_ref fr) (fun r s => r < st_next_ref s /\ get_ref s r = fr).
Proof.
  intros w o w' Hi _ E. rewrite new_ref_run in E. inversion E; subst; cbn [w_st]. clear E.
  destruct Hi as (I1 & I2 & I3). set (s := w_st w) in *.
  assert (Ho : forall x, x < st_next_ref s -> get_ref (new_state s fr) x = get_ref s x) by (intros x Hx; apply get_new_other; lia).
  split; [split; [exact I1|split; [exact I2|]]|split].
  - intros n x Hx. change (registered s n x) in Hx. destruct (I3 n x Hx) as [A B]. split; [cbn; lia|]. rewrite Ho by assumption. exact B.
  - split; [cbn; lia|]. split; [cbn; lia|]. split; [reflexivity|]. split; [|auto]. intros x Hx. rewrite Ho by assumption. apply vsame_refl.
  - intros a Ea. inversion Ea; subst. split; [cbn; lia|apply get_new_same].
Qed.

Lemma slookup_In {A} nm (l : list (string * A)) k : slookup nm l = Some k -> In (nm, k) l.
Proof.
  induction l as [|[a b] l IH]; cbn; [discriminate|]. destruct (String.eqb nm a) eqn:E; [|auto].
  apply String.eqb_eq in E. subst. intros H; inversion H; auto.
Qed.
Lemma In_sdel {A} nm name (l : list (string * A)) k : In (nm, k) (sdel name l) -> In (nm, k) l.
Proof. induction l as [|[a b] l IH]; cbn; [auto|]. destruct (String.eqb name a); cbn; tauto. Qed.

Definition alloc_node (s : sstate) (n : nodeid) (p' : pnode) : sstate :=
  mkState (st_fids s) (st_msize s) (st_refs s) (aset (st_next_node s) node0 (aset n p' (st_nodes s)))
          (st_next_ref s) (st_next_node s + 1) (st_next_handle s).
Lemma get_node_alloc s n p' x :
  get_node (alloc_node s n p') x = if x =? st_next_node s then node0 else if x =? n then p' else get_node s x.
Proof.
  unfold get_node, alloc_node; cbn. destruct (N.eqb_spec x (st_next_node s)) as [->|H1]; [now rewrite alookup_aset_same|].
  rewrite alookup_aset_other by assumption. destruct (N.eqb_spec x n) as [->|H2]; [now rewrite alookup_aset_same|now rewrite alookup_aset_other].
Qed.
Lemma alloc_node_ok b s n name :
  sinv s -> let p' := set_kids (get_node s n) ((name, st_next_node s) :: pn_kids (get_node s n)) in
  sinv (alloc_node s n p') /\ vstep b s (alloc_node s n p').
Proof.
  intros (I1 & I2 & I3) p'. split; [split; [|split]|].
  - intros x Hx. unfold ndel. rewrite get_node_alloc. cbn [st_next_node alloc_node] in Hx.
    destruct (N.eqb_spec x (st_next_node s)); [reflexivity|]. destruct (N.eqb_spec x n) as [->|]; [|apply I1; lia].
    unfold p'; cbn. apply I1. lia.
  - intros x nm k. rewrite get_node_alloc. cbn [st_next_node alloc_node].
    destruct (N.eqb_spec x (st_next_node s)); [cbn; tauto|]. destruct (N.eqb_spec x n) as [->|].
    + unfold p'; cbn. intros [E|E]; [inversion E; lia|pose proof (I2 _ _ _ E); lia].
    + intros E; pose proof (I2 _ _ _ E); lia.
  - intros x r. unfold registered. rewrite get_node_alloc.
    destruct (N.eqb_spec x (st_next_node s)); [cbn; intros H; now elim H|]. destruct (N.eqb_spec x n) as [->|]; [unfold p'; cbn|]; apply I3.
  - split; [cbn; lia|]. split; [cbn; lia|]. split; [reflexivity|]. split; [intros; apply vsame_refl|].
    intros x. unfold ndel. rewrite get_node_alloc.
    destruct (N.eqb_spec x (st_next_node s)) as [->|]; [intros H; pose proof (I1 (st_next_node s) ltac:(lia)) as H'; unfold ndel in H'; rewrite H' in H; discriminate|].
    destruct (N.eqb_spec x n) as [->|]; [unfold p'; cbn|]; auto.
Qed.

Lemma vf_node_for b n name : vf b tt1 (node_for n name) (fun k s => k < st_next_node s).
Proof.
  unfold node_for, the_node. apply vf_gets_bind. intros p.
  destruct (slookup name (pn_kids p)) as [k|] eqn:Ek.
  - intros w o w' Hi [Hp _] E. inversion E; subst. split; [auto|split; [apply vstep_refl|]]. intros a Ea; inversion Ea; subst.
    destruct Hi as (I1 & I2 & I3). eapply I2. eapply slookup_In. exact Ek.
  - intros w o w' Hi [Hp _] E. inversion E; subst; cbn [w_st]. clear E.
    destruct (alloc_node_ok b (w_st w) n name Hi) as [A B]. split; [exact A|split; [exact B|]].
    intros a Ea; inversion Ea; subst. cbn. lia.
Qed.
Lemma vf0_node_for b n name : vf0 b (node_for n name).
Proof. eapply vf_conseq; [apply vf_node_for| |]; unfold tt2; auto. Qed.

(** registration of a fidRef that is allocated and has a parent *)
Lemma vf_add_child b n r name :
  vf b (fun s => r < st_next_ref s /\ fr_parent (get_ref s r) <> None) (add_child n r name) tt2.
Proof.
  unfold add_child, the_node. apply vf_gets_bind. intros p. destruct (alookup r (pn_refs p)); [apply vf_panic|].
  eapply vf_conseq; [apply vf_modify with (Q := tt1)| |]; [|intros s H; exact H|unfold tt2; auto].
  intros s Hi (Hp & Hr & Hpar). subst p. destruct Hi as (I1 & I2 & I3). split; [|split; [|exact I]].
  - apply sinv_put_node; [split; [exact I1|split; [exact I2|exact I3]]|reflexivity|intros nm k; apply I2|].
    intros x Hx. cbn in Hx. destruct (alookup_app_some _ _ _ _ Hx) as [H| ->]; [apply (I3 n x H)|auto].
  - apply vstep_put_node. cbn. auto.
Qed.

Lemma vf0_name_for b n r : vf0 b (name_for n r).
Proof. unfold name_for. vfa. Qed.
Ltac vfx ::= first [apply vf0_dec_ref_ | apply vf0_dec_ref | apply vf0_decref | apply vf0_node_for | apply vf0_name_for
                    | apply vf0_lookup_fid | apply vf0_insert_fid | apply vf0_delete_fid].

Lemma vf0_walk_plain b ga from node names : vf0 b (walk_plain ga from node names).
Proof. unfold walk_plain. vfa. Qed.
Lemma vf0_walk_one b ga from node names : vf0 b (walk_one ga from node names).
Proof. unfold walk_one. vfa; apply vf0_walk_plain. Qed.

(** ---- facts about one fidRef that survive every strict step ---- *)
Definition atref (G : fidref -> Prop) (r : refid) (s : sstate) : Prop := r < st_next_ref s /\ G (get_ref s r).
Definition vresp (G : fidref -> Prop) : Prop := forall a a', vsame true a a' -> G a -> G a'.
Lemma stable_atref G r : vresp G -> stable true (atref G r).
Proof. intros HG s s' (A1 & _ & _ & A4 & _) [Hr Hg]. split; [lia|]. eapply HG; [apply A4, Hr|exact Hg]. Qed.

Lemma vf_ret' {A} b (P : sstate -> Prop) (a : A) (Q : A -> sstate -> Prop) : (forall s, P s -> Q a s) -> vf b P (ret a) Q.
Proof. intros H. eapply vf_conseq; [apply vf_ret|intros s Hs; exact Hs|]. intros a' s [-> Hp]. auto. Qed.
Lemma vf_then_ret {A X} b (P : sstate -> Prop) (m : M X) (a : A) (Q : A -> sstate -> Prop) :
  vf0 b m -> (forall s, Q a s) -> vf b P (m ;; ret a)%m Q.
Proof. intros Hm HQ. eapply vf_bind; [apply vf0_any, Hm|]. intros x. apply vf_ret'. auto. Qed.

Definition gplain (fr : fidref) : Prop :=
  fr_opened fr = false /\ fr_flags fr = 0 /\ fr_xop fr = p9_xattrNone /\ fr_xsize fr = 0 /\ fr_xlen fr = 0 /\ fr_xflags fr = 0.
Definition gchild (fr : fidref) : Prop := gplain fr /\ fr_parent fr <> None.
Lemma vresp_gplain : vresp gplain.
Proof. intros a a' (_ & _ & H) (G1 & G2 & G3 & G4 & G5 & G6). destruct (H eq_refl) as (?&?&?&?&?&?&?). unfold gplain. repeat split; congruence. Qed.
Lemma vresp_gchild : vresp gchild.
Proof. intros a a' H [G1 G2]. split; [eapply vresp_gplain; eauto|]. destruct H as (_ & H & _). tauto. Qed.

Definition walkQ (G : fidref -> Prop) (x : res (list N * refid * bval)) (s : sstate) : Prop :=
  match x with inr (_, nr, _) => atref G nr s | inl _ => True end.

Lemma vf_walk_loop : forall names walk qids last,
  vf true (fun s => names = [] -> atref gchild walk s) (walk_loop names walk qids last) (walkQ gchild).
Proof.
  induction names as [|n rest IH]; intros walk qids last; cbn [walk_loop].
  - apply vf_ret'. intros s H. cbn. auto.
  - eapply vf_conseq with (P := tt1) (Q := walkQ gchild); [|unfold tt1; auto|auto].
    unfold the_ref. apply vf_gets_bind. intros wfr.
    destruct (negb (is_dir (fr_mode wfr))); [unfold fail; apply vf_then_ret; [apply vf0_dec_ref_|intros; exact I]|].
    apply vf_gets_bind. intros del.
    destruct del; [unfold fail; apply vf_then_ret; [apply vf0_dec_ref_|intros; exact I]|].
    eapply vf_bind; [apply vf0_any, vf0_walk_one|]. intros [e|[[q h] a]]; [apply vf_then_ret; [apply vf0_dec_ref_|intros; exact I]|].
    eapply vf_bind; [apply vf0_any, vf0_node_for|]. intros node.
    eapply vf_bind; [eapply vf_conseq; [apply vf_new_ref|unfold tt1; auto|intros nr s H; exact H]|]. intros nr.
    set (R := atref gchild nr).
    assert (HR : stable true R) by (apply stable_atref, vresp_gchild).
    eapply vf_bind with (Q := fun _ => R).
    + eapply vf_conseq; [eapply vf_frame; [exact HR|apply vf_add_child]| |].
      * intros s [Hlt Hg]. unfold R, atref, gchild, gplain. rewrite Hg. cbn. repeat split; auto; discriminate.
      * intros u s [_ Hs]. exact Hs.
    + intros u. eapply vf_bind with (Q := fun _ => R).
      * eapply vf_conseq; [eapply vf_frame; [exact HR|apply vf0_incref]|unfold tt1; auto|]. intros u' s [_ Hs]. exact Hs.
      * intros u'. eapply vf_conseq; [apply IH|intros s Hs _; exact Hs|auto].
Qed.

Lemma vf_pure {A} b (phi : Prop) (P : sstate -> Prop) (m : M A) Q : (phi -> vf b P m Q) -> vf b (fun s => phi /\ P s) m Q.
Proof. intros H w o w' Hi [Hphi Hp] E. exact (H Hphi w o w' Hi Hp E). Qed.
(** a step without a specification of its own under a stable frame *)
Lemma vf_bind_R {A B} b (R : sstate -> Prop) (m : M A) (f : A -> M B) Q :
  stable b R -> vf0 b m -> (forall a, vf b R (f a) Q) -> vf b R (bind m f) Q.
Proof.
  intros HR Hm Hf. eapply vf_bind with (Q := fun _ => R); [|exact Hf].
  eapply vf_conseq; [eapply vf_frame; [exact HR|exact Hm]|unfold tt1; auto|]. intros a s [_ H]. exact H.
Qed.
Lemma vf_gets_R {A B} b (R : sstate -> Prop) (g : sstate -> A) (f : A -> M B) Q :
  (forall a, vf b R (f a) Q) -> vf b R (bind (gets g) f) Q.
Proof. intros Hf. apply vf_gets_bind. intros a. eapply vf_conseq; [apply Hf|intros s [_ H]; exact H|auto]. Qed.

Definition gclone (src fr : fidref) : Prop :=
  gplain fr /\ fr_mode fr = fr_mode src /\ fr_node fr = fr_node src /\ (fr_parent fr = None <-> fr_parent src = None).
Lemma vresp_gclone src : vresp (gclone src).
Proof.
  intros a a' H (G1 & G2 & G3 & G4). split; [eapply vresp_gplain; eauto|]. destruct H as (H1 & H2 & H3). destruct (H3 eq_refl) as (Hm & _).
  split; [congruence|]. split; [congruence|tauto].
Qed.
Definition gwalk (names : list string) (src : fidref) : fidref -> Prop :=
  match names with [] => gclone src | _ => gchild end.

Lemma vf_do_walk ref names ga src :
  vf true (fun s => vsame true src (get_ref s ref)) (do_walk ref names ga) (walkQ (gwalk names src)).
Proof.
  unfold do_walk. destruct (negb (forallb safe_nameb names)); [unfold fail; apply vf_ret'; intros; exact I|].
  destruct names as [|n rest].
  - unfold the_ref. apply vf_gets_bind. intros fr.
    eapply vf_conseq with (P := fun s => vsame true src fr /\ tt1 s) (Q := walkQ (gclone src)); [|intros s [-> H]; split; [exact H|exact I]|auto].
    apply vf_pure. intros Hsrc. destruct Hsrc as (S1 & S2 & S3). destruct (S3 eq_refl) as (Sm & _).
    destruct (fr_xof fr); [unfold fail; apply vf_ret'; intros; exact I|].
    eapply vf_bind; [apply vf0_any, vf0_walk_one|]. intros [e|[[q h] a]]; [apply vf_ret'; intros; exact I|].
    eapply vf_bind; [eapply vf_conseq; [apply vf_new_ref|unfold tt1; auto|intros nr s H; exact H]|]. intros nr.
    set (R := atref (gclone src) nr).
    assert (HR : stable true R) by (apply stable_atref, vresp_gclone).
    eapply vf_conseq with (P := R) (Q := walkQ (gclone src)); [| |auto].
    2:{ intros s [Hlt Hg]. unfold R, atref, gclone, gplain. rewrite Hg. cbn. repeat split; auto; tauto. }
    eapply vf_bind with (Q := fun _ => R).
    + destruct (fr_parent fr) as [p|] eqn:Ep; [|apply vf_ret'; auto].
      apply vf_gets_R. intros del. unfold the_ref. apply vf_gets_R. intros pfr.
      eapply vf_bind with (Q := fun _ => R).
      * destruct del; [apply vf_ret'; auto|]. apply vf_bind_R; [exact HR|apply vf0_name_for|]. intros nm.
        eapply vf_conseq; [eapply vf_frame; [exact HR|apply vf_add_child]| |].
        -- intros s Hs. split; [|exact Hs]. destruct Hs as [Hlt (_ & _ & _ & Hpar)]. split; [exact Hlt|]. intros E. apply Hpar in E. apply S2 in E. discriminate.
        -- intros u s [_ Hs]. exact Hs.
      * intros u. eapply vf_conseq; [eapply vf_frame; [exact HR|apply vf0_incref]|unfold tt1; auto|]. intros u' s [_ Hs]. exact Hs.
    + intros u. apply vf_bind_R; [exact HR|apply vf0_incref|]. intros u'. apply vf_ret'. intros s Hs. exact Hs.
  - eapply vf_bind; [apply vf0_any, vf0_incref|]. intros u. eapply vf_conseq; [apply vf_walk_loop|intros s _ E; discriminate|auto].
Qed.

(** ---- the path-tree helpers ---- *)
Definition hasparent (fr : fidref) : Prop := fr_parent fr <> None.
Lemma vresp_hasparent : vresp hasparent.
Proof. intros a a' (_ & H & _) G. unfold hasparent in *. tauto. Qed.
Definition allp (rs : list refid) (s : sstate) : Prop := Forall (fun r => atref hasparent r s) rs.
Lemma stable_allp rs : stable true (allp rs).
Proof. intros s s' Hv H. unfold allp in *. rewrite Forall_forall in *. intros r Hr. eapply stable_atref; [apply vresp_hasparent|exact Hv|auto]. Qed.
Lemma stable_and b (R1 R2 : sstate -> Prop) : stable b R1 -> stable b R2 -> stable b (fun s => R1 s /\ R2 s).
Proof. intros H1 H2 s s' Hv [A B]. split; eauto. Qed.

Lemma vf_rwn_none {A} n (k : M A) R Q : stable true R -> vf true R k Q -> forall rs, vf true R (rwn_loop n None rs k) Q.
Proof.
  intros HR Hk. induction rs as [|r rest IH]; cbn [rwn_loop]; [exact Hk|].
  apply vf_bind_R; [exact HR|apply vf0_remove_child|]. intros u. exact IH.
Qed.

Lemma vf_rwn_some {A} n (f : refid -> M unit) (k : M A) R Q :
  stable true R -> (forall a, stable true (Q a)) -> (forall r, vf true (atref hasparent r) (f r) tt2) -> vf true R k Q ->
  forall rs, vf true (fun s => R s /\ allp rs s) (rwn_loop n (Some f) rs k) Q.
Proof.
  intros HR HQ Hf Hk. induction rs as [|r rest IH]; cbn [rwn_loop].
  - eapply vf_conseq; [exact Hk|intros s [H _]; exact H|auto].
  - assert (HS : stable true (fun s => R s /\ allp (r :: rest) s)) by (apply stable_and; [exact HR|apply stable_allp]).
    apply vf_bind_R; [exact HS|apply vf0_remove_child|]. intros u.
    unfold the_ref. apply vf_gets_R. intros fr.
    assert (Hrest : vf true (fun s => R s /\ allp (r :: rest) s) (rwn_loop n (Some f) rest k) Q).
    { eapply vf_conseq; [exact IH| |auto]. intros s [H1 H2]. split; [exact H1|]. inversion H2; assumption. }
    destruct (0 <? fr_refs fr)%Z; [|exact Hrest].
    apply vf_bind_R; [exact HS|apply vf0_incref|]. intros u'.
    apply vf_with_defer; [apply vf0_dec_ref_| |exact HQ].
    eapply vf_bind with (Q := fun _ s => R s /\ allp (r :: rest) s); [|intros u''; exact Hrest].
    eapply vf_conseq; [eapply vf_frame; [exact HS|apply Hf]| |].
    + intros s Hs. split; [|exact Hs]. destruct Hs as [_ H2]. inversion H2; assumption.
    + intros a s [_ H]. exact H.
Qed.

Definition optbelow (o : option nodeid) (s : sstate) : Prop := forall c, o = Some c -> c < st_next_node s.
Lemma stable_optbelow b o : stable b (optbelow o).
Proof. intros s s' (_ & A2 & _) H c Ec. specialize (H c Ec). lia. Qed.

Lemma vf_rwn_tail b n name :
  vf b tt1 (p' <- the_node n ;; let o := slookup name (pn_kids p') in modify (put_node n (set_kids p' (sdel name (pn_kids p')))) ;; ret o)%m optbelow.
Proof.
  unfold the_node. apply vf_gets_bind. intros p'. cbv zeta.
  eapply vf_bind with (Q := fun _ => optbelow (slookup name (pn_kids p'))).
  - apply vf_modify. intros s Hi [Hp _]. subst p'. destruct Hi as (I1 & I2 & I3). split; [|split].
    + apply sinv_put_node; [split; [exact I1|split; [exact I2|exact I3]]|reflexivity| |intros x Hx; apply (I3 n x Hx)].
      intros nm k Hk. cbn in Hk. apply In_sdel in Hk. eapply I2; eauto.
    + apply vstep_put_node. cbn. auto.
    + intros c Ec. cbn. eapply I2. eapply slookup_In. exact Ec.
  - intros u. apply vf_ret'. auto.
Qed.

Lemma refs_named_registered s n name r : In r (refs_named name (pn_refs (get_node s n))) -> registered s n r.
Proof.
  unfold refs_named, registered. generalize (pn_refs (get_node s n)). intros l. induction l as [|[k v] l IH]; cbn; [tauto|].
  destruct (String.eqb v name); cbn.
  - intros [->|H]; [rewrite N.eqb_refl; discriminate|]. destruct (r =? k); [discriminate|auto].
  - intros H. destruct (r =? k); [discriminate|auto].
Qed.

Lemma vf_remove_with_name n name fn :
  (forall f, fn = Some f -> forall r, vf true (atref hasparent r) (f r) tt2) ->
  vf true tt1 (remove_with_name n name fn) optbelow.
Proof.
  intros Hf w o w' Hi _ E. unfold remove_with_name, bind at 1 in E. cbn [the_node gets] in E.
  destruct fn as [f|].
  - refine (vf_rwn_some n f _ tt1 optbelow _ _ (Hf f eq_refl) (vf_rwn_tail true n name) _ w o w' Hi _ E).
    + intros s s' _ _. exact I.
    + intros a. apply stable_optbelow.
    + split; [exact I|]. unfold allp. rewrite Forall_forall. intros r Hr. apply refs_named_registered in Hr.
      destruct Hi as (_ & _ & I3). destruct (I3 _ _ Hr). split; assumption.
  - refine (vf_rwn_none n _ tt1 optbelow _ (vf_rwn_tail true n name) _ w o w' Hi I E). intros s s' _ _. exact I.
Qed.

Lemma sinv_set_deleted s n : sinv s -> n < st_next_node s -> sinv (put_node n (set_deleted (get_node s n)) s).
Proof.
  intros (I1 & I2 & I3) Hn. split; [|split].
  - intros n' Hn'. cbn [st_next_node put_node] in Hn'. unfold ndel. rewrite get_node_put_other by lia. apply I1, Hn'.
  - intros n' name k. destruct (N.eqb_spec n' n) as [->|Hne]; [rewrite get_node_put_same; cbn; apply I2|rewrite get_node_put_other by assumption; apply I2].
  - intros n' x. unfold registered. destruct (N.eqb_spec n' n) as [->|Hne]; [rewrite get_node_put_same; cbn; apply I3|rewrite get_node_put_other by assumption; apply I3].
Qed.

Definition kidsbelow (l : list (string * nodeid)) (s : sstate) : Prop := Forall (fun kc => snd kc < st_next_node s) l.
Lemma stable_kidsbelow b l : stable b (kidsbelow l).
Proof. intros s s' (_ & A2 & _) H. unfold kidsbelow in *. rewrite Forall_forall in *. intros x Hx. specialize (H x Hx). lia. Qed.
Lemma kids_all_below s n : sinv s -> kidsbelow (pn_kids (get_node s n)) s.
Proof. intros (_ & I2 & _). unfold kidsbelow. rewrite Forall_forall. intros [a b] H. cbn. eapply I2; eauto. Qed.

Lemma vf_notify_delete fuel : forall n, vf true (fun s => n < st_next_node s) (notify_delete fuel n) tt2.
Proof.
  induction fuel as [|k IH]; intros n; [apply vf_panic|]. cbn [notify_delete].
  intros w o w' Hi Hn E. unfold bind at 1 in E. cbn [the_node gets] in E. set (p := get_node (w_st w) n) in *.
  assert (Hk : kidsbelow (pn_kids p) (w_st w)) by (apply kids_all_below, Hi).
  revert E. generalize (pn_kids p) Hk. intros l Hl E.
  assert (G : vf true (fun s => n < st_next_node s /\ kidsbelow l s /\ p = get_node s n)
                ((modify (put_node n (set_deleted p)) ;;
                  (fix each (l : list (string * nodeid)) : M unit :=
                     match l with [] => ret tt | (_, c) :: rest => notify_delete k c ;; each rest end) l)%m) tt2).
  { clear - IH. eapply vf_bind with (Q := fun _ => kidsbelow l).
    - apply vf_modify. intros s Hi (Hn & Hl & ->). split; [apply sinv_set_deleted; assumption|]. split; [apply vstep_put_node; reflexivity|exact Hl].
    - intros u. induction l as [|[nm c] rest IHl]; [apply vf0_any, vf0_ret|].
      eapply vf_bind with (Q := fun _ => kidsbelow rest).
      + eapply vf_conseq; [eapply vf_frame; [apply (stable_kidsbelow true rest)|apply IH]| |].
        * intros s H. inversion H; subst. split; assumption.
        * intros a s [_ H]. exact H.
      + intros u'. exact IHl. }
  exact (G w o w' Hi (conj Hn (conj Hl eq_refl)) E).
Qed.

Lemma vf0_mark_child_deleted n name : vf0 true (mark_child_deleted n name).
Proof.
  unfold mark_child_deleted. eapply vf_bind; [apply vf_remove_with_name; intros f Ef; discriminate|].
  intros [c|]; [|apply vf0_any, vf0_ret]. apply vf_gets_bind. intros fuel.
  eapply vf_conseq; [apply vf_notify_delete|intros s [_ H]; apply H; reflexivity|auto].
Qed.

Lemma vf_notify_name_change {A} (k : M A) R Q :
  stable true R -> (forall a, stable true (Q a)) -> vf true R k Q ->
  forall fuel n, vf true R (notify_name_change fuel n k) Q.
Proof.
  intros HR HQ. intros Hk fuel. revert k Hk. induction fuel as [|f IH]; intros k Hk n; [apply vf_panic|]. cbn [notify_name_change].
  unfold the_node. apply vf_gets_R. intros p. generalize (pn_refs p). intros l. induction l as [|[r nm] rest IHl].
  - generalize (pn_kids p). intros kids. induction kids as [|[nm c] krest IHk]; [exact Hk|]. apply IH. exact IHk.
  - unfold the_ref. apply vf_gets_R. intros fr. destruct (0 <? fr_refs fr)%Z; [|exact IHl].
    apply vf_bind_R; [exact HR|apply vf0_incref|]. intros u. apply vf_with_defer; [apply vf0_dec_ref_| |exact HQ].
    destruct (fr_parent fr); [|apply vf_panic]. apply vf_gets_R. intros pfr.
    apply vf_bind_R; [exact HR|apply vf0_backend|]. intros x. exact IHl.
Qed.

Lemma vf_add_path_node_for n name c : vf true (fun s => c < st_next_node s) (add_path_node_for n name c) tt2.
Proof.
  unfold add_path_node_for, the_node. apply vf_gets_bind. intros p. destruct (slookup name (pn_kids p)); [apply vf_panic|].
  eapply vf_conseq; [apply vf_modify with (Q := tt1)| |]; [|intros s H; exact H|unfold tt2; auto].
  intros s Hi (Hp & Hc). subst p. destruct Hi as (I1 & I2 & I3). split; [|split; [|exact I]].
  - apply sinv_put_node; [split; [exact I1|split; [exact I2|exact I3]]|reflexivity| |intros x Hx; apply (I3 n x Hx)].
    intros nm k [E|E]; [inversion E; subst; exact Hc|eapply I2; eauto].
  - apply vstep_put_node. cbn. auto.
Qed.

Lemma vsame_set_parent fr t : fr_parent fr <> None -> vsame true fr (set_parent fr (Some t)).
Proof. intros H. destruct fr; cbn in *. split; [reflexivity|]. split; [split; intros E; [discriminate|contradiction]|]. intros _. repeat split. Qed.

Lemma vf0_rename_child_to f old target new : vf0 true (rename_child_to f old target new).
Proof.
  unfold rename_child_to, the_ref. apply vf0_bind; [apply vf0_gets|intros ffr]. apply vf0_bind; [apply vf0_gets|intros tfr].
  apply vf0_bind; [apply vf0_mark_child_deleted|intros u].
  eapply vf_bind.
  - apply vf_remove_with_name. intros fn Efn r. inversion Efn; subst fn. clear Efn.
    apply vf_gets_bind. intros fr.
    eapply vf_bind with (Q := fun _ => atref hasparent r).
    + apply vf_modify. intros s Hi (Hfr & Hlt & Hp). subst fr. unfold hasparent in Hp. split; [apply sinv_put_ref; [exact Hi|cbn; discriminate]|].
      split; [apply vstep_put_ref, vsame_set_parent, Hp|]. split; [exact Hlt|]. rewrite get_put_ref_same. unfold hasparent. cbn. discriminate.
    + intros u1. assert (HS : stable true (atref hasparent r)) by (apply stable_atref, vresp_hasparent).
      apply vf_bind_R; [exact HS|apply vf0_incref|]. intros u2.
      eapply vf_bind; [eapply vf_conseq; [apply vf_add_child|intros s H; exact H|intros a s H; exact H]|]. intros u3. apply vf0_any. vfa.
  - intros [c|]; [|apply vf0_any, vf0_ret].
    eapply vf_bind with (Q := fun _ s => c < st_next_node s).
    + eapply vf_conseq; [eapply vf_frame; [apply (stable_optbelow true (Some c))|apply vf_add_path_node_for]| |].
      * intros s H. split; [apply H; reflexivity|exact H].
      * intros a s [_ H]. apply H. reflexivity.
    + intros u1. apply vf0_any. apply vf0_bind; [apply vf0_gets|intros fuel].
      eapply vf0_of with (P := tt1); [|unfold tt1; auto]. apply (vf_notify_name_change (ret tt) tt1 tt2); [intros s s' _ _; exact I|intros a s s' _ _; exact I|apply vf0_ret].
Qed.
