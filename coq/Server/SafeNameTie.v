(** C09: checkSafeName as go2coq TRANSLATED it from p9/handlers.go (gen/SafeNameGen.v, regenerated on every run)
    is the model's predicate [Msg.safe_nameb] (non-empty, no slash, not "." or ".."), for every string. *)
From Coq Require Import String Ascii Bool List NArith.
From P9V Require Import Base.Str Server.SafeNamePrims gen.SafeNameGen Server.Msg.
Open Scope string_scope.

Lemma has_prefix_empty : forall s, go_has_prefix s EmptyString = true.
Proof. destruct s; reflexivity. Qed.

Lemma contains_one_char : forall s c, go_contains s (String c EmptyString) = contains_char c s.
Proof.
  induction s as [|a r IH]; intros c; [reflexivity|].
  cbn [go_contains go_has_prefix contains_char]. rewrite IH, has_prefix_empty, andb_true_r, Ascii.eqb_sym. reflexivity.
Qed.

Theorem gen_checkSafeName_is_model : forall s, gen_checkSafeName s = safe_nameb s.
Proof.
  intros s. unfold gen_checkSafeName, safe_nameb.
  change "/" with (String slash EmptyString). rewrite contains_one_char.
  destruct (negb (s =? "") && negb (contains_char slash s) && negb (s =? ".") && negb (s =? "..")); reflexivity.
Qed.
