(** C04: the whole-request refinement for EVERY request, and its lift to every history.
    Invariant: reference ledger, injective fid table, structural invariant of the path tree. *)
From Coq Require Import NArith ZArith List String Bool Lia.
From P9V Require Import Base.Str gen.ConstGen Fs.Version Server.State Server.Msg Server.SessionSpec Server.Handlers
  Server.Ledger Server.FaultProofs Server.Refine Server.TableFrame Server.RefineOk Server.TableInj Server.TableErr
  Server.ViewFrame Server.RefineBind.
Import ListNotations.
Open Scope N_scope.

Lemma sinv_init : sinv init_state.
Proof.
  split; [|split].
  - intros n Hn. unfold ndel, get_node, init_state; cbn. destruct (N.eqb_spec n 0); [cbn in Hn; lia|reflexivity].
  - intros n name k. unfold get_node, init_state; cbn. destruct (n =? 0); cbn; tauto.
  - intros n r. unfold registered, get_node, init_state; cbn. destruct (n =? 0); cbn; intros H; now elim H.
Qed.

Lemma vf0_h_clunk c f : vf0 true (h_clunk c f).
Proof. unfold h_clunk. apply vf0_bind; [apply vf0_clunk_xattr|intros cerr]. apply vf0_bind; [apply vf0_delete_fid|intros derr]. vfa. Qed.

Theorem sinv_step s c m tape : sinv s -> sinv (st_of (step s c m tape)).
Proof.
  intros Hi. unfold st_of, step. destruct (handler c m (mkW s tape [])) as [o w'] eqn:Eh.
  assert (G : sinv (w_st w')); [|destruct o; exact G].
  destruct m; try (cbn in Eh; inversion Eh; subst; exact Hi);
    try (cbn [handler kind_of] in Eh;
         match type of Eh with
         | bind (guarded ?c ?m ?k) _ _ = _ =>
             assert (Hh : vf0 false (x <- guarded c m k ;; ret (match x with inl e => RErr (extract_errno e) | inr r0 => r0 end))%m)
               by (apply vf0_bind; [apply vf0_guarded; intros r t; apply vf0_body_false|intros x; apply vf0_ret]);
             exact (proj1 (Hh (mkW s tape []) o w' Hi I Eh))
         end).
  - (* Tversion *) unfold handler, h_version in Eh. destruct (tversion_handle msize ver) as [[mm v] st].
    destruct st as [[ms vv]|]; unfold bind, modify, ret in Eh; inversion Eh; subst; cbn [w_st]; [|exact Hi].
    eapply sinv_eq_nodes; [| | | |exact Hi]; reflexivity.
  - (* Tattach *) unfold handler in Eh. destruct (N.eqb_spec afid p9_noFID) as [->|Hne].
    + pose proof (attach_shape s c f aname tape Hi) as Hs. rewrite Eh in Hs. exact (proj1 Hs).
    + unfold h_attach in Eh. apply N.eqb_neq in Hne. rewrite Hne in Eh. inversion Eh; subst. exact Hi.
  - (* Tclunk *) exact (proj1 (vf0_h_clunk c f (mkW s tape []) o w' Hi I Eh)).
Qed.

(** the invariant of the refinement *)
Definition Inv2 (s : sstate) : Prop := Ledger s /\ tinj s /\ sinv s.
Lemma inv2_init : Inv2 init_state.
Proof. destruct inv_init as [A B]. split; [exact A|]. split; [exact B|apply sinv_init]. Qed.
Theorem inv2_step s c m tape : Inv2 s -> Inv2 (st_of (step s c m tape)).
Proof.
  intros (A & B & C). destruct (inv_step s c m tape (conj A B)) as [A' B']. split; [exact A'|]. split; [exact B'|apply sinv_step, C].
Qed.
Theorem inv2_every_history h : Inv2 (Refine.run init_state h).
Proof.
  assert (G : forall s, Inv2 s -> Inv2 (Refine.run s h)).
  { induction h as [|[[c m] t] r IH]; intros s HI; cbn; [exact HI|]. apply IH. apply (inv2_step s c m t HI). }
  apply G, inv2_init.
Qed.

(** ---- every request ---- *)
Theorem refines_all s c m tape : Inv2 s -> refines_at s c m tape.
Proof.
  intros (HL & Hinj & Hi).
  destruct (covered m) eqn:Hc; [apply refines_covered; assumption|].
  destruct (spec_reject (abs_state s) c m) as [e|] eqn:Hr.
  - (* refused *)
    destruct (match m with Tremove f => tlookup (c, f) (st_fids s) | _ => None end) as [r|] eqn:Hrm.
    + destruct m; try discriminate. eapply refines_remove_refused; eauto.
    + assert (Hrm' : forall f, m = Tremove f -> tlookup (c, f) (st_fids s) = None) by (intros f Em; subst m; exact Hrm).
      destruct (refines_refusals_spec s c m tape e BPanicEarly nofence HL Hr Hrm') as [A B].
      exists BPanicEarly, nofence. split; [exact A|]. split; [exact B|].
      intros c'. unfold st_of. rewrite (refines_refusals s c m tape e HL Hr Hrm'). cbn [fst].
      unfold spec_step. rewrite Hr. destruct m; try reflexivity. cbn [fid1_of]. cbn [abs_state a_fids]. unfold connid, fid in *. rewrite (Hrm' f eq_refl). reflexivity.
  - destruct m; cbn in Hc; try discriminate.
    + apply refines_attach; assumption.
    + apply refines_walk; assumption.
    + apply refines_walkgetattr; assumption.
    + apply refines_clunk; assumption.
    + apply refines_remove_pass; assumption.
    + apply refines_lcreate; assumption.
    + apply refines_renameat; assumption.
    + apply refines_unlinkat; assumption.
    + apply refines_rename; assumption.
    + apply refines_xattrwalk; assumption.
Qed.

Theorem refines_every_history h c m tape : refines_at (Refine.run init_state h) c m tape.
Proof. apply refines_all, inv2_every_history. Qed.
