(** The fid table changes only at the fids a request may bind or unbind -- whatever the backend
    answers (errors and panics included): every other fid of every connection keeps its fidRef. *)
From Coq Require Import NArith ZArith List String Bool Lia.
From P9V Require Import Base.Str gen.ConstGen Fs.Version Server.State Server.Msg Server.Handlers Server.Ledger.
Import ListNotations.
Open Scope N_scope.

Definition kfids {A} (m : M A) : Prop := forall w o w', m w = (o, w') -> st_fids (w_st w') = st_fids (w_st w).

Lemma kf_ret {A} (a : A) : kfids (ret a). Proof. intros w o w' E; inversion E; auto. Qed.
Lemma kf_panic {A} : kfids (@panic A). Proof. intros w o w' E; inversion E; auto. Qed.
Lemma kf_gets {A} (f : sstate -> A) : kfids (gets f). Proof. intros w o w' E; inversion E; auto. Qed.
Lemma kf_backend c : kfids (backend c).
Proof. intros w o w' E. unfold backend in E. destruct (w_tape w) as [|a t]; [|destruct a]; inversion E; subst; cbn; auto. Qed.
Lemma kf_bind {A B} (m : M A) (f : A -> M B) : kfids m -> (forall a, kfids (f a)) -> kfids (bind m f).
Proof.
  intros Hm Hf w o w' E. unfold bind in E. destruct (m w) as [[a|] w1] eqn:Em.
  - rewrite (Hf a _ _ _ E). exact (Hm _ _ _ Em).
  - inversion E; subst. exact (Hm _ _ _ Em).
Qed.
Lemma kf_with_defer {A} (d : M unit) (m : M A) : kfids d -> kfids m -> kfids (with_defer d m).
Proof.
  intros Hd Hm w o w' E. unfold with_defer in E. destruct (m w) as [o1 w1] eqn:Em.
  destruct (d w1) as [[u|] w2] eqn:Ed; inversion E; subst; rewrite (Hd _ _ _ Ed); exact (Hm _ _ _ Em).
Qed.
Lemma kf_modify f : (forall s, st_fids (f s) = st_fids s) -> kfids (modify f).
Proof. intros Hf w o w' E; inversion E; subst; cbn; auto. Qed.
Lemma kf_keeps {A} (m : M A) : keeps m -> kfids m.
Proof. intros Hk w o w' E. destruct (Hk _ _ _ E) as (_ & T & _). exact T. Qed.
Lemma kf_new_ref fr : kfids (new_ref fr). Proof. intros w o w' E; inversion E; subst; cbn; auto. Qed.
Lemma kf_incref r : kfids (incref r). Proof. apply kf_modify; reflexivity. Qed.

Ltac kf :=
  repeat first
    [ apply kf_ret | apply kf_panic | apply kf_gets | apply kf_backend | apply kf_new_ref | apply kf_incref
    | apply kf_keeps; first [apply keeps_fresh_handle | apply keeps_node_for | apply keeps_add_child | apply keeps_name_for
                            | apply keeps_remove_child | apply keeps_walk_one | apply keeps_the_ref | apply keeps_the_node]
    | apply kf_modify; reflexivity
    | apply kf_bind; [|intros ?]
    | match goal with
      | |- kfids (match ?x with _ => _ end) => destruct x
      | |- kfids (let '(_, _) := ?x in _) => destruct x
      | |- kfids (if ?b then _ else _) => destruct b
      end ].

Lemma kf_decref fuel : forall r, kfids (decref fuel r).
Proof.
  induction fuel as [|k IH]; intros r; cbn [decref]; [apply kf_panic|].
  apply kf_bind; [apply kf_gets|intros fr]. apply kf_bind; [apply kf_modify; reflexivity|intros _].
  destruct (_ =? 0)%Z; [|apply kf_ret].
  apply kf_bind.
  - destruct (fr_xof fr); [apply IH|]. kf.
  - intros e1. apply kf_bind; [|intros e2; apply kf_ret].
    destruct (fr_parent fr); [|apply kf_ret].
    apply kf_bind; [apply kf_gets|intros pfr]. apply kf_bind; [kf|intros _; apply IH].
Qed.
Lemma kf_dec_ref r : kfids (dec_ref r).
Proof. unfold dec_ref. apply kf_bind; [apply kf_gets|intros fuel; apply kf_decref]. Qed.
Lemma kf_dec_ref_ r : kfids (dec_ref_ r).
Proof. unfold dec_ref_. apply kf_bind; [apply kf_dec_ref|intros _; apply kf_ret]. Qed.

Lemma kf_rwn_loop {A} n fn (k : M A) : (forall f r, fn = Some f -> kfids (f r)) -> kfids k -> forall rs, kfids (rwn_loop n fn rs k).
Proof.
  intros Hf Hk rs. induction rs as [|r rest IH]; cbn [rwn_loop]; [exact Hk|].
  apply kf_bind; [kf|intros _]. destruct fn as [f|]; [|exact IH].
  apply kf_bind; [apply kf_gets|intros fr]. destruct (0 <? fr_refs fr)%Z; [|exact IH].
  apply kf_bind; [apply kf_incref|intros _]. apply kf_with_defer; [apply kf_dec_ref_|].
  apply kf_bind; [apply (Hf f r eq_refl)|intros _; exact IH].
Qed.
Lemma kf_remove_with_name n name fn : (forall f r, fn = Some f -> kfids (f r)) -> kfids (remove_with_name n name fn).
Proof.
  intros Hf. unfold remove_with_name. apply kf_bind; [apply kf_gets|intros p].
  apply kf_rwn_loop; [exact Hf|]. kf.
Qed.
Lemma kf_notify_delete fuel : forall n, kfids (notify_delete fuel n).
Proof.
  induction fuel as [|k IH]; intros n; cbn [notify_delete]; [apply kf_panic|].
  apply kf_bind; [apply kf_gets|intros p]. apply kf_bind; [kf|intros _].
  generalize (pn_kids p) as l. induction l as [|[nm c] rest IHl]; [apply kf_ret|]. apply kf_bind; [apply IH|intros _; exact IHl].
Qed.
Lemma kf_mark_child_deleted n name : kfids (mark_child_deleted n name).
Proof.
  unfold mark_child_deleted. apply kf_bind; [apply kf_remove_with_name; intros f r H; discriminate|intros o].
  destruct o; [|apply kf_ret]. apply kf_bind; [apply kf_gets|intros fuel; apply kf_notify_delete].
Qed.
Lemma kf_notify_name_change {A} fuel : forall n (k : M A), kfids k -> kfids (notify_name_change fuel n k).
Proof.
  induction fuel as [|f IH]; intros n k Hk; cbn [notify_name_change]; [apply kf_panic|].
  apply kf_bind; [apply kf_gets|intros p].
  generalize (pn_refs p) as l. induction l as [|[r nm] rest IHl].
  - generalize (pn_kids p) as kids. induction kids as [|[nm c] rest IHk]; [exact Hk|]. apply IH. exact IHk.
  - apply kf_bind; [apply kf_gets|intros fr]. destruct (0 <? fr_refs fr)%Z; [|exact IHl].
    apply kf_bind; [apply kf_incref|intros _]. apply kf_with_defer; [apply kf_dec_ref_|].
    destruct (fr_parent fr); [|apply kf_panic].
    apply kf_bind; [apply kf_gets|intros pfr]. apply kf_bind; [apply kf_backend|intros _; exact IHl].
Qed.
Lemma kf_rename_child_to f old target new : kfids (rename_child_to f old target new).
Proof.
  unfold rename_child_to. apply kf_bind; [apply kf_gets|intros ffr]. apply kf_bind; [apply kf_gets|intros tfr].
  apply kf_bind; [apply kf_mark_child_deleted|intros _]. apply kf_bind.
  - apply kf_remove_with_name. intros g r Hg. inversion Hg; subst; clear Hg.
    apply kf_bind; [apply kf_gets|intros fr]. apply kf_bind; [kf|intros _]. apply kf_bind; [kf|intros _]. apply kf_bind; [kf|intros _].
    apply kf_bind; [kf|intros _]. apply kf_bind; [destruct (fr_parent fr); [apply kf_dec_ref_|apply kf_panic]|intros _]. kf.
  - intros o. destruct o; [|apply kf_ret]. apply kf_bind; [kf|intros _].
    apply kf_bind; [apply kf_gets|intros fuel]. apply kf_notify_name_change. apply kf_ret.
Qed.
Lemma kf_walk_loop : forall names walk qids last, kfids (walk_loop names walk qids last).
Proof.
  induction names as [|n rest IH]; intros walk qids last; cbn [walk_loop]; [apply kf_ret|].
  apply kf_bind; [apply kf_gets|intros wfr]. unfold fail.
  destruct (negb _); [apply kf_bind; [apply kf_dec_ref_|intros _; apply kf_ret]|].
  apply kf_bind; [apply kf_gets|intros del]. destruct del; [apply kf_bind; [apply kf_dec_ref_|intros _; apply kf_ret]|].
  apply kf_bind; [kf|intros r]. destruct r as [e|[[q h] a]]; [apply kf_bind; [apply kf_dec_ref_|intros _; apply kf_ret]|].
  apply kf_bind; [kf|intros node]. apply kf_bind; [kf|intros nr]. apply kf_bind; [kf|intros _]. apply kf_bind; [kf|intros _]. apply IH.
Qed.
Lemma kf_do_walk ref names ga : kfids (do_walk ref names ga).
Proof.
  unfold do_walk, fail. destruct (negb _); [apply kf_ret|]. destruct names as [|n rest]; [|apply kf_bind; [kf|intros _; apply kf_walk_loop]].
  kf.
Qed.
Lemma kf_lookup_fid c f : kfids (lookup_fid c f).
Proof. unfold lookup_fid. kf. Qed.

(** ---- the table frame ---- *)
Definition tframe {A} (T : connid * fid -> bool) (m : M A) : Prop :=
  forall w o w', m w = (o, w') -> forall k, T k = false -> tlookup k (st_fids (w_st w')) = tlookup k (st_fids (w_st w)).
Lemma tf_kf {A} T (m : M A) : kfids m -> tframe T m.
Proof. intros H w o w' E k _. now rewrite (H _ _ _ E). Qed.
Lemma tf_bind {A B} T (m : M A) (f : A -> M B) : tframe T m -> (forall a, tframe T (f a)) -> tframe T (bind m f).
Proof.
  intros Hm Hf w o w' E k Hk. unfold bind in E. destruct (m w) as [[a|] w1] eqn:Em.
  - rewrite (Hf a _ _ _ E k Hk). exact (Hm _ _ _ Em k Hk).
  - inversion E; subst. exact (Hm _ _ _ Em k Hk).
Qed.
Lemma tf_with_defer {A} T (d : M unit) (m : M A) : tframe T d -> tframe T m -> tframe T (with_defer d m).
Proof.
  intros Hd Hm w o w' E k Hk. unfold with_defer in E. destruct (m w) as [o1 w1] eqn:Em.
  destruct (d w1) as [[u|] w2] eqn:Ed; inversion E; subst; rewrite (Hd _ _ _ Ed k Hk); exact (Hm _ _ _ Em k Hk).
Qed.
Lemma keyb_refl k : keyb k k = true. Proof. unfold keyb. now rewrite !N.eqb_refl. Qed.
Lemma keyb_false_of T (k k0 : connid * fid) : T k0 = true -> T k = false -> keyb k k0 = false.
Proof.
  intros H1 H2. destruct (keyb k k0) eqn:E; [|reflexivity]. exfalso.
  unfold keyb in E. apply andb_true_iff in E. destruct E as [E1 E2]. apply N.eqb_eq in E1, E2.
  destruct k, k0; cbn in *; subst. congruence.
Qed.
Lemma tf_insert_fid T c f r : T (c, f) = true -> tframe T (insert_fid c f r).
Proof.
  intros HT. unfold insert_fid. apply tf_bind; [apply tf_kf, kf_gets|intros o].
  apply tf_bind; [apply tf_kf, kf_incref|intros _]. apply tf_bind.
  - intros w o0 w' E k Hk. inversion E; subst; cbn. apply tlookup_tset_other. eapply keyb_false_of; eauto.
  - intros _. destruct o; [apply tf_kf, kf_dec_ref_|apply tf_kf, kf_ret].
Qed.
Lemma tf_delete_fid T c f : T (c, f) = true -> tframe T (delete_fid c f).
Proof.
  intros HT. unfold delete_fid. apply tf_bind; [apply tf_kf, kf_gets|intros o]. destruct o; [|apply tf_kf, kf_ret].
  apply tf_bind; [|intros _; apply tf_kf, kf_dec_ref].
  intros w o0 w' E k Hk. inversion E; subst; cbn. apply tlookup_tdel_other. eapply keyb_false_of; eauto.
Qed.

(** the fids a request may bind or unbind *)
Definition touches (c : connid) (m : tmsg) (k : connid * fid) : bool :=
  (fst k =? c) &&
  match m with
  | Tclunk f | Tremove f | Tattach f _ _ _ _ | Tlcreate _ f _ _ _ _ => snd k =? f
  | Twalk _ nf _ | Twalkgetattr _ nf _ | Txattrwalk _ nf _ => snd k =? nf
  | _ => false
  end.
Lemma touches_self c m f : touches c m (c, f) = match m with
  | Tclunk f0 | Tremove f0 | Tattach f0 _ _ _ _ | Tlcreate _ f0 _ _ _ _ => f =? f0
  | Twalk _ nf _ | Twalkgetattr _ nf _ | Txattrwalk _ nf _ => f =? nf | _ => false end.
Proof. unfold touches; cbn. rewrite N.eqb_refl. destruct m; reflexivity. Qed.

Ltac tfk := apply tf_kf; kf.

Lemma tf_body c m r t : tframe (touches c m) (body c m r t).
Proof.
  unfold body, fail. apply tf_bind; [apply tf_kf, kf_gets|intros fr]. apply tf_bind; [apply tf_kf, kf_gets|intros tfr].
  destruct m; try (tfk; fail).
  - (* Twalk *) apply tf_bind; [apply tf_kf, kf_do_walk|intros w]. destruct w as [e|[[q nr] a]]; [tfk|].
    apply tf_with_defer; [apply tf_kf, kf_dec_ref_|]. apply tf_bind; [apply tf_insert_fid; rewrite touches_self; apply N.eqb_refl|intros _; tfk].
  - (* Twalkgetattr *) apply tf_bind; [apply tf_kf, kf_do_walk|intros w]. destruct w as [e|[[q nr] a]]; [tfk|].
    apply tf_with_defer; [apply tf_kf, kf_dec_ref_|]. apply tf_bind; [apply tf_insert_fid; rewrite touches_self; apply N.eqb_refl|intros _; tfk].
  - (* Tremove *) destruct (fr_parent fr); [|tfk]. apply tf_bind; [tfk|intros pfr]. apply tf_bind; [tfk|intros nm].
    apply tf_bind; [tfk|intros [v e]]. destruct (is_err e); [tfk|]. apply tf_bind; [apply tf_kf, kf_mark_child_deleted|intros _; tfk].
  - (* Tlcreate *) apply tf_bind; [tfk|intros [v e]]. destruct (is_err e); [tfk|].
    apply tf_bind; [tfk|intros h]. apply tf_bind; [tfk|intros node]. apply tf_bind; [tfk|intros nr]. apply tf_bind; [tfk|intros _].
    apply tf_bind; [tfk|intros _]. apply tf_bind; [apply tf_insert_fid; rewrite touches_self; apply N.eqb_refl|intros _; tfk].
  - (* Trenameat *) destruct (_ && _); [tfk|]. apply tf_bind; [tfk|intros [v e]]. destruct (is_err e); [tfk|].
    apply tf_bind; [apply tf_kf, kf_rename_child_to|intros _; tfk].
  - (* Tunlinkat *) apply tf_bind; [tfk|intros _]. apply tf_bind; [tfk|intros [v e]]. destruct (is_err e); [tfk|].
    apply tf_bind; [apply tf_kf, kf_mark_child_deleted|intros _; tfk].
  - (* Trename *) destruct (fr_parent fr); [|tfk]. apply tf_bind; [tfk|intros pfr]. apply tf_bind; [tfk|intros pdel]. destruct pdel; [tfk|].
    apply tf_bind; [tfk|intros old]. destruct (_ && _); [tfk|]. apply tf_bind; [tfk|intros [v e]]. destruct (is_err e); [tfk|].
    apply tf_bind; [apply tf_kf, kf_rename_child_to|intros _; tfk].
  - (* Txattrwalk *) apply tf_bind; [tfk|intros [len e]]. destruct (is_err e); [tfk|]. destruct (_ <? _); [tfk|].
    apply tf_bind; [tfk|intros nr]. apply tf_bind; [tfk|intros _]. apply tf_bind; [apply tf_insert_fid; rewrite touches_self; apply N.eqb_refl|intros _; tfk].
Qed.

Lemma tf_guarded c m k : tframe (touches c m) (guarded c m k).
Proof.
  unfold guarded, fail. destruct (negb _); [tfk|].
  apply tf_bind; [apply tf_kf, kf_lookup_fid|intros o]. destruct o as [r|]; [|tfk].
  apply tf_with_defer; [apply tf_kf, kf_dec_ref_|].
  assert (Hin : forall t, tframe (touches c m)
    (ms <- gets (fun s => alookup c (st_msize s)) ;; p <- gets (fun s => view_of s r) ;; tv <- gets (fun s => view_of s t) ;;
     x <- match first_failing (guards_of k) m ms p tv with Some (GE e) => ret (inl (eno e)) | Some GP => panic | None => body c m r t end ;;
     post c m x)%m).
  { intros t. apply tf_bind; [tfk|intros ms]. apply tf_bind; [tfk|intros p]. apply tf_bind; [tfk|intros tv].
    apply tf_bind.
    - destruct (first_failing _ _ _ _ _) as [[e|]|]; [tfk|tfk|apply tf_body].
    - intros x. unfold post. destruct m; try (tfk; fail).
      apply tf_bind; [apply tf_delete_fid; rewrite touches_self; apply N.eqb_refl|intros derr; tfk]. }
  destruct (fid2_of m); [|apply Hin].
  apply tf_bind; [apply tf_kf, kf_lookup_fid|intros o2]. destruct o2 as [t|]; [|tfk].
  apply tf_with_defer; [apply tf_kf, kf_dec_ref_|apply Hin].
Qed.

Lemma tf_handler c m : tframe (touches c m) (handler c m).
Proof.
  unfold handler. destruct m; try (tfk; fail); try (cbn [kind_of]; apply tf_bind; [apply tf_guarded|intros x; tfk]).
  - (* Tversion *) unfold h_version. destruct (tversion_handle msize ver) as [[mm v] st].
    apply tf_bind; [|intros _; tfk]. destruct st as [[ms ?]|]; tfk.
  - (* Tattach *) unfold h_attach. destruct (negb _); [tfk|].
    apply tf_bind; [tfk|intros [v e]]. destruct (is_err e); [tfk|]. apply tf_bind; [tfk|intros h]. apply tf_bind; [tfk|intros root].
    apply tf_with_defer; [apply tf_kf, kf_dec_ref_|].
    apply tf_bind; [tfk|intros [va ea]]. destruct (is_err ea); [tfk|]. destruct (negb _); [tfk|].
    apply tf_bind; [tfk|intros rfr]. apply tf_bind; [tfk|intros _].
    destruct (String.eqb _ _).
    + apply tf_bind; [apply tf_insert_fid; rewrite touches_self; apply N.eqb_refl|intros _; tfk].
    + apply tf_bind; [apply tf_kf, kf_do_walk|intros w]. destruct w as [e0|[[q nr] a]]; [tfk|].
      apply tf_with_defer; [apply tf_kf, kf_dec_ref_|]. apply tf_bind; [apply tf_insert_fid; rewrite touches_self; apply N.eqb_refl|intros _; tfk].
  - (* Tclunk *) unfold h_clunk. apply tf_bind.
    + unfold clunk_xattr. apply tf_bind; [apply tf_kf, kf_lookup_fid|intros o]. destruct o as [r|]; [|tfk].
      apply tf_with_defer; [apply tf_kf, kf_dec_ref_|]. tfk.
    + intros cerr. apply tf_bind; [apply tf_delete_fid; rewrite touches_self; apply N.eqb_refl|intros derr; tfk].
Qed.

Theorem other_fids_untouched s c m tape c' f' :
  touches c m (c', f') = false ->
  tlookup (c', f') (st_fids (fst (fst (fst (step s c m tape))))) = tlookup (c', f') (st_fids s).
Proof.
  intros HT. unfold step. destruct (handler c m (mkW s tape [])) as [o w] eqn:E.
  pose proof (tf_handler c m _ _ _ E (c', f') HT) as H. destruct o; exact H.
Qed.
