(** strings.Contains / strings.HasPrefix as named primitives for the TRANSLATED checkSafeName (gen/SafeNameGen.v).
    Hand models of the standard library (trusted): substring search by prefix test at every position. *)
From Coq Require Import String Ascii Bool.
From P9V Require Export Base.Str.
Open Scope string_scope.

Fixpoint go_has_prefix (s p : string) : bool :=
  match p, s with
  | EmptyString, _ => true
  | String a p', String b s' => Ascii.eqb a b && go_has_prefix s' p'
  | String _ _, EmptyString => false
  end.

Fixpoint go_contains (s sub : string) : bool :=
  go_has_prefix s sub || match s with EmptyString => false | String _ r => go_contains r sub end.
