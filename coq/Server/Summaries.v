(** The handler summaries the MODEL stands for, to be compared with the traces
    go2coq reads from the Go source (gen/HandlerGen.v): literal event traces
    (vocabulary: tools/go2coq/handlergen.go) in which every guard sequence is
    RENDERED FROM THE MODEL'S GUARD TABLE [guards_of] (Msg.v) -- a guard dropped,
    reordered or answered with another errno in the source, a name that is no
    longer checked, a lookup without deferred DecRef, a backend call with other
    arguments or outside its wrapper, a changed InsertFID/DeleteFID makes
    [handler_traces = model_traces] fail.  Plus the C09 table check: every
    string field of a T-message that is a path component is checked. *)
From Coq Require Import NArith List String Bool.
From P9V Require Import Base.Str gen.ConstGen gen.HandlerGen Server.Msg.
Import ListNotations.
Open Scope string_scope.

Definition errno_name (e : N) : string :=
  if N.eqb e linux_EINVAL then "EINVAL" else if N.eqb e linux_EISDIR then "EISDIR"
  else if N.eqb e linux_ENOBUFS then "ENOBUFS" else if N.eqb e linux_EPERM then "EPERM"
  else if N.eqb e linux_EBUSY then "EBUSY" else if N.eqb e linux_EBADF then "EBADF" else "?".

(** the Go condition each guard atom transcribes (inside the xattr switch the case is implied) *)
Definition atom_src (a : gatom) : string :=
  match a with
  | GDeleted => "ref.isDeleted()" | GNotDir => "!ref.mode.IsDir()" | GOpened => "ref.opened"
  | GNotOpened => "!ref.opened" | GTDeleted => "refTarget.isDeleted()" | GTNotDir => "!refTarget.mode.IsDir()"
  | GRoot => "ref.hasParent()" | GCantOpen => "!CanOpen(ref.mode)"
  | GDirNotRO => "ref.mode.IsDir() && t.Flags.Mode() != ReadOnly" | GNotSymlink => "!ref.mode.IsSymlink()"
  | GBusySame => "ref.opened && t.fid == t.newFID" | GCountBig => "int(t.Count) > int(maximumLength)"
  | GNoPool => "cs.readBufPool.Get().(*[]byte)"
  | GX0NotOpened => "!ref.opened" | GR0WriteOnly => "ref.openFlags&OpenFlagsModeMask == WriteOnly"
  | GR2Empty => "t.Count == 0 && ref.pendingXattr.size != 0"
  | GR2Range => "t.Offset > size || uint64(t.Count) > size-t.Offset"
  | GRBadOp => "default" | GW0ReadOnly => "ref.openFlags&OpenFlagsModeMask == ReadOnly"
  | GW1Off => "uint64(len(ref.pendingXattr.buf)) != t.Offset"
  | GW1Big => "t.Offset+uint64(len(t.Data)) > ref.pendingXattr.size" | GWBadOp => "default"
  end.

Fixpoint join_or (l : list string) : string :=
  match l with [] => "" | [x] => x | x :: r => x ++ " || " ++ join_or r end.

Definition render_guard (g : list gatom * gres) : list string :=
  match g with
  | ([GNoPool], GP) => ["pool-get"]
  | ([GR2Empty], GE e) => ["if:t.Count == 0"; "if:ref.pendingXattr.size == 0"; "return:nil"; "endif"; "return:" ++ errno_name e; "endif"]
  | ([GRBadOp], GE e) | ([GWBadOp], GE e) => ["return:" ++ errno_name e]
  | (atoms, GE e) => ["if:" ++ join_or (map atom_src atoms); "return:" ++ errno_name e; "endif"]
  | (atoms, GP) => ["if:" ++ join_or (map atom_src atoms); "panic"; "endif"]
  end.

(** the i-th guard of a handler kind, as trace events *)
Definition rg (k : hkind) (i : nat) : list string :=
  match nth_error (guards_of k) i with Some g => render_guard g | None => ["<no such guard>"] end.

Definition model_traces : list (string * list string) := [
  ("CanOpen",
     (["return:mode.IsRegular() || mode.IsDir() || mode.IsNamedPipe() || mode.IsBlockDevice() || mode.IsCharacterDevice()"])%list);
  ("checkSafeName",
     (["if:name != """" && !strings.Contains(name, ""/"") && name != ""."" && name != "".."""; "return:nil"; "endif"; "return:EINVAL"])%list);
  ("clunkHandleXattr",
     (["lookup:t.fid"; "if:!ok"; "return:EBADF"; "endif"; "defer:ref.DecRef"; "wrap:safelyRead:ref"; "if:ref.pendingXattr.op == xattrCreate"; "if:len(ref.pendingXattr.buf) != int(ref.pendingXattr.size)"; "return:EINVAL"; "endif"; "if:ref.pendingXattr.flags == XattrReplace && ref.pendingXattr.size == 0"; "call:ref.file.RemoveXattr(ref.pendingXattr.name)"; "return:ref.file.RemoveXattr(ref.pendingXattr.name)"; "endif"; "call:ref.file.SetXattr(ref.pendingXattr.name, ref.pendingXattr.buf, ref.pendingXattr.flags)"; "return:ref.file.SetXattr(ref.pendingXattr.name, ref.pendingXattr.buf, ref.pendingXattr.flags)"; "endif"; "return:nil"; "endwrap"; "if:err != nil"; "return:err"; "endif"; "return:nil"])%list);
  ("connState.DeleteFID",
     (["lock:cs.fidMu.Lock"; "if:ok"; "mapdelete:cs.fids, fid"; "endif"; "lock:cs.fidMu.Unlock"; "if:!ok"; "return:EBADF"; "endif"; "decref:fidRef"; "return:fidRef.DecRef()"])%list);
  ("connState.InsertFID",
     (["lock:cs.fidMu.Lock"; "incref:newRef"; "set:cs.fids[fid]"; "lock:cs.fidMu.Unlock"; "if:ok"; "decref:origRef"; "endif"])%list);
  ("connState.LookupFID",
     (["lock:cs.fidMu.Lock"; "defer:cs.fidMu.Unlock"; "if:ok"; "incref:fidRef"; "return:fidRef,true"; "endif"; "return:nil,false"])%list);
  ("connState.handle",
     (["defer:func"; "if:r == nil"; "recover"; "seterr:r:EFAULT"; "endif"; "enddefer"; "if:ok"; "delegate:handler.handle(cs)"; "else"; "seterr:r:ENOSYS"; "endif"; "return:"])%list);
  ("doWalk",
     (["for:range names"; "name:name"; "if:err != nil"; "return:"; "endif"; "endfor"; "if:len(names) == 0"; "if:ref.xattrOf != nil"; "return:nil,nil,AttrMask,Attr,EINVAL"; "endif"; "wrap:safelyRead:ref"; "delegate:walkOne(nil, ref.file, ref.pathNode, nil, getattr)"; "if:err != nil"; "return:err"; "endif"; "if:!ref.hasParent()"; "if:!newRef.isDeleted()"; "tree:ref.parent.pathNode.nameFor(ref)"; "tree:ref.parent.pathNode.addChild(newRef, ref.parent.pathNode.nameFor(ref))"; "endif"; "incref:ref.parent"; "endif"; "incref:newRef"; "return:nil"; "endwrap"; "if:err != nil"; "return:nil,nil,AttrMask,Attr,err"; "endif"; "return:nil,newRef,valid,attr,nil"; "endif"; "incref:walkRef"; "for:i < len(names)"; "if:!walkRef.mode.IsDir()"; "decref:walkRef"; "return:nil,nil,AttrMask,Attr,EINVAL"; "endif"; "wrap:safelyRead:walkRef"; "if:walkRef.isDeleted()"; "return:ENOENT"; "endif"; "delegate:walkOne(qids, walkRef.file, walkRef.pathNode, names[i : i+1], true)"; "if:err != nil"; "return:err"; "endif"; "tree:walkRef.pathNode.pathNodeFor(names[i])"; "tree:walkRef.pathNode.addChild(newRef, names[i])"; "incref:walkRef"; "return:nil"; "endwrap"; "if:err != nil"; "decref:walkRef"; "return:nil,nil,AttrMask,Attr,err"; "endif"; "endfor"; "return:qids,walkRef,valid,attr,nil"])%list);
  ("fidRef.DecRef",
     (["atomic:AddInt64(&f.refs, -1)"; "if:atomic.AddInt64(&f.refs, -1) == 0"; "if:f.xattrOf != nil"; "decref:f.xattrOf"; "else"; "call:f.file.Close()"; "endif"; "if:err != nil"; "endif"; "if:f.parent != nil"; "tree:f.parent.pathNode.removeChild(f)"; "decref:f.parent"; "if:pErr != nil"; "endif"; "endif"; "return:errors.Join(errs...)"; "endif"; "return:nil"])%list);
  ("fidRef.safelyGlobal",
     (["lock:f.server.renameMu.Lock"; "defer:f.server.renameMu.Unlock"; "return:fn()"])%list);
  ("fidRef.safelyRead",
     (["lock:f.server.renameMu.RLock"; "defer:f.server.renameMu.RUnlock"; "lock:f.pathNode.opMu.RLock"; "defer:f.pathNode.opMu.RUnlock"; "return:fn()"])%list);
  ("fidRef.safelyWrite",
     (["lock:f.server.renameMu.RLock"; "defer:f.server.renameMu.RUnlock"; "lock:f.pathNode.opMu.Lock"; "defer:f.pathNode.opMu.Unlock"; "return:fn()"])%list);
  ("tattach.handle",
     (["if:t.Auth.Authenticationfid != noFID"; "return:EINVAL"; "endif"; "if:path.IsAbs(t.Auth.AttachName)"; "set:t.Auth.AttachName"; "endif"; "call:attacher.Attach()"; "if:err != nil"; "return:err"; "endif"; "defer:root.DecRef"; "wrap:safelyRead:root"; "call:sf.GetAttr(AttrMaskAll)"; "return:err"; "endwrap"; "if:err != nil"; "return:err"; "endif"; "if:!valid.Mode"; "return:EINVAL"; "endif"; "set:root.mode"; "if:len(t.Auth.AttachName) == 0"; "insert:t.fid:root"; "return:&rattach"; "endif"; "delegate:doWalk(cs, root, names, false)"; "if:err != nil"; "return:err"; "endif"; "defer:newRef.DecRef"; "insert:t.fid:newRef"; "return:&rattach"])%list);
  ("tauth.handle",
     (["return:ENOSYS"])%list);
  ("tclunk.handle",
     (["delegate:clunkHandleXattr(cs, t)"; "delete:t.fid"; "if:err != nil"; "return:err"; "endif"; "if:cerr != nil"; "return:cerr"; "endif"; "return:&rclunk"])%list);
  ("tfsync.handle",
     (["lookup:t.fid"; "if:!ok"; "return:EBADF"; "endif"; "defer:ref.DecRef"; "wrap:safelyRead:ref"]
     ++ rg HFsync 0
     ++ ["call:ref.file.FSync()"; "return:ref.file.FSync()"; "endwrap"; "if:err != nil"; "return:err"; "endif"; "return:&rfsync"])%list);
  ("tgetattr.handle",
     (["lookup:t.fid"; "if:!ok"; "return:EBADF"; "endif"; "defer:ref.DecRef"; "wrap:safelyRead:ref"; "call:ref.file.GetAttr(t.AttrMask)"; "return:err"; "endwrap"; "if:err != nil"; "return:err"; "endif"; "return:&rgetattr"])%list);
  ("tlcreate.do",
     (["name:t.Name"; "if:err != nil"; "return:nil,err"; "endif"; "lookup:t.fid"; "if:!ok"; "return:nil,EBADF"; "endif"; "defer:ref.DecRef"; "wrap:safelyWrite:ref"]
     ++ rg HLcreate 0
     ++ rg HLcreate 1
     ++ ["call:ref.file.Create(t.Name, t.OpenFlags, t.Permissions, uid, t.GID)"; "if:err != nil"; "return:err"; "endif"; "tree:ref.pathNode.pathNodeFor(t.Name)"; "tree:ref.pathNode.addChild(newRef, t.Name)"; "incref:ref"; "return:nil"; "endwrap"; "if:err != nil"; "return:nil,err"; "endif"; "insert:t.fid:newRef"; "return:&rlcreate,nil"])%list);
  ("tlcreate.handle",
     (["delegate:t.do(cs, NoUID)"; "if:err != nil"; "return:err"; "endif"; "return:rlcreate"])%list);
  ("tlink.handle",
     (["name:t.Name"; "if:err != nil"; "return:err"; "endif"; "lookup:t.Directory"; "if:!ok"; "return:EBADF"; "endif"; "defer:ref.DecRef"; "lookup:t.Target"; "if:!ok"; "return:EBADF"; "endif"; "defer:refTarget.DecRef"; "wrap:safelyWrite:ref"]
     ++ rg HLink 0
     ++ rg HLink 1
     ++ ["call:ref.file.Link(refTarget.file, t.Name)"; "return:ref.file.Link(refTarget.file, t.Name)"; "endwrap"; "if:err != nil"; "return:err"; "endif"; "return:&rlink"])%list);
  ("tlock.handle",
     (["lookup:t.fid"; "if:!ok"; "return:EBADF"; "endif"; "defer:ref.DecRef"; "call:ref.file.Lock(int(t.PID), t.Type, t.Flags, t.Start, t.Length, t.Client)"; "if:err != nil"; "return:err"; "endif"; "return:&rlock"])%list);
  ("tlopen.handle",
     (["lookup:t.fid"; "if:!ok"; "return:EBADF"; "endif"; "defer:ref.DecRef"; "lock:ref.openMu.Lock"; "defer:ref.openMu.Unlock"; "wrap:safelyRead:ref"]
     ++ rg HLopen 0
     ++ rg HLopen 1
     ++ rg HLopen 2
     ++ ["call:ref.file.Open(t.Flags)"; "if:err != nil"; "return:err"; "endif"; "set:ref.opened"; "set:ref.openFlags"; "return:nil"; "endwrap"; "if:err != nil"; "return:err"; "endif"; "return:&rlopen"])%list);
  ("tmkdir.do",
     (["name:t.Name"; "if:err != nil"; "return:nil,err"; "endif"; "lookup:t.Directory"; "if:!ok"; "return:nil,EBADF"; "endif"; "defer:ref.DecRef"; "wrap:safelyWrite:ref"]
     ++ rg HMkdir 0
     ++ rg HMkdir 1
     ++ ["call:ref.file.Mkdir(t.Name, t.Permissions, uid, t.GID)"; "return:err"; "endwrap"; "if:err != nil"; "return:nil,err"; "endif"; "return:&rmkdir,nil"])%list);
  ("tmkdir.handle",
     (["delegate:t.do(cs, NoUID)"; "if:err != nil"; "return:err"; "endif"; "return:rmkdir"])%list);
  ("tmknod.do",
     (["name:t.Name"; "if:err != nil"; "return:nil,err"; "endif"; "lookup:t.Directory"; "if:!ok"; "return:nil,EBADF"; "endif"; "defer:ref.DecRef"; "wrap:safelyWrite:ref"]
     ++ rg HMknod 0
     ++ rg HMknod 1
     ++ ["call:ref.file.Mknod(t.Name, t.Mode, t.Major, t.Minor, uid, t.GID)"; "return:err"; "endwrap"; "if:err != nil"; "return:nil,err"; "endif"; "return:&rmknod,nil"])%list);
  ("tmknod.handle",
     (["delegate:t.do(cs, NoUID)"; "if:err != nil"; "return:err"; "endif"; "return:rmknod"])%list);
  ("tread.handle",
     (["lookup:t.fid"; "if:!ok"; "return:EBADF"; "endif"; "defer:ref.DecRef"]
     ++ rg HRead 0
     ++ ["if:count > max"; "endif"]
     ++ rg HRead 1
     ++ ["wrap:safelyRead:ref"; "switch:ref.pendingXattr.op"; "case:xattrNone"]
     ++ rg HRead 2
     ++ rg HRead 3
     ++ ["call:ref.file.ReadAt(dataBuf[:count], int64(t.Offset))"; "return:err"; "case:xattrWalk"]
     ++ rg HRead 4
     ++ rg HRead 5
     ++ ["return:nil"; "default"]
     ++ rg HRead 6
     ++ ["endswitch"; "endwrap"; "if:err != nil && !errors.Is(err, io.EOF)"; "return:err"; "endif"; "return:&rreadServerPayloader"])%list);
  ("treaddir.handle",
     (["lookup:t.Directory"; "if:!ok"; "return:EBADF"; "endif"; "defer:ref.DecRef"; "wrap:safelyRead:ref"]
     ++ rg HReaddir 0
     ++ rg HReaddir 1
     ++ ["call:ref.file.Readdir(t.Offset, t.Count)"; "if:err != nil && !errors.Is(err, io.EOF)"; "return:err"; "endif"; "return:nil"; "endwrap"; "if:err != nil"; "return:err"; "endif"; "if:count > max"; "endif"; "return:&rreaddir"])%list);
  ("treadlink.handle",
     (["lookup:t.fid"; "if:!ok"; "return:EBADF"; "endif"; "defer:ref.DecRef"; "wrap:safelyRead:ref"]
     ++ rg HReadlink 0
     ++ ["call:ref.file.Readlink()"; "return:err"; "endwrap"; "if:err != nil"; "return:err"; "endif"; "return:&rreadlink"])%list);
  ("tremove.handle",
     (["lookup:t.fid"; "if:!ok"; "return:EBADF"; "endif"; "defer:ref.DecRef"; "wrap:safelyGlobal:ref"]
     ++ rg HRemove 0
     ++ rg HRemove 1
     ++ ["tree:ref.parent.pathNode.nameFor(ref)"; "call:ref.parent.file.UnlinkAt(name, 0)"; "if:err != nil"; "return:err"; "endif"; "tree:ref.parent.markChildDeleted(name)"; "return:nil"; "endwrap"; "delete:t.fid"; "if:fidErr != nil"; "return:err"; "endif"; "if:err != nil"; "return:err"; "endif"; "return:&rremove"])%list);
  ("trename.handle",
     (["name:t.Name"; "if:err != nil"; "return:err"; "endif"; "lookup:t.fid"; "if:!ok"; "return:EBADF"; "endif"; "defer:ref.DecRef"; "lookup:t.Directory"; "if:!ok"; "return:EBADF"; "endif"; "defer:refTarget.DecRef"; "wrap:safelyGlobal:ref"]
     ++ rg HRename 0
     ++ rg HRename 1
     ++ ["if:ref.parent.isDeleted()"; "panic"; "endif"; "tree:ref.parent.pathNode.nameFor(ref)"; "if:ref.parent.pathNode == refTarget.pathNode && oldName == t.Name"; "return:nil"; "endif"; "call:ref.parent.file.RenameAt(oldName, refTarget.file, t.Name)"; "if:err != nil"; "return:err"; "endif"; "tree:ref.parent.renameChildTo(oldName, refTarget, t.Name)"; "return:nil"; "endwrap"; "if:err != nil"; "return:err"; "endif"; "return:&rrename"])%list);
  ("trenameat.handle",
     (["name:t.OldName"; "if:err != nil"; "return:err"; "endif"; "name:t.NewName"; "if:err != nil"; "return:err"; "endif"; "lookup:t.OldDirectory"; "if:!ok"; "return:EBADF"; "endif"; "defer:ref.DecRef"; "lookup:t.NewDirectory"; "if:!ok"; "return:EBADF"; "endif"; "defer:refTarget.DecRef"; "wrap:safelyGlobal:ref"]
     ++ rg HRenameat 0
     ++ rg HRenameat 1
     ++ ["if:ref.pathNode == refTarget.pathNode && t.OldName == t.NewName"; "return:nil"; "endif"; "call:ref.file.RenameAt(t.OldName, refTarget.file, t.NewName)"; "if:err != nil"; "return:err"; "endif"; "tree:ref.renameChildTo(t.OldName, refTarget, t.NewName)"; "return:nil"; "endwrap"; "if:err != nil"; "return:err"; "endif"; "return:&rrenameat"])%list);
  ("tsetattr.handle",
     (["lookup:t.fid"; "if:!ok"; "return:EBADF"; "endif"; "defer:ref.DecRef"; "wrap:safelyWrite:ref"]
     ++ rg HSetattr 0
     ++ ["call:ref.file.SetAttr(t.Valid, t.SetAttr)"; "return:ref.file.SetAttr(t.Valid, t.SetAttr)"; "endwrap"; "if:err != nil"; "return:err"; "endif"; "return:&rsetattr"])%list);
  ("tstatfs.handle",
     (["lookup:t.fid"; "if:!ok"; "return:EBADF"; "endif"; "defer:ref.DecRef"; "call:ref.file.StatFS()"; "if:err != nil"; "return:err"; "endif"; "return:&rstatfs"])%list);
  ("tsymlink.do",
     (["name:t.Name"; "if:err != nil"; "return:nil,err"; "endif"; "lookup:t.Directory"; "if:!ok"; "return:nil,EBADF"; "endif"; "defer:ref.DecRef"; "wrap:safelyWrite:ref"]
     ++ rg HSymlink 0
     ++ rg HSymlink 1
     ++ ["call:ref.file.Symlink(t.Target, t.Name, uid, t.GID)"; "return:err"; "endwrap"; "if:err != nil"; "return:nil,err"; "endif"; "return:&rsymlink,nil"])%list);
  ("tsymlink.handle",
     (["delegate:t.do(cs, NoUID)"; "if:err != nil"; "return:err"; "endif"; "return:rsymlink"])%list);
  ("tucreate.handle",
     (["delegate:t.tlcreate.do(cs, t.UID)"; "if:err != nil"; "return:err"; "endif"; "return:&rucreate"])%list);
  ("tumkdir.handle",
     (["delegate:t.tmkdir.do(cs, t.UID)"; "if:err != nil"; "return:err"; "endif"; "return:&rumkdir"])%list);
  ("tumknod.handle",
     (["delegate:t.tmknod.do(cs, t.UID)"; "if:err != nil"; "return:err"; "endif"; "return:&rumknod"])%list);
  ("tunlinkat.handle",
     (["name:t.Name"; "if:err != nil"; "return:err"; "endif"; "lookup:t.Directory"; "if:!ok"; "return:EBADF"; "endif"; "defer:ref.DecRef"; "wrap:safelyWrite:ref"]
     ++ rg HUnlinkat 0
     ++ rg HUnlinkat 1
     ++ ["tree:ref.pathNode.pathNodeFor(t.Name)"; "lock:childPathNode.opMu.Lock"; "defer:childPathNode.opMu.Unlock"; "call:ref.file.UnlinkAt(t.Name, t.Flags)"; "if:err != nil"; "return:err"; "endif"; "tree:ref.markChildDeleted(t.Name)"; "return:nil"; "endwrap"; "if:err != nil"; "return:err"; "endif"; "return:&runlinkat"])%list);
  ("tusymlink.handle",
     (["delegate:t.tsymlink.do(cs, t.UID)"; "if:err != nil"; "return:err"; "endif"; "return:&rusymlink"])%list);
  ("twalk.handle",
     (["lookup:t.fid"; "if:!ok"; "return:EBADF"; "endif"; "defer:ref.DecRef"; "wrap:safelyRead:ref"]
     ++ rg HWalk 0
     ++ ["return:nil"; "endwrap"; "if:err != nil"; "return:err"; "endif"; "delegate:doWalk(cs, ref, t.Names, false)"; "if:err != nil"; "return:err"; "endif"; "defer:newRef.DecRef"; "insert:t.newFID:newRef"; "return:&rwalk"])%list);
  ("twalkgetattr.handle",
     (["lookup:t.fid"; "if:!ok"; "return:EBADF"; "endif"; "defer:ref.DecRef"; "wrap:safelyRead:ref"]
     ++ rg HWalkgetattr 0
     ++ ["return:nil"; "endwrap"; "if:err != nil"; "return:err"; "endif"; "delegate:doWalk(cs, ref, t.Names, true)"; "if:err != nil"; "return:err"; "endif"; "defer:newRef.DecRef"; "insert:t.newFID:newRef"; "return:&rwalkgetattr"])%list);
  ("twrite.handle",
     (["lookup:t.fid"; "if:!ok"; "return:EBADF"; "endif"; "defer:ref.DecRef"; "wrap:safelyRead:ref"; "switch:ref.pendingXattr.op"; "case:xattrNone"]
     ++ rg HWrite 0
     ++ rg HWrite 1
     ++ ["call:ref.file.WriteAt(t.Data, int64(t.Offset))"; "case:xattrCreate"]
     ++ rg HWrite 2
     ++ rg HWrite 3
     ++ ["set:ref.pendingXattr.buf"; "default"]
     ++ rg HWrite 4
     ++ ["endswitch"; "return:err"; "endwrap"; "if:err != nil"; "return:err"; "endif"; "return:&rwrite"])%list);
  ("txattrcreate.handle",
     (["lookup:t.fid"; "if:!ok"; "return:EBADF"; "endif"; "defer:ref.DecRef"; "wrap:safelyWrite:ref"]
     ++ rg HXattrcreate 0
     ++ ["set:ref.pendingXattr"; "return:nil"; "endwrap"; "if:err != nil"; "return:err"; "endif"; "return:&rxattrcreate"])%list);
  ("txattrwalk.handle",
     (["lookup:t.fid"; "if:!ok"; "return:EBADF"; "endif"; "defer:ref.DecRef"; "wrap:safelyRead:ref"]
     ++ rg HXattrwalk 0
     ++ ["if:len(t.Name) > 0"; "call:ref.file.GetXattr(t.Name)"; "else"; "call:ref.file.ListXattrs()"; "if:err == nil"; "endif"; "endif"; "if:err != nil"; "return:err"; "endif"; "if:uint32(len(buf)) > maximumLength"; "return:EINVAL"; "endif"; "incref:ref"; "insert:t.newFID:newRef"; "return:nil"; "endwrap"; "if:err != nil"; "return:err"; "endif"; "return:&rxattrwalk"])%list);
  ("walkOne",
     (["if:nwname > 1"; "return:nil,nil,AttrMask,Attr,EINVAL"; "endif"; "switch:"; "case:getattr"; "call:from.WalkGetAttr(names)"; "if:!errors.Is(err, linux.ENOSYS)"; "branch:break"; "endif"; "branch:fallthrough"; "default"; "call:from.Walk(names)"; "if:err != nil"; "branch:break"; "endif"; "if:getattr"; "if:nwname == 1"; "tree:fromNode.pathNodeFor(names[0])"; "block{"; "lock:childNode.opMu.RLock"; "defer:childNode.opMu.RUnlock"; "call:sf.GetAttr(AttrMaskAll)"; "}block"; "else"; "call:sf.GetAttr(AttrMaskAll)"; "endif"; "if:err != nil"; "call:sf.Close()"; "endif"; "endif"; "endswitch"; "if:err != nil"; "return:nil,nil,AttrMask,Attr,err"; "endif"; "if:nwname == 1 && len(localQIDs) != 1"; "call:sf.Close()"; "return:nil,nil,AttrMask,Attr,EINVAL"; "endif"; "return:append(qids, localQIDs...),sf,valid,attr,nil"])%list)
].

(** ---- checks on the generated tables ---- *)
Definition starts (p s : string) : bool := String.eqb (substring 0 (String.length p) s) p.
Definition has (x : string) (l : list string) : bool := existsb (String.eqb x) l.
Definition trace_of (fn : string) : list string :=
  match find (fun e => String.eqb (fst e) fn) handler_traces with Some e => snd e | None => [] end.

(** no checkSafeName after a LookupFID *)
Fixpoint names_first (seen_lookup : bool) (l : list string) : bool :=
  match l with
  | [] => true
  | e :: r => if starts "lookup:" e then names_first true r
              else if starts "name:" e then negb seen_lookup && names_first seen_lookup r
              else names_first seen_lookup r
  end.

(** every LookupFID is followed by: if !ok { return EBADF } ; defer <ref>.DecRef() *)
Fixpoint lookups_deferred (l : list string) : bool :=
  match l with
  | [] => true
  | e :: r =>
      (if starts "lookup:" e then
         match r with
         | "if:!ok" :: ret :: "endif" :: d :: _ =>
             (String.eqb ret "return:EBADF" || String.eqb ret "return:nil,EBADF")
             && (String.eqb d "defer:ref.DecRef" || String.eqb d "defer:refTarget.DecRef")
         | _ => false
         end
       else true) && lookups_deferred r
  end.

(** every backend call of a handler that takes a wrapper happens inside it (tlock/tstatfs/tattach's Attach have none) *)
Fixpoint calls_inside (inside : bool) (l : list string) : bool :=
  match l with
  | [] => true
  | e :: r => if starts "wrap:" e then calls_inside true r
              else if String.eqb e "endwrap" then calls_inside false r
              else if starts "call:" e then
                (inside || starts "call:ref.file.Lock(" e || starts "call:ref.file.StatFS(" e || String.eqb e "call:attacher.Attach()"
                 || String.eqb e "call:sf.Close()" || starts "call:from." e || starts "call:sf.GetAttr(" e || String.eqb e "call:f.file.Close()")
                && calls_inside inside r
              else calls_inside inside r
  end.


Fixpoint index_dot (s : string) : nat :=
  match s with
  | EmptyString => 0
  | String a r => if Ascii.eqb a "."%char then 0 else S (index_dot r)
  end.

(** C09: string fields of T-messages that are NOT path components *)
Definition not_a_component : list (string * string) :=
  [("tversion", "Version"); ("tauth", "UserName"); ("tauth", "AttachName"); ("tattach", "Auth.UserName");
   ("tsymlink", "Target"); ("tusymlink", "tsymlink.Target"); ("txattrwalk", "Name"); ("txattrcreate", "Name"); ("tlock", "Client")].

Definition pairb (a b : string * string) : bool := String.eqb (fst a) (fst b) && String.eqb (snd a) (snd b).

(** is field [f] of message [m] passed to checkSafeName (directly, in the embedded message's do, or component-wise by doWalk)? *)
Definition field_checked (m f : string) : bool :=
  let direct fn fld := has ("name:t." ++ fld) (trace_of fn) && names_first false (trace_of fn) in
  let walk_checks := match trace_of "doWalk" with
                     | "for:range names" :: "name:name" :: "if:err != nil" :: "return:" :: "endif" :: "endfor" :: _ => true
                     | _ => false
                     end in
  if existsb (pairb (m, f)) not_a_component then true
  else if String.eqb f "Names" then
    walk_checks && (has "delegate:doWalk(cs, ref, t.Names, false)" (trace_of (m ++ ".handle"))
                    || has "delegate:doWalk(cs, ref, t.Names, true)" (trace_of (m ++ ".handle")))
  else if String.eqb m "tattach" && String.eqb f "Auth.AttachName" then
    walk_checks && has "delegate:doWalk(cs, root, names, false)" (trace_of "tattach.handle")
  else if starts "t" f && negb (String.eqb (substring 0 2 f) "t.") && Nat.ltb 0 (index_dot f) then
    (* embedded message: tucreate.tlcreate.Name is checked by tlcreate.do, which tucreate.handle calls *)
    let emb := substring 0 (index_dot f) f in
    let fld := substring (S (index_dot f)) (String.length f) f in
    direct (emb ++ ".do") fld && existsb (starts ("delegate:t." ++ emb ++ ".do(")) (trace_of (m ++ ".handle"))
  else
    direct (m ++ ".handle") f
    || (direct (m ++ ".do") f && has "delegate:t.do(cs, NoUID)" (trace_of (m ++ ".handle"))).

Definition all_fields_checked : bool :=
  forallb (fun e => forallb (field_checked (fst e)) (snd e)) tmsg_string_fields.

(** ---- C15: every lock of the request path is released by defer, or no call that may fail sits
    between Lock and Unlock.  The table go2coq reads from handlers.go / path_tree.go / server.go must
    be this one; connState.handleRequest's receive/send locks are C06's (listed, not judged here). ---- *)
Definition lock_sites_expected : list (string * string * string) := [
  ("connState.ClearTag", "cs.tagMu.Lock", "deferred");
  ("connState.DeleteFID", "cs.fidMu.Lock", "explicit");
  ("connState.InsertFID", "cs.fidMu.Lock", "explicit-with-calls:newRef.IncRef");
  ("connState.LookupFID", "cs.fidMu.Lock", "deferred");
  ("connState.StartTag", "cs.tagMu.Lock", "deferred");
  ("connState.TagDone", "cs.tagMu.Lock", "deferred");
  ("connState.handleRequest", "cs.sendMu.Lock", "explicit-with-calls:send");
  ("connState.handleRequest", "cs.sendMu.Lock", "explicit-with-calls:send,newErr");
  ("connState.handleRequest", "cs.recvMu.Lock", "explicit-with-calls:atomic.AddInt32,atomic.LoadUint32,recv,cs.server.log.Printf,cs.StartTag,cs.TagDone,atomic.LoadInt32,cs.pendingWg.Add,func-literal,cs.pendingWg.Done,cs.handleRequests");
  ("fidRef.safelyGlobal", "f.server.renameMu.Lock", "deferred");
  ("fidRef.safelyRead", "f.server.renameMu.RLock", "deferred");
  ("fidRef.safelyRead", "f.pathNode.opMu.RLock", "deferred");
  ("fidRef.safelyWrite", "f.server.renameMu.RLock", "deferred");
  ("fidRef.safelyWrite", "f.pathNode.opMu.Lock", "deferred");
  ("pathNode.addChild", "p.childMu.Lock", "explicit-with-calls:p.addChildLocked");
  ("pathNode.addPathNodeFor", "p.childMu.Lock", "explicit");
  ("pathNode.forEachChildNode", "p.childMu.RLock", "deferred");
  ("pathNode.forEachChildRef", "p.childMu.RLock", "deferred");
  ("pathNode.nameFor", "p.childMu.RLock", "explicit");
  ("pathNode.pathNodeFor", "p.childMu.Lock", "explicit-with-calls:newPathNode");
  ("pathNode.pathNodeFor", "p.childMu.RLock", "explicit");
  ("pathNode.removeChild", "p.childMu.Lock", "explicit");
  ("pathNode.removeWithName", "p.childMu.Lock", "deferred");
  ("tlopen.handle", "ref.openMu.Lock", "deferred");
  ("tunlinkat.handle", "childPathNode.opMu.Lock", "deferred");
  ("walkOne", "childNode.opMu.RLock", "deferred")
].


(** callees tolerated between an explicit Lock and Unlock: an atomic add, a map allocation, and
    addChildLocked (panics only on a fidRef registered twice, excluded by the path-tree invariant of C08) *)
Definition tolerated_under_lock : list string := ["newRef.IncRef"; "newPathNode"; "p.addChildLocked"].

Definition release_ok (fn rel : string) : bool :=
  String.eqb fn "connState.handleRequest" || String.eqb rel "deferred" || String.eqb rel "explicit"
  || existsb (fun c => String.eqb rel ("explicit-with-calls:" ++ c)) tolerated_under_lock.

Definition locks_released : bool := forallb (fun e => release_ok (fst (fst e)) (snd e)) lock_sites.
