(** The handler summaries the MODEL stands for, to be compared with the traces
    go2coq reads from the Go source (gen/HandlerGen.v): literal event traces
    (vocabulary: tools/go2coq/handlergen.go) in which every guard sequence is
    RENDERED FROM THE MODEL'S GUARD TABLE [guards_of] (Msg.v) -- a guard dropped,
    reordered or answered with another errno in the source, a name that is no
    longer checked, a lookup without deferred DecRef, a backend call with other
    arguments or outside its wrapper, a changed InsertFID/DeleteFID makes
    [handler_traces_alpha = model_traces] fail.  The literal parts are a hand-reviewed transcript
    (regenerated from a reviewed source by tools/go2coq/regen_summaries.py); only the guards are derived from the model.  Plus the C09 table check: every
    string field of a T-message that is a path component is checked. *)
From Coq Require Import NArith List String Bool.
From P9V Require Import Base.Str gen.ConstGen gen.HandlerGen Server.Msg.
Import ListNotations.
Open Scope string_scope.

Definition errno_name (e : N) : string :=
  if N.eqb e linux_EINVAL then "EINVAL" else if N.eqb e linux_EISDIR then "EISDIR"
  else if N.eqb e linux_ENOBUFS then "ENOBUFS" else if N.eqb e linux_EPERM then "EPERM"
  else if N.eqb e linux_EBUSY then "EBUSY" else if N.eqb e linux_EBADF then "EBADF" else "?".

(** The traces compared are the ALPHA-normalised ones ([handler_traces_alpha]: every local identifier of a
    function printed positionally, _v0 = receiver, _v1 = first parameter, ... in declaration order), so a
    rename of a local variable in the Go source changes nothing here.  [N t cs ref tgt size]: the positional
    names of the receiver message, the connState, the first / second looked-up fidRef and tread's [size]. *)
Record names := N { n_t : string; n_cs : string; n_ref : string; n_tgt : string; n_size : string }.

(** the Go condition each guard atom transcribes (inside the xattr switch the case is implied) *)
Definition atom_src (n : names) (a : gatom) : string :=
  let ref := n_ref n in let tgt := n_tgt n in let t := n_t n in let size := n_size n in
  match a with
  | GDeleted => ref ++ ".isDeleted()" | GNotDir => "!" ++ ref ++ ".mode.IsDir()" | GOpened => ref ++ ".opened"
  | GNotOpened => "!" ++ ref ++ ".opened" | GTDeleted => tgt ++ ".isDeleted()" | GTNotDir => "!" ++ tgt ++ ".mode.IsDir()"
  | GRoot => ref ++ ".hasParent()" | GCantOpen => "!CanOpen(" ++ ref ++ ".mode)"
  | GDirNotRO => ref ++ ".mode.IsDir() && " ++ t ++ ".Flags.Mode() != ReadOnly" | GNotSymlink => "!" ++ ref ++ ".mode.IsSymlink()"
  | GBusySame => ref ++ ".opened && " ++ t ++ ".fid == " ++ t ++ ".newFID" | GCountBig => "int(" ++ t ++ ".Count) > int(maximumLength)"
  | GNoPool => n_cs n ++ ".readBufPool.Get().(*[]byte)"
  | GX0NotOpened => "!" ++ ref ++ ".opened" | GR0WriteOnly => ref ++ ".openFlags&OpenFlagsModeMask == WriteOnly"
  | GR2Empty => t ++ ".Count == 0 && " ++ ref ++ ".pendingXattr.size != 0"
  | GR2Range => t ++ ".Offset > " ++ size ++ " || uint64(" ++ t ++ ".Count) > " ++ size ++ "-" ++ t ++ ".Offset"
  | GRBadOp => "default" | GW0ReadOnly => ref ++ ".openFlags&OpenFlagsModeMask == ReadOnly"
  | GW1Off => "uint64(len(" ++ ref ++ ".pendingXattr.buf)) != " ++ t ++ ".Offset"
  | GW1Big => t ++ ".Offset+uint64(len(" ++ t ++ ".Data)) > " ++ ref ++ ".pendingXattr.size" | GWBadOp => "default"
  end.

Fixpoint join_or (l : list string) : string :=
  match l with [] => "" | [x] => x | x :: r => x ++ " || " ++ join_or r end.

Definition render_guard (n : names) (g : list gatom * gres) : list string :=
  match g with
  | ([GNoPool], GP) => ["pool-get"]
  | ([GR2Empty], GE e) => ["if:" ++ n_t n ++ ".Count == 0"; "if:" ++ n_ref n ++ ".pendingXattr.size == 0"; "return:nil"; "endif"; "return:" ++ errno_name e; "endif"]
  | ([GRBadOp], GE e) | ([GWBadOp], GE e) => ["return:" ++ errno_name e]
  | (atoms, GE e) => ["if:" ++ join_or (map (atom_src n) atoms); "return:" ++ errno_name e; "endif"]
  | (atoms, GP) => ["if:" ++ join_or (map (atom_src n) atoms); "panic"; "endif"]
  end.

(** the i-th guard of a handler kind, as trace events *)
Definition rg (n : names) (k : hkind) (i : nat) : list string :=
  match nth_error (guards_of k) i with Some g => render_guard n g | None => ["<no such guard>"] end.

Definition model_traces : list (string * list string) := [
  ("CanOpen",
     (["return:_v0.IsRegular() || _v0.IsDir() || _v0.IsNamedPipe() || _v0.IsBlockDevice() || _v0.IsCharacterDevice()"])%list);
  ("checkSafeName",
     (["if:_v0 != """" && !strings.Contains(_v0, ""/"") && _v0 != ""."" && _v0 != "".."""; "return:nil"; "endif"; "return:EINVAL"])%list);
  ("clunkHandleXattr",
     (["lookup:_v1.fid=>_v2"; "if:!_v3"; "return:EBADF"; "endif"; "defer:_v2.DecRef"; "wrap:safelyRead:_v2"; "if:_v2.pendingXattr.op == xattrCreate"; "if:len(_v2.pendingXattr.buf) != int(_v2.pendingXattr.size)"; "return:EINVAL"; "endif"; "if:_v2.pendingXattr.flags == XattrReplace && _v2.pendingXattr.size == 0"; "call:_v2.file.RemoveXattr(_v2.pendingXattr.name)"; "return:_v2.file.RemoveXattr(_v2.pendingXattr.name)"; "endif"; "call:_v2.file.SetXattr(_v2.pendingXattr.name, _v2.pendingXattr.buf, _v2.pendingXattr.flags)"; "return:_v2.file.SetXattr(_v2.pendingXattr.name, _v2.pendingXattr.buf, _v2.pendingXattr.flags)"; "endif"; "return:nil"; "endwrap"; "if:_v4 != nil"; "return:err"; "endif"; "return:nil"])%list);
  ("connState.DeleteFID",
     (["lock:_v0.fidMu.Lock"; "if:_v3"; "mapdelete:_v0.fids, _v1"; "endif"; "lock:_v0.fidMu.Unlock"; "if:!_v3"; "return:EBADF"; "endif"; "decref:_v2"; "return:_v2.DecRef()"])%list);
  ("connState.InsertFID",
     (["lock:_v0.fidMu.Lock"; "incref:_v2"; "set:_v0.fids[_v1]"; "lock:_v0.fidMu.Unlock"; "if:_v4"; "decref:_v3"; "endif"])%list);
  ("connState.LookupFID",
     (["lock:_v0.fidMu.Lock"; "defer:_v0.fidMu.Unlock"; "if:_v3"; "incref:_v2"; "return:_v2,true"; "endif"; "return:nil,false"])%list);
  ("connState.handle",
     (["defer:func"; "if:_v2 == nil"; "recover"; "seterr:_v2:EFAULT"; "endif"; "enddefer"; "if:_v5"; "delegate:_v4.handle(_v0)"; "else"; "seterr:_v2:ENOSYS"; "endif"; "return:"])%list);
  ("doWalk",
     (["for:range _v2"; "name:_v9"; "if:_v8 != nil"; "return:"; "endif"; "endfor"; "if:len(_v2) == 0"; "if:_v1.xattrOf != nil"; "return:nil,nil,AttrMask,Attr,EINVAL"; "endif"; "wrap:safelyRead:_v1"; "delegate:walkOne(nil, _v1.file, _v1.pathNode, nil, _v3)"; "if:_v8 != nil"; "return:_v8"; "endif"; "if:!_v1.hasParent()"; "if:!_v5.isDeleted()"; "tree:_v1.parent.pathNode.nameFor(_v1)"; "tree:_v1.parent.pathNode.addChild(_v5, _v1.parent.pathNode.nameFor(_v1))"; "endif"; "incref:_v1.parent"; "endif"; "incref:_v5"; "return:nil"; "endwrap"; "if:_v8 != nil"; "return:nil,nil,AttrMask,Attr,_v8"; "endif"; "return:nil,_v5,_v6,_v7,nil"; "endif"; "incref:_v11"; "for:_v12 < len(_v2)"; "if:!_v11.mode.IsDir()"; "decref:_v11"; "return:nil,nil,AttrMask,Attr,EINVAL"; "endif"; "wrap:safelyRead:_v11"; "if:_v11.isDeleted()"; "return:ENOENT"; "endif"; "delegate:walkOne(_v4, _v11.file, _v11.pathNode, _v2[_v12 : _v12+1], true)"; "if:_v8 != nil"; "return:_v8"; "endif"; "tree:_v11.pathNode.pathNodeFor(_v2[_v12])"; "tree:_v11.pathNode.addChild(_v5, _v2[_v12])"; "incref:_v11"; "return:nil"; "endwrap"; "if:_v8 != nil"; "decref:_v11"; "return:nil,nil,AttrMask,Attr,_v8"; "endif"; "endfor"; "return:_v4,_v11,_v6,_v7,nil"])%list);
  ("fidRef.DecRef",
     (["atomic:AddInt64(&_v0.refs, -1)"; "if:atomic.AddInt64(&_v0.refs, -1) == 0"; "if:_v0.xattrOf != nil"; "decref:_v0.xattrOf"; "else"; "call:_v0.file.Close()"; "endif"; "if:_v2 != nil"; "endif"; "if:_v0.parent != nil"; "tree:_v0.parent.pathNode.removeChild(_v0)"; "decref:_v0.parent"; "if:_v3 != nil"; "endif"; "endif"; "return:errors.Join(_v1...)"; "endif"; "return:nil"])%list);
  ("fidRef.safelyGlobal",
     (["lock:_v0.server.renameMu.Lock"; "defer:_v0.server.renameMu.Unlock"; "return:_v1()"])%list);
  ("fidRef.safelyRead",
     (["lock:_v0.server.renameMu.RLock"; "defer:_v0.server.renameMu.RUnlock"; "lock:_v0.pathNode.opMu.RLock"; "defer:_v0.pathNode.opMu.RUnlock"; "return:_v1()"])%list);
  ("fidRef.safelyWrite",
     (["lock:_v0.server.renameMu.RLock"; "defer:_v0.server.renameMu.RUnlock"; "lock:_v0.pathNode.opMu.Lock"; "defer:_v0.pathNode.opMu.Unlock"; "return:_v1()"])%list);
  ("tattach.handle",
     (["if:_v0.Auth.Authenticationfid != noFID"; "return:EINVAL"; "endif"; "if:path.IsAbs(_v0.Auth.AttachName)"; "set:_v0.Auth.AttachName"; "endif"; "call:attacher.Attach()"; "if:_v3 != nil"; "return:err"; "endif"; "defer:_v4.DecRef"; "wrap:safelyRead:_v4"; "call:<_v2>.GetAttr(AttrMaskAll)"; "return:_v3"; "endwrap"; "if:_v3 != nil"; "return:err"; "endif"; "if:!_v6.Mode"; "return:EINVAL"; "endif"; "set:_v4.mode"; "if:len(_v0.Auth.AttachName) == 0"; "insert:_v0.fid:_v4"; "return:&rattach"; "endif"; "delegate:doWalk(_v1, _v4, _v8, false)"; "if:_v3 != nil"; "return:err"; "endif"; "defer:_v9.DecRef"; "insert:_v0.fid:_v9"; "return:&rattach"])%list);
  ("tauth.handle",
     (["return:ENOSYS"])%list);
  ("tclunk.handle",
     (["delegate:clunkHandleXattr(_v1, _v0)"; "delete:_v0.fid"; "if:_v3 != nil"; "return:err"; "endif"; "if:_v2 != nil"; "return:_v2"; "endif"; "return:&rclunk"])%list);
  ("tfsync.handle",
     (["lookup:_v0.fid=>_v2"; "if:!_v3"; "return:EBADF"; "endif"; "defer:_v2.DecRef"; "wrap:safelyRead:_v2"]
     ++ rg (N "" "" "_v2" "" "") HFsync 0
     ++ ["call:_v2.file.FSync()"; "return:_v2.file.FSync()"; "endwrap"; "if:_v4 != nil"; "return:err"; "endif"; "return:&rfsync"])%list);
  ("tgetattr.handle",
     (["lookup:_v0.fid=>_v2"; "if:!_v3"; "return:EBADF"; "endif"; "defer:_v2.DecRef"; "wrap:safelyRead:_v2"; "call:_v2.file.GetAttr(_v0.AttrMask)"; "return:_v7"; "endwrap"; "if:_v7 != nil"; "return:err"; "endif"; "return:&rgetattr"])%list);
  ("tlcreate.do",
     (["name:_v0.Name"; "if:_v3 != nil"; "return:nil,_v3"; "endif"; "lookup:_v0.fid=>_v4"; "if:!_v5"; "return:nil,EBADF"; "endif"; "defer:_v4.DecRef"; "wrap:safelyWrite:_v4"]
     ++ rg (N "_v0" "" "_v4" "" "") HLcreate 0
     ++ rg (N "_v0" "" "_v4" "" "") HLcreate 1
     ++ ["call:_v4.file.Create(_v0.Name, _v0.OpenFlags, _v0.Permissions, _v2, _v0.GID)"; "if:_v3 != nil"; "return:_v3"; "endif"; "tree:_v4.pathNode.pathNodeFor(_v0.Name)"; "tree:_v4.pathNode.addChild(_v9, _v0.Name)"; "incref:_v4"; "return:nil"; "endwrap"; "if:_v3 != nil"; "return:nil,_v3"; "endif"; "insert:_v0.fid:_v9"; "return:&rlcreate,nil"])%list);
  ("tlcreate.handle",
     (["delegate:_v0.do(_v1, NoUID)"; "if:_v3 != nil"; "return:err"; "endif"; "return:_v2"])%list);
  ("tlink.handle",
     (["name:_v0.Name"; "if:_v2 != nil"; "return:err"; "endif"; "lookup:_v0.Directory=>_v3"; "if:!_v4"; "return:EBADF"; "endif"; "defer:_v3.DecRef"; "lookup:_v0.Target=>_v5"; "if:!_v4"; "return:EBADF"; "endif"; "defer:_v5.DecRef"; "wrap:safelyWrite:_v3"]
     ++ rg (N "_v0" "" "_v3" "_v5" "") HLink 0
     ++ rg (N "_v0" "" "_v3" "_v5" "") HLink 1
     ++ ["call:_v3.file.Link(_v5.file, _v0.Name)"; "return:_v3.file.Link(_v5.file, _v0.Name)"; "endwrap"; "if:_v2 != nil"; "return:err"; "endif"; "return:&rlink"])%list);
  ("tlock.handle",
     (["lookup:_v0.fid=>_v2"; "if:!_v3"; "return:EBADF"; "endif"; "defer:_v2.DecRef"; "call:_v2.file.Lock(int(_v0.PID), _v0.Type, _v0.Flags, _v0.Start, _v0.Length, _v0.Client)"; "if:_v5 != nil"; "return:err"; "endif"; "return:&rlock"])%list);
  ("tlopen.handle",
     (["lookup:_v0.fid=>_v2"; "if:!_v3"; "return:EBADF"; "endif"; "defer:_v2.DecRef"; "lock:_v2.openMu.Lock"; "defer:_v2.openMu.Unlock"; "wrap:safelyRead:_v2"]
     ++ rg (N "_v0" "" "_v2" "" "") HLopen 0
     ++ rg (N "_v0" "" "_v2" "" "") HLopen 1
     ++ rg (N "_v0" "" "_v2" "" "") HLopen 2
     ++ ["call:_v2.file.Open(_v0.Flags)"; "if:_v6 != nil"; "return:_v6"; "endif"; "set:_v2.opened"; "set:_v2.openFlags"; "return:nil"; "endwrap"; "if:_v6 != nil"; "return:err"; "endif"; "return:&rlopen"])%list);
  ("tmkdir.do",
     (["name:_v0.Name"; "if:_v3 != nil"; "return:nil,_v3"; "endif"; "lookup:_v0.Directory=>_v4"; "if:!_v5"; "return:nil,EBADF"; "endif"; "defer:_v4.DecRef"; "wrap:safelyWrite:_v4"]
     ++ rg (N "_v0" "" "_v4" "" "") HMkdir 0
     ++ rg (N "_v0" "" "_v4" "" "") HMkdir 1
     ++ ["call:_v4.file.Mkdir(_v0.Name, _v0.Permissions, _v2, _v0.GID)"; "return:_v3"; "endwrap"; "if:_v3 != nil"; "return:nil,_v3"; "endif"; "return:&rmkdir,nil"])%list);
  ("tmkdir.handle",
     (["delegate:_v0.do(_v1, NoUID)"; "if:_v3 != nil"; "return:err"; "endif"; "return:_v2"])%list);
  ("tmknod.do",
     (["name:_v0.Name"; "if:_v3 != nil"; "return:nil,_v3"; "endif"; "lookup:_v0.Directory=>_v4"; "if:!_v5"; "return:nil,EBADF"; "endif"; "defer:_v4.DecRef"; "wrap:safelyWrite:_v4"]
     ++ rg (N "_v0" "" "_v4" "" "") HMknod 0
     ++ rg (N "_v0" "" "_v4" "" "") HMknod 1
     ++ ["call:_v4.file.Mknod(_v0.Name, _v0.Mode, _v0.Major, _v0.Minor, _v2, _v0.GID)"; "return:_v3"; "endwrap"; "if:_v3 != nil"; "return:nil,_v3"; "endif"; "return:&rmknod,nil"])%list);
  ("tmknod.handle",
     (["delegate:_v0.do(_v1, NoUID)"; "if:_v3 != nil"; "return:err"; "endif"; "return:_v2"])%list);
  ("tread.handle",
     (["lookup:_v0.fid=>_v2"; "if:!_v3"; "return:EBADF"; "endif"; "defer:_v2.DecRef"]
     ++ rg (N "_v0" "" "_v2" "" "_v10") HRead 0
     ++ ["if:_v4 > _v5"; "endif"]
     ++ rg (N "_v0" "" "_v2" "" "_v10") HRead 1
     ++ ["wrap:safelyRead:_v2"; "switch:_v2.pendingXattr.op"; "case:xattrNone"]
     ++ rg (N "_v0" "" "_v2" "" "_v10") HRead 2
     ++ rg (N "_v0" "" "_v2" "" "_v10") HRead 3
     ++ ["call:_v2.file.ReadAt(_v8[:_v4], int64(_v0.Offset))"; "return:_v9"; "case:xattrWalk"]
     ++ rg (N "_v0" "" "_v2" "" "_v10") HRead 4
     ++ rg (N "_v0" "" "_v2" "" "_v10") HRead 5
     ++ ["return:nil"; "default"]
     ++ rg (N "_v0" "" "_v2" "" "_v10") HRead 6
     ++ ["endswitch"; "endwrap"; "if:_v9 != nil && !errors.Is(_v9, io.EOF)"; "return:err"; "endif"; "return:&rreadServerPayloader"])%list);
  ("treaddir.handle",
     (["lookup:_v0.Directory=>_v2"; "if:!_v3"; "return:EBADF"; "endif"; "defer:_v2.DecRef"; "wrap:safelyRead:_v2"]
     ++ rg (N "_v0" "" "_v2" "" "") HReaddir 0
     ++ rg (N "_v0" "" "_v2" "" "") HReaddir 1
     ++ ["call:_v2.file.Readdir(_v0.Offset, _v0.Count)"; "if:_v5 != nil && !errors.Is(_v5, io.EOF)"; "return:_v5"; "endif"; "return:nil"; "endwrap"; "if:_v5 != nil"; "return:err"; "endif"; "if:_v6 > _v7"; "endif"; "return:&rreaddir"])%list);
  ("treadlink.handle",
     (["lookup:_v0.fid=>_v2"; "if:!_v3"; "return:EBADF"; "endif"; "defer:_v2.DecRef"; "wrap:safelyRead:_v2"]
     ++ rg (N "" "" "_v2" "" "") HReadlink 0
     ++ ["call:_v2.file.Readlink()"; "return:_v5"; "endwrap"; "if:_v5 != nil"; "return:err"; "endif"; "return:&rreadlink"])%list);
  ("tremove.handle",
     (["lookup:_v0.fid=>_v2"; "if:!_v3"; "return:EBADF"; "endif"; "defer:_v2.DecRef"; "wrap:safelyGlobal:_v2"]
     ++ rg (N "_v0" "" "_v2" "" "") HRemove 0
     ++ rg (N "_v0" "" "_v2" "" "") HRemove 1
     ++ ["tree:_v2.parent.pathNode.nameFor(_v2)"; "call:_v2.parent.file.UnlinkAt(_v5, 0)"; "if:_v4 != nil"; "return:_v4"; "endif"; "tree:_v2.parent.markChildDeleted(_v5)"; "return:nil"; "endwrap"; "delete:_v0.fid"; "if:_v6 != nil"; "return:err"; "endif"; "if:_v4 != nil"; "return:err"; "endif"; "return:&rremove"])%list);
  ("trename.handle",
     (["name:_v0.Name"; "if:_v2 != nil"; "return:err"; "endif"; "lookup:_v0.fid=>_v3"; "if:!_v4"; "return:EBADF"; "endif"; "defer:_v3.DecRef"; "lookup:_v0.Directory=>_v5"; "if:!_v4"; "return:EBADF"; "endif"; "defer:_v5.DecRef"; "wrap:safelyGlobal:_v3"]
     ++ rg (N "_v0" "" "_v3" "_v5" "") HRename 0
     ++ rg (N "_v0" "" "_v3" "_v5" "") HRename 1
     ++ ["if:_v3.parent.isDeleted()"; "panic"; "endif"; "tree:_v3.parent.pathNode.nameFor(_v3)"; "if:_v3.parent.pathNode == _v5.pathNode && _v6 == _v0.Name"; "return:nil"; "endif"; "call:_v3.parent.file.RenameAt(_v6, _v5.file, _v0.Name)"; "if:_v2 != nil"; "return:_v2"; "endif"; "tree:_v3.parent.renameChildTo(_v6, _v5, _v0.Name)"; "return:nil"; "endwrap"; "if:_v2 != nil"; "return:err"; "endif"; "return:&rrename"])%list);
  ("trenameat.handle",
     (["name:_v0.OldName"; "if:_v2 != nil"; "return:err"; "endif"; "name:_v0.NewName"; "if:_v2 != nil"; "return:err"; "endif"; "lookup:_v0.OldDirectory=>_v3"; "if:!_v4"; "return:EBADF"; "endif"; "defer:_v3.DecRef"; "lookup:_v0.NewDirectory=>_v5"; "if:!_v4"; "return:EBADF"; "endif"; "defer:_v5.DecRef"; "wrap:safelyGlobal:_v3"]
     ++ rg (N "_v0" "" "_v3" "_v5" "") HRenameat 0
     ++ rg (N "_v0" "" "_v3" "_v5" "") HRenameat 1
     ++ ["if:_v3.pathNode == _v5.pathNode && _v0.OldName == _v0.NewName"; "return:nil"; "endif"; "call:_v3.file.RenameAt(_v0.OldName, _v5.file, _v0.NewName)"; "if:_v2 != nil"; "return:_v2"; "endif"; "tree:_v3.renameChildTo(_v0.OldName, _v5, _v0.NewName)"; "return:nil"; "endwrap"; "if:_v2 != nil"; "return:err"; "endif"; "return:&rrenameat"])%list);
  ("tsetattr.handle",
     (["lookup:_v0.fid=>_v2"; "if:!_v3"; "return:EBADF"; "endif"; "defer:_v2.DecRef"; "wrap:safelyWrite:_v2"]
     ++ rg (N "_v0" "" "_v2" "" "") HSetattr 0
     ++ ["call:_v2.file.SetAttr(_v0.Valid, _v0.SetAttr)"; "return:_v2.file.SetAttr(_v0.Valid, _v0.SetAttr)"; "endwrap"; "if:_v4 != nil"; "return:err"; "endif"; "return:&rsetattr"])%list);
  ("tstatfs.handle",
     (["lookup:_v0.fid=>_v2"; "if:!_v3"; "return:EBADF"; "endif"; "defer:_v2.DecRef"; "call:_v2.file.StatFS()"; "if:_v5 != nil"; "return:err"; "endif"; "return:&rstatfs"])%list);
  ("tsymlink.do",
     (["name:_v0.Name"; "if:_v3 != nil"; "return:nil,_v3"; "endif"; "lookup:_v0.Directory=>_v4"; "if:!_v5"; "return:nil,EBADF"; "endif"; "defer:_v4.DecRef"; "wrap:safelyWrite:_v4"]
     ++ rg (N "_v0" "" "_v4" "" "") HSymlink 0
     ++ rg (N "_v0" "" "_v4" "" "") HSymlink 1
     ++ ["call:_v4.file.Symlink(_v0.Target, _v0.Name, _v2, _v0.GID)"; "return:_v3"; "endwrap"; "if:_v3 != nil"; "return:nil,_v3"; "endif"; "return:&rsymlink,nil"])%list);
  ("tsymlink.handle",
     (["delegate:_v0.do(_v1, NoUID)"; "if:_v3 != nil"; "return:err"; "endif"; "return:_v2"])%list);
  ("tucreate.handle",
     (["delegate:_v0.tlcreate.do(_v1, _v0.UID)"; "if:_v3 != nil"; "return:err"; "endif"; "return:&rucreate"])%list);
  ("tumkdir.handle",
     (["delegate:_v0.tmkdir.do(_v1, _v0.UID)"; "if:_v3 != nil"; "return:err"; "endif"; "return:&rumkdir"])%list);
  ("tumknod.handle",
     (["delegate:_v0.tmknod.do(_v1, _v0.UID)"; "if:_v3 != nil"; "return:err"; "endif"; "return:&rumknod"])%list);
  ("tunlinkat.handle",
     (["name:_v0.Name"; "if:_v2 != nil"; "return:err"; "endif"; "lookup:_v0.Directory=>_v3"; "if:!_v4"; "return:EBADF"; "endif"; "defer:_v3.DecRef"; "wrap:safelyWrite:_v3"]
     ++ rg (N "_v0" "" "_v3" "" "") HUnlinkat 0
     ++ rg (N "_v0" "" "_v3" "" "") HUnlinkat 1
     ++ ["tree:_v3.pathNode.pathNodeFor(_v0.Name)"; "lock:_v5.opMu.Lock"; "defer:_v5.opMu.Unlock"; "call:_v3.file.UnlinkAt(_v0.Name, _v0.Flags)"; "if:_v2 != nil"; "return:_v2"; "endif"; "tree:_v3.markChildDeleted(_v0.Name)"; "return:nil"; "endwrap"; "if:_v2 != nil"; "return:err"; "endif"; "return:&runlinkat"])%list);
  ("tusymlink.handle",
     (["delegate:_v0.tsymlink.do(_v1, _v0.UID)"; "if:_v3 != nil"; "return:err"; "endif"; "return:&rusymlink"])%list);
  ("twalk.handle",
     (["lookup:_v0.fid=>_v2"; "if:!_v3"; "return:EBADF"; "endif"; "defer:_v2.DecRef"; "wrap:safelyRead:_v2"]
     ++ rg (N "_v0" "_v1" "_v2" "" "") HWalk 0
     ++ ["return:nil"; "endwrap"; "if:_v4 != nil"; "return:err"; "endif"; "delegate:doWalk(_v1, _v2, _v0.Names, false)"; "if:_v4 != nil"; "return:err"; "endif"; "defer:_v6.DecRef"; "insert:_v0.newFID:_v6"; "return:&rwalk"])%list);
  ("twalkgetattr.handle",
     (["lookup:_v0.fid=>_v2"; "if:!_v3"; "return:EBADF"; "endif"; "defer:_v2.DecRef"; "wrap:safelyRead:_v2"]
     ++ rg (N "_v0" "_v1" "_v2" "" "") HWalkgetattr 0
     ++ ["return:nil"; "endwrap"; "if:_v4 != nil"; "return:err"; "endif"; "delegate:doWalk(_v1, _v2, _v0.Names, true)"; "if:_v4 != nil"; "return:err"; "endif"; "defer:_v6.DecRef"; "insert:_v0.newFID:_v6"; "return:&rwalkgetattr"])%list);
  ("twrite.handle",
     (["lookup:_v0.fid=>_v2"; "if:!_v3"; "return:EBADF"; "endif"; "defer:_v2.DecRef"; "wrap:safelyRead:_v2"; "switch:_v2.pendingXattr.op"; "case:xattrNone"]
     ++ rg (N "_v0" "" "_v2" "" "") HWrite 0
     ++ rg (N "_v0" "" "_v2" "" "") HWrite 1
     ++ ["call:_v2.file.WriteAt(_v0.Data, int64(_v0.Offset))"; "case:xattrCreate"]
     ++ rg (N "_v0" "" "_v2" "" "") HWrite 2
     ++ rg (N "_v0" "" "_v2" "" "") HWrite 3
     ++ ["set:_v2.pendingXattr.buf"; "default"]
     ++ rg (N "_v0" "" "_v2" "" "") HWrite 4
     ++ ["endswitch"; "return:_v5"; "endwrap"; "if:_v5 != nil"; "return:err"; "endif"; "return:&rwrite"])%list);
  ("txattrcreate.handle",
     (["lookup:_v0.fid=>_v2"; "if:!_v3"; "return:EBADF"; "endif"; "defer:_v2.DecRef"; "wrap:safelyWrite:_v2"]
     ++ rg (N "" "" "_v2" "" "") HXattrcreate 0
     ++ ["set:_v2.pendingXattr"; "return:nil"; "endwrap"; "if:_v4 != nil"; "return:err"; "endif"; "return:&rxattrcreate"])%list);
  ("txattrwalk.handle",
     (["lookup:_v0.fid=>_v2"; "if:!_v3"; "return:EBADF"; "endif"; "defer:_v2.DecRef"; "wrap:safelyRead:_v2"]
     ++ rg (N "_v0" "" "_v2" "" "") HXattrwalk 0
     ++ ["if:len(_v0.Name) > 0"; "call:_v2.file.GetXattr(_v0.Name)"; "else"; "call:_v2.file.ListXattrs()"; "if:_v5 == nil"; "endif"; "endif"; "if:_v5 != nil"; "return:_v5"; "endif"; "if:uint32(len(_v6)) > maximumLength"; "return:EINVAL"; "endif"; "incref:_v2"; "insert:_v0.newFID:_v8"; "return:nil"; "endwrap"; "if:_v5 != nil"; "return:err"; "endif"; "return:&rxattrwalk"])%list);
  ("walkOne",
     (["if:_v5 > 1"; "return:nil,nil,AttrMask,Attr,EINVAL"; "endif"; "switch:"; "case:_v4"; "call:<_v1>.WalkGetAttr(_v3)"; "if:!errors.Is(_v10, linux.ENOSYS)"; "branch:break"; "endif"; "branch:fallthrough"; "default"; "call:<_v1>.Walk(_v3)"; "if:_v10 != nil"; "branch:break"; "endif"; "if:_v4"; "if:_v5 == 1"; "tree:_v2.pathNodeFor(_v3[0])"; "block{"; "lock:_v11.opMu.RLock"; "defer:_v11.opMu.RUnlock"; "call:<_v7>.GetAttr(AttrMaskAll)"; "}block"; "else"; "call:<_v7>.GetAttr(AttrMaskAll)"; "endif"; "if:_v10 != nil"; "call:<_v7>.Close()"; "endif"; "endif"; "endswitch"; "if:_v10 != nil"; "return:nil,nil,AttrMask,Attr,_v10"; "endif"; "if:_v5 == 1 && len(_v6) != 1"; "call:<_v7>.Close()"; "return:nil,nil,AttrMask,Attr,EINVAL"; "endif"; "return:append(_v0, _v6...),_v7,_v8,_v9,nil"])%list)
].

(** ---- checks on the generated tables ---- *)
Definition starts (p s : string) : bool := String.eqb (substring 0 (String.length p) s) p.
Definition has (x : string) (l : list string) : bool := existsb (String.eqb x) l.
Definition trace_of (fn : string) : list string :=
  match find (fun e => String.eqb (fst e) fn) handler_traces_alpha with Some e => snd e | None => [] end.

(** no checkSafeName after a LookupFID *)
Fixpoint names_first (seen_lookup : bool) (l : list string) : bool :=
  match l with
  | [] => true
  | e :: r => if starts "lookup:" e then names_first true r
              else if starts "name:" e then negb seen_lookup && names_first seen_lookup r
              else names_first seen_lookup r
  end.

(** substring helpers *)
Fixpoint has_infix (p s : string) : bool :=
  starts p s || match s with EmptyString => false | String _ r => has_infix p r end.
(** "lookup:<fid>=><var>" -> <var> *)
Fixpoint after_arrow (s : string) : string :=
  match s with
  | EmptyString => EmptyString
  | String a r => if starts "=>" s then substring 2 (String.length s) s else after_arrow r
  end.

(** every LookupFID is followed by: if !ok { return EBADF } ; defer <the looked-up variable>.DecRef() *)
Fixpoint lookups_deferred (l : list string) : bool :=
  match l with
  | [] => true
  | e :: r =>
      (if starts "lookup:" e then
         match r with
         | ifnok :: ret :: "endif" :: d :: _ =>
             starts "if:!" ifnok
             && (String.eqb ret "return:EBADF" || String.eqb ret "return:nil,EBADF")
             && negb (String.eqb (after_arrow e) "") && String.eqb d ("defer:" ++ after_arrow e ++ ".DecRef")
         | _ => false
         end
       else true) && lookups_deferred r
  end.

(** every backend call of a handler that takes a wrapper happens inside it (tlock/tstatfs/tattach's Attach have none) *)
Fixpoint calls_inside (inside : bool) (l : list string) : bool :=
  match l with
  | [] => true
  | e :: r => if starts "wrap:" e then calls_inside true r
              else if String.eqb e "endwrap" then calls_inside false r
              else if starts "call:" e then
                (inside || has_infix ".file.Lock(" e || has_infix ".file.StatFS(" e || String.eqb e "call:attacher.Attach()"
                 || starts "call:<" e (* a File held in a local: walkOne's from / sf, tattach's sf *)
                 || String.eqb e "call:_v0.file.Close()" (* fidRef.DecRef *))
                && calls_inside inside r
              else calls_inside inside r
  end.


Fixpoint index_dot (s : string) : nat :=
  match s with
  | EmptyString => 0
  | String a r => if Ascii.eqb a "."%char then 0 else S (index_dot r)
  end.

(** C09: string fields of T-messages that are NOT path components *)
Definition not_a_component : list (string * string) :=
  [("tversion", "Version"); ("tauth", "UserName"); ("tauth", "AttachName"); ("tattach", "Auth.UserName");
   ("tsymlink", "Target"); ("tusymlink", "tsymlink.Target"); ("txattrwalk", "Name"); ("txattrcreate", "Name"); ("tlock", "Client")].

Definition pairb (a b : string * string) : bool := String.eqb (fst a) (fst b) && String.eqb (snd a) (snd b).

(** is field [f] of message [m] passed to checkSafeName (directly, in the embedded message's do, or component-wise by doWalk)? *)
Definition field_checked (m f : string) : bool :=
  let direct fn fld := has ("name:_v0." ++ fld) (trace_of fn) && names_first false (trace_of fn) in
  let walk_checks := match trace_of "doWalk" with
                     | "for:range _v2" :: "name:_v9" :: "if:_v8 != nil" :: "return:" :: "endif" :: "endfor" :: _ => true
                     | _ => false
                     end in
  if existsb (pairb (m, f)) not_a_component then true
  else if String.eqb f "Names" then
    walk_checks && (has "delegate:doWalk(_v1, _v2, _v0.Names, false)" (trace_of (m ++ ".handle"))
                    || has "delegate:doWalk(_v1, _v2, _v0.Names, true)" (trace_of (m ++ ".handle")))
  else if String.eqb m "tattach" && String.eqb f "Auth.AttachName" then
    walk_checks && has "delegate:doWalk(_v1, _v4, _v8, false)" (trace_of "tattach.handle")
  else if starts "t" f && negb (String.eqb (substring 0 2 f) "t.") && Nat.ltb 0 (index_dot f) then
    (* embedded message: tucreate.tlcreate.Name is checked by tlcreate.do, which tucreate.handle calls *)
    let emb := substring 0 (index_dot f) f in
    let fld := substring (S (index_dot f)) (String.length f) f in
    direct (emb ++ ".do") fld && existsb (starts ("delegate:_v0." ++ emb ++ ".do(")) (trace_of (m ++ ".handle"))
  else
    direct (m ++ ".handle") f
    || (direct (m ++ ".do") f && has "delegate:_v0.do(_v1, NoUID)" (trace_of (m ++ ".handle"))).

Definition all_fields_checked : bool :=
  forallb (fun e => forallb (field_checked (fst e)) (snd e)) tmsg_string_fields.

(** ---- C15: every lock of the request path is released by defer, or no call that may fail sits
    between Lock and Unlock.  The table go2coq reads from handlers.go / path_tree.go / server.go must
    be this one; connState.handleRequest's receive/send locks are C06's (listed, not judged here). ---- *)
Definition lock_sites_expected : list (string * string * string) := [
  ("connState.ClearTag", "_v0.tagMu.Lock", "deferred");
  ("connState.DeleteFID", "_v0.fidMu.Lock", "explicit");
  ("connState.InsertFID", "_v0.fidMu.Lock", "explicit-with-calls:_v2.IncRef");
  ("connState.LookupFID", "_v0.fidMu.Lock", "deferred");
  ("connState.StartTag", "_v0.tagMu.Lock", "deferred");
  ("connState.TagDone", "_v0.tagMu.Lock", "deferred");
  ("connState.handleRequest", "_v0.sendMu.Lock", "explicit-with-calls:send");
  ("connState.handleRequest", "_v0.sendMu.Lock", "explicit-with-calls:send,newErr");
  ("connState.handleRequest", "_v0.recvMu.Lock", "explicit-with-calls:atomic.AddInt32,recvFrame,_v0.server.log.Printf,_v0.StartTag,_v0.TagDone,atomic.LoadInt32,_v0.pendingWg.Add,func-literal,_v0.pendingWg.Done,_v0.handleRequests");
  ("fidRef.safelyGlobal", "_v0.server.renameMu.Lock", "deferred");
  ("fidRef.safelyRead", "_v0.server.renameMu.RLock", "deferred");
  ("fidRef.safelyRead", "_v0.pathNode.opMu.RLock", "deferred");
  ("fidRef.safelyWrite", "_v0.server.renameMu.RLock", "deferred");
  ("fidRef.safelyWrite", "_v0.pathNode.opMu.Lock", "deferred");
  ("pathNode.addChild", "_v0.childMu.Lock", "explicit-with-calls:_v0.addChildLocked");
  ("pathNode.addPathNodeFor", "_v0.childMu.Lock", "explicit");
  ("pathNode.forEachChildNode", "_v0.childMu.RLock", "deferred");
  ("pathNode.forEachChildRef", "_v0.childMu.RLock", "deferred");
  ("pathNode.nameFor", "_v0.childMu.RLock", "explicit");
  ("pathNode.pathNodeFor", "_v0.childMu.Lock", "explicit-with-calls:newPathNode");
  ("pathNode.pathNodeFor", "_v0.childMu.RLock", "explicit");
  ("pathNode.removeChild", "_v0.childMu.Lock", "explicit");
  ("pathNode.removeWithName", "_v0.childMu.Lock", "deferred");
  ("tlopen.handle", "_v2.openMu.Lock", "deferred");
  ("tunlinkat.handle", "_v5.opMu.Lock", "deferred");
  ("walkOne", "_v11.opMu.RLock", "deferred")
].


(** callees tolerated between an explicit Lock and Unlock: an atomic add, a map allocation, and
    addChildLocked (panics only on a fidRef registered twice, excluded by the path-tree invariant of C08) *)
Definition tolerated_under_lock : list string := ["_v2.IncRef" (* InsertFID: newRef.IncRef *); "newPathNode"; "_v0.addChildLocked"].

Definition release_ok (fn rel : string) : bool :=
  String.eqb fn "connState.handleRequest" || String.eqb rel "deferred" || String.eqb rel "explicit"
  || existsb (fun c => String.eqb rel ("explicit-with-calls:" ++ c)) tolerated_under_lock.

Definition locks_released : bool := forallb (fun e => release_ok (fst (fst e)) (snd e)) lock_sites_alpha.

(** ---- C04, requests in flight together: the premise of Server/OpenPar.v, read from the source
    semantically (no local names, no statement text): in tlopen.handle the lock of the fidRef's openMu and
    its deferred unlock come BEFORE the first test that reads the fidRef's [opened] field, which comes
    before the File.Open call. ---- *)
Fixpoint has_sub (p s : string) : bool :=
  prefix p s || match s with String _ r => has_sub p r | EmptyString => false end.
Fixpoint first_idx (f : string -> bool) (l : list string) (i : nat) : option nat :=
  match l with [] => None | x :: r => if f x then Some i else first_idx f r (S i) end.
Definition trace_in (fn : string) (t : list (string * list string)) : list string :=
  match find (fun e => String.eqb (fst e) fn) t with Some e => snd e | None => [] end.
Definition tlopen_lock_first_in (t : list (string * list string)) : bool :=
  let tr := trace_in "tlopen.handle" t in
  match first_idx (fun e => prefix "lock:" e && has_sub ".openMu.Lock" e) tr 0,
        first_idx (fun e => prefix "defer:" e && has_sub ".openMu.Unlock" e) tr 0,
        first_idx (fun e => prefix "if:" e && has_sub ".opened" e) tr 0,
        first_idx (fun e => prefix "call:" e && has_sub ".file.Open(" e) tr 0 with
  | Some a, Some b, Some c, Some d => Nat.ltb a b && Nat.ltb b c && Nat.ltb c d
  | _, _, _, _ => false
  end.
