(** C09 (history form): every Walk/WalkGetAttr call that carries a name has as receiver
    the File of an allocated fidRef whose recorded type is a directory. *)
From Coq Require Import NArith ZArith List String Ascii Bool Lia.
From P9V Require Import Base.Str gen.ConstGen Fs.Version Server.State Server.Msg Server.Handlers Server.NameProofs.
Import ListNotations.
Open Scope N_scope.

Definition named_walk (c : bcall) : bool :=
  is_walk c && negb (match bc_names c with [] => true | _ => false end).
Definition dirfile (s : sstate) (h : handle) : Prop :=
  exists r, r < st_next_ref s /\ fr_file (get_ref s r) = h /\ is_dir (fr_mode (get_ref s r)) = true.
Definition refs_below (s : sstate) : Prop := Forall (fun kv => fst kv < st_next_ref s) (st_refs s).

(** no directory above the allocation mark (weaker than refs_below, preserved blindly) *)
Definition above (s : sstate) : Prop :=
  forall r, st_next_ref s <= r -> is_dir (fr_mode (get_ref s r)) = false.
Definition keeps (s s' : sstate) : Prop :=
  st_next_ref s <= st_next_ref s' /\
  forall r, r < st_next_ref s -> is_dir (fr_mode (get_ref s r)) = true ->
    fr_file (get_ref s' r) = fr_file (get_ref s r) /\ is_dir (fr_mode (get_ref s' r)) = true.
Definition logok (s : sstate) (l : list (bcall * answer)) : Prop :=
  Forall (fun ca => named_walk (fst ca) = true -> dirfile s (bc_h (fst ca))) l.
Definition dinv (w : world) : Prop := above (w_st w) /\ logok (w_st w) (w_log w).

Lemma is_dir_0 : is_dir 0 = false.
Proof. reflexivity. Qed.

Lemma refs_below_above s : refs_below s -> above s.
Proof.
  intros H r Hr. unfold get_ref.
  destruct (alookup r (st_refs s)) eqn:E; [|reflexivity].
  apply alookup_In in E. unfold refs_below in H. rewrite Forall_forall in H. apply H in E. cbn in E. lia.
Qed.

Lemma keeps_refl s : keeps s s.
Proof. split; [lia|auto]. Qed.
Lemma keeps_trans s1 s2 s3 : keeps s1 s2 -> keeps s2 s3 -> keeps s1 s3.
Proof.
  intros [A1 B1] [A2 B2]. split; [lia|]. intros r Hr Hd.
  destruct (B1 r Hr Hd) as [F1 D1]. destruct (B2 r ltac:(lia) D1) as [F2 D2]. split; [congruence|exact D2].
Qed.
Lemma dirfile_keeps s s' h : dirfile s h -> keeps s s' -> dirfile s' h.
Proof.
  intros (r & Hr & Hf & Hd) [A B]. destruct (B r Hr Hd) as [F D].
  exists r. split; [lia|split; [congruence|exact D]].
Qed.
Lemma logok_keeps s s' l : logok s l -> keeps s s' -> logok s' l.
Proof.
  intros H K. unfold logok in *. eapply Forall_impl; [|exact H].
  intros ca Hc Hn. eapply dirfile_keeps; eauto.
Qed.

(** association lists *)
Lemma al_same {A} k (v : A) l : alookup k (aset k v l) = Some v.
Proof.
  induction l as [|[k' v'] l IH]; cbn; [now rewrite N.eqb_refl|].
  destruct (N.eqb_spec k k') as [->|Hne]; cbn; [now rewrite N.eqb_refl|].
  destruct (N.eqb_spec k k'); [contradiction|exact IH].
Qed.
Lemma al_other {A} k k' (v : A) l : k' <> k -> alookup k' (aset k v l) = alookup k' l.
Proof.
  intros Hne. induction l as [|[k2 v2] l IH]; cbn.
  - destruct (N.eqb_spec k' k); [contradiction|reflexivity].
  - destruct (N.eqb_spec k k2) as [->|H2]; cbn.
    + destruct (N.eqb_spec k' k2); [contradiction|reflexivity].
    + destruct (k' =? k2); [reflexivity|exact IH].
Qed.

(** states that agree with [s] on refs except at [r], where the value is [fr] *)
Definition upd (s s' : sstate) (r : refid) (fr : fidref) : Prop :=
  get_ref s' r = fr /\ forall x, x <> r -> get_ref s' x = get_ref s x.

Lemma upd_put_ref s r fr : upd s (put_ref r fr s) r fr.
Proof.
  split; unfold get_ref, put_ref; cbn; [now rewrite al_same|intros x Hx; now rewrite al_other].
Qed.

(** an update that keeps file and directory-ness of the current value *)
Lemma upd_same_keeps s s' r fr :
  upd s s' r fr -> st_next_ref s' = st_next_ref s ->
  fr_file fr = fr_file (get_ref s r) -> fr_mode fr = fr_mode (get_ref s r) ->
  above s -> above s' /\ keeps s s'.
Proof.
  intros [U1 U2] Hn Hf Hm Ha. split.
  - intros x Hx. rewrite Hn in Hx. destruct (N.eq_dec x r) as [->|Hne].
    + rewrite U1, Hm. apply Ha; exact Hx.
    + rewrite U2 by assumption. apply Ha; exact Hx.
  - split; [lia|]. intros x Hx Hd. destruct (N.eq_dec x r) as [->|Hne].
    + rewrite U1, Hf, Hm. auto.
    + rewrite U2 by assumption. auto.
Qed.

(** ---- the judgement ---- *)
Definition dpw {A} (w : world) (m : M A) : Prop :=
  forall o w', m w = (o, w') -> dinv w' /\ keeps (w_st w) (w_st w').
Definition dp {A} (m : M A) : Prop := forall w, dinv w -> dpw w m.

Lemma dp_ret {A} (a : A) : dp (ret a).
Proof. intros w Hi o w' E. inversion E; subst. split; [exact Hi|apply keeps_refl]. Qed.
Lemma dp_panic {A} : dp (@panic A).
Proof. intros w Hi o w' E. inversion E; subst. split; [exact Hi|apply keeps_refl]. Qed.
Lemma dp_gets {A} (g : sstate -> A) : dp (gets g).
Proof. intros w Hi o w' E. inversion E; subst. split; [exact Hi|apply keeps_refl]. Qed.

Lemma dpw_bind {A B} (m : M A) (f : A -> M B) w :
  dpw w m -> (forall a w1, m w = (Ok a, w1) -> dinv w1 -> dpw w1 (f a)) -> dpw w (bind m f).
Proof.
  intros Hm Hf o w' E. unfold bind in E. destruct (m w) as [[a|] w1] eqn:Em.
  - destruct (Hm _ _ Em) as [Hi1 K1].
    destruct (Hf a w1 eq_refl Hi1 o w' E) as [Hi2 K2]. split; [exact Hi2|eapply keeps_trans; eauto].
  - inversion E; subst. exact (Hm _ _ Em).
Qed.
Lemma dp_bind {A B} (m : M A) (f : A -> M B) : dp m -> (forall a, dp (f a)) -> dp (bind m f).
Proof. intros Hm Hf w Hi. apply dpw_bind; [apply Hm; exact Hi|]. intros a w1 _ Hi1. apply Hf; exact Hi1. Qed.

Lemma dpw_gets {A B} (g : sstate -> A) (f : A -> M B) w : dpw w (f (g (w_st w))) -> dpw w (bind (gets g) f).
Proof. intros H o w' E. exact (H o w' E). Qed.

Lemma dpw_with_defer {A} (d : M unit) (m : M A) w : dpw w m -> dp d -> dpw w (with_defer d m).
Proof.
  intros Hm Hd o w' E. unfold with_defer in E. destruct (m w) as [o1 w1] eqn:Em.
  destruct (Hm _ _ Em) as [Hi1 K1].
  destruct (d w1) as [[u|] w2] eqn:Ed; destruct (Hd w1 Hi1 _ _ Ed) as [Hi2 K2]; inversion E; subst;
    (split; [exact Hi2|eapply keeps_trans; eauto]).
Qed.
Lemma dp_with_defer {A} (d : M unit) (m : M A) : dp d -> dp m -> dp (with_defer d m).
Proof. intros Hd Hm w Hi. apply dpw_with_defer; [apply Hm; exact Hi|exact Hd]. Qed.

(** a state change that is an allowed update *)
Lemma dpw_modify (f : sstate -> sstate) w :
  dinv w -> above (f (w_st w)) -> keeps (w_st w) (f (w_st w)) -> dpw w (modify f).
Proof.
  intros [Ha Hl] Ha' K o w' E. inversion E; subst. cbn.
  split; [split; cbn; [exact Ha'|eapply logok_keeps; eauto]|exact K].
Qed.
(** a change that does not touch refs nor the mark *)
Lemma dp_modify_frame (f : sstate -> sstate) :
  (forall s, st_refs (f s) = st_refs s /\ st_next_ref (f s) = st_next_ref s) -> dp (modify f).
Proof.
  intros Hf w Hi. destruct (Hf (w_st w)) as [H1 H2].
  assert (G : forall x, get_ref (f (w_st w)) x = get_ref (w_st w) x) by (intros x; unfold get_ref; now rewrite H1).
  apply dpw_modify; [exact Hi| |].
  - intros r Hr. rewrite G. apply Hi. lia.
  - split; [lia|]. intros r Hr Hd. rewrite G. auto.
Qed.
Lemma dpw_put_same r fr w :
  dinv w -> fr_file fr = fr_file (get_ref (w_st w) r) -> fr_mode fr = fr_mode (get_ref (w_st w) r) ->
  dpw w (modify (put_ref r fr)).
Proof.
  intros Hi Hf Hm.
  destruct (upd_same_keeps (w_st w) (put_ref r fr (w_st w)) r fr (upd_put_ref _ _ _) eq_refl Hf Hm (proj1 Hi)) as [Ha K].
  apply dpw_modify; auto.
Qed.

(** the world after a backend call *)
Lemma dpw_backend_bind {B} (c : bcall) (f : bval * errv -> M B) w :
  dinv w -> (named_walk c = true -> dirfile (w_st w) (bc_h c)) ->
  (forall a w1, w_st w1 = w_st w -> dinv w1 -> dpw w1 (f a)) -> dpw w (bind (backend c) f).
Proof.
  intros [Ha Hl] Hc Hf.
  assert (Hl' : forall a, logok (w_st w) ((c, a) :: w_log w)) by (intros a; constructor; auto).
  apply dpw_bind.
  - intros o w' E. unfold backend in E.
    destruct (w_tape w) as [|a t]; [|destruct a]; inversion E; subst; cbn;
      (split; [split; cbn; auto|apply keeps_refl]).
  - intros a w1 E Hi1. apply Hf; [|exact Hi1]. unfold backend in E.
    destruct (w_tape w) as [|a' t]; [|destruct a']; inversion E; subst; reflexivity.
Qed.
Lemma dp_backend (c : bcall) : named_walk c = false -> dp (backend c).
Proof.
  intros Hc w [Ha Hl] o w' E. unfold backend in E.
  assert (Hl' : forall a, logok (w_st w) ((c, a) :: w_log w)) by (intros a; constructor; [cbn; congruence|auto]).
  destruct (w_tape w) as [|a t]; [|destruct a]; inversion E; subst; cbn;
    (split; [split; cbn; auto|apply keeps_refl]).
Qed.

Lemma dp_the_ref r : dp (the_ref r).
Proof. apply dp_gets. Qed.
Lemma dp_the_node n : dp (the_node n).
Proof. apply dp_gets. Qed.
Lemma dp_incref r : dp (incref r).
Proof.
  intros w Hi. unfold incref.
  destruct (upd_same_keeps (w_st w) _ r _ (upd_put_ref (w_st w) r (set_refs (get_ref (w_st w) r) (fr_refs (get_ref (w_st w) r) + 1))) eq_refl eq_refl eq_refl (proj1 Hi)) as [Ha K].
  apply dpw_modify; auto.
Qed.
Lemma dp_remove_child n r : dp (remove_child n r).
Proof. apply dp_modify_frame. intros s; split; reflexivity. Qed.
Lemma dp_fresh_handle : dp fresh_handle.
Proof.
  intros w [Ha Hl] o w' E. inversion E; subst; cbn.
  assert (K : keeps (w_st w) (mkState (st_fids (w_st w)) (st_msize (w_st w)) (st_refs (w_st w)) (st_nodes (w_st w))
                       (st_next_ref (w_st w)) (st_next_node (w_st w)) (st_next_handle (w_st w) + 1))).
  { split; [cbn; lia|]. intros r Hr Hd. unfold get_ref in *; cbn. auto. }
  split; [split; cbn; [|eapply logok_keeps; eauto]|exact K].
  intros r Hr. cbn in Hr. exact (Ha r Hr).
Qed.

(** allocation: the continuation knows the new fidRef *)
Lemma new_ref_facts fr w :
  dinv w ->
  let w1 := snd (new_ref fr w) in
  dinv w1 /\ keeps (w_st w) (w_st w1) /\ st_next_ref (w_st w) < st_next_ref (w_st w1) /\
  get_ref (w_st w1) (st_next_ref (w_st w)) = fr.
Proof.
  intros [Ha Hl]. cbn.
  set (s := w_st w). set (s1 := mkState _ _ _ _ _ _ _).
  assert (G1 : get_ref s1 (st_next_ref s) = fr) by (unfold get_ref, s1; cbn; now rewrite al_same).
  assert (G2 : forall x, x <> st_next_ref s -> get_ref s1 x = get_ref s x)
    by (intros x Hx; unfold get_ref, s1; cbn; now rewrite al_other).
  assert (K : keeps s s1).
  { split; [cbn; lia|]. intros r Hr Hd. rewrite G2 by lia. auto. }
  split; [split; cbn; [|eapply logok_keeps; eauto]|split; [exact K|split; [cbn; lia|exact G1]]].
  intros r Hr. cbn in Hr. rewrite G2 by lia. apply Ha. fold s. lia.
Qed.
Lemma dp_new_ref fr : dp (new_ref fr).
Proof.
  intros w Hi o w' E. destruct (new_ref_facts fr w Hi) as (H1 & H2 & _).
  rewrite E in H1, H2. cbn in H1, H2. auto.
Qed.
Lemma dpw_new_ref_bind {B} fr (f : refid -> M B) w :
  dinv w ->
  (forall w1, dinv w1 -> st_next_ref (w_st w) < st_next_ref (w_st w1) ->
     get_ref (w_st w1) (st_next_ref (w_st w)) = fr -> dpw w1 (f (st_next_ref (w_st w)))) ->
  dpw w (bind (new_ref fr) f).
Proof.
  intros Hi Hf. apply dpw_bind; [apply dp_new_ref; exact Hi|].
  intros a w1 E Hi1. destruct (new_ref_facts fr w Hi) as (_ & _ & H3 & H4).
  rewrite E in H3, H4. cbn [snd] in H3, H4.
  assert (Ea : a = st_next_ref (w_st w)) by (unfold new_ref in E; inversion E; reflexivity).
  subst a. apply Hf; [exact Hi1|exact H3|exact H4].
Qed.

Lemma nw_call0 m h : named_walk (call0 m h) = false.
Proof. unfold named_walk; cbn. apply andb_false_r. Qed.

Lemma dp_decref fuel : forall r, dp (decref fuel r).
Proof.
  induction fuel as [|k IH]; intros r; cbn [decref]; [apply dp_panic|].
  intros w Hi. unfold the_ref. apply dpw_gets.
  set (fr := get_ref (w_st w) r).
  apply dpw_bind; [apply dpw_put_same; auto|intros _ w1 _ Hi1]. revert w1 Hi1.
  change (dp (if (fr_refs fr - 1 =? 0)%Z
              then bind (match fr_xof fr with
                         | Some o => decref k o
                         | None => bind (backend (call0 MClose (fr_file fr))) (fun x => match x with (_, e) => ret e end)
                         end)
                     (fun e1 => bind (match fr_parent fr with
                                      | Some p => bind (the_ref p) (fun pfr => bind (remove_child (fr_node pfr) r) (fun _ => decref k p))
                                      | None => ret []
                                      end) (fun e2 => ret (e1 ++ e2)%list))
              else ret [])).
  destruct (_ =? 0)%Z; [|apply dp_ret].
  apply dp_bind.
  - destruct (fr_xof fr); [apply IH|].
    apply dp_bind; [apply dp_backend, nw_call0|intros [v e]; apply dp_ret].
  - intros e1. apply dp_bind; [|intros e2; apply dp_ret].
    destruct (fr_parent fr); [|apply dp_ret].
    apply dp_bind; [apply dp_the_ref|intros pfr].
    apply dp_bind; [apply dp_remove_child|intros _]. apply IH.
Qed.

Lemma dpw_bind_dp {A B} (m : M A) (f : A -> M B) w : dpw w m -> (forall a, dp (f a)) -> dpw w (bind m f).
Proof. intros Hm Hf. apply dpw_bind; [exact Hm|]. intros a w1 _ Hi1. apply Hf; exact Hi1. Qed.

Ltac dfin := first [apply dp_ret | apply dp_panic].

Lemma dp_dec_ref r : dp (dec_ref r).
Proof. unfold dec_ref. apply dp_bind; [apply dp_gets|intros fuel]. apply dp_decref. Qed.
Lemma dp_dec_ref_ r : dp (dec_ref_ r).
Proof. unfold dec_ref_. apply dp_bind; [apply dp_dec_ref|intros _]. apply dp_ret. Qed.

Lemma dp_put_fids g : dp (modify (fun s => put_fids (g s) s)).
Proof. apply dp_modify_frame. intros s; split; reflexivity. Qed.

Lemma dp_lookup_fid c f : dp (lookup_fid c f).
Proof.
  unfold lookup_fid. apply dp_bind; [apply dp_gets|intros o].
  destruct o; [|apply dp_ret]. apply dp_bind; [apply dp_incref|intros _]. apply dp_ret.
Qed.
Lemma dp_insert_fid c f r : dp (insert_fid c f r).
Proof.
  unfold insert_fid. apply dp_bind; [apply dp_gets|intros o].
  apply dp_bind; [apply dp_incref|intros _].
  apply dp_bind; [apply dp_put_fids|intros _].
  destruct o; [apply dp_dec_ref_|apply dp_ret].
Qed.
Lemma dp_delete_fid c f : dp (delete_fid c f).
Proof.
  unfold delete_fid. apply dp_bind; [apply dp_gets|intros o].
  destruct o; [|apply dp_ret].
  apply dp_bind; [apply dp_put_fids|intros _]. apply dp_dec_ref.
Qed.

Lemma dp_put_node n p : dp (modify (put_node n p)).
Proof. apply dp_modify_frame. intros s; split; reflexivity. Qed.

Lemma dp_node_for n name : dp (node_for n name).
Proof.
  unfold node_for. apply dp_bind; [apply dp_the_node|intros p].
  destruct (slookup name (pn_kids p)); [apply dp_ret|].
  intros w [Ha Hl] o w' E. inversion E; subst; cbn.
  match goal with |- _ /\ keeps _ ?s1 => assert (K : keeps (w_st w) s1) end.
  { split; [cbn; lia|]. intros r Hr Hd. unfold get_ref in *; cbn. auto. }
  split; [split; cbn; [|eapply logok_keeps; eauto]|exact K].
  intros r Hr. cbn in Hr. exact (Ha r Hr).
Qed.

Lemma dp_add_child n r name : dp (add_child n r name).
Proof.
  unfold add_child. apply dp_bind; [apply dp_the_node|intros p].
  destruct (alookup r (pn_refs p)); [apply dp_panic|apply dp_put_node].
Qed.
Lemma dp_name_for n r : dp (name_for n r).
Proof.
  unfold name_for. apply dp_bind; [apply dp_the_node|intros p].
  destruct (alookup r (pn_refs p)); dfin.
Qed.

Lemma dp_rwn_loop {A} n (fn : option (refid -> M unit)) (k : M A) :
  (forall f r, fn = Some f -> dp (f r)) -> dp k -> forall rs, dp (rwn_loop n fn rs k).
Proof.
  intros Hf Hk rs. induction rs as [|r rest IH]; cbn [rwn_loop]; [exact Hk|].
  apply dp_bind; [apply dp_remove_child|intros _].
  destruct fn as [f|]; [|exact IH].
  apply dp_bind; [apply dp_the_ref|intros fr].
  destruct (0 <? fr_refs fr)%Z; [|exact IH].
  apply dp_bind; [apply dp_incref|intros _].
  apply dp_with_defer; [apply dp_dec_ref_|].
  apply dp_bind; [apply (Hf f r eq_refl)|intros _]. exact IH.
Qed.

Lemma dp_remove_with_name n name fn :
  (forall f r, fn = Some f -> dp (f r)) -> dp (remove_with_name n name fn).
Proof.
  intros Hf. unfold remove_with_name. apply dp_bind; [apply dp_the_node|intros p].
  apply dp_rwn_loop; [exact Hf|].
  apply dp_bind; [apply dp_the_node|intros p'].
  apply dp_bind; [apply dp_put_node|intros _]. apply dp_ret.
Qed.

Lemma dp_notify_delete fuel : forall n, dp (notify_delete fuel n).
Proof.
  induction fuel as [|k IH]; intros n; cbn [notify_delete]; [apply dp_panic|].
  apply dp_bind; [apply dp_the_node|intros p].
  apply dp_bind; [apply dp_put_node|intros _].
  generalize (pn_kids p) as l. induction l as [|[nm c] rest IHl]; [apply dp_ret|].
  apply dp_bind; [apply IH|intros _]. exact IHl.
Qed.

Lemma dp_mark_child_deleted n name : dp (mark_child_deleted n name).
Proof.
  unfold mark_child_deleted.
  apply dp_bind; [apply dp_remove_with_name; intros f r H; discriminate|intros o].
  destruct o; [|apply dp_ret].
  apply dp_bind; [apply dp_gets|intros fuel]. apply dp_notify_delete.
Qed.

Lemma nw_renamed h nm h2 : named_walk (mkCall MRenamed h nm h2 [] []) = false.
Proof. reflexivity. Qed.

Lemma dp_notify_name_change {A} fuel : forall n (k : M A), dp k -> dp (notify_name_change fuel n k).
Proof.
  induction fuel as [|f IH]; intros n k Hk; cbn [notify_name_change]; [apply dp_panic|].
  apply dp_bind; [apply dp_the_node|intros p].
  generalize (pn_refs p) as l.
  induction l as [|[r nm] rest IHl].
  - generalize (pn_kids p) as kids. induction kids as [|[nm c] rest IHk]; [exact Hk|]. apply IH. exact IHk.
  - apply dp_bind; [apply dp_the_ref|intros fr].
    destruct (0 <? fr_refs fr)%Z; [|apply IHl].
    apply dp_bind; [apply dp_incref|intros _].
    apply dp_with_defer; [apply dp_dec_ref_|].
    destruct (fr_parent fr); [|apply dp_panic].
    apply dp_bind; [apply dp_the_ref|intros pfr].
    apply dp_bind; [apply dp_backend, nw_renamed|intros _].
    apply IHl.
Qed.

Lemma dp_add_path_node_for n name c : dp (add_path_node_for n name c).
Proof.
  unfold add_path_node_for. apply dp_bind; [apply dp_the_node|intros p].
  destruct (slookup name (pn_kids p)); [apply dp_panic|apply dp_put_node].
Qed.

Lemma dp_rename_child_to f old target new : dp (rename_child_to f old target new).
Proof.
  unfold rename_child_to.
  apply dp_bind; [apply dp_the_ref|intros ffr].
  apply dp_bind; [apply dp_the_ref|intros tfr].
  apply dp_bind; [apply dp_mark_child_deleted|intros _].
  apply dp_bind.
  - apply dp_remove_with_name. intros g r Hg. inversion Hg; subst; clear Hg.
    intros w Hi. unfold the_ref. apply dpw_gets.
    apply dpw_bind_dp; [apply dpw_put_same; auto|intros _].
    apply dp_bind; [apply dp_incref|intros _].
    apply dp_bind; [apply dp_add_child|intros _].
    apply dp_bind; [apply dp_backend, nw_renamed|intros _].
    apply dp_bind; [destruct (fr_parent _); [apply dp_dec_ref_|apply dp_panic]|intros _].
    apply dp_ret.
  - intros o. destruct o; [|apply dp_ret].
    apply dp_bind; [apply dp_add_path_node_for|intros _].
    apply dp_bind; [apply dp_gets|intros fuel]. apply dp_notify_name_change. apply dp_ret.
Qed.

(** ---- walking ---- *)
Lemma nw_names c : named_walk c = true -> bc_names c <> [].
Proof.
  unfold named_walk. intros H. apply andb_true_iff in H. destruct H as [_ H].
  destruct (bc_names c); [discriminate|discriminate].
Qed.
Lemma nw_getattr h a : named_walk (mkCall MGetAttr h [] None a []) = false.
Proof. reflexivity. Qed.

Lemma dpw_walk_plain ga from node names w :
  dinv w -> (names <> [] -> dirfile (w_st w) from) -> dpw w (walk_plain ga from node names).
Proof.
  intros Hi Hd. unfold walk_plain.
  apply dpw_backend_bind; [exact Hi|intros H; apply nw_names in H; cbn in H; auto|].
  intros [v e] w1 _ Hi1. refine ((_ : dp _) w1 Hi1).
  destruct (is_err e); [apply dp_ret|].
  apply dp_bind; [apply dp_fresh_handle|intros h].
  destruct ga; [|apply dp_ret].
  apply dp_bind.
  - destruct names as [|n [|n2 r]]; try apply dp_ret.
    apply dp_bind; [apply dp_node_for|intros _]. apply dp_ret.
  - intros _. apply dp_bind; [apply dp_backend, nw_getattr|intros [va ea]].
    destruct (is_err ea); [|apply dp_ret].
    apply dp_bind; [apply dp_backend, nw_call0|intros _]. apply dp_ret.
Qed.

Lemma dpw_walk_one ga from node names w :
  dinv w -> (names <> [] -> dirfile (w_st w) from) -> dpw w (walk_one ga from node names).
Proof.
  intros Hi Hd. unfold walk_one, fail.
  destruct (1 <? List.length names)%nat; [apply dp_ret; exact Hi|].
  apply dpw_bind_dp.
  - destruct ga; [|apply dpw_walk_plain; auto].
    apply dpw_backend_bind; [exact Hi|intros H; apply nw_names in H; cbn in H; auto|].
    intros [v e] w1 Hs Hi1.
    destruct (has_enosys e); [apply dpw_walk_plain; [exact Hi1|rewrite Hs; exact Hd]|].
    refine ((_ : dp _) w1 Hi1).
    destruct (is_err e); [apply dp_ret|].
    apply dp_bind; [apply dp_fresh_handle|intros h]. apply dp_ret.
  - intros r. destruct r as [e|[[q h] a]]; [apply dp_ret|].
    destruct (_ && _); [|apply dp_ret].
    apply dp_bind; [apply dp_backend, nw_call0|intros _]. apply dp_ret.
Qed.

Lemma dp_walk_one_nil ga from node : dp (walk_one ga from node []).
Proof. intros w Hi. apply dpw_walk_one; [exact Hi|intros H; contradiction]. Qed.

Lemma dp_walk_loop : forall names walk qids last, dp (walk_loop names walk qids last).
Proof.
  induction names as [|n rest IH]; intros walk qids last; cbn [walk_loop]; [apply dp_ret|].
  intros w Hi. unfold the_ref, fail. apply dpw_gets.
  destruct (is_dir (fr_mode (get_ref (w_st w) walk))) eqn:Ed; cbn [negb]; cycle 1.
  { refine ((_ : dp _) w Hi). apply dp_bind; [apply dp_dec_ref_|intros _]. apply dp_ret. }
  apply dpw_gets.
  destruct (is_deleted (w_st w) walk).
  { refine ((_ : dp _) w Hi). apply dp_bind; [apply dp_dec_ref_|intros _]. apply dp_ret. }
  apply dpw_bind_dp.
  - apply dpw_walk_one; [exact Hi|]. intros _. exists walk. split; [|split; [reflexivity|exact Ed]].
    destruct (N.lt_ge_cases walk (st_next_ref (w_st w))) as [Hlt|Hge]; [exact Hlt|].
    apply (proj1 Hi) in Hge. congruence.
  - intros r. destruct r as [e|[[q h] a]].
    { apply dp_bind; [apply dp_dec_ref_|intros _]. apply dp_ret. }
    apply dp_bind; [apply dp_node_for|intros node].
    apply dp_bind; [apply dp_new_ref|intros nr].
    apply dp_bind; [apply dp_add_child|intros _].
    apply dp_bind; [apply dp_incref|intros _].
    apply IH.
Qed.

Lemma dp_do_walk ref names ga : dp (do_walk ref names ga).
Proof.
  unfold do_walk, fail. destruct (negb _); [apply dp_ret|].
  destruct names as [|n rest].
  - apply dp_bind; [apply dp_the_ref|intros fr].
    destruct (fr_xof fr); [apply dp_ret|].
    apply dp_bind; [apply dp_walk_one_nil|intros r].
    destruct r as [e|[[q h] a]]; [apply dp_ret|].
    apply dp_bind; [apply dp_new_ref|intros nr].
    apply dp_bind.
    + destruct (fr_parent fr) as [p|]; [|apply dp_ret].
      apply dp_bind; [apply dp_gets|intros del].
      apply dp_bind; [apply dp_the_ref|intros pfr].
      apply dp_bind; [|intros _; apply dp_incref].
      destruct del; [apply dp_ret|].
      apply dp_bind; [apply dp_name_for|intros nm]. apply dp_add_child.
    + intros _. apply dp_bind; [apply dp_incref|intros _]. apply dp_ret.
  - apply dp_bind; [apply dp_incref|intros _]. apply dp_walk_loop.
Qed.

(** ---- the handlers ---- *)
Ltac dcall := apply dp_bind; [apply dp_backend; reflexivity|intros [? ?]].
Ltac one_dcall := dcall; destruct (is_err _); dfin.

Lemma dp_body c m r t : dp (body c m r t).
Proof.
  intros w Hi. unfold body, fail, the_ref. apply dpw_gets. apply dpw_gets.
  destruct m; try (apply dp_ret; exact Hi).
  - (* Twalk *) refine ((_ : dp _) w Hi).
    apply dp_bind; [apply dp_do_walk|intros x].
    destruct x as [e|[[q nr] a]]; [dfin|].
    apply dp_with_defer; [apply dp_dec_ref_|].
    apply dp_bind; [apply dp_insert_fid|intros _]. dfin.
  - (* Twalkgetattr *) refine ((_ : dp _) w Hi).
    apply dp_bind; [apply dp_do_walk|intros x].
    destruct x as [e|[[q nr] a]]; [dfin|].
    apply dp_with_defer; [apply dp_dec_ref_|].
    apply dp_bind; [apply dp_insert_fid|intros _]. dfin.
  - (* Tremove *) refine ((_ : dp _) w Hi).
    destruct (fr_parent _); [|dfin].
    apply dp_bind; [apply dp_the_ref|intros pfr].
    apply dp_bind; [apply dp_name_for|intros nm].
    dcall. destruct (is_err _); [dfin|].
    apply dp_bind; [apply dp_mark_child_deleted|intros _]. dfin.
  - (* Tlopen *)
    apply dpw_backend_bind; [exact Hi|intros H; cbn in H; discriminate H|intros [v e] w1 Hs Hi1].
    destruct (is_err e); [apply dp_ret; exact Hi1|].
    apply dpw_bind_dp; [|intros _; apply dp_ret].
    apply dpw_put_same; [exact Hi1|rewrite Hs; reflexivity|rewrite Hs; reflexivity].
  - (* Tlcreate *) refine ((_ : dp _) w Hi).
    dcall. destruct (is_err _); [dfin|].
    apply dp_bind; [apply dp_fresh_handle|intros h].
    apply dp_bind; [apply dp_node_for|intros node].
    apply dp_bind; [apply dp_new_ref|intros nr].
    apply dp_bind; [apply dp_add_child|intros _].
    apply dp_bind; [apply dp_incref|intros _].
    apply dp_bind; [apply dp_insert_fid|intros _]. dfin.
  - (* Tsymlink *) refine ((_ : dp _) w Hi). one_dcall.
  - (* Tmknod *) refine ((_ : dp _) w Hi). one_dcall.
  - (* Tmkdir *) refine ((_ : dp _) w Hi). one_dcall.
  - (* Tlink *) refine ((_ : dp _) w Hi). one_dcall.
  - (* Trenameat *) refine ((_ : dp _) w Hi).
    destruct (_ && _); [dfin|].
    dcall. destruct (is_err _); [dfin|].
    apply dp_bind; [apply dp_rename_child_to|intros _]. dfin.
  - (* Tunlinkat *) refine ((_ : dp _) w Hi).
    apply dp_bind; [apply dp_node_for|intros _].
    dcall. destruct (is_err _); [dfin|].
    apply dp_bind; [apply dp_mark_child_deleted|intros _]. dfin.
  - (* Trename *) refine ((_ : dp _) w Hi).
    destruct (fr_parent _); [|dfin].
    apply dp_bind; [apply dp_the_ref|intros pfr].
    apply dp_bind; [apply dp_gets|intros pdel].
    destruct pdel; [dfin|].
    apply dp_bind; [apply dp_name_for|intros old].
    destruct (_ && _); [dfin|].
    dcall. destruct (is_err _); [dfin|].
    apply dp_bind; [apply dp_rename_child_to|intros _]. dfin.
  - (* Treadlink *) refine ((_ : dp _) w Hi). one_dcall.
  - (* Tread *) refine ((_ : dp _) w Hi).
    apply dp_bind; [apply dp_gets|intros ms].
    destruct (_ =? _).
    + dcall. destruct (_ && _); [dfin|]. destruct (_ <? _); dfin.
    + destruct (_ =? _); dfin.
  - (* Twrite *)
    destruct (_ =? _).
    + refine ((_ : dp _) w Hi). one_dcall.
    + apply dpw_bind_dp; [|intros _; apply dp_ret].
      apply dpw_put_same; [exact Hi|reflexivity|reflexivity].
  - (* Tgetattr *) refine ((_ : dp _) w Hi). one_dcall.
  - (* Tsetattr *) refine ((_ : dp _) w Hi). one_dcall.
  - (* Txattrwalk *) refine ((_ : dp _) w Hi).
    apply dp_bind.
    + destruct (negb _); dcall; dfin.
    + intros [len e]. destruct (is_err e); [dfin|]. destruct (_ <? _); [dfin|].
      apply dp_bind; [apply dp_new_ref|intros nr].
      apply dp_bind; [apply dp_incref|intros _].
      apply dp_bind; [apply dp_insert_fid|intros _]. dfin.
  - (* Txattrcreate *)
    apply dpw_bind_dp; [|intros _; apply dp_ret].
    apply dpw_put_same; [exact Hi|reflexivity|reflexivity].
  - (* Treaddir *) refine ((_ : dp _) w Hi).
    dcall. destruct (_ && _); dfin.
  - (* Tfsync *) refine ((_ : dp _) w Hi). one_dcall.
  - (* Tstatfs *) refine ((_ : dp _) w Hi). one_dcall.
  - (* Tlock *) refine ((_ : dp _) w Hi). one_dcall.
Qed.

Lemma dp_post c m x : dp (post c m x).
Proof.
  unfold post. destruct m; try apply dp_ret.
  apply dp_bind; [apply dp_delete_fid|intros derr]. destruct (is_err derr); dfin.
Qed.

Lemma dp_guarded c m k : dp (guarded c m k).
Proof.
  unfold guarded, fail. destruct (negb _); [dfin|].
  apply dp_bind; [apply dp_lookup_fid|intros o].
  destruct o as [r|]; [|dfin].
  apply dp_with_defer; [apply dp_dec_ref_|].
  assert (Hinner : forall t, dp
    (bind (gets (fun s => alookup c (st_msize s))) (fun ms =>
     bind (gets (fun s => view_of s r)) (fun p =>
     bind (gets (fun s => view_of s t)) (fun tv =>
     bind (match first_failing (guards_of k) m ms p tv with
           | Some (GE e) => ret (inl (eno e))
           | Some GP => panic
           | None => body c m r t
           end) (fun x => post c m x)))))).
  { intros t. apply dp_bind; [apply dp_gets|intros ms].
    apply dp_bind; [apply dp_gets|intros p].
    apply dp_bind; [apply dp_gets|intros tv].
    apply dp_bind; [|intros x; apply dp_post].
    destruct (first_failing _ _ _ _ _) as [[e|]|]; [dfin|dfin|apply dp_body]. }
  destruct (fid2_of m) as [f2|]; [|apply Hinner].
  apply dp_bind; [apply dp_lookup_fid|intros o2].
  destruct o2 as [t|]; [|dfin].
  apply dp_with_defer; [apply dp_dec_ref_|apply Hinner].
Qed.

(** the attach update of the fresh root: the old value was not a directory *)
Lemma upd_nondir_keeps s s' r fr :
  upd s s' r fr -> st_next_ref s' = st_next_ref s -> r < st_next_ref s ->
  is_dir (fr_mode (get_ref s r)) = false -> above s -> above s' /\ keeps s s'.
Proof.
  intros [U1 U2] Hn Hr Hnd Ha. split.
  - intros x Hx. rewrite Hn in Hx. rewrite U2 by lia. apply Ha; exact Hx.
  - split; [lia|]. intros x Hx Hd. destruct (N.eq_dec x r) as [->|Hne]; [congruence|].
    rewrite U2 by assumption. auto.
Qed.

Lemma dp_h_attach c f afid aname : dp (h_attach c f afid aname).
Proof.
  unfold h_attach. destruct (negb _); [dfin|].
  intros w Hi.
  apply dpw_backend_bind; [exact Hi|intros H; cbn in H; discriminate H|intros [v e] w1 _ Hi1].
  destruct (is_err e); [apply dp_ret; exact Hi1|].
  apply dpw_bind; [apply dp_fresh_handle; exact Hi1|intros h w2 _ Hi2].
  apply dpw_new_ref_bind; [exact Hi2|intros w3 Hi3 Hlt Hget].
  set (root := st_next_ref (w_st w2)) in *.
  apply dpw_with_defer; [|apply dp_dec_ref_].
  apply dpw_backend_bind; [exact Hi3|intros H; cbn in H; discriminate H|intros [va ea] w4 Hs Hi4].
  destruct (is_err ea); [apply dp_ret; exact Hi4|].
  destruct (negb _); [apply dp_ret; exact Hi4|].
  unfold the_ref. apply dpw_gets.
  apply dpw_bind_dp.
  - assert (Hlt' : root < st_next_ref (w_st w4)) by (rewrite Hs; exact Hlt).
    assert (Hnd : is_dir (fr_mode (get_ref (w_st w4) root)) = false) by (rewrite Hs, Hget; reflexivity).
    match goal with |- dpw _ (modify (put_ref root ?fr)) =>
      destruct (upd_nondir_keeps (w_st w4) _ root fr (upd_put_ref _ _ _) eq_refl Hlt' Hnd (proj1 Hi4)) as [Ha K]
    end.
    apply dpw_modify; auto.
  - intros _. destruct (String.eqb _ _).
    + apply dp_bind; [apply dp_insert_fid|intros _]. dfin.
    + apply dp_bind; [apply dp_do_walk|intros x].
      destruct x as [e'|[[q nr] a]]; [dfin|].
      apply dp_with_defer; [apply dp_dec_ref_|].
      apply dp_bind; [apply dp_insert_fid|intros _]. dfin.
Qed.

Lemma dp_h_clunk c f : dp (h_clunk c f).
Proof.
  unfold h_clunk. apply dp_bind.
  - unfold clunk_xattr. apply dp_bind; [apply dp_lookup_fid|intros o].
    destruct o as [r|]; [|dfin].
    apply dp_with_defer; [apply dp_dec_ref_|].
    apply dp_bind; [apply dp_the_ref|intros fr].
    destruct (_ =? _); [|dfin]. destruct (negb _); [dfin|].
    apply dp_bind; [|intros [v e]; dfin].
    destruct (_ && _); apply dp_backend; reflexivity.
  - intros cerr. apply dp_bind; [apply dp_delete_fid|intros derr].
    destruct (is_err derr); [dfin|]. destruct cerr; dfin.
Qed.

Lemma dp_handler c m : dp (handler c m).
Proof.
  unfold handler.
  destruct m; try apply dp_ret; try apply dp_h_attach; try apply dp_h_clunk;
    try (cbn [kind_of]; apply dp_bind; [apply dp_guarded|intros x]; dfin).
  unfold h_version. destruct (tversion_handle msize ver) as [[m v] st].
  apply dp_bind; [|intros _; dfin].
  destruct st as [[ms ?]|]; [|dfin].
  apply dp_modify_frame. intros s; split; reflexivity.
Qed.

(** ---- the theorems ---- *)
Lemma step_dinv s c m tape :
  above s -> above (state_of (step s c m tape)) /\ logok (state_of (step s c m tape)) (log_of (step s c m tape)).
Proof.
  intros Hs. unfold step.
  destruct (handler c m (mkW s tape [])) as [o w] eqn:E.
  assert (Hi : dinv (mkW s tape [])) by (split; cbn; [exact Hs|constructor]).
  destruct (dp_handler c m _ Hi _ _ E) as ([Ha Hl] & _).
  destruct o; cbn; (split; [exact Ha|]); apply Forall_rev; exact Hl.
Qed.

Theorem dirs_only_step_above : forall s c m tape, above s ->
  forall call ans, In (call, ans) (log_of (step s c m tape)) -> named_walk call = true ->
    dirfile (state_of (step s c m tape)) (bc_h call).
Proof.
  intros s c m tape Hs call ans Hin Hn. destruct (step_dinv s c m tape Hs) as [_ Hl].
  unfold logok in Hl. rewrite Forall_forall in Hl. exact (Hl _ Hin Hn).
Qed.

Theorem dirs_only_step : forall s c m tape, refs_below s ->
  forall call ans, In (call, ans) (log_of (step s c m tape)) -> named_walk call = true ->
    dirfile (state_of (step s c m tape)) (bc_h call).
Proof. intros s c m tape Hs. apply dirs_only_step_above, refs_below_above, Hs. Qed.

Lemma init_refs_below : refs_below init_state.
Proof. constructor. Qed.

Theorem above_reachable h : above (run init_state h).
Proof.
  assert (G : forall s, above s -> above (run s h)).
  { induction h as [|[[c m] t] r IH]; intros s Hs; cbn; [exact Hs|]. apply IH. apply step_dinv; exact Hs. }
  apply G, refs_below_above, init_refs_below.
Qed.

Theorem dirs_only_history : forall h c m tape call ans,
  In (call, ans) (log_of (step (run init_state h) c m tape)) -> named_walk call = true ->
    dirfile (state_of (step (run init_state h) c m tape)) (bc_h call).
Proof. intros h c m tape call ans. apply dirs_only_step_above, above_reachable. Qed.

Print Assumptions dirs_only_step.
Print Assumptions dirs_only_history.
