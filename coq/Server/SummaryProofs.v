(** Obligations over the tables go2coq generates from the Go source (gen/HandlerGen.v). *)
From Coq Require Import List String Bool.
From P9V Require Import gen.HandlerGen Server.Msg Server.Summaries.
Import ListNotations.

(** the handlers of the source are the handlers the model transcribes: names checked, fids looked
    up, wrappers, guards in order with their errno (rendered from [guards_of]), backend calls with
    their arguments, InsertFID/DeleteFID, deferred DecRefs, the recover in connState.handle *)
Theorem HandlerGen_matches_model : handler_traces_alpha = model_traces.
Proof. vm_compute. reflexivity. Qed.

Theorem HandlerGen_names_before_lookups :
  forallb (fun e => names_first false (snd e)) handler_traces_alpha = true.
Proof. vm_compute. reflexivity. Qed.

Theorem HandlerGen_lookups_deferred :
  forallb (fun e => lookups_deferred (snd e)) handler_traces_alpha = true.
Proof. vm_compute. reflexivity. Qed.

Theorem HandlerGen_calls_inside_wrapper :
  forallb (fun e => calls_inside false (snd e)) handler_traces_alpha = true.
Proof. vm_compute. reflexivity. Qed.

(** C09: every string field of a T-message that is a path component is passed to checkSafeName
    (directly before any LookupFID, by the embedded message's do, or component-wise by doWalk) *)
Theorem HandlerGen_all_name_fields_checked : all_fields_checked = true.
Proof. vm_compute. reflexivity. Qed.

Lemma every_field_checked m fs f :
  In (m, fs) tmsg_string_fields -> In f fs -> field_checked m f = true.
Proof.
  intros Hm Hf. pose proof HandlerGen_all_name_fields_checked as H.
  unfold all_fields_checked in H. rewrite forallb_forall in H.
  specialize (H _ Hm). cbn in H. rewrite forallb_forall in H. exact (H _ Hf).
Qed.

(** C15: the lock sites of the source are the audited ones, each released by defer or with nothing
    that can fail in between (a non-deferred unlock after a backend call or a callback re-opens this) *)
Theorem HandlerGen_lock_sites : lock_sites_alpha = lock_sites_expected.
Proof. vm_compute. reflexivity. Qed.
Theorem HandlerGen_locks_released : locks_released = true.
Proof. vm_compute. reflexivity. Qed.

(** C04 (Server/OpenPar.v): tlopen.handle takes the fidRef's openMu (released by defer) before it reads
    [opened] and before it calls File.Open -- the lock-first order [open_once_interleaved] is about *)
Theorem tlopen_locks_before_guards : tlopen_lock_first_in handler_traces_alpha = true.
Proof. vm_compute. reflexivity. Qed.
