(** The short session specification of C04: per connection, fid |-> protocol
    state of the fid ([fview]: file type, opened + flags, fenced, root, xattr
    sub-protocol state) and whether a version was negotiated.  [spec_step]
    gives the reply class (success or errno) and the new bindings from the
    request, the abstract state, and the backend OUTCOME only:
      - [spec_reject]: the request is refused from the abstract state alone
        (unsafe name, unbound fid, guard table of Msg.v) -- reply class fixed,
        no backend call, nothing changes (Tremove still unbinds);
      - otherwise the backend decides: it failed with some errno (nothing
        changes except that Tclunk/Tremove unbind), or succeeded, and then the
        bindings change as listed in [post_ok].
    [fence] is the set of fids an unlink/remove/rename fenced (it can be non-empty
    on a failure only when a rename notification panicked half way).
    Definitions only. *)
From Coq Require Import NArith List String Bool.
From P9V Require Import Base.Str gen.ConstGen Fs.Version Server.Msg.
Import ListNotations.
Open Scope N_scope.

Record astate := mkA {
  a_fids : N -> N -> option fview;      (* connection -> fid -> state *)
  a_neg : N -> option N                 (* connection -> negotiated msize *)
}.

Definition a_empty : astate := mkA (fun _ _ => None) (fun _ => None).

(** the backend outcome: failure with an errno, or success with the reported
    file type [k], fenced flag [fz] of the new binding and a size [n] *)
Inductive boutcome :=
| BFail (e : N)                          (* a backend call returned an error value *)
| BOk (k : N) (fz : bool) (n : N)
| BPanicEarly                            (* a panic before any binding changed: EFAULT, nothing but fencing changes (Tclunk/Tremove keep their fid) *)
| BPanicLate (k : N) (fz : bool) (n : N). (* a panic while releasing references after the bindings changed: EFAULT, bindings as after success *)

Definition bind_fid (a : astate) (c f : N) (v : option fview) : astate :=
  mkA (fun c' f' => if (c' =? c) && (f' =? f) then v else a_fids a c' f') (a_neg a).
Definition set_neg (a : astate) (c ms : N) : astate :=
  mkA (a_fids a) (fun c' => if c' =? c then Some ms else a_neg a c').
Definition fence_view (v : fview) : fview :=
  mkView (v_mode v) (v_opened v) (v_flags v) true (v_root v) (v_xop v) (v_xsize v) (v_xlen v) (v_xflags v).
Definition apply_fence (fence : N -> N -> bool) (a : astate) : astate :=
  mkA (fun c f => match a_fids a c f with
                  | Some v => Some (if fence c f then fence_view v else v)
                  | None => None
                  end) (a_neg a).

Definition fresh_view (k : N) (fz root : bool) : fview := mkView k false 0 fz root p9_xattrNone 0 0 0.

(** refusal from the abstract state alone: Some errno *)
Definition spec_reject (a : astate) (c : N) (m : tmsg) : option N :=
  match m with
  | Tauth _ _ _ _ | Tother _ => Some linux_ENOSYS
  | Tattach _ afid _ _ _ => if afid =? p9_noFID then None else Some linux_EINVAL
  | Tversion _ _ | Tflush _ => None
  | Tclunk f => match a_fids a c f with None => Some linux_EBADF | Some _ => None end
  | _ =>
      match kind_of m with
      | None => Some linux_ENOSYS
      | Some k =>
          if negb (forallb safe_nameb (names_of m)) then Some linux_EINVAL
          else match a_fids a c (fid1_of m) with
               | None => Some linux_EBADF
               | Some p =>
                   match (match fid2_of m with
                          | None => Some p
                          | Some f2 => a_fids a c f2
                          end) with
                   | None => Some linux_EBADF
                   | Some t =>
                       match first_failing (guards_of k) m (a_neg a c) p t with
                       | Some (GE e) => Some e
                       | Some GP => Some linux_EFAULT
                       | None => None
                       end
                   end
               end
      end
  end.

(** bindings after a success *)
Definition post_ok (a : astate) (c : N) (m : tmsg) (k : N) (fz : bool) (n : N) : astate :=
  match m with
  | Tversion msize ver =>
      match snd (tversion_handle msize ver) with Some (ms, _) => set_neg a c ms | None => a end
  | Tattach f _ _ aname _ =>
      bind_fid a c f (Some (fresh_view k fz (String.eqb aname "" || String.eqb aname "/")))
  | Twalk f nf names | Twalkgetattr f nf names =>
      match names, a_fids a c f with
      | [], Some p => bind_fid a c nf (Some (fresh_view (v_mode p) (v_deleted p) (v_root p)))
      | _, _ => bind_fid a c nf (Some (fresh_view k fz false))
      end
  | Tlcreate _ f _ flags _ _ => bind_fid a c f (Some (mkView p9_ModeRegular true flags fz false p9_xattrNone 0 0 0))
  | Tlopen f flags =>
      match a_fids a c f with
      | Some p => bind_fid a c f (Some (mkView (v_mode p) true flags (v_deleted p) (v_root p) (v_xop p) (v_xsize p) (v_xlen p) (v_xflags p)))
      | None => a
      end
  | Txattrwalk f nf _ =>
      match a_fids a c f with
      | Some p => bind_fid a c nf (Some (mkView 0 false 0 (v_deleted p) true p9_xattrWalk n n 0))
      | None => a
      end
  | Txattrcreate f _ size flags =>
      match a_fids a c f with
      | Some p => bind_fid a c f (Some (mkView (v_mode p) (v_opened p) (v_flags p) (v_deleted p) (v_root p) p9_xattrCreate size 0 flags))
      | None => a
      end
  | Twrite f _ len =>
      match a_fids a c f with
      | Some p => if v_xop p =? p9_xattrNone then a
                  else bind_fid a c f (Some (mkView (v_mode p) (v_opened p) (v_flags p) (v_deleted p) (v_root p) (v_xop p) (v_xsize p) (v_xlen p + len) (v_xflags p)))
      | None => a
      end
  | Tclunk f | Tremove f => bind_fid a c f None
  | _ => a
  end.

Definition post_fail (a : astate) (c : N) (m : tmsg) : astate :=
  match m with
  | Tclunk f | Tremove f => bind_fid a c f None
  | _ => a
  end.

(** Tclunk of a fid whose xattr-create buffer is incomplete answers EINVAL (unless releasing the File failed) *)
Definition clunk_incomplete (a : astate) (c : N) (m : tmsg) : bool :=
  match m with
  | Tclunk f => match a_fids a c f with
                | Some p => (v_xop p =? p9_xattrCreate) && negb (v_xlen p =? v_xsize p)
                | None => false
                end
  | _ => false
  end.

Definition spec_step (a : astate) (c : N) (m : tmsg) (o : boutcome) (fence : N -> N -> bool) : astate * option N :=
  match spec_reject a c m with
  | Some e =>
      match m, a_fids a c (fid1_of m) with
      | Tremove f, Some _ =>           (* "remove is a clunk with a side effect": unbinds; releasing the File may panic *)
          (bind_fid a c f None, match o with BPanicLate _ _ _ => Some linux_EFAULT | _ => Some e end)
      | _, _ => (a, Some e)
      end
  | None =>
      match o with
      | BFail e => (apply_fence fence (post_fail a c m), Some e)
      | BOk k fz n =>
          (apply_fence fence (post_ok a c m k fz n),
           if clunk_incomplete a c m then Some linux_EINVAL else None)
      | BPanicEarly => (apply_fence fence a, Some linux_EFAULT)
      | BPanicLate k fz n => (apply_fence fence (post_ok a c m k fz n), Some linux_EFAULT)
      end
  end.

Definition rclass (r : reply) : option N := match r with RErr e => Some e | _ => None end.
