(** The reference ledger of the server model: for every fidRef r
      #(fid-table entries of r) + #(live fidRefs whose parent or xattrOf is r) + held r  <=  refs r
    where [held] are the transient references of the running request.  It is an
    invariant of every primitive; at request boundaries (held = 0) it gives:
    a bound fid's fidRef holds at least one reference. *)
From Coq Require Import NArith ZArith List String Bool Lia.
From P9V Require Import Base.Str gen.ConstGen Fs.Version Server.State Server.Msg Server.Handlers.
Import ListNotations.
Open Scope N_scope.

Definition ind (b : bool) : Z := if b then 1%Z else 0%Z.
Definition opt_is (o : option refid) (r : refid) : bool := match o with Some p => p =? r | None => false end.
Definition live (fr : fidref) : bool := (0 <? fr_refs fr)%Z.
(** what a fidRef claims on r: one reference as its parent, one as its xattrOf, while it is alive *)
Definition claims (fr : fidref) (r : refid) : Z :=
  if live fr then (ind (opt_is (fr_parent fr) r) + ind (opt_is (fr_xof fr) r))%Z else 0%Z.
Fixpoint rcount (r : refid) (l : list (refid * fidref)) : Z :=
  match l with [] => 0%Z | (_, fr) :: t => (claims fr r + rcount r t)%Z end.
Fixpoint tcount (r : refid) (l : list ((connid * fid) * refid)) : Z :=
  match l with [] => 0%Z | (_, v) :: t => (ind (N.eqb v r) + tcount r t)%Z end.

Definition delta := refid -> Z.
Definition d0 : delta := fun _ => 0%Z.
Definition d1 (r : refid) : delta := fun x => ind (r =? x).
Definition dadd (a b : delta) : delta := fun x => (a x + b x)%Z.
Definition dsub (a b : delta) : delta := fun x => (a x - b x)%Z.
Definition dopt (o : option refid) : delta := match o with Some p => d1 p | None => d0 end.
Definition nonneg (a : delta) : Prop := forall x, (0 <= a x)%Z.
Definition dle (a b : delta) : Prop := forall x, (a x <= b x)%Z.

Definition refsZ (s : sstate) (r : refid) : Z := fr_refs (get_ref s r).

Definition L (H : delta) (s : sstate) : Prop :=
  (forall r, (tcount r (st_fids s) + rcount r (st_refs s) + H r <= refsZ s r)%Z) /\
  (forall r, st_next_ref s <= r -> H r = 0%Z /\ (refsZ s r <= 0)%Z).

Lemma ind_nonneg b : (0 <= ind b)%Z. Proof. destruct b; cbn; lia. Qed.
Lemma claims_nonneg fr r : (0 <= claims fr r)%Z.
Proof. unfold claims. destruct (live fr); [|lia]. pose proof (ind_nonneg (opt_is (fr_parent fr) r)). pose proof (ind_nonneg (opt_is (fr_xof fr) r)). lia. Qed.
Lemma rcount_nonneg r l : (0 <= rcount r l)%Z.
Proof. induction l as [|[k fr] t IH]; cbn; [lia|]. pose proof (claims_nonneg fr r). lia. Qed.
Lemma tcount_nonneg r l : (0 <= tcount r l)%Z.
Proof. induction l as [|[k v] t IH]; cbn; [lia|]. pose proof (ind_nonneg (v =? r)). lia. Qed.

Lemma L_weaken H H' s : L H s -> dle H' H -> (forall r, st_next_ref s <= r -> H' r = 0%Z) -> L H' s.
Proof.
  intros [L1 L2] Hle Hs. split.
  - intros r. specialize (L1 r). specialize (Hle r). lia.
  - intros r Hr. split; [auto|]. apply L2; auto.
Qed.

(** ---- association list facts ---- *)
Definition getd (k : N) (l : list (refid * fidref)) : fidref := match alookup k l with Some v => v | None => ref0 end.

Lemma alookup_aset_same {A} k (v : A) l : alookup k (aset k v l) = Some v.
Proof. induction l as [|[k' v'] l IH]; cbn; [now rewrite N.eqb_refl|]. destruct (N.eqb_spec k k') as [->|Hne]; cbn; [now rewrite N.eqb_refl|]. apply N.eqb_neq in Hne. now rewrite Hne. Qed.
Lemma alookup_aset_other {A} k k' (v : A) l : k' <> k -> alookup k' (aset k v l) = alookup k' l.
Proof.
  intros Hne. induction l as [|[k2 v2] l IH]; cbn.
  - apply N.eqb_neq in Hne. now rewrite Hne.
  - destruct (N.eqb_spec k k2) as [->|Hne2]; cbn.
    + apply N.eqb_neq in Hne. now rewrite Hne.
    + destruct (k' =? k2); auto.
Qed.

Lemma claims_ref0 r : claims ref0 r = 0%Z. Proof. reflexivity. Qed.

Lemma rcount_aset r k fr l : rcount r (aset k fr l) = (rcount r l - claims (getd k l) r + claims fr r)%Z.
Proof.
  unfold getd. induction l as [|[k' v'] l IH]; cbn.
  - unfold claims; cbn. lia.
  - destruct (N.eqb_spec k k') as [->|Hne]; cbn; [lia|]. rewrite IH. lia.
Qed.

Lemma tlookup_tset_same k v l : tlookup k (tset k v l) = Some v.
Proof.
  assert (R : keyb k k = true) by (unfold keyb; now rewrite !N.eqb_refl).
  induction l as [|[k' v'] l IH]; cbn; [now rewrite R|]. destruct (keyb k k') eqn:E; cbn; [now rewrite R|now rewrite E].
Qed.
Lemma keyb_sym a b : keyb a b = keyb b a.
Proof. unfold keyb. now rewrite (N.eqb_sym (fst a)), (N.eqb_sym (snd a)). Qed.
Lemma keyb_trans a b c : keyb a b = true -> keyb a c = keyb b c.
Proof.
  unfold keyb. intros H. apply andb_true_iff in H. destruct H as [H1 H2]. apply N.eqb_eq in H1, H2. now rewrite H1, H2.
Qed.
Lemma tlookup_tset_other k k' v l : keyb k' k = false -> tlookup k' (tset k v l) = tlookup k' l.
Proof.
  intros Hne. induction l as [|[k2 v2] l IH]; cbn; [now rewrite Hne|].
  destruct (keyb k k2) eqn:E; cbn.
  - rewrite Hne. rewrite keyb_sym in Hne. rewrite (keyb_trans _ _ k' E) in Hne. rewrite keyb_sym in Hne. now rewrite Hne.
  - destruct (keyb k' k2); auto.
Qed.
Lemma tlookup_tdel_same k l : tlookup k (tdel k l) = None.
Proof. induction l as [|[k' v'] l IH]; cbn; [reflexivity|]. destruct (keyb k k') eqn:E; cbn; [auto|now rewrite E]. Qed.
Lemma tlookup_tdel_other k k' l : keyb k' k = false -> tlookup k' (tdel k l) = tlookup k' l.
Proof.
  intros Hne. induction l as [|[k2 v2] l IH]; cbn; [reflexivity|].
  destruct (keyb k k2) eqn:E; cbn.
  - rewrite IH. rewrite keyb_sym in Hne. rewrite (keyb_trans _ _ k' E) in Hne. rewrite keyb_sym in Hne. now rewrite Hne.
  - destruct (keyb k' k2); auto.
Qed.

Definition topt (o : option refid) (r : refid) : Z := match o with Some v => ind (v =? r) | None => 0%Z end.
Lemma tcount_tset r k v l : tcount r (tset k v l) = (tcount r l - topt (tlookup k l) r + ind (N.eqb v r))%Z.
Proof.
  induction l as [|[k' v'] l IH]; cbn; [lia|].
  destruct (keyb k k'); cbn; [lia|]. rewrite IH. lia.
Qed.
Lemma tcount_tdel r k l : (tcount r (tdel k l) <= tcount r l - topt (tlookup k l) r)%Z.
Proof.
  induction l as [|[k' v'] l IH]; cbn; [lia|].
  destruct (keyb k k') eqn:E; cbn.
  - assert (tcount r (tdel k l) <= tcount r l)%Z; [|lia].
    clear. induction l as [|[k2 v2] l IH]; cbn; [lia|]. destruct (keyb k k2); cbn; pose proof (ind_nonneg (v2 =? r)); lia.
  - lia.
Qed.
Lemma tcount_tlookup r k l : tlookup k l = Some r -> (1 <= tcount r l)%Z.
Proof.
  induction l as [|[k' v'] l IH]; cbn; [discriminate|].
  destruct (keyb k k').
  - intros E; inversion E; subst. rewrite N.eqb_refl. unfold ind. pose proof (tcount_nonneg r l). lia.
  - intros E. specialize (IH E). pose proof (ind_nonneg (v' =? r)). lia.
Qed.

(** ---- computations that leave the ledger alone ---- *)
Definition neutral {A} (m : M A) : Prop :=
  forall w o w', m w = (o, w') -> st_next_ref (w_st w) <= st_next_ref (w_st w') /\ forall H, L H (w_st w) -> L H (w_st w').

Lemma neutral_ret {A} (a : A) : neutral (ret a).
Proof. intros w o w' E. inversion E; subst. split; [lia|auto]. Qed.
Lemma neutral_panic {A} : neutral (@panic A).
Proof. intros w o w' E. inversion E; subst. split; [lia|auto]. Qed.
Lemma neutral_gets {A} (f : sstate -> A) : neutral (gets f).
Proof. intros w o w' E. inversion E; subst. split; [lia|auto]. Qed.
Lemma neutral_backend c : neutral (backend c).
Proof.
  intros w o w' E. unfold backend in E.
  destruct (w_tape w) as [|a t]; [|destruct a]; inversion E; subst; cbn; (split; [lia|auto]).
Qed.
Lemma neutral_bind {A B} (m : M A) (f : A -> M B) : neutral m -> (forall a, neutral (f a)) -> neutral (bind m f).
Proof.
  intros Hm Hf w o w' E. unfold bind in E. destruct (m w) as [[a|] w1] eqn:Em.
  - destruct (Hm _ _ _ Em) as [N1 L1]. destruct (Hf a _ _ _ E) as [N2 L2]. split; [lia|auto].
  - inversion E; subst. exact (Hm _ _ _ Em).
Qed.
Lemma neutral_with_defer {A} (d : M unit) (m : M A) : neutral d -> neutral m -> neutral (with_defer d m).
Proof.
  intros Hd Hm w o w' E. unfold with_defer in E. destruct (m w) as [o1 w1] eqn:Em.
  destruct (Hm _ _ _ Em) as [N1 L1]. destruct (d w1) as [[u|] w2] eqn:Ed; destruct (Hd _ _ _ Ed) as [N2 L2]; inversion E; subst; (split; [lia|auto]).
Qed.

(** a state change that keeps the fid table, every fidRef's refs / parent / xattrOf and the allocation mark *)
Definition same_ledger (s s' : sstate) : Prop :=
  st_fids s' = st_fids s /\ st_next_ref s' = st_next_ref s /\
  (forall r, rcount r (st_refs s') = rcount r (st_refs s)) /\ (forall r, refsZ s' r = refsZ s r).
Lemma same_ledger_L s s' H : same_ledger s s' -> L H s -> L H s'.
Proof.
  intros (E1 & E2 & E3 & E4) [L1 L2]. split.
  - intros r. rewrite E1, E3, E4. apply L1.
  - intros r Hr. rewrite E2 in Hr. rewrite E4. apply L2; auto.
Qed.
Lemma neutral_modify f : (forall s, same_ledger s (f s)) -> neutral (modify f).
Proof.
  intros Hf w o w' E. inversion E; subst; cbn. destruct (Hf (w_st w)) as (E1 & E2 & _).
  split; [rewrite E2; lia|]. intros H. apply same_ledger_L, Hf.
Qed.
Lemma same_put_node n p s : same_ledger s (put_node n p s).
Proof. repeat split. Qed.
Lemma same_put_msize c m s : same_ledger s (put_msize c m s).
Proof. repeat split. Qed.
(** replacing a fidRef by one with the same refs, parent and xattrOf *)
Lemma same_put_ref r fr s :
  fr_refs fr = fr_refs (get_ref s r) -> fr_parent fr = fr_parent (get_ref s r) -> fr_xof fr = fr_xof (get_ref s r) ->
  same_ledger s (put_ref r fr s).
Proof.
  intros E1 E2 E3. split; [reflexivity|split; [reflexivity|split]].
  - intros x. cbn. rewrite rcount_aset. unfold claims, live. fold (getd r (st_refs s)).
    change (getd r (st_refs s)) with (get_ref s r). rewrite E1, E2, E3. lia.
  - intros x. unfold refsZ, get_ref, put_ref; cbn. destruct (N.eqb_spec x r) as [->|Hne].
    + rewrite alookup_aset_same. exact E1.
    + now rewrite alookup_aset_other.
Qed.

Lemma neutral_the_ref r : neutral (the_ref r). Proof. apply neutral_gets. Qed.
Lemma neutral_the_node n : neutral (the_node n). Proof. apply neutral_gets. Qed.
Lemma neutral_remove_child n r : neutral (remove_child n r).
Proof. apply neutral_modify. intros; apply same_put_node. Qed.
Lemma neutral_fresh_handle : neutral fresh_handle.
Proof. intros w o w' E. inversion E; subst; cbn. split; [lia|]. intros H [L1 L2]. split; auto. Qed.
Lemma neutral_node_for n name : neutral (node_for n name).
Proof.
  unfold node_for. apply neutral_bind; [apply neutral_the_node|intros p].
  destruct (slookup name (pn_kids p)); [apply neutral_ret|].
  intros w o w' E. inversion E; subst; cbn. split; [lia|]. intros H [L1 L2]. split; auto.
Qed.
Lemma neutral_add_child n r name : neutral (add_child n r name).
Proof.
  unfold add_child. apply neutral_bind; [apply neutral_the_node|intros p].
  destruct (alookup r (pn_refs p)); [apply neutral_panic|]. apply neutral_modify. intros; apply same_put_node.
Qed.
Lemma neutral_name_for n r : neutral (name_for n r).
Proof.
  unfold name_for. apply neutral_bind; [apply neutral_the_node|intros p].
  destruct (alookup r (pn_refs p)); [apply neutral_ret|apply neutral_panic].
Qed.
Lemma neutral_add_path_node_for n name c : neutral (add_path_node_for n name c).
Proof.
  unfold add_path_node_for. apply neutral_bind; [apply neutral_the_node|intros p].
  destruct (slookup name (pn_kids p)); [apply neutral_panic|]. apply neutral_modify. intros; apply same_put_node.
Qed.
Lemma neutral_notify_delete fuel : forall n, neutral (notify_delete fuel n).
Proof.
  induction fuel as [|k IH]; intros n; cbn [notify_delete]; [apply neutral_panic|].
  apply neutral_bind; [apply neutral_the_node|intros p].
  apply neutral_bind; [apply neutral_modify; intros; apply same_put_node|intros _].
  generalize (pn_kids p) as l. induction l as [|[nm c] rest IHl]; [apply neutral_ret|].
  apply neutral_bind; [apply IH|intros _; exact IHl].
Qed.
(** removeWithName without a callback *)
Lemma neutral_rwn_none {A} n (k : M A) : neutral k -> forall rs, neutral (rwn_loop n None rs k).
Proof.
  intros Hk rs. induction rs as [|r rest IH]; cbn [rwn_loop]; [exact Hk|].
  apply neutral_bind; [apply neutral_remove_child|intros _; exact IH].
Qed.
Lemma neutral_rwn_tail n name : neutral (p' <- the_node n ;; let o := slookup name (pn_kids p') in
                                         modify (put_node n (set_kids p' (sdel name (pn_kids p')))) ;; ret o)%m.
Proof.
  apply neutral_bind; [apply neutral_the_node|intros p'].
  apply neutral_bind; [apply neutral_modify; intros; apply same_put_node|intros _; apply neutral_ret].
Qed.
Lemma neutral_mark_child_deleted n name : neutral (mark_child_deleted n name).
Proof.
  unfold mark_child_deleted, remove_with_name.
  apply neutral_bind.
  - apply neutral_bind; [apply neutral_the_node|intros p]. apply neutral_rwn_none, neutral_rwn_tail.
  - intros o. destruct o; [|apply neutral_ret].
    apply neutral_bind; [apply neutral_gets|intros fuel; apply neutral_notify_delete].
Qed.

(** ---- computations that do not touch fidRefs, the fid table or the allocation mark ---- *)
Definition keeps {A} (m : M A) : Prop :=
  forall w o w', m w = (o, w') ->
    st_refs (w_st w') = st_refs (w_st w) /\ st_fids (w_st w') = st_fids (w_st w) /\ st_next_ref (w_st w') = st_next_ref (w_st w).
Lemma keeps_neutral {A} (m : M A) : keeps m -> neutral m.
Proof.
  intros Hk w o w' E. destruct (Hk _ _ _ E) as (E1 & E2 & E3). split; [rewrite E3; lia|].
  intros H [L1 L2]. unfold L, refsZ, get_ref. rewrite E1, E2, E3. split; auto.
Qed.
Lemma keeps_ret {A} (a : A) : keeps (ret a). Proof. intros w o w' E; inversion E; auto. Qed.
Lemma keeps_panic {A} : keeps (@panic A). Proof. intros w o w' E; inversion E; auto. Qed.
Lemma keeps_gets {A} (f : sstate -> A) : keeps (gets f). Proof. intros w o w' E; inversion E; auto. Qed.
Lemma keeps_backend c : keeps (backend c).
Proof. intros w o w' E. unfold backend in E. destruct (w_tape w) as [|a t]; [|destruct a]; inversion E; subst; cbn; auto. Qed.
Lemma keeps_bind {A B} (m : M A) (f : A -> M B) : keeps m -> (forall a, keeps (f a)) -> keeps (bind m f).
Proof.
  intros Hm Hf w o w' E. unfold bind in E. destruct (m w) as [[a|] w1] eqn:Em.
  - destruct (Hm _ _ _ Em) as (A1 & A2 & A3). destruct (Hf a _ _ _ E) as (B1 & B2 & B3). repeat split; congruence.
  - inversion E; subst. exact (Hm _ _ _ Em).
Qed.
Lemma keeps_modify_node n p : keeps (modify (put_node n p)).
Proof. intros w o w' E; inversion E; subst; cbn; auto. Qed.
Lemma keeps_fresh_handle : keeps fresh_handle.
Proof. intros w o w' E; inversion E; subst; cbn; auto. Qed.
Lemma keeps_the_ref r : keeps (the_ref r). Proof. apply keeps_gets. Qed.
Lemma keeps_the_node n : keeps (the_node n). Proof. apply keeps_gets. Qed.
Lemma keeps_remove_child n r : keeps (remove_child n r).
Proof. intros w o w' E; inversion E; subst; cbn; auto. Qed.
Lemma keeps_node_for n name : keeps (node_for n name).
Proof.
  unfold node_for. apply keeps_bind; [apply keeps_the_node|intros p].
  destruct (slookup name (pn_kids p)); [apply keeps_ret|]. intros w o w' E; inversion E; subst; cbn; auto.
Qed.
Lemma keeps_add_child n r name : keeps (add_child n r name).
Proof.
  unfold add_child. apply keeps_bind; [apply keeps_the_node|intros p].
  destruct (alookup r (pn_refs p)); [apply keeps_panic|apply keeps_modify_node].
Qed.
Lemma keeps_name_for n r : keeps (name_for n r).
Proof.
  unfold name_for. apply keeps_bind; [apply keeps_the_node|intros p].
  destruct (alookup r (pn_refs p)); [apply keeps_ret|apply keeps_panic].
Qed.
Lemma keeps_walk_plain ga from node names : keeps (walk_plain ga from node names).
Proof.
  unfold walk_plain. apply keeps_bind; [apply keeps_backend|intros [v e]].
  destruct (is_err e); [apply keeps_ret|].
  apply keeps_bind; [apply keeps_fresh_handle|intros h].
  destruct ga; [|apply keeps_ret].
  apply keeps_bind.
  - destruct names as [|n [|n2 r]]; try apply keeps_ret. apply keeps_bind; [apply keeps_node_for|intros _; apply keeps_ret].
  - intros _. apply keeps_bind; [apply keeps_backend|intros [va ea]].
    destruct (is_err ea); [|apply keeps_ret]. apply keeps_bind; [apply keeps_backend|intros _; apply keeps_ret].
Qed.
Lemma keeps_walk_one ga from node names : keeps (walk_one ga from node names).
Proof.
  unfold walk_one, fail. destruct (1 <? List.length names)%nat; [apply keeps_ret|].
  apply keeps_bind.
  - destruct ga; [|apply keeps_walk_plain].
    apply keeps_bind; [apply keeps_backend|intros [v e]].
    destruct (has_enosys e); [apply keeps_walk_plain|]. destruct (is_err e); [apply keeps_ret|].
    apply keeps_bind; [apply keeps_fresh_handle|intros h; apply keeps_ret].
  - intros r. destruct r as [e|[[q h] a]]; [apply keeps_ret|].
    destruct (_ && _); [|apply keeps_ret]. apply keeps_bind; [apply keeps_backend|intros _; apply keeps_ret].
Qed.

(** ---- state-level ledger steps ---- *)
Lemma refsZ_put_ref r fr s x : refsZ (put_ref r fr s) x = if x =? r then fr_refs fr else refsZ s x.
Proof.
  unfold refsZ, get_ref, put_ref; cbn. destruct (N.eqb_spec x r) as [->|Hne].
  - now rewrite alookup_aset_same.
  - now rewrite alookup_aset_other.
Qed.
Lemma get_put_ref_same r fr s : get_ref (put_ref r fr s) r = fr.
Proof. unfold get_ref, put_ref; cbn. now rewrite alookup_aset_same. Qed.
Lemma get_put_ref_other r fr s x : x <> r -> get_ref (put_ref r fr s) x = get_ref s x.
Proof. intros H. unfold get_ref, put_ref; cbn. now rewrite alookup_aset_other. Qed.
Lemma rcount_put_ref r fr s x :
  rcount x (st_refs (put_ref r fr s)) = (rcount x (st_refs s) - claims (get_ref s r) x + claims fr x)%Z.
Proof. cbn. rewrite rcount_aset. reflexivity. Qed.
Lemma rcount_ge_claims s r x : (claims (get_ref s r) x <= rcount x (st_refs s))%Z.
Proof.
  unfold get_ref. induction (st_refs s) as [|[k fr] l IH]; cbn; [unfold claims; cbn; lia|].
  destruct (r =? k).
  - pose proof (rcount_nonneg x l). lia.
  - pose proof (claims_nonneg fr x). lia.
Qed.

Lemma d1_other r x : r <> x -> d1 r x = 0%Z.
Proof. intros H. unfold d1. apply N.eqb_neq in H. now rewrite H. Qed.
Lemma d1_same r : d1 r r = 1%Z.
Proof. unfold d1. now rewrite N.eqb_refl. Qed.

(** a fidRef with a positive claim on x exists below the allocation mark, and so does x *)
Lemma L_claimed_below H s x : L H s -> nonneg H -> (1 <= tcount x (st_fids s) + rcount x (st_refs s))%Z -> x < st_next_ref s.
Proof.
  intros [L1 L2] Hn Hc. destruct (N.lt_ge_cases x (st_next_ref s)) as [|Hge]; [assumption|].
  destruct (L2 x Hge) as [E1 E2]. specialize (L1 x). rewrite E1 in L1. lia.
Qed.
Lemma L_live_below H s x : L H s -> (1 <= refsZ s x)%Z -> x < st_next_ref s.
Proof.
  intros [L1 L2] Hc. destruct (N.lt_ge_cases x (st_next_ref s)) as [|Hge]; [assumption|].
  destruct (L2 x Hge) as [E1 E2]. lia.
Qed.

Definition set_refs_of (s : sstate) (r : refid) (n : Z) : sstate := put_ref r (set_refs (get_ref s r) n) s.

Lemma claims_set_refs_same fr n x : live fr = (0 <? n)%Z -> claims (set_refs fr n) x = claims fr x.
Proof. intros E. unfold claims, live in *. cbn. now rewrite <- E. Qed.

(** IncRef of a live fidRef *)
Lemma L_incref_live H s r :
  L H s -> (1 <= refsZ s r)%Z -> L (dadd H (d1 r)) (set_refs_of s r (refsZ s r + 1)).
Proof.
  intros HL Hlive. pose proof (L_live_below _ _ _ HL Hlive) as Hb. destruct HL as [L1 L2]. unfold set_refs_of. split.
  - intros x. rewrite refsZ_put_ref, rcount_put_ref. cbn [st_fids put_ref].
    rewrite claims_set_refs_same by (unfold live; fold (refsZ s r); destruct (0 <? refsZ s r)%Z eqn:E1; destruct (0 <? refsZ s r + 1)%Z eqn:E2; try reflexivity; lia).
    specialize (L1 x). unfold dadd, d1. rewrite (N.eqb_sym r x). cbn. destruct (N.eqb_spec x r) as [->|Hne]; unfold ind; cbn; lia.
  - intros x Hx. cbn in Hx. rewrite refsZ_put_ref. destruct (L2 x Hx) as [E1 E2]. unfold dadd. rewrite E1, d1_other by lia.
    destruct (N.eqb_spec x r) as [->|Hne]; [lia|]. split; [lia|assumption].
Qed.

(** IncRef of a fidRef that is not alive (a fresh one): it starts claiming its parent / xattrOf *)
Definition links (s : sstate) (r : refid) : delta := dadd (dopt (fr_parent (get_ref s r))) (dopt (fr_xof (get_ref s r))).
Definition links_below (s : sstate) (r : refid) : Prop := forall x, st_next_ref s <= x -> links s r x = 0%Z.

Lemma claims_live_links s r x n : (0 < n)%Z -> claims (set_refs (get_ref s r) n) x = links s r x.
Proof.
  intros Hn. unfold claims, live, links, dadd; cbn [fr_refs set_refs fr_parent fr_xof].
  apply Z.ltb_lt in Hn. rewrite Hn. unfold dopt, opt_is.
  destruct (fr_parent (get_ref s r)), (fr_xof (get_ref s r)); unfold d1, d0; reflexivity.
Qed.
Lemma claims_dead fr x : (fr_refs fr <= 0)%Z -> claims fr x = 0%Z.
Proof. intros H. unfold claims, live. destruct (0 <? fr_refs fr)%Z eqn:E; [apply Z.ltb_lt in E; lia|reflexivity]. Qed.
Lemma claims_live s r x : (0 < refsZ s r)%Z -> claims (get_ref s r) x = links s r x.
Proof.
  intros Hn. unfold claims, live, links, dadd, refsZ in *. apply Z.ltb_lt in Hn. rewrite Hn. unfold dopt, opt_is.
  destruct (fr_parent (get_ref s r)), (fr_xof (get_ref s r)); unfold d1, d0; reflexivity.
Qed.
Lemma links_nonneg s r x : (0 <= links s r x)%Z.
Proof.
  unfold links, dadd, dopt. destruct (fr_parent (get_ref s r)), (fr_xof (get_ref s r)); unfold d1, d0;
    repeat match goal with |- context [ind ?b] => pose proof (ind_nonneg b); generalize dependent (ind b); intros end; lia.
Qed.

Lemma L_incref_fresh H s r :
  L H s -> refsZ s r = 0%Z -> r < st_next_ref s -> links_below s r ->
  L (dsub (dadd H (d1 r)) (links s r)) (set_refs_of s r 1).
Proof.
  intros [L1 L2] Hz Hb Hs. unfold set_refs_of. split.
  - intros x. rewrite refsZ_put_ref, rcount_put_ref. cbn [st_fids put_ref].
    rewrite (claims_dead (get_ref s r)) by (fold (refsZ s r); lia).
    rewrite claims_live_links by lia. specialize (L1 x). unfold dsub, dadd.
    destruct (N.eqb_spec x r) as [->|Hne]; cbn [fr_refs set_refs].
    + rewrite d1_same. lia.
    + rewrite d1_other by congruence. lia.
  - intros x Hx. cbn in Hx. rewrite refsZ_put_ref. destruct (L2 x Hx) as [E1 E2].
    destruct (N.eqb_spec x r) as [->|Hne]; [lia|]. split; [|assumption].
    unfold dsub, dadd. rewrite E1, d1_other, (Hs x Hx) by lia. reflexivity.
Qed.

(** DecRef's first step: the count drops; a fidRef that dies stops claiming *)
Lemma L_drop_nodeath H s r :
  L H s -> refsZ s r <> 1%Z -> r < st_next_ref s -> L (dsub H (d1 r)) (set_refs_of s r (refsZ s r - 1)).
Proof.
  intros [L1 L2] Hn Hb. unfold set_refs_of. split.
  - intros x. rewrite refsZ_put_ref, rcount_put_ref. cbn [st_fids put_ref].
    rewrite claims_set_refs_same by (unfold live; fold (refsZ s r); destruct (0 <? refsZ s r)%Z eqn:E1; destruct (0 <? refsZ s r - 1)%Z eqn:E2; try reflexivity;
                                     [apply Z.ltb_lt in E1; apply Z.ltb_ge in E2|apply Z.ltb_ge in E1; apply Z.ltb_lt in E2]; lia).
    specialize (L1 x). unfold dsub. destruct (N.eqb_spec x r) as [->|Hne]; cbn [fr_refs set_refs].
    + rewrite d1_same. lia.
    + rewrite d1_other by congruence. lia.
  - intros x Hx. cbn in Hx. rewrite refsZ_put_ref. destruct (L2 x Hx) as [E1 E2].
    destruct (N.eqb_spec x r) as [->|Hne]; [lia|]. split; [|assumption]. unfold dsub. rewrite E1, d1_other by lia. reflexivity.
Qed.
Lemma L_drop_death H s r :
  L H s -> refsZ s r = 1%Z -> r < st_next_ref s ->
  L (dadd (dsub H (d1 r)) (links s r)) (set_refs_of s r 0) /\ links_below s r.
Proof.
  intros HL Hn Hb.
  assert (Hlb : links_below s r).
  { destruct HL as [L1 L2]. intros x Hx. destruct (L2 x Hx) as [E1 E2]. specialize (L1 x).
    pose proof (rcount_ge_claims s r x) as Hc. rewrite claims_live in Hc by lia.
    pose proof (tcount_nonneg x (st_fids s)). pose proof (links_nonneg s r x). lia. }
  split; [|exact Hlb]. destruct HL as [L1 L2]. unfold set_refs_of. split.
  - intros x. rewrite refsZ_put_ref, rcount_put_ref. cbn [st_fids put_ref].
    rewrite (claims_dead (set_refs (get_ref s r) 0)) by (cbn; lia).
    rewrite claims_live by lia. specialize (L1 x). unfold dadd, dsub.
    destruct (N.eqb_spec x r) as [->|Hne]; cbn [fr_refs set_refs].
    + rewrite d1_same. lia.
    + rewrite d1_other by congruence. lia.
  - intros x Hx. cbn in Hx. rewrite refsZ_put_ref. destruct (L2 x Hx) as [E1 E2].
    destruct (N.eqb_spec x r) as [->|Hne]; [lia|]. split; [|assumption].
    unfold dadd, dsub. rewrite E1, d1_other, (Hlb x Hx) by lia. reflexivity.
Qed.

(** &fidRef{...}: a new fidRef that claims nothing yet (refs 0), or a root (refs 1, no parent) *)
Lemma L_new_ref H s fr :
  L H s -> (fr_refs fr = 0%Z \/ (fr_refs fr = 1%Z /\ fr_parent fr = None /\ fr_xof fr = None)) ->
  let r := st_next_ref s in
  let s' := mkState (st_fids s) (st_msize s) (aset r fr (st_refs s)) (st_nodes s) (r + 1) (st_next_node s) (st_next_handle s) in
  L (fun x => (H x + (if N.eqb x r then fr_refs fr else 0))%Z) s'.
Proof.
  intros [L1 L2] Hfr r s'. destruct (L2 r (N.le_refl _)) as [Hr0 Hrz].
  assert (Cfr : forall x, claims fr x = 0%Z).
  { intros x. destruct Hfr as [Hz|(Hz & Hp & Hx)]; [apply claims_dead; lia|]. unfold claims. rewrite Hp, Hx. destruct (live fr); reflexivity. }
  assert (Rz : forall x, refsZ s' x = if x =? r then fr_refs fr else refsZ s x).
  { intros x. change s' with (mkState (st_fids s) (st_msize s) (st_refs (put_ref r fr s)) (st_nodes s) (r + 1) (st_next_node s) (st_next_handle s)).
    exact (refsZ_put_ref r fr s x). }
  split.
  - intros x. rewrite Rz. change (st_refs s') with (st_refs (put_ref r fr s)). rewrite rcount_put_ref. cbn [st_fids s'].
    rewrite (claims_dead (get_ref s r)) by (fold (refsZ s r); lia). rewrite Cfr. specialize (L1 x).
    destruct (N.eqb_spec x r) as [->|Hne]; [|lia].
    fold r in L1. rewrite Hr0 in *. destruct Hfr as [Hz|(Hz & _)]; rewrite Hz; lia.
  - intros x Hx. cbn [st_next_ref s'] in Hx. rewrite Rz. assert (x <> r) by lia. apply N.eqb_neq in H0. rewrite H0.
    destruct (L2 x) as [E1 E2]; [fold r; lia|]. split; [lia|assumption].
Qed.

(** ref.parent = target *)
Lemma L_set_parent H s r target :
  L H s -> (1 <= refsZ s r)%Z -> fr_xof (get_ref s r) = None -> target < st_next_ref s ->
  L (dsub (dadd H (dopt (fr_parent (get_ref s r)))) (d1 target)) (put_ref r (set_parent (get_ref s r) (Some target)) s).
Proof.
  intros [L1 L2] Hlive Hx Ht.
  assert (Hlb : forall x, st_next_ref s <= x -> dopt (fr_parent (get_ref s r)) x = 0%Z).
  { intros x Hge. destruct (L2 x Hge) as [E1 E2]. specialize (L1 x).
    pose proof (rcount_ge_claims s r x) as Hc. rewrite claims_live in Hc by lia. unfold links, dadd in Hc. rewrite Hx in Hc. cbn [dopt] in Hc. unfold d0 in Hc.
    pose proof (tcount_nonneg x (st_fids s)).
    assert (0 <= dopt (fr_parent (get_ref s r)) x)%Z by (destruct (fr_parent (get_ref s r)); unfold dopt, d1, d0; [apply ind_nonneg|lia]). lia. }
  split.
  - intros x. rewrite refsZ_put_ref, rcount_put_ref. cbn [st_fids put_ref].
    rewrite claims_live by lia.
    assert (C : claims (set_parent (get_ref s r) (Some target)) x = d1 target x).
    { unfold claims, live; cbn [fr_refs set_parent fr_parent fr_xof]. fold (refsZ s r). assert (E : (0 <? refsZ s r)%Z = true) by (apply Z.ltb_lt; lia).
      rewrite E, Hx. unfold opt_is, d1. cbn. lia. }
    rewrite C. unfold links, dadd, dsub. rewrite Hx. cbn [dopt]. unfold d0. specialize (L1 x).
    destruct (N.eqb_spec x r) as [->|Hne]; cbn [fr_refs set_parent]; fold (refsZ s r); lia.
  - intros x Hge. cbn in Hge. rewrite refsZ_put_ref. destruct (L2 x Hge) as [E1 E2].
    assert (x <> r) by (intros ->; lia). apply N.eqb_neq in H0. rewrite H0. split; [|assumption].
    unfold dsub, dadd. rewrite E1, (Hlb x Hge), d1_other by lia. reflexivity.
Qed.

(** the fid table *)
Lemma L_tset H s k r :
  L H s -> r < st_next_ref s ->
  L (dsub (dadd H (dopt (tlookup k (st_fids s)))) (d1 r)) (put_fids (tset k r (st_fids s)) s).
Proof.
  intros [L1 L2] Hb.
  assert (Hlb : forall x, st_next_ref s <= x -> dopt (tlookup k (st_fids s)) x = 0%Z).
  { intros x Hge. destruct (tlookup k (st_fids s)) as [o|] eqn:E; [|reflexivity]. unfold dopt. destruct (N.eqb_spec o x) as [->|Hne]; [|now apply d1_other].
    exfalso. destruct (L2 x Hge) as [E1 E2]. specialize (L1 x). pose proof (tcount_tlookup _ _ _ E). pose proof (rcount_nonneg x (st_refs s)). lia. }
  split.
  - intros x. cbn [st_fids st_refs put_fids]. rewrite tcount_tset. change (refsZ (put_fids (tset k r (st_fids s)) s) x) with (refsZ s x).
    specialize (L1 x). unfold dsub, dadd, dopt, topt, d1, d0. destruct (tlookup k (st_fids s)); lia.
  - intros x Hge. cbn in Hge. change (refsZ (put_fids (tset k r (st_fids s)) s) x) with (refsZ s x).
    destruct (L2 x Hge) as [E1 E2]. split; [|assumption]. unfold dsub, dadd. rewrite E1, (Hlb x Hge), d1_other by lia. reflexivity.
Qed.
Lemma L_tdel H s k :
  L H s -> L (dadd H (dopt (tlookup k (st_fids s)))) (put_fids (tdel k (st_fids s)) s).
Proof.
  intros [L1 L2].
  assert (Hlb : forall x, st_next_ref s <= x -> dopt (tlookup k (st_fids s)) x = 0%Z).
  { intros x Hge. destruct (tlookup k (st_fids s)) as [o|] eqn:E; [|reflexivity]. unfold dopt. destruct (N.eqb_spec o x) as [->|Hne]; [|now apply d1_other].
    exfalso. destruct (L2 x Hge) as [E1 E2]. specialize (L1 x). pose proof (tcount_tlookup _ _ _ E). pose proof (rcount_nonneg x (st_refs s)). lia. }
  split.
  - intros x. cbn [st_fids st_refs put_fids]. pose proof (tcount_tdel x k (st_fids s)). change (refsZ (put_fids (tdel k (st_fids s)) s) x) with (refsZ s x).
    specialize (L1 x). unfold dadd, dopt, topt, d1, d0 in *. destruct (tlookup k (st_fids s)); lia.
  - intros x Hge. cbn in Hge. change (refsZ (put_fids (tdel k (st_fids s)) s) x) with (refsZ s x).
    destruct (L2 x Hge) as [E1 E2]. split; [|assumption]. unfold dadd. rewrite E1, (Hlb x Hge). reflexivity.
Qed.

(** ---- DecRef ---- *)
Definition only_refs (s s' : sstate) : Prop :=
  (forall x, get_ref s' x = set_refs (get_ref s x) (refsZ s' x)) /\ st_fids s' = st_fids s /\ st_next_ref s' = st_next_ref s
  /\ st_msize s' = st_msize s.
Lemma set_refs_eta fr : set_refs fr (fr_refs fr) = fr. Proof. destruct fr; reflexivity. Qed.
Lemma set_refs_twice fr a b : set_refs (set_refs fr a) b = set_refs fr b. Proof. reflexivity. Qed.
Lemma only_refs_refl s : only_refs s s.
Proof. repeat split; auto. intros x. unfold refsZ. now rewrite set_refs_eta. Qed.
Lemma only_refs_trans a b c : only_refs a b -> only_refs b c -> only_refs a c.
Proof.
  intros (A1 & A2 & A3 & A4) (B1 & B2 & B3 & B4). repeat split; try congruence.
  intros x. rewrite B1, A1. apply set_refs_twice.
Qed.
Lemma only_refs_set s r n : only_refs s (set_refs_of s r n).
Proof.
  unfold set_refs_of. repeat split; auto. intros x. rewrite refsZ_put_ref. destruct (N.eqb_spec x r) as [->|Hne].
  - now rewrite get_put_ref_same.
  - rewrite get_put_ref_other by assumption. unfold refsZ. now rewrite set_refs_eta.
Qed.
Lemma only_refs_nodes s n p : only_refs s (put_node n p s).
Proof. repeat split; auto. intros x. change (get_ref (put_node n p s) x) with (get_ref s x). change (refsZ (put_node n p s) x) with (refsZ s x). unfold refsZ. now rewrite set_refs_eta. Qed.

Lemma dopt_nonneg o x : (0 <= dopt o x)%Z.
Proof. destruct o; unfold dopt, d1, d0; [apply ind_nonneg|lia]. Qed.

Lemma decref_core fuel : forall r H w o w',
  L H (w_st w) -> r < st_next_ref (w_st w) -> decref fuel r w = (o, w') ->
  L (dsub H (d1 r)) (w_st w') /\ only_refs (w_st w) (w_st w').
Proof.
  induction fuel as [|k IH]; intros r H w o w' HL Hb E.
  - inversion E; subst. split; [|apply only_refs_refl].
    eapply L_weaken; [exact HL| |].
    + intros x. unfold dsub. pose proof (ind_nonneg (r =? x)). unfold d1. lia.
    + intros x Hx. destruct HL as [_ L2]. destruct (L2 x Hx) as [E1 _]. unfold dsub. rewrite E1, d1_other by lia. reflexivity.
  - cbn [decref] in E. unfold bind at 1 in E. cbn [the_ref gets] in E. unfold bind at 1 in E. cbn [modify] in E.
    set (s := w_st w) in *. set (fr := get_ref s r) in *.
    set (s1 := put_ref r (set_refs fr (fr_refs fr - 1)) s) in *.
    change (fr_refs fr) with (refsZ s r) in *.
    destruct (refsZ s r - 1 =? 0)%Z eqn:En.
    + (* the fidRef dies *)
      apply Z.eqb_eq in En. assert (Hone : refsZ s r = 1%Z) by lia.
      assert (Es1 : s1 = set_refs_of s r 0) by (unfold s1, set_refs_of, fr; rewrite En; reflexivity).
      destruct (L_drop_death H s r HL Hone Hb) as [HL1 Hlb]. rewrite <- Es1 in HL1.
      assert (Ho1 : only_refs s s1) by (rewrite Es1; apply only_refs_set).
      assert (Hsup : forall x, st_next_ref s <= x -> dsub H (d1 r) x = 0%Z).
      { intros x Hx. destruct HL as [_ L2]. destruct (L2 x Hx) as [E1 _]. unfold dsub. rewrite E1, d1_other by lia. reflexivity. }
      assert (Hnr1 : st_next_ref s1 = st_next_ref s) by reflexivity.
      (* first the File / xattrOf *)
      unfold bind at 1 in E.
      set (w1 := {| w_st := s1; w_tape := w_tape w; w_log := w_log w |}) in *.
      assert (Step1 : forall o1 w2,
                 (match fr_xof fr with
                  | Some o0 => decref k o0
                  | None => bind (backend (call0 MClose (fr_file fr))) (fun x => let '(_, e) := x in ret e)
                  end) w1 = (o1, w2) ->
                 L (dadd (dsub H (d1 r)) (dopt (fr_parent fr))) (w_st w2) /\ only_refs s (w_st w2)).
      { intros o1 w2 E1. destruct (fr_xof fr) as [xo|] eqn:Exo.
        - assert (Hxo : xo < st_next_ref s1).
          { rewrite Hnr1. destruct (N.lt_ge_cases xo (st_next_ref s)) as [|Hge]; [assumption|].
            specialize (Hlb xo Hge). unfold links, dadd in Hlb. change (get_ref s r) with fr in Hlb. rewrite Exo in Hlb. cbn [dopt] in Hlb. rewrite d1_same in Hlb.
            pose proof (dopt_nonneg (fr_parent fr) xo). lia. }
          destruct (IH xo _ w1 o1 w2 HL1 Hxo E1) as [HL2 Ho2]. split; [|eapply only_refs_trans; eauto].
          eapply L_weaken; [exact HL2| |].
          + intros x. unfold links, dsub, dadd. change (get_ref s r) with fr. rewrite Exo. cbn [dopt]. lia.
          + intros x Hx. destruct Ho2 as (_ & _ & Enr & _). assert (Hx' : st_next_ref s <= x) by (rewrite Enr in Hx; exact Hx). clear Hx; rename Hx' into Hx. unfold dadd. rewrite (Hsup x Hx).
            specialize (Hlb x Hx). unfold links, dadd in Hlb. change (get_ref s r) with fr in Hlb.
            pose proof (dopt_nonneg (fr_parent fr) x). pose proof (dopt_nonneg (fr_xof fr) x). lia.
        - assert (Hs2 : w_st w2 = s1).
          { unfold bind, backend in E1. destruct (w_tape w1) as [|a t]; [|destruct a]; cbn in E1; inversion E1; reflexivity. }
          rewrite Hs2. split; [|assumption].
          eapply L_weaken; [exact HL1| |].
          + intros x. unfold links, dsub, dadd. change (get_ref s r) with fr. rewrite Exo. cbn [dopt]. unfold d0. lia.
          + intros x Hx. rewrite Hnr1 in Hx. unfold dadd. rewrite (Hsup x Hx). specialize (Hlb x Hx). unfold links, dadd in Hlb. change (get_ref s r) with fr in Hlb.
            pose proof (dopt_nonneg (fr_parent fr) x). pose proof (dopt_nonneg (fr_xof fr) x). lia. }
      destruct ((match fr_xof fr with
                 | Some o0 => decref k o0
                 | None => bind (backend (call0 MClose (fr_file fr))) (fun x => let '(_, e) := x in ret e)
                 end) w1) as [o1 w2] eqn:E1.
      destruct (Step1 o1 w2 eq_refl) as [HL2 Ho2].
      assert (Hnr2 : st_next_ref (w_st w2) = st_next_ref s) by (destruct Ho2 as (_ & _ & X & _); exact X).
      assert (Weak : forall s3, L (dadd (dsub H (d1 r)) (dopt (fr_parent fr))) s3 -> st_next_ref s3 = st_next_ref s -> L (dsub H (d1 r)) s3).
      { intros s3 HL3 Hn3. eapply L_weaken; [exact HL3| |].
        - intros x. unfold dadd. pose proof (dopt_nonneg (fr_parent fr) x). lia.
        - intros x Hx. rewrite Hn3 in Hx. auto. }
      destruct o1 as [e1|]; [|inversion E; subst; split; [apply Weak; auto|assumption]].
      (* then the parent *)
      unfold bind at 1 in E.
      destruct (fr_parent fr) as [p|] eqn:Ep.
      * unfold bind at 1 in E. cbn [the_ref gets] in E. unfold bind at 1 in E. cbn [remove_child modify] in E.
        set (s3 := put_node _ _ (w_st w2)) in E.
        assert (HL3 : L (dadd (dsub H (d1 r)) (d1 p)) s3) by (apply (same_ledger_L (w_st w2)); [apply same_put_node|exact HL2]).
        assert (Hp : p < st_next_ref s3).
        { change (st_next_ref s3) with (st_next_ref (w_st w2)). rewrite Hnr2.
          destruct (N.lt_ge_cases p (st_next_ref s)) as [|Hge]; [assumption|].
          specialize (Hlb p Hge). unfold links, dadd in Hlb. change (get_ref s r) with fr in Hlb. rewrite Ep in Hlb. cbn [dopt] in Hlb. rewrite d1_same in Hlb.
          pose proof (dopt_nonneg (fr_xof fr) p). lia. }
        destruct (decref k p {| w_st := s3; w_tape := w_tape w2; w_log := w_log w2 |}) as [o3 w4] eqn:E3.
        destruct (IH p _ {| w_st := s3; w_tape := w_tape w2; w_log := w_log w2 |} o3 w4 HL3 Hp E3) as [HL4 Ho4].
        assert (HL5 : L (dsub H (d1 r)) (w_st w4)).
        { eapply L_weaken; [exact HL4| |].
          - intros x. unfold dsub, dadd. lia.
          - intros x Hx. destruct Ho4 as (_ & _ & Enr & _). apply Hsup. rewrite <- Hnr2. rewrite Enr in Hx. exact Hx. }
        assert (Ho5 : only_refs s (w_st w4)).
        { eapply only_refs_trans; [exact Ho2|]. eapply only_refs_trans; [apply (only_refs_nodes (w_st w2))|exact Ho4]. }
        destruct o3; inversion E; subst; split; assumption.
      * cbn [ret] in E. unfold bind, ret in E. inversion E; subst. split; [|assumption].
        apply Weak; auto.
    + apply Z.eqb_neq in En. cbn [ret] in E. inversion E; subst. cbn [w_st].
      assert (Es1 : s1 = set_refs_of s r (refsZ s r - 1)) by reflexivity. rewrite Es1.
      split; [apply L_drop_nodeath; auto; lia|apply only_refs_set].
Qed.

(** ---- the judgement: [own] references are consumed, [post a] are handed back; [F] is the
    caller's frame (at least [K]); after a panic the frame alone is intact when [safe] ---- *)
Definition led {A} (K : delta) (m : M A) (own : delta) (post : A -> delta) (safe : bool) : Prop :=
  forall F w o w', nonneg F -> dle K F -> L (dadd own F) (w_st w) -> m w = (o, w') ->
    st_next_ref (w_st w) <= st_next_ref (w_st w') /\
    match o with
    | Ok a => L (dadd (post a) F) (w_st w')
    | Panic => safe = true -> L F (w_st w')
    end.

Lemma L_ext H H' s : (forall x, H x = H' x) -> L H s -> L H' s.
Proof. intros E [L1 L2]. split; intros r; [rewrite <- E; apply L1|]. intros Hr. rewrite <- E. apply L2; auto. Qed.

Lemma L_drop_own own F s : nonneg own -> nonneg F -> L (dadd own F) s -> L F s.
Proof.
  intros Ho Hf HL. eapply L_weaken; [exact HL| |].
  - intros x. unfold dadd. specialize (Ho x). lia.
  - intros x Hx. destruct HL as [_ L2]. destruct (L2 x Hx) as [E _]. unfold dadd in E. specialize (Ho x). specialize (Hf x). lia.
Qed.

Lemma led_neutral {A} K (m : M A) own : neutral m -> nonneg own -> led K m own (fun _ => own) true.
Proof.
  intros Hn Ho F w o w' HF HK HL E. destruct (Hn _ _ _ E) as [N1 L1]. split; [exact N1|].
  specialize (L1 _ HL). destruct o; [exact L1|]. intros _. eapply L_drop_own; [exact Ho|exact HF|exact L1].
Qed.

Lemma led_ret {A} K (a : A) own : led K (ret a) own (fun _ => own) true.
Proof. intros F w o w' HF HK HL E. inversion E; subst. split; [lia|exact HL]. Qed.

Lemma led_conseq {A} K (m : M A) own own' post post' safe safe' :
  led K m own post safe -> (forall x, own' x = own x) -> (forall a x, post' a x = post a x) -> (safe' = true -> safe = true) ->
  led K m own' post' safe'.
Proof.
  intros Hm Eo Ep Es F w o w' HF HK HL E.
  assert (HL' : L (dadd own F) (w_st w)) by (eapply L_ext; [|exact HL]; intros x; unfold dadd; now rewrite Eo).
  destruct (Hm F w o w' HF HK HL' E) as [N1 R]. split; [exact N1|]. destruct o.
  - eapply L_ext; [|exact R]. intros x; unfold dadd; now rewrite Ep.
  - intros Hs. apply R. auto.
Qed.

Lemma led_bind {A B} K (m : M A) (f : A -> M B) own1 rest p1 q p2 s1 s2 :
  led K m own1 p1 s1 -> (forall a, led K (f a) (q a) p2 s2) -> nonneg rest ->
  (forall a x, q a x = (p1 a x + rest x)%Z) ->
  led K (bind m f) (dadd own1 rest) p2 (s1 && s2).
Proof.
  intros Hm Hf Hr Eq F w o w' HF HK HL E. unfold bind in E.
  destruct (m w) as [[a|] w1] eqn:Em.
  - assert (HF' : nonneg (dadd rest F)) by (intros x; unfold dadd; specialize (Hr x); specialize (HF x); lia).
    assert (HK' : dle K (dadd rest F)) by (intros x; unfold dadd; specialize (HK x); specialize (Hr x); lia).
    assert (HL' : L (dadd own1 (dadd rest F)) (w_st w)) by (eapply L_ext; [|exact HL]; intros x; unfold dadd; lia).
    destruct (Hm _ _ _ _ HF' HK' HL' Em) as [N1 R1].
    assert (HL2 : L (dadd (q a) F) (w_st w1)) by (eapply L_ext; [|exact R1]; intros x; unfold dadd; rewrite Eq; lia).
    destruct (Hf a _ _ _ _ HF HK HL2 E) as [N2 R2]. split; [lia|].
    destruct o; [exact R2|]. intros Hs. apply andb_true_iff in Hs. apply R2, Hs.
  - assert (HF' : nonneg (dadd rest F)) by (intros x; unfold dadd; specialize (Hr x); specialize (HF x); lia).
    assert (HK' : dle K (dadd rest F)) by (intros x; unfold dadd; specialize (HK x); specialize (Hr x); lia).
    assert (HL' : L (dadd own1 (dadd rest F)) (w_st w)) by (eapply L_ext; [|exact HL]; intros x; unfold dadd; lia).
    destruct (Hm _ _ _ _ HF' HK' HL' Em) as [N1 R1]. inversion E; subst. split; [exact N1|].
    intros Hs. apply andb_true_iff in Hs. eapply L_drop_own; [exact Hr|exact HF|]. apply R1, Hs.
Qed.

(** bind with nothing set aside *)
Lemma led_bind0 {A B} K (m : M A) (f : A -> M B) own p1 p2 s1 s2 :
  led K m own p1 s1 -> (forall a, led K (f a) (p1 a) p2 s2) -> led K (bind m f) own p2 (s1 && s2).
Proof.
  intros Hm Hf. eapply led_conseq; [eapply (led_bind K m f own d0 p1 p1 p2 s1 s2); eauto| | |auto].
  - intros x; unfold d0; lia.
  - intros a x; unfold d0; lia.
  - intros x; unfold dadd, d0; lia.
  - reflexivity.
Qed.

Lemma dec_ref_core r H w o w' :
  L H (w_st w) -> r < st_next_ref (w_st w) -> dec_ref r w = (o, w') ->
  L (dsub H (d1 r)) (w_st w') /\ only_refs (w_st w) (w_st w').
Proof. intros HL Hb E. change (decref (ref_fuel (w_st w)) r w = (o, w')) in E. eapply decref_core; eauto. Qed.
Lemma dec_ref__core r H w o w' :
  L H (w_st w) -> r < st_next_ref (w_st w) -> dec_ref_ r w = (o, w') ->
  L (dsub H (d1 r)) (w_st w') /\ only_refs (w_st w) (w_st w').
Proof.
  intros HL Hb E. unfold dec_ref_, bind in E. destruct (dec_ref r w) as [[e|] w1] eqn:E1.
  - inversion E; subst. eapply dec_ref_core; eauto.
  - inversion E; subst. eapply dec_ref_core; eauto.
Qed.

Lemma L_owned_live own F s r : nonneg own -> nonneg F -> L (dadd own F) s -> (1 <= own r + F r)%Z -> (1 <= refsZ s r)%Z.
Proof.
  intros Ho Hf [L1 _] H1. specialize (L1 r). pose proof (tcount_nonneg r (st_fids s)). pose proof (rcount_nonneg r (st_refs s)). unfold dadd in L1. lia.
Qed.

Lemma led_dec_ref_ K r : led K (dec_ref_ r) (d1 r) (fun _ => d0) true.
Proof.
  intros F w o w' HF HK HL E.
  assert (Hlive : (1 <= refsZ (w_st w) r)%Z).
  { eapply (L_owned_live (d1 r) F); eauto. - intros x; apply ind_nonneg. - rewrite d1_same. specialize (HF r). lia. }
  pose proof (L_live_below _ _ _ HL Hlive) as Hb.
  destruct (dec_ref__core r _ w o w' HL Hb E) as [HL' (_ & _ & En & _)]. split; [rewrite En; lia|].
  assert (HLF : L F (w_st w')) by (eapply L_ext; [|exact HL']; intros x; unfold dsub, dadd; lia).
  destruct o; [eapply L_ext; [|exact HLF]; intros x; unfold dadd, d0; lia|auto].
Qed.

Lemma led_with_defer {A} K r (body : M A) ownb pb sb :
  led (dadd K (d1 r)) body ownb pb sb -> (forall a, nonneg (pb a)) ->
  led K (with_defer (dec_ref_ r) body) (dadd (d1 r) ownb) pb sb.
Proof.
  intros Hb Hp F w o w' HF HK HL E. unfold with_defer in E.
  destruct (body w) as [o1 w1] eqn:Eb.
  assert (HF' : nonneg (dadd (d1 r) F)) by (intros x; unfold dadd; pose proof (ind_nonneg (r =? x)); unfold d1; specialize (HF x); lia).
  assert (HK' : dle (dadd K (d1 r)) (dadd (d1 r) F)) by (intros x; unfold dadd; specialize (HK x); lia).
  assert (HL' : L (dadd ownb (dadd (d1 r) F)) (w_st w)) by (eapply L_ext; [|exact HL]; intros x; unfold dadd; lia).
  destruct (Hb _ _ _ _ HF' HK' HL' Eb) as [N1 R1].
  destruct o1 as [a|].
  - assert (Hlive : (1 <= refsZ (w_st w1) r)%Z).
    { eapply (L_owned_live (pb a) (dadd (d1 r) F)); eauto. unfold dadd. rewrite d1_same. specialize (Hp a r). specialize (HF r). lia. }
    pose proof (L_live_below _ _ _ R1 Hlive) as Hbl.
    destruct (dec_ref_ r w1) as [o2 w2] eqn:Ed.
    destruct (dec_ref__core r _ w1 o2 w2 R1 Hbl Ed) as [HL2 (_ & _ & En & _)].
    assert (HL3 : L (dadd (pb a) F) (w_st w2)) by (eapply L_ext; [|exact HL2]; intros x; unfold dsub, dadd; lia).
    destruct o2; inversion E; subst; (split; [lia|]); [exact HL3|]. intros _. eapply L_drop_own; [exact (Hp a)|exact HF|exact HL3].
  - destruct (dec_ref_ r w1) as [o2 w2] eqn:Ed.
    destruct sb.
    + specialize (R1 eq_refl).
      assert (Hlive : (1 <= refsZ (w_st w1) r)%Z).
      { destruct R1 as [L1 _]. specialize (L1 r). unfold dadd in L1. rewrite d1_same in L1. specialize (HF r).
        pose proof (tcount_nonneg r (st_fids (w_st w1))). pose proof (rcount_nonneg r (st_refs (w_st w1))). lia. }
      pose proof (L_live_below _ _ _ R1 Hlive) as Hbl.
      destruct (dec_ref__core r _ w1 o2 w2 R1 Hbl Ed) as [HL2 (_ & _ & En & _)].
      assert (HL3 : L F (w_st w2)) by (eapply L_ext; [|exact HL2]; intros x; unfold dsub, dadd; lia).
      destruct o2; inversion E; subst; (split; [lia|auto]).
    + (* nothing is claimed after an unsafe panic; only the allocation mark *)
      assert (st_next_ref (w_st w1) <= st_next_ref (w_st w2)).
      { clear - Ed. unfold dec_ref_, bind in Ed. change (dec_ref r w1) with (decref (ref_fuel (w_st w1)) r w1) in Ed.
        assert (G : forall fuel r w o w', decref fuel r w = (o, w') -> st_next_ref (w_st w) <= st_next_ref (w_st w')).
        { clear. induction fuel as [|k IH]; intros r w o w' E; [inversion E; lia|].
          cbn [decref] in E. unfold bind at 1 in E. cbn [the_ref gets] in E. unfold bind at 1 in E. cbn [modify] in E.
          destruct (_ =? 0)%Z; [|inversion E; subst; cbn; lia].
          unfold bind at 1 in E.
          match type of E with (let (o0, w'0) := ?X in _) = _ => destruct X as [[e1|] w2] eqn:E1 end.
          - assert (N1 : st_next_ref (w_st w) <= st_next_ref (w_st w2)).
            { destruct (fr_xof (get_ref (w_st w) r)); [apply IH in E1; cbn in E1; exact E1|].
              unfold bind, backend in E1. cbn in E1. destruct (w_tape w) as [|a t]; [|destruct a]; cbn in E1; inversion E1; subst; cbn; lia. }
            unfold bind at 1 in E.
            destruct (fr_parent (get_ref (w_st w) r)).
            + unfold bind at 1 in E. cbn [the_ref gets] in E. unfold bind at 1 in E. cbn [remove_child modify] in E.
              match type of E with (let (o0, w'0) := ?X in _) = _ => destruct X as [[e2|] w3] eqn:E2 end;
                apply IH in E2; cbn in E2; inversion E; subst; lia.
            + cbn in E. inversion E; subst. exact N1.
          - inversion E; subst.
            destruct (fr_xof (get_ref (w_st w) r)); [apply IH in E1; cbn in E1; exact E1|].
            unfold bind, backend in E1. cbn in E1. destruct (w_tape w) as [|a t]; [|destruct a]; cbn in E1; inversion E1; subst; cbn; lia. }
        destruct (decref _ r w1) as [[e|] w3] eqn:E3; inversion Ed; subst; eapply G; eauto. }
      destruct o2; inversion E; subst; (split; [lia|discriminate]).
Qed.

Lemma incref_run r w : incref r w = (Ok tt, mkW (set_refs_of (w_st w) r (refsZ (w_st w) r + 1)) (w_tape w) (w_log w)).
Proof. reflexivity. Qed.

Lemma led_incref_live K r own :
  nonneg own -> (1 <= own r + K r)%Z -> led K (incref r) own (fun _ => dadd own (d1 r)) true.
Proof.
  intros Ho H1 F w o w' HF HK HL E. rewrite incref_run in E. inversion E; subst; cbn [w_st].
  assert (Hlive : (1 <= refsZ (w_st w) r)%Z).
  { eapply (L_owned_live own F); eauto. specialize (HK r). lia. }
  split; [cbn; lia|]. eapply L_ext; [|apply L_incref_live; [exact HL|exact Hlive]]. intros x; unfold dadd; lia.
Qed.

Lemma led_lookup_fid K c f : led K (lookup_fid c f) d0 (fun o => dopt o) true.
Proof.
  intros F w o w' HF HK HL E. unfold lookup_fid, bind, gets in E. cbn [w_st] in E.
  destruct (tlookup (c, f) (st_fids (w_st w))) as [r|] eqn:El.
  - rewrite incref_run in E. cbn in E. inversion E; subst; cbn [w_st].
    assert (Hlive : (1 <= refsZ (w_st w) r)%Z).
    { destruct HL as [L1 _]. specialize (L1 r). pose proof (tcount_tlookup _ _ _ El). pose proof (rcount_nonneg r (st_refs (w_st w))).
      unfold dadd, d0 in L1. specialize (HF r). lia. }
    split; [cbn; lia|]. eapply L_ext; [|apply L_incref_live; [exact HL|exact Hlive]]. intros x; unfold dadd, dopt, d0; lia.
  - inversion E; subst. split; [lia|]. exact HL.
Qed.

Lemma led_insert_fid_live K c f r : (1 <= K r)%Z -> led K (insert_fid c f r) d0 (fun _ => d0) true.
Proof.
  intros HKr F w o w' HF HK HL E. unfold insert_fid in E. unfold bind at 1 in E. cbn [gets] in E.
  set (s := w_st w) in *. set (orig := tlookup (c, f) (st_fids s)) in *.
  unfold bind at 1 in E. rewrite incref_run in E. unfold bind at 1 in E. cbn [modify w_st w_tape w_log] in E.
  assert (HL0 : L F s) by (eapply L_ext; [|exact HL]; intros x; unfold dadd, d0; lia).
  assert (Hlive : (1 <= refsZ s r)%Z).
  { destruct HL0 as [L1 _]. specialize (L1 r). pose proof (tcount_nonneg r (st_fids s)). pose proof (rcount_nonneg r (st_refs s)). specialize (HK r). lia. }
  pose proof (L_live_below _ _ _ HL0 Hlive) as Hb.
  pose proof (L_incref_live _ _ _ HL0 Hlive) as HL1.
  set (s1 := set_refs_of s r (refsZ s r + 1)) in *.
  assert (HL2 : L (dsub (dadd (dadd F (d1 r)) (dopt orig)) (d1 r)) (put_fids (tset (c, f) r (st_fids s1)) s1)).
  { apply (L_tset _ s1 (c, f) r HL1). exact Hb. }
  change (st_fids s1) with (st_fids s) in *.
  destruct orig as [og|] eqn:Eo.
  - assert (Hog : og < st_next_ref s).
    { eapply (L_claimed_below F s); eauto. pose proof (tcount_tlookup _ _ _ Eo). pose proof (rcount_nonneg og (st_refs s)). fold s in H. lia. }
    match type of E with dec_ref_ og ?W = _ => destruct (dec_ref__core og _ W o w' HL2 Hog E) as [HL3 (_ & _ & En & _)] end.
    split; [rewrite En; exact (N.le_refl _)|].
    assert (HLF : L F (w_st w')) by (eapply L_ext; [|exact HL3]; intros x; unfold dsub, dadd, dopt; lia).
    destruct o; [eapply L_ext; [|exact HLF]; intros x; unfold dadd, d0; lia|auto].
  - inversion E; subst; cbn [w_st]. split; [exact (N.le_refl _)|].
    eapply L_ext; [|exact HL2]. intros x; unfold dsub, dadd, dopt, d0; lia.
Qed.

Lemma led_delete_fid K c f : led K (delete_fid c f) d0 (fun _ => d0) true.
Proof.
  intros F w o w' HF HK HL E. unfold delete_fid in E. unfold bind at 1 in E. cbn [gets] in E.
  set (s := w_st w) in *.
  assert (HL0 : L F s) by (eapply L_ext; [|exact HL]; intros x; unfold dadd, d0; lia).
  destruct (tlookup (c, f) (st_fids s)) as [r|] eqn:El.
  - unfold bind at 1 in E. cbn [modify w_st w_tape w_log] in E. fold s in E.
    pose proof (L_tdel _ s (c, f) HL0) as HL1. rewrite El in HL1. cbn [dopt] in HL1.
    assert (Hr : r < st_next_ref s).
    { eapply (L_claimed_below F s); eauto. pose proof (tcount_tlookup _ _ _ El). pose proof (rcount_nonneg r (st_refs s)). lia. }
    match type of E with dec_ref r ?W = _ => destruct (dec_ref_core r _ W o w' HL1 Hr E) as [HL3 (_ & _ & En & _)] end.
    split; [rewrite En; exact (N.le_refl _)|].
    assert (HLF : L F (w_st w')) by (eapply L_ext; [|exact HL3]; intros x; unfold dsub, dadd; lia).
    destruct o; [eapply L_ext; [|exact HLF]; intros x; unfold dadd, d0; lia|auto].
  - inversion E; subst. split; [exact (N.le_refl _)|exact HL].
Qed.

(** facts that survive computations which keep st_refs / st_fids / the mark *)
Lemma L_keeps H s s' : st_refs s' = st_refs s -> st_fids s' = st_fids s -> st_next_ref s' = st_next_ref s -> L H s -> L H s'.
Proof. intros E1 E2 E3 [L1 L2]. unfold L, refsZ, get_ref. rewrite E1, E2, E3. split; auto. Qed.
Lemma get_ref_keeps s s' r : st_refs s' = st_refs s -> get_ref s' r = get_ref s r.
Proof. intros E. unfold get_ref. now rewrite E. Qed.

Lemma new_ref_run fr w :
  new_ref fr w = (Ok (st_next_ref (w_st w)),
                  mkW (mkState (st_fids (w_st w)) (st_msize (w_st w)) (aset (st_next_ref (w_st w)) fr (st_refs (w_st w))) (st_nodes (w_st w))
                               (st_next_ref (w_st w) + 1) (st_next_node (w_st w)) (st_next_handle (w_st w))) (w_tape w) (w_log w)).
Proof. reflexivity. Qed.

Definition new_state (s : sstate) (fr : fidref) : sstate :=
  mkState (st_fids s) (st_msize s) (aset (st_next_ref s) fr (st_refs s)) (st_nodes s) (st_next_ref s + 1) (st_next_node s) (st_next_handle s).
Lemma get_new_same s fr : get_ref (new_state s fr) (st_next_ref s) = fr.
Proof. unfold get_ref, new_state; cbn. now rewrite alookup_aset_same. Qed.
Lemma get_new_other s fr x : x <> st_next_ref s -> get_ref (new_state s fr) x = get_ref s x.
Proof. intros H. unfold get_ref, new_state; cbn. now rewrite alookup_aset_other. Qed.

(** a fresh dead fidRef (refs 0) whose parent / xattrOf references we own is brought to life:
    new_ref ; <keeps> ; incref -- stated on states: [s1] is any state with the same fidRefs as after new_ref *)
Lemma L_fresh_alive F s fr s1 :
  let nr := st_next_ref s in
  fr_refs fr = 0%Z ->
  L (dadd (dadd (dopt (fr_parent fr)) (dopt (fr_xof fr))) F) s ->
  (forall p, fr_parent fr = Some p -> p < nr) -> (forall p, fr_xof fr = Some p -> p < nr) ->
  st_refs s1 = st_refs (new_state s fr) -> st_fids s1 = st_fids s -> st_next_ref s1 = nr + 1 ->
  L (dadd (d1 nr) F) (set_refs_of s1 nr 1).
Proof.
  intros nr Hz HL Hp Hx E1 E2 E3.
  pose proof (L_new_ref _ s fr HL (or_introl Hz)) as HL1. cbn zeta in HL1. fold nr in HL1. fold (new_state s fr) in HL1.
  assert (HL2 : L (dadd (dadd (dopt (fr_parent fr)) (dopt (fr_xof fr))) F) s1).
  { apply (L_keeps _ (new_state s fr)); auto. eapply L_ext; [|exact HL1]. intros x; cbn beta. rewrite Hz. destruct (x =? nr); lia. }
  assert (G : get_ref s1 nr = fr) by (rewrite (get_ref_keeps _ _ _ E1); apply get_new_same).
  assert (Hz1 : refsZ s1 nr = 0%Z) by (unfold refsZ; now rewrite G).
  assert (Hlb : links_below s1 nr).
  { intros x Hx'. unfold links, dadd. rewrite G. rewrite E3 in Hx'.
    assert (A : dopt (fr_parent fr) x = 0%Z) by (destruct (fr_parent fr) as [p|] eqn:Ep; [apply d1_other; specialize (Hp p eq_refl); lia|reflexivity]).
    assert (B : dopt (fr_xof fr) x = 0%Z) by (destruct (fr_xof fr) as [p|] eqn:Ep; [apply d1_other; specialize (Hx p eq_refl); lia|reflexivity]).
    lia. }
  assert (Hb : nr < st_next_ref s1) by lia.
  pose proof (L_incref_fresh _ s1 nr HL2 Hz1 Hb Hlb) as HL3.
  eapply L_ext; [|exact HL3]. intros x. unfold dsub, dadd, links. rewrite G. unfold dadd. lia.
Qed.

Definition walk_post (x : res (list N * refid * bval)) : delta :=
  match x with inl _ => d0 | inr (_, nr, _) => d1 nr end.

Lemma nonneg_d1 r : nonneg (d1 r). Proof. intros x; apply ind_nonneg. Qed.
Lemma nonneg_d0 : nonneg d0. Proof. intros x; unfold d0; lia. Qed.

(** after a chunk that only allocated a dead fidRef and kept everything else, the frame is intact *)
Lemma L_after_new_dead H s fr s1 :
  L H s -> fr_refs fr = 0%Z -> st_refs s1 = st_refs (new_state s fr) -> st_fids s1 = st_fids s -> st_next_ref s1 = st_next_ref s + 1 -> L H s1.
Proof.
  intros HL Hz E1 E2 E3. pose proof (L_new_ref _ s fr HL (or_introl Hz)) as HL1. cbn zeta in HL1. fold (new_state s fr) in HL1.
  apply (L_keeps _ (new_state s fr)); auto. eapply L_ext; [|exact HL1]. intros x; cbn beta. rewrite Hz. destruct (x =? st_next_ref s); lia.
Qed.

Lemma led_walk_loop K : forall names walk qids last, led K (walk_loop names walk qids last) (d1 walk) walk_post true.
Proof.
  induction names as [|n rest IH]; intros walk qids last; cbn [walk_loop].
  { intros F w o w' HF HK HL E. inversion E; subst. split; [lia|exact HL]. }
  intros F w o w' HF HK HL E.
  unfold bind at 1 in E. cbn [the_ref gets] in E.
  set (s := w_st w) in *. set (wfr := get_ref s walk) in *.
  assert (Fail : forall (e : errv) w0 o0 w0', L (dadd (d1 walk) F) (w_st w0) ->
            (dec_ref_ walk ;; ret (@inl errv (list N * refid * bval) e))%m w0 = (o0, w0') ->
            st_next_ref (w_st w0) <= st_next_ref (w_st w0') /\
            match o0 with Ok a => L (dadd (walk_post a) F) (w_st w0') | Panic => true = true -> L F (w_st w0') end).
  { intros e w0 o0 w0' HL0 E0. unfold bind in E0. destruct (dec_ref_ walk w0) as [[u|] w1] eqn:Ed.
    - destruct (led_dec_ref_ K walk F w0 _ _ HF HK HL0 Ed) as [N1 R1]. inversion E0; subst. split; [exact N1|exact R1].
    - destruct (led_dec_ref_ K walk F w0 _ _ HF HK HL0 Ed) as [N1 R1]. inversion E0; subst. split; [exact N1|exact R1]. }
  destruct (negb (is_dir (fr_mode wfr))); [exact (Fail _ w o w' HL E)|].
  unfold bind at 1 in E. cbn [gets] in E.
  destruct (is_deleted (w_st w) walk); [exact (Fail _ w o w' HL E)|].
  unfold bind at 1 in E.
  destruct (walk_one true (fr_file wfr) (fr_node wfr) [n] w) as [[r|] w1] eqn:E1;
    destruct (keeps_walk_one _ _ _ _ _ _ _ E1) as (R1 & T1 & N1).
  2:{ inversion E; subst. split; [unfold s in *; lia|]. intros _.
      apply (L_keeps _ s); auto. eapply L_drop_own; [apply nonneg_d1|exact HF|exact HL]. }
  assert (HL1 : L (dadd (d1 walk) F) (w_st w1)) by (apply (L_keeps _ s); auto).
  destruct r as [e|[[q h] a]].
  { destruct (Fail _ w1 o w' HL1 E) as [N2 R2]. split; [unfold s in *; lia|exact R2]. }
  unfold bind at 1 in E.
  destruct (node_for (fr_node wfr) n w1) as [[node|] w2] eqn:E2;
    destruct (keeps_node_for _ _ _ _ _ E2) as (R2 & T2 & N2).
  2:{ inversion E; subst. split; [unfold s in *; lia|]. intros _.
      apply (L_keeps _ (w_st w1)); auto. eapply L_drop_own; [apply nonneg_d1|exact HF|exact HL1]. }
  assert (HL2 : L (dadd (d1 walk) F) (w_st w2)) by (apply (L_keeps _ (w_st w1)); auto).
  unfold bind at 1 in E. rewrite new_ref_run in E.
  set (fr := plain_ref h (ftype (bv_mode a)) node (Some walk)) in *.
  set (s2 := w_st w2) in *. set (nr := st_next_ref s2) in *.
  fold (new_state s2 fr) in E.
  unfold bind at 1 in E.
  match type of E with context [add_child ?a ?b ?c ?W] => destruct (add_child a b c W) as [[u|] w3] eqn:E3;
    destruct (keeps_add_child _ _ _ _ _ _ E3) as (R3 & T3 & N3) end; cbn [w_st] in R3, T3, N3.
  2:{ inversion E; subst. split; [rewrite N3; cbn; unfold s2, s in *; lia|]. intros _.
      eapply (L_after_new_dead F s2 fr); eauto.
      eapply L_drop_own; [apply nonneg_d1|exact HF|exact HL2]. }
  unfold bind at 1 in E. rewrite incref_run in E.
  assert (Hlive : (1 <= refsZ s2 walk)%Z).
  { eapply (L_owned_live (d1 walk) F); eauto; [apply nonneg_d1|]. rewrite d1_same. specialize (HF walk). lia. }
  pose proof (L_live_below _ _ _ HL2 Hlive) as Hwb.
  assert (G : get_ref (w_st w3) nr = fr) by (rewrite (get_ref_keeps _ _ _ R3); apply get_new_same).
  assert (Hz : refsZ (w_st w3) nr = 0%Z) by (unfold refsZ; rewrite G; reflexivity).
  rewrite Hz in E. cbn [Z.add] in E.
  assert (HL4 : L (dadd (d1 nr) F) (set_refs_of (w_st w3) nr 1)).
  { apply (L_fresh_alive F s2 fr (w_st w3)); [reflexivity| | | |exact R3|exact T3|rewrite N3; reflexivity].
    - eapply L_ext; [|exact HL2]. intros x. unfold dadd, fr. cbn. unfold d0. lia.
    - intros p Hp. unfold fr in Hp. cbn in Hp. inversion Hp; subst. exact Hwb.
    - intros p Hp. unfold fr in Hp. cbn in Hp. discriminate. }
  match type of E with walk_loop rest nr ?Q ?A ?W = _ => destruct (IH nr Q A F W o w' HF HK HL4 E) as [N5 R5] end.
  split; [|exact R5]. cbn [w_st] in N5. unfold set_refs_of in N5. cbn in N5. rewrite N3 in N5. cbn in N5.
  unfold s2, s in *. lia.
Qed.

Lemma keeps_clone_reg (del : bool) nd ref nr :
  keeps (if del then ret tt else (nm <- name_for nd ref ;; add_child nd nr nm))%m.
Proof. destruct del; [apply keeps_ret|]. apply keeps_bind; [apply keeps_name_for|intros nm; apply keeps_add_child]. Qed.

Lemma led_do_walk K ref names ga : (1 <= K ref)%Z -> led K (do_walk ref names ga) d0 walk_post true.
Proof.
  intros HKr. unfold do_walk, fail.
  destruct (negb (forallb safe_nameb names)).
  { intros F w o w' HF HK HL E. inversion E; subst. split; [lia|exact HL]. }
  destruct names as [|n0 rest0].
  2:{ intros F w o w' HF HK HL E. unfold bind in E. rewrite incref_run in E.
      assert (HL0 : L F (w_st w)) by (eapply L_ext; [|exact HL]; intros x; unfold dadd, d0; lia).
      assert (Hlive : (1 <= refsZ (w_st w) ref)%Z).
      { destruct HL0 as [L1 _]. specialize (L1 ref). pose proof (tcount_nonneg ref (st_fids (w_st w))). pose proof (rcount_nonneg ref (st_refs (w_st w))). specialize (HK ref). lia. }
      pose proof (L_incref_live _ _ _ HL0 Hlive) as HL1.
      assert (HL2 : L (dadd (d1 ref) F) (set_refs_of (w_st w) ref (refsZ (w_st w) ref + 1))) by (eapply L_ext; [|exact HL1]; intros x; unfold dadd; lia).
      match type of E with walk_loop ?a ?b ?c ?d ?W = _ => destruct (led_walk_loop K a b c d F W o w' HF HK HL2 E) as [N1 R1] end. split; [cbn in N1; exact N1|exact R1]. }
  intros F w o w' HF HK HL E.
  assert (HL0 : L F (w_st w)) by (eapply L_ext; [|exact HL]; intros x; unfold dadd, d0; lia).
  unfold bind at 1 in E. cbn [the_ref gets] in E.
  set (fr := get_ref (w_st w) ref) in *.
  destruct (fr_xof fr) eqn:Exof.
  { inversion E; subst. split; [lia|exact HL]. }
  unfold bind at 1 in E.
  destruct (walk_one ga (fr_file fr) (fr_node fr) [] w) as [[r|] w1] eqn:E1;
    destruct (keeps_walk_one _ _ _ _ _ _ _ E1) as (R1 & T1 & N1).
  2:{ inversion E; subst. split; [lia|]. intros _. apply (L_keeps _ (w_st w)); auto. }
  assert (HL1 : L F (w_st w1)) by (apply (L_keeps _ (w_st w)); auto).
  destruct r as [e|[[q h] a]].
  { inversion E; subst. split; [lia|]. eapply L_ext; [|exact HL1]. intros x; unfold dadd, walk_post, d0; lia. }
  unfold bind at 1 in E. rewrite new_ref_run in E.
  set (frn := plain_ref h (fr_mode fr) (fr_node fr) (fr_parent fr)) in *.
  set (s1 := w_st w1) in *. set (nr := st_next_ref s1) in *. fold (new_state s1 frn) in E.
  assert (Hreflive : (1 <= refsZ s1 ref)%Z).
  { destruct HL1 as [L1 _]. specialize (L1 ref). pose proof (tcount_nonneg ref (st_fids s1)). pose proof (rcount_nonneg ref (st_refs s1)). specialize (HK ref). lia. }
  pose proof (L_live_below _ _ _ HL1 Hreflive) as Hrefb.
  assert (Gref : get_ref s1 ref = fr) by (unfold fr; apply get_ref_keeps; exact R1).
  destruct (fr_parent fr) as [p|] eqn:Epar.
  - (* a parent: register under its name, take a reference on it *)
    unfold bind at 1 in E. unfold bind at 1 in E. cbn [gets] in E. unfold bind at 1 in E. cbn [the_ref gets] in E.
    unfold bind at 1 in E.
    match type of E with context [(if ?d then ret tt else _) ?W] =>
      destruct ((if d then ret tt else (nm <- name_for (fr_node (get_ref (w_st W) p)) ref ;; add_child (fr_node (get_ref (w_st W) p)) nr nm)%m) W) as [[u|] w3] eqn:E3;
      destruct (keeps_clone_reg d _ ref nr _ _ _ E3) as (R3 & T3 & N3) end; cbn [w_st] in R3, T3, N3.
    2:{ inversion E; subst. split; [rewrite N3; cbn; unfold s1 in *; lia|]. intros _.
        eapply (L_after_new_dead F s1 frn); eauto. }
    assert (HL3 : L F (w_st w3)) by (eapply (L_after_new_dead F s1 frn); eauto).
    assert (Gnr : get_ref (w_st w3) nr = frn) by (rewrite (get_ref_keeps _ _ _ R3); apply get_new_same).
    assert (Gref3 : get_ref (w_st w3) ref = fr).
    { rewrite (get_ref_keeps _ _ _ R3). transitivity (get_ref s1 ref); [apply get_new_other; fold nr; lia|exact Gref]. }
    assert (Hplive : (1 <= refsZ (w_st w3) p)%Z).
    { destruct HL3 as [L1 _]. specialize (L1 p). pose proof (rcount_ge_claims (w_st w3) ref p) as Hc.
      rewrite claims_live in Hc by (unfold refsZ; rewrite Gref3; fold (refsZ s1 ref); unfold refsZ in Hreflive; rewrite Gref in Hreflive; lia).
      unfold links, dadd in Hc. rewrite Gref3, Epar, Exof in Hc. cbn [dopt] in Hc. rewrite d1_same in Hc. unfold d0 in Hc.
      pose proof (tcount_nonneg p (st_fids (w_st w3))). specialize (HF p). lia. }
    pose proof (L_live_below _ _ _ HL3 Hplive) as Hpb. rewrite N3 in Hpb. cbn in Hpb. fold nr in Hpb.
    unfold bind at 1 in E. rewrite incref_run in E. cbn [w_st w_tape w_log] in E.
    pose proof (L_incref_live _ _ _ HL3 Hplive) as HL4.
    set (s4 := set_refs_of (w_st w3) p (refsZ (w_st w3) p + 1)) in *.
    rewrite incref_run in E. cbn [w_st w_tape w_log] in E.
    assert (Hpnr : p <> nr).
    { assert (p < nr); [|lia]. destruct (N.lt_ge_cases p nr) as [|Hge]; [assumption|].
      destruct HL1 as [L1 L2]. destruct (L2 p Hge) as [Ez Er]. specialize (L1 p). pose proof (rcount_ge_claims s1 ref p) as Hc.
      rewrite claims_live in Hc by lia. unfold links, dadd in Hc. rewrite Gref, Epar, Exof in Hc. cbn [dopt] in Hc. rewrite d1_same in Hc. unfold d0 in Hc.
      pose proof (tcount_nonneg p (st_fids s1)). lia. }
    assert (Gnr4 : get_ref s4 nr = frn) by (unfold s4, set_refs_of; rewrite get_put_ref_other by congruence; exact Gnr).
    assert (Hz4 : refsZ s4 nr = 0%Z) by (unfold refsZ; rewrite Gnr4; reflexivity).
    rewrite Hz4 in E. cbn [Z.add] in E.
    assert (Hn4 : st_next_ref s4 = nr + 1) by (unfold s4, set_refs_of; cbn; rewrite N3; reflexivity).
    assert (Hlb : links_below s4 nr).
    { intros x Hx. unfold links, dadd. rewrite Gnr4. unfold frn. cbn. rewrite d1_other by lia. reflexivity. }
    assert (Hb4 : nr < st_next_ref s4) by lia.
    pose proof (L_incref_fresh _ s4 nr HL4 Hz4 Hb4 Hlb) as HL5.
    cbv beta iota in E. cbn [ret] in E. inversion E; subst; cbn [w_st].
    split; [unfold set_refs_of; cbn; rewrite N3; cbn; unfold s1 in *; lia|].
    eapply L_ext; [|exact HL5]. intros x. unfold links, walk_post. rewrite Gnr4. unfold frn. cbn. unfold dsub, dadd, d0. lia.
  - (* a root: nothing to register *)
    unfold bind at 1 in E. cbn [ret] in E. unfold bind at 1 in E. rewrite incref_run in E. cbn [w_st w_tape w_log] in E.
    change (mkState (st_fids s1) (st_msize s1) (aset nr frn (st_refs s1)) (st_nodes s1) (nr + 1) (st_next_node s1) (st_next_handle s1)) with (new_state s1 frn) in E.
    assert (Gnr : get_ref (new_state s1 frn) nr = frn) by apply get_new_same.
    assert (Hz : refsZ (new_state s1 frn) nr = 0%Z) by (unfold refsZ; rewrite Gnr; reflexivity).
    rewrite Hz in E. cbn [Z.add] in E.
    assert (HL4 : L (dadd (d1 nr) F) (set_refs_of (new_state s1 frn) nr 1)).
    { apply (L_fresh_alive F s1 frn (new_state s1 frn)); [reflexivity| | | |reflexivity|reflexivity|reflexivity].
      - eapply L_ext; [|exact HL1]. intros x. unfold dadd, frn. cbn. unfold d0. lia.
      - intros p Hp. unfold frn in Hp. cbn in Hp. discriminate.
      - intros p Hp. unfold frn in Hp. cbn in Hp. discriminate. }
    cbn [ret] in E. inversion E; subst; cbn [w_st].
    split; [unfold set_refs_of; cbn; unfold s1 in *; lia|]. exact HL4.
Qed.

(** ref.parent = target, whatever the xattrOf *)
Lemma L_set_parent' H s r target :
  L H s -> (1 <= refsZ s r)%Z -> target < st_next_ref s ->
  (forall x, st_next_ref s <= x -> dopt (fr_parent (get_ref s r)) x = 0%Z) ->
  L (dsub (dadd H (dopt (fr_parent (get_ref s r)))) (d1 target)) (put_ref r (set_parent (get_ref s r) (Some target)) s).
Proof.
  intros [L1 L2] Hlive Ht Hlb. split.
  - intros x. rewrite refsZ_put_ref, rcount_put_ref. cbn [st_fids put_ref].
    rewrite claims_live by lia.
    assert (C : claims (set_parent (get_ref s r) (Some target)) x = (d1 target x + dopt (fr_xof (get_ref s r)) x)%Z).
    { unfold claims, live; cbn [fr_refs set_parent fr_parent fr_xof]. fold (refsZ s r). assert (E : (0 <? refsZ s r)%Z = true) by (apply Z.ltb_lt; lia).
      rewrite E. unfold opt_is, d1, dopt. destruct (fr_xof (get_ref s r)); unfold d1, d0; cbn; lia. }
    rewrite C. unfold links, dadd, dsub. specialize (L1 x).
    destruct (N.eqb_spec x r) as [->|Hne]; cbn [fr_refs set_parent]; fold (refsZ s r); lia.
  - intros x Hge. cbn in Hge. rewrite refsZ_put_ref. destruct (L2 x Hge) as [E1 E2].
    assert (x <> r) by (intros ->; lia). apply N.eqb_neq in H0. rewrite H0. split; [|assumption].
    unfold dsub, dadd. rewrite E1, (Hlb x Hge), d1_other by lia. reflexivity.
Qed.

Lemma live_parent_below H s r : L H s -> nonneg H -> (1 <= refsZ s r)%Z ->
  forall x, st_next_ref s <= x -> links s r x = 0%Z.
Proof.
  intros [L1 L2] Hn Hlive x Hge. destruct (L2 x Hge) as [E1 E2]. specialize (L1 x).
  pose proof (rcount_ge_claims s r x) as Hc. rewrite claims_live in Hc by lia.
  pose proof (tcount_nonneg x (st_fids s)). pose proof (links_nonneg s r x). lia.
Qed.

(** DecRef that does not reach zero: exactly one count less *)
Lemma dec_ref__nocascade r w :
  refsZ (w_st w) r <> 1%Z ->
  dec_ref_ r w = (Ok tt, mkW (set_refs_of (w_st w) r (refsZ (w_st w) r - 1)) (w_tape w) (w_log w)).
Proof.
  intros Hn. unfold dec_ref_, bind. change (dec_ref r w) with (decref (ref_fuel (w_st w)) r w). unfold ref_fuel.
  cbn [decref]. unfold bind at 1. cbn [the_ref gets]. unfold bind at 1. cbn [modify].
  change (fr_refs (get_ref (w_st w) r)) with (refsZ (w_st w) r).
  destruct (refsZ (w_st w) r - 1 =? 0)%Z eqn:E; [apply Z.eqb_eq in E; lia|]. reflexivity.
Qed.

(** the callback renameChildTo runs on every moved fidRef: its parent reference moves to [target].
    Between DecRef of the old parent and the assignment the ledger is in debt: a panic there is unsafe. *)
Definition rename_fn (target : refid) (tnode : nodeid) (tfile : handle) (new : string) (r : refid) : M unit :=
  (fr <- the_ref r ;;
   modify (put_ref r (set_parent fr (Some target))) ;;
   incref target ;;
   add_child tnode r new ;;
   backend (mkCall MRenamed (fr_file fr) [new] (Some tfile) [] []) ;;
   match fr_parent fr with
   | None => panic
   | Some p => dec_ref_ p
   end ;;
   ret tt)%m.

Lemma next_ref_mono_dec_ref_ r w o w' : dec_ref_ r w = (o, w') -> st_next_ref (w_st w) <= st_next_ref (w_st w').
Proof.
  intros E. destruct (N.lt_ge_cases r (st_next_ref (w_st w))) as [Hb|Hge].
  - (* any ledger will do for the mark: use the trivial frame of the core lemma through only_refs *)
    assert (G : forall fuel r w o w', decref fuel r w = (o, w') -> st_next_ref (w_st w) <= st_next_ref (w_st w')).
    { clear. induction fuel as [|k IH]; intros r w o w' E; [inversion E; lia|].
      cbn [decref] in E. unfold bind at 1 in E. cbn [the_ref gets] in E. unfold bind at 1 in E. cbn [modify] in E.
      destruct (_ =? 0)%Z; [|inversion E; subst; cbn; lia].
      unfold bind at 1 in E.
      match type of E with (let (o0, w'0) := ?X in _) = _ => destruct X as [[e1|] w2] eqn:E1 end.
      - assert (N1 : st_next_ref (w_st w) <= st_next_ref (w_st w2)).
        { destruct (fr_xof (get_ref (w_st w) r)); [apply IH in E1; cbn in E1; exact E1|].
          unfold bind, backend in E1. cbn in E1. destruct (w_tape w) as [|a t]; [|destruct a]; cbn in E1; inversion E1; subst; cbn; lia. }
        unfold bind at 1 in E.
        destruct (fr_parent (get_ref (w_st w) r)).
        + unfold bind at 1 in E. cbn [the_ref gets] in E. unfold bind at 1 in E. cbn [remove_child modify] in E.
          match type of E with (let (o0, w'0) := ?X in _) = _ => destruct X as [[e2|] w3] eqn:E2 end;
            apply IH in E2; cbn in E2; inversion E; subst; lia.
        + cbn in E. inversion E; subst. exact N1.
      - inversion E; subst.
        destruct (fr_xof (get_ref (w_st w) r)); [apply IH in E1; cbn in E1; exact E1|].
        unfold bind, backend in E1. cbn in E1. destruct (w_tape w) as [|a t]; [|destruct a]; cbn in E1; inversion E1; subst; cbn; lia. }
    unfold dec_ref_, bind in E. change (dec_ref r w) with (decref (ref_fuel (w_st w)) r w) in E.
    destruct (decref _ r w) as [[e|] w3] eqn:E3; inversion E; subst; eapply G; eauto.
  - assert (G : forall fuel r w o w', decref fuel r w = (o, w') -> st_next_ref (w_st w) <= st_next_ref (w_st w')).
    { clear. induction fuel as [|k IH]; intros r w o w' E; [inversion E; lia|].
      cbn [decref] in E. unfold bind at 1 in E. cbn [the_ref gets] in E. unfold bind at 1 in E. cbn [modify] in E.
      destruct (_ =? 0)%Z; [|inversion E; subst; cbn; lia].
      unfold bind at 1 in E.
      match type of E with (let (o0, w'0) := ?X in _) = _ => destruct X as [[e1|] w2] eqn:E1 end.
      - assert (N1 : st_next_ref (w_st w) <= st_next_ref (w_st w2)).
        { destruct (fr_xof (get_ref (w_st w) r)); [apply IH in E1; cbn in E1; exact E1|].
          unfold bind, backend in E1. cbn in E1. destruct (w_tape w) as [|a t]; [|destruct a]; cbn in E1; inversion E1; subst; cbn; lia. }
        unfold bind at 1 in E.
        destruct (fr_parent (get_ref (w_st w) r)).
        + unfold bind at 1 in E. cbn [the_ref gets] in E. unfold bind at 1 in E. cbn [remove_child modify] in E.
          match type of E with (let (o0, w'0) := ?X in _) = _ => destruct X as [[e2|] w3] eqn:E2 end;
            apply IH in E2; cbn in E2; inversion E; subst; lia.
        + cbn in E. inversion E; subst. exact N1.
      - inversion E; subst.
        destruct (fr_xof (get_ref (w_st w) r)); [apply IH in E1; cbn in E1; exact E1|].
        unfold bind, backend in E1. cbn in E1. destruct (w_tape w) as [|a t]; [|destruct a]; cbn in E1; inversion E1; subst; cbn; lia. }
    unfold dec_ref_, bind in E. change (dec_ref r w) with (decref (ref_fuel (w_st w)) r w) in E.
    destruct (decref _ r w) as [[e|] w3] eqn:E3; inversion E; subst; eapply G; eauto.
Qed.

Lemma led_rename_fn K target tnode tfile new r :
  (1 <= K r)%Z -> (1 <= K target)%Z -> led K (rename_fn target tnode tfile new r) d0 (fun _ => d0) true.
Proof.
  intros HKr HKt F w o w' HF HK HL E.
  assert (HL0 : L F (w_st w)) by (eapply L_ext; [|exact HL]; intros x; unfold dadd, d0; lia).
  unfold rename_fn in E. unfold bind at 1 in E. cbn [the_ref gets] in E.
  assert (Hrlive : (1 <= refsZ (w_st w) r)%Z).
  { destruct HL0 as [L1 _]. specialize (L1 r). pose proof (tcount_nonneg r (st_fids (w_st w))). pose proof (rcount_nonneg r (st_refs (w_st w))). specialize (HK r). lia. }
  assert (Htlive : (1 <= refsZ (w_st w) target)%Z).
  { destruct HL0 as [L1 _]. specialize (L1 target). pose proof (tcount_nonneg target (st_fids (w_st w))). pose proof (rcount_nonneg target (st_refs (w_st w))). specialize (HK target). lia. }
  pose proof (L_live_below _ _ _ HL0 Htlive) as Htb.
  assert (Hlinks : forall x, st_next_ref (w_st w) <= x -> links (w_st w) r x = 0%Z) by (apply (live_parent_below F); auto).
  assert (Hlb : forall x, st_next_ref (w_st w) <= x -> dopt (fr_parent (get_ref (w_st w) r)) x = 0%Z).
  { intros x Hx. specialize (Hlinks x Hx). unfold links, dadd in Hlinks.
    pose proof (dopt_nonneg (fr_parent (get_ref (w_st w) r)) x). pose proof (dopt_nonneg (fr_xof (get_ref (w_st w) r)) x). lia. }
  pose proof (L_set_parent' _ (w_st w) r target HL0 Hrlive Htb Hlb) as HL1.
  unfold bind at 1 in E. cbn [modify w_st w_tape w_log] in E.
  match type of HL1 with L _ ?S1 => set (s1 := S1) in * end.
  assert (Htlive1 : (1 <= refsZ s1 target)%Z).
  { unfold s1. rewrite refsZ_put_ref. destruct (target =? r) eqn:Et; [apply N.eqb_eq in Et; subst; cbn; exact Hrlive|exact Htlive]. }
  unfold bind at 1 in E. rewrite incref_run in E. cbn [w_st w_tape w_log] in E.
  pose proof (L_incref_live _ _ _ HL1 Htlive1) as HL2.
  match type of HL2 with L _ ?S2 => set (s2 := S2) in * end.
  assert (HL2' : L (dadd (dopt (fr_parent (get_ref (w_st w) r))) F) s2) by (eapply L_ext; [|exact HL2]; intros x; unfold dsub, dadd; lia).
  assert (N2 : st_next_ref s2 = st_next_ref (w_st w)) by reflexivity.
  assert (Drop : forall s3, st_refs s3 = st_refs s2 -> st_fids s3 = st_fids s2 -> st_next_ref s3 = st_next_ref s2 -> L F s3).
  { intros s3 A B C. apply (L_keeps _ s2); auto. eapply L_drop_own; [intros x; apply dopt_nonneg|exact HF|exact HL2']. }
  unfold bind at 1 in E.
  match type of E with context [add_child ?a ?b ?c ?W] => destruct (add_child a b c W) as [[u1|] w4] eqn:E4;
    destruct (keeps_add_child _ _ _ _ _ _ E4) as (R4 & T4 & N4) end; cbn [w_st] in R4, T4, N4.
  2:{ inversion E; subst. split; [rewrite N4; exact (N.le_refl _)|intros _; apply Drop; assumption]. }
  unfold bind at 1 in E.
  match type of E with context [backend ?c ?W] => destruct (backend c W) as [[u2|] w5] eqn:E5;
    destruct (keeps_backend _ _ _ _ E5) as (R5 & T5 & N5) end.
  2:{ inversion E; subst. split; [rewrite N5, N4; exact (N.le_refl _)|intros _; apply Drop; [rewrite R5; exact R4|rewrite T5; exact T4|rewrite N5; exact N4]]. }
  assert (HL5 : L (dadd (dopt (fr_parent (get_ref (w_st w) r))) F) (w_st w5)).
  { apply (L_keeps _ (w_st w4)); auto. apply (L_keeps _ s2); auto. }
  unfold bind at 1 in E.
  destruct (fr_parent (get_ref (w_st w) r)) as [p|] eqn:Ep.
  - assert (Hpb : p < st_next_ref (w_st w5)).
    { rewrite N5, N4. change (p < st_next_ref (w_st w)). destruct (N.lt_ge_cases p (st_next_ref (w_st w))) as [|Hge]; [assumption|].
      specialize (Hlb p Hge). cbn [dopt] in Hlb. rewrite d1_same in Hlb. lia. }
    destruct (dec_ref_ p w5) as [od w6] eqn:Ed.
    destruct (dec_ref__core p _ w5 od w6 HL5 Hpb Ed) as [HL6 (_ & _ & En & _)].
    assert (HL6' : L F (w_st w6)) by (eapply L_ext; [|exact HL6]; intros x; unfold dsub, dadd, dopt; lia).
    destruct od; inversion E; subst; (split; [rewrite En, N5, N4; exact (N.le_refl _)|]).
    + eapply L_ext; [|exact HL6']. intros x; unfold dadd, d0; lia.
    + intros _. exact HL6'.
  - inversion E; subst. split; [rewrite N5, N4; exact (N.le_refl _)|]. intros _.
    eapply L_ext; [|exact HL5]. intros x; unfold dadd, dopt, d0; lia.
Qed.

Lemma dle_refl K : dle K K. Proof. intros x; lia. Qed.
Lemma dle_add K r : dle K (dadd K (d1 r)). Proof. intros x; unfold dadd; pose proof (ind_nonneg (r =? x)); unfold d1; lia. Qed.
Lemma dle_trans a b c : dle a b -> dle b c -> dle a c. Proof. intros H1 H2 x; specialize (H1 x); specialize (H2 x); lia. Qed.

Lemma nonneg_add a b : nonneg a -> nonneg b -> nonneg (dadd a b).
Proof. intros Ha Hb x; unfold dadd; specialize (Ha x); specialize (Hb x); lia. Qed.

Lemma led_rwn_loop {A} n (f : refid -> M unit) (k : M A) postk :
  (forall a, nonneg (postk a)) ->
  forall rs K, nonneg K ->
  (forall K' r, nonneg K' -> dle K K' -> (1 <= K' r)%Z -> led K' (f r) d0 (fun _ => d0) true) ->
  (forall K', nonneg K' -> dle K K' -> led K' k d0 postk true) ->
  led K (rwn_loop n (Some f) rs k) d0 postk true.
Proof.
  intros Hpk rs. induction rs as [|r rest IH]; intros K HKn Hf Hk; cbn [rwn_loop]; [apply Hk; [exact HKn|apply dle_refl]|].
  intros F w o w' HF HK HL E.
  unfold bind at 1 in E.
  destruct (remove_child n r w) as [[u|] w1] eqn:E1; destruct (keeps_remove_child _ _ _ _ _ E1) as (R1 & T1 & N1).
  2:{ inversion E; subst. split; [lia|]. intros _. apply (L_keeps _ (w_st w)); auto. }
  assert (HL1 : L (dadd d0 F) (w_st w1)) by (apply (L_keeps _ (w_st w)); auto).
  unfold bind at 1 in E. cbn [the_ref gets] in E.
  destruct (0 <? fr_refs (get_ref (w_st w1) r))%Z eqn:Elive.
  - apply Z.ltb_lt in Elive. unfold bind at 1 in E. rewrite incref_run in E.
    assert (HL2 : L (dadd (dadd (d1 r) d0) F) (set_refs_of (w_st w1) r (refsZ (w_st w1) r + 1))).
    { eapply L_ext; [|apply (L_incref_live _ _ r HL1); unfold refsZ; lia]. intros x; unfold dadd, d0; lia. }
    assert (HKn' : nonneg (dadd K (d1 r))) by (apply nonneg_add; [exact HKn|apply nonneg_d1]).
    assert (Hbody : led (dadd K (d1 r)) (f r ;; rwn_loop n (Some f) rest k)%m d0 postk true).
    { change true with (true && true). eapply led_bind0.
      - apply Hf; [exact HKn'|apply dle_add|unfold dadd; rewrite d1_same; specialize (HKn r); lia].
      - intros u0. cbn beta. apply IH; [exact HKn'| |].
        + intros K' r' Hn' Hle Hr'. apply Hf; auto. eapply dle_trans; [apply dle_add|exact Hle].
        + intros K' Hn' Hle. apply Hk; auto. eapply dle_trans; [apply dle_add|exact Hle]. }
    pose proof (led_with_defer K r _ d0 postk true Hbody Hpk) as Hwd.
    match type of E with with_defer _ _ ?W = _ => destruct (Hwd F W o w' HF HK HL2 E) as [N2 R2] end.
    split; [cbn in N2; unfold set_refs_of in N2; cbn in N2; lia|exact R2].
  - assert (Hrest : led K (rwn_loop n (Some f) rest k) d0 postk true) by (apply IH; auto).
    destruct (Hrest F w1 o w' HF HK HL1 E) as [N2 R2]. split; [lia|exact R2].
Qed.

Lemma led_unsafe {A} K (m : M A) own post : led K m own post true -> led K m own post false.
Proof. intros H. eapply led_conseq; [exact H|reflexivity|reflexivity|discriminate]. Qed.

Lemma led_neutral0 {A} K (m : M A) : neutral m -> led K m d0 (fun _ => d0) true.
Proof. intros H. apply led_neutral; [exact H|apply nonneg_d0]. Qed.

(** neutral step then the rest, result flag that of the rest *)
Lemma led_nbind {A B} K (m : M A) (f : A -> M B) post s :
  neutral m -> (forall a, led K (f a) d0 post s) -> led K (bind m f) d0 post s.
Proof.
  intros Hm Hf. change s with (true && s). eapply led_bind0; [apply led_neutral0; exact Hm|exact Hf].
Qed.

Lemma led_weaken_safe' {A} K (m : M A) own post (s s' : bool) : led K m own post s -> (s' = true -> s = true) -> led K m own post s'.
Proof. intros H Hs. eapply led_conseq; [exact H|reflexivity|reflexivity|exact Hs]. Qed.
Lemma led_neutral0' {A} K (m : M A) post : neutral m -> (forall a, post a = d0) -> led K m d0 post true.
Proof.
  intros H Hp. eapply led_conseq; [apply led_neutral; [exact H|apply nonneg_d0]|reflexivity| |auto]. intros a x. now rewrite Hp.
Qed.

Fixpoint dsum (l : list refid) : delta := match l with [] => d0 | r :: t => dadd (d1 r) (dsum t) end.
Lemma nonneg_dsum l : nonneg (dsum l).
Proof. induction l as [|r t IH]; cbn; [apply nonneg_d0|apply nonneg_add; [apply nonneg_d1|exact IH]]. Qed.
Lemma dsum_app a b x : dsum (a ++ b)%list x = (dsum a x + dsum b x)%Z.
Proof. induction a as [|r t IH]; cbn; unfold dadd, d0 in *; [lia|rewrite IH; lia]. Qed.

Lemma led_frame {A} K (m : M A) own post s rest :
  led K m own post s -> nonneg rest -> led K m (dadd own rest) (fun a => dadd (post a) rest) s.
Proof.
  intros Hm Hr F w o w' HF HK HL E.
  assert (HF' : nonneg (dadd rest F)) by (apply nonneg_add; assumption).
  assert (HK' : dle K (dadd rest F)) by (intros x; unfold dadd; specialize (HK x); specialize (Hr x); lia).
  assert (HL' : L (dadd own (dadd rest F)) (w_st w)) by (eapply L_ext; [|exact HL]; intros x; unfold dadd; lia).
  destruct (Hm _ _ _ _ HF' HK' HL' E) as [N1 R1]. split; [exact N1|]. destruct o.
  - eapply L_ext; [|exact R1]. intros x; unfold dadd; lia.
  - intros Hs. eapply L_drop_own; [exact Hr|exact HF|]. apply R1, Hs.
Qed.
Lemma led_ret_eq {A} K (a : A) own (post : A -> delta) : (forall x, post a x = own x) -> led K (ret a) own post true.
Proof. intros Hp F w o w' HF HK HL E. inversion E; subst. split; [lia|]. eapply L_ext; [|exact HL]. intros x; unfold dadd; now rewrite Hp. Qed.
Lemma led_nbind' {A B} K (m : M A) (f : A -> M B) own post s :
  neutral m -> nonneg own -> (forall a, led K (f a) own post s) -> led K (bind m f) own post s.
Proof.
  intros Hm Ho Hf. eapply led_weaken_safe'; [eapply led_bind0; [apply led_neutral; [exact Hm|exact Ho]|exact Hf]|].
  intros H. rewrite H. reflexivity.
Qed.

Lemma led_panic {A} K (post : A -> delta) : led K (@panic A) d0 post true.
Proof. intros F w o w' HF HK HL E. inversion E; subst. split; [lia|]. intros _. eapply L_ext; [|exact HL]. intros x; unfold dadd, d0; lia. Qed.

Lemma led_notify_name_change {A} fuel (postk : A -> delta) : (forall a, nonneg (postk a)) ->
  forall n (k : M A) K, nonneg K -> (forall K', nonneg K' -> dle K K' -> led K' k d0 postk true) ->
  led K (notify_name_change fuel n k) d0 postk true.
Proof.
  intros Hpk. induction fuel as [|f IH]; intros n k K HKn Hk; cbn [notify_name_change].
  { intros F w o w' HF HK HL E. inversion E; subst. split; [lia|]. intros _. eapply L_ext; [|exact HL]. intros x; unfold dadd, d0; lia. }
  apply led_nbind; [apply neutral_the_node|intros p].
  generalize (pn_refs p) as l. intros l. revert K HKn Hk. induction l as [|[r nm] rest IHl]; intros K HKn Hk.
  - generalize (pn_kids p) as kids. intros kids. revert K HKn Hk. induction kids as [|[nm c] rest IHk]; intros K HKn Hk; [apply Hk; [exact HKn|apply dle_refl]|].
    apply IH; [exact HKn|]. intros K' Hn' Hle. apply IHk; [exact Hn'|]. intros K'' Hn'' Hle'. apply Hk; [exact Hn''|eapply dle_trans; eauto].
  - intros F w o w' HF HK HL E.
    unfold bind at 1 in E. cbn [the_ref gets] in E.
    destruct (0 <? fr_refs (get_ref (w_st w) r))%Z eqn:Elive; [|exact (IHl K HKn Hk F w o w' HF HK HL E)].
    apply Z.ltb_lt in Elive. unfold bind at 1 in E. rewrite incref_run in E.
    assert (HL2 : L (dadd (dadd (d1 r) d0) F) (set_refs_of (w_st w) r (refsZ (w_st w) r + 1))).
    { eapply L_ext; [|apply (L_incref_live _ _ r HL); unfold refsZ; lia]. intros x; unfold dadd, d0; lia. }
    assert (HKn' : nonneg (dadd K (d1 r))) by (apply nonneg_add; [exact HKn|apply nonneg_d1]).
    match type of E with with_defer _ ?B ?W = _ =>
      assert (Hbody : led (dadd K (d1 r)) B d0 postk true);
      [|pose proof (led_with_defer K r B d0 postk true Hbody Hpk) as Hwd; destruct (Hwd F W o w' HF HK HL2 E) as [N2 R2]] end.
    2:{ split; [cbn in N2; unfold set_refs_of in N2; cbn in N2; exact N2|exact R2]. }
    destruct (fr_parent (get_ref (w_st w) r)); [|apply led_panic].
    apply led_nbind; [apply neutral_the_ref|intros pfr]. apply led_nbind; [apply neutral_backend|intros _].
    apply IHl; [exact HKn'|]. intros K' Hn' Hle. apply Hk; [exact Hn'|eapply dle_trans; [apply dle_add|exact Hle]].
Qed.

Lemma rename_child_to_eq f old target new :
  rename_child_to f old target new =
  (ffr <- the_ref f ;;
   tfr <- the_ref target ;;
   mark_child_deleted (fr_node tfr) new ;;
   o <- remove_with_name (fr_node ffr) old (Some (rename_fn target (fr_node tfr) (fr_file tfr) new)) ;;
   match o with
   | Some c => add_path_node_for (fr_node tfr) new c ;; fuel <- gets node_fuel ;; notify_name_change fuel c (ret tt)
   | None => ret tt
   end)%m.
Proof. reflexivity. Qed.

Lemma led_rename_child_to K f old target new :
  nonneg K -> (1 <= K target)%Z -> led K (rename_child_to f old target new) d0 (fun _ => d0) true.
Proof.
  intros HKn HKt. rewrite rename_child_to_eq.
  apply led_nbind; [apply neutral_the_ref|intros ffr].
  apply led_nbind; [apply neutral_the_ref|intros tfr].
  apply led_nbind; [apply neutral_mark_child_deleted|intros _].
  change true with (true && true). eapply led_bind0.
  - unfold remove_with_name. apply led_nbind; [apply neutral_the_node|intros p].
    apply (led_rwn_loop (A := option nodeid)); [intros a; apply nonneg_d0| exact HKn | |].
    + intros K' r Hn' Hle Hr. apply led_rename_fn; [exact Hr|specialize (Hle target); lia].
    + intros K' Hn' Hle. apply led_neutral0. apply neutral_rwn_tail.
  - intros o. destruct o as [c|]; [|apply led_ret].
    apply led_nbind; [apply neutral_add_path_node_for|intros _].
    apply led_nbind; [apply neutral_gets|intros fuel].
    apply led_notify_name_change; [intros; apply nonneg_d0|exact HKn|]. intros K' Hn' Hle. apply led_ret.
Qed.

Definition is_rename (m : tmsg) : bool := match m with Trename _ _ _ | Trenameat _ _ _ _ => true | _ => false end.

Ltac neu :=
  repeat first
    [ apply neutral_ret | apply neutral_panic | apply neutral_the_ref | apply neutral_the_node | apply neutral_gets
    | apply neutral_backend | apply neutral_fresh_handle | apply neutral_node_for | apply neutral_add_child
    | apply neutral_name_for | apply neutral_mark_child_deleted
    | apply neutral_bind; [|intros ?]
    | match goal with
      | |- neutral (match ?x with _ => _ end) => destruct x
      | |- neutral (let '(_, _) := ?x in _) => destruct x
      | |- neutral (if ?b then _ else _) => destruct b
      end ].

(** a fidRef is replaced by one with the same count and links, after steps that kept the fidRefs *)
Lemma neutral_modify_after_keeps {A} r (g : fidref) (m : M A) w a w1 :
  keeps m -> m w = (Ok a, w1) ->
  fr_refs g = fr_refs (get_ref (w_st w) r) -> fr_parent g = fr_parent (get_ref (w_st w) r) -> fr_xof g = fr_xof (get_ref (w_st w) r) ->
  same_ledger (w_st w1) (put_ref r g (w_st w1)).
Proof.
  intros Hk E E1 E2 E3. destruct (Hk _ _ _ E) as (R & _ & _).
  apply same_put_ref; rewrite (get_ref_keeps _ _ _ R); assumption.
Qed.

Lemma bind_assoc_run {A B C} (m : M A) (n : M B) (k : M C) w :
  (m ;; n ;; k)%m w = ((m ;; n) ;; k)%m w.
Proof. unfold bind. destruct (m w) as [[a|] w1]; reflexivity. Qed.

(** a fresh dead fidRef [nr] whose single link (parent or xattrOf) is [r] gets bound to a fid:
    ref.IncRef() ; cs.InsertFID(fid, newRef) *)
Lemma fresh_bind_chunk K F c f r nr w o w' :
  nonneg F -> dle K F -> (1 <= K r)%Z -> L F (w_st w) ->
  refsZ (w_st w) nr = 0%Z -> nr < st_next_ref (w_st w) -> nr <> r -> (forall x, links (w_st w) nr x = d1 r x) ->
  (incref r ;; insert_fid c f nr)%m w = (o, w') ->
  st_next_ref (w_st w) <= st_next_ref (w_st w') /\ L F (w_st w').
Proof.
  intros HF HK HKr HL Hz Hnb Hne Hlk E.
  unfold bind at 1 in E. rewrite incref_run in E.
  set (s := w_st w) in *.
  assert (Hrlive : (1 <= refsZ s r)%Z).
  { destruct HL as [L1 _]. specialize (L1 r). pose proof (tcount_nonneg r (st_fids s)). pose proof (rcount_nonneg r (st_refs s)). specialize (HK r). lia. }
  pose proof (L_live_below _ _ _ HL Hrlive) as Hrb.
  pose proof (L_incref_live _ _ _ HL Hrlive) as HL1.
  set (s1 := set_refs_of s r (refsZ s r + 1)) in *.
  unfold insert_fid in E. unfold bind at 1 in E. cbn [gets w_st] in E.
  set (orig := tlookup (c, f) (st_fids s1)) in *.
  unfold bind at 1 in E. rewrite incref_run in E. cbn [w_st w_tape w_log] in E.
  assert (G1 : get_ref s1 nr = get_ref s nr) by (unfold s1, set_refs_of; apply get_put_ref_other; exact Hne).
  assert (Hz1 : refsZ s1 nr = 0%Z) by (unfold refsZ; rewrite G1; exact Hz).
  rewrite Hz1 in E. cbn [Z.add] in E.
  assert (Hlk1 : forall x, links s1 nr x = d1 r x) by (intros x; unfold links; rewrite G1; apply Hlk).
  assert (Hlb1 : links_below s1 nr) by (intros x Hx; rewrite Hlk1; apply d1_other; unfold s1, set_refs_of in Hx; cbn in Hx; lia).
  assert (Hnb1 : nr < st_next_ref s1) by exact Hnb.
  pose proof (L_incref_fresh _ s1 nr HL1 Hz1 Hnb1 Hlb1) as HL2.
  set (s2 := set_refs_of s1 nr 1) in *.
  unfold bind at 1 in E. cbn [modify w_st w_tape w_log] in E.
  assert (Hnb2 : nr < st_next_ref s2) by exact Hnb.
  pose proof (L_tset _ s2 (c, f) nr HL2 Hnb2) as HL3.
  change (st_fids s2) with (st_fids s1) in *. fold orig in HL3.
  assert (HL3' : L (dadd F (dopt orig)) (put_fids (tset (c, f) nr (st_fids s1)) s2)).
  { eapply L_ext; [|exact HL3]. intros x. unfold dsub, dadd. rewrite Hlk1. lia. }
  destruct orig as [og|] eqn:Eo.
  - assert (Hog : og < st_next_ref s).
    { eapply (L_claimed_below F s); eauto. unfold orig in Eo. change (st_fids s1) with (st_fids s) in Eo.
      pose proof (tcount_tlookup _ _ _ Eo). pose proof (rcount_nonneg og (st_refs s)). lia. }
    match type of E with dec_ref_ og ?W = _ => destruct (dec_ref__core og _ W o w' HL3' Hog E) as [HL4 (_ & _ & En & _)] end.
    split; [rewrite En; exact (N.le_refl _)|].
    eapply L_ext; [|exact HL4]. intros x; unfold dsub, dadd, dopt; lia.
  - inversion E; subst; cbn [w_st]. split; [exact (N.le_refl _)|].
    eapply L_ext; [|exact HL3']. intros x; unfold dadd, dopt, d0; lia.
Qed.

Lemma led_body K c m r t :
  nonneg K -> (1 <= K r)%Z -> (1 <= K t)%Z -> led K (body c m r t) d0 (fun _ => d0) true.
Proof.
  intros HKn HKr HKt F w o w' HF HK HL E.
  unfold body in E. unfold bind at 1 in E. cbn [the_ref gets] in E. unfold bind at 1 in E. cbn [the_ref gets] in E.
  set (fr := get_ref (w_st w) r) in *. set (tfr := get_ref (w_st w) t) in *.
  assert (HL0 : L F (w_st w)) by (eapply L_ext; [|exact HL]; intros x; unfold dadd, d0; lia).
  assert (Ld0 : forall s, L F s -> L (dadd d0 F) s) by (intros s0 H0; eapply L_ext; [|exact H0]; intros x; unfold dadd, d0; lia).
  assert (Neu : forall (mm : M (res reply)), neutral mm -> mm w = (o, w') ->
            st_next_ref (w_st w) <= st_next_ref (w_st w') /\
            match o with Ok a => L (dadd d0 F) (w_st w') | Panic => true = true -> L F (w_st w') end).
  { intros mm Hn Em. exact (led_neutral0 K mm Hn F w o w' HF HK HL Em). }
  assert (Walk : forall (ga : bool) (names : list string) (nf : N) (mk : list N -> bval -> reply),
            (w0 <- do_walk r names ga ;;
             match w0 with
             | inl e => ret (inl e)
             | inr (q, nr, a) => with_defer (dec_ref_ nr) (insert_fid c nf nr ;; ret (inr (mk q a)))
             end)%m w = (o, w') ->
            st_next_ref (w_st w) <= st_next_ref (w_st w') /\
            match o with Ok a => L (dadd d0 F) (w_st w') | Panic => true = true -> L F (w_st w') end).
  { intros ga names nf mk Ew. unfold bind at 1 in Ew.
    destruct (do_walk r names ga w) as [[x|] w1] eqn:E1;
      destruct (led_do_walk K r names ga HKr F w _ _ HF HK HL E1) as [N1 R1].
    2:{ inversion Ew; subst. split; [exact N1|exact R1]. }
    destruct x as [e|[[q nr] a]]; [inversion Ew; subst; split; [exact N1|exact R1]|]. cbn [walk_post] in R1.
    assert (Hwd : led K (with_defer (dec_ref_ nr) (insert_fid c nf nr ;; ret (@inr errv reply (mk q a)))%m) (dadd (d1 nr) d0) (fun _ => d0) true).
    { apply led_with_defer; [|intros; apply nonneg_d0].
      change true with (true && true). eapply led_bind0; [apply led_insert_fid_live; unfold dadd; rewrite d1_same; specialize (HKn nr); lia|intros u0; apply led_ret]. }
    assert (R1' : L (dadd (dadd (d1 nr) d0) F) (w_st w1)) by (eapply L_ext; [|exact R1]; intros x; unfold dadd, d0; lia).
    destruct (Hwd F w1 o w' HF HK R1' Ew) as [N2 R2]. split; [first [exact (N.le_refl _)|lia]|exact R2]. }
  destruct m; try (apply Neu in E; [exact E|solve [unfold fail; neu]]).
  - (* Twalk *) exact (Walk false names nf (fun q _ => ok p9_msgRwalk q) E).
  - (* Twalkgetattr *) exact (Walk true names nf (fun q a => ok p9_msgRwalkgetattr (q ++ [bv_mode a])%list) E).
  - (* Tlopen *)
    unfold bind at 1 in E.
    match type of E with context [backend ?cl w] => destruct (backend cl w) as [[[v e]|] w1] eqn:E1;
      destruct (keeps_backend _ _ _ _ E1) as (R1 & T1 & N1) end.
    2:{ inversion E; subst. split; [first [exact (N.le_refl _)|lia]|]. intros _. apply (L_keeps _ (w_st w)); auto. }
    assert (HL1 : L (dadd d0 F) (w_st w1)) by (apply (L_keeps _ (w_st w)); auto).
    destruct (is_err e); [inversion E; subst; split; [first [exact (N.le_refl _)|lia]|exact HL1]|].
    unfold bind in E. cbn [modify ret] in E. inversion E; subst; cbn [w_st]. split; [cbn; lia|].
    eapply same_ledger_L; [|exact HL1]. apply same_put_ref; rewrite (get_ref_keeps _ _ _ R1); reflexivity.
  - (* Tlcreate *)
    unfold bind at 1 in E.
    match type of E with context [backend ?cl w] => destruct (backend cl w) as [[[v e]|] w1] eqn:E1;
      destruct (keeps_backend _ _ _ _ E1) as (R1 & T1 & N1) end.
    2:{ inversion E; subst. split; [first [exact (N.le_refl _)|lia]|]. intros _. apply (L_keeps _ (w_st w)); auto. }
    assert (HL1 : L F (w_st w1)) by (apply (L_keeps _ (w_st w)); auto).
    destruct (is_err e); [inversion E; subst; split; [first [exact (N.le_refl _)|lia]|apply Ld0; exact HL1]|].
    unfold bind at 1 in E.
    destruct (fresh_handle w1) as [[h|] w2] eqn:E2; destruct (keeps_fresh_handle _ _ _ E2) as (R2 & T2 & N2).
    2:{ inversion E; subst. split; [first [exact (N.le_refl _)|lia]|]. intros _. apply (L_keeps _ (w_st w1)); auto. }
    unfold bind at 1 in E.
    destruct (node_for (fr_node fr) name w2) as [[node|] w3] eqn:E3; destruct (keeps_node_for _ _ _ _ _ E3) as (R3 & T3 & N3).
    2:{ inversion E; subst. split; [first [exact (N.le_refl _)|lia]|]. intros _. apply (L_keeps _ (w_st w2)); auto. apply (L_keeps _ (w_st w1)); auto. }
    assert (HL3 : L F (w_st w3)) by (apply (L_keeps _ (w_st w2)); auto; apply (L_keeps _ (w_st w1)); auto).
    unfold bind at 1 in E. rewrite new_ref_run in E.
    set (s3 := w_st w3) in *. set (nr := st_next_ref s3) in *.
    set (frn := mkRef h 0 true flags p9_ModeRegular node (Some r) p9_xattrNone "" 0 0 0 None) in *.
    fold (new_state s3 frn) in E.
    unfold bind at 1 in E.
    match type of E with context [add_child ?a ?b ?cc ?W] => destruct (add_child a b cc W) as [[uu|] w4] eqn:E4;
      destruct (keeps_add_child _ _ _ _ _ _ E4) as (R4 & T4 & N4) end; cbn [w_st] in R4, T4, N4.
    2:{ inversion E; subst. split; [rewrite N4; cbn; unfold s3 in *; lia|]. intros _. eapply (L_after_new_dead F s3 frn); eauto. }
    assert (HL4 : L F (w_st w4)) by (eapply (L_after_new_dead F s3 frn); eauto).
    assert (Gnr : get_ref (w_st w4) nr = frn) by (rewrite (get_ref_keeps _ _ _ R4); apply get_new_same).
    assert (Hrb : r < nr).
    { assert (Hrl : (1 <= refsZ s3 r)%Z).
      { destruct HL3 as [L1 _]. specialize (L1 r). pose proof (tcount_nonneg r (st_fids s3)). pose proof (rcount_nonneg r (st_refs s3)). specialize (HK r). lia. }
      exact (L_live_below _ _ _ HL3 Hrl). }
    assert (Hz4 : refsZ (w_st w4) nr = 0%Z) by (unfold refsZ; rewrite Gnr; reflexivity).
    assert (Hnb4 : nr < st_next_ref (w_st w4)) by (rewrite N4; cbn; fold nr; lia).
    assert (Hne4 : nr <> r) by lia.
    assert (Hlk4 : forall x, links (w_st w4) nr x = d1 r x) by (intros x; unfold links; rewrite Gnr; unfold frn; cbn; unfold dadd, d0; lia).
    assert (Hchunk : st_next_ref (w_st w4) <= st_next_ref (w_st w') /\ L F (w_st w')).
    { rewrite bind_assoc_run in E. unfold bind at 1 in E.
      destruct ((incref r ;; insert_fid c f nr)%m w4) as [[u5|] w5] eqn:Eb.
      - destruct (fresh_bind_chunk K F c f r nr w4 _ _ HF HK HKr HL4 Hz4 Hnb4 Hne4 Hlk4 Eb) as [N5 R5].
        cbn [ret] in E. inversion E; subst. split; [exact N5|exact R5].
      - destruct (fresh_bind_chunk K F c f r nr w4 _ _ HF HK HKr HL4 Hz4 Hnb4 Hne4 Hlk4 Eb) as [N5 R5].
        inversion E; subst. split; [exact N5|exact R5]. }
    destruct Hchunk as [N5 R5]. split; [rewrite N4 in N5; cbn in N5; unfold s3 in *; lia|].
    destruct o; [apply Ld0; exact R5|intros _; exact R5].
  - (* Trenameat *)
    destruct (_ && _); [inversion E; subst; split; [first [exact (N.le_refl _)|lia]|exact HL]|].
    unfold bind at 1 in E.
    match type of E with context [backend ?cl w] => destruct (backend cl w) as [[[v e]|] w1] eqn:E1;
      destruct (keeps_backend _ _ _ _ E1) as (R1 & T1 & N1) end.
    2:{ inversion E; subst. split; [first [exact (N.le_refl _)|lia]|]. intros _. apply (L_keeps _ (w_st w)); auto. }
    assert (HL1 : L (dadd d0 F) (w_st w1)) by (apply (L_keeps _ (w_st w)); auto).
    destruct (is_err e); [inversion E; subst; split; [first [exact (N.le_refl _)|lia]|exact HL1]|].
    unfold bind at 1 in E.
    destruct (rename_child_to r oname t nname w1) as [[u|] w2] eqn:E2;
      destruct (led_rename_child_to K r oname t nname HKn HKt F w1 _ _ HF HK HL1 E2) as [N2 R2].
    + cbn [ret] in E. inversion E; subst. split; [lia|exact R2].
    + inversion E; subst. split; [lia|exact R2].
  - (* Trename *)
    destruct (fr_parent fr) as [p|]; [|inversion E; subst; split; [first [exact (N.le_refl _)|lia]|intros _; exact HL0]].
    unfold bind at 1 in E. cbn [the_ref gets] in E. unfold bind at 1 in E. cbn [gets] in E.
    destruct (is_deleted (w_st w) p); [inversion E; subst; split; [first [exact (N.le_refl _)|lia]|intros _; exact HL0]|].
    unfold bind at 1 in E.
    match type of E with context [name_for ?a ?b w] => destruct (name_for a b w) as [[old|] w0] eqn:E0;
      destruct (keeps_name_for _ _ _ _ _ E0) as (R0 & T0 & N0) end.
    2:{ inversion E; subst. split; [first [exact (N.le_refl _)|lia]|]. intros _. apply (L_keeps _ (w_st w)); auto. }
    assert (HL00 : L (dadd d0 F) (w_st w0)) by (apply (L_keeps _ (w_st w)); auto).
    destruct (_ && _); [inversion E; subst; split; [first [exact (N.le_refl _)|lia]|exact HL00]|].
    unfold bind at 1 in E.
    match type of E with context [backend ?cl w0] => destruct (backend cl w0) as [[[v e]|] w1] eqn:E1;
      destruct (keeps_backend _ _ _ _ E1) as (R1 & T1 & N1) end.
    2:{ inversion E; subst. split; [first [exact (N.le_refl _)|lia]|]. intros _. apply (L_keeps _ (w_st w0)); auto. }
    assert (HL1 : L (dadd d0 F) (w_st w1)) by (apply (L_keeps _ (w_st w0)); auto).
    destruct (is_err e); [inversion E; subst; split; [first [exact (N.le_refl _)|lia]|exact HL1]|].
    unfold bind at 1 in E.
    destruct (rename_child_to p old t name w1) as [[u|] w2] eqn:E2;
      destruct (led_rename_child_to K p old t name HKn HKt F w1 _ _ HF HK HL1 E2) as [N2 R2].
    + cbn [ret] in E. inversion E; subst. split; [lia|exact R2].
    + inversion E; subst. split; [lia|exact R2].
  - (* Twrite *)
    destruct (fr_xop fr =? p9_xattrNone); [apply Neu in E; [exact E|neu]|].
    unfold bind in E. cbn [modify ret] in E. inversion E; subst; cbn [w_st]. split; [cbn; lia|].
    eapply same_ledger_L; [|exact HL]. apply same_put_ref; reflexivity.
  - (* Txattrwalk *)
    unfold bind at 1 in E.
    match type of E with (let (o0, w'0) := ?X w in _) = _ => destruct (X w) as [[[len e]|] w1] eqn:E1;
      assert (K1 : keeps X) by (destruct (negb _); (apply keeps_bind; [apply keeps_backend|intros [? ?]; apply keeps_ret]));
      destruct (K1 _ _ _ E1) as (R1 & T1 & N1) end.
    2:{ inversion E; subst. split; [first [exact (N.le_refl _)|lia]|]. intros _. apply (L_keeps _ (w_st w)); auto. }
    assert (HL1 : L F (w_st w1)) by (apply (L_keeps _ (w_st w)); auto).
    destruct (is_err e); [inversion E; subst; split; [first [exact (N.le_refl _)|lia]|apply Ld0; exact HL1]|].
    destruct (_ <? _); [inversion E; subst; split; [first [exact (N.le_refl _)|lia]|apply Ld0; exact HL1]|].
    unfold bind at 1 in E. rewrite new_ref_run in E.
    set (s1 := w_st w1) in *. set (nr := st_next_ref s1) in *.
    set (frn := mkRef (fr_file fr) 0 false 0 0 (fr_node fr) None p9_xattrWalk name len 0 len (Some r)) in *.
    fold (new_state s1 frn) in E. cbv beta iota in E.
    match type of E with _ ?W = _ => set (w2 := W) in * end.
    assert (Ew2 : w_st w2 = new_state s1 frn) by reflexivity.
    assert (HL2 : L F (w_st w2)) by (rewrite Ew2; eapply (L_after_new_dead F s1 frn); eauto; reflexivity).
    assert (Gnr : get_ref (w_st w2) nr = frn) by (rewrite Ew2; apply get_new_same).
    assert (Hrb : r < nr).
    { assert (Hrl : (1 <= refsZ s1 r)%Z).
      { destruct HL1 as [L1 _]. specialize (L1 r). pose proof (tcount_nonneg r (st_fids s1)). pose proof (rcount_nonneg r (st_refs s1)). specialize (HK r). lia. }
      exact (L_live_below _ _ _ HL1 Hrl). }
    assert (Hz4 : refsZ (w_st w2) nr = 0%Z) by (unfold refsZ; rewrite Gnr; reflexivity).
    assert (Hnb4 : nr < st_next_ref (w_st w2)) by (rewrite Ew2; cbn; fold nr; lia).
    assert (Hne4 : nr <> r) by lia.
    assert (Hlk4 : forall x, links (w_st w2) nr x = d1 r x) by (intros x; unfold links; rewrite Gnr; unfold frn; cbn; unfold dadd, d0; lia).
    assert (Hchunk : st_next_ref (w_st w2) <= st_next_ref (w_st w') /\ L F (w_st w')).
    { rewrite bind_assoc_run in E. unfold bind at 1 in E.
      destruct ((incref r ;; insert_fid c nf nr)%m w2) as [[u5|] w5] eqn:Eb.
      - destruct (fresh_bind_chunk K F c nf r nr w2 _ _ HF HK HKr HL2 Hz4 Hnb4 Hne4 Hlk4 Eb) as [N5 R5].
        cbn [ret] in E. inversion E; subst. split; [exact N5|exact R5].
      - destruct (fresh_bind_chunk K F c nf r nr w2 _ _ HF HK HKr HL2 Hz4 Hnb4 Hne4 Hlk4 Eb) as [N5 R5].
        inversion E; subst. split; [exact N5|exact R5]. }
    destruct Hchunk as [N5 R5]. split; [rewrite Ew2 in N5; cbn in N5; unfold s1 in *; lia|].
    destruct o; [apply Ld0; exact R5|intros _; exact R5].
  - (* Txattrcreate *)
    unfold bind in E. cbn [modify ret] in E. inversion E; subst; cbn [w_st]. split; [cbn; lia|].
    eapply same_ledger_L; [|exact HL]. apply same_put_ref; reflexivity.
Qed.

Lemma led_weaken_safe {A} K (m : M A) own post (s s' : bool) : led K m own post s -> (s' = true -> s = true) -> led K m own post s'.
Proof. intros H Hs. eapply led_conseq; [exact H|reflexivity|reflexivity|exact Hs]. Qed.

Lemma led_bind_t {A B} K (m : M A) (f : A -> M B) own p1 p2 s :
  led K m own p1 s -> (forall a, led K (f a) (p1 a) p2 true) -> led K (bind m f) own p2 s.
Proof.
  intros Hm Hf. eapply led_weaken_safe; [eapply led_bind0; [exact Hm|exact Hf]|]. intros H. rewrite H. reflexivity.
Qed.
Lemma led_tbind {A B} K (m : M A) (f : A -> M B) own p1 p2 s :
  led K m own p1 true -> (forall a, led K (f a) (p1 a) p2 s) -> led K (bind m f) own p2 s.
Proof.
  intros Hm Hf. eapply led_weaken_safe; [eapply led_bind0; [exact Hm|exact Hf]|]. intros H. rewrite H. reflexivity.
Qed.

Lemma led_post K c m x : led K (post c m x) d0 (fun _ => d0) true.
Proof.
  unfold post. destruct m; try apply led_ret.
  change true with (true && true). eapply led_bind0; [apply led_delete_fid|intros derr]. destruct (is_err derr); apply led_ret.
Qed.

Lemma led_inner K c m k r t :
  nonneg K -> (1 <= K r)%Z -> (1 <= K t)%Z ->
  led K (ms <- gets (fun s => alookup c (st_msize s)) ;;
         p <- gets (fun s => view_of s r) ;;
         tv <- gets (fun s => view_of s t) ;;
         x <- match first_failing (guards_of k) m ms p tv with
              | Some (GE e) => fail e
              | Some GP => panic
              | None => body c m r t
              end ;;
         post c m x)%m d0 (fun _ => d0) true.
Proof.
  intros HKn HKr HKt.
  apply led_nbind; [apply neutral_gets|intros ms].
  apply led_nbind; [apply neutral_gets|intros p].
  apply led_nbind; [apply neutral_gets|intros tv].
  eapply led_bind_t; [|intros x; apply led_post].
  destruct (first_failing _ _ _ _ _) as [[e|]|].
  - apply led_ret.
  - apply led_neutral0, neutral_panic.
  - apply led_body; assumption.
Qed.

Lemma led_guarded K c m k : nonneg K -> led K (guarded c m k) d0 (fun _ => d0) true.
Proof.
  intros HKn. unfold guarded, fail.
  destruct (negb (forallb safe_nameb (names_of m))); [apply led_ret|].
  eapply led_tbind; [apply led_lookup_fid|intros o].
  destruct o as [r|]; [|apply led_ret].
  cbn [dopt].
  eapply led_conseq; [apply (led_with_defer K r _ d0 (fun _ => d0) true)| | |auto].
  - assert (HKn1 : nonneg (dadd K (d1 r))) by (apply nonneg_add; [exact HKn|apply nonneg_d1]).
    assert (HK1 : (1 <= dadd K (d1 r) r)%Z) by (unfold dadd; rewrite d1_same; specialize (HKn r); lia).
    destruct (fid2_of m) as [f2|]; [|apply led_inner; assumption].
    eapply led_tbind; [apply led_lookup_fid|intros o2].
    destruct o2 as [t|]; [|apply led_ret].
    cbn [dopt].
    eapply led_conseq; [apply (led_with_defer (dadd K (d1 r)) t _ d0 (fun _ => d0) true)| | |auto].
    + apply led_inner.
      * apply nonneg_add; [exact HKn1|apply nonneg_d1].
      * unfold dadd in *. pose proof (ind_nonneg (t =? r)). unfold d1 at 2. lia.
      * unfold dadd. rewrite d1_same. specialize (HKn1 t). unfold dadd in HKn1. lia.
    + intros; apply nonneg_d0.
    + intros x; unfold dadd, d0; lia.
    + reflexivity.
  - intros; apply nonneg_d0.
  - intros x; unfold dadd, d0; lia.
  - reflexivity.
Qed.

(** replacing a fidRef by one with the same count and no links cannot break the ledger *)
Lemma L_put_unlinked H s r g :
  fr_refs g = refsZ s r -> fr_parent g = None -> fr_xof g = None -> L H s -> L H (put_ref r g s).
Proof.
  intros E1 E2 E3 [L1 L2]. split.
  - intros x. rewrite refsZ_put_ref, rcount_put_ref. cbn [st_fids put_ref].
    assert (C : claims g x = 0%Z) by (unfold claims; rewrite E2, E3; destruct (live g); reflexivity).
    rewrite C. pose proof (claims_nonneg (get_ref s r) x). specialize (L1 x).
    destruct (N.eqb_spec x r) as [->|Hne]; [rewrite E1|]; lia.
  - intros x Hx. cbn in Hx. rewrite refsZ_put_ref. destruct (L2 x Hx) as [A B]. split; [exact A|].
    destruct (N.eqb_spec x r) as [->|Hne]; [rewrite E1|]; assumption.
Qed.

Lemma neutral_set_root_mode root mode :
  neutral (rfr <- the_ref root ;;
           modify (put_ref root (mkRef (fr_file rfr) (fr_refs rfr) false 0 mode 0 None p9_xattrNone "" 0 0 0 None)))%m.
Proof.
  intros w o w' E. unfold bind, the_ref, gets, modify in E. cbn in E. inversion E; subst; cbn [w_st]. split; [cbn; lia|].
  intros H HL. apply L_put_unlinked; auto.
Qed.

Lemma led_h_attach K c f afid aname : nonneg K -> led K (h_attach c f afid aname) d0 (fun _ => d0) true.
Proof.
  intros HKn. unfold h_attach.
  destruct (negb (afid =? p9_noFID)); [apply led_ret|].
  intros F w o w' HF HK HL E.
  assert (HL0 : L F (w_st w)) by (eapply L_ext; [|exact HL]; intros x; unfold dadd, d0; lia).
  assert (Ld0 : forall s, L F s -> L (dadd d0 F) s) by (intros s0 H0; eapply L_ext; [|exact H0]; intros x; unfold dadd, d0; lia).
  unfold bind at 1 in E.
  destruct (backend (call0 MAttach 0) w) as [[[v e]|] w1] eqn:E1; destruct (keeps_backend _ _ _ _ E1) as (R1 & T1 & N1).
  2:{ inversion E; subst. split; [lia|]. intros _. apply (L_keeps _ (w_st w)); auto. }
  assert (HL1 : L F (w_st w1)) by (apply (L_keeps _ (w_st w)); auto).
  destruct (is_err e); [inversion E; subst; split; [lia|apply Ld0; exact HL1]|].
  unfold bind at 1 in E.
  destruct (fresh_handle w1) as [[h|] w2] eqn:E2; destruct (keeps_fresh_handle _ _ _ E2) as (R2 & T2 & N2).
  2:{ inversion E; subst. split; [lia|]. intros _. apply (L_keeps _ (w_st w1)); auto. }
  assert (HL2 : L F (w_st w2)) by (apply (L_keeps _ (w_st w1)); auto).
  unfold bind at 1 in E. rewrite new_ref_run in E.
  set (s2 := w_st w2) in *. set (root := st_next_ref s2) in *.
  set (frr := mkRef h 1 false 0 0 0 None p9_xattrNone "" 0 0 0 None) in *.
  fold (new_state s2 frr) in E. cbv beta iota in E.
  pose proof (L_new_ref _ s2 frr HL2 (or_intror (conj eq_refl (conj eq_refl eq_refl)))) as HL3. cbn zeta in HL3. fold root in HL3. fold (new_state s2 frr) in HL3.
  assert (HL3' : L (dadd (dadd (d1 root) d0) F) (new_state s2 frr)).
  { eapply L_ext; [|exact HL3]. intros x. cbn beta. unfold dadd, d1, d0, frr. cbn. rewrite (N.eqb_sym root x). destruct (x =? root); unfold ind; lia. }
  set (nameS := strip_slash aname) in *.
  assert (HKn1 : nonneg (dadd K (d1 root))) by (apply nonneg_add; [exact HKn|apply nonneg_d1]).
  assert (HK1 : (1 <= dadd K (d1 root) root)%Z) by (unfold dadd; rewrite d1_same; specialize (HKn root); lia).
  match type of E with with_defer _ ?B ?W = _ =>
    assert (Hb : led (dadd K (d1 root)) B d0 (fun _ => d0) true);
    [|pose proof (led_with_defer K root B d0 (fun _ => d0) true Hb (fun _ => nonneg_d0)) as Hwd;
      destruct (Hwd F W o w' HF HK HL3' E) as [N4 R4]] end.
  2:{ split; [cbn in N4; unfold s2 in *; lia|exact R4]. }
  apply led_nbind; [apply neutral_backend|intros [va ea]].
  destruct (is_err ea); [apply led_ret|]. destruct (negb (bv_valid va)); [apply led_ret|].
  match goal with |- led _ (bind (the_ref root) ?G) _ _ _ => idtac end.
  (* the_ref root ;; modify ... ;; rest  -- regroup the first two *)
  assert (Regroup : forall (rest : M reply) w0,
            (rfr <- the_ref root ;; modify (put_ref root (mkRef (fr_file rfr) (fr_refs rfr) false 0 (ftype (bv_mode va)) 0 None p9_xattrNone "" 0 0 0 None)) ;; rest)%m w0 =
            ((rfr <- the_ref root ;; modify (put_ref root (mkRef (fr_file rfr) (fr_refs rfr) false 0 (ftype (bv_mode va)) 0 None p9_xattrNone "" 0 0 0 None))) ;; rest)%m w0).
  { intros rest w0. reflexivity. }
  intros F' w0 o0 w0' HF' HK' HL' E'. rewrite Regroup in E'.
  revert F' w0 o0 w0' HF' HK' HL' E'. fold (led (dadd K (d1 root)) ((rfr <- the_ref root ;; modify (put_ref root (mkRef (fr_file rfr) (fr_refs rfr) false 0 (ftype (bv_mode va)) 0 None p9_xattrNone "" 0 0 0 None))) ;;
      (if (nameS =? "")%string
       then insert_fid c f root ;; ret (ok p9_msgRattach [hd0 (bv_qids va)])
       else w3 <- do_walk root (split_on slash nameS) false ;;
            match w3 with
            | inl e0 => ret (RErr (extract_errno e0))
            | inr (_, nr, _) => with_defer (dec_ref_ nr) (insert_fid c f nr ;; ret (ok p9_msgRattach [hd0 (bv_qids va)]))
            end))%m d0 (fun _ => d0) true).
  apply led_nbind; [apply neutral_set_root_mode|intros _].
  destruct (nameS =? "")%string.
  - change true with (true && true). eapply led_bind0; [apply led_insert_fid_live; exact HK1|intros u0; apply led_ret].
  - change true with (true && true). eapply led_bind0; [apply led_do_walk; exact HK1|intros w3].
    destruct w3 as [e0|[[q nr] a]]; [apply led_ret|]. cbn [walk_post].
    eapply led_conseq; [apply (led_with_defer (dadd K (d1 root)) nr _ d0 (fun _ => d0) true)| | |auto].
    + change true with (true && true). eapply led_bind0; [apply led_insert_fid_live; unfold dadd; rewrite d1_same; specialize (HKn1 nr); unfold dadd in HKn1; lia|intros u0; apply led_ret].
    + intros; apply nonneg_d0.
    + intros x; unfold dadd, d0; lia.
    + reflexivity.
Qed.

Lemma led_h_clunk K c f : nonneg K -> led K (h_clunk c f) d0 (fun _ => d0) true.
Proof.
  intros HKn. unfold h_clunk.
  change true with (true && true). eapply led_bind0.
  - unfold clunk_xattr. change true with (true && true). eapply led_bind0; [apply led_lookup_fid|intros o].
    destruct o as [r|]; [|apply led_ret]. cbn [dopt].
    eapply led_conseq; [apply (led_with_defer K r _ d0 (fun _ => d0) true)| | |auto].
    + apply led_neutral0. neu.
    + intros; apply nonneg_d0.
    + intros x; unfold dadd, d0; lia.
    + reflexivity.
  - intros cerr. change true with (true && true). eapply led_bind0; [apply led_delete_fid|intros derr].
    destruct (is_err derr); [apply led_ret|]. destruct cerr; apply led_ret.
Qed.

Lemma led_handler c m : led d0 (handler c m) d0 (fun _ => d0) true.
Proof.
  assert (T : forall (mm : M reply), led d0 mm d0 (fun _ => d0) true -> led d0 mm d0 (fun _ => d0) true) by auto.
  assert (G : forall k, kind_of m = Some k ->
            led d0 (x <- guarded c m k ;; ret (match x with inl e => RErr (extract_errno e) | inr r => r end))%m d0 (fun _ => d0) true).
  { intros k _. eapply led_bind_t; [apply led_guarded, nonneg_d0|intros x; apply led_ret]. }
  unfold handler.
  destruct m; cbn [kind_of]; try (apply T; apply led_ret); try (apply (G _ eq_refl)).
  - (* Tversion *)
    apply T. unfold h_version. destruct (tversion_handle msize ver) as [[mm v] st].
    apply led_nbind; [|intros _; apply led_ret].
    destruct st as [[ms ?]|]; [apply neutral_modify; intros; apply same_put_msize|apply neutral_ret].
  - apply T, led_h_attach, nonneg_d0.
  - apply T, led_h_clunk, nonneg_d0.
Qed.

(** ---- the invariant at request boundaries ---- *)
Definition Ledger (s : sstate) : Prop := L d0 s.

Lemma ledger_init : Ledger init_state.
Proof. split; intros r; cbn; unfold d0; [lia|]. intros _. split; [reflexivity|unfold refsZ, get_ref; cbn; lia]. Qed.

Lemma ledger_bound_pos s k r : Ledger s -> tlookup k (st_fids s) = Some r -> (1 <= refsZ s r)%Z.
Proof.
  intros [L1 _] E. specialize (L1 r). pose proof (tcount_tlookup _ _ _ E). pose proof (rcount_nonneg r (st_refs s)). unfold d0 in L1. lia.
Qed.

(** one request keeps the ledger, whatever the backend answers (errors and panics at any call) *)
Theorem ledger_step s c m tape : Ledger s -> Ledger (fst (fst (fst (step s c m tape)))).
Proof.
  intros HL. unfold step in *.
  destruct (handler c m (mkW s tape [])) as [o w] eqn:E.
  assert (HL' : L (dadd d0 d0) (w_st (mkW s tape []))) by (eapply L_ext; [|exact HL]; intros x; unfold dadd, d0; lia).
  destruct (led_handler c m d0 _ o w nonneg_d0 (dle_refl d0) HL' E) as [_ R].
  destruct o as [r|]; cbn.
  - eapply L_ext; [|exact R]. intros x; unfold dadd, d0; lia.
  - apply R. reflexivity.
Qed.
