(** C04: the model against the session specification, using the reference ledger (Ledger.v):
    a request the specification refuses (unsafe name, unbound fid, a failing guard -- on bound
    fids too) is an exact no-op of the model: same state, that errno, no backend call, tape
    untouched; lifted to every history.  Plus the fid-table frame of every request. *)
From Coq Require Import NArith ZArith List String Bool Lia.
From P9V Require Import Base.Str gen.ConstGen Fs.Version Server.State Server.Msg Server.SessionSpec Server.Handlers
  Server.Ledger Server.FaultProofs.
Import ListNotations.
Open Scope N_scope.

Lemma aset_same_id {A} k (v : A) l : alookup k l = Some v -> aset k v l = l.
Proof.
  induction l as [|[k' v'] l IH]; cbn; [discriminate|].
  destruct (N.eqb_spec k k') as [->|Hne]; [intros E; inversion E; reflexivity|intros E; now rewrite IH].
Qed.

Lemma sstate_eta s : mkState (st_fids s) (st_msize s) (st_refs s) (st_nodes s) (st_next_ref s) (st_next_node s) (st_next_handle s) = s.
Proof. destruct s; reflexivity. Qed.

(** IncRef then DecRef of a fidRef that stays alive gives the state back *)
Lemma present_of_live s r : (1 <= refsZ s r)%Z -> alookup r (st_refs s) = Some (get_ref s r).
Proof.
  unfold refsZ, get_ref. destruct (alookup r (st_refs s)); [reflexivity|]. cbn. lia.
Qed.

Lemma aset_aset {A} r (a b : A) l : aset r b (aset r a l) = aset r b l.
Proof.
  induction l as [|[k v] l IH]; cbn; [now rewrite N.eqb_refl|].
  destruct (r =? k) eqn:Ek; cbn; [now rewrite N.eqb_refl|rewrite Ek; now rewrite IH].
Qed.

Lemma incdec_id s r : (1 <= refsZ s r)%Z ->
  set_refs_of (set_refs_of s r (refsZ s r + 1)) r (refsZ (set_refs_of s r (refsZ s r + 1)) r - 1) = s.
Proof.
  intros Hl.
  assert (R1 : refsZ (set_refs_of s r (refsZ s r + 1)) r = (refsZ s r + 1)%Z).
  { unfold set_refs_of. rewrite refsZ_put_ref, N.eqb_refl. reflexivity. }
  rewrite R1. replace (refsZ s r + 1 - 1)%Z with (refsZ s r) by lia.
  assert (G1 : get_ref (set_refs_of s r (refsZ s r + 1)) r = set_refs (get_ref s r) (refsZ s r + 1)).
  { unfold set_refs_of. apply get_put_ref_same. }
  unfold set_refs_of at 1. rewrite G1. rewrite set_refs_twice. unfold refsZ at 1. rewrite set_refs_eta.
  unfold set_refs_of, put_ref; cbn. rewrite aset_aset, aset_same_id by (apply present_of_live; exact Hl).
  apply sstate_eta.
Qed.

(** running LookupFID on a bound fid, and the deferred DecRef that undoes it *)
Lemma lookup_run s tape log c f r :
  tlookup (c, f) (st_fids s) = Some r ->
  lookup_fid c f (mkW s tape log) = (Ok (Some r), mkW (set_refs_of s r (refsZ s r + 1)) tape log).
Proof. intros E. unfold lookup_fid, bind, gets; cbn. unfold connid, fid in *. rewrite E. reflexivity. Qed.
Lemma lookup_run_none s tape log c f :
  tlookup (c, f) (st_fids s) = None -> lookup_fid c f (mkW s tape log) = (Ok None, mkW s tape log).
Proof. intros E. unfold lookup_fid, bind, gets; cbn. unfold connid, fid in *. rewrite E. reflexivity. Qed.

Lemma undo_lookup s tape log r : (1 <= refsZ s r)%Z ->
  dec_ref_ r (mkW (set_refs_of s r (refsZ s r + 1)) tape log) = (Ok tt, mkW s tape log).
Proof.
  intros Hl. rewrite dec_ref__nocascade.
  - cbn [w_st w_tape w_log]. now rewrite incdec_id.
  - cbn [w_st]. unfold set_refs_of. rewrite refsZ_put_ref, N.eqb_refl. cbn. fold (refsZ s r). lia.
Qed.

(** views are not affected by the count *)
Lemma view_set_refs s r n x : view_of (set_refs_of s r n) x = view_of s x.
Proof.
  unfold view_of, is_deleted, set_refs_of. destruct (N.eqb_spec x r) as [->|Hne].
  - rewrite get_put_ref_same. reflexivity.
  - rewrite get_put_ref_other by assumption. reflexivity.
Qed.
Lemma msize_set_refs s r n : st_msize (set_refs_of s r n) = st_msize s. Proof. reflexivity. Qed.
Lemma fids_set_refs s r n : st_fids (set_refs_of s r n) = st_fids s. Proof. reflexivity. Qed.
Lemma refsZ_set_refs_ge s r x : (refsZ s x <= refsZ (set_refs_of s r (refsZ s r + 1)) x)%Z.
Proof. unfold set_refs_of. rewrite refsZ_put_ref. destruct (N.eqb_spec x r) as [->|]; cbn; fold (refsZ s r); lia. Qed.

Definition inner_of (c : connid) (m : tmsg) (k : hkind) (r t : refid) : M (res reply) :=
  (ms <- gets (fun s => alookup c (st_msize s)) ;;
   p <- gets (fun s => view_of s r) ;;
   tv <- gets (fun s => view_of s t) ;;
   x <- match first_failing (guards_of k) m ms p tv with
        | Some (GE e) => fail e
        | Some GP => panic
        | None => body c m r t
        end ;;
   post c m x)%m.

Lemma guarded_eq c m k :
  guarded c m k =
  (if negb (forallb safe_nameb (names_of m)) then fail linux_EINVAL
   else o <- lookup_fid c (fid1_of m) ;;
        match o with
        | None => fail linux_EBADF
        | Some r =>
            with_defer (dec_ref_ r)
              (match fid2_of m with
               | None => inner_of c m k r r
               | Some f2 => o2 <- lookup_fid c f2 ;;
                            match o2 with
                            | None => fail linux_EBADF
                            | Some t => with_defer (dec_ref_ t) (inner_of c m k r t)
                            end
               end)
        end)%m.
Proof. reflexivity. Qed.

Lemma inner_refused c m k r t w g :
  first_failing (guards_of k) m (alookup c (st_msize (w_st w))) (view_of (w_st w) r) (view_of (w_st w) t) = Some g ->
  (forall f, m <> Tremove f) ->
  inner_of c m k r t w = (match g with GE e => Ok (inl (eno e)) | GP => Panic end, w).
Proof.
  intros Hg Hnr. unfold inner_of, bind, gets. cbn [w_st]. rewrite Hg. destruct g as [e|]; [|reflexivity].
  unfold fail, ret. unfold post. destruct m; try reflexivity. exfalso; eapply Hnr; reflexivity.
Qed.

Lemma defer_undo {A} s tape log r (m : M A) o :
  (1 <= refsZ s r)%Z ->
  m (mkW (set_refs_of s r (refsZ s r + 1)) tape log) = (o, mkW (set_refs_of s r (refsZ s r + 1)) tape log) ->
  with_defer (dec_ref_ r) m (mkW (set_refs_of s r (refsZ s r + 1)) tape log) = (o, mkW s tape log).
Proof. intros Hl E. unfold with_defer. rewrite E. rewrite (undo_lookup s tape log r Hl). reflexivity. Qed.

(** a guard refusal on bound fids: exact no-op *)
Theorem guard_refusal_exact s c m k tape g :
  Ledger s -> kind_of m = Some k -> (forall f, m <> Tremove f) ->
  forallb safe_nameb (names_of m) = true ->
  forall r, tlookup (c, fid1_of m) (st_fids s) = Some r ->
  forall t, match fid2_of m with Some f2 => tlookup (c, f2) (st_fids s) = Some t | None => t = r end ->
  first_failing (guards_of k) m (alookup c (st_msize s)) (view_of s r) (view_of s t) = Some g ->
  step s c m tape = (s, RErr (match g with GE e => e | GP => linux_EFAULT end), [], tape).
Proof.
  intros HL Hk Hnr Hn r Hr t Ht Hg.
  pose proof (ledger_bound_pos s _ r HL Hr) as Hrl.
  assert (Hh : handler c m = (x <- guarded c m k ;; ret (match x with inl e => RErr (extract_errno e) | inr r0 => r0 end))%m).
  { unfold handler. destruct m; cbn in Hk; try discriminate; inversion Hk; reflexivity. }
  assert (Hguarded : guarded c m k (mkW s tape []) = (match g with GE e => Ok (inl (eno e)) | GP => Panic end, mkW s tape [])).
  { rewrite guarded_eq, Hn. cbn [negb]. unfold bind at 1. rewrite (lookup_run s tape [] c _ r Hr).
    apply defer_undo; [exact Hrl|].
    destruct (fid2_of m) as [f2|] eqn:E2.
    - assert (Ht1 : tlookup (c, f2) (st_fids (set_refs_of s r (refsZ s r + 1))) = Some t) by exact Ht.
      assert (Htl1 : (1 <= refsZ (set_refs_of s r (refsZ s r + 1)) t)%Z).
      { pose proof (ledger_bound_pos s _ t HL Ht). pose proof (refsZ_set_refs_ge s r t). lia. }
      unfold bind at 1. rewrite (lookup_run _ tape [] c f2 t Ht1).
      apply defer_undo; [exact Htl1|].
      apply inner_refused; [|exact Hnr]. cbn [w_st]. rewrite !view_set_refs, !msize_set_refs. exact Hg.
    - subst t. apply inner_refused; [|exact Hnr]. cbn [w_st]. rewrite !view_set_refs, !msize_set_refs. exact Hg. }
  unfold step. rewrite Hh. unfold bind at 1. rewrite Hguarded. destruct g as [e|]; reflexivity.
Qed.

(** second fid unbound: EBADF, exact no-op *)
Theorem second_unbound_exact s c m k tape :
  Ledger s -> kind_of m = Some k -> forallb safe_nameb (names_of m) = true ->
  forall r, tlookup (c, fid1_of m) (st_fids s) = Some r ->
  forall f2, fid2_of m = Some f2 -> tlookup (c, f2) (st_fids s) = None ->
  step s c m tape = (s, RErr linux_EBADF, [], tape).
Proof.
  intros HL Hk Hn r Hr f2 E2 Hu.
  pose proof (ledger_bound_pos s _ r HL Hr) as Hrl.
  assert (Hh : handler c m = (x <- guarded c m k ;; ret (match x with inl e => RErr (extract_errno e) | inr r0 => r0 end))%m).
  { unfold handler. destruct m; cbn in Hk; try discriminate; inversion Hk; reflexivity. }
  assert (Hguarded : guarded c m k (mkW s tape []) = (Ok (inl (eno linux_EBADF)), mkW s tape [])).
  { rewrite guarded_eq, Hn. cbn [negb]. unfold bind at 1. rewrite (lookup_run s tape [] c _ r Hr).
    apply defer_undo; [exact Hrl|]. rewrite E2. unfold bind at 1.
    rewrite (lookup_run_none (set_refs_of s r (refsZ s r + 1)) tape [] c f2 Hu). reflexivity. }
  unfold step. rewrite Hh. unfold bind at 1. rewrite Hguarded. reflexivity.
Qed.

(** every refusal of the specification is an exact no-op of the model (a Tremove refused by a guard
    still unbinds its fid, so it is not a no-op: see [remove_refused] below) *)
Theorem refines_refusals s c m tape e :
  Ledger s -> spec_reject (abs_state s) c m = Some e ->
  (forall f, m = Tremove f -> tlookup (c, f) (st_fids s) = None) ->
  step s c m tape = (s, RErr e, [], tape).
Proof.
  intros HL Hr Hrm.
  destruct (kind_of m) as [k|] eqn:Hk.
  2:{ destruct m; cbn in Hk; try discriminate; cbn in Hr.
      - (* Tauth *) inversion Hr. reflexivity.
      - (* Tattach *) destruct (afid =? p9_noFID) eqn:Ea; [discriminate Hr|]. inversion Hr; subst. apply attach_authfid. now apply N.eqb_neq.
      - (* Tclunk *) unfold abs_state in Hr; cbn in Hr. destruct (tlookup (c, f) (st_fids s)) eqn:El; [discriminate Hr|]. inversion Hr; subst. now apply clunk_unbound.
      - (* Tother *) inversion Hr. reflexivity. }
  assert (Hr' : (if negb (forallb safe_nameb (names_of m)) then Some linux_EINVAL
                 else match a_fids (abs_state s) c (fid1_of m) with
                      | None => Some linux_EBADF
                      | Some p =>
                          match (match fid2_of m with None => Some p | Some f2 => a_fids (abs_state s) c f2 end) with
                          | None => Some linux_EBADF
                          | Some t => match first_failing (guards_of k) m (a_neg (abs_state s) c) p t with
                                      | Some (GE e0) => Some e0 | Some GP => Some linux_EFAULT | None => None end
                          end
                      end) = Some e).
  { unfold spec_reject in Hr. destruct m; cbn in Hk; try discriminate; inversion Hk; subst; exact Hr. }
  clear Hr. destruct (forallb safe_nameb (names_of m)) eqn:Hn; cbn [negb] in Hr'.
  2:{ inversion Hr'; subst. eapply unsafe_rejected'; eauto. }
  unfold abs_state in Hr'; cbn [a_fids a_neg] in Hr'.
  destruct (tlookup (c, fid1_of m) (st_fids s)) as [r|] eqn:E1.
  2:{ inversion Hr'; subst. eapply unbound_ebadf; eauto. }
  assert (Hnr : forall f, m <> Tremove f).
  { intros f Em. subst m. specialize (Hrm f eq_refl). cbn in E1. unfold connid, fid in *. congruence. }
  destruct (fid2_of m) as [f2|] eqn:E2.
  - destruct (tlookup (c, f2) (st_fids s)) as [t|] eqn:Et.
    2:{ inversion Hr'; subst. eapply second_unbound_exact; eauto. }
    destruct (first_failing (guards_of k) m (alookup c (st_msize s)) (view_of s r) (view_of s t)) as [g|] eqn:Eg; [|discriminate].
    assert (e = match g with GE e0 => e0 | GP => linux_EFAULT end) by (destruct g; inversion Hr'; reflexivity). subst e.
    eapply guard_refusal_exact; eauto. rewrite E2. exact Et.
  - destruct (first_failing (guards_of k) m (alookup c (st_msize s)) (view_of s r) (view_of s r)) as [g|] eqn:Eg; [|discriminate].
    assert (e = match g with GE e0 => e0 | GP => linux_EFAULT end) by (destruct g; inversion Hr'; reflexivity). subst e.
    eapply guard_refusal_exact; eauto. rewrite E2. reflexivity.
Qed.

(** the specification's verdict on the model state, for every refusal: reply class and bindings *)
Corollary refines_refusals_spec s c m tape e o fence :
  Ledger s -> spec_reject (abs_state s) c m = Some e ->
  (forall f, m = Tremove f -> tlookup (c, f) (st_fids s) = None) ->
  let r := step s c m tape in
  rclass (snd (fst (fst r))) = snd (spec_step (abs_state s) c m o fence) /\
  (forall c' f', a_fids (abs_state (fst (fst (fst r)))) c' f' = a_fids (fst (spec_step (abs_state s) c m o fence)) c' f').
Proof.
  intros HL Hr Hrm r0. unfold r0. rewrite (refines_refusals s c m tape e HL Hr Hrm). cbn.
  assert (E : spec_step (abs_state s) c m o fence = (abs_state s, Some e)).
  { unfold spec_step. rewrite Hr. destruct m; try reflexivity.
    specialize (Hrm f eq_refl). cbn [fid1_of abs_state a_fids]. unfold connid, fid in *. rewrite Hrm. reflexivity. }
  rewrite E. cbn. split; [reflexivity|]. intros c' f'. reflexivity.
Qed.

(** ---- every history (induction over the request list, all tapes) ---- *)
Fixpoint run (s : sstate) (h : list (connid * tmsg * list answer)) : sstate :=
  match h with
  | [] => s
  | (c, m, t) :: r => run (fst (fst (fst (step s c m t)))) r
  end.

Theorem ledger_every_history h : Ledger (run init_state h).
Proof.
  assert (G : forall s, Ledger s -> Ledger (run s h)).
  { induction h as [|[[c m] t] r IH]; intros s HL; cbn; [exact HL|]. apply IH, ledger_step, HL. }
  apply G, ledger_init.
Qed.

Theorem refusals_every_history h c m tape e :
  let s := run init_state h in
  spec_reject (abs_state s) c m = Some e ->
  (forall f, m = Tremove f -> tlookup (c, f) (st_fids s) = None) ->
  step s c m tape = (s, RErr e, [], tape).
Proof. intros s Hr Hrm. apply refines_refusals; auto. apply ledger_every_history. Qed.

(** ---- C09: components are walked only from fidRefs whose recorded type is a directory ---- *)
(** a walk reference that is not a directory: the component is NOT walked -- no Walk / WalkGetAttr
    call, the reference is dropped and the request fails with EINVAL; this is the first thing
    [walk_loop] does for EVERY component (the first one included) *)
Theorem walk_needs_dir n rest walk qids last w :
  is_dir (fr_mode (get_ref (w_st w) walk)) = false ->
  walk_loop (n :: rest) walk qids last w = (dec_ref_ walk ;; fail linux_EINVAL)%m w.
Proof. intros H. cbn [walk_loop]. unfold bind at 1. cbn [the_ref gets]. rewrite H. reflexivity. Qed.

(** ... and the type recorded for the fidRef of each walked component is the one the backend reported
    for it (Attr.Mode of WalkGetAttr, or of GetAttr on the File Walk returned) *)
Theorem walk_records_reported_type n rest walk qids last w :
  is_dir (fr_mode (get_ref (w_st w) walk)) = true -> is_deleted (w_st w) walk = false ->
  walk_loop (n :: rest) walk qids last w =
  (let wfr := get_ref (w_st w) walk in
   r <- walk_one true (fr_file wfr) (fr_node wfr) [n] ;;
   match r with
   | inl e => dec_ref_ walk ;; ret (inl e)
   | inr (q, h, a) =>
       node <- node_for (fr_node wfr) n ;;
       nr <- new_ref (plain_ref h (ftype (bv_mode a)) node (Some walk)) ;;
       add_child (fr_node wfr) nr n ;; incref nr ;; walk_loop rest nr (qids ++ q)%list a
   end)%m w.
Proof.
  intros H1 H2. cbn [walk_loop]. unfold bind at 1. cbn [the_ref gets]. rewrite H1. cbn [negb].
  unfold bind at 1. cbn [gets]. rewrite H2. reflexivity.
Qed.

(** a multi-component request (Twalk, Twalkgetattr, the attach name) is walked by [walk_loop] from the
    start fid, one name per backend call *)
Theorem do_walk_is_walk_loop ref n rest ga w :
  forallb safe_nameb (n :: rest) = true ->
  do_walk ref (n :: rest) ga w = (incref ref ;; walk_loop (n :: rest) ref [] v0)%m w.
Proof. intros H. unfold do_walk. rewrite H. reflexivity. Qed.
