(** Comparison of observed histories (real Server + scripted recording backend,
    written by the harness into the cases directory as C04, C09, C15 files) with the model of
    Handlers.v, and the C04 / C09 / C15 predicates evaluated on the OBSERVED
    replies, backend calls and fid tables.  Evaluated by vm_compute. *)
From Coq Require Import NArith ZArith List String Ascii Bool.
From P9V Require Import Base.Str gen.ConstGen Server.State Server.Msg Server.SessionSpec Server.Handlers Server.OpenPar.
Import ListNotations.
Open Scope N_scope.

Record ostep := mkStep {
  os_conn : N;
  os_msg : tmsg;
  os_tape : list answer;       (* the answers the real backend gave, in call order *)
  os_reply : reply;
  os_calls : list bcall;
  os_fids : list N;            (* fids bound on that connection afterwards, ascending *)
  os_reduced : bool            (* a panic hit the map-order dependent tail of a rename *)
}.

(** [CPar]: two Tlopen (flags [fa], [fb]) IN FLIGHT TOGETHER on one unopened fid of a regular file (the second
    sent while the first is inside the gated backend Open): their replies and the answers File.Open gave, in
    call order.  Judged by the interleaving model Server/OpenPar.v. *)
Inductive srvcase := CHist (steps : list ostep) | CPar (fa fb : N) (ra rb : reply) (opens : list answer).

Definition list_eqb {A} (eqb : A -> A -> bool) : list A -> list A -> bool :=
  fix go a b := match a, b with
                | [], [] => true
                | x :: a', y :: b' => eqb x y && go a' b'
                | _, _ => false
                end.
Definition optN_eqb (a b : option N) : bool :=
  match a, b with None, None => true | Some x, Some y => x =? y | _, _ => false end.

Definition bcall_eqb (a b : bcall) : bool :=
  (meth_num (bc_meth a) =? meth_num (bc_meth b)) && (bc_h a =? bc_h b)
  && list_eqb String.eqb (bc_names a) (bc_names b) && optN_eqb (bc_h2 a) (bc_h2 b)
  && list_eqb N.eqb (bc_args a) (bc_args b) && list_eqb String.eqb (bc_strs a) (bc_strs b).

Definition reply_eqb (a b : reply) : bool :=
  match a, b with
  | RErr x, RErr y => x =? y
  | RVersion m v, RVersion m' v' => (m =? m') && String.eqb v v'
  | ROk t v s, ROk t' v' s' => (t =? t') && list_eqb N.eqb v v' && String.eqb s s'
  | _, _ => false
  end.

(** insertion sort *)
Fixpoint insert_by {A} (le : A -> A -> bool) (x : A) (l : list A) : list A :=
  match l with [] => [x] | y :: r => if le x y then x :: l else y :: insert_by le x r end.
Definition sort_by {A} (le : A -> A -> bool) (l : list A) : list A := fold_right (insert_by le) [] l.

Definition call_le (a b : bcall) : bool :=
  let ka := meth_num (bc_meth a) in let kb := meth_num (bc_meth b) in
  (ka <? kb) || ((ka =? kb) && (bc_h a <=? bc_h b)).

(** split a call list after the first RenameAt *)
Fixpoint split_rename (l : list bcall) : list bcall * list bcall :=
  match l with
  | [] => ([], [])
  | c :: r => match bc_meth c with
              | MRenameAt => ([c], r)
              | _ => let '(p, t) := split_rename r in (c :: p, t)
              end
  end.

(** the calls after a successful RenameAt (Renamed / Close) are made while
    ranging over Go maps: compare them as sorted lists; after an injected panic
    there, only their number *)
Definition calls_agree (reduced : bool) (model obs : list bcall) : bool :=
  let '(pm, tm) := split_rename model in
  let '(po, to) := split_rename obs in
  list_eqb bcall_eqb pm po &&
  (if reduced then (List.length tm =? List.length to)%nat
   else list_eqb bcall_eqb (sort_by call_le tm) (sort_by call_le to)).

Definition conn_fids (s : sstate) (c : N) : list N :=
  sort_by N.leb (map (fun kv => snd (fst kv)) (filter (fun kv => fst (fst kv) =? c) (st_fids s))).

Definition step_agrees (s : sstate) (o : ostep) : bool * sstate :=
  let '(s', r, log, rest) := step s (os_conn o) (os_msg o) (os_tape o) in
  (match rest with [] => true | _ => false end
   && reply_eqb r (os_reply o)
   && calls_agree (os_reduced o) (map fst log) (os_calls o)
   && (os_reduced o || list_eqb N.eqb (conn_fids s' (os_conn o)) (os_fids o)),
   s').

(** ---- the properties on observed behaviour ---- *)

Definition all_safe (l : list string) : bool := forallb safe_nameb l.

(** names the request carries in path-component positions *)
Definition req_components (m : tmsg) : list string :=
  match m with
  | Twalk _ _ ns | Twalkgetattr _ _ ns => ns
  | Tattach _ _ _ an _ => let n := strip_slash an in if String.eqb n "" then [] else split_on slash n
  | _ => names_of m
  end.

Definition is_walk_call (c : bcall) : bool :=
  match bc_meth c with MWalk | MWalkGetAttr => true | _ => false end.

(** handles and the file type the backend reported for them, from the observed calls and answers only *)
Definition creates (c : bcall) (a : answer) : bool :=
  match a with
  | AVal _ [] => match bc_meth c with MAttach | MWalk | MWalkGetAttr | MCreate => true | _ => false end
  | _ => false
  end.

(** C09 on one observed step; [dirs] = handles reported as directories so far, [nh] = next handle *)
Fixpoint c09_calls (calls : list (bcall * answer)) (nh : N) (modes : list (N * N)) : bool * N * list (N * N) :=
  match calls with
  | [] => (true, nh, modes)
  | (c, a) :: rest =>
      let ok_names := all_safe (bc_names c) in
      let ok_walk :=
        if is_walk_call c then
          (List.length (bc_names c) <=? 1)%nat &&
          match bc_names c with
          | [] => true
          | _ => match alookup (bc_h c) modes with Some md => is_dir md | None => false end
          end
        else true in
      let '(nh', modes') :=
        if creates c a then
          let md := match bc_meth c, a with
                    | MWalkGetAttr, AVal v _ => match bc_names c with [] => match alookup (bc_h c) modes with Some x => x | None => 0 end
                                                                  | _ => bv_mode v end
                    | MWalk, _ => match bc_names c with [] => match alookup (bc_h c) modes with Some x => x | None => 0 end | _ => 0 end
                    | MCreate, _ => p9_ModeRegular
                    | _, _ => 0
                    end in
          (nh + 1, aset nh md modes)
        else match bc_meth c, a with
             | MGetAttr, AVal v [] =>
                 (* the type the server records: GetAttr on the File just obtained (walk fallback / attach) *)
                 (nh, if bc_h c =? nh - 1 then aset (bc_h c) (bv_mode v) modes else modes)
             | _, _ => (nh, modes)
             end in
      let '(okr, nh'', modes'') := c09_calls rest nh' modes' in
      (ok_names && ok_walk && okr, nh'', modes'')
  end.

Definition c09_step (o : ostep) (nh : N) (modes : list (N * N)) : bool * N * list (N * N) :=
  let calls := combine (os_calls o) (os_tape o) in
  let '(okc, nh', modes') := c09_calls calls nh modes in
  let unsafe := negb (all_safe (req_components (os_msg o))) in
  let ok_reject :=
    if unsafe then
      match os_msg o with
      | Tattach _ afid _ _ _ =>
          (negb (afid =? p9_noFID) || forallb (fun cl => negb (is_walk_call cl)) (os_calls o))
          && match os_reply o with RErr _ => true | _ => false end
      | Twalk _ _ _ | Twalkgetattr _ _ _ =>
          (* EBADF / EBUSY come first; never a backend call *)
          match os_reply o with RErr _ => true | _ => false end && match os_calls o with [] => true | _ => false end
      | _ => reply_eqb (os_reply o) (RErr linux_EINVAL) && match os_calls o with [] => true | _ => false end
      end
    else true in
  (okc && ok_reject, nh', modes').

(** C15 on one observed step *)
Definition is_fault (c : bcall) (a : answer) : option errv :=
  match a with
  | APanic => None
  | AVal _ e =>
      if negb (is_err e) then None
      else match bc_meth c with
           | MClose | MRenamed => None
           | MWalkGetAttr => if has_enosys e then None else Some e
           | MReadAt | MReaddir => if has_eof e then None else Some e
           | _ => Some e
           end
  end.
Definition has_panic (tape : list answer) : bool := existsb (fun a => match a with APanic => true | _ => false end) tape.
Fixpoint first_fault (calls : list (bcall * answer)) : option errv :=
  match calls with
  | [] => None
  | (c, a) :: r => match is_fault c a with Some e => Some e | None => first_fault r end
  end.
Definition close_errors (calls : list (bcall * answer)) : errv :=
  flat_map (fun ca => match bc_meth (fst ca), snd ca with MClose, AVal _ e => e | _, _ => [] end) calls.
Fixpoint created_handles (calls : list (bcall * answer)) (nh : N) : list N :=
  match calls with
  | [] => []
  | (c, a) :: r => if creates c a then nh :: created_handles r (nh + 1) else created_handles r nh
  end.
Definition closed_in (calls : list bcall) (h : N) : bool :=
  existsb (fun c => match bc_meth c with MClose => bc_h c =? h | _ => false end) calls.
Fixpoint remove_N (x : N) (l : list N) : list N :=
  match l with [] => [] | y :: r => if x =? y then remove_N x r else y :: remove_N x r end.

(** [before] = fids bound on the connection before the request (the model state, which agreed so far) *)
Definition c15_step (o : ostep) (before : list N) (nh : N) : bool :=
  let calls := combine (os_calls o) (os_tape o) in
  if has_panic (os_tape o) then reply_eqb (os_reply o) (RErr linux_EFAULT)
  else match first_fault calls with
       | None => true
       | Some e =>
           let expect := match os_msg o with
                         | Tclunk _ => let ce := close_errors calls in if is_err ce then ce else e
                         | _ => e
                         end in
           reply_eqb (os_reply o) (RErr (extract_errno expect))
           && list_eqb N.eqb (os_fids o)
                (match os_msg o with Tclunk f | Tremove f => remove_N f before | _ => before end)
           && forallb (closed_in (os_calls o)) (created_handles calls nh)
       end.

(** C04 on one observed step, with the model state [s] (which agreed with the
    implementation so far) as the abstraction of the history *)
Definition abs (s : sstate) : astate :=
  mkA (fun c f => match tlookup (c, f) (st_fids s) with Some r => Some (view_of s r) | None => None end)
      (fun c => alookup c (st_msize s)).

Definition only_close (l : list bcall) : bool := forallb (fun c => match bc_meth c with MClose => true | _ => false end) l.

Definition c04_step (s : sstate) (o : ostep) : bool :=
  let c := os_conn o in
  let m := os_msg o in
  let before := conn_fids s c in
  match spec_reject (abs s) c m with
  | Some e =>
      (reply_eqb (os_reply o) (RErr e)
       || match m with Tremove _ => has_panic (os_tape o) && reply_eqb (os_reply o) (RErr linux_EFAULT) | _ => false end)
      && match m with
         | Tremove f => only_close (os_calls o) && list_eqb N.eqb (os_fids o) (remove_N f before)
         | _ => match os_calls o with [] => true | _ => false end && list_eqb N.eqb (os_fids o) before
         end
  | None =>
      match os_reply o with
      | RErr _ =>
          list_eqb N.eqb (os_fids o) (match m with Tclunk f | Tremove f => remove_N f before | _ => before end)
          || has_panic (os_tape o)      (* after a panic only the reply is specified *)
      | _ =>
          list_eqb N.eqb (os_fids o)
            (match m with
             | Tclunk f | Tremove f => remove_N f before
             | Twalk _ nf _ | Twalkgetattr _ nf _ | Txattrwalk _ nf _ => sort_by N.leb (nf :: remove_N nf before)
             | Tattach f _ _ _ _ => sort_by N.leb (f :: remove_N f before)
             | _ => before
             end)
      end
  end.

(** ---- one history: first step where the model disagrees, and where a predicate fails ---- *)
Record verdict := mkVerdict { vd_mismatch : option nat; vd_c04 : option nat; vd_c09 : option nat; vd_c15 : option nat }.

Definition first_some (a b : option nat) : option nat := match a with Some _ => a | None => b end.

Fixpoint next_handle_after (calls : list (bcall * answer)) (nh : N) : N :=
  match calls with
  | [] => nh
  | (c, a) :: r => next_handle_after r (if creates c a then nh + 1 else nh)
  end.

(** [c09_step] needs no model state: after the first model mismatch the C09 predicate keeps judging the rest of the
    observed history (a failing input is then reported concretely instead of only as a broken correspondence) *)
Fixpoint c09_only (steps : list ostep) (i : nat) (nh : N) (modes : list (N * N)) : option nat :=
  match steps with
  | [] => None
  | o :: rest => let '(p09, nh9, modes') := c09_step o nh modes in
                 if p09 then c09_only rest (S i) nh9 modes' else Some i
  end.

Fixpoint run_hist (steps : list ostep) (i : nat) (s : sstate) (nh : N) (modes : list (N * N)) (v : verdict) : verdict :=
  match steps with
  | [] => v
  | o :: rest =>
      let p04 := c04_step s o in
      let '(p09, nh9, modes') := c09_step o nh modes in
      let p15 := c15_step o (conn_fids s (os_conn o)) nh in
      let '(ag, s') := step_agrees s o in
      let v' := mkVerdict (first_some (vd_mismatch v) (if ag then None else Some i))
                          (first_some (vd_c04 v) (if p04 then None else Some i))
                          (first_some (vd_c09 v) (if p09 then None else Some i))
                          (first_some (vd_c15 v) (if p15 then None else Some i)) in
      if ag then run_hist rest (S i) s' nh9 modes' v'
      else mkVerdict (vd_mismatch v') (vd_c04 v') (first_some (vd_c09 v') (c09_only rest (S i) nh9 modes')) (vd_c15 v')
  end.

Definition judge (c : srvcase) : verdict :=
  match c with
  | CHist steps => run_hist steps 0%nat init_state 1 [] (mkVerdict None None None None)
  | CPar fa fb ra rb opens =>
      mkVerdict (if par_agrees fa fb ra rb opens then None else Some 0%nat)
                (if par_ok ra rb opens then None else Some 0%nat) None None
  end.

Definition agrees (c : srvcase) : bool := match vd_mismatch (judge c) with None => true | Some _ => false end.

Fixpoint indices_where {A} (f : A -> bool) (l : list A) (i : nat) : list nat :=
  match l with [] => [] | x :: r => if f x then i :: indices_where f r (S i) else indices_where f r (S i) end.

Definition judged (cases : list srvcase) : list verdict := map judge cases.
Definition isSome {A} (o : option A) : bool := match o with Some _ => true | None => false end.
Definition mismatches (vs : list verdict) : list nat := indices_where (fun v => isSome (vd_mismatch v)) vs 0.
Definition failures04 (vs : list verdict) : list nat := indices_where (fun v => isSome (vd_c04 v)) vs 0.
Definition failures09 (vs : list verdict) : list nat := indices_where (fun v => isSome (vd_c09 v)) vs 0.
Definition failures15 (vs : list verdict) : list nat := indices_where (fun v => isSome (vd_c15 v)) vs 0.
(** (history, first disagreeing step, first failing step per property) for the report *)
Definition where_ (vs : list verdict) : list (nat * (option nat * option nat * option nat * option nat)) :=
  let fix go (l : list verdict) (i : nat) :=
    match l with
    | [] => []
    | v :: r => if isSome (vd_mismatch v) || isSome (vd_c04 v) || isSome (vd_c09 v) || isSome (vd_c15 v)
                then (i, (vd_mismatch v, vd_c04 v, vd_c09 v, vd_c15 v)) :: go r (S i) else go r (S i)
    end in go vs 0%nat.

(** long hostile names in cases files: [n] copies of byte [b] *)
Definition rep_string (n b : N) : string := N.iter n (String (ascii_of_N b)) EmptyString.
