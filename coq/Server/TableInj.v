(** The fid table stays injective (a fidRef is bound to at most one fid) along every history:
    every fidRef a request binds was allocated by that request. *)
From Coq Require Import NArith ZArith List String Bool Lia.
From P9V Require Import Base.Str gen.ConstGen Fs.Version Server.State Server.Msg Server.SessionSpec Server.Handlers
  Server.Ledger Server.FaultProofs Server.Refine Server.TableFrame Server.RefineOk.
Import ListNotations.
Open Scope N_scope.

Section Fresh.
  Variable n0 : N.
  Variable t0 : list ((connid * fid) * refid).

  (** the allocation mark only grows and every binding is an old one or a fidRef allocated since *)
  Definition fok (w : world) : Prop :=
    n0 <= st_next_ref (w_st w) /\
    forall k x, tlookup k (st_fids (w_st w)) = Some x -> tlookup k t0 = Some x \/ n0 <= x.

  Definition fp {A} (m : M A) (Q : A -> Prop) : Prop :=
    forall w o w', fok w -> m w = (o, w') -> fok w' /\ (forall a, o = Ok a -> Q a).

  Lemma fp_ret {A} (a : A) (Q : A -> Prop) : Q a -> fp (ret a) Q.
  Proof. intros HQ w o w' H E. inversion E; subst. split; auto. intros a' Ea; inversion Ea; subst; auto. Qed.
  Lemma fp_panic {A} (Q : A -> Prop) : fp (@panic A) Q.
  Proof. intros w o w' H E. inversion E; subst. split; auto. discriminate. Qed.
  Lemma fp_bind {A B} (m : M A) (f : A -> M B) Q R : fp m Q -> (forall a, Q a -> fp (f a) R) -> fp (bind m f) R.
  Proof.
    intros Hm Hf w o w' H E. unfold bind in E. destruct (m w) as [[a|] w1] eqn:Em.
    - destruct (Hm _ _ _ H Em) as [H1 HQ]. exact (Hf a (HQ a eq_refl) _ _ _ H1 E).
    - destruct (Hm _ _ _ H Em) as [H1 _]. inversion E; subst. split; auto. discriminate.
  Qed.
  Lemma fp_with_defer {A} (d : M unit) (m : M A) Q : fp d (fun _ => True) -> fp m Q -> fp (with_defer d m) Q.
  Proof.
    intros Hd Hm w o w' H E. unfold with_defer in E. destruct (m w) as [o1 w1] eqn:Em.
    destruct (Hm _ _ _ H Em) as [H1 HQ]. destruct (d w1) as [[u|] w2] eqn:Ed; destruct (Hd _ _ _ H1 Ed) as [H2 _]; inversion E; subst; split; auto. discriminate.
  Qed.
  Lemma fp_weaken {A} (m : M A) (Q Q' : A -> Prop) : fp m Q -> (forall a, Q a -> Q' a) -> fp m Q'.
  Proof. intros Hm HQ w o w' H E. destruct (Hm _ _ _ H E) as [H1 H2]. split; auto. Qed.

  (** fids kept, mark not lowered *)
  Lemma fp_keep {A} (m : M A) :
    (forall w o w', m w = (o, w') -> st_fids (w_st w') = st_fids (w_st w) /\ st_next_ref (w_st w) <= st_next_ref (w_st w')) ->
    fp m (fun _ => True).
  Proof.
    intros Hk w o w' [H1 H2] E. destruct (Hk _ _ _ E) as [Ef En]. split; [|auto]. split; [lia|]. rewrite Ef. exact H2.
  Qed.
  Lemma fp_keeps {A} (m : M A) : keeps m -> fp m (fun _ => True).
  Proof. intros Hk. apply fp_keep. intros w o w' E. destruct (Hk _ _ _ E) as (_ & T & N). split; [exact T|rewrite N; lia]. Qed.
  Lemma fp_gets {A} (f : sstate -> A) : fp (gets f) (fun _ => True). Proof. apply fp_keeps, keeps_gets. Qed.
  Lemma fp_backend c : fp (backend c) (fun _ => True). Proof. apply fp_keeps, keeps_backend. Qed.
  Lemma fp_modify_ref f : (forall s, st_fids (f s) = st_fids s /\ st_next_ref (f s) = st_next_ref s) -> fp (modify f) (fun _ => True).
  Proof. intros Hf. apply fp_keep. intros w o w' E. inversion E; subst; cbn. destruct (Hf (w_st w)) as [A B]. split; [exact A|rewrite B; lia]. Qed.
  Lemma fp_incref r : fp (incref r) (fun _ => True). Proof. apply fp_modify_ref. intros; split; reflexivity. Qed.
  Lemma fp_new_ref fr : fp (new_ref fr) (fun r => n0 <= r).
  Proof.
    intros w o w' [H1 H2] E. rewrite new_ref_run in E. inversion E; subst. split.
    - split; [cbn; lia|cbn; exact H2].
    - intros a Ea. inversion Ea; subst. exact H1.
  Qed.

  Ltac fpk :=
    repeat first
      [ apply fp_ret; exact I | apply fp_panic | apply fp_gets | apply fp_backend | apply fp_incref
      | apply fp_keeps; first [apply keeps_fresh_handle | apply keeps_node_for | apply keeps_add_child | apply keeps_name_for
                              | apply keeps_remove_child | apply keeps_walk_one | apply keeps_the_ref | apply keeps_the_node]
      | apply fp_modify_ref; intros; split; reflexivity
      | eapply fp_bind; [|intros ? _]
      | match goal with
        | |- fp (match ?x with _ => _ end) _ => destruct x
        | |- fp (let '(_, _) := ?x in _) _ => destruct x
        | |- fp (if ?b then _ else _) _ => destruct b
        end ].

  Lemma fp_decref fuel : forall r, fp (decref fuel r) (fun _ => True).
  Proof.
    induction fuel as [|k IH]; intros r; cbn [decref]; [apply fp_panic|].
    eapply fp_bind; [apply fp_gets|intros fr _]. eapply fp_bind; [apply fp_modify_ref; intros; split; reflexivity|intros _ _].
    destruct (_ =? 0)%Z; [|apply fp_ret; exact I].
    eapply fp_bind with (Q := fun _ => True).
    - destruct (fr_xof fr); [apply IH|]. fpk.
    - intros e1 _. eapply fp_bind with (Q := fun _ => True); [|intros e2 _; apply fp_ret; exact I].
      destruct (fr_parent fr); [|apply fp_ret; exact I].
      eapply fp_bind; [apply fp_gets|intros pfr _]. eapply fp_bind; [fpk|intros _ _; apply IH].
  Qed.
  Lemma fp_dec_ref r : fp (dec_ref r) (fun _ => True).
  Proof. unfold dec_ref. eapply fp_bind; [apply fp_gets|intros fuel _; apply fp_decref]. Qed.
  Lemma fp_dec_ref_ r : fp (dec_ref_ r) (fun _ => True).
  Proof. unfold dec_ref_. eapply fp_bind; [apply fp_dec_ref|intros _ _; apply fp_ret; exact I]. Qed.

  Lemma fp_rwn_loop {A} n fn (k : M A) Q : (forall f r, fn = Some f -> fp (f r) (fun _ => True)) -> fp k Q -> forall rs, fp (rwn_loop n fn rs k) Q.
  Proof.
    intros Hf Hk rs. induction rs as [|r rest IH]; cbn [rwn_loop]; [exact Hk|].
    eapply fp_bind; [fpk|intros _ _]. destruct fn as [f|]; [|exact IH].
    eapply fp_bind; [apply fp_gets|intros fr _]. destruct (0 <? fr_refs fr)%Z; [|exact IH].
    eapply fp_bind; [apply fp_incref|intros _ _]. apply fp_with_defer; [apply fp_dec_ref_|].
    eapply fp_bind; [apply (Hf f r eq_refl)|intros _ _; exact IH].
  Qed.
  Lemma fp_remove_with_name n name fn : (forall f r, fn = Some f -> fp (f r) (fun _ => True)) -> fp (remove_with_name n name fn) (fun _ => True).
  Proof. intros Hf. unfold remove_with_name. eapply fp_bind; [apply fp_gets|intros p _]. apply fp_rwn_loop; [exact Hf|]. fpk. Qed.
  Lemma fp_notify_delete fuel : forall n, fp (notify_delete fuel n) (fun _ => True).
  Proof.
    induction fuel as [|k IH]; intros n; cbn [notify_delete]; [apply fp_panic|].
    eapply fp_bind; [apply fp_gets|intros p _]. eapply fp_bind; [fpk|intros _ _].
    generalize (pn_kids p) as l. induction l as [|[nm c] rest IHl]; [apply fp_ret; exact I|]. eapply fp_bind; [apply IH|intros _ _; exact IHl].
  Qed.
  Lemma fp_mark_child_deleted n name : fp (mark_child_deleted n name) (fun _ => True).
  Proof.
    unfold mark_child_deleted. eapply fp_bind; [apply fp_remove_with_name; intros f r H; discriminate|intros o _].
    destruct o; [|apply fp_ret; exact I]. eapply fp_bind; [apply fp_gets|intros fuel _; apply fp_notify_delete].
  Qed.
  Lemma fp_notify_name_change {A} fuel : forall n (k : M A) Q, fp k Q -> fp (notify_name_change fuel n k) Q.
  Proof.
    induction fuel as [|f IH]; intros n k Q Hk; cbn [notify_name_change]; [apply fp_panic|].
    eapply fp_bind; [apply fp_gets|intros p _].
    generalize (pn_refs p) as l. induction l as [|[r nm] rest IHl].
    - generalize (pn_kids p) as kids. induction kids as [|[nm c] rest IHk]; [exact Hk|]. apply IH. exact IHk.
    - eapply fp_bind; [apply fp_gets|intros fr _]. destruct (0 <? fr_refs fr)%Z; [|exact IHl].
      eapply fp_bind; [apply fp_incref|intros _ _]. apply fp_with_defer; [apply fp_dec_ref_|].
      destruct (fr_parent fr); [|apply fp_panic].
      eapply fp_bind; [apply fp_gets|intros pfr _]. eapply fp_bind; [apply fp_backend|intros _ _; exact IHl].
  Qed.
  Lemma fp_rename_child_to f old target new : fp (rename_child_to f old target new) (fun _ => True).
  Proof.
    unfold rename_child_to. eapply fp_bind; [apply fp_gets|intros ffr _]. eapply fp_bind; [apply fp_gets|intros tfr _].
    eapply fp_bind; [apply fp_mark_child_deleted|intros _ _]. eapply fp_bind with (Q := fun _ => True).
    - apply fp_remove_with_name. intros g r Hg. inversion Hg; subst; clear Hg.
      eapply fp_bind; [apply fp_gets|intros fr _]. eapply fp_bind; [fpk|intros _ _]. eapply fp_bind; [fpk|intros _ _]. eapply fp_bind; [fpk|intros _ _].
      eapply fp_bind; [fpk|intros _ _]. eapply fp_bind with (Q := fun _ => True); [destruct (fr_parent fr); [apply fp_dec_ref_|apply fp_panic]|intros _ _]. fpk.
    - intros o _. destruct o; [|apply fp_ret; exact I]. eapply fp_bind; [fpk|intros _ _].
      eapply fp_bind; [apply fp_gets|intros fuel _]. apply fp_notify_name_change. apply fp_ret; exact I.
  Qed.

  Definition wres_fresh (x : res (list N * refid * bval)) : Prop := match x with inl _ => True | inr (_, nr, _) => n0 <= nr end.
  Lemma fp_walk_loop : forall names walk qids last, n0 <= walk -> fp (walk_loop names walk qids last) wres_fresh.
  Proof.
    induction names as [|n rest IH]; intros walk qids last Hw; cbn [walk_loop]; [apply fp_ret; exact Hw|].
    eapply fp_bind; [apply fp_gets|intros wfr _]. unfold fail.
    destruct (negb _); [eapply fp_bind; [apply fp_dec_ref_|intros _ _; apply fp_ret; exact I]|].
    eapply fp_bind; [apply fp_gets|intros del _]. destruct del; [eapply fp_bind; [apply fp_dec_ref_|intros _ _; apply fp_ret; exact I]|].
    eapply fp_bind; [fpk|intros r _]. destruct r as [e|[[q h] a]]; [eapply fp_bind; [apply fp_dec_ref_|intros _ _; apply fp_ret; exact I]|].
    eapply fp_bind; [fpk|intros node _]. eapply fp_bind; [apply fp_new_ref|intros nr Hnr]. eapply fp_bind; [fpk|intros _ _]. eapply fp_bind; [fpk|intros _ _].
    apply IH; exact Hnr.
  Qed.

  Lemma fp_do_walk ref names ga : fp (do_walk ref names ga) wres_fresh.
  Proof.
    unfold do_walk, fail. destruct (negb _); [apply fp_ret; exact I|]. destruct names as [|n rest].
    - eapply fp_bind; [apply fp_gets|intros fr _]. destruct (fr_xof fr); [apply fp_ret; exact I|].
      eapply fp_bind; [fpk|intros r _]. destruct r as [e|[[q h] a]]; [apply fp_ret; exact I|].
      eapply fp_bind; [apply fp_new_ref|intros nr Hnr].
      eapply fp_bind with (Q := fun _ => True); [|intros _ _; eapply fp_bind; [apply fp_incref|intros _ _; apply fp_ret; exact Hnr]].
      destruct (fr_parent fr); [|apply fp_ret; exact I].
      eapply fp_bind; [apply fp_gets|intros del _]. eapply fp_bind; [apply fp_gets|intros pfr _].
      eapply fp_bind with (Q := fun _ => True); [destruct del; fpk|intros _ _; apply fp_incref].
    - (* the first component allocates: the start reference itself is never returned *)
      eapply fp_bind; [apply fp_incref|intros _ _]. cbn [walk_loop].
      eapply fp_bind; [apply fp_gets|intros wfr _]. unfold fail.
      destruct (negb _); [eapply fp_bind; [apply fp_dec_ref_|intros _ _; apply fp_ret; exact I]|].
      eapply fp_bind; [apply fp_gets|intros del _]. destruct del; [eapply fp_bind; [apply fp_dec_ref_|intros _ _; apply fp_ret; exact I]|].
      eapply fp_bind; [fpk|intros r _]. destruct r as [e|[[q h] a]]; [eapply fp_bind; [apply fp_dec_ref_|intros _ _; apply fp_ret; exact I]|].
      eapply fp_bind; [fpk|intros node _]. eapply fp_bind; [apply fp_new_ref|intros nr Hnr]. eapply fp_bind; [fpk|intros _ _]. eapply fp_bind; [fpk|intros _ _].
      apply fp_walk_loop; exact Hnr.
  Qed.

  Lemma fp_insert_fid c f r : n0 <= r -> fp (insert_fid c f r) (fun _ => True).
  Proof.
    intros Hr. unfold insert_fid. eapply fp_bind; [apply fp_gets|intros o _]. eapply fp_bind; [apply fp_incref|intros _ _].
    eapply fp_bind with (Q := fun _ => True); [|intros _ _; destruct o; [apply fp_dec_ref_|apply fp_ret; exact I]].
    intros w o0 w' [H1 H2] E. inversion E; subst; cbn. split; [|auto]. split; [exact H1|].
    intros k x Hk. cbn [w_st st_fids put_fids] in Hk. destruct (keyb k (c, f)) eqn:Ek.
    - apply keyb_eq in Ek. subst k. rewrite tlookup_tset_same in Hk. inversion Hk; subst. right; exact Hr.
    - rewrite tlookup_tset_other in Hk by exact Ek. auto.
  Qed.
  Lemma fp_delete_fid c f : fp (delete_fid c f) (fun _ => True).
  Proof.
    unfold delete_fid. eapply fp_bind; [apply fp_gets|intros o _]. destruct o; [|apply fp_ret; exact I].
    eapply fp_bind with (Q := fun _ => True); [|intros _ _; apply fp_dec_ref].
    intros w o0 w' [H1 H2] E. inversion E; subst; cbn. split; [|auto]. split; [exact H1|].
    intros k x Hk. cbn [w_st st_fids put_fids] in Hk. destruct (keyb k (c, f)) eqn:Ek.
    - apply keyb_eq in Ek. subst k. rewrite tlookup_tdel_same in Hk. discriminate.
    - rewrite tlookup_tdel_other in Hk by exact Ek. auto.
  Qed.
  Lemma fp_lookup_fid c f : fp (lookup_fid c f) (fun _ => True).
  Proof. unfold lookup_fid. fpk. Qed.

  Lemma fp_body c m r t : fp (body c m r t) (fun _ => True).
  Proof.
    unfold body, fail. eapply fp_bind; [apply fp_gets|intros fr _]. eapply fp_bind; [apply fp_gets|intros tfr _].
    destruct m; try (fpk; fail).
    - eapply fp_bind; [apply fp_do_walk|intros w Hw]. destruct w as [e|[[q nr] a]]; [fpk|]. cbn in Hw.
      apply fp_with_defer; [apply fp_dec_ref_|]. eapply fp_bind; [apply fp_insert_fid; exact Hw|intros _ _; fpk].
    - eapply fp_bind; [apply fp_do_walk|intros w Hw]. destruct w as [e|[[q nr] a]]; [fpk|]. cbn in Hw.
      apply fp_with_defer; [apply fp_dec_ref_|]. eapply fp_bind; [apply fp_insert_fid; exact Hw|intros _ _; fpk].
    - destruct (fr_parent fr); [|fpk]. eapply fp_bind; [fpk|intros pfr _]. eapply fp_bind; [fpk|intros nm _].
      eapply fp_bind; [fpk|intros [v e] _]. destruct (is_err e); [fpk|]. eapply fp_bind; [apply fp_mark_child_deleted|intros _ _; fpk].
    - eapply fp_bind; [fpk|intros [v e] _]. destruct (is_err e); [fpk|].
      eapply fp_bind; [fpk|intros h _]. eapply fp_bind; [fpk|intros node _]. eapply fp_bind; [apply fp_new_ref|intros nr Hnr]. eapply fp_bind; [fpk|intros _ _].
      eapply fp_bind; [fpk|intros _ _]. eapply fp_bind; [apply fp_insert_fid; exact Hnr|intros _ _; fpk].
    - destruct (_ && _); [fpk|]. eapply fp_bind; [fpk|intros [v e] _]. destruct (is_err e); [fpk|].
      eapply fp_bind; [apply fp_rename_child_to|intros _ _; fpk].
    - eapply fp_bind; [fpk|intros _ _]. eapply fp_bind; [fpk|intros [v e] _]. destruct (is_err e); [fpk|].
      eapply fp_bind; [apply fp_mark_child_deleted|intros _ _; fpk].
    - destruct (fr_parent fr); [|fpk]. eapply fp_bind; [fpk|intros pfr _]. eapply fp_bind; [fpk|intros pdel _]. destruct pdel; [fpk|].
      eapply fp_bind; [fpk|intros old _]. destruct (_ && _); [fpk|]. eapply fp_bind; [fpk|intros [v e] _]. destruct (is_err e); [fpk|].
      eapply fp_bind; [apply fp_rename_child_to|intros _ _; fpk].
    - eapply fp_bind with (Q := fun _ => True); [fpk|intros [len e] _]. destruct (is_err e); [fpk|]. match goal with |- fp (if ?b then _ else _) _ => destruct b end; [fpk|].
      eapply fp_bind; [apply fp_new_ref|intros nr Hnr]. eapply fp_bind; [fpk|intros _ _]. eapply fp_bind; [apply fp_insert_fid; exact Hnr|intros _ _; fpk].
  Qed.

  Lemma fp_guarded c m k : fp (guarded c m k) (fun _ => True).
  Proof.
    unfold guarded, fail. destruct (negb _); [fpk|].
    eapply fp_bind; [apply fp_lookup_fid|intros o _]. destruct o as [r|]; [|fpk].
    apply fp_with_defer; [apply fp_dec_ref_|].
    assert (Hin : forall t, fp
      (ms <- gets (fun s => alookup c (st_msize s)) ;; p <- gets (fun s => view_of s r) ;; tv <- gets (fun s => view_of s t) ;;
       x <- match first_failing (guards_of k) m ms p tv with Some (GE e) => ret (inl (eno e)) | Some GP => panic | None => body c m r t end ;;
       post c m x)%m (fun _ => True)).
    { intros t. eapply fp_bind; [fpk|intros ms _]. eapply fp_bind; [fpk|intros p _]. eapply fp_bind; [fpk|intros tv _].
      eapply fp_bind with (Q := fun _ => True).
      - destruct (first_failing _ _ _ _ _) as [[e|]|]; [fpk|fpk|apply fp_body].
      - intros x _. unfold post. destruct m; try (fpk; fail).
        eapply fp_bind; [apply fp_delete_fid|intros derr _; fpk]. }
    destruct (fid2_of m); [|apply Hin].
    eapply fp_bind; [apply fp_lookup_fid|intros o2 _]. destruct o2 as [t|]; [|fpk].
    apply fp_with_defer; [apply fp_dec_ref_|apply Hin].
  Qed.

  Lemma fp_handler c m : fp (handler c m) (fun _ => True).
  Proof.
    unfold handler. destruct m; try (fpk; fail); try (cbn [kind_of]; eapply fp_bind; [apply fp_guarded|intros x _; fpk]).
    - unfold h_version. destruct (tversion_handle msize ver) as [[mm v] st].
      eapply fp_bind with (Q := fun _ => True); [|intros _ _; fpk]. destruct st as [[ms ?]|]; fpk.
    - unfold h_attach. destruct (negb _); [fpk|].
      eapply fp_bind; [fpk|intros [v e] _]. destruct (is_err e); [fpk|]. eapply fp_bind; [fpk|intros h _]. eapply fp_bind; [apply fp_new_ref|intros root Hroot].
      apply fp_with_defer; [apply fp_dec_ref_|].
      eapply fp_bind; [fpk|intros [va ea] _]. destruct (is_err ea); [fpk|]. destruct (negb _); [fpk|].
      eapply fp_bind; [fpk|intros rfr _]. eapply fp_bind; [fpk|intros _ _].
      destruct (String.eqb _ _).
      + eapply fp_bind; [apply fp_insert_fid; exact Hroot|intros _ _; fpk].
      + eapply fp_bind; [apply fp_do_walk|intros w Hw]. destruct w as [e0|[[q nr] a]]; [fpk|]. cbn in Hw.
        apply fp_with_defer; [apply fp_dec_ref_|]. eapply fp_bind; [apply fp_insert_fid; exact Hw|intros _ _; fpk].
    - unfold h_clunk. eapply fp_bind with (Q := fun _ => True).
      + unfold clunk_xattr. eapply fp_bind; [apply fp_lookup_fid|intros o _]. destruct o as [r|]; [|fpk].
        apply fp_with_defer; [apply fp_dec_ref_|]. fpk.
      + intros cerr _. eapply fp_bind; [apply fp_delete_fid|intros derr _; fpk].
  Qed.
End Fresh.

(** every binding after a request is an old binding or a fidRef allocated by the request *)
Theorem bound_old_or_fresh s c m tape k x :
  tlookup k (st_fids (fst (fst (fst (step s c m tape))))) = Some x ->
  tlookup k (st_fids s) = Some x \/ st_next_ref s <= x.
Proof.
  intros H. unfold step in H. destruct (handler c m (mkW s tape [])) as [o w] eqn:E.
  assert (Hok : fok (st_next_ref s) (st_fids s) (mkW s tape [])) by (split; cbn; [lia|auto]).
  destruct (fp_handler (st_next_ref s) (st_fids s) c m _ _ _ Hok E) as [[_ H2] _].
  destruct o; cbn in H; exact (H2 k x H).
Qed.

(** the invariant of the refinement: ledger + injective table *)
Definition Inv (s : sstate) : Prop := Ledger s /\ tinj s.

Lemma touches_one c m k k' : touches c m k = true -> touches c m k' = true -> keyb k k' = true.
Proof.
  unfold touches, keyb. intros H1 H2. apply andb_true_iff in H1, H2. destruct H1 as [A1 B1], H2 as [A2 B2].
  apply N.eqb_eq in A1, A2. rewrite A1, A2, N.eqb_refl. cbn.
  destruct m; try discriminate; apply N.eqb_eq in B1, B2; rewrite B1, B2; apply N.eqb_refl.
Qed.

Theorem inv_step s c m tape : Inv s -> Inv (fst (fst (fst (step s c m tape)))).
Proof.
  intros [HL Hinj]. split; [apply ledger_step; exact HL|].
  intros k k' x Hk Hk'.
  assert (Below : forall k0 y, tlookup k0 (st_fids s) = Some y -> y < st_next_ref s).
  { intros k0 y E0. eapply (L_claimed_below d0 s); [exact HL|apply nonneg_d0|].
    pose proof (tcount_tlookup _ _ _ E0). pose proof (rcount_nonneg y (st_refs s)). lia. }
  destruct (touches c m k) eqn:Tk, (touches c m k') eqn:Tk'.
  - eapply touches_one; eauto.
  - destruct k' as [c2 f2]. rewrite (other_fids_untouched s c m tape c2 f2 Tk') in Hk'.
    destruct (bound_old_or_fresh s c m tape k x Hk) as [Ho|Hf]; [exact (Hinj _ _ _ Ho Hk')|].
    pose proof (Below _ _ Hk'). lia.
  - destruct k as [c1 f1]. rewrite (other_fids_untouched s c m tape c1 f1 Tk) in Hk.
    destruct (bound_old_or_fresh s c m tape k' x Hk') as [Ho|Hf]; [exact (Hinj _ _ _ Hk Ho)|].
    pose proof (Below _ _ Hk). lia.
  - destruct k as [c1 f1], k' as [c2 f2].
    rewrite (other_fids_untouched s c m tape c1 f1 Tk) in Hk. rewrite (other_fids_untouched s c m tape c2 f2 Tk') in Hk'.
    exact (Hinj _ _ _ Hk Hk').
Qed.

Lemma inv_init : Inv init_state.
Proof. split; [apply ledger_init|]. intros k k' x H. cbn in H. discriminate. Qed.

Theorem inv_every_history h : Inv (Refine.run init_state h).
Proof.
  assert (G : forall s, Inv s -> Inv (Refine.run s h)).
  { induction h as [|[[c m] t] r IH]; intros s HI; cbn; [exact HI|]. apply IH, inv_step, HI. }
  apply G, inv_init.
Qed.

(** whole-request refinement of the covered handlers after every history *)
Theorem refines_covered_every_history h c m tape :
  covered m = true -> refines_at (Refine.run init_state h) c m tape.
Proof. intros Hc. destruct (inv_every_history h) as [HL Hinj]. apply refines_covered; assumption. Qed.
