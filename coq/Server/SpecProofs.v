(** C04: what the session specification says, read off [spec_step] (all abstract
    states, all requests, all backend outcomes). *)
From Coq Require Import NArith List String Bool.
From P9V Require Import Base.Str gen.ConstGen Fs.Version Server.Msg Server.SessionSpec.
Import ListNotations.
Open Scope N_scope.

(** a refused request changes nothing (Tremove excepted: it still unbinds) *)
Lemma spec_reject_no_change a c m e o fence :
  spec_reject a c m = Some e -> (forall f, m <> Tremove f) -> spec_step a c m o fence = (a, Some e).
Proof.
  intros H Hm. unfold spec_step. rewrite H. destruct m; try reflexivity. exfalso; eapply Hm; reflexivity.
Qed.

(** EBADF on an unbound fid *)
Lemma spec_unbound a c m k :
  kind_of m = Some k -> forallb safe_nameb (names_of m) = true -> a_fids a c (fid1_of m) = None ->
  spec_reject a c m = Some linux_EBADF.
Proof.
  intros Hk Hn Hu. unfold spec_reject.
  destruct m; cbn in Hk; try discriminate; cbn [kind_of]; rewrite Hn; cbn [negb fid1_of]; cbn in Hu; rewrite Hu; reflexivity.
Qed.
Lemma spec_unbound_second a c m k p f2 :
  kind_of m = Some k -> forallb safe_nameb (names_of m) = true -> a_fids a c (fid1_of m) = Some p ->
  fid2_of m = Some f2 -> a_fids a c f2 = None -> spec_reject a c m = Some linux_EBADF.
Proof.
  intros Hk Hn Hb H2 Hu. unfold spec_reject.
  destruct m; cbn in Hk; try discriminate; cbn in H2; try discriminate; inversion H2; subst;
    cbn [kind_of]; rewrite Hn; cbn [negb fid1_of]; cbn in Hb; rewrite Hb; cbn [fid2_of]; rewrite Hu; reflexivity.
Qed.
Lemma spec_clunk_unbound a c f : a_fids a c f = None -> spec_reject a c (Tclunk f) = Some linux_EBADF.
Proof. intros H. unfold spec_reject. now rewrite H. Qed.

(** an unsafe name in a checked field: EINVAL *)
Lemma spec_unsafe a c m k :
  kind_of m = Some k -> forallb safe_nameb (names_of m) = false -> spec_reject a c m = Some linux_EINVAL.
Proof.
  intros Hk Hn. unfold spec_reject. destruct m; cbn in Hk; try discriminate; cbn [kind_of]; rewrite Hn; reflexivity.
Qed.

(** Tclunk and Tremove always unbind a bound fid, whatever else they report *)
Lemma bind_fid_same a c f v : a_fids (bind_fid a c f v) c f = v.
Proof. cbn. now rewrite !N.eqb_refl. Qed.
Lemma fence_none fence a c f : a_fids a c f = None -> a_fids (apply_fence fence a) c f = None.
Proof. intros H. cbn. now rewrite H. Qed.

Lemma spec_clunk_unbinds a c f p o fence :
  a_fids a c f = Some p -> o <> BPanicEarly -> a_fids (fst (spec_step a c (Tclunk f) o fence)) c f = None.
Proof.
  intros Hb Ho. unfold spec_step, spec_reject. rewrite Hb.
  destruct o; try congruence; cbn [fst post_fail post_ok]; apply fence_none, bind_fid_same.
Qed.
Lemma spec_remove_unbinds a c f p o fence :
  a_fids a c f = Some p -> o <> BPanicEarly -> a_fids (fst (spec_step a c (Tremove f) o fence)) c f = None.
Proof.
  intros Hb Ho. unfold spec_step. destruct (spec_reject a c (Tremove f)).
  - cbn [fid1_of]. rewrite Hb. apply bind_fid_same.
  - destruct o; try congruence; cbn [fst post_fail post_ok]; apply fence_none, bind_fid_same.
Qed.

(** Twalk / Twalkgetattr / Tattach / Txattrwalk / Tlcreate bind only on success: after an error
    reply the bindings are the old ones (up to fencing by a half-done rename, impossible here) *)
Definition binds (m : tmsg) : bool :=
  match m with
  | Twalk _ _ _ | Twalkgetattr _ _ _ | Tattach _ _ _ _ _ | Txattrwalk _ _ _ | Tlcreate _ _ _ _ _ _ => true
  | _ => false
  end.
Lemma spec_bind_only_on_success a c m o fence e :
  binds m = true -> (forall k fz n, o <> BPanicLate k fz n) -> snd (spec_step a c m o fence) = Some e ->
  fst (spec_step a c m o fence) = a \/ fst (spec_step a c m o fence) = apply_fence fence a.
Proof.
  intros Hb Hl He. unfold spec_step in *. destruct (spec_reject a c m) eqn:R.
  - left. destruct m; cbn in Hb; try discriminate; reflexivity.
  - destruct o as [e'|k fz n| |k fz n].
    + right. destruct m; cbn in Hb; try discriminate; reflexivity.
    + cbn in He. destruct m; cbn in Hb; try discriminate; cbn in He; discriminate.
    + right. reflexivity.
    + exfalso. eapply Hl; reflexivity.
Qed.

(** success of the binding requests binds newfid (replacing any previous binding) *)
Lemma spec_walk_binds a c f nf n names p k fz sz fence :
  spec_reject a c (Twalk f nf (n :: names)) = None -> a_fids a c f = Some p ->
  a_fids (fst (spec_step a c (Twalk f nf (n :: names)) (BOk k fz sz) fence)) c nf =
    Some (let v := fresh_view k fz false in if fence c nf then fence_view v else v).
Proof.
  intros R Hb. unfold spec_step. rewrite R. cbn. now rewrite !N.eqb_refl.
Qed.
Lemma spec_lcreate_rebinds_open a c u f name flags perm gid k fz sz fence :
  spec_reject a c (Tlcreate u f name flags perm gid) = None ->
  exists v, a_fids (fst (spec_step a c (Tlcreate u f name flags perm gid) (BOk k fz sz) fence)) c f = Some v
            /\ v_opened v = true /\ v_flags v = flags /\ v_mode v = p9_ModeRegular.
Proof.
  intros R. unfold spec_step. rewrite R. cbn. rewrite !N.eqb_refl. cbn.
  destruct (fence c f); eexists; repeat split.
Qed.

(** I/O needs a fid opened in a compatible mode *)
Section IO.
  Variables (a : astate) (c f : N) (p : fview) (ms : N).
  Hypothesis Hb : a_fids a c f = Some p.
  Hypothesis Hneg : a_neg a c = Some ms.
  Hypothesis Hx : v_xop p = p9_xattrNone.

  Lemma spec_read_unopened off count :
    (p9_maximumLength <? count) = false -> v_opened p = false -> spec_reject a c (Tread f off count) = Some linux_EINVAL.
  Proof.
    intros Hc Ho. unfold spec_reject; cbn. rewrite Hb, Hneg. unfold first_failing; cbn. rewrite Hc, Hx, Ho. reflexivity.
  Qed.
  Lemma spec_read_writeonly off count :
    (p9_maximumLength <? count) = false -> v_opened p = true -> open_mode (v_flags p) = p9_WriteOnly ->
    spec_reject a c (Tread f off count) = Some linux_EPERM.
  Proof.
    intros Hc Ho Hm. unfold spec_reject; cbn. rewrite Hb, Hneg. unfold first_failing; cbn. rewrite Hc, Hx, Ho, Hm. reflexivity.
  Qed.
  Lemma spec_write_unopened off len : v_opened p = false -> spec_reject a c (Twrite f off len) = Some linux_EINVAL.
  Proof. intros Ho. unfold spec_reject; cbn. rewrite Hb. unfold first_failing; cbn. rewrite Hx, Ho. reflexivity. Qed.
  Lemma spec_write_readonly off len :
    v_opened p = true -> open_mode (v_flags p) = p9_ReadOnly -> spec_reject a c (Twrite f off len) = Some linux_EPERM.
  Proof. intros Ho Hm. unfold spec_reject; cbn. rewrite Hb. unfold first_failing; cbn. rewrite Hx, Ho, Hm. reflexivity. Qed.
  Lemma spec_readdir_unopened off count :
    v_deleted p = false -> is_dir (v_mode p) = true -> v_opened p = false -> spec_reject a c (Treaddir f off count) = Some linux_EINVAL.
  Proof. intros Hd Hdir Ho. unfold spec_reject; cbn. rewrite Hb. unfold first_failing; cbn. rewrite Hd, Hdir, Ho. reflexivity. Qed.
  Lemma spec_fsync_unopened : v_opened p = false -> spec_reject a c (Tfsync f) = Some linux_EINVAL.
  Proof. intros Ho. unfold spec_reject; cbn. rewrite Hb. unfold first_failing; cbn. rewrite Ho. reflexivity. Qed.

  (** open at most once, only openable types, directories read-only *)
  Lemma spec_open_once flags : v_deleted p = false -> v_opened p = true -> spec_reject a c (Tlopen f flags) = Some linux_EINVAL.
  Proof. intros Hd Ho. unfold spec_reject; cbn. rewrite Hb. unfold first_failing; cbn. rewrite Hd, Ho. reflexivity. Qed.
  Lemma spec_open_type flags : v_deleted p = false -> can_open (v_mode p) = false -> spec_reject a c (Tlopen f flags) = Some linux_EINVAL.
  Proof. intros Hd Ho. unfold spec_reject; cbn. rewrite Hb. unfold first_failing; cbn. rewrite Hd, Ho. now rewrite orb_true_r. Qed.
  Lemma spec_dir_readonly flags :
    v_deleted p = false -> v_opened p = false -> is_dir (v_mode p) = true -> (open_mode flags =? p9_ReadOnly) = false ->
    spec_reject a c (Tlopen f flags) = Some linux_EISDIR.
  Proof.
    intros Hd Ho Hdir Hm. unfold spec_reject; cbn. rewrite Hb. unfold first_failing; cbn.
    assert (Hc : can_open (v_mode p) = true).
    { unfold can_open, is_dir in *. rewrite Hdir. now rewrite orb_true_r. }
    rewrite Hd, Ho, Hc, Hdir, Hm. reflexivity.
  Qed.

  (** an opened directory fid: walking in place EBUSY; create, mkdir, symlink, mknod, unlinkat, link, renameat-source EINVAL *)
  Lemma spec_walk_in_place names : v_opened p = true -> spec_reject a c (Twalk f f names) = Some linux_EBUSY.
  Proof. intros Ho. unfold spec_reject; cbn. rewrite Hb. unfold first_failing; cbn. rewrite Ho, N.eqb_refl. reflexivity. Qed.
  Lemma spec_walkgetattr_in_place names : v_opened p = true -> spec_reject a c (Twalkgetattr f f names) = Some linux_EBUSY.
  Proof. intros Ho. unfold spec_reject; cbn. rewrite Hb. unfold first_failing; cbn. rewrite Ho, N.eqb_refl. reflexivity. Qed.

  Definition in_dir_op (m : tmsg) : bool :=
    match m with
    | Tlcreate _ _ _ _ _ _ | Tsymlink _ _ _ _ _ | Tmknod _ _ _ _ _ _ _ | Tmkdir _ _ _ _ _ | Tunlinkat _ _ _ => true
    | _ => false
    end.
  Lemma spec_opened_dir_refused m :
    in_dir_op m = true -> fid1_of m = f -> forallb safe_nameb (names_of m) = true ->
    v_deleted p = false -> is_dir (v_mode p) = true -> v_opened p = true ->
    spec_reject a c m = Some linux_EINVAL.
  Proof.
    intros Hm Hf Hn Hd Hdir Ho. unfold spec_reject.
    destruct m; cbn in Hm; try discriminate; cbn [kind_of]; rewrite Hn; cbn [negb fid1_of]; cbn in Hf; subst;
      rewrite Hb; cbn [fid2_of]; unfold first_failing; cbn; rewrite Hd, Hdir, Ho; reflexivity.
  Qed.
  Lemma spec_opened_dir_link t pt name :
    a_fids a c t = Some pt -> safe_nameb name = true ->
    v_deleted p = false -> is_dir (v_mode p) = true -> v_opened p = true ->
    spec_reject a c (Tlink f t name) = Some linux_EINVAL.
  Proof.
    intros Ht Hn Hd Hdir Ho. unfold spec_reject; cbn. rewrite Hn; cbn. rewrite Hb, Ht.
    unfold first_failing; cbn. rewrite Hd, Hdir, Ho. reflexivity.
  Qed.
  (** Trenameat checks [opened] on the SOURCE directory only *)
  Lemma spec_opened_dir_renameat nd pt o n :
    a_fids a c nd = Some pt -> safe_nameb o = true -> safe_nameb n = true ->
    v_deleted p = false -> is_dir (v_mode p) = true -> v_opened p = true ->
    v_deleted pt = false -> is_dir (v_mode pt) = true ->
    spec_reject a c (Trenameat f o nd n) = Some linux_EINVAL.
  Proof.
    intros Ht Hn1 Hn2 Hd Hdir Ho Hd2 Hdir2. unfold spec_reject; cbn. rewrite Hn1, Hn2; cbn. rewrite Hb, Ht.
    unfold first_failing; cbn. rewrite Hd, Hdir, Ho, Hd2, Hdir2. reflexivity.
  Qed.
End IO.

(** xattr fids follow their own sub-protocol: a walk fid cannot be written, a create fid cannot be read *)
Lemma spec_xattr_walk_write a c f p off len :
  a_fids a c f = Some p -> v_xop p = p9_xattrWalk -> spec_reject a c (Twrite f off len) = Some linux_EINVAL.
Proof. intros Hb Hx. unfold spec_reject; cbn. rewrite Hb. unfold first_failing; cbn. rewrite Hx. reflexivity. Qed.
Lemma spec_xattr_create_read a c f p ms off count :
  a_fids a c f = Some p -> a_neg a c = Some ms -> (p9_maximumLength <? count) = false ->
  v_xop p = p9_xattrCreate -> spec_reject a c (Tread f off count) = Some linux_EINVAL.
Proof. intros Hb Hn Hc Hx. unfold spec_reject; cbn. rewrite Hb, Hn. unfold first_failing; cbn. rewrite Hc, Hx. reflexivity. Qed.
Lemma spec_xattr_create_offset a c f p off len :
  a_fids a c f = Some p -> v_xop p = p9_xattrCreate -> (v_xlen p =? off) = false ->
  spec_reject a c (Twrite f off len) = Some linux_EINVAL.
Proof. intros Hb Hx Ho. unfold spec_reject; cbn. rewrite Hb. unfold first_failing; cbn. rewrite Hx, Ho. reflexivity. Qed.

(** authentication is not offered *)
Lemma spec_no_auth a c afid un an uid : spec_reject a c (Tauth afid un an uid) = Some linux_ENOSYS.
Proof. reflexivity. Qed.
Lemma spec_attach_authfid a c f afid un an uid :
  afid <> p9_noFID -> spec_reject a c (Tattach f afid un an uid) = Some linux_EINVAL.
Proof. intros H. unfold spec_reject. apply N.eqb_neq in H. now rewrite H. Qed.
