(** T-messages, replies, checkSafeName, and the guard table of the handlers
    (p9/handlers.go): for every handler with the common shape
      checkSafeName(fields) ; LookupFID(s) ; guards in order ; backend call(s)
    the name fields, the fids looked up and the guards with the errno each
    returns.  The table is interpreted by the model (Handlers.v) and by the
    session specification (SessionSpec.v) and is compared with the summaries
    go2coq extracts from the Go source (gen/HandlerGen.v). *)
From Coq Require Import NArith List String Ascii Bool.
From P9V Require Import Base.Str gen.ConstGen.
Import ListNotations.
Open Scope N_scope.

Inductive tmsg :=
| Tversion (msize : N) (ver : string)
| Tflush (oldtag : N)
| Tauth (afid : N) (uname aname : string) (uid : N)
| Tattach (f afid : N) (uname aname : string) (uid : N)
| Twalk (f nf : N) (names : list string)
| Twalkgetattr (f nf : N) (names : list string)
| Tclunk (f : N)
| Tremove (f : N)
| Tlopen (f flags : N)
| Tlcreate (u : option N) (f : N) (name : string) (flags perm gid : N)      (* u = Some uid: Tucreate *)
| Tsymlink (u : option N) (d : N) (name target : string) (gid : N)
| Tmknod (u : option N) (d : N) (name : string) (mode major minor gid : N)
| Tmkdir (u : option N) (d : N) (name : string) (perm gid : N)
| Tlink (d target : N) (name : string)
| Trenameat (od : N) (oname : string) (nd : N) (nname : string)
| Tunlinkat (d : N) (name : string) (flags : N)
| Trename (f d : N) (name : string)
| Treadlink (f : N)
| Tread (f off count : N)
| Twrite (f off len : N)
| Tgetattr (f mask : N)
| Tsetattr (f valid : N)
| Txattrwalk (f nf : N) (name : string)
| Txattrcreate (f : N) (name : string) (size flags : N)
| Treaddir (d off count : N)
| Tfsync (f : N)
| Tstatfs (f : N)
| Tlock (f typ flags start len pid : N) (client : string)
| Tother (typ : N).                  (* a registered message type without a handler *)

(** replies: Rlerror errno, Rversion, or an R-message with its key fields *)
Inductive reply :=
| RErr (errno : N)
| RVersion (msize : N) (ver : string)
| ROk (typ : N) (vals : list N) (s : string).

(** ---- checkSafeName ---- *)
Definition slash : ascii := "/"%char.
Definition safe_nameb (s : string) : bool :=
  negb (String.eqb s "") && negb (contains_char slash s) && negb (String.eqb s ".") && negb (String.eqb s "..").

(** ---- guards ---- *)
Record fview := mkView {
  v_mode : N; v_opened : bool; v_flags : N; v_deleted : bool; v_root : bool;
  v_xop : N; v_xsize : N; v_xlen : N; v_xflags : N
}.

Definition ftype (mode : N) : N := N.land mode p9_FileModeMask.
Definition is_dir (mode : N) : bool := ftype mode =? p9_ModeDirectory.
Definition is_symlink (mode : N) : bool := ftype mode =? p9_ModeSymlink.
Definition can_open (mode : N) : bool :=
  (ftype mode =? p9_ModeRegular) || (ftype mode =? p9_ModeDirectory) || (ftype mode =? p9_ModeNamedPipe)
  || (ftype mode =? p9_ModeBlockDevice) || (ftype mode =? p9_ModeCharacterDevice).
Definition open_mode (flags : N) : N := N.land flags p9_OpenFlagsModeMask.
Definition two64 : N := 18446744073709551616.
Definition two32 : N := 4294967296.

Inductive gatom :=
| GDeleted | GNotDir | GOpened | GNotOpened | GTDeleted | GTNotDir | GRoot | GCantOpen | GDirNotRO
| GNotSymlink | GBusySame | GCountBig | GNoPool
| GX0NotOpened | GR0WriteOnly | GR2Empty | GR2Range | GRBadOp
| GW0ReadOnly | GW1Off | GW1Big | GWBadOp.

Inductive gres := GE (errno : N) | GP.      (* GP: the handler panics *)

Definition msg_count (m : tmsg) : N := match m with Tread _ _ c => c | Twrite _ _ l => l | _ => 0 end.
Definition msg_off (m : tmsg) : N := match m with Tread _ o _ => o | Twrite _ o _ => o | _ => 0 end.

(** [p] primary fid, [t] second fid (= [p] when the handler has none), [ms] negotiated msize *)
Definition geval (a : gatom) (m : tmsg) (ms : option N) (p t : fview) : bool :=
  match a with
  | GDeleted => v_deleted p
  | GNotDir => negb (is_dir (v_mode p))
  | GOpened => v_opened p
  | GNotOpened => negb (v_opened p)
  | GTDeleted => v_deleted t
  | GTNotDir => negb (is_dir (v_mode t))
  | GRoot => v_root p
  | GCantOpen => negb (can_open (v_mode p))
  | GDirNotRO => match m with Tlopen _ fl => is_dir (v_mode p) && negb (open_mode fl =? p9_ReadOnly) | _ => false end
  | GNotSymlink => negb (is_symlink (v_mode p))
  | GBusySame => match m with
                 | Twalk f nf _ | Twalkgetattr f nf _ => v_opened p && (f =? nf)
                 | _ => false
                 end
  | GCountBig => p9_maximumLength <? msg_count m
  | GNoPool => match ms with None => true | Some _ => false end
  | GX0NotOpened => (v_xop p =? p9_xattrNone) && negb (v_opened p)
  | GR0WriteOnly => (v_xop p =? p9_xattrNone) && (open_mode (v_flags p) =? p9_WriteOnly)
  | GR2Empty => (v_xop p =? p9_xattrWalk) && (msg_count m =? 0) && negb (v_xsize p =? 0)
  | GR2Range => (v_xop p =? p9_xattrWalk) && negb (msg_count m =? 0)
                && ((v_xlen p <? msg_off m) || (v_xlen p - msg_off m <? msg_count m))
  | GRBadOp => negb (v_xop p =? p9_xattrNone) && negb (v_xop p =? p9_xattrWalk)
  | GW0ReadOnly => (v_xop p =? p9_xattrNone) && (open_mode (v_flags p) =? p9_ReadOnly)
  | GW1Off => (v_xop p =? p9_xattrCreate) && negb (v_xlen p =? msg_off m)
  | GW1Big => (v_xop p =? p9_xattrCreate) && (v_xsize p <? (msg_off m + msg_count m) mod two64)
  | GWBadOp => negb (v_xop p =? p9_xattrNone) && negb (v_xop p =? p9_xattrCreate)
  end.

(** the common-shape handlers *)
Inductive hkind :=
| HLopen | HLcreate | HSymlink | HLink | HRenameat | HUnlinkat | HRename | HReadlink | HRead | HWrite
| HMknod | HMkdir | HGetattr | HSetattr | HXattrwalk | HXattrcreate | HReaddir | HFsync | HStatfs | HLock
| HRemove | HWalk | HWalkgetattr.

Definition kind_of (m : tmsg) : option hkind :=
  match m with
  | Tlopen _ _ => Some HLopen | Tlcreate _ _ _ _ _ _ => Some HLcreate | Tsymlink _ _ _ _ _ => Some HSymlink
  | Tlink _ _ _ => Some HLink | Trenameat _ _ _ _ => Some HRenameat | Tunlinkat _ _ _ => Some HUnlinkat
  | Trename _ _ _ => Some HRename | Treadlink _ => Some HReadlink | Tread _ _ _ => Some HRead
  | Twrite _ _ _ => Some HWrite | Tmknod _ _ _ _ _ _ _ => Some HMknod | Tmkdir _ _ _ _ _ => Some HMkdir
  | Tgetattr _ _ => Some HGetattr | Tsetattr _ _ => Some HSetattr | Txattrwalk _ _ _ => Some HXattrwalk
  | Txattrcreate _ _ _ _ => Some HXattrcreate | Treaddir _ _ _ => Some HReaddir | Tfsync _ => Some HFsync
  | Tstatfs _ => Some HStatfs | Tlock _ _ _ _ _ _ _ => Some HLock | Tremove _ => Some HRemove
  | Twalk _ _ _ => Some HWalk | Twalkgetattr _ _ _ => Some HWalkgetattr
  | _ => None
  end.

Definition EINVAL := linux_EINVAL.
Definition guards_of (k : hkind) : list (list gatom * gres) :=
  match k with
  | HLopen => [([GDeleted], GE linux_EINVAL); ([GOpened; GCantOpen], GE linux_EINVAL); ([GDirNotRO], GE linux_EISDIR)]
  | HLcreate | HSymlink | HLink | HUnlinkat | HMknod | HMkdir =>
      [([GDeleted; GNotDir], GE linux_EINVAL); ([GOpened], GE linux_EINVAL)]
  | HRenameat => [([GDeleted; GNotDir; GTDeleted; GTNotDir], GE linux_EINVAL); ([GOpened], GE linux_EINVAL)]
  | HRename => [([GRoot], GE linux_EINVAL); ([GDeleted; GTDeleted; GTNotDir], GE linux_EINVAL)]
  | HRemove => [([GRoot], GE linux_EINVAL); ([GDeleted], GE linux_EINVAL)]
  | HReadlink => [([GDeleted; GNotSymlink], GE linux_EINVAL)]
  | HRead => [([GCountBig], GE linux_ENOBUFS); ([GNoPool], GP);
              ([GX0NotOpened], GE linux_EINVAL); ([GR0WriteOnly], GE linux_EPERM);
              ([GR2Empty], GE linux_EINVAL); ([GR2Range], GE linux_EINVAL); ([GRBadOp], GE linux_EINVAL)]
  | HWrite => [([GX0NotOpened], GE linux_EINVAL); ([GW0ReadOnly], GE linux_EPERM);
               ([GW1Off], GE linux_EINVAL); ([GW1Big], GE linux_EINVAL); ([GWBadOp], GE linux_EINVAL)]
  | HGetattr | HStatfs | HLock => []
  | HSetattr | HXattrwalk | HXattrcreate => [([GDeleted], GE linux_EINVAL)]
  | HReaddir => [([GDeleted; GNotDir], GE linux_EINVAL); ([GNotOpened], GE linux_EINVAL)]
  | HFsync => [([GNotOpened], GE linux_EINVAL)]
  | HWalk | HWalkgetattr => [([GBusySame], GE linux_EBUSY)]
  end.

(** string fields passed to checkSafeName before any LookupFID, in order *)
Definition names_of (m : tmsg) : list string :=
  match m with
  | Tlcreate _ _ n _ _ _ | Tsymlink _ _ n _ _ | Tmknod _ _ n _ _ _ _ | Tmkdir _ _ n _ _
  | Tlink _ _ n | Tunlinkat _ n _ | Trename _ _ n => [n]
  | Trenameat _ o _ n => [o; n]
  | _ => []
  end.

(** fid looked up first / second *)
Definition fid1_of (m : tmsg) : N :=
  match m with
  | Tlopen f _ | Tlcreate _ f _ _ _ _ | Tsymlink _ f _ _ _ | Tmknod _ f _ _ _ _ _ | Tmkdir _ f _ _ _
  | Tlink f _ _ | Trenameat f _ _ _ | Tunlinkat f _ _ | Trename f _ _ | Treadlink f | Tread f _ _
  | Twrite f _ _ | Tgetattr f _ | Tsetattr f _ | Txattrwalk f _ _ | Txattrcreate f _ _ _ | Treaddir f _ _
  | Tfsync f | Tstatfs f | Tlock f _ _ _ _ _ _ | Tremove f | Twalk f _ _ | Twalkgetattr f _ _
  | Tclunk f | Tattach f _ _ _ _ => f
  | _ => 0
  end.
Definition fid2_of (m : tmsg) : option N :=
  match m with
  | Tlink _ t _ => Some t
  | Trenameat _ _ nd _ => Some nd
  | Trename _ d _ => Some d
  | _ => None
  end.

Definition first_failing (gs : list (list gatom * gres)) (m : tmsg) (ms : option N) (p t : fview) : option gres :=
  match find (fun g => existsb (fun a => geval a m ms p t) (fst g)) gs with
  | Some g => Some (snd g)
  | None => None
  end.
