(** C15: a request answered with an error (not a panic) leaves the fid table as it was -- at every
    backend call index, for every request kind; Tclunk / Tremove are the exception by design. *)
From Coq Require Import NArith ZArith List String Bool Lia.
From P9V Require Import Base.Str gen.ConstGen Fs.Version Server.State Server.Msg Server.SessionSpec Server.Handlers
  Server.Ledger Server.TableFrame.
Import ListNotations.
Open Scope N_scope.

(** the table is unchanged, or the computation panicked, or it succeeded with a [good] result *)
Definition tq {A} (good : A -> Prop) (m : M A) : Prop :=
  forall w o w', m w = (o, w') -> st_fids (w_st w') = st_fids (w_st w) \/ o = Panic \/ (exists a, o = Ok a /\ good a).

Lemma tq_kf {A} good (m : M A) : kfids m -> tq good m.
Proof. intros H w o w' E. left. exact (H _ _ _ E). Qed.
Lemma tq_bind_kf {A B} good (m : M A) (f : A -> M B) : kfids m -> (forall a, tq good (f a)) -> tq good (bind m f).
Proof.
  intros Hm Hf w o w' E. unfold bind in E. destruct (m w) as [[a|] w1] eqn:Em.
  - destruct (Hf a _ _ _ E) as [H|H]; [left; rewrite H; exact (Hm _ _ _ Em)|right; exact H].
  - inversion E; subst. right. left. reflexivity.
Qed.
Lemma tq_with_defer {A} good (d : M unit) (m : M A) : kfids d -> tq good m -> tq good (with_defer d m).
Proof.
  intros Hd Hm w o w' E. unfold with_defer in E. destruct (m w) as [o1 w1] eqn:Em.
  destruct (d w1) as [[u|] w2] eqn:Ed; inversion E; subst.
  - destruct (Hm _ _ _ Em) as [H|H]; [left; rewrite (Hd _ _ _ Ed); exact H|right; exact H].
  - right. left. reflexivity.
Qed.
(** the one shape in which the table changes: InsertFID, then the success reply *)
Lemma tq_insert_ret {A} (good : A -> Prop) c f r (a : A) : good a -> tq good (insert_fid c f r ;; ret a)%m.
Proof.
  intros Hg w o w' E. unfold bind in E. destruct (insert_fid c f r w) as [[u|] w1]; inversion E; subst; right; [right; eauto|left; reflexivity].
Qed.
Lemma tq_bind_ret {A B} (good : A -> Prop) (good' : B -> Prop) (m : M A) (g : A -> B) :
  tq good m -> (forall a, good a -> good' (g a)) -> tq good' (x <- m ;; ret (g x))%m.
Proof.
  intros Hm Hg w o w' E. unfold bind in E. destruct (m w) as [[a|] w1] eqn:Em.
  - inversion E; subst. destruct (Hm _ _ _ Em) as [H|[H|(a' & Ha & Hga)]]; [left; exact H|discriminate|]. inversion Ha; subst. right. right. eauto.
  - inversion E; subst. right. left. reflexivity.
Qed.

Definition goodr (x : res reply) : Prop := exists rep, x = inr rep /\ rclass rep = None.

Ltac tqk := apply tq_kf; kf.

Lemma tq_body c m r t : tq goodr (body c m r t).
Proof.
  unfold body, fail. apply tq_bind_kf; [apply kf_gets|intros fr]. apply tq_bind_kf; [apply kf_gets|intros tfr].
  destruct m; try (tqk; fail).
  - apply tq_bind_kf; [apply kf_do_walk|intros w]. destruct w as [e|[[q nr] a]]; [tqk|].
    apply tq_with_defer; [apply kf_dec_ref_|]. apply tq_insert_ret. eexists; split; reflexivity.
  - apply tq_bind_kf; [apply kf_do_walk|intros w]. destruct w as [e|[[q nr] a]]; [tqk|].
    apply tq_with_defer; [apply kf_dec_ref_|]. apply tq_insert_ret. eexists; split; reflexivity.
  - apply tq_kf. destruct (fr_parent fr); [|kf]. apply kf_bind; [kf|intros pfr]. apply kf_bind; [kf|intros nm].
    apply kf_bind; [kf|intros [v e]]. destruct (is_err e); [kf|]. apply kf_bind; [apply kf_mark_child_deleted|intros _; kf].
  - apply tq_bind_kf; [kf|intros [v e]]. destruct (is_err e); [tqk|].
    apply tq_bind_kf; [kf|intros h]. apply tq_bind_kf; [kf|intros node]. apply tq_bind_kf; [kf|intros nr]. apply tq_bind_kf; [kf|intros _].
    apply tq_bind_kf; [kf|intros _]. apply tq_insert_ret. eexists; split; [reflexivity|]. destruct u; reflexivity.
  - apply tq_kf. destruct (_ && _); [kf|]. apply kf_bind; [kf|intros [v e]]. destruct (is_err e); [kf|].
    apply kf_bind; [apply kf_rename_child_to|intros _; kf].
  - apply tq_kf. apply kf_bind; [kf|intros _]. apply kf_bind; [kf|intros [v e]]. destruct (is_err e); [kf|].
    apply kf_bind; [apply kf_mark_child_deleted|intros _; kf].
  - apply tq_kf. destruct (fr_parent fr); [|kf]. apply kf_bind; [kf|intros pfr]. apply kf_bind; [kf|intros pdel]. destruct pdel; [kf|].
    apply kf_bind; [kf|intros old]. destruct (_ && _); [kf|]. apply kf_bind; [kf|intros [v e]]. destruct (is_err e); [kf|].
    apply kf_bind; [apply kf_rename_child_to|intros _; kf].
  - apply tq_bind_kf; [kf|intros [len e]]. destruct (is_err e); [tqk|]. match goal with |- tq _ (if ?b then _ else _) => destruct b end; [tqk|].
    apply tq_bind_kf; [kf|intros nr]. apply tq_bind_kf; [kf|intros _]. apply tq_insert_ret. eexists; split; reflexivity.
Qed.

Definition unbinds (m : tmsg) : bool := match m with Tclunk _ | Tremove _ => true | _ => false end.

Lemma tq_guarded c m k : unbinds m = false -> tq goodr (guarded c m k).
Proof.
  intros Hu. unfold guarded, fail. destruct (negb _); [tqk|].
  apply tq_bind_kf; [apply kf_lookup_fid|intros o]. destruct o as [r|]; [|tqk].
  apply tq_with_defer; [apply kf_dec_ref_|].
  assert (Hin : forall t, tq goodr
    (ms <- gets (fun s => alookup c (st_msize s)) ;; p <- gets (fun s => view_of s r) ;; tv <- gets (fun s => view_of s t) ;;
     x <- match first_failing (guards_of k) m ms p tv with Some (GE e) => ret (inl (eno e)) | Some GP => panic | None => body c m r t end ;;
     post c m x)%m).
  { intros t. apply tq_bind_kf; [kf|intros ms]. apply tq_bind_kf; [kf|intros p]. apply tq_bind_kf; [kf|intros tv].
    assert (Hp : forall x, post c m x = ret x) by (intros x; unfold post; destruct m; try reflexivity; discriminate).
    intros w o w' E. unfold bind in E.
    destruct ((match first_failing (guards_of k) m ms p tv with Some (GE e) => ret (inl (eno e)) | Some GP => panic | None => body c m r t end) w) as [[x|] w1] eqn:E1.
    - rewrite Hp in E. inversion E; subst.
      destruct (first_failing _ _ _ _ _) as [[e|]|]; [inversion E1; subst; left; reflexivity|inversion E1|exact (tq_body c m r t _ _ _ E1)].
    - inversion E; subst. right. left. reflexivity. }
  destruct (fid2_of m); [|apply Hin].
  apply tq_bind_kf; [apply kf_lookup_fid|intros o2]. destruct o2 as [t|]; [|tqk].
  apply tq_with_defer; [apply kf_dec_ref_|apply Hin].
Qed.

Definition goodp (r : reply) : Prop := rclass r = None.

Lemma tq_handler c m : unbinds m = false -> tq goodp (handler c m).
Proof.
  intros Hu. unfold handler.
  destruct m; try discriminate; try (tqk; fail);
    try (cbn [kind_of]; apply (tq_bind_ret goodr goodp); [apply tq_guarded; exact Hu|intros x (rep & -> & Hr); exact Hr]).
  - (* Tversion *) apply tq_kf. unfold h_version. destruct (tversion_handle msize ver) as [[mm v] st]. apply kf_bind; [|intros _; kf]. destruct st as [[ms ?]|]; kf.
  - (* Tattach *) unfold h_attach. destruct (negb _); [tqk|].
    apply tq_bind_kf; [kf|intros [v e]]. destruct (is_err e); [tqk|]. apply tq_bind_kf; [kf|intros h]. apply tq_bind_kf; [kf|intros root].
    apply tq_with_defer; [apply kf_dec_ref_|].
    apply tq_bind_kf; [kf|intros [va ea]]. destruct (is_err ea); [tqk|]. destruct (negb _); [tqk|].
    apply tq_bind_kf; [kf|intros rfr]. apply tq_bind_kf; [kf|intros _].
    destruct (String.eqb _ _).
    + apply tq_insert_ret. reflexivity.
    + apply tq_bind_kf; [apply kf_do_walk|intros w]. destruct w as [e0|[[q nr] a]]; [tqk|].
      apply tq_with_defer; [apply kf_dec_ref_|]. apply tq_insert_ret. reflexivity.
Qed.

(** C15: an error reply (any errno but the EFAULT of a panic) means the fid table is untouched *)
Theorem error_keeps_table s c m tape e :
  unbinds m = false -> snd (fst (fst (step s c m tape))) = RErr e -> e <> linux_EFAULT ->
  st_fids (fst (fst (fst (step s c m tape)))) = st_fids s.
Proof.
  intros Hu Hr He. unfold step in *. destruct (handler c m (mkW s tape [])) as [o w] eqn:E.
  destruct (tq_handler c m Hu _ _ _ E) as [H|[H|(a & Ha & Hg)]].
  - destruct o; exact H.
  - subst o. cbn in Hr. inversion Hr. congruence.
  - subst o. cbn in Hr. subst a. cbn in Hg. discriminate.
Qed.

Lemma delete_fid_unbinds c f w o w' : delete_fid c f w = (o, w') -> tlookup (c, f) (st_fids (w_st w')) = None.
Proof.
  intros H. revert H. unfold delete_fid, bind, gets. cbn [w_st].
  destruct (tlookup (c, f) (st_fids (w_st w))) as [r|] eqn:El; intros H.
  - cbn [modify w_st w_tape w_log] in H.
    match type of H with dec_ref r ?W = _ => pose proof (kf_dec_ref r W _ _ H) as T2 end. cbn [w_st] in T2.
    rewrite T2. cbn. apply tlookup_tdel_same.
  - inversion H; subst. exact El.
Qed.

(** Tclunk: unless the handler panicked the fid is unbound afterwards, whatever was answered *)
Theorem clunk_unbinds s c f tape :
  snd (fst (fst (step s c (Tclunk f) tape))) <> RErr linux_EFAULT ->
  tlookup (c, f) (st_fids (fst (fst (fst (step s c (Tclunk f) tape))))) = None.
Proof.
  intros Hr. unfold step in *. destruct (handler c (Tclunk f) (mkW s tape [])) as [o w] eqn:E.
  destruct o as [rep|]; [|exfalso; apply Hr; reflexivity]. cbn [fst snd].
  unfold handler, h_clunk in E. unfold bind at 1 in E.
  destruct (clunk_xattr c f (mkW s tape [])) as [[cerr|] w1] eqn:E1; [|discriminate E].
  unfold bind at 1 in E. destruct (delete_fid c f w1) as [[derr|] w2] eqn:E2; [|discriminate E].
  pose proof (delete_fid_unbinds _ _ _ _ _ E2) as Hu.
  assert (w = w2) by (destruct (is_err derr); [|destruct cerr]; inversion E; reflexivity). subst w. exact Hu.
Qed.
