(** C09: checkSafeName is the predicate "non-empty, not . or .., no slash"; every
    backend call the model makes carries only safe path components and every
    Walk/WalkGetAttr call at most one (a Hoare-style invariant over the monad of
    State.v: names stored in the path tree are safe, all logged calls are fine). *)
From Coq Require Import NArith ZArith List String Ascii Bool Lia.
From P9V Require Import Base.Str gen.ConstGen Fs.Version Server.State Server.Msg Server.Handlers.
Import ListNotations.
Open Scope N_scope.

(** ---- checkSafeName ---- *)
Definition safe_name (s : string) : Prop :=
  s <> ""%string /\ s <> "."%string /\ s <> ".."%string /\ ~ In slash (list_ascii_of_string s).

Lemma contains_char_In c s : contains_char c s = true <-> In c (list_ascii_of_string s).
Proof.
  induction s as [|a s IH]; cbn.
  - split; [discriminate|tauto].
  - rewrite orb_true_iff, IH. split.
    + intros [H|H]; [left; now apply Ascii.eqb_eq|now right].
    + intros [H|H]; [left; now apply Ascii.eqb_eq|now right].
Qed.

Lemma safe_nameb_spec s : safe_nameb s = true <-> safe_name s.
Proof.
  unfold safe_nameb, safe_name.
  rewrite !andb_true_iff, !negb_true_iff.
  split.
  - intros [[[H1 H2] H3] H4]. repeat split.
    + intros ->. cbn in H1. discriminate.
    + intros ->. cbn in H3. discriminate.
    + intros ->. cbn in H4. discriminate.
    + intros HI. apply contains_char_In in HI. congruence.
  - intros (H1 & H2 & H3 & H4). repeat split.
    + apply String.eqb_neq; assumption.
    + destruct (contains_char slash s) eqn:E; [|reflexivity]. apply contains_char_In in E. contradiction.
    + apply String.eqb_neq; assumption.
    + apply String.eqb_neq; assumption.
Qed.

(** ---- the invariant ---- *)
Definition is_walk (c : bcall) : bool := match bc_meth c with MWalk | MWalkGetAttr => true | _ => false end.
Definition call_ok (c : bcall) : Prop :=
  forallb safe_nameb (bc_names c) = true /\ (is_walk c = true -> (List.length (bc_names c) <= 1)%nat).
Definition node_ok (p : pnode) : Prop := Forall (fun rn => safe_nameb (snd rn) = true) (pn_refs p).
Definition names_ok (s : sstate) : Prop := Forall (fun np => node_ok (snd np)) (st_nodes s).
Definition inv (w : world) : Prop := names_ok (w_st w) /\ Forall (fun ca => call_ok (fst ca)) (w_log w).

(** no panic answer logged so far *)
Definition nopanic (w : world) : Prop := forall c, ~ In (c, APanic) (w_log w).

(** [preserves m Q]: [m] keeps the invariant, its result satisfies [Q], and a
    panic answer logged during [m] makes [m] itself end in a panic *)
Definition preserves {A} (m : M A) (Q : A -> Prop) : Prop :=
  forall w o w', inv w -> m w = (o, w') ->
    inv w' /\ (forall a, o = Ok a -> Q a) /\ (nopanic w -> o = Panic \/ nopanic w').

Lemma pres_weaken {A} (m : M A) (Q Q' : A -> Prop) :
  preserves m Q -> (forall a, Q a -> Q' a) -> preserves m Q'.
Proof. intros H HQ w o w' Hi E. destruct (H w o w' Hi E) as (H1 & H2 & H3). split; [exact H1|split; [intros a Ha; auto|exact H3]]. Qed.

Lemma pres_ret {A} (a : A) (Q : A -> Prop) : Q a -> preserves (ret a) Q.
Proof.
  intros HQ w o w' Hi E. inversion E; subst.
  split; [exact Hi|split; [intros a' Ha; inversion Ha; subst; exact HQ|intros Hn; right; exact Hn]].
Qed.

Lemma pres_panic {A} (Q : A -> Prop) : preserves (@panic A) Q.
Proof. intros w o w' Hi E. inversion E; subst. split; [exact Hi|split; [discriminate|intros _; left; reflexivity]]. Qed.

Lemma pres_bind {A B} (m : M A) (f : A -> M B) (Q : A -> Prop) (R : B -> Prop) :
  preserves m Q -> (forall a, Q a -> preserves (f a) R) -> preserves (bind m f) R.
Proof.
  intros Hm Hf w o w' Hi E. unfold bind in E.
  destruct (m w) as [[a|] w1] eqn:Em.
  - destruct (Hm w (Ok a) w1 Hi Em) as (Hi1 & Hq & Hp).
    destruct (Hf a (Hq a eq_refl) w1 o w' Hi1 E) as (G1 & G2 & G3). split; [exact G1|split; [exact G2|]].
    intros Hn. destruct (Hp Hn) as [Hx|Hx]; [discriminate|auto].
  - destruct (Hm w Panic w1 Hi Em) as (Hi1 & _ & _). inversion E; subst.
    split; [exact Hi1|split; [discriminate|intros _; left; reflexivity]].
Qed.

Lemma pres_with_defer {A} (d : M unit) (m : M A) (Q : A -> Prop) :
  preserves d (fun _ => True) -> preserves m Q -> preserves (with_defer d m) Q.
Proof.
  intros Hd Hm w o w' Hi E. unfold with_defer in E.
  destruct (m w) as [o1 w1] eqn:Em.
  destruct (Hm w o1 w1 Hi Em) as (Hi1 & Hq & Hp).
  destruct (d w1) as [[u|] w2] eqn:Ed.
  - destruct (Hd w1 (Ok u) w2 Hi1 Ed) as (Hi2 & _ & Hp2). inversion E; subst. split; [exact Hi2|split; [exact Hq|]].
    intros Hn. destruct (Hp Hn) as [Hx|Hx]; [auto|]. destruct (Hp2 Hx) as [Hy|Hy]; [discriminate|auto].
  - destruct (Hd w1 Panic w2 Hi1 Ed) as (Hi2 & _ & _). inversion E; subst.
    split; [exact Hi2|split; [discriminate|intros _; left; reflexivity]].
Qed.

Lemma pres_gets {A} (f : sstate -> A) : preserves (gets f) (fun _ => True).
Proof. intros w o w' Hi E. inversion E; subst. split; [exact Hi|split; [intros; exact I|intros Hn; right; exact Hn]]. Qed.

Lemma pres_modify (f : sstate -> sstate) :
  (forall s, names_ok s -> names_ok (f s)) -> preserves (modify f) (fun _ => True).
Proof.
  intros Hf w o w' [Hn Hl] E. inversion E; subst.
  split; [split; cbn; [apply Hf; exact Hn|exact Hl]|split; [intros; exact I|intros Hp; right; exact Hp]].
Qed.

Lemma pres_backend (c : bcall) : call_ok c -> preserves (backend c) (fun _ => True).
Proof.
  intros Hc w o w' [Hn Hl] E. unfold backend in E.
  assert (Hl' : forall a, Forall (fun ca => call_ok (fst ca)) ((c, a) :: w_log w)) by (intros a; constructor; auto).
  destruct (w_tape w) as [|a t]; [|destruct a]; inversion E; subst.
  - split; [split; cbn; auto|split; [intros; exact I|]].
    intros Hp; right; intros c0 [Hx|Hx]; [inversion Hx|exact (Hp c0 Hx)].
  - split; [split; cbn; auto|split; [intros; exact I|]].
    intros Hp; right; intros c0 [Hx|Hx]; [inversion Hx|exact (Hp c0 Hx)].
  - split; [split; cbn; auto|split; [discriminate|intros _; left; reflexivity]].
Qed.

(** association-list facts *)
Lemma alookup_In {A} k (l : list (N * A)) v : alookup k l = Some v -> In (k, v) l.
Proof.
  induction l as [|[k' v'] l IH]; cbn; [discriminate|].
  destruct (N.eqb_spec k k') as [->|Hne]; [intros H; inversion H; auto|auto].
Qed.
Lemma aset_Forall {A} (P : N * A -> Prop) k v (l : list (N * A)) :
  Forall P l -> P (k, v) -> Forall P (aset k v l).
Proof.
  induction 1 as [|[k' v'] l Hx Hl IH]; cbn; intros Hp; [auto|].
  destruct (k =? k'); constructor; auto.
Qed.
Lemma adel_Forall {A} (P : N * A -> Prop) k (l : list (N * A)) : Forall P l -> Forall P (adel k l).
Proof. induction 1 as [|[k' v'] l Hx Hl IH]; cbn; [auto|]. destruct (k =? k'); auto. Qed.

Lemma get_node_ok s n : names_ok s -> node_ok (get_node s n).
Proof.
  intros H. unfold get_node. destruct (alookup n (st_nodes s)) eqn:E.
  - apply alookup_In in E. unfold names_ok in H. rewrite Forall_forall in H. exact (H _ E).
  - constructor.
Qed.
Lemma put_node_ok s n p : names_ok s -> node_ok p -> names_ok (put_node n p s).
Proof. intros H Hp. unfold names_ok, put_node; cbn. apply aset_Forall; auto. Qed.
Lemma put_ref_ok s r fr : names_ok s -> names_ok (put_ref r fr s).
Proof. auto. Qed.
Lemma put_fids_ok s t : names_ok s -> names_ok (put_fids t s).
Proof. auto. Qed.
Lemma put_msize_ok s c m : names_ok s -> names_ok (put_msize c m s).
Proof. auto. Qed.

Lemma pres_the_node n : preserves (the_node n) node_ok.
Proof.
  intros w o w' Hi E. inversion E; subst. split; [exact Hi|split; [|intros Hn; right; exact Hn]].
  intros a Ha. inversion Ha; subst. apply get_node_ok, Hi.
Qed.
Lemma pres_the_ref r : preserves (the_ref r) (fun _ => True).
Proof. apply pres_gets. Qed.
Lemma pres_incref r : preserves (incref r) (fun _ => True).
Proof. apply pres_modify. intros; apply put_ref_ok; auto. Qed.
Lemma pres_remove_child n r : preserves (remove_child n r) (fun _ => True).
Proof.
  apply pres_modify. intros s Hs. apply put_node_ok; auto.
  unfold node_ok, set_prefs; cbn. apply adel_Forall. apply get_node_ok; auto.
Qed.
Lemma pres_fresh_handle : preserves fresh_handle (fun _ => True).
Proof.
  intros w o w' [Hn Hl] E. inversion E; subst.
  split; [split; cbn; auto|split; [intros; exact I|intros Hp; right; exact Hp]].
Qed.
Lemma pres_new_ref fr : preserves (new_ref fr) (fun _ => True).
Proof.
  intros w o w' [Hn Hl] E. inversion E; subst.
  split; [split; cbn; auto|split; [intros; exact I|intros Hp; right; exact Hp]].
Qed.

Lemma call0_ok m h : call_ok (call0 m h).
Proof. split; cbn; auto. Qed.

Ltac pres_auto :=
  repeat first
    [ apply pres_ret; exact I
    | apply pres_panic
    | apply pres_the_ref | apply pres_incref | apply pres_remove_child | apply pres_fresh_handle | apply pres_new_ref
    | apply pres_gets
    | apply pres_backend; apply call0_ok
    | eapply pres_bind; [ | intros ]
    | match goal with
      | |- preserves (match ?x with _ => _ end) _ => destruct x
      | |- preserves (let '(_, _) := ?x in _) _ => destruct x
      end ].

Lemma pres_decref fuel : forall r, preserves (decref fuel r) (fun _ => True).
Proof.
  induction fuel as [|k IH]; intros r; cbn [decref]; [apply pres_panic|].
  eapply pres_bind; [apply pres_the_ref|intros fr _].
  eapply pres_bind; [apply pres_modify; intros; apply put_ref_ok; auto|intros _ _].
  destruct (_ =? 0)%Z; [|apply pres_ret; exact I].
  eapply pres_bind with (Q := fun _ => True).
  - destruct (fr_xof fr); [apply IH|].
    eapply pres_bind; [apply pres_backend, call0_ok|intros [v e] _]. apply pres_ret; exact I.
  - intros e1 _. eapply pres_bind with (Q := fun _ => True).
    + destruct (fr_parent fr); [|apply pres_ret; exact I].
      eapply pres_bind; [apply pres_the_ref|intros pfr _].
      eapply pres_bind; [apply pres_remove_child|intros _ _]. apply IH.
    + intros e2 _. apply pres_ret; exact I.
Qed.

Lemma pres_dec_ref r : preserves (dec_ref r) (fun _ => True).
Proof. unfold dec_ref. eapply pres_bind; [apply pres_gets|intros fuel _]. apply pres_decref. Qed.
Lemma pres_dec_ref_ r : preserves (dec_ref_ r) (fun _ => True).
Proof. unfold dec_ref_. eapply pres_bind; [apply pres_dec_ref|intros _ _]. apply pres_ret; exact I. Qed.

Lemma pres_lookup_fid c f : preserves (lookup_fid c f) (fun _ => True).
Proof.
  unfold lookup_fid. eapply pres_bind; [apply pres_gets|intros o _].
  destruct o; [|apply pres_ret; exact I].
  eapply pres_bind; [apply pres_incref|intros _ _]. apply pres_ret; exact I.
Qed.
Lemma pres_insert_fid c f r : preserves (insert_fid c f r) (fun _ => True).
Proof.
  unfold insert_fid. eapply pres_bind; [apply pres_gets|intros o _].
  eapply pres_bind; [apply pres_incref|intros _ _].
  eapply pres_bind; [apply pres_modify; intros; apply put_fids_ok; auto|intros _ _].
  destruct o; [apply pres_dec_ref_|apply pres_ret; exact I].
Qed.
Lemma pres_delete_fid c f : preserves (delete_fid c f) (fun _ => True).
Proof.
  unfold delete_fid. eapply pres_bind; [apply pres_gets|intros o _].
  destruct o; [|apply pres_ret; exact I].
  eapply pres_bind; [apply pres_modify; intros; apply put_fids_ok; auto|intros _ _]. apply pres_dec_ref.
Qed.

Lemma pres_node_for n name : preserves (node_for n name) (fun _ => True).
Proof.
  unfold node_for. eapply pres_bind; [apply pres_the_node|intros p Hp].
  destruct (slookup name (pn_kids p)); [apply pres_ret; exact I|].
  intros w o w' [Hn Hl] E. inversion E; subst.
  split; [split; cbn; [|exact Hl]|split; [intros; exact I|intros Hq; right; exact Hq]].
  unfold names_ok; cbn. apply aset_Forall; [apply aset_Forall; auto|constructor].
Qed.

Lemma pres_add_child n r name : safe_nameb name = true -> preserves (add_child n r name) (fun _ => True).
Proof.
  intros Hs. unfold add_child. eapply pres_bind; [apply pres_the_node|intros p Hp].
  destruct (alookup r (pn_refs p)); [apply pres_panic|].
  apply pres_modify. intros s Hok. apply put_node_ok; auto.
  unfold node_ok, set_prefs; cbn. apply Forall_app; split; [exact Hp|constructor; auto].
Qed.

Lemma node_ok_alookup p r nm : node_ok p -> alookup r (pn_refs p) = Some nm -> safe_nameb nm = true.
Proof.
  intros Hp E. apply alookup_In in E. unfold node_ok in Hp. rewrite Forall_forall in Hp. exact (Hp _ E).
Qed.

Lemma pres_name_for n r : preserves (name_for n r) (fun nm => safe_nameb nm = true).
Proof.
  unfold name_for. eapply pres_bind; [apply pres_the_node|intros p Hp].
  destruct (alookup r (pn_refs p)) eqn:E; [|apply pres_panic].
  apply pres_ret. eapply node_ok_alookup; eauto.
Qed.

Lemma pres_rwn_loop {A} n (fn : option (refid -> M unit)) (k : M A) Q :
  (forall f r, fn = Some f -> preserves (f r) (fun _ => True)) -> preserves k Q ->
  forall rs, preserves (rwn_loop n fn rs k) Q.
Proof.
  intros Hf Hk rs. induction rs as [|r rest IH]; cbn [rwn_loop]; [exact Hk|].
  eapply pres_bind; [apply pres_remove_child|intros _ _].
  destruct fn as [f|]; [|exact IH].
  eapply pres_bind; [apply pres_the_ref|intros fr _].
  destruct (0 <? fr_refs fr)%Z; [|exact IH].
  eapply pres_bind; [apply pres_incref|intros _ _].
  apply pres_with_defer; [apply pres_dec_ref_|].
  eapply pres_bind; [apply (Hf f r eq_refl)|intros _ _]. exact IH.
Qed.

Lemma sdel_kids_ok p k : node_ok p -> node_ok (set_kids p k).
Proof. auto. Qed.

Lemma pres_remove_with_name n name fn :
  (forall f r, fn = Some f -> preserves (f r) (fun _ => True)) ->
  preserves (remove_with_name n name fn) (fun _ => True).
Proof.
  intros Hf. unfold remove_with_name. eapply pres_bind; [apply pres_the_node|intros p Hp].
  apply pres_rwn_loop; [exact Hf|].
  eapply pres_bind; [apply pres_the_node|intros p' Hp'].
  eapply pres_bind; [apply pres_modify; intros s Hs; apply put_node_ok; auto|intros _ _].
  apply pres_ret; exact I.
Qed.

Lemma pres_notify_delete fuel : forall n, preserves (notify_delete fuel n) (fun _ => True).
Proof.
  induction fuel as [|k IH]; intros n; cbn [notify_delete]; [apply pres_panic|].
  eapply pres_bind; [apply pres_the_node|intros p Hp].
  eapply pres_bind; [apply pres_modify; intros s Hs; apply put_node_ok; auto|intros _ _].
  generalize (pn_kids p) as l. induction l as [|[nm c] rest IHl]; [apply pres_ret; exact I|].
  eapply pres_bind; [apply IH|intros _ _]. exact IHl.
Qed.

Lemma pres_mark_child_deleted n name : preserves (mark_child_deleted n name) (fun _ => True).
Proof.
  unfold mark_child_deleted.
  eapply pres_bind; [apply pres_remove_with_name; intros f r H; discriminate|intros o _].
  destruct o; [|apply pres_ret; exact I].
  eapply pres_bind; [apply pres_gets|intros fuel _]. apply pres_notify_delete.
Qed.

Lemma renamed_ok h nm h2 : safe_nameb nm = true -> call_ok (mkCall MRenamed h [nm] (Some h2) [] []).
Proof. intros H. split; cbn; [now rewrite H|discriminate]. Qed.

Lemma pres_notify_name_change {A} fuel : forall n (k : M A) Q, preserves k Q -> preserves (notify_name_change fuel n k) Q.
Proof.
  induction fuel as [|f IH]; intros n k Q Hk; cbn [notify_name_change]; [apply pres_panic|].
  eapply pres_bind; [apply pres_the_node|intros p Hp].
  unfold node_ok in Hp. revert Hp. generalize (pn_refs p) as l.
  induction l as [|[r nm] rest IHl]; intros Hp.
  - generalize (pn_kids p) as kids. induction kids as [|[nm c] rest IHk]; [exact Hk|]. apply IH. exact IHk.
  - inversion Hp as [|x l' Hx Hrest]; subst; cbn in Hx.
    eapply pres_bind; [apply pres_the_ref|intros fr _].
    destruct (0 <? fr_refs fr)%Z; [|apply IHl; exact Hrest].
    eapply pres_bind; [apply pres_incref|intros _ _].
    apply pres_with_defer; [apply pres_dec_ref_|].
    destruct (fr_parent fr); [|apply pres_panic].
    eapply pres_bind; [apply pres_the_ref|intros pfr _].
    eapply pres_bind; [apply pres_backend, renamed_ok; exact Hx|intros _ _].
    apply IHl; exact Hrest.
Qed.

Lemma pres_add_path_node_for n name c : preserves (add_path_node_for n name c) (fun _ => True).
Proof.
  unfold add_path_node_for. eapply pres_bind; [apply pres_the_node|intros p Hp].
  destruct (slookup name (pn_kids p)); [apply pres_panic|].
  apply pres_modify; intros s Hs; apply put_node_ok; auto.
Qed.

Lemma pres_rename_child_to f old target new :
  safe_nameb new = true -> preserves (rename_child_to f old target new) (fun _ => True).
Proof.
  intros Hnew. unfold rename_child_to.
  eapply pres_bind; [apply pres_the_ref|intros ffr _].
  eapply pres_bind; [apply pres_the_ref|intros tfr _].
  eapply pres_bind; [apply pres_mark_child_deleted|intros _ _].
  eapply pres_bind with (Q := fun _ => True).
  - apply pres_remove_with_name. intros g r Hg. inversion Hg; subst; clear Hg.
    eapply pres_bind; [apply pres_the_ref|intros fr _].
    eapply pres_bind; [apply pres_modify; intros; apply put_ref_ok; auto|intros _ _].
    eapply pres_bind; [apply pres_incref|intros _ _].
    eapply pres_bind; [apply pres_add_child; exact Hnew|intros _ _].
    eapply pres_bind; [apply pres_backend, renamed_ok; exact Hnew|intros _ _].
    eapply pres_bind with (Q := fun _ => True); [destruct (fr_parent fr); [apply pres_dec_ref_|apply pres_panic]|intros _ _].
    apply pres_ret; exact I.
  - intros o _. destruct o; [|apply pres_ret; exact I].
    eapply pres_bind; [apply pres_add_path_node_for|intros _ _].
    eapply pres_bind; [apply pres_gets|intros fuel _]. apply pres_notify_name_change. apply pres_ret; exact I.
Qed.

(** ---- walking ---- *)
Lemma walk_call_ok m h names :
  forallb safe_nameb names = true -> (List.length names <= 1)%nat -> call_ok (mkCall m h names None [] []).
Proof. intros H1 H2. split; cbn; auto. Qed.

Lemma getattr_ok h a : call_ok (mkCall MGetAttr h [] None a []).
Proof. split; cbn; auto; discriminate. Qed.

Lemma pres_walk_plain ga from node names :
  forallb safe_nameb names = true -> (List.length names <= 1)%nat ->
  preserves (walk_plain ga from node names) (fun _ => True).
Proof.
  intros Hs Hl. unfold walk_plain.
  eapply pres_bind; [apply pres_backend, walk_call_ok; auto|intros [v e] _].
  destruct (is_err e); [apply pres_ret; exact I|].
  eapply pres_bind; [apply pres_fresh_handle|intros h _].
  destruct ga; [|apply pres_ret; exact I].
  eapply pres_bind with (Q := fun _ => True).
  - destruct names as [|n [|n2 r]]; try (apply pres_ret; exact I).
    eapply pres_bind; [apply pres_node_for|intros _ _]. apply pres_ret; exact I.
  - intros _ _. eapply pres_bind; [apply pres_backend, getattr_ok|intros [va ea] _].
    destruct (is_err ea); [|apply pres_ret; exact I].
    eapply pres_bind; [apply pres_backend, call0_ok|intros _ _]. apply pres_ret; exact I.
Qed.

Lemma pres_walk_one ga from node names :
  forallb safe_nameb names = true -> preserves (walk_one ga from node names) (fun _ => True).
Proof.
  intros Hs. unfold walk_one, fail.
  destruct (1 <? List.length names)%nat eqn:El; [apply pres_ret; exact I|].
  apply Nat.ltb_ge in El.
  eapply pres_bind with (Q := fun _ => True).
  - destruct ga; [|apply pres_walk_plain; auto].
    eapply pres_bind; [apply pres_backend, walk_call_ok; auto|intros [v e] _].
    destruct (has_enosys e); [apply pres_walk_plain; auto|].
    destruct (is_err e); [apply pres_ret; exact I|].
    eapply pres_bind; [apply pres_fresh_handle|intros h _]. apply pres_ret; exact I.
  - intros r _. destruct r as [e|[[q h] a]]; [apply pres_ret; exact I|].
    destruct (_ && _); [|apply pres_ret; exact I].
    eapply pres_bind; [apply pres_backend, call0_ok|intros _ _]. apply pres_ret; exact I.
Qed.

Lemma pres_walk_loop : forall names walk qids last,
  forallb safe_nameb names = true -> preserves (walk_loop names walk qids last) (fun _ => True).
Proof.
  induction names as [|n rest IH]; intros walk qids last Hs; cbn [walk_loop]; [apply pres_ret; exact I|].
  cbn in Hs. apply andb_true_iff in Hs. destruct Hs as [Hn Hrest].
  eapply pres_bind; [apply pres_the_ref|intros wfr _].
  unfold fail.
  destruct (negb (is_dir (fr_mode wfr))).
  { eapply pres_bind; [apply pres_dec_ref_|intros _ _]. apply pres_ret; exact I. }
  eapply pres_bind; [apply pres_gets|intros del _].
  destruct del.
  { eapply pres_bind; [apply pres_dec_ref_|intros _ _]. apply pres_ret; exact I. }
  eapply pres_bind; [apply pres_walk_one; cbn; now rewrite Hn|intros r _].
  destruct r as [e|[[q h] a]].
  { eapply pres_bind; [apply pres_dec_ref_|intros _ _]. apply pres_ret; exact I. }
  eapply pres_bind; [apply pres_node_for|intros node _].
  eapply pres_bind; [apply pres_new_ref|intros nr _].
  eapply pres_bind; [apply pres_add_child; exact Hn|intros _ _].
  eapply pres_bind; [apply pres_incref|intros _ _].
  apply IH; exact Hrest.
Qed.

Lemma pres_do_walk ref names ga : preserves (do_walk ref names ga) (fun _ => True).
Proof.
  unfold do_walk, fail. destruct (forallb safe_nameb names) eqn:Hs; cbn [negb]; [|apply pres_ret; exact I].
  destruct names as [|n rest].
  - eapply pres_bind; [apply pres_the_ref|intros fr _].
    destruct (fr_xof fr); [apply pres_ret; exact I|].
    eapply pres_bind; [apply pres_walk_one; reflexivity|intros r _].
    destruct r as [e|[[q h] a]]; [apply pres_ret; exact I|].
    eapply pres_bind; [apply pres_new_ref|intros nr _].
    eapply pres_bind with (Q := fun _ => True).
    + destruct (fr_parent fr) as [p|]; [|apply pres_ret; exact I].
      eapply pres_bind; [apply pres_gets|intros del _].
      eapply pres_bind; [apply pres_the_ref|intros pfr _].
      eapply pres_bind with (Q := fun _ => True); [|intros _ _; apply pres_incref].
      destruct del; [apply pres_ret; exact I|].
      eapply pres_bind; [apply pres_name_for|intros nm Hnm]. apply pres_add_child; exact Hnm.
    + intros _ _. eapply pres_bind; [apply pres_incref|intros _ _]. apply pres_ret; exact I.
  - eapply pres_bind; [apply pres_incref|intros _ _]. apply pres_walk_loop; exact Hs.
Qed.

(** do_walk refuses an unsafe component before any effect *)
Lemma do_walk_unsafe ref names ga w :
  forallb safe_nameb names = false -> do_walk ref names ga w = (Ok (inl (eno linux_EINVAL)), w).
Proof. intros H. unfold do_walk. rewrite H. reflexivity. Qed.

(** ---- the handlers ---- *)
Lemma name_call_ok m h n h2 a s : safe_nameb n = true -> is_walk (mkCall m h [n] h2 a s) = false -> call_ok (mkCall m h [n] h2 a s).
Proof. intros H1 H2. split; cbn; [now rewrite H1|]. intros H; cbn in H2; congruence. Qed.
Lemma name2_call_ok m h n1 n2 h2 a s :
  safe_nameb n1 = true -> safe_nameb n2 = true -> is_walk (mkCall m h [n1; n2] h2 a s) = false -> call_ok (mkCall m h [n1; n2] h2 a s).
Proof. intros H1 H2 H3. split; cbn; [now rewrite H1, H2|]. intros H; cbn in H3; congruence. Qed.
Lemma noname_call_ok m h h2 a s : is_walk (mkCall m h [] h2 a s) = false -> call_ok (mkCall m h [] h2 a s).
Proof. intros H2. split; cbn; auto. Qed.

Ltac fin := first [apply pres_ret; exact I | apply pres_panic].
Ltac one_call Hc :=
  eapply pres_bind; [apply pres_backend; Hc|intros [? ?] _]; destruct (is_err _); fin.

Lemma pres_body c m r t :
  forallb safe_nameb (names_of m) = true -> preserves (body c m r t) (fun _ => True).
Proof.
  intros Hs. unfold body, fail.
  eapply pres_bind; [apply pres_the_ref|intros fr _].
  eapply pres_bind; [apply pres_the_ref|intros tfr _].
  destruct m; cbn in Hs; try (apply pres_ret; exact I);
    repeat match type of Hs with (_ && _) = true => apply andb_true_iff in Hs; destruct Hs as [? Hs] end.
  - (* Twalk *)
    eapply pres_bind; [apply pres_do_walk|intros w _].
    destruct w as [e|[[q nr] a]]; [fin|].
    apply pres_with_defer; [apply pres_dec_ref_|].
    eapply pres_bind; [apply pres_insert_fid|intros _ _]. fin.
  - (* Twalkgetattr *)
    eapply pres_bind; [apply pres_do_walk|intros w _].
    destruct w as [e|[[q nr] a]]; [fin|].
    apply pres_with_defer; [apply pres_dec_ref_|].
    eapply pres_bind; [apply pres_insert_fid|intros _ _]. fin.
  - (* Tremove *)
    destruct (fr_parent fr); [|fin].
    eapply pres_bind; [apply pres_the_ref|intros pfr _].
    eapply pres_bind; [apply pres_name_for|intros nm Hnm].
    eapply pres_bind; [apply pres_backend, name_call_ok; auto|intros [v e] _].
    destruct (is_err e); [fin|].
    eapply pres_bind; [apply pres_mark_child_deleted|intros _ _]. fin.
  - (* Tlopen *)
    eapply pres_bind; [apply pres_backend, noname_call_ok; reflexivity|intros [v e] _].
    destruct (is_err e); [fin|].
    eapply pres_bind; [apply pres_modify; intros; apply put_ref_ok; auto|intros _ _]. fin.
  - (* Tlcreate *)
    eapply pres_bind; [apply pres_backend, name_call_ok; auto|intros [v e] _].
    destruct (is_err e); [fin|].
    eapply pres_bind; [apply pres_fresh_handle|intros h _].
    eapply pres_bind; [apply pres_node_for|intros node _].
    eapply pres_bind; [apply pres_new_ref|intros nr _].
    eapply pres_bind; [apply pres_add_child; auto|intros _ _].
    eapply pres_bind; [apply pres_incref|intros _ _].
    eapply pres_bind; [apply pres_insert_fid|intros _ _]. fin.
  - (* Tsymlink *) one_call ltac:(apply name_call_ok; auto).
  - (* Tmknod *) one_call ltac:(apply name_call_ok; auto).
  - (* Tmkdir *) one_call ltac:(apply name_call_ok; auto).
  - (* Tlink *) one_call ltac:(apply name_call_ok; auto).
  - (* Trenameat *)
    destruct (_ && _); [fin|].
    eapply pres_bind; [apply pres_backend, name2_call_ok; auto|intros [v e] _].
    destruct (is_err e); [fin|].
    eapply pres_bind; [apply pres_rename_child_to; auto|intros _ _]. fin.
  - (* Tunlinkat *)
    eapply pres_bind; [apply pres_node_for|intros _ _].
    eapply pres_bind; [apply pres_backend, name_call_ok; auto|intros [v e] _].
    destruct (is_err e); [fin|].
    eapply pres_bind; [apply pres_mark_child_deleted|intros _ _]. fin.
  - (* Trename *)
    destruct (fr_parent fr); [|fin].
    eapply pres_bind; [apply pres_the_ref|intros pfr _].
    eapply pres_bind; [apply pres_gets|intros pdel _].
    destruct pdel; [fin|].
    eapply pres_bind; [apply pres_name_for|intros old Hold].
    destruct (_ && _); [fin|].
    eapply pres_bind; [apply pres_backend, name2_call_ok; auto|intros [v e] _].
    destruct (is_err e); [fin|].
    eapply pres_bind; [apply pres_rename_child_to; auto|intros _ _]. fin.
  - (* Treadlink *) one_call ltac:(apply call0_ok).
  - (* Tread *)
    eapply pres_bind; [apply pres_gets|intros ms _].
    destruct (_ =? _).
    + eapply pres_bind; [apply pres_backend, noname_call_ok; reflexivity|intros [v e] _].
      destruct (_ && _); [fin|]. destruct (_ <? _); fin.
    + destruct (_ =? _); fin.
  - (* Twrite *)
    destruct (_ =? _).
    + one_call ltac:(apply noname_call_ok; reflexivity).
    + eapply pres_bind; [apply pres_modify; intros; apply put_ref_ok; auto|intros _ _]. fin.
  - (* Tgetattr *) one_call ltac:(apply getattr_ok).
  - (* Tsetattr *) one_call ltac:(apply noname_call_ok; reflexivity).
  - (* Txattrwalk *)
    eapply pres_bind with (Q := fun _ => True).
    + destruct (negb _).
      * eapply pres_bind; [apply pres_backend, noname_call_ok; reflexivity|intros [v e] _]. fin.
      * eapply pres_bind; [apply pres_backend, call0_ok|intros [v e] _]. fin.
    + intros [len e] _. destruct (is_err e); [fin|]. destruct (_ <? _); [fin|].
      eapply pres_bind; [apply pres_new_ref|intros nr _].
      eapply pres_bind; [apply pres_incref|intros _ _].
      eapply pres_bind; [apply pres_insert_fid|intros _ _]. fin.
  - (* Txattrcreate *)
    eapply pres_bind; [apply pres_modify; intros; apply put_ref_ok; auto|intros _ _]. fin.
  - (* Treaddir *)
    eapply pres_bind; [apply pres_backend, noname_call_ok; reflexivity|intros [v e] _].
    destruct (_ && _); fin.
  - (* Tfsync *) one_call ltac:(apply call0_ok).
  - (* Tstatfs *) one_call ltac:(apply call0_ok).
  - (* Tlock *) one_call ltac:(apply noname_call_ok; reflexivity).
Qed.

Lemma pres_post c m x : preserves (post c m x) (fun _ => True).
Proof.
  unfold post. destruct m; try (apply pres_ret; exact I).
  eapply pres_bind; [apply pres_delete_fid|intros derr _]. destruct (is_err derr); fin.
Qed.

Lemma pres_guarded c m k : preserves (guarded c m k) (fun _ => True).
Proof.
  unfold guarded, fail. destruct (forallb safe_nameb (names_of m)) eqn:Hs; cbn [negb]; [|fin].
  eapply pres_bind; [apply pres_lookup_fid|intros o _].
  destruct o as [r|]; [|fin].
  apply pres_with_defer; [apply pres_dec_ref_|].
  assert (Hinner : forall t, preserves
    (bind (gets (fun s => alookup c (st_msize s))) (fun ms =>
     bind (gets (fun s => view_of s r)) (fun p =>
     bind (gets (fun s => view_of s t)) (fun tv =>
     bind (match first_failing (guards_of k) m ms p tv with
           | Some (GE e) => ret (inl (eno e))
           | Some GP => panic
           | None => body c m r t
           end) (fun x => post c m x))))) (fun _ => True)).
  { intros t. eapply pres_bind; [apply pres_gets|intros ms _].
    eapply pres_bind; [apply pres_gets|intros p _].
    eapply pres_bind; [apply pres_gets|intros tv _].
    eapply pres_bind with (Q := fun _ => True); [|intros x _; apply pres_post].
    destruct (first_failing _ _ _ _ _) as [[e|]|]; [fin|fin|apply pres_body; exact Hs]. }
  destruct (fid2_of m) as [f2|]; [|apply Hinner].
  eapply pres_bind; [apply pres_lookup_fid|intros o2 _].
  destruct o2 as [t|]; [|fin].
  apply pres_with_defer; [apply pres_dec_ref_|apply Hinner].
Qed.

Lemma pres_h_attach c f afid aname : preserves (h_attach c f afid aname) (fun _ => True).
Proof.
  unfold h_attach. destruct (negb _); [fin|].
  eapply pres_bind; [apply pres_backend, call0_ok|intros [v e] _].
  destruct (is_err e); [fin|].
  eapply pres_bind; [apply pres_fresh_handle|intros h _].
  eapply pres_bind; [apply pres_new_ref|intros root _].
  apply pres_with_defer; [apply pres_dec_ref_|].
  eapply pres_bind; [apply pres_backend, getattr_ok|intros [va ea] _].
  destruct (is_err ea); [fin|]. destruct (negb _); [fin|].
  eapply pres_bind; [apply pres_the_ref|intros rfr _].
  eapply pres_bind; [apply pres_modify; intros; apply put_ref_ok; auto|intros _ _].
  destruct (String.eqb _ _).
  - eapply pres_bind; [apply pres_insert_fid|intros _ _]. fin.
  - eapply pres_bind; [apply pres_do_walk|intros w _].
    destruct w as [e'|[[q nr] a]]; [fin|].
    apply pres_with_defer; [apply pres_dec_ref_|].
    eapply pres_bind; [apply pres_insert_fid|intros _ _]. fin.
Qed.

Lemma xattr_call_ok m h a s : is_walk (mkCall m h [] None a s) = false -> call_ok (mkCall m h [] None a s).
Proof. apply noname_call_ok. Qed.

Lemma pres_h_clunk c f : preserves (h_clunk c f) (fun _ => True).
Proof.
  unfold h_clunk. eapply pres_bind with (Q := fun _ => True).
  - unfold clunk_xattr. eapply pres_bind; [apply pres_lookup_fid|intros o _].
    destruct o as [r|]; [|fin].
    apply pres_with_defer; [apply pres_dec_ref_|].
    eapply pres_bind; [apply pres_the_ref|intros fr _].
    destruct (_ =? _); [|fin]. destruct (negb _); [fin|].
    eapply pres_bind with (Q := fun _ => True); [|intros [v e] _; fin].
    destruct (_ && _); apply pres_backend, noname_call_ok; reflexivity.
  - intros cerr _. eapply pres_bind; [apply pres_delete_fid|intros derr _].
    destruct (is_err derr); [fin|]. destruct cerr; fin.
Qed.

Lemma pres_handler c m : preserves (handler c m) (fun _ => True).
Proof.
  unfold handler.
  destruct m; try (apply pres_ret; exact I); try apply pres_h_attach; try apply pres_h_clunk;
    try (cbn [kind_of]; eapply pres_bind; [apply pres_guarded|intros x _]; fin).
  unfold h_version. destruct (tversion_handle msize ver) as [[m v] st].
  eapply pres_bind with (Q := fun _ => True); [|intros _ _; fin].
  destruct st as [[ms ?]|]; [apply pres_modify; intros; apply put_msize_ok; auto|fin].
Qed.

(** ---- the theorems ---- *)
Definition log_of (x : sstate * reply * list (bcall * answer) * list answer) : list (bcall * answer) := snd (fst x).
Definition state_of (x : sstate * reply * list (bcall * answer) * list answer) : sstate := fst (fst (fst x)).
Definition reply_of (x : sstate * reply * list (bcall * answer) * list answer) : reply := snd (fst (fst x)).

Lemma step_inv s c m tape :
  names_ok s ->
  names_ok (state_of (step s c m tape)) /\ Forall (fun ca => call_ok (fst ca)) (log_of (step s c m tape)).
Proof.
  intros Hs. unfold step.
  destruct (handler c m (mkW s tape [])) as [o w] eqn:E.
  assert (Hi : inv (mkW s tape [])) by (split; cbn; auto).
  destruct (pres_handler c m _ _ _ Hi E) as ([Hn Hl] & _ & _).
  destruct o; cbn; (split; [exact Hn|]); apply Forall_rev; exact Hl.
Qed.

Theorem safe_names_step s c m tape :
  names_ok s ->
  forall call ans, In (call, ans) (log_of (step s c m tape)) ->
    (forall n, In n (bc_names call) -> safe_name n) /\
    (is_walk call = true -> (List.length (bc_names call) <= 1)%nat).
Proof.
  intros Hs call ans Hin. destruct (step_inv s c m tape Hs) as [_ Hl].
  rewrite Forall_forall in Hl. destruct (Hl _ Hin) as [H1 H2]. cbn in H1, H2. split; [|exact H2].
  intros n Hn. apply safe_nameb_spec. rewrite forallb_forall in H1. auto.
Qed.

(** every history: the invariant holds in every reachable state *)
Fixpoint run (s : sstate) (h : list (connid * tmsg * list answer)) : sstate :=
  match h with
  | [] => s
  | (c, m, t) :: r => run (state_of (step s c m t)) r
  end.

Lemma init_names_ok : names_ok init_state.
Proof. repeat constructor. Qed.

Theorem names_ok_reachable h : names_ok (run init_state h).
Proof.
  assert (G : forall s, names_ok s -> names_ok (run s h)).
  { induction h as [|[[c m] t] r IH]; intros s Hs; cbn; [exact Hs|]. apply IH. apply step_inv; exact Hs. }
  apply G, init_names_ok.
Qed.

Theorem safe_names_history h c m tape :
  forall call ans, In (call, ans) (log_of (step (run init_state h) c m tape)) ->
    (forall n, In n (bc_names call) -> safe_name n) /\
    (is_walk call = true -> (List.length (bc_names call) <= 1)%nat).
Proof. apply safe_names_step, names_ok_reachable. Qed.


(** C15: a backend call that panics makes the handler panic, which connState.handle answers with EFAULT *)
Theorem panic_reply s c m tape call :
  In (call, APanic) (log_of (step s c m tape)) -> names_ok s ->
  reply_of (step s c m tape) = RErr linux_EFAULT.
Proof.
  intros Hin Hs. unfold step in *.
  destruct (handler c m (mkW s tape [])) as [o w] eqn:E.
  assert (Hi : inv (mkW s tape [])) by (split; cbn; auto).
  destruct (pres_handler c m _ _ _ Hi E) as (_ & _ & Hp).
  assert (Hn : nopanic (mkW s tape [])) by (intros c0 []).
  destruct (Hp Hn) as [->|Hx]; [reflexivity|].
  exfalso. destruct o; cbn in Hin; apply in_rev in Hin; exact (Hx _ Hin).
Qed.

(** conversely a reply other than EFAULT means no backend call panicked *)
Corollary no_panic_unless_efault s c m tape :
  names_ok s -> reply_of (step s c m tape) <> RErr linux_EFAULT ->
  forall call, ~ In (call, APanic) (log_of (step s c m tape)).
Proof. intros Hs Hr call Hin. apply Hr. eapply panic_reply; eauto. Qed.

(** an unsafe name in a checked field: EINVAL before anything happens *)
Lemma unsafe_rejected s c m k tape :
  kind_of m = Some k -> forallb safe_nameb (names_of m) = false ->
  step s c m tape = (s, RErr linux_EINVAL, [], tape).
Proof.
  intros Hk Hn. unfold step, handler.
  destruct m; cbn in Hk; try discriminate; unfold guarded; rewrite Hn; reflexivity.
Qed.

Lemma attach_name_examples :
  strip_slash "" = ""%string /\ strip_slash "/" = ""%string /\
  forallb safe_nameb (split_on slash (strip_slash "a//b")) = false /\
  forallb safe_nameb (split_on slash (strip_slash "/../x")) = false /\
  forallb safe_nameb (split_on slash (strip_slash "a/./b")) = false /\
  forallb safe_nameb (split_on slash (strip_slash "a/")) = false /\
  forallb safe_nameb (split_on slash (strip_slash "/d1/f1")) = true.
Proof. vm_compute. repeat split. Qed.

Lemma attach_components_safe an n :
  forallb safe_nameb (split_on slash (strip_slash an)) = true ->
  In n (split_on slash (strip_slash an)) -> safe_name n.
Proof. intros H Hin. rewrite forallb_forall in H. apply safe_nameb_spec. auto. Qed.
