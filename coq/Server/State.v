(** Sequential model of the p9 server (p9/server.go, p9/path_tree.go): state,
    the backend oracle tape, the state/tape/log monad with Go panics as an
    outcome, and the primitives the handlers are written from (LookupFID,
    IncRef/DecRef cascade, InsertFID/DeleteFID, the path-node helpers).
    Definitions only; stdlib lists and association lists (one style per file).

    Modelled as far as C04/C09/C15 need: the two maps childRefs/childRefNames of
    a pathNode are one relation [pn_refs] (they are two views of the same
    relation in the code); fidRefs are never freed (a dead one keeps refs = 0);
    payload bytes are lengths.  Locks are sequentially the identity. *)
From Coq Require Import NArith ZArith List String Ascii Bool.
From P9V Require Import Base.Str gen.ConstGen.
Import ListNotations.
Open Scope N_scope.

Definition connid := N.
Definition fid := N.
Definition refid := N.
Definition nodeid := N.
Definition handle := N.

(** ---- association lists keyed by N ---- *)
Section Assoc.
  Context {A : Type}.
  Fixpoint alookup (k : N) (l : list (N * A)) : option A :=
    match l with
    | [] => None
    | (k', v) :: r => if k =? k' then Some v else alookup k r
    end.
  Fixpoint aset (k : N) (v : A) (l : list (N * A)) : list (N * A) :=
    match l with
    | [] => [(k, v)]
    | (k', v') :: r => if k =? k' then (k, v) :: r else (k', v') :: aset k v r
    end.
  Fixpoint adel (k : N) (l : list (N * A)) : list (N * A) :=
    match l with
    | [] => []
    | (k', v') :: r => if k =? k' then adel k r else (k', v') :: adel k r
    end.
End Assoc.

Fixpoint slookup {A} (k : string) (l : list (string * A)) : option A :=
  match l with
  | [] => None
  | (k', v) :: r => if String.eqb k k' then Some v else slookup k r
  end.
Fixpoint sdel {A} (k : string) (l : list (string * A)) : list (string * A) :=
  match l with
  | [] => []
  | (k', v) :: r => if String.eqb k k' then sdel k r else (k', v) :: sdel k r
  end.

(** ---- error values: what linux.ExtractErrno, errors.Is(_, io.EOF) and
    errors.Is(_, linux.ENOSYS) can distinguish.  An error is the list of the
    leaves of its wrap/join tree in depth-first order (fmt.Errorf("%w") keeps
    the list, errors.Join concatenates); [] is the nil error. ---- *)
Inductive eleaf :=
| LLinux (n : N)      (* linux.Errno *)
| LSys (n : N)        (* syscall.Errno *)
| LNotExist | LExist | LPerm | LInvalid    (* os.Err* sentinels *)
| LEOF                (* io.EOF *)
| LOpaque.            (* errors.New *)
Definition errv := list eleaf.

Fixpoint first_linux (e : errv) : option N :=
  match e with [] => None | LLinux n :: _ => Some n | _ :: r => first_linux r end.
Fixpoint first_sys (e : errv) : option N :=
  match e with [] => None | LSys n :: _ => Some n | _ :: r => first_sys r end.
(** errors.Is(leaf, os.ErrX): the sentinel itself or syscall.Errno.Is *)
Definition is_notexist (l : eleaf) := match l with LNotExist => true | LSys n => n =? 2 | _ => false end.
Definition is_exist (l : eleaf) := match l with LExist => true | LSys n => (n =? 17) || (n =? 39) | _ => false end.
Definition is_perm (l : eleaf) := match l with LPerm => true | LSys n => (n =? 13) || (n =? 1) | _ => false end.
Definition is_invalid (l : eleaf) := match l with LInvalid => true | _ => false end.

Definition extract_errno (e : errv) : N :=
  match first_linux e with
  | Some n => n
  | None =>
      match (match first_sys e with Some n => n | None => 0 end) with
      | 0 =>
          if existsb is_notexist e then linux_ENOENT
          else if existsb is_exist e then linux_EEXIST
          else if existsb is_perm e then linux_EACCES
          else if existsb is_invalid e then linux_EINVAL
          else linux_EIO
      | n => n
      end
  end.

Definition has_eof (e : errv) : bool := existsb (fun l => match l with LEOF => true | _ => false end) e.
Definition has_enosys (e : errv) : bool := existsb (fun l => match l with LLinux n => n =? linux_ENOSYS | _ => false end) e.
Definition is_err (e : errv) : bool := match e with [] => false | _ => true end.
Definition eno (n : N) : errv := [LLinux n].

(** ---- backend calls and answers ---- *)
Inductive meth :=
| MAttach | MWalk | MWalkGetAttr | MStatFS | MGetAttr | MSetAttr | MClose | MOpen | MReadAt | MWriteAt
| MSetXattr | MGetXattr | MListXattrs | MRemoveXattr | MFSync | MLock | MCreate | MMkdir | MSymlink
| MLink | MMknod | MRenameAt | MUnlinkAt | MReaddir | MReadlink | MRenamed.

Definition meth_num (m : meth) : N :=
  match m with
  | MAttach => 0 | MWalk => 1 | MWalkGetAttr => 2 | MStatFS => 3 | MGetAttr => 4 | MSetAttr => 5 | MClose => 6
  | MOpen => 7 | MReadAt => 8 | MWriteAt => 9 | MSetXattr => 10 | MGetXattr => 11 | MListXattrs => 12
  | MRemoveXattr => 13 | MFSync => 14 | MLock => 15 | MCreate => 16 | MMkdir => 17 | MSymlink => 18
  | MLink => 19 | MMknod => 20 | MRenameAt => 21 | MUnlinkAt => 22 | MReaddir => 23 | MReadlink => 24
  | MRenamed => 25
  end.

(** [bc_names] are exactly the arguments the backend uses as path components. *)
Record bcall := mkCall {
  bc_meth : meth;
  bc_h : handle;               (* receiver File, numbered in creation order; 0 = the Attacher *)
  bc_names : list string;
  bc_h2 : option handle;       (* File argument (Link target, RenameAt/Renamed new directory) *)
  bc_args : list N;
  bc_strs : list string        (* other strings: symlink target, xattr name, lock client *)
}.

(** one record for every kind of success value; a call reads the fields it needs *)
Record bval := mkV {
  bv_qids : list N;            (* QID paths *)
  bv_valid : bool;             (* AttrMask.Mode of GetAttr/WalkGetAttr *)
  bv_mode : N;                 (* Attr.Mode *)
  bv_n : N;                    (* count / io unit / lock status / qid path *)
  bv_strs : list string        (* ListXattrs / Readlink *)
}.
Definition v0 : bval := mkV [] false 0 0 [].

Inductive answer := AVal (v : bval) (e : errv) | APanic.

(** ---- server state ---- *)
Record fidref := mkRef {
  fr_file : handle;
  fr_refs : Z;
  fr_opened : bool;
  fr_flags : N;
  fr_mode : N;
  fr_node : nodeid;
  fr_parent : option refid;
  fr_xop : N;                  (* pendingXattr.op *)
  fr_xname : string;
  fr_xsize : N;
  fr_xflags : N;
  fr_xlen : N;                 (* len(pendingXattr.buf) *)
  fr_xof : option refid        (* xattrOf *)
}.
Definition ref0 : fidref := mkRef 0 0 false 0 0 0 None 0 "" 0 0 0 None.

Record pnode := mkNode {
  pn_deleted : bool;
  pn_kids : list (string * nodeid);     (* childNodes *)
  pn_refs : list (refid * string)       (* childRefNames (= childRefs) *)
}.
Definition node0 : pnode := mkNode false [] [].

Record sstate := mkState {
  st_fids : list ((connid * fid) * refid);
  st_msize : list (connid * N);          (* connections that accepted a Tversion *)
  st_refs : list (refid * fidref);
  st_nodes : list (nodeid * pnode);
  st_next_ref : N;
  st_next_node : N;
  st_next_handle : N
}.
(** NewServer: the root path node is node 0; handles start at 1. *)
Definition init_state : sstate := mkState [] [] [] [(0, node0)] 1 1 1.

Definition keyb (a b : connid * fid) : bool := (fst a =? fst b) && (snd a =? snd b).
Fixpoint tlookup (k : connid * fid) (l : list ((connid * fid) * refid)) : option refid :=
  match l with [] => None | (k', v) :: r => if keyb k k' then Some v else tlookup k r end.
Fixpoint tset (k : connid * fid) (v : refid) (l : list ((connid * fid) * refid)) :=
  match l with
  | [] => [(k, v)]
  | (k', v') :: r => if keyb k k' then (k, v) :: r else (k', v') :: tset k v r
  end.
Fixpoint tdel (k : connid * fid) (l : list ((connid * fid) * refid)) :=
  match l with [] => [] | (k', v') :: r => if keyb k k' then tdel k r else (k', v') :: tdel k r end.

Definition get_ref (s : sstate) (r : refid) : fidref :=
  match alookup r (st_refs s) with Some fr => fr | None => ref0 end.
Definition get_node (s : sstate) (n : nodeid) : pnode :=
  match alookup n (st_nodes s) with Some p => p | None => node0 end.
Definition put_ref (r : refid) (fr : fidref) (s : sstate) : sstate :=
  mkState (st_fids s) (st_msize s) (aset r fr (st_refs s)) (st_nodes s) (st_next_ref s) (st_next_node s) (st_next_handle s).
Definition put_node (n : nodeid) (p : pnode) (s : sstate) : sstate :=
  mkState (st_fids s) (st_msize s) (st_refs s) (aset n p (st_nodes s)) (st_next_ref s) (st_next_node s) (st_next_handle s).
Definition put_fids (t : list ((connid * fid) * refid)) (s : sstate) : sstate :=
  mkState t (st_msize s) (st_refs s) (st_nodes s) (st_next_ref s) (st_next_node s) (st_next_handle s).
Definition put_msize (c : connid) (m : N) (s : sstate) : sstate :=
  mkState (st_fids s) (aset c m (st_msize s)) (st_refs s) (st_nodes s) (st_next_ref s) (st_next_node s) (st_next_handle s).

Definition set_refs (fr : fidref) (n : Z) : fidref :=
  mkRef (fr_file fr) n (fr_opened fr) (fr_flags fr) (fr_mode fr) (fr_node fr) (fr_parent fr)
        (fr_xop fr) (fr_xname fr) (fr_xsize fr) (fr_xflags fr) (fr_xlen fr) (fr_xof fr).
Definition set_opened (fr : fidref) (flags : N) : fidref :=
  mkRef (fr_file fr) (fr_refs fr) true flags (fr_mode fr) (fr_node fr) (fr_parent fr)
        (fr_xop fr) (fr_xname fr) (fr_xsize fr) (fr_xflags fr) (fr_xlen fr) (fr_xof fr).
Definition set_parent (fr : fidref) (p : option refid) : fidref :=
  mkRef (fr_file fr) (fr_refs fr) (fr_opened fr) (fr_flags fr) (fr_mode fr) (fr_node fr) p
        (fr_xop fr) (fr_xname fr) (fr_xsize fr) (fr_xflags fr) (fr_xlen fr) (fr_xof fr).
Definition set_xattr (fr : fidref) (op : N) (name : string) (size flags len : N) : fidref :=
  mkRef (fr_file fr) (fr_refs fr) (fr_opened fr) (fr_flags fr) (fr_mode fr) (fr_node fr) (fr_parent fr)
        op name size flags len (fr_xof fr).
Definition set_deleted (p : pnode) : pnode := mkNode true (pn_kids p) (pn_refs p).
Definition set_kids (p : pnode) (k : list (string * nodeid)) : pnode := mkNode (pn_deleted p) k (pn_refs p).
Definition set_prefs (p : pnode) (r : list (refid * string)) : pnode := mkNode (pn_deleted p) (pn_kids p) r.

(** ---- the monad: state, oracle tape, call log (newest first); a Go panic is an outcome ---- *)
Record world := mkW { w_st : sstate; w_tape : list answer; w_log : list (bcall * answer) }.
Inductive outcome (A : Type) := Ok (a : A) | Panic.
Arguments Ok {A} a.
Arguments Panic {A}.
Definition M (A : Type) := world -> outcome A * world.

Definition ret {A} (a : A) : M A := fun w => (Ok a, w).
Definition bind {A B} (m : M A) (f : A -> M B) : M B :=
  fun w => match m w with
           | (Ok a, w') => f a w'
           | (Panic, w') => (Panic, w')
           end.
Definition panic {A} : M A := fun w => (Panic, w).
Definition gets {A} (f : sstate -> A) : M A := fun w => (Ok (f (w_st w)), w).
Definition modify (f : sstate -> sstate) : M unit :=
  fun w => (Ok tt, mkW (f (w_st w)) (w_tape w) (w_log w)).

Declare Scope m_scope.
Delimit Scope m_scope with m.
Notation "x <- m ;; k" := (bind m (fun x => k)) (at level 61, m at next level, right associativity) : m_scope.
Notation "m ;; k" := (bind m (fun _ => k)) (at level 61, right associativity) : m_scope.
Notation "' pat <- m ;; k" := (bind m (fun x => match x with pat => k end))
  (at level 61, pat pattern, m at next level, right associativity) : m_scope.
Open Scope m_scope.

(** Go's [defer d] around [m]: [d] runs whether [m] returns or panics. *)
Definition with_defer {A} (d : M unit) (m : M A) : M A :=
  fun w => match m w with
           | (o, w1) => match d w1 with
                        | (Ok _, w2) => (o, w2)
                        | (Panic, w2) => (Panic, w2)
                        end
           end.

(** One backend call: the next answer of the tape (an exhausted tape answers
    "success, zero value"); logged with its answer; a panic propagates. *)
Definition backend (c : bcall) : M (bval * errv) :=
  fun w =>
    let '(a, t) := match w_tape w with [] => (AVal v0 [], []) | a :: t => (a, t) end in
    let w' := mkW (w_st w) t ((c, a) :: w_log w) in
    match a with
    | APanic => (Panic, w')
    | AVal v e => (Ok (v, e), w')
    end.

Definition call0 (m : meth) (h : handle) : bcall := mkCall m h [] None [] [].

(** a File the backend returned gets the next handle number *)
Definition fresh_handle : M handle :=
  fun w => let s := w_st w in
           (Ok (st_next_handle s),
            mkW (mkState (st_fids s) (st_msize s) (st_refs s) (st_nodes s) (st_next_ref s) (st_next_node s) (st_next_handle s + 1))
                (w_tape w) (w_log w)).

(** &fidRef{...}: allocation of a fidRef *)
Definition new_ref (fr : fidref) : M refid :=
  fun w => let s := w_st w in
           let r := st_next_ref s in
           (Ok r,
            mkW (mkState (st_fids s) (st_msize s) (aset r fr (st_refs s)) (st_nodes s) (r + 1) (st_next_node s) (st_next_handle s))
                (w_tape w) (w_log w)).

Definition the_ref (r : refid) : M fidref := gets (fun s => get_ref s r).
Definition the_node (n : nodeid) : M pnode := gets (fun s => get_node s n).

Definition incref (r : refid) : M unit :=
  modify (fun s => let fr := get_ref s r in put_ref r (set_refs fr (fr_refs fr + 1)) s).

(** pathNode.removeChild *)
Definition remove_child (n : nodeid) (r : refid) : M unit :=
  modify (fun s => let p := get_node s n in put_node n (set_prefs p (adel r (pn_refs p))) s).

(** fidRef.DecRef: at zero, Close the File (or drop the reference on xattrOf),
    unregister from the parent's path node and drop the parent reference.  The
    returned error is the join of the wrapped errors.  Out of fuel (a cyclic
    parent chain, excluded by backend assumption B2) is a panic. *)
Fixpoint decref (fuel : nat) (r : refid) : M errv :=
  match fuel with
  | O => panic
  | S k =>
      fr <- the_ref r ;;
      let n := (fr_refs fr - 1)%Z in
      modify (put_ref r (set_refs fr n)) ;;
      if (n =? 0)%Z then
        e1 <- match fr_xof fr with
              | Some o => decref k o
              | None => '(_, e) <- backend (call0 MClose (fr_file fr)) ;; ret e
              end ;;
        e2 <- match fr_parent fr with
              | Some p => pfr <- the_ref p ;; remove_child (fr_node pfr) r ;; decref k p
              | None => ret []
              end ;;
        ret (e1 ++ e2)%list
      else ret []
  end.

Definition ref_fuel (s : sstate) : nat := S (List.length (st_refs s)).
Definition dec_ref (r : refid) : M errv := fuel <- gets ref_fuel ;; decref fuel r.
Definition dec_ref_ (r : refid) : M unit := dec_ref r ;; ret tt.

(** connState.LookupFID (takes a reference) *)
Definition lookup_fid (c : connid) (f : fid) : M (option refid) :=
  o <- gets (fun s => tlookup (c, f) (st_fids s)) ;;
  match o with
  | Some r => incref r ;; ret (Some r)
  | None => ret None
  end.

(** connState.InsertFID *)
Definition insert_fid (c : connid) (f : fid) (r : refid) : M unit :=
  o <- gets (fun s => tlookup (c, f) (st_fids s)) ;;
  incref r ;;
  modify (fun s => put_fids (tset (c, f) r (st_fids s)) s) ;;
  match o with
  | Some orig => dec_ref_ orig
  | None => ret tt
  end.

(** connState.DeleteFID *)
Definition delete_fid (c : connid) (f : fid) : M errv :=
  o <- gets (fun s => tlookup (c, f) (st_fids s)) ;;
  match o with
  | Some r => modify (fun s => put_fids (tdel (c, f) (st_fids s)) s) ;; dec_ref r
  | None => ret (eno linux_EBADF)
  end.

(** fidRef.isDeleted *)
Definition is_deleted (s : sstate) (r : refid) : bool := pn_deleted (get_node s (fr_node (get_ref s r))).

(** pathNode.pathNodeFor: the child node for a name, created on demand *)
Definition node_for (n : nodeid) (name : string) : M nodeid :=
  p <- the_node n ;;
  match slookup name (pn_kids p) with
  | Some k => ret k
  | None =>
      fun w => let s := w_st w in
               let k := st_next_node s in
               (Ok k,
                mkW (mkState (st_fids s) (st_msize s) (st_refs s)
                             (aset k node0 (aset n (set_kids p ((name, k) :: pn_kids p)) (st_nodes s)))
                             (st_next_ref s) (k + 1) (st_next_handle s))
                    (w_tape w) (w_log w))
  end.

(** pathNode.addChild / addChildLocked (panics when the ref is already registered) *)
Definition add_child (n : nodeid) (r : refid) (name : string) : M unit :=
  p <- the_node n ;;
  match alookup r (pn_refs p) with
  | Some _ => panic
  | None => modify (put_node n (set_prefs p (pn_refs p ++ [(r, name)])%list))
  end.

(** pathNode.nameFor (panics when the ref is not registered) *)
Definition name_for (n : nodeid) (r : refid) : M string :=
  p <- the_node n ;;
  match alookup r (pn_refs p) with
  | Some nm => ret nm
  | None => panic
  end.

(** pathNode.removeWithName: every ref registered under [name] is unregistered
    and, when [fn] is given and the ref is alive (TryIncRef), [fn] runs on it
    with a temporary reference that is dropped by a deferred DecRef; then the
    child path node of that name is detached and returned.  Go ranges over a
    map; the model ranges in registration order (the comparison sorts). *)
Fixpoint rwn_loop {A} (n : nodeid) (fn : option (refid -> M unit)) (rs : list refid) (k : M A) : M A :=
  match rs with
  | [] => k
  | r :: rest =>
      remove_child n r ;;
      match fn with
      | None => rwn_loop n fn rest k
      | Some f =>
          fr <- the_ref r ;;
          if (0 <? fr_refs fr)%Z then
            incref r ;;
            with_defer (dec_ref_ r) (f r ;; rwn_loop n fn rest k)
          else rwn_loop n fn rest k
      end
  end.

Definition refs_named (name : string) (l : list (refid * string)) : list refid :=
  map fst (filter (fun rn => String.eqb (snd rn) name) l).

Definition remove_with_name (n : nodeid) (name : string) (fn : option (refid -> M unit)) : M (option nodeid) :=
  p <- the_node n ;;
  rwn_loop n fn (refs_named name (pn_refs p))
    (p' <- the_node n ;;
     let o := slookup name (pn_kids p') in
     modify (put_node n (set_kids p' (sdel name (pn_kids p')))) ;;
     ret o).

(** notifyDelete: the node and every node below it *)
Fixpoint notify_delete (fuel : nat) (n : nodeid) : M unit :=
  match fuel with
  | O => panic
  | S k =>
      p <- the_node n ;;
      modify (put_node n (set_deleted p)) ;;
      (fix each (l : list (string * nodeid)) : M unit :=
         match l with
         | [] => ret tt
         | (_, c) :: rest => notify_delete k c ;; each rest
         end) (pn_kids p)
  end.
Definition node_fuel (s : sstate) : nat := S (List.length (st_nodes s)).

(** fidRef.markChildDeleted *)
Definition mark_child_deleted (n : nodeid) (name : string) : M unit :=
  o <- remove_with_name n name None ;;
  match o with
  | Some c => fuel <- gets node_fuel ;; notify_delete fuel c
  | None => ret tt
  end.

(** notifyNameChange + the deferred release in renameChildTo: Renamed on every fidRef registered in the
    subtree that is still alive (TryIncRef); the references taken are dropped by a deferred function
    after the whole notification, also when a Renamed callback panics.  Written with a continuation
    [k] (what follows the notification) inside the defers; the model drops the references in the
    reverse of Go's order, which is unobservable: a reference taken by TryIncRef is never the last *)
Fixpoint notify_name_change {A} (fuel : nat) (n : nodeid) (k : M A) : M A :=
  match fuel with
  | O => panic
  | S f =>
      p <- the_node n ;;
      (fix refs (l : list (refid * string)) : M A :=
         match l with
         | [] =>
             (fix each (kids : list (string * nodeid)) : M A :=
                match kids with
                | [] => k
                | (_, c) :: rest => notify_name_change f c (each rest)
                end) (pn_kids p)
         | (r, nm) :: rest =>
             fr <- the_ref r ;;
             if (0 <? fr_refs fr)%Z then
               incref r ;;
               with_defer (dec_ref_ r)
                 (match fr_parent fr with
                  | None => panic                      (* nil dereference of ref.parent *)
                  | Some pr =>
                      pfr <- the_ref pr ;;
                      backend (mkCall MRenamed (fr_file fr) [nm] (Some (fr_file pfr)) [] []) ;;
                      refs rest
                  end)
             else refs rest
         end) (pn_refs p)
  end.

(** pathNode.addPathNodeFor (panics when the name already has a node) *)
Definition add_path_node_for (n : nodeid) (name : string) (c : nodeid) : M unit :=
  p <- the_node n ;;
  match slookup name (pn_kids p) with
  | Some _ => panic
  | None => modify (put_node n (set_kids p ((name, c) :: pn_kids p)))
  end.

(** fidRef.renameChildTo: [f] and [target] are fidRefs of the two directories *)
Definition rename_child_to (f : refid) (old : string) (target : refid) (new : string) : M unit :=
  ffr <- the_ref f ;;
  tfr <- the_ref target ;;
  mark_child_deleted (fr_node tfr) new ;;
  o <- remove_with_name (fr_node ffr) old
         (Some (fun r =>
            fr <- the_ref r ;;
            modify (put_ref r (set_parent fr (Some target))) ;;
            incref target ;;
            add_child (fr_node tfr) r new ;;
            backend (mkCall MRenamed (fr_file fr) [new] (Some (fr_file tfr)) [] []) ;;
            match fr_parent fr with
            | None => panic                    (* origParent.DecRef() on nil *)
            | Some p => dec_ref_ p             (* last: a panic in Close leaves the fidRef under its new parent *)
            end ;;
            ret tt)) ;;
  match o with
  | Some c =>
      add_path_node_for (fr_node tfr) new c ;;
      fuel <- gets node_fuel ;;
      notify_name_change fuel c (ret tt)
  | None => ret tt
  end.
