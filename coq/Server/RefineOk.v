(** C04, requests that pass the refusal table: exact effect of the model and agreement with
    [spec_step] for some backend outcome.  This file: the handlers that make at most one backend
    call on the looked-up File and bind nothing (class A: no state change at all; class B: Tlopen,
    Twrite on an xattr-create fid, Txattrcreate update the fid's own protocol state). *)
From Coq Require Import NArith ZArith List String Bool Lia.
From P9V Require Import Base.Str gen.ConstGen Fs.Version Server.State Server.Msg Server.SessionSpec Server.Handlers
  Server.Ledger Server.FaultProofs Server.Refine.
Import ListNotations.
Open Scope N_scope.

(** the fid table is injective: a fidRef is bound to at most one fid *)
Definition tinj (s : sstate) : Prop :=
  forall k k' r, tlookup k (st_fids s) = Some r -> tlookup k' (st_fids s) = Some r -> keyb k k' = true.

Lemma defer_undo' {A} s tape log r (m : M A) o tape' log' :
  (1 <= refsZ s r)%Z ->
  m (mkW (set_refs_of s r (refsZ s r + 1)) tape log) = (o, mkW (set_refs_of s r (refsZ s r + 1)) tape' log') ->
  with_defer (dec_ref_ r) m (mkW (set_refs_of s r (refsZ s r + 1)) tape log) = (o, mkW s tape' log').
Proof. intros Hl E. unfold with_defer. rewrite E. rewrite (undo_lookup s tape' log' r Hl). reflexivity. Qed.

(** the deferred DecRef after the fid's own fidRef was replaced by [g] (same count) *)
Lemma undo_after_put s tape log r g :
  (1 <= refsZ s r)%Z -> fr_refs g = (refsZ s r + 1)%Z ->
  dec_ref_ r (mkW (put_ref r g (set_refs_of s r (refsZ s r + 1))) tape log) =
  (Ok tt, mkW (put_ref r (set_refs g (refsZ s r)) s) tape log).
Proof.
  intros Hl Hg. rewrite dec_ref__nocascade.
  - cbn [w_st w_tape w_log]. f_equal. f_equal.
    unfold set_refs_of at 1. rewrite get_put_ref_same. rewrite refsZ_put_ref, N.eqb_refl, Hg.
    replace (refsZ s r + 1 - 1)%Z with (refsZ s r) by lia.
    unfold put_ref, set_refs_of; cbn. rewrite !aset_aset. reflexivity.
  - cbn [w_st]. rewrite refsZ_put_ref, N.eqb_refl. lia.
Qed.

Lemma guarded_pass1 s c m k tape r :
  kind_of m = Some k -> forallb safe_nameb (names_of m) = true -> fid2_of m = None ->
  tlookup (c, fid1_of m) (st_fids s) = Some r ->
  first_failing (guards_of k) m (alookup c (st_msize s)) (view_of s r) (view_of s r) = None ->
  guarded c m k (mkW s tape []) =
  with_defer (dec_ref_ r) (x <- body c m r r ;; post c m x)%m (mkW (set_refs_of s r (refsZ s r + 1)) tape []).
Proof.
  intros Hk Hn H2 Hr Hg. rewrite guarded_eq, Hn. cbn [negb]. unfold bind at 1. rewrite (lookup_run s tape [] c _ r Hr). rewrite H2.
  unfold with_defer. f_equal. unfold inner_of, bind at 1, gets. cbn [w_st]. unfold bind at 1. cbn [w_st]. unfold bind at 1. cbn [w_st].
  rewrite !view_set_refs, !msize_set_refs, Hg. reflexivity.
Qed.

(** computations that do not change the state at all *)
Definition samest {A} (m : M A) : Prop := forall w o w', m w = (o, w') -> w_st w' = w_st w.
Lemma ss_ret {A} (a : A) : samest (ret a). Proof. intros w o w' E; inversion E; auto. Qed.
Lemma ss_panic {A} : samest (@panic A). Proof. intros w o w' E; inversion E; auto. Qed.
Lemma ss_gets {A} (f : sstate -> A) : samest (gets f). Proof. intros w o w' E; inversion E; auto. Qed.
Lemma ss_backend c : samest (backend c).
Proof. intros w o w' E. unfold backend in E. destruct (w_tape w) as [|a t]; [|destruct a]; inversion E; subst; cbn; auto. Qed.
Lemma ss_bind {A B} (m : M A) (f : A -> M B) : samest m -> (forall a, samest (f a)) -> samest (bind m f).
Proof.
  intros Hm Hf w o w' E. unfold bind in E. destruct (m w) as [[a|] w1] eqn:Em.
  - rewrite (Hf a _ _ _ E). exact (Hm _ _ _ Em).
  - inversion E; subst. exact (Hm _ _ _ Em).
Qed.
Ltac ss :=
  repeat first
    [ apply ss_ret | apply ss_panic | apply ss_gets | apply ss_backend | apply ss_bind; [|intros ?]
    | match goal with
      | |- samest (match ?x with _ => _ end) => destruct x
      | |- samest (let '(_, _) := ?x in _) => destruct x
      | |- samest (if ?b then _ else _) => destruct b
      end ].

(** class A: one call (or none), no effect *)
Definition classA (m : tmsg) : bool :=
  match m with
  | Tsymlink _ _ _ _ _ | Tmknod _ _ _ _ _ _ _ | Tmkdir _ _ _ _ _ | Treadlink _ | Tgetattr _ _ | Tsetattr _ _
  | Treaddir _ _ _ | Tfsync _ | Tstatfs _ | Tlock _ _ _ _ _ _ _ | Tread _ _ _ => true
  | _ => false
  end.

Lemma body_classA_same c m r t : classA m = true -> samest (body c m r t).
Proof. intros H. destruct m; cbn in H; try discriminate; unfold body, the_ref, fail; ss. Qed.

Ltac brute E :=
  repeat match type of E with
         | context [match w_tape ?w with _ => _ end] => destruct (w_tape w) as [|[? ?|] ?]
         | context [if ?x then _ else _] => destruct x
         | context [match ?x with _ => _ end] => destruct x
         end.

(** a successful class-A body never answers with an Rlerror *)
Lemma body_classA_ok c m r t w rep w' : classA m = true -> body c m r t w = (Ok (inr rep), w') -> rclass rep = None.
Proof.
  intros H E. destruct m; cbn in H; try discriminate;
    unfold body, bind, the_ref, gets, backend, call0, fail, ret, ok in E; cbn in E; brute E; inversion E; reflexivity.
Qed.

Definition nofence : N -> N -> bool := fun _ _ => false.
Lemma apply_nofence a c f : a_fids (apply_fence nofence a) c f = a_fids a c f.
Proof. cbn. destruct (a_fids a c f); reflexivity. Qed.

(** what [spec_reject = None] says about the model state, for the table-driven requests *)
Lemma spec_pass_inv s c m k :
  kind_of m = Some k -> spec_reject (abs_state s) c m = None ->
  forallb safe_nameb (names_of m) = true /\
  exists r, tlookup (c, fid1_of m) (st_fids s) = Some r /\
  exists t, (match fid2_of m with Some f2 => tlookup (c, f2) (st_fids s) = Some t | None => t = r end) /\
  first_failing (guards_of k) m (alookup c (st_msize s)) (view_of s r) (view_of s t) = None.
Proof.
  intros Hk Hr.
  assert (Hr' : (if negb (forallb safe_nameb (names_of m)) then Some linux_EINVAL
                 else match a_fids (abs_state s) c (fid1_of m) with
                      | None => Some linux_EBADF
                      | Some p =>
                          match (match fid2_of m with None => Some p | Some f2 => a_fids (abs_state s) c f2 end) with
                          | None => Some linux_EBADF
                          | Some t => match first_failing (guards_of k) m (a_neg (abs_state s) c) p t with
                                      | Some (GE e0) => Some e0 | Some GP => Some linux_EFAULT | None => None end
                          end
                      end) = None).
  { unfold spec_reject in Hr. destruct m; cbn in Hk; try discriminate; inversion Hk; subst; exact Hr. }
  clear Hr. destruct (forallb safe_nameb (names_of m)); cbn [negb] in Hr'; [|discriminate]. split; [reflexivity|].
  unfold abs_state in Hr'; cbn [a_fids a_neg] in Hr'.
  destruct (tlookup (c, fid1_of m) (st_fids s)) as [r|]; [|discriminate]. exists r. split; [reflexivity|].
  destruct (fid2_of m) as [f2|].
  - destruct (tlookup (c, f2) (st_fids s)) as [t|]; [|discriminate]. exists t. split; [reflexivity|].
    destruct (first_failing _ _ _ _ _) as [[?|]|]; try discriminate. reflexivity.
  - exists r. split; [reflexivity|]. destruct (first_failing _ _ _ _ _) as [[?|]|]; try discriminate. reflexivity.
Qed.

Definition st_of (x : sstate * reply * list (bcall * answer) * list answer) : sstate := fst (fst (fst x)).
Definition rp_of (x : sstate * reply * list (bcall * answer) * list answer) : reply := snd (fst (fst x)).

(** the refinement statement for one request *)
Definition refines_at (s : sstate) (c : connid) (m : tmsg) (tape : list answer) : Prop :=
  exists o fence,
    rclass (rp_of (step s c m tape)) = snd (spec_step (abs_state s) c m o fence) /\
    (forall c' f', a_fids (abs_state (st_of (step s c m tape))) c' f' = a_fids (fst (spec_step (abs_state s) c m o fence)) c' f') /\
    (forall c', a_neg (abs_state (st_of (step s c m tape))) c' = a_neg (fst (spec_step (abs_state s) c m o fence)) c').

Lemma kind_of_classA m : classA m = true -> exists k, kind_of m = Some k /\ fid2_of m = None /\ (forall f, m <> Tremove f).
Proof. intros H. destruct m; cbn in H; try discriminate; eexists; repeat split; intros f0 E; discriminate. Qed.

Theorem refines_classA s c m tape :
  Ledger s -> classA m = true -> spec_reject (abs_state s) c m = None -> refines_at s c m tape.
Proof.
  intros HL HA Hr. destruct (kind_of_classA m HA) as (k & Hk & H2 & Hnr).
  destruct (spec_pass_inv s c m k Hk Hr) as (Hn & r & Hrb & t & Ht & Hg). rewrite H2 in Ht. subst t.
  pose proof (ledger_bound_pos s _ r HL Hrb) as Hrl.
  assert (Hh : handler c m = (x <- guarded c m k ;; ret (match x with inl e => RErr (extract_errno e) | inr r0 => r0 end))%m).
  { unfold handler. destruct m; cbn in Hk; try discriminate; inversion Hk; reflexivity. }
  assert (Hpost : forall x w0, post c m x w0 = (Ok x, w0)).
  { intros x w0. unfold post. destruct m; try reflexivity. exfalso; eapply Hnr; reflexivity. }
  set (s1 := set_refs_of s r (refsZ s r + 1)).
  destruct (body c m r r (mkW s1 tape [])) as [ob w2] eqn:Eb.
  pose proof (body_classA_same c m r r HA _ _ _ Eb) as Hs2. cbn [w_st] in Hs2.
  destruct w2 as [s2 tape2 log2]. cbn [w_st] in Hs2. subst s2.
  assert (Hguarded : guarded c m k (mkW s tape []) = (ob, mkW s tape2 log2)).
  { rewrite (guarded_pass1 s c m k tape r Hk Hn H2 Hrb Hg). fold s1. apply defer_undo'; [exact Hrl|]. fold s1.
    unfold bind at 1. rewrite Eb. destruct ob as [x|]; [rewrite Hpost|]; reflexivity. }
  assert (Hpf : forall c' f', a_fids (post_fail (abs_state s) c m) c' f' = a_fids (abs_state s) c' f').
  { intros. destruct m; cbn in HA; try discriminate; reflexivity. }
  assert (Hpo : forall kk fz n c' f', a_fids (post_ok (abs_state s) c m kk fz n) c' f' = a_fids (abs_state s) c' f').
  { intros. destruct m; cbn in HA; try discriminate; reflexivity. }
  assert (Hpn : forall kk fz n c', a_neg (post_ok (abs_state s) c m kk fz n) c' = a_neg (abs_state s) c').
  { intros. destruct m; cbn in HA; try discriminate; reflexivity. }
  assert (Hpfn : forall c', a_neg (post_fail (abs_state s) c m) c' = a_neg (abs_state s) c').
  { intros. destruct m; cbn in HA; try discriminate; reflexivity. }
  assert (Hci : clunk_incomplete (abs_state s) c m = false) by (destruct m; cbn in HA; try discriminate; reflexivity).
  unfold refines_at, st_of, rp_of, step. rewrite Hh. unfold bind at 1 2 3. rewrite Hguarded.
  destruct ob as [[e|rep]|].
  - exists (BFail (extract_errno e)), nofence. unfold spec_step. rewrite Hr. cbn [fst snd].
    split; [reflexivity|]. split; intros; [rewrite apply_nofence, Hpf|change (a_neg (apply_fence nofence (post_fail (abs_state s) c m)) c') with (a_neg (post_fail (abs_state s) c m) c'); rewrite Hpfn]; reflexivity.
  - exists (BOk 0 false 0), nofence. unfold spec_step. rewrite Hr, Hci. cbn [fst snd].
    split; [exact (body_classA_ok c m r r _ _ _ HA Eb)|]. split; intros; [rewrite apply_nofence, Hpo|change (a_neg (apply_fence nofence (post_ok (abs_state s) c m 0 false 0)) c') with (a_neg (post_ok (abs_state s) c m 0 false 0) c'); rewrite Hpn]; reflexivity.
  - exists BPanicEarly, nofence. unfold spec_step. rewrite Hr. cbn [fst snd]. split; [reflexivity|]. split; intros; [rewrite apply_nofence|]; reflexivity.
Qed.

(** ---- class B: the request updates the protocol state of its own fid ---- *)
Lemma view_put_other s r g x : x <> r -> view_of (put_ref r g s) x = view_of s x.
Proof. intros H. unfold view_of, is_deleted. rewrite get_put_ref_other by assumption. reflexivity. Qed.
Lemma view_put_same s r g :
  view_of (put_ref r g s) r =
  mkView (fr_mode g) (fr_opened g) (fr_flags g) (pn_deleted (get_node s (fr_node g)))
         (match fr_parent g with None => true | Some _ => false end) (fr_xop g) (fr_xsize g) (fr_xlen g) (fr_xflags g).
Proof. unfold view_of, is_deleted. rewrite get_put_ref_same. reflexivity. Qed.

Lemma keyb_eq k k' : keyb k k' = true -> k = k'.
Proof. unfold keyb. intros H. apply andb_true_iff in H. destruct H as [A B]. apply N.eqb_eq in A, B. destruct k, k'; cbn in *; congruence. Qed.

Theorem refines_update s c m k tape r g :
  Ledger s -> tinj s -> kind_of m = Some k -> fid2_of m = None -> (forall f, m <> Tremove f) ->
  spec_reject (abs_state s) c m = None -> tlookup (c, fid1_of m) (st_fids s) = Some r ->
  let s1 := set_refs_of s r (refsZ s r + 1) in
  (forall ob w2, body c m r r (mkW s1 tape []) = (ob, w2) ->
     (w_st w2 = s1 /\ (ob = Panic \/ (exists e, ob = Ok (inl e)) \/
                       (exists rep, ob = Ok (inr rep) /\ rclass rep = None /\
                                    forall c' f', a_fids (post_ok (abs_state s) c m 0 false 0) c' f' = a_fids (abs_state s) c' f'))) \/
     (w_st w2 = put_ref r g s1 /\ exists rep, ob = Ok (inr rep) /\ rclass rep = None /\
        (forall c' f', a_fids (post_ok (abs_state s) c m 0 false 0) c' f' =
                       a_fids (bind_fid (abs_state s) c (fid1_of m) (Some (view_of (put_ref r (set_refs g (refsZ s r)) s) r))) c' f'))) ->
  fr_refs g = (refsZ s r + 1)%Z ->
  (forall c' f', a_fids (post_fail (abs_state s) c m) c' f' = a_fids (abs_state s) c' f') ->
  (forall kk fz n c', a_neg (post_ok (abs_state s) c m kk fz n) c' = a_neg (abs_state s) c') ->
  (forall c', a_neg (post_fail (abs_state s) c m) c' = a_neg (abs_state s) c') ->
  clunk_incomplete (abs_state s) c m = false ->
  refines_at s c m tape.
Proof.
  intros HL Hinj Hk H2 Hnr Hr Hrb s1 Hbody Hg Hpf Hpn Hpfn Hci.
  destruct (spec_pass_inv s c m k Hk Hr) as (Hn & r' & Hrb' & t & Ht & Hgd). rewrite H2 in Ht. subst t.
  assert (r' = r) by (unfold connid, fid in *; congruence). subst r'.
  pose proof (ledger_bound_pos s _ r HL Hrb) as Hrl.
  assert (Hh : handler c m = (x <- guarded c m k ;; ret (match x with inl e => RErr (extract_errno e) | inr r0 => r0 end))%m).
  { unfold handler. destruct m; cbn in Hk; try discriminate; inversion Hk; reflexivity. }
  assert (Hpost : forall x w0, post c m x w0 = (Ok x, w0)).
  { intros x w0. unfold post. destruct m; try reflexivity. exfalso; eapply Hnr; reflexivity. }
  destruct (body c m r r (mkW s1 tape [])) as [ob w2] eqn:Eb.
  destruct w2 as [s2 tape2 log2].
  destruct (Hbody ob _ eq_refl) as [[Hs2 Hob]|[Hs2 (rep & Hob & Hrc & Hpo)]]; cbn [w_st] in Hs2; subst s2.
  - (* no state change *)
    assert (Hguarded : guarded c m k (mkW s tape []) = (ob, mkW s tape2 log2)).
    { rewrite (guarded_pass1 s c m k tape r Hk Hn H2 Hrb Hgd). fold s1. apply defer_undo'; [exact Hrl|]. fold s1.
      unfold bind at 1. rewrite Eb. destruct ob as [x|]; [rewrite Hpost|]; reflexivity. }
    unfold refines_at, st_of, rp_of, step. rewrite Hh. unfold bind at 1 2 3. rewrite Hguarded.
    destruct Hob as [->|[(e & ->)|(rep & -> & Hrc & Hnoeff)]].
    + exists BPanicEarly, nofence. unfold spec_step. rewrite Hr. cbn [fst snd]. split; [reflexivity|]. split; intros; [rewrite apply_nofence|]; reflexivity.
    + exists (BFail (extract_errno e)), nofence. unfold spec_step. rewrite Hr. cbn [fst snd].
      split; [reflexivity|]. split; intros; [rewrite apply_nofence, Hpf|change (a_neg (apply_fence nofence (post_fail (abs_state s) c m)) c') with (a_neg (post_fail (abs_state s) c m) c'); rewrite Hpfn]; reflexivity.
    + exists (BOk 0 false 0), nofence. unfold spec_step. rewrite Hr, Hci. cbn [fst snd].
      split; [exact Hrc|]. split; intros; [rewrite apply_nofence, Hnoeff|change (a_neg (apply_fence nofence (post_ok (abs_state s) c m 0 false 0)) c') with (a_neg (post_ok (abs_state s) c m 0 false 0) c'); rewrite Hpn]; reflexivity.
  - (* the fid's fidRef was replaced by g *)
    subst ob.
    assert (Hguarded : guarded c m k (mkW s tape []) = (Ok (inr rep), mkW (put_ref r (set_refs g (refsZ s r)) s) tape2 log2)).
    { rewrite (guarded_pass1 s c m k tape r Hk Hn H2 Hrb Hgd). fold s1. unfold with_defer.
      unfold bind at 1. rewrite Eb, Hpost. unfold s1. rewrite (undo_after_put s tape2 log2 r g Hrl Hg). reflexivity. }
    unfold refines_at, st_of, rp_of, step. rewrite Hh. unfold bind at 1 2 3. rewrite Hguarded.
    unfold ret. cbv beta iota. cbn [fst snd w_st].
    exists (BOk 0 false 0), nofence. unfold spec_step. rewrite Hr, Hci. cbn [fst snd].
    split; [exact Hrc|]. split.
    + intros c' f'. rewrite apply_nofence, Hpo. set (s' := put_ref r (set_refs g (refsZ s r)) s).
      cbn [abs_state a_fids bind_fid]. change (st_fids s') with (st_fids s).
      destruct ((c' =? c) && (f' =? fid1_of m)) eqn:Ek.
      * apply andb_true_iff in Ek. destruct Ek as [A B]. apply N.eqb_eq in A, B. subst c' f'.
        unfold connid, fid in *. rewrite Hrb. reflexivity.
      * destruct (tlookup (c', f') (st_fids s)) as [x|] eqn:El; [|reflexivity].
        destruct (N.eqb_spec x r) as [->|Hne].
        -- pose proof (Hinj _ _ _ El Hrb) as Hkk. apply keyb_eq in Hkk. inversion Hkk; subst. rewrite !N.eqb_refl in Ek. discriminate.
        -- unfold s'. rewrite view_put_other by assumption. reflexivity.
    + intros c'. change (a_neg (apply_fence nofence (post_ok (abs_state s) c m 0 false 0)) c') with (a_neg (post_ok (abs_state s) c m 0 false 0) c'). rewrite Hpn. reflexivity.
Qed.

Lemma get_s1 s r : get_ref (set_refs_of s r (refsZ s r + 1)) r = set_refs (get_ref s r) (refsZ s r + 1).
Proof. unfold set_refs_of. apply get_put_ref_same. Qed.

Lemma abs_bound s c f r : tlookup (c, f) (st_fids s) = Some r -> a_fids (abs_state s) c f = Some (view_of s r).
Proof. intros H. cbn. unfold connid, fid in *. now rewrite H. Qed.

Theorem refines_lopen s c f flags tape :
  Ledger s -> tinj s -> spec_reject (abs_state s) c (Tlopen f flags) = None -> refines_at s c (Tlopen f flags) tape.
Proof.
  intros HL Hinj Hr.
  destruct (spec_pass_inv s c (Tlopen f flags) HLopen eq_refl Hr) as (_ & r & Hrb & _). cbn [fid1_of] in Hrb.
  set (n := refsZ s r). set (g := set_opened (set_refs (get_ref s r) (n + 1)) flags).
  apply (refines_update s c (Tlopen f flags) HLopen tape r g HL Hinj eq_refl eq_refl); try (intros; discriminate); try assumption; try (intros; reflexivity); try (intros; cbn [post_ok]; repeat match goal with |- context [match ?x with _ => _ end] => destruct x end; reflexivity).
  intros ob w2 E.
  assert (Hpo : forall c' f', a_fids (post_ok (abs_state s) c (Tlopen f flags) 0 false 0) c' f' =
                a_fids (bind_fid (abs_state s) c f (Some (view_of (put_ref r (set_refs g (refsZ s r)) s) r))) c' f').
  { intros c' f'. cbn [post_ok]. rewrite (abs_bound s c f r Hrb). unfold g. cbn [set_refs set_opened]. rewrite view_put_same. cbn. reflexivity. }
  unfold body, bind, the_ref, gets, backend, ret, ok in E. cbn in E. rewrite get_s1 in E. fold n in E.
  destruct tape as [|[v e|] rest]; cbn in E.
  - inversion E; subst. right. split; [reflexivity|]. eexists; repeat split; auto.
  - destruct (is_err e); inversion E; subst.
    + left. split; [reflexivity|]. right. left. eexists; reflexivity.
    + right. split; [reflexivity|]. eexists; repeat split; auto.
  - inversion E; subst. left. split; [reflexivity|]. left. reflexivity.
Qed.

Theorem refines_xattrcreate s c f name size flags tape :
  Ledger s -> tinj s -> spec_reject (abs_state s) c (Txattrcreate f name size flags) = None ->
  refines_at s c (Txattrcreate f name size flags) tape.
Proof.
  intros HL Hinj Hr.
  destruct (spec_pass_inv s c (Txattrcreate f name size flags) HXattrcreate eq_refl Hr) as (_ & r & Hrb & _). cbn [fid1_of] in Hrb.
  set (n := refsZ s r). set (g := set_xattr (set_refs (get_ref s r) (n + 1)) p9_xattrCreate name size flags 0).
  apply (refines_update s c (Txattrcreate f name size flags) HXattrcreate tape r g HL Hinj eq_refl eq_refl); try (intros; discriminate); try assumption; try (intros; reflexivity); try (intros; cbn [post_ok]; repeat match goal with |- context [match ?x with _ => _ end] => destruct x end; reflexivity).
  intros ob w2 E.
  assert (Hpo : forall c' f', a_fids (post_ok (abs_state s) c (Txattrcreate f name size flags) 0 false 0) c' f' =
                a_fids (bind_fid (abs_state s) c f (Some (view_of (put_ref r (set_refs g (refsZ s r)) s) r))) c' f').
  { intros c' f'. cbn [post_ok]. rewrite (abs_bound s c f r Hrb). unfold g. cbn [set_refs set_xattr]. rewrite view_put_same. cbn. reflexivity. }
  unfold body, bind, the_ref, gets, modify, ret, ok in E. cbn in E. rewrite get_s1 in E. fold n in E.
  inversion E; subst. right. split; [reflexivity|]. eexists; repeat split; auto.
Qed.

Theorem refines_write s c f off len tape :
  Ledger s -> tinj s -> spec_reject (abs_state s) c (Twrite f off len) = None -> refines_at s c (Twrite f off len) tape.
Proof.
  intros HL Hinj Hr.
  destruct (spec_pass_inv s c (Twrite f off len) HWrite eq_refl Hr) as (_ & r & Hrb & _). cbn [fid1_of] in Hrb.
  set (n := refsZ s r). set (fr := get_ref s r).
  set (g := set_xattr (set_refs fr (n + 1)) (fr_xop fr) (fr_xname fr) (fr_xsize fr) (fr_xflags fr) (fr_xlen fr + len)).
  apply (refines_update s c (Twrite f off len) HWrite tape r g HL Hinj eq_refl eq_refl); try (intros; discriminate); try assumption; try (intros; reflexivity); try (intros; cbn [post_ok]; repeat match goal with |- context [match ?x with _ => _ end] => destruct x end; reflexivity).
  intros ob w2 E.
  unfold body, bind, the_ref, gets, backend, modify, ret, ok in E. cbn in E. rewrite get_s1 in E. fold n fr in E.
  cbn [fr_xop set_refs fr_file fr_xname fr_xsize fr_xflags fr_xlen] in E.
  destruct (fr_xop fr =? p9_xattrNone) eqn:Ex.
  - assert (Hnoeff : forall c' f', a_fids (post_ok (abs_state s) c (Twrite f off len) 0 false 0) c' f' = a_fids (abs_state s) c' f').
    { intros c' f'. cbn [post_ok]. rewrite (abs_bound s c f r Hrb). cbn [view_of v_xop]. fold fr. rewrite Ex. reflexivity. }
    destruct tape as [|[v e|] rest]; cbn in E.
    + inversion E; subst. left. split; [reflexivity|]. right. right. eexists; repeat split; auto.
    + destruct (is_err e); inversion E; subst; left; (split; [reflexivity|]); right; [left|right]; eexists; repeat split; auto.
    + inversion E; subst. left. split; [reflexivity|]. left. reflexivity.
  - inversion E; subst. right. split; [reflexivity|]. eexists; repeat split; auto.
    intros c' f'. cbn [post_ok]. rewrite (abs_bound s c f r Hrb). cbn [fid1_of view_of v_xop]. fold fr. rewrite Ex.
    unfold g. cbn [set_refs set_xattr]. rewrite view_put_same. cbn. reflexivity.
Qed.

(** ---- Tlink: two fids looked up, one call, no effect ---- *)
Theorem refines_link s c d target name tape :
  Ledger s -> spec_reject (abs_state s) c (Tlink d target name) = None -> refines_at s c (Tlink d target name) tape.
Proof.
  intros HL Hr.
  destruct (spec_pass_inv s c (Tlink d target name) HLink eq_refl Hr) as (Hn & r & Hrb & t & Ht & Hg). cbn [fid2_of] in Ht. cbn [fid1_of] in Hrb.
  pose proof (ledger_bound_pos s _ r HL Hrb) as Hrl.
  set (s1 := set_refs_of s r (refsZ s r + 1)).
  assert (Ht1 : tlookup (c, target) (st_fids s1) = Some t) by exact Ht.
  assert (Htl1 : (1 <= refsZ s1 t)%Z).
  { pose proof (ledger_bound_pos s _ t HL Ht). pose proof (refsZ_set_refs_ge s r t). fold s1 in H0. lia. }
  set (s2 := set_refs_of s1 t (refsZ s1 t + 1)).
  destruct (body c (Tlink d target name) r t (mkW s2 tape [])) as [ob w2] eqn:Eb.
  assert (Hsame : samest (body c (Tlink d target name) r t)) by (unfold body, the_ref, fail; ss).
  pose proof (Hsame _ _ _ Eb) as Hs2. cbn [w_st] in Hs2. destruct w2 as [s2' tape2 log2]. cbn [w_st] in Hs2. subst s2'.
  assert (Hguarded : guarded c (Tlink d target name) HLink (mkW s tape []) = (ob, mkW s tape2 log2)).
  { rewrite guarded_eq, Hn. cbn [negb fid1_of fid2_of]. unfold bind at 1. rewrite (lookup_run s tape [] c d r Hrb).
    fold s1. unfold s1. apply defer_undo'; [exact Hrl|]. fold s1.
    unfold bind at 1. rewrite (lookup_run s1 tape [] c target t Ht1). fold s2. unfold s2. apply defer_undo'; [exact Htl1|]. fold s2.
    unfold inner_of, bind at 1, gets. cbn [w_st]. unfold bind at 1. cbn [w_st]. unfold bind at 1. cbn [w_st].
    unfold s2, s1. rewrite !view_set_refs, !msize_set_refs. fold s1. fold s2. rewrite Hg.
    unfold bind at 1. rewrite Eb. destruct ob as [x|]; reflexivity. }
  assert (Hok : forall rep w', body c (Tlink d target name) r t (mkW s2 tape []) = (Ok (inr rep), w') -> rclass rep = None).
  { intros rep w' E. unfold body, bind, the_ref, gets, backend, ret, ok in E. cbn in E. brute E; inversion E; reflexivity. }
  unfold refines_at, st_of, rp_of, step. change (handler c (Tlink d target name)) with (x <- guarded c (Tlink d target name) HLink ;; ret (match x with inl e => RErr (extract_errno e) | inr r0 => r0 end))%m.
  unfold bind at 1 2 3. rewrite Hguarded.
  destruct ob as [[e|rep]|].
  - exists (BFail (extract_errno e)), nofence. unfold spec_step. rewrite Hr. cbn [fst snd].
    split; [reflexivity|]. split; intros; [rewrite apply_nofence|]; reflexivity.
  - exists (BOk 0 false 0), nofence. unfold spec_step. rewrite Hr. cbn [fst snd].
    split; [exact (Hok rep _ Eb)|]. split; intros; [rewrite apply_nofence|]; reflexivity.
  - exists BPanicEarly, nofence. unfold spec_step. rewrite Hr. cbn [fst snd]. split; [reflexivity|]. split; intros; [rewrite apply_nofence|]; reflexivity.
Qed.

(** ---- Tversion, Tflush ---- *)
Theorem refines_version s c msize ver tape : refines_at s c (Tversion msize ver) tape.
Proof.
  unfold refines_at, st_of, rp_of, step, handler, h_version.
  destruct (tversion_handle msize ver) as [[mm v] st] eqn:Ev.
  exists (BOk 0 false 0), nofence. unfold spec_step. cbn [spec_reject clunk_incomplete fst snd post_ok]. rewrite Ev. cbn [snd].
  destruct st as [[ms vv]|]; unfold bind, modify, ret; cbn [fst snd w_st rclass].
  - split; [reflexivity|]. split; intros.
    + rewrite apply_nofence. reflexivity.
    + cbn. destruct (N.eqb_spec c' c) as [->|Hne]; [apply alookup_aset_same|apply alookup_aset_other; assumption].
  - split; [reflexivity|]. split; intros; [rewrite apply_nofence|]; reflexivity.
Qed.
Theorem refines_flush s c tag tape : refines_at s c (Tflush tag) tape.
Proof.
  exists (BOk 0 false 0), nofence. unfold spec_step. cbn. split; [reflexivity|]. split; intros; [destruct (tlookup _ _)|]; reflexivity.
Qed.

(** ---- the handlers covered so far, refused or not ---- *)
Definition covered (m : tmsg) : bool :=
  classA m || match m with
              | Tlopen _ _ | Txattrcreate _ _ _ _ | Twrite _ _ _ | Tlink _ _ _ | Tversion _ _ | Tflush _ | Tauth _ _ _ _ | Tother _ => true
              | _ => false
              end.

Theorem refines_covered s c m tape : Ledger s -> tinj s -> covered m = true -> refines_at s c m tape.
Proof.
  intros HL Hinj Hc.
  destruct (spec_reject (abs_state s) c m) as [e|] eqn:Hr.
  - (* refused: exact no-op *)
    assert (Hrm : forall f, m = Tremove f -> tlookup (c, f) (st_fids s) = None) by (intros f Em; subst m; unfold covered in Hc; cbn in Hc; discriminate Hc).
    destruct (refines_refusals_spec s c m tape e BPanicEarly nofence HL Hr Hrm) as [A B].
    exists BPanicEarly, nofence. split; [exact A|]. split; [exact B|].
    intros c'. unfold st_of. rewrite (refines_refusals s c m tape e HL Hr Hrm). cbn [fst].
    unfold spec_step. rewrite Hr. destruct m; cbn in Hc; try discriminate; reflexivity.
  - destruct (classA m) eqn:HA; [apply refines_classA; assumption|].
    destruct m; cbn in HA, Hc; try discriminate.
    + apply refines_version.
    + apply refines_flush.
    + apply refines_lopen; assumption.
    + apply refines_link; assumption.
    + apply refines_write; assumption.
    + apply refines_xattrcreate; assumption.
Qed.
