(** C16: the ordering discipline excludes deadlock (any number of threads, all interleavings),
    with "blocked" understood with Go's writer preference.  DESIGN Appendix B2. *)
From Coq Require Import List Bool Arith Lia.
From P9V Require Import Locks.Locks Locks.LockProofs.
Import ListNotations.

Section Order.
  Variable lock : Type.
  Variable lock_eqb : lock -> lock -> bool.
  Hypothesis lock_eqb_spec : forall a b, lock_eqb a b = true <-> a = b.
  Variable call : Type.
  Variable call_eqb : call -> call -> bool.
  Variable rank : lock -> nat * nat.
  Variable gate : lock.
  Variable childish : lock -> bool.

  Notation thread := (thread lock call).
  Notation state := (state lock call).
  Notation holds := (holds lock call).
  Notation step := (step lock lock_eqb call call_eqb).
  Notation reachable := (reachable lock lock_eqb call call_eqb).
  Notation oplan := (oplan lock lock_eqb call rank gate childish).
  Notation acq_ok := (acq_ok lock lock_eqb rank gate childish).
  Notation has_gateW := (has_gateW lock lock_eqb gate).
  Notation blocked := (blocked lock call).

  Lemma has_gateW_true : forall h, has_gateW h = true -> In (gate, true) h.
  Proof.
    unfold Locks.has_gateW. intros h H. apply existsb_exists in H. destruct H as [[l w] [Hin Hb]]. cbn in Hb.
    apply andb_true_iff in Hb. destruct Hb as [A B]. apply lock_eqb_spec in A. subst. auto.
  Qed.

  Lemma has_gateW_false : forall h, has_gateW h = false -> ~ In (gate, true) h.
  Proof.
    intros h H Hin. assert (E : has_gateW h = true).
    { apply existsb_exists. exists (gate, true). split; auto. cbn. rewrite (proj2 (lock_eqb_spec gate gate) eq_refl). auto. }
    congruence.
  Qed.

  Lemma rlt_irrefl : forall a, ~ rlt a a.
  Proof. intros [a b]; unfold rlt; cbn; lia. Qed.
  Lemma rlt_trans : forall a b c, rlt a b -> rlt b c -> rlt a c.
  Proof. intros [a1 a2] [b1 b2] [c1 c2]; unfold rlt; cbn; lia. Qed.
  Lemma rlt_dec : forall a b, {rlt a b} + {~ rlt a b}.
  Proof.
    intros [a1 a2] [b1 b2]. unfold rlt; cbn.
    destruct (lt_dec a1 b1); [left; lia|]. destruct (Nat.eq_dec a1 b1); [|right; lia].
    destruct (lt_dec a2 b2); [left; lia|right; lia].
  Qed.

  Lemma oplan_step : forall s k t t', oplan (held t) (rest t) -> tstep lock lock_eqb call call_eqb s k t t' -> oplan (held t') (rest t').
  Proof. intros s k t t' H Hs. inversion Hs; subst; cbn in *; tauto. Qed.

  Definition isacq (t : thread) : bool := match rest t with Acq _ _ :: _ => true | _ => false end.
  Definition reqrank (t : thread) : nat * nat := match rest t with Acq l _ :: _ => rank l | _ => (0, 0) end.

  Lemma existsb_nth : forall (f : thread -> bool) (s : state),
    existsb f s = true <-> exists i t, nth_error s i = Some t /\ f t = true.
  Proof.
    intros f s. rewrite existsb_exists. split.
    - intros [t [Hin Hf]]. apply In_nth_error in Hin. destruct Hin as [i Hi]. eauto.
    - intros [i [t [Hi Hf]]]. exists t. split; auto. eapply nth_error_In; eauto.
  Qed.

  Lemma max_exists : forall (s : state), (exists i t, nth_error s i = Some t /\ isacq t = true) ->
    exists i t, nth_error s i = Some t /\ isacq t = true /\
      forall j tj, nth_error s j = Some tj -> isacq tj = true -> ~ rlt (reqrank t) (reqrank tj).
  Proof.
    induction s as [|x s IH]; intros [i [t [Hi Ht]]].
    - destruct i; discriminate.
    - destruct (existsb isacq s) eqn:E.
      + apply existsb_nth in E. destruct (IH E) as [m [tm [Hm [Am Mm]]]].
        destruct (isacq x) eqn:Ex.
        * destruct (rlt_dec (reqrank tm) (reqrank x)) as [L|NL].
          -- exists 0, x. split; [reflexivity|]. split; auto. intros [|j] tj Hj Aj.
             ++ cbn in Hj. inversion Hj; subst. apply rlt_irrefl.
             ++ cbn in Hj. intro L2. apply (Mm j tj Hj Aj). eapply rlt_trans; eauto.
          -- exists (S m), tm. split; auto. split; auto. intros [|j] tj Hj Aj.
             ++ cbn in Hj. inversion Hj; subst. auto.
             ++ cbn in Hj. eauto.
        * exists (S m), tm. split; auto. split; auto. intros [|j] tj Hj Aj.
          -- cbn in Hj. inversion Hj; subst. congruence.
          -- cbn in Hj. eauto.
      + assert (N : forall j tj, nth_error s j = Some tj -> isacq tj = true -> False).
        { intros j tj Hj Aj. assert (existsb isacq s = true) by (apply existsb_nth; eauto). congruence. }
        destruct i as [|i]; [|exfalso; eapply N; eauto].
        cbn in Hi. inversion Hi; subst. exists 0, t. split; auto. split; auto.
        intros [|j] tj Hj Aj.
        * cbn in Hj. inversion Hj; subst. apply rlt_irrefl.
        * exfalso; eapply N; eauto.
  Qed.

  Section Stuck.
    Variable plans : list (list (act lock call)).
    Hypothesis plans_ok : forall p, In p plans -> oplan [] p.
    Variable s : state.
    Hypothesis Hr : reachable plans s.
    Hypothesis Hall : forall i t, nth_error s i = Some t -> rest t <> [] -> blocked s i.

    Let OI : forall i t, nth_error s i = Some t -> oplan (held t) (rest t).
    Proof. exact (thread_inv lock lock_eqb call call_eqb (fun t => oplan (held t) (rest t)) oplan_step plans plans_ok s Hr). Qed.

    Let EX := excl_reachable lock lock_eqb call call_eqb plans s Hr.

    (** an unfinished thread is blocked on a request that satisfies the discipline *)
    Lemma stuck_request : forall i t, nth_error s i = Some t -> rest t <> [] ->
      exists l w r, rest t = Acq l w :: r /\ acq_ok (held t) l /\
        ( (exists j w', j <> i /\ holds s j l w' /\ (w = true \/ w' = true))
          \/ (w = false /\ exists j tj rj, j <> i /\ nth_error s j = Some tj /\ rest tj = Acq l true :: rj)
          \/ In l (map fst (held t)) ).
    Proof.
      intros i t Hi Hu. destruct (Hall i t Hi Hu) as [t0 [l [w [r [Hi0 [Hrest Hb]]]]]].
      rewrite Hi in Hi0. inversion Hi0; subst t0. exists l, w, r. split; auto. split; auto.
      pose proof (OI i t Hi) as O. rewrite Hrest in O. cbn in O. tauto.
    Qed.

    Lemma holder_unfinished : forall i t x, nth_error s i = Some t -> In x (held t) -> rest t <> [].
    Proof.
      intros i t x Hi Hin E. pose proof (OI i t Hi) as O. rewrite E in O. cbn in O. rewrite O in Hin. destruct Hin.
    Qed.

    (** Case A helper: while some thread [g] holds the gate for writing, nobody else holds a childMu *)
    Lemma no_child_holder : forall g tg, nth_error s g = Some tg -> In (gate, true) (held tg) ->
      forall k l w, k <> g -> holds s k l w -> childish l = true -> False.
    Proof.
      intros g tg Hg Hgate k l w Hkg [tk [Hk Hin]] Hc.
      pose proof (holder_unfinished k tk _ Hk Hin) as Hu.
      destruct (stuck_request k tk Hk Hu) as [l2 [w2 [r2 [_ [[_ [_ A3]] _]]]]].
      destruct (A3 l w Hin Hc) as [wg Hwg].
      destruct (EX g k gate true wg) as [X _]; [auto|exists tg; auto|exists tk; auto|discriminate].
    Qed.

    Theorem stuck_impossible : (exists i t, nth_error s i = Some t /\ rest t <> []) -> False.
    Proof.
      intros [i0 [t0 [Hi0 Hu0]]].
      destruct (existsb (fun t => has_gateW (held t)) s) eqn:EG.
      - (* Case A: some thread g holds the gate for writing *)
        apply existsb_nth in EG. destruct EG as [g [tg [Hg HG]]]. apply has_gateW_true in HG.
        pose proof (holder_unfinished g tg _ Hg HG) as Hug.
        destruct (stuck_request g tg Hg Hug) as [l [w [r [Hrest [[Hnot [Hcls _]] Hb]]]]].
        assert (Hch : childish l = true).
        { destruct (has_gateW (held tg)) eqn:E; auto. exfalso. eapply has_gateW_false; eauto. }
        destruct Hb as [[j [w' [Hjg [Hh _]]]]|[[_ [j [tj [rj [Hjg [Hj Hrj]]]]]]|Hself]].
        + exact (no_child_holder g tg Hg HG j l w' Hjg Hh Hch).
        + assert (Huj : rest tj <> []) by (rewrite Hrj; discriminate).
          destruct (stuck_request j tj Hj Huj) as [l2 [w2 [r2 [Hrest2 [[Hnot2 _] Hb2]]]]].
          rewrite Hrj in Hrest2. inversion Hrest2; subst l2 w2 r2.
          destruct Hb2 as [[k [w'' [Hkj [Hh _]]]]|[[F _]|Hself2]]; [|discriminate|contradiction].
          destruct (Nat.eq_dec k g) as [->|Hkg].
          * destruct Hh as [tk [Hk Hin]]. rewrite Hg in Hk. inversion Hk; subst tk.
            apply Hnot. apply in_map_iff. exists (l, w''). auto.
          * exact (no_child_holder g tg Hg HG k l w'' Hkg Hh Hch).
        + contradiction.
      - (* Case B: nobody holds the gate for writing: every request is rank increasing *)
        assert (NG : forall i t, nth_error s i = Some t -> has_gateW (held t) = false).
        { intros i t Hi. destruct (has_gateW (held t)) eqn:E; auto.
          assert (existsb (fun t => has_gateW (held t)) s = true) by (apply existsb_nth; eauto). congruence. }
        (* a holder of l is blocked on a request of strictly higher rank *)
        assert (UP : forall k l w, holds s k l w -> exists tk, nth_error s k = Some tk /\ isacq tk = true /\ rlt (rank l) (reqrank tk)).
        { intros k l w [tk [Hk Hin]]. exists tk. split; auto.
          pose proof (holder_unfinished k tk _ Hk Hin) as Hu.
          destruct (stuck_request k tk Hk Hu) as [l2 [w2 [r2 [Hrest [[_ [Hcls _]] _]]]]].
          rewrite (NG k tk Hk) in Hcls. unfold isacq, reqrank. rewrite Hrest. split; auto. eapply Hcls; eauto. }
        assert (E0 : exists i t, nth_error s i = Some t /\ isacq t = true).
        { destruct (stuck_request i0 t0 Hi0 Hu0) as [l [w [r [Hrest _]]]]. exists i0, t0. split; auto. unfold isacq. rewrite Hrest. auto. }
        destruct (max_exists s E0) as [m [tm [Hm [Am Mx]]]].
        assert (Hum : rest tm <> []) by (unfold isacq in Am; destruct (rest tm); discriminate).
        destruct (stuck_request m tm Hm Hum) as [l [w [r [Hrest [[Hnot _] Hb]]]]].
        assert (Rm : reqrank tm = rank l) by (unfold reqrank; rewrite Hrest; auto).
        destruct Hb as [[j [w' [Hjm [Hh _]]]]|[[_ [j [tj [rj [Hjm [Hj Hrj]]]]]]|Hself]].
        + destruct (UP j l w' Hh) as [tj [Hj [Aj Lj]]]. apply (Mx j tj Hj Aj). rewrite Rm. auto.
        + assert (Huj : rest tj <> []) by (rewrite Hrj; discriminate).
          destruct (stuck_request j tj Hj Huj) as [l2 [w2 [r2 [Hrest2 [[Hnot2 _] Hb2]]]]].
          rewrite Hrj in Hrest2. inversion Hrest2; subst l2 w2 r2.
          destruct Hb2 as [[k [w'' [Hkj [Hh _]]]]|[[F _]|Hself2]]; [|discriminate|contradiction].
          destruct (UP k l w'' Hh) as [tk [Hk [Ak Lk]]]. apply (Mx k tk Hk Ak). rewrite Rm. auto.
        + contradiction.
    Qed.
  End Stuck.

  (** C16_order_no_deadlock: no reachable state has every unfinished thread blocked. *)
  Theorem no_deadlock : forall plans, (forall p, In p plans -> oplan [] p) ->
    forall s, reachable plans s ->
    (exists i t, nth_error s i = Some t /\ rest t <> []) ->
    ~ (forall i t, nth_error s i = Some t -> rest t <> [] -> blocked s i).
  Proof. intros plans Hp s Hr Hex Hall. eapply stuck_impossible; eauto. Qed.

  (** a thread that is not (strictly) blocked can take a step *)
  Theorem not_blocked_enabled : forall (s : state) i t, nth_error s i = Some t -> rest t <> [] -> ~ blocked s i ->
    exists s', step s s'.
  Proof.
    intros s i [h ins p] Hi Hu Hnb. cbn in Hu. destruct p as [|a p]; [congruence|].
    destruct a as [l w|l|c|c|].
    - exists (upd lock call s i (mkT ((l, w) :: h) ins p)). econstructor; eauto. constructor.
      intros j w' Hji Hh.
      assert (B : w = true \/ w' = true -> False).
      { intro Hw. apply Hnb. exists (mkT h ins (Acq l w :: p)), l, w, p. split; [exact Hi|]. split; [reflexivity|].
        left. exists j, w'. auto. }
      destruct w, w'; auto; exfalso; apply B; auto.
    - eexists. econstructor; eauto. constructor.
    - eexists. econstructor; eauto. constructor.
    - eexists. econstructor; eauto. constructor.
    - eexists. econstructor; eauto. constructor.
  Qed.
End Order.
