(** C16_isolation: clients on disjoint fids and disjoint subtrees observe what they would
    observe alone.  A generic frame theorem over a keyed state (all interleavings, all
    histories), instantiated with a path-addressed file system whose operations stay
    inside the client's own subtree (no rename across the two subtrees: `_partial`). *)
From Coq Require Import List Bool String Arith.
Import ListNotations.

Section Frame.
  Variable key val reply op : Type.
  Definition kstate := key -> val.
  Variable run : op -> kstate -> kstate * reply.
  Variable foot : op -> key -> bool.           (* footprint of an operation *)

  (** an operation is local to its footprint: its reply and its effect on the footprint depend
      on the footprint only, and it changes nothing else *)
  Definition local (o : op) : Prop :=
    (forall s s', (forall k, foot o k = true -> s k = s' k) ->
        snd (run o s) = snd (run o s') /\ forall k, foot o k = true -> fst (run o s) k = fst (run o s') k) /\
    (forall s k, foot o k = false -> fst (run o s) k = s k).

  Variable region : bool -> key -> Prop.       (* the two clients' parts of the state *)
  Hypothesis disjoint : forall k, region true k -> region false k -> False.

  Definition wf (c : bool) (o : op) : Prop := local o /\ forall k, foot o k = true -> region c k.

  Fixpoint run_all (s : kstate) (h : list (bool * op)) : list (bool * reply) :=
    match h with
    | [] => []
    | (c, o) :: r => (c, snd (run o s)) :: run_all (fst (run o s)) r
    end.

  Definition only {A} (c : bool) (h : list (bool * A)) : list (bool * A) := filter (fun x => Bool.eqb (fst x) c) h.

  Lemma step_own : forall c o s s', wf c o -> (forall k, region c k -> s k = s' k) ->
    snd (run o s) = snd (run o s') /\ forall k, region c k -> fst (run o s) k = fst (run o s') k.
  Proof.
    intros c o s s' [[L1 L2] F] A. destruct (L1 s s') as [R E]; [intros k Hk; apply A; auto|].
    split; auto. intros k Hk. destruct (foot o k) eqn:Fk.
    - apply E; auto.
    - rewrite (L2 s k Fk), (L2 s' k Fk). apply A; auto.
  Qed.

  Lemma step_other : forall c o s, wf (negb c) o -> forall k, region c k -> fst (run o s) k = s k.
  Proof.
    intros c o s [[L1 L2] F] k Hk. destruct (foot o k) eqn:Fk; [|apply L2; auto].
    exfalso. specialize (F k Fk). destruct c; cbn in F; eauto.
  Qed.

  Lemma isolation_gen : forall c h s s', (forall d o, In (d, o) h -> wf d o) ->
    (forall k, region c k -> s k = s' k) ->
    only c (run_all s h) = run_all s' (only c h).
  Proof.
    intros c h. induction h as [|[d o] h IH]; intros s s' W A; cbn; auto.
    assert (Wo : wf d o) by (apply W; left; auto).
    assert (W' : forall d o, In (d, o) h -> wf d o) by (intros; apply W; right; auto).
    destruct (Bool.eqb d c) eqn:E.
    - apply Bool.eqb_prop in E. subst d. destruct (step_own c o s s' Wo A) as [R A'].
      cbn. rewrite R. f_equal. apply IH; auto.
    - apply IH; auto. intros k Hk. rewrite <- (A k Hk). apply step_other with (c := c); auto.
      destruct d, c; cbn in *; auto; discriminate.
  Qed.

  (** for every interleaving [h] of the two clients' requests: client [c]'s replies are the
      replies it gets when its requests run alone from the same state *)
  Theorem isolation : forall c h s, (forall d o, In (d, o) h -> wf d o) ->
    only c (run_all s h) = run_all s (only c h).
  Proof. intros c h s W. apply isolation_gen; auto. Qed.
End Frame.

(** ** instance: a path-addressed store; each client works under its own top-level directory.
    (Operations name the path they act on; fids are per connection and therefore disjoint by
    construction, they are not modelled here.  Rename across the two subtrees is excluded.) *)
Inductive fval := VNone | VFile (data : list nat).
Inductive freply := ROk | RErr | RData (d : list nat).
Inductive fop :=
| OCreate (p : list string) | OWrite (p : list string) (d : list nat) | ORead (p : list string)
| OUnlink (p : list string) | ORename (p q : list string).

Definition path_eqb (a b : list string) : bool := if list_eq_dec string_dec a b then true else false.
Lemma path_eqb_eq : forall a b, path_eqb a b = true <-> a = b.
Proof. intros a b. unfold path_eqb. destruct (list_eq_dec string_dec a b); split; auto; discriminate. Qed.

Definition fstate := kstate (list string) fval.
Definition put (s : fstate) (k : list string) (v : fval) : fstate := fun k' => if path_eqb k' k then v else s k'.

Definition frun (o : fop) (s : fstate) : fstate * freply :=
  match o with
  | OCreate p => match s p with VNone => (put s p (VFile []), ROk) | _ => (s, RErr) end
  | OWrite p d => match s p with VFile _ => (put s p (VFile d), ROk) | _ => (s, RErr) end
  | ORead p => match s p with VFile d => (s, RData d) | _ => (s, RErr) end
  | OUnlink p => match s p with VFile _ => (put s p VNone, ROk) | _ => (s, RErr) end
  | ORename p q => match s p, s q with
                   | VFile d, VNone => (put (put s p VNone) q (VFile d), ROk)
                   | _, _ => (s, RErr) end
  end.

Definition ffoot (o : fop) (k : list string) : bool :=
  match o with
  | OCreate p | OWrite p _ | ORead p | OUnlink p => path_eqb k p
  | ORename p q => path_eqb k p || path_eqb k q
  end.

Lemma put_same : forall s k v, put s k v k = v.
Proof. intros. unfold put. rewrite (proj2 (path_eqb_eq k k) eq_refl). reflexivity. Qed.
Lemma put_other : forall s k v k', path_eqb k' k = false -> put s k v k' = s k'.
Proof. intros. unfold put. rewrite H. reflexivity. Qed.

Lemma flocal : forall o, local _ _ _ _ frun ffoot o.
Proof.
  intros o. split.
  - intros s s' A. destruct o as [p|p d|p|p|p q]; cbn in *.
    + rewrite <- (A p (proj2 (path_eqb_eq p p) eq_refl)). destruct (s p); cbn; split; auto.
      intros k Hk. apply path_eqb_eq in Hk. subst. rewrite !put_same. auto.
    + rewrite <- (A p (proj2 (path_eqb_eq p p) eq_refl)). destruct (s p); cbn; split; auto.
      intros k Hk. apply path_eqb_eq in Hk. subst. rewrite !put_same. auto.
    + rewrite <- (A p (proj2 (path_eqb_eq p p) eq_refl)). destruct (s p); cbn; split; auto.
    + rewrite <- (A p (proj2 (path_eqb_eq p p) eq_refl)). destruct (s p); cbn; split; auto.
      intros k Hk. apply path_eqb_eq in Hk. subst. rewrite !put_same. auto.
    + assert (Ap : s p = s' p) by (apply A; rewrite (proj2 (path_eqb_eq p p) eq_refl); auto).
      assert (Aq : s q = s' q) by (apply A; rewrite (proj2 (path_eqb_eq q q) eq_refl); apply orb_true_r).
      rewrite <- Ap, <- Aq. destruct (s p); cbn; [split; auto|]. destruct (s q); cbn; split; auto.
      intros k Hk. unfold put. destruct (path_eqb k q); auto. destruct (path_eqb k p); auto. discriminate.
  - intros s k Hk. destruct o as [p|p d|p|p|p q]; cbn in *.
    + destruct (s p); cbn; auto. apply put_other; auto.
    + destruct (s p); cbn; auto. apply put_other; auto.
    + destruct (s p); cbn; auto.
    + destruct (s p); cbn; auto. apply put_other; auto.
    + apply orb_false_iff in Hk. destruct Hk as [Hp Hq]. destruct (s p); cbn; auto. destruct (s q); cbn; auto.
      rewrite put_other by auto. apply put_other; auto.
Qed.

(** client [true] works under /a, client [false] under /b *)
Definition top (c : bool) : string := if c then "a"%string else "b"%string.
Definition fregion (c : bool) (k : list string) : Prop := exists r, k = top c :: r.
Definition under (c : bool) (o : fop) : Prop :=
  match o with
  | OCreate p | OWrite p _ | ORead p | OUnlink p => fregion c p
  | ORename p q => fregion c p /\ fregion c q          (* both ends in the client's own subtree *)
  end.

Lemma fdisjoint : forall k, fregion true k -> fregion false k -> False.
Proof. intros k [r1 E1] [r2 E2]. rewrite E1 in E2. inversion E2. Qed.

Lemma fwf : forall c o, under c o -> wf _ _ _ _ frun ffoot fregion c o.
Proof.
  intros c o U. split; [apply flocal|]. intros k Hk.
  destruct o as [p|p d|p|p|p q]; cbn in *; try (apply path_eqb_eq in Hk; subst; auto).
  apply orb_true_iff in Hk. destruct U as [U1 U2]. destruct Hk as [Hk|Hk]; apply path_eqb_eq in Hk; subst; auto.
Qed.

Theorem fs_isolation : forall c h s, (forall d o, In (d, o) h -> under d o) ->
  only c (run_all _ _ _ _ frun s h) = run_all _ _ _ _ frun s (only c h).
Proof.
  intros c h s U. apply (isolation _ _ _ _ frun ffoot fregion fdisjoint). intros d o Hin. apply fwf. auto.
Qed.

(** without the side condition the statement is false: a rename out of the other client's subtree is observed *)
Example cross_rename_observed :
  let s0 : fstate := fun k => if path_eqb k ["b"; "x"]%string then VFile [7] else VNone in
  let h := [(false, ORename ["b"; "x"] ["a"; "x"]); (true, ORead ["a"; "x"])]%string in
  only true (run_all _ _ _ _ frun s0 h) <> run_all _ _ _ _ frun s0 (only true h).
Proof. vm_compute. discriminate. Qed.
