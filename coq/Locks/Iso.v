(** C16_isolation: clients on disjoint fids and disjoint subtrees observe what they would
    observe alone.  A generic frame theorem over a keyed state (all interleavings, all
    histories), instantiated with a path-addressed file system whose operations stay
    inside the client's own subtree (no rename across the two subtrees: `_partial`). *)
From Coq Require Import List Bool String Arith.
Import ListNotations.

Section Frame.
  Variable key val reply op : Type.
  Definition kstate := key -> val.
  Variable run : op -> kstate -> kstate * reply.
  Variable foot : op -> key -> bool.           (* footprint of an operation *)

  (** an operation is local to its footprint: its reply and its effect on the footprint depend
      on the footprint only, and it changes nothing else *)
  Definition local (o : op) : Prop :=
    (forall s s', (forall k, foot o k = true -> s k = s' k) ->
        snd (run o s) = snd (run o s') /\ forall k, foot o k = true -> fst (run o s) k = fst (run o s') k) /\
    (forall s k, foot o k = false -> fst (run o s) k = s k).

  Variable region : bool -> key -> Prop.       (* the two clients' parts of the state *)
  Hypothesis disjoint : forall k, region true k -> region false k -> False.

  Definition wf (c : bool) (o : op) : Prop := local o /\ forall k, foot o k = true -> region c k.

  Fixpoint run_all (s : kstate) (h : list (bool * op)) : list (bool * reply) :=
    match h with
    | [] => []
    | (c, o) :: r => (c, snd (run o s)) :: run_all (fst (run o s)) r
    end.

  Definition only {A} (c : bool) (h : list (bool * A)) : list (bool * A) := filter (fun x => Bool.eqb (fst x) c) h.

  Lemma step_own : forall c o s s', wf c o -> (forall k, region c k -> s k = s' k) ->
    snd (run o s) = snd (run o s') /\ forall k, region c k -> fst (run o s) k = fst (run o s') k.
  Proof.
    intros c o s s' [[L1 L2] F] A. destruct (L1 s s') as [R E]; [intros k Hk; apply A; auto|].
    split; auto. intros k Hk. destruct (foot o k) eqn:Fk.
    - apply E; auto.
    - rewrite (L2 s k Fk), (L2 s' k Fk). apply A; auto.
  Qed.

  Lemma step_other : forall c o s, wf (negb c) o -> forall k, region c k -> fst (run o s) k = s k.
  Proof.
    intros c o s [[L1 L2] F] k Hk. destruct (foot o k) eqn:Fk; [|apply L2; auto].
    exfalso. specialize (F k Fk). destruct c; cbn in F; eauto.
  Qed.

  Lemma isolation_gen : forall c h s s', (forall d o, In (d, o) h -> wf d o) ->
    (forall k, region c k -> s k = s' k) ->
    only c (run_all s h) = run_all s' (only c h).
  Proof.
    intros c h. induction h as [|[d o] h IH]; intros s s' W A; cbn; auto.
    assert (Wo : wf d o) by (apply W; left; auto).
    assert (W' : forall d o, In (d, o) h -> wf d o) by (intros; apply W; right; auto).
    destruct (Bool.eqb d c) eqn:E.
    - apply Bool.eqb_prop in E. subst d. destruct (step_own c o s s' Wo A) as [R A'].
      cbn. rewrite R. f_equal. apply IH; auto.
    - apply IH; auto. intros k Hk. rewrite <- (A k Hk). apply step_other with (c := c); auto.
      destruct d, c; cbn in *; auto; discriminate.
  Qed.

  (** for every interleaving [h] of the two clients' requests: client [c]'s replies are the
      replies it gets when its requests run alone from the same state *)
  Theorem isolation : forall c h s, (forall d o, In (d, o) h -> wf d o) ->
    only c (run_all s h) = run_all s (only c h).
  Proof. intros c h s W. apply isolation_gen; auto. Qed.
End Frame.

(** ** instance: a path-addressed store; each client works under its own top-level directory.

    What "disjoint" has to mean for the theorem: every key an operation reads or writes (its
    footprint) lies in the issuing client's region, and the two regions do not intersect.  For
    this store: every path an operation names — BOTH ends of a rename, and for a directory
    rename everything below both ends — is under the client's own top-level directory.  Renames
    between different directories of one client's subtree are covered (files and whole
    directories).  A rename with one end in the other client's subtree has a footprint in both
    regions: the clients then do not work on disjoint subtrees, which is what the property text
    assumes ("disjoint fids and disjoint subtrees"); [cross_rename_observed] shows the
    conclusion really fails there, so the side condition cannot be dropped.  fids are per
    connection (disjoint by construction) and are not modelled in this instance. *)
Inductive fval := VNone | VFile (data : list nat) | VDir.
Inductive freply := ROk | RErr | RData (d : list nat).
Inductive fop :=
| OCreate (p : list string) | OMkdir (p : list string) | OWrite (p : list string) (d : list nat) | ORead (p : list string)
| OUnlink (p : list string) | ORename (p q : list string)       (* one file, any two directories *)
| ORenameDir (p q : list string).                               (* a directory with everything below it *)

Definition path_eqb (a b : list string) : bool := if list_eq_dec string_dec a b then true else false.
Lemma path_eqb_eq : forall a b, path_eqb a b = true <-> a = b.
Proof. intros a b. unfold path_eqb. destruct (list_eq_dec string_dec a b); split; auto; discriminate. Qed.

(** [strip p k = Some r] iff [k = p ++ r] *)
Fixpoint strip (p k : list string) : option (list string) :=
  match p, k with
  | [], _ => Some k
  | x :: p', y :: k' => if string_dec x y then strip p' k' else None
  | _ :: _, [] => None
  end.
Definition prefixb (p k : list string) : bool := match strip p k with Some _ => true | None => false end.

Lemma strip_app : forall p k r, strip p k = Some r -> k = p ++ r.
Proof.
  induction p as [|x p IH]; intros k r H; cbn in *; [inversion H; auto|].
  destruct k as [|y k]; [discriminate|]. destruct (string_dec x y); [|discriminate]. subst. f_equal. apply IH; auto.
Qed.
Lemma strip_self : forall p r, strip p (p ++ r) = Some r.
Proof. induction p as [|x p IH]; intros r; cbn; auto. destruct (string_dec x x); [auto|congruence]. Qed.
Lemma prefixb_self : forall p r, prefixb p (p ++ r) = true.
Proof. intros. unfold prefixb. rewrite strip_self. reflexivity. Qed.

Lemma prefixb_refl : forall p, prefixb p p = true.
Proof. intros p. pose proof (prefixb_self p []) as H. rewrite app_nil_r in H. exact H. Qed.

Definition fstate := kstate (list string) fval.
Definition put (s : fstate) (k : list string) (v : fval) : fstate := fun k' => if path_eqb k' k then v else s k'.
Definition move_dir (s : fstate) (p q : list string) : fstate :=
  fun k => match strip q k with
           | Some r => s (p ++ r)
           | None => match strip p k with Some _ => VNone | None => s k end
           end.

Definition frun (o : fop) (s : fstate) : fstate * freply :=
  match o with
  | OCreate p => match s p with VNone => (put s p (VFile []), ROk) | _ => (s, RErr) end
  | OMkdir p => match s p with VNone => (put s p VDir, ROk) | _ => (s, RErr) end
  | OWrite p d => match s p with VFile _ => (put s p (VFile d), ROk) | _ => (s, RErr) end
  | ORead p => match s p with VFile d => (s, RData d) | _ => (s, RErr) end
  | OUnlink p => match s p with VFile _ => (put s p VNone, ROk) | _ => (s, RErr) end
  | ORename p q => match s p, s q with
                   | VFile d, VNone => (put (put s p VNone) q (VFile d), ROk)
                   | _, _ => (s, RErr) end
  | ORenameDir p q => if prefixb p q then (s, RErr)            (* a directory cannot move below itself *)
                      else match s p, s q with
                           | VDir, VNone => (move_dir s p q, ROk)
                           | _, _ => (s, RErr) end
  end.

Definition ffoot (o : fop) (k : list string) : bool :=
  match o with
  | OCreate p | OMkdir p | OWrite p _ | ORead p | OUnlink p => path_eqb k p
  | ORename p q => path_eqb k p || path_eqb k q
  | ORenameDir p q => prefixb p k || prefixb q k
  end.

Lemma put_same : forall s k v, put s k v k = v.
Proof. intros. unfold put. rewrite (proj2 (path_eqb_eq k k) eq_refl). reflexivity. Qed.
Lemma put_other : forall s k v k', path_eqb k' k = false -> put s k v k' = s k'.
Proof. intros. unfold put. rewrite H. reflexivity. Qed.

Lemma flocal : forall o, local _ _ _ _ frun ffoot o.
Proof.
  intros o. split.
  - intros s s' A. destruct o as [p|p|p d|p|p|p q|p q]; cbn in *.
    + rewrite <- (A p (proj2 (path_eqb_eq p p) eq_refl)). destruct (s p); cbn; split; auto.
      intros k Hk. apply path_eqb_eq in Hk. subst. rewrite !put_same. auto.
    + rewrite <- (A p (proj2 (path_eqb_eq p p) eq_refl)). destruct (s p); cbn; split; auto.
      intros k Hk. apply path_eqb_eq in Hk. subst. rewrite !put_same. auto.
    + rewrite <- (A p (proj2 (path_eqb_eq p p) eq_refl)). destruct (s p); cbn; split; auto.
      intros k Hk. apply path_eqb_eq in Hk. subst. rewrite !put_same. auto.
    + rewrite <- (A p (proj2 (path_eqb_eq p p) eq_refl)). destruct (s p); cbn; split; auto.
    + rewrite <- (A p (proj2 (path_eqb_eq p p) eq_refl)). destruct (s p); cbn; split; auto.
      intros k Hk. apply path_eqb_eq in Hk. subst. rewrite !put_same. auto.
    + assert (Ap : s p = s' p) by (apply A; rewrite (proj2 (path_eqb_eq p p) eq_refl); auto).
      assert (Aq : s q = s' q) by (apply A; rewrite (proj2 (path_eqb_eq q q) eq_refl); apply orb_true_r).
      rewrite <- Ap, <- Aq. destruct (s p); cbn; [split; auto| |split; auto]. destruct (s q); cbn; split; auto.
      intros k Hk. unfold put. destruct (path_eqb k q); auto. destruct (path_eqb k p); auto. discriminate.
    + destruct (prefixb p q); [cbn; split; auto|].
      assert (Ap : s p = s' p).
      { apply A. rewrite prefixb_refl. auto. }
      assert (Aq : s q = s' q).
      { apply A. rewrite prefixb_refl. apply orb_true_r. }
      rewrite <- Ap, <- Aq. destruct (s p); cbn; try (split; auto; fail). destruct (s q); cbn; split; auto.
      intros k Hk. unfold move_dir. destruct (strip q k) as [r|] eqn:Sq.
      * apply A. rewrite prefixb_self. auto.
      * destruct (strip p k); auto.
  - intros s k Hk. destruct o as [p|p|p d|p|p|p q|p q]; cbn in *.
    + destruct (s p); cbn; auto. apply put_other; auto.
    + destruct (s p); cbn; auto. apply put_other; auto.
    + destruct (s p); cbn; auto. apply put_other; auto.
    + destruct (s p); cbn; auto.
    + destruct (s p); cbn; auto. apply put_other; auto.
    + apply orb_false_iff in Hk. destruct Hk as [Hp Hq]. destruct (s p); cbn; auto. destruct (s q); cbn; auto.
      rewrite put_other by auto. apply put_other; auto.
    + apply orb_false_iff in Hk. destruct Hk as [Hp Hq]. destruct (prefixb p q); cbn; auto.
      destruct (s p); cbn; auto. destruct (s q); cbn; auto.
      unfold move_dir. unfold prefixb in Hp, Hq. destruct (strip q k); [discriminate|]. destruct (strip p k); [discriminate|]. auto.
Qed.

(** client [true] works under /a, client [false] under /b *)
Definition top (c : bool) : string := if c then "a"%string else "b"%string.
Definition fregion (c : bool) (k : list string) : Prop := exists r, k = top c :: r.
Definition under (c : bool) (o : fop) : Prop :=
  match o with
  | OCreate p | OMkdir p | OWrite p _ | ORead p | OUnlink p => fregion c p
  | ORename p q | ORenameDir p q => fregion c p /\ fregion c q      (* both ends in the client's own subtree *)
  end.

Lemma fdisjoint : forall k, fregion true k -> fregion false k -> False.
Proof. intros k [r1 E1] [r2 E2]. rewrite E1 in E2. inversion E2. Qed.

Lemma fregion_below : forall c p k, fregion c p -> prefixb p k = true -> fregion c k.
Proof.
  intros c p k [r E] H. unfold prefixb in H. destruct (strip p k) as [r'|] eqn:S; [|discriminate].
  apply strip_app in S. subst. exists (r ++ r'). reflexivity.
Qed.

Lemma fwf : forall c o, under c o -> wf _ _ _ _ frun ffoot fregion c o.
Proof.
  intros c o U. split; [apply flocal|]. intros k Hk.
  destruct o as [p|p|p d|p|p|p q|p q]; cbn in *.
  - apply path_eqb_eq in Hk; subst; auto.
  - apply path_eqb_eq in Hk; subst; auto.
  - apply path_eqb_eq in Hk; subst; auto.
  - apply path_eqb_eq in Hk; subst; auto.
  - apply path_eqb_eq in Hk; subst; auto.
  - apply orb_true_iff in Hk. destruct U as [U1 U2]. destruct Hk as [Hk|Hk]; apply path_eqb_eq in Hk; subst; auto.
  - apply orb_true_iff in Hk. destruct U as [U1 U2]. destruct Hk as [Hk|Hk]; [exact (fregion_below c p k U1 Hk)|exact (fregion_below c q k U2 Hk)].
Qed.

Theorem fs_isolation : forall c h s, (forall d o, In (d, o) h -> under d o) ->
  only c (run_all _ _ _ _ frun s h) = run_all _ _ _ _ frun s (only c h).
Proof.
  intros c h s U. apply (isolation _ _ _ _ frun ffoot fregion fdisjoint). intros d o Hin. apply fwf. auto.
Qed.

(** the hypothesis covers renames between different directories of a client's own subtree *)
Example cross_directory_rename_allowed :
  under true (ORename ["a"; "x"; "f"] ["a"; "y"; "g"])%string /\ under false (ORenameDir ["b"; "d"] ["b"; "e"; "d2"])%string.
Proof. cbn. repeat split; eexists; reflexivity. Qed.

(** without the side condition the statement is false: a rename out of the other client's subtree is observed *)
Example cross_rename_observed :
  let s0 : fstate := fun k => if path_eqb k ["b"; "x"]%string then VFile [7] else VNone in
  let h := [(false, ORename ["b"; "x"] ["a"; "x"]); (true, ORead ["a"; "x"])]%string in
  only true (run_all _ _ _ _ frun s0 h) <> run_all _ _ _ _ frun s0 (only true h).
Proof. vm_compute. discriminate. Qed.
