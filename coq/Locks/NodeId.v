(** "Same path => same path node": a model of the server's path tree (pathNode.childNodes) and of
    pathNodeFor, the only place besides NewServer where a pathNode is made (obligation
    Tables.node_identity_ok over the generated tables node_fields / node_allocs).

    A tree state is the set of (parent node, name, child node) entries plus the allocation counter.
    [node_for] is pathNodeFor: look the name up, make and register a new node only when it is absent.
    Lookup and registration are one atomic step here; in the code they are the re-check and the store
    inside one childMu.Lock() section (the access sites of "childNodes" in pathNode.pathNodeFor are in
    the generated table with SChild held for writing: C16_guarded, Tables.expected_access). *)
From Coq Require Import String List Bool Arith Lia.
Import ListNotations.
Open Scope string_scope.

Definition nid := nat.
Record tree := mkTree { entries : list (nid * string * nid); next : nid }.

Definition key_eqb (p : nid) (x : string) (e : nid * string * nid) : bool :=
  Nat.eqb p (fst (fst e)) && String.eqb x (snd (fst e)).

Definition lookup (t : tree) (p : nid) (x : string) : option nid :=
  match find (key_eqb p x) (entries t) with Some e => Some (snd e) | None => None end.

(** pathNodeFor *)
Definition node_for (t : tree) (p : nid) (x : string) : tree * nid :=
  match lookup t p x with
  | Some c => (t, c)
  | None => (mkTree ((p, x, next t) :: entries t) (S (next t)), next t)
  end.

(** walking a path from a node: one pathNodeFor per component (doWalk, tlcreate, walkOne, tunlinkat) *)
Fixpoint walk (t : tree) (n : nid) (names : list string) : tree * nid :=
  match names with
  | [] => (t, n)
  | x :: r => let '(t1, c) := node_for t n x in walk t1 c r
  end.

(** any number of walks by anybody (other requests, other connections: ONE tree per server) *)
Fixpoint walks (t : tree) (ws : list (nid * list string)) : tree :=
  match ws with
  | [] => t
  | (n, names) :: r => walks (fst (walk t n names)) r
  end.

(** [ext t t']: t' has every entry of t with the same child (entries are only added, never changed, by walks) *)
Definition ext (t t' : tree) : Prop := forall p x c, lookup t p x = Some c -> lookup t' p x = Some c.

Lemma ext_refl : forall t, ext t t.
Proof. intros t p x c H. exact H. Qed.
Lemma ext_trans : forall a b c, ext a b -> ext b c -> ext a c.
Proof. intros a b c H1 H2 p x d H. apply H2, H1, H. Qed.

Lemma lookup_cons : forall es nx nx' p x q y c,
  lookup (mkTree ((q, y, c) :: es) nx) p x = if key_eqb p x (q, y, c) then Some c else lookup (mkTree es nx') p x.
Proof. intros. unfold lookup. cbn [entries find]. destruct (key_eqb p x (q, y, c)); reflexivity. Qed.

Lemma lookup_next_irrelevant : forall es a b p x, lookup (mkTree es a) p x = lookup (mkTree es b) p x.
Proof. reflexivity. Qed.

Lemma node_for_ext : forall t p x, ext t (fst (node_for t p x)).
Proof.
  intros t p x q y c H. unfold node_for. destruct (lookup t p x) eqn:E; cbn [fst]; auto.
  destruct t as [es nx]. cbn [next entries]. rewrite (lookup_cons es (S nx) nx).
  destruct (key_eqb q y (p, x, nx)) eqn:K.
  - unfold key_eqb in K. cbn [fst snd] in K. apply andb_true_iff in K. destruct K as [K1 K2].
    apply Nat.eqb_eq in K1. apply String.eqb_eq in K2. subst. rewrite H in E. discriminate.
  - exact H.
Qed.

Lemma node_for_registered : forall t p x, lookup (fst (node_for t p x)) p x = Some (snd (node_for t p x)).
Proof.
  intros t p x. unfold node_for. destruct (lookup t p x) eqn:E; cbn [fst snd]; auto.
  destruct t as [es nx]. cbn [next entries]. rewrite (lookup_cons es (S nx) nx).
  unfold key_eqb. cbn [fst snd]. rewrite Nat.eqb_refl, String.eqb_refl. reflexivity.
Qed.

Lemma node_for_found : forall t p x c, lookup t p x = Some c -> node_for t p x = (t, c).
Proof. intros t p x c H. unfold node_for. rewrite H. reflexivity. Qed.

Lemma walk_ext : forall names t n, ext t (fst (walk t n names)).
Proof.
  induction names as [|x r IH]; intros t n; cbn [walk].
  - apply ext_refl.
  - destruct (node_for t n x) as [t1 c] eqn:E.
    eapply ext_trans; [|apply IH]. pose proof (node_for_ext t n x) as H. rewrite E in H. exact H.
Qed.

Lemma walks_ext : forall ws t, ext t (walks t ws).
Proof.
  induction ws as [|[n names] r IH]; intros t; cbn [walks].
  - apply ext_refl.
  - eapply ext_trans; [apply walk_ext|apply IH].
Qed.

(** one component: whatever walks happen in between, pathNodeFor answers with the same node *)
Theorem node_for_stable : forall t p x ws,
  let '(t1, c) := node_for t p x in
  snd (node_for (walks t1 ws) p x) = c.
Proof.
  intros t p x ws. destruct (node_for t p x) as [t1 c] eqn:E.
  pose proof (node_for_registered t p x) as R. rewrite E in R. cbn [fst snd] in R.
  apply (walks_ext ws) in R. rewrite (node_for_found _ _ _ _ R). reflexivity.
Qed.

(** a walk that finds every component registered returns the registered nodes and leaves the tree alone *)
Fixpoint resolves (t : tree) (n : nid) (names : list string) (c : nid) : Prop :=
  match names with
  | [] => c = n
  | x :: r => exists m, lookup t n x = Some m /\ resolves t m r c
  end.

Lemma resolves_ext : forall names t t' n c, ext t t' -> resolves t n names c -> resolves t' n names c.
Proof.
  induction names as [|x r IH]; intros t t' n c He H; cbn [resolves] in *; auto.
  destruct H as [m [H1 H2]]. exists m. split; [apply He, H1|eapply IH; eauto].
Qed.

Lemma walk_resolves : forall names t n, resolves (fst (walk t n names)) n names (snd (walk t n names)).
Proof.
  induction names as [|x r IH]; intros t n; cbn [walk resolves]; auto.
  destruct (node_for t n x) as [t1 c] eqn:E. exists c. split.
  - pose proof (node_for_registered t n x) as R. rewrite E in R. cbn [fst snd] in R.
    apply (walk_ext r t1 c). exact R.
  - apply IH.
Qed.

Lemma walk_of_resolved : forall names t n c, resolves t n names c -> walk t n names = (t, c).
Proof.
  induction names as [|x r IH]; intros t n c H; cbn [walk resolves] in *.
  - subst. reflexivity.
  - destruct H as [m [H1 H2]]. rewrite (node_for_found _ _ _ _ H1). apply IH, H2.
Qed.

(** SAME PATH => SAME NODE: two walks of one path from one node, by any two requests on any connections of
    the server, with any number of other walks before, between and after, end on the same path node — as
    long as no entry is removed in between (removeWithName runs only under renameMu.W / the parent's
    opMu.W, i.e. for unlink and rename, which is when the path stops naming the same file). *)
Theorem same_path_same_node : forall t n names ws,
  let '(t1, c) := walk t n names in
  walk (walks t1 ws) n names = (walks t1 ws, c).
Proof.
  intros t n names ws. destruct (walk t n names) as [t1 c] eqn:E.
  apply walk_of_resolved. apply (resolves_ext names t1); [apply walks_ext|].
  pose proof (walk_resolves names t n) as R. rewrite E in R. exact R.
Qed.

(** ... and different names below one node get different nodes (a new node is taken from the counter):
    well-formedness = every registered child is below the counter and registered once. *)
Definition wf (t : tree) : Prop :=
  (forall p x c, In (p, x, c) (entries t) -> c < next t) /\
  (forall p x q y c, lookup t p x = Some c -> lookup t q y = Some c -> p = q /\ x = y).

Lemma lookup_In : forall t p x c, lookup t p x = Some c -> In (p, x, c) (entries t).
Proof.
  intros t p x c H. unfold lookup in H. destruct (find (key_eqb p x) (entries t)) as [[[q y] d]|] eqn:F; [|discriminate].
  inversion H; subst. apply find_some in F. destruct F as [Hin K]. unfold key_eqb in K. cbn [fst snd] in *.
  apply andb_true_iff in K. destruct K as [K1 K2]. apply Nat.eqb_eq in K1. apply String.eqb_eq in K2. subst. exact Hin.
Qed.

Lemma wf_empty : forall k, wf (mkTree [] k).
Proof. intros k. split; [intros p x c []|intros p x q y c H; discriminate]. Qed.

Lemma node_for_wf : forall t p x, wf t -> wf (fst (node_for t p x)).
Proof.
  intros t p x [W1 W2]. unfold node_for. destruct (lookup t p x) eqn:E; cbn [fst]; [split; assumption|].
  destruct t as [es nx]. cbn [next entries] in *. split.
  - cbn [next entries]. intros q y c [H|H]; [inversion H; subst; lia|]. apply W1 in H. lia.
  - intros q y q' y' c H1 H2. rewrite (lookup_cons es (S nx) nx) in H1, H2.
    destruct (key_eqb q y (p, x, nx)) eqn:K1; destruct (key_eqb q' y' (p, x, nx)) eqn:K2.
    + unfold key_eqb in K1, K2. cbn [fst snd] in K1, K2. apply andb_true_iff in K1, K2.
      destruct K1 as [A1 A2], K2 as [B1 B2]. apply Nat.eqb_eq in A1, B1. apply String.eqb_eq in A2, B2. subst. auto.
    + inversion H1; subst. apply lookup_In, W1 in H2. cbn [entries next] in H2. lia.
    + inversion H2; subst. apply lookup_In, W1 in H1. cbn [entries next] in H1. lia.
    + eapply W2; eauto.
Qed.

Theorem distinct_names_distinct_nodes : forall t p x q y,
  wf t -> (p, x) <> (q, y) ->
  let '(t1, c) := node_for t p x in
  snd (node_for t1 q y) <> c.
Proof.
  intros t p x q y W Hne. destruct (node_for t p x) as [t1 c] eqn:E. intro Heq.
  pose proof (node_for_wf t p x W) as W1. rewrite E in W1. cbn [fst] in W1.
  pose proof (node_for_registered t p x) as R1. rewrite E in R1. cbn [fst snd] in R1.
  pose proof (node_for_registered t1 q y) as R2. rewrite Heq in R2.
  pose proof (node_for_wf t1 q y W1) as W2.
  apply (node_for_ext t1 q y) in R1.
  destruct W2 as [_ W2]. destruct (W2 _ _ _ _ _ R1 R2) as [-> ->]. apply Hne. reflexivity.
Qed.

(** example: two connections walking d/c and d/e in any order share d and get different leaves *)
Example node_example :
  let t0 := mkTree [] 1 in
  let '(t1, a) := walk t0 0 ["d"; "c"] in
  let '(t2, b) := walk t1 0 ["d"; "e"] in
  let '(t3, a') := walk t2 0 ["d"; "c"] in
  a = a' /\ a <> b /\ t3 = t2.
Proof. vm_compute. repeat split. discriminate. Qed.
