(** Symbolic locks, path nodes and sites: the vocabulary of the generated table gen/LockGen.v. *)
From Coq Require Import String List Bool.
Import ListNotations.
Open Scope string_scope.

(** concurrency classes documented on the File interface; CUndoc: the method's comment says nothing *)
Inductive cls := CNone | CRead | CWrite | CGlobal | CUndoc.

(** path nodes named the way the source names them:
    [NOf "ref"] = ref.pathNode; [NChild n x] = n.pathNodeFor(x) ("*": any child);
    [NParent n] = the node of the parent fidRef (x.parent.pathNode for a fidRef x on n) *)
Inductive snode :=
| NOf (r : string) | NChild (n : snode) (name : string) | NParent (n : snode)
| NMaybeParent (n : snode) | NTree | NVar (s : string).

Inductive slock :=
| SRename | SOp (n : snode) | SOpen (r : string) | SFid (c : string) | STag (c : string)
| SSend (c : string) | SRecv (c : string) | SChild (n : snode) | SOther (s : string).

Inductive skind :=
| KAcq (l : slock) (w : bool)                              (* Lock / RLock *)
| KCall (m : string) (recv : snode) (entry : option snode)   (* backend call File.m on the File of node recv *)
| KAccess (map : string) (want : slock) (write : bool)      (* access to a guarded map; want = its designated mutex *)
| KField (f : string) (r : string) (write : bool)           (* fidRef.opened *)
| KWait (what : string)                                     (* channel receive / WaitGroup.Wait *)
| KDispatch                                                 (* handler.handle(cs) *)
| KNew (file node : snode) (parent : option snode)          (* fidRef{file:, pathNode:, parent:}: node of the File, node assigned, node of the parent ref *)
| KRef (op : string) (weak : bool).                         (* IncRef / TryIncRef on a fidRef; weak: the fidRef was found by ranging over a path node's childRefs,
                                                               a registration that owns no reference (the fidRef may be dying: count 0, Close in progress) *)

(** one step of the plan that leads to a site *)
Inductive pact :=
| PA (l : slock) (w : bool) (facts : list (snode * snode))   (* Lock / RLock, with the node inequalities known there *)
| PR (l : slock).                                            (* Unlock / RUnlock *)

Record site := mkSite {
  s_root : string; s_fn : string; s_pos : string; s_kind : skind;
  s_held : list (slock * bool); s_facts : list (snode * snode);
  s_undeferred : list (slock * bool);
  s_path : list pact }.                  (* calls, acquisitions, opened: every Lock/Unlock from the start of the root to here *)

   (* backend calls: held locks whose release is not deferred *)

Fixpoint snode_eqb (a b : snode) : bool :=
  match a, b with
  | NOf x, NOf y => String.eqb x y
  | NChild n x, NChild m y => snode_eqb n m && String.eqb x y
  | NParent n, NParent m => snode_eqb n m
  | NMaybeParent n, NMaybeParent m => snode_eqb n m
  | NTree, NTree => true
  | NVar x, NVar y => String.eqb x y
  | _, _ => false
  end.

Definition slock_eqb (a b : slock) : bool :=
  match a, b with
  | SRename, SRename => true
  | SOp n, SOp m | SChild n, SChild m => snode_eqb n m
  | SOpen x, SOpen y | SFid x, SFid y | STag x, STag y | SSend x, SSend y | SRecv x, SRecv y | SOther x, SOther y => String.eqb x y
  | _, _ => false
  end.

(** the locks held after a plan, recomputed with the semantics of Locks.tstep (cons / remove every entry of the lock) *)
Fixpoint pheld_from (h : list (slock * bool)) (p : list pact) : list (slock * bool) :=
  match p with
  | [] => h
  | PA l w _ :: r => pheld_from ((l, w) :: h) r
  | PR l :: r => pheld_from (filter (fun x => negb (slock_eqb l (fst x))) h) r
  end.
Definition pheld (p : list pact) := pheld_from [] p.

(** every lock taken on the way to a site (released ones included) *)
Definition s_pre (st : site) : list (slock * bool) :=
  flat_map (fun a => match a with PA l w _ => [(l, w)] | PR _ => [] end) (s_path st).

Lemma snode_eqb_eq : forall a b, snode_eqb a b = true <-> a = b.
Proof.
  induction a; destruct b; cbn; try (split; [discriminate|intro H; inversion H]); try tauto.
  - rewrite String.eqb_eq. split; intro H; [subst|inversion H]; auto.
  - rewrite andb_true_iff, IHa, String.eqb_eq. split; [intros [-> ->]; auto|intro H; inversion H; auto].
  - rewrite IHa. split; [intros ->; auto|intro H; inversion H; auto].
  - rewrite IHa. split; [intros ->; auto|intro H; inversion H; auto].
  - rewrite String.eqb_eq. split; intro H; [subst|inversion H]; auto.
Qed.

Lemma slock_eqb_eq : forall a b, slock_eqb a b = true <-> a = b.
Proof.
  destruct a, b; cbn; try (split; [discriminate|intro H; inversion H]); try tauto;
    try (rewrite String.eqb_eq; split; intro H; [subst|inversion H]; auto);
    try (rewrite snode_eqb_eq; split; intro H; [subst|inversion H]; auto).
Qed.

Definition has (h : list (slock * bool)) (l : slock) : bool := existsb (fun x => slock_eqb (fst x) l) h.
Definition hasW (h : list (slock * bool)) (l : slock) : bool := existsb (fun x => slock_eqb (fst x) l && snd x) h.

Lemma has_In : forall h l, has h l = true -> exists w, In (l, w) h.
Proof.
  intros h l H. apply existsb_exists in H. destruct H as [[l' w] [Hin E]]. cbn in E.
  apply slock_eqb_eq in E. subst. eauto.
Qed.

Lemma hasW_In : forall h l, hasW h l = true -> In (l, true) h.
Proof.
  intros h l H. apply existsb_exists in H. destruct H as [[l' w] [Hin E]]. cbn in E.
  apply andb_true_iff in E. destruct E as [E1 E2]. apply slock_eqb_eq in E1. subst. auto.
Qed.
