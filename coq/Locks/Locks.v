(** Lock model for C07 / C16 (definitions only; proofs in LockProofs.v and Order.v).

    Any number of threads.  A thread is a plan (list of actions) together with the
    locks it holds and the backend calls it is inside of.  Any thread whose next
    action is enabled may move; [Acq] is enabled per reader/writer rules.  The step
    relation is the PERMISSIVE one (no writer preference): it has more behaviours
    than Go's sync.RWMutex.  Deadlock freedom (Order.v) is stated with the STRICT
    notion of "blocked" (a pending writer blocks new readers, as in Go), over every
    state reachable under the permissive relation, so it covers both semantics. *)
From Coq Require Import List Bool Arith Lia.
Import ListNotations.

Section Model.
  Variable lock : Type.
  Variable lock_eqb : lock -> lock -> bool.
  Variable call : Type.
  Variable call_eqb : call -> call -> bool.

  Inductive act := Acq (l : lock) (w : bool) | Rel (l : lock) | Enter (c : call) | Exit (c : call) | Tau.

  Record thread := mkT { held : list (lock * bool); inside : list call; rest : list act }.
  Definition state := list thread.

  Definition remove_lock (l : lock) (h : list (lock * bool)) := filter (fun x => negb (lock_eqb l (fst x))) h.
  Definition remove_call (c : call) (ins : list call) := filter (fun x => negb (call_eqb c x)) ins.

  Fixpoint upd (s : state) (i : nat) (t' : thread) : state :=
    match s, i with
    | [], _ => []
    | _ :: r, 0 => t' :: r
    | x :: r, S i' => x :: upd r i' t'
    end.

  Definition holds (s : state) (j : nat) (l : lock) (w : bool) :=
    exists t, nth_error s j = Some t /\ In (l, w) (held t).

  (** thread [i] may take [l] in mode [w]: no OTHER thread holds it in a conflicting mode *)
  Definition free_for (s : state) (i : nat) (l : lock) (w : bool) :=
    forall j w', j <> i -> holds s j l w' -> w = false /\ w' = false.

  Inductive tstep (s : state) (i : nat) : thread -> thread -> Prop :=
  | SAcq l w h ins r : free_for s i l w -> tstep s i (mkT h ins (Acq l w :: r)) (mkT ((l, w) :: h) ins r)
  | SRel l h ins r : tstep s i (mkT h ins (Rel l :: r)) (mkT (remove_lock l h) ins r)
  | SEnter c h ins r : tstep s i (mkT h ins (Enter c :: r)) (mkT h (c :: ins) r)
  | SExit c h ins r : tstep s i (mkT h ins (Exit c :: r)) (mkT h (remove_call c ins) r)
  | STau h ins r : tstep s i (mkT h ins (Tau :: r)) (mkT h ins r).

  Inductive step : state -> state -> Prop :=
  | Step s i t t' : nth_error s i = Some t -> tstep s i t t' -> step s (upd s i t').

  Definition init (plans : list (list act)) : state := map (fun p => mkT [] [] p) plans.

  Inductive reachable (plans : list (list act)) : state -> Prop :=
  | RInit : reachable plans (init plans)
  | RStep s s' : reachable plans s -> step s s' -> reachable plans s'.

  (** ** C07: regions guarded by locks *)
  Variable guard : call -> list (lock * bool).

  (** at every point of the plan, every call the thread is inside of has its guard among the held locks *)
  Fixpoint gplan (h : list (lock * bool)) (ins : list call) (p : list act) : Prop :=
    (forall c, In c ins -> incl (guard c) h) /\
    match p with
    | [] => True
    | Acq l w :: p' => gplan ((l, w) :: h) ins p'
    | Rel l :: p' => gplan (remove_lock l h) ins p'
    | Enter c :: p' => gplan h (c :: ins) p'
    | Exit c :: p' => gplan h (remove_call c ins) p'
    | Tau :: p' => gplan h ins p'
    end.

  (** ** C16: ordering discipline *)
  Variable rank : lock -> nat * nat.
  Variable gate : lock.               (* renameMu *)
  Variable childish : lock -> bool.   (* childMu instances *)

  Definition rlt (a b : nat * nat) := fst a < fst b \/ (fst a = fst b /\ snd a < snd b).

  Definition has_gateW (h : list (lock * bool)) := existsb (fun x => lock_eqb (fst x) gate && snd x) h.

  (** discipline D of DESIGN Appendix B2, for a request of [l] while holding [h]:
      (i) [l] is not held; (ii) without the gate held for writing the request is rank
      increasing; (iii) a holder of the gate for writing requests only childMu's;
      (iv) a childMu is held across a request only by holders of the gate. *)
  Definition acq_ok (h : list (lock * bool)) (l : lock) : Prop :=
    ~ In l (map fst h) /\
    (if has_gateW h then childish l = true
     else forall l' w', In (l', w') h -> rlt (rank l') (rank l)) /\
    (forall l' w', In (l', w') h -> childish l' = true -> exists wg, In (gate, wg) h).

  Fixpoint oplan (h : list (lock * bool)) (p : list act) : Prop :=
    match p with
    | [] => h = []
    | Acq l w :: p' => acq_ok h l /\ oplan ((l, w) :: h) p'
    | Rel l :: p' => oplan (remove_lock l h) p'
    | _ :: p' => oplan h p'
    end.

  (** STRICT blocking (Go's RWMutex with writer preference; mutexes are not re-entrant) *)
  Definition blocked (s : state) (i : nat) : Prop :=
    exists t l w r, nth_error s i = Some t /\ rest t = Acq l w :: r /\
      ( (exists j w', j <> i /\ holds s j l w' /\ (w = true \/ w' = true))
        \/ (w = false /\ exists j tj rj, j <> i /\ nth_error s j = Some tj /\ rest tj = Acq l true :: rj)
        \/ In l (map fst (held t)) ).

  Definition remaining (s : state) : nat := fold_right (fun t n => length (rest t) + n) 0 s.
End Model.

Arguments Acq {lock call}.
Arguments Rel {lock call}.
Arguments Enter {lock call}.
Arguments Exit {lock call}.
Arguments Tau {lock call}.
Arguments mkT {lock call}.
Arguments held {lock call}.
Arguments inside {lock call}.
Arguments rest {lock call}.
